/-
  Typed targets, part 16: the scalar theorem.
-/
import SF.Proofs.UnfTyScalar
namespace SF.Unf
open SF

variable {D : Nat} {base : S6}

theorem Frame.need_pos (F : Frame) : 1 ≤ F.need := by
  cases F <;> simp [Frame.need]

theorem ruOK_elem_slice {e : GoType} {ru : RU} (h : ruOK D (.slice e ru)) : ruOK D ru ∧ ru.req = shOf e :=
  ⟨⟨h.1.2, by have := h.2; simp only [RU.depth] at this; omega⟩, h.1.1⟩
theorem ruOK_elem_map {e : GoType} {ru : RU} (h : ruOK D (.map e ru)) : ruOK D ru ∧ ru.req = shOf e :=
  ⟨⟨h.1.2, by have := h.2; simp only [RU.depth] at this; omega⟩, h.1.1⟩
theorem ruOK_elem_ptr {e : GoType} {ru : RU} (h : ruOK D (.ptr e ru)) : ruOK D ru ∧ ru.req = shOf e :=
  ⟨⟨h.1.2, by have := h.2; simp only [RU.depth] at this; omega⟩, h.1.1⟩

/-- the outcome of a scalar at the top frame `F` -/
def ScalarOut (D : Nat) (base : S6) (F : Frame) (fs : List Frame) (r : R Unit) : Prop :=
  (∃ e c', r = .err e c') ∨ (∃ c' fs', scalarNext F fs = some fs' ∧ r = .ok () c' ∧ Inv D base fs' c')

theorem bind_ok {α β : Type} (m : M α) (f : α → M β) (c c1 : Ctx) (a : α) (h : m c = .ok a c1) :
    (m >>= f) c = f a c1 := by
  rw [bind_def, h]

/-- ANY SCALAR, ANY FRAME: an error, or accepted with the invariant kept -/
theorem scalar_step : ∀ (n : Nat) (F : Frame) (fs : List Frame) (c : Ctx) (s : Sc),
    Inv D base (F :: fs) c → F.hasU → F.need ≤ n → ScalarOut D base F fs (onScalar n s c) := by
  intro n
  induction n with
  | zero => intro F fs c s _ _ hn; have := F.need_pos; omega
  | succ n ih =>
    intro F fs c s h hU hn
    have hcur := h.cur hU
    cases F with
    | sub a bt sl k => exact hU.elim
    | cellx C => exact hU.elim
    | prim k p =>
      cases hc : k.conv s with
      | none => exact Or.inl ⟨_, _, scalar_conv_none k n s c (Or.inl hcur) hc⟩
      | some v =>
        obtain ⟨c', h1, h2⟩ := scalar_prim k p n s v h hc
        exact Or.inr ⟨c', fs, rfl, h1, h2⟩
    | arr k p i =>
      cases hc : k.conv s with
      | none => exact Or.inl ⟨_, _, scalar_conv_none k n s c (Or.inr (Or.inl hcur)) hc⟩
      | some v =>
        obtain ⟨c', h1, h2⟩ := scalar_arrF k p i n s v h hc
        exact Or.inr ⟨c', _, rfl, h1, h2⟩
    | mapV k p key =>
      cases hc : k.conv s with
      | none => exact Or.inl ⟨_, _, scalar_conv_none k n s c (Or.inr (Or.inr hcur)) hc⟩
      | some v =>
        obtain ⟨c', h1, h2⟩ := scalar_mapV k p key n s v h hc
        exact Or.inr ⟨c', _, rfl, h1, h2⟩
    | arrS k p => obtain ⟨e, he⟩ := scalar_errU n s c _ hcur trivial; exact Or.inl ⟨e, c, he⟩
    | mapS k p => obtain ⟨e, he⟩ := scalar_errU n s c _ hcur trivial; exact Or.inl ⟨e, c, he⟩
    | mapK k p => obtain ⟨e, he⟩ := scalar_errU n s c _ hcur trivial; exact Or.inl ⟨e, c, he⟩
    | rslS e ru p => obtain ⟨e, he⟩ := scalar_errU n s c _ hcur trivial; exact Or.inl ⟨e, c, he⟩
    | rmS e ru p => obtain ⟨e, he⟩ := scalar_errU n s c _ hcur trivial; exact Or.inl ⟨e, c, he⟩
    | rmK e ru p => obtain ⟨e, he⟩ := scalar_errU n s c _ hcur trivial; exact Or.inl ⟨e, c, he⟩
    | rsl e ru p i =>
      by_cases hs : s = .nil
      · subst hs
        obtain ⟨c', h1, h2⟩ := nil_rsl e ru p i n h
        exact Or.inr ⟨c', _, rfl, h1, h2⟩
      · obtain ⟨hru, hreq⟩ := ruOK_elem_slice h.wfs.1.2.1
        obtain ⟨c1, hprep, hinv1, ⟨x, hx, hxok⟩, _, _⟩ := prepare_rsl e ru p i h
        obtain ⟨c2, hinit, hinv2, _, _⟩ := init_at ru (p.push (.index i.toNat)) hru hinv1
          (fun a => ⟨⟨_, rfl⟩, by rw [hreq]; exact Sh.le_refl _⟩) x hx (by rw [hreq]; exact hxok)
        have hrun : onScalar (n + 1) s c = onScalar n s c2 := by
          rw [onScalar_rsl n s c e ru hcur hs, bind_ok _ _ c c1 _ hprep, bind_ok _ _ c1 c2 _ hinit]
        rw [hrun]
        have hneed : (waitF ru (p.push (.index i.toNat))).need ≤ n := by
          have := need_waitF ru (p.push (.index i.toNat)); simp only [Frame.need] at hn; omega
        rcases ih _ _ c2 s hinv2 (hasU_waitF _ _) hneed with ⟨er, c', he⟩ | ⟨c', fs', hnext, hok, hinv3⟩
        · exact Or.inl ⟨er, c', he⟩
        · rw [scalarNext_waitF _ _ _ _ hnext] at hinv3
          exact Or.inr ⟨c', _, rfl, hok, hinv3⟩
    | rmE e ru p key =>
      by_cases hs : s = .nil
      · subst hs
        obtain ⟨c', h1, h2⟩ := nil_rmE e ru p key n h
        exact Or.inr ⟨c', _, rfl, h1, h2⟩
      · obtain ⟨hru, hreq⟩ := ruOK_elem_map h.wfs.1.2
        obtain ⟨c1, hprep, hinv1, hx, _⟩ := prepare_cell e _ (show (Frame.rmE e ru p key).takesCell from trivial) h
        obtain ⟨c2, hinit, hinv2, _, _⟩ := init_at ru ⟨.cell c.cells.size, []⟩ hru hinv1
          (fun a => rfl) _ hx (by rw [hreq]; exact shaped_zero _ e)
        have hrun : onScalar (n + 1) s c = (onScalar n s >>= fun _ => reflMapOnElemProcess e ru) c2 := by
          rw [onScalar_rmE n s c e ru hcur hs, bind_ok _ _ c c1 _ hprep, bind_ok _ _ c1 c2 _ hinit]
        rw [hrun]
        have hneed : (waitF ru ⟨.cell c.cells.size, []⟩).need ≤ n := by
          have := need_waitF ru ⟨.cell c.cells.size, []⟩; simp only [Frame.need] at hn; omega
        rcases ih _ _ c2 s hinv2 (hasU_waitF _ _) hneed with ⟨er, c', he⟩ | ⟨c3, fs', hnext, hok, hinv3⟩
        · exact Or.inl ⟨er, c', by rw [bind_def, he]⟩
        · rw [scalarNext_waitF _ _ _ _ hnext] at hinv3
          obtain ⟨c4, hproc, hinv4⟩ := process_rmE _ e ru p key hinv3
          exact Or.inr ⟨c4, _, rfl, by rw [bind_ok _ _ c2 c3 _ hok]; exact hproc, hinv4⟩
    | rp e ru p =>
      by_cases hs : s = .nil
      · subst hs
        obtain ⟨c', h1, h2⟩ := nil_rp e ru p n h
        exact Or.inr ⟨c', _, rfl, h1, h2⟩
      · obtain ⟨hru, hreq⟩ := ruOK_elem_ptr h.wfs.1.2
        obtain ⟨c1, hprep, hinv1, hx, _⟩ := prepare_cell e _ (show (Frame.rp e ru p).takesCell from trivial) h
        obtain ⟨c2, hinit, hinv2, _, _⟩ := init_at ru ⟨.cell c.cells.size, []⟩ hru hinv1
          (fun a => rfl) _ hx (by rw [hreq]; exact shaped_zero _ e)
        have hrun : onScalar (n + 1) s c = (onScalar n s >>= fun _ => reflPtrProcess e) c2 := by
          rw [onScalar_rp n s c e ru hcur hs, reflPtrPrepare_eq, bind_ok _ _ c c1 _ hprep, bind_ok _ _ c1 c2 _ hinit]
        rw [hrun]
        have hneed : (waitF ru ⟨.cell c.cells.size, []⟩).need ≤ n := by
          have := need_waitF ru ⟨.cell c.cells.size, []⟩; simp only [Frame.need] at hn; omega
        rcases ih _ _ c2 s hinv2 (hasU_waitF _ _) hneed with ⟨er, c', he⟩ | ⟨c3, fs', hnext, hok, hinv3⟩
        · exact Or.inl ⟨er, c', by rw [bind_def, he]⟩
        · rw [scalarNext_waitF _ _ _ _ hnext] at hinv3
          obtain ⟨c4, hproc, hinv4, _⟩ := process_rp _ e ru p hinv3
          exact Or.inr ⟨c4, _, rfl, by rw [bind_ok _ _ c2 c3 _ hok]; exact hproc, hinv4⟩

end SF.Unf
