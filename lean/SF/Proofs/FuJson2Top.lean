/-
  C11, JSON path (Fold → JSON encoder → bytes → JSON parser → Unfolder), `[]T` and `map[string]T` for
  the FLOAT-FREE scalar kinds `T` (bool, string, every integer kind) — the "json" branch of
  `SF.Ops.Fu.model` (see the header of FuJsonTop.lean for the composition; `e` is ANY json.Visitor with
  a fresh writer at top level, `Fu.model` uses `fuEnc`).

  Conclusions as in the CBOR counterparts (FuCborTop.lean), with the JSON-specific facts explicit:
    * the parser reports containers with UNKNOWN length (-1) and element type `any`, every integer as
      `OnInt64` (above MaxInt64: `OnUint64`) — `jsonSc` —, every string and every KEY sanitised (each
      byte outside a well-formed UTF-8 sequence ↦ U+FFFD);
    * integers come back exact at every width, valid UTF-8 strings / keys exact;
    * nil and empty both come back as nil.
  No size condition is needed (JSON has no length heads).
-/
import SF.Proofs.FuJson2Run
import SF.Proofs.FuJson2Agree
import SF.Proofs.FuJsonTop
namespace SF.Props.FuJson
open SF SF.Gotype SF.Gotype.Fold SF.FoldProofs SF.FuId SF.FuJson
open SF.FuCbor (scEv scTree memEvs memTrees)
open SF.Unf (putAll)
open SF.Json
open SF.Json.Enc (intLit strToken sanitize validUtf8 toJ)
open SF.Unf (Ctx newUnfolder setTarget)
open SF.Ops.Unf (evToUEv)
open SF.Ops.Fu (feed agreeF)

/-- STAGE 3 — `[]T`, `T` a float-free scalar kind: nil, empty, or any elements `xs`.  Fold's ONE
typed-array event (`[]uint8` included: the JSON visitor has no `OnBytes`, EnsureExtVisitor expands it)
is written as `[x1,…,xn]` (the grammatical text `toJ e …`); the parser reports `OnArrayStart(-1, any)`,
the elements, `OnArrayFinished`; the target holds the elements — strings sanitised, EXACT when every
string is valid UTF-8 —, nil and empty both come back as nil. -/
theorem fold_json_unfold_slice (o : FoldOpts) (hfail : o.failAt = none) (e : Enc.Enc) (hw : e.w = {})
    (ha : e.inArray.current = false) (p : Prim) (hf : isFloatP p = false) (v : GoVal) (xs : List GoVal)
    (hv : sliceElems? v = some xs) (hxs : ∀ x ∈ xs, hasPrim p x = true) :
    ∃ ut c0 c1 s pr,
      Unf.Tr.trType (.slice (primTy p)) = some ut ∧
      setTarget Unf.Tr.fuTable ut (Unf.zero Unf.Tr.fuTable ut) newUnfolder = .ok c0 ∧
      (impl o (.slice (primTy p)) v).res = .ok ∧
      Enc.run e (impl o (.slice (primTy p)) v).evs = (s, none, .ok) ∧
      s.w.out = (toJ e (.arr xs.length (btOf true p) ((xs.map (scOfElem true p)).map scTree))).wire ∧
      s.w.out ≠ [] ∧
      Parse.writeChunks {} [s.w.out] = (pr, none) ∧ IdleJ pr ∧
      SF.Ops.Json.parseEvents [s.w.out] = (Parse.events pr, "ok") ∧
      Parse.events pr = .arrStart (-1) BT.any :: ((xs.map (scOfElem true p)).map jsonSc).map scEv ++ [.arrEnd] ∧
      feed c0 ((Parse.events pr).map fun e => [evToUEv e]) = (c1, none) ∧
      c1.target = (if xs.isEmpty then .sliceNil (uPrimTy p) else .slice (uPrimTy p) (xs.map (trPrimJ p)) []) ∧
      c1 = { newUnfolder with target := c1.target, env := Unf.Tr.fuTable } ∧
      back c1.target = (if xs.isEmpty then .nilSlice else .slice (xs.map fun x => back (trPrimJ p x))) ∧
      ((∀ x ∈ xs, trPrimJ p x = trPrim p x) → back c1.target = (if xs.isEmpty then .nilSlice else .slice xs)) ∧
      agreeF "json" 1000 (.slice (primTy p)) v (back c1.target) = true := by
  obtain ⟨c0, s, pr, h1, h2, h3, h4, h5, h6, h7, h8, h9⟩ := slice_json_run o hfail e hw ha p hf v xs hv hxs
  refine ⟨_, c0, _, s, pr, trType_slice p, h2, h1, h3, h4, h5, h6, h7, parseEvents_of h6, h8, h9, ?_, rfl,
    back_sliceFinJ p xs, ?_, agree_json_slice 998 p hf v xs hv hxs⟩
  · show Unf.sliceFin _ _ = _
    unfold Unf.sliceFin
    cases xs <;> rfl
  · intro hex
    show back (Unf.sliceFin (uPrimTy p) (xs.map (trPrimJ p))) = _
    rw [List.map_congr_left hex]
    exact back_sliceFin p xs hxs

/-- the exactness premise of `fold_json_unfold_slice`: integers and bools always; strings when valid UTF-8 -/
theorem trPrimJ_exact (p : Prim) (x : GoVal) (h : hasPrim p x = true)
    (hu : p = .string → validUtf8 (getS x) = true) : trPrimJ p x = trPrim p x := by
  cases p with
  | string =>
    cases x <;> simp [hasPrim] at h
    rename_i b
    have : sanitize b = b := Enc.sanitize_valid b (hu rfl)
    show Unf.GoVal.str (sanitize b) = .str b
    rw [this]
  | _ => rfl

/-! ## non-vacuity -/

/- `[]int16{-200, 0, 32767}` (wire `[-200,0,32767]`, reported as OnArrayStart(-1, any), three OnInt64),
`[]uint8{0, 255}` (no byte string on this path), `[]uint64{MaxUint64}` (OnUint64),
`[]string{"é", <0xFF>}` (the invalid byte comes back as U+FFFD), nil `[]string`, empty `[]bool` -/
example : (∀ x ∈ [GoVal.int (-200), .int 0, .int 32767], hasPrim (.num .i16) x = true) ∧
    wire {} (.slice (.int .i16)) (.slice [.int (-200), .int 0, .int 32767]) =
      [0x5b, 0x2d, 0x32, 0x30, 0x30, 0x2c, 0x30, 0x2c, 0x33, 0x32, 0x37, 0x36, 0x37, 0x5d] ∧
    wireEvents {} (.slice (.int .i16)) (.slice [.int (-200), .int 0, .int 32767]) =
      [.arrStart (-1) BT.any, .num .i64 (-200), .num .i64 0, .num .i64 32767, .arrEnd] ∧
    (match pipe {} (.slice (.int .i16)) (.slice [.int (-200), .int 0, .int 32767]) with
     | some (.slice (.int .i16) [.int .i16 (-200), .int .i16 0, .int .i16 32767] []) => true | _ => false) = true ∧
    wireEvents {} (.slice (.int .u8)) (.slice [.int 0, .int 255]) =
      [.arrStart (-1) BT.any, .num .i64 0, .num .i64 255, .arrEnd] ∧
    (match pipe {} (.slice (.int .u8)) (.slice [.int 0, .int 255]) with
     | some (.slice (.int .u8) [.int .u8 0, .int .u8 255] []) => true | _ => false) = true ∧
    (match pipe {} (.slice (.int .u64)) (.slice [.int 18446744073709551615]) with
     | some (.slice (.int .u64) [.int .u64 18446744073709551615] []) => true | _ => false) = true ∧
    (match pipe {} (.slice .string) (.slice [.str [0xc3, 0xa9], .str [0xff]]) with
     | some (.slice .string [.str [0xc3, 0xa9], .str [0xef, 0xbf, 0xbd]] []) => true | _ => false) = true ∧
    (match pipe {} (.slice .string) .nilSlice with
     | some (.sliceNil .string) => true | _ => false) = true ∧
    (match pipe {} (.slice .bool) (.slice []) with
     | some (.sliceNil .bool) => true | _ => false) = true := by decide +kernel

/-- STAGE 4 — `map[string]T`, `T` a float-free scalar kind: nil, empty, or any entries `ms` with pairwise
distinct string keys (`hnd`, as in every Go map), under EVERY iteration order the order oracle dictates
(`hintOK`).  Fold's ONE typed-map event reaches the encoder through map.go's expansion and is written
as `{"k1":x1,…}`; the parser reports `OnObjectStart(-1, any)`, key / value for `mems.map jm` — `mems` a
permutation of the entries, KEYS and string values sanitised, integers as int64 / uint64 —,
`OnObjectFinished`; the Unfolder accepts every event and the target holds `fin`, what `put` per member
leaves (`putAll`).
  * If the SANITISED keys are pairwise distinct (`(ms.map fun m => sanitize (getS m.1)).Nodup` — decidable;
    always so when the keys are valid UTF-8, `sanitized_keys_nodup`) `fin` is a permutation of the translated
    entries: nothing is lost, integers exact, valid strings exact.
  * If two distinct keys sanitise to the SAME key (only possible with invalid UTF-8 in both) the run is still
    accepted end to end, but the later member overwrites the earlier one: the target has FEWER entries
    (evaluated: `colliding_keys_lose_an_entry`); the full statement "fin is a permutation of the entries"
    is FALSE there, and the oracle's `agreeF "json"` makes no claim for such maps (its first branch).
  `agreeF "json" 1000 … = true` holds in BOTH cases. -/
theorem fold_json_unfold_map (o : FoldOpts) (hfail : o.failAt = none) (hord : hintOK o.order) (e : Enc.Enc)
    (hw : e.w = {}) (ha : e.inArray.current = false) (p : Prim) (hf : isFloatP p = false) (v : GoVal)
    (ms : List (GoVal × GoVal)) (hv : mapEntries? v = some ms) (hms : ∀ m ∈ ms, hasEntry p m = true)
    (hnd : (ms.map fun m => getS m.1).Nodup) :
    ∃ ut c0 c1 fin s pr mems,
      Unf.Tr.trType (.map .string (primTy p)) = some ut ∧
      setTarget Unf.Tr.fuTable ut (Unf.zero Unf.Tr.fuTable ut) newUnfolder = .ok c0 ∧
      (impl o (.map .string (primTy p)) v).res = .ok ∧
      Enc.run e (impl o (.map .string (primTy p)) v).evs = (s, none, .ok) ∧
      s.w.out = (toJ e (.obj ms.length (btOf false p) (memTrees mems))).wire ∧ s.w.out ≠ [] ∧
      Parse.writeChunks {} [s.w.out] = (pr, none) ∧ IdleJ pr ∧
      SF.Ops.Json.parseEvents [s.w.out] = (Parse.events pr, "ok") ∧
      mems.Perm (ms.map fun m => (getS m.1, scOfElem false p m.2)) ∧
      Parse.events pr = .objStart (-1) BT.any :: memEvs (mems.map jm) ++ [.objEnd] ∧
      feed c0 ((Parse.events pr).map fun e => [evToUEv e]) = (c1, none) ∧
      putAll (pkOf p) (mems.map jm) [] = some fin ∧
      c1.target = (if ms.isEmpty then .mapNil (uPrimTy p) else .map (uPrimTy p) fin) ∧
      c1 = { newUnfolder with target := c1.target, env := Unf.Tr.fuTable } ∧
      ((ms.map fun m => sanitize (getS m.1)).Nodup →
        fin.Perm (ms.map fun m => (sanitize (getS m.1), trPrimJ p m.2))) ∧
      agreeF "json" 1000 (.map .string (primTy p)) v (back c1.target) = true := by
  obtain ⟨c0, fin, s, pr, mems, h1, h2, hp, _, hput, h3, h4, h5, h6, h7, h8, h9⟩ :=
    map_json_run o hfail hord e hw ha p hf v ms hv hms hnd
  have hfin := fin_of_nodup p hf ms mems fin hms hp hput
  exact ⟨_, c0, _, fin, s, pr, mems, trType_map p, h2, h1, h3, h4, h5, h6, h7, parseEvents_of h6, hp, h8, h9, hput,
    rfl, rfl, hfin, agree_json_map 997 p hf v ms fin hv hms hfin⟩

/-- valid UTF-8 keys: the side condition of the exact case follows from the keys being distinct -/
theorem sanitized_keys_nodup (ms : List (GoVal × GoVal)) (hnd : (ms.map fun m => getS m.1).Nodup)
    (hu : ∀ m ∈ ms, validUtf8 (getS m.1) = true) : (ms.map fun m => sanitize (getS m.1)).Nodup := by
  rw [List.map_congr_left (fun m hm => Enc.sanitize_valid _ (hu m hm))]
  exact hnd

/- `map[string]string{"a":"b", "b":"c"}` under an order oracle that asks for "b" first, `map[string]uint64{"k":
MaxUint64}` (wire `{"k":18446744073709551615}`), `map[string]int8{"é": -1}`, nil `map[string]int8`, empty
`map[string]bool` -/
example : (match pipe { order := [.strObj [([98], []), ([97], [])]] } (.map .string .string)
      (.map [(.str [97], .str [98]), (.str [98], .str [99])]) with
    | some (.map .string [([98], .str [99]), ([97], .str [98])]) => true
    | _ => false) = true ∧
    wireEvents {} (.map .string (.int .u64)) (.map [(.str [107], .int 18446744073709551615)]) =
      [.objStart (-1) BT.any, .key [107], .num .u64 18446744073709551615, .objEnd] ∧
    (match pipe {} (.map .string (.int .u64)) (.map [(.str [107], .int 18446744073709551615)]) with
     | some (.map (.int .u64) [([107], .int .u64 18446744073709551615)]) => true | _ => false) = true ∧
    (match pipe {} (.map .string (.int .i8)) (.map [(.str [0xc3, 0xa9], .int (-1))]) with
     | some (.map (.int .i8) [([0xc3, 0xa9], .int .i8 (-1))]) => true | _ => false) = true ∧
    (match pipe {} (.map .string (.int .i8)) .nilMap with
     | some (.mapNil (.int .i8)) => true | _ => false) = true ∧
    (match pipe {} (.map .string .bool) (.map []) with
     | some (.mapNil .bool) => true | _ => false) = true := by decide +kernel

/-- why the explicit target needs the sanitised keys distinct: `map[string]int8{"\xff": 1, "\xfe": 2}` — two
distinct keys, both sanitise to U+FFFD; the wire is `{"\ufffd":1,"\ufffd":2}`, the parser delivers both members,
the Unfolder accepts them, and the target is left with ONE entry (the later value) -/
theorem colliding_keys_lose_an_entry :
    sanitize [0xff] = sanitize [0xfe] ∧
    wireEvents {} (.map .string (.int .i8)) (.map [(.str [0xff], .int 1), (.str [0xfe], .int 2)]) =
      [.objStart (-1) BT.any, .key [0xef, 0xbf, 0xbd], .num .i64 1, .key [0xef, 0xbf, 0xbd], .num .i64 2, .objEnd] ∧
    (match pipe {} (.map .string (.int .i8)) (.map [(.str [0xff], .int 1), (.str [0xfe], .int 2)]) with
     | some (.map (.int .i8) [([0xef, 0xbf, 0xbd], .int .i8 2)]) => true | _ => false) = true := by decide +kernel

end SF.Props.FuJson
