/-
  Typed targets of the Unfolder mirror, part 2: memory.  `deref` (what a pointer resolves to),
  `storeAt` (the context after `*p = w`), the relation `Rel` between a live pointer and a pointer
  the code writes through, and the preservation of what the live pointers rely on (`MemOK`).
-/
import SF.Proofs.UnfTyShape
namespace SF.Unf
open SF

/-- `*p` -/
def deref (c : Ctx) (p : Path) : Option GoVal := (rootVal c p.root).bind (·.get p.steps)

theorem load_eq (c : Ctx) (p : Path) (v : GoVal) (h : deref c p = some v) : load (some p) c = .ok v c := by
  unfold deref at h
  simp only [load, h]

/-- the context after `*p = w` (unchanged if `p` does not resolve) -/
def storeAt (c : Ctx) (p : Path) (w : GoVal) : Ctx :=
  match (rootVal c p.root).bind (·.set p.steps w) with
  | some rv => (setRoot c p.root rv).getD c
  | none => c

theorem setRoot_some (c : Ctx) (r : Root) (v rv : GoVal) (h : rootVal c r = some v) :
    ∃ c', setRoot c r rv = some c' := by
  cases r with
  | target => exact ⟨_, rfl⟩
  | cell n =>
    have : n < c.cells.size := by
      simp only [rootVal] at h
      exact (Array.getElem?_eq_some_iff.mp h).1
    exact ⟨_, by simp only [setRoot, this, if_true]; rfl⟩
  | arrays n =>
    have : n < c.valueBuffer.arrays.size := by
      simp only [rootVal] at h
      exact (Array.getElem?_eq_some_iff.mp h).1
    exact ⟨_, by simp only [setRoot, this, if_true]; rfl⟩
  | mapPrimitive n =>
    have : n < c.valueBuffer.mapPrimitive.size := by
      simp only [rootVal] at h
      exact (Array.getElem?_eq_some_iff.mp h).1
    exact ⟨_, by simp only [setRoot, this, if_true]; rfl⟩
  | mapAny n =>
    have : n < c.valueBuffer.mapAny.size := by
      simp only [rootVal] at h
      exact (Array.getElem?_eq_some_iff.mp h).1
    exact ⟨_, by simp only [setRoot, this, if_true]; rfl⟩

/-- everything but the memory (and with it the sizes of cells and scratch buffers) -/
structure SameFrame (c c' : Ctx) : Prop where
  unfolder : c'.unfolder = c.unfolder
  ptr : c'.ptr = c.ptr
  value : c'.value = c.value
  key : c'.key = c.key
  idx : c'.idx = c.idx
  baseType : c'.baseType = c.baseType
  keyCache : c'.keyCache = c.keyCache
  env : c'.env = c.env
  reg : c'.reg = c.reg
  whatIf : c'.whatIfFixed = c.whatIfFixed
  cells : c'.cells.size = c.cells.size
  arrays : c'.valueBuffer.arrays.size = c.valueBuffer.arrays.size
  mapPrimitive : c'.valueBuffer.mapPrimitive.size = c.valueBuffer.mapPrimitive.size
  mapAny : c'.valueBuffer.mapAny.size = c.valueBuffer.mapAny.size

theorem SameFrame.refl (c : Ctx) : SameFrame c c := ⟨rfl, rfl, rfl, rfl, rfl, rfl, rfl, rfl, rfl, rfl, rfl, rfl, rfl, rfl⟩

theorem setRoot_spec (c c' : Ctx) (r : Root) (rv : GoVal) (h : setRoot c r rv = some c') :
    SameFrame c c' ∧ rootVal c' r = some rv ∧ ∀ r', r' ≠ r → rootVal c' r' = rootVal c r' := by
  cases r with
  | target =>
    simp only [setRoot, Option.some.injEq] at h
    subst h
    refine ⟨⟨rfl, rfl, rfl, rfl, rfl, rfl, rfl, rfl, rfl, rfl, rfl, rfl, rfl, rfl⟩, rfl, ?_⟩
    intro r' hr
    cases r' <;> first | rfl | exact absurd rfl hr
  | cell n =>
    simp only [setRoot] at h
    split at h
    · rename_i hn
      injection h with h
      subst h
      refine ⟨⟨rfl, rfl, rfl, rfl, rfl, rfl, rfl, rfl, rfl, rfl, by simp, rfl, rfl, rfl⟩, by simp [rootVal, hn], ?_⟩
      intro r' hr
      cases r' <;> try rfl
      rename_i m
      have : m ≠ n := fun h => hr (by rw [h])
      simp [rootVal, Ne.symm this]
    · cases h
  | arrays n =>
    simp only [setRoot] at h
    split at h
    · rename_i hn
      injection h with h
      subst h
      refine ⟨⟨rfl, rfl, rfl, rfl, rfl, rfl, rfl, rfl, rfl, rfl, rfl, by simp, rfl, rfl⟩, by simp [rootVal, hn], ?_⟩
      intro r' hr
      cases r' <;> try rfl
      rename_i m
      have : m ≠ n := fun h => hr (by rw [h])
      simp [rootVal, Ne.symm this]
    · cases h
  | mapPrimitive n =>
    simp only [setRoot] at h
    split at h
    · rename_i hn
      injection h with h
      subst h
      refine ⟨⟨rfl, rfl, rfl, rfl, rfl, rfl, rfl, rfl, rfl, rfl, rfl, rfl, by simp, rfl⟩, by simp [rootVal, hn], ?_⟩
      intro r' hr
      cases r' <;> try rfl
      rename_i m
      have : m ≠ n := fun h => hr (by rw [h])
      simp [rootVal, Ne.symm this]
    · cases h
  | mapAny n =>
    simp only [setRoot] at h
    split at h
    · rename_i hn
      injection h with h
      subst h
      refine ⟨⟨rfl, rfl, rfl, rfl, rfl, rfl, rfl, rfl, rfl, rfl, rfl, rfl, rfl, by simp⟩, by simp [rootVal, hn], ?_⟩
      intro r' hr
      cases r' <;> try rfl
      rename_i m
      have : m ≠ n := fun h => hr (by rw [h])
      simp [rootVal, Ne.symm this]
    · cases h

/-- `*p = w` through a pointer that resolves -/
theorem store_spec (c : Ctx) (p : Path) (w old : GoVal) (h : deref c p = some old) :
    store (some p) w c = .ok () (storeAt c p w) ∧ SameFrame c (storeAt c p w) ∧
    ∃ rv0 rv, rootVal c p.root = some rv0 ∧ rv0.set p.steps w = some rv ∧
      rootVal (storeAt c p w) p.root = some rv ∧
      ∀ r', r' ≠ p.root → rootVal (storeAt c p w) r' = rootVal c r' := by
  unfold deref at h
  cases hr : rootVal c p.root with
  | none => rw [hr] at h; cases h
  | some rv0 =>
    rw [hr] at h
    simp only [Option.bind_some] at h
    obtain ⟨rv, hrv⟩ := set_of_get rv0 p.steps w old h
    obtain ⟨c', hc'⟩ := setRoot_some c p.root rv0 rv hr
    have hst : storeAt c p w = c' := by
      unfold storeAt
      simp only [hr, Option.bind_some, hrv, hc', Option.getD_some]
    obtain ⟨hsf, h1, h2⟩ := setRoot_spec c c' p.root rv hc'
    refine ⟨?_, hst ▸ hsf, rv0, rv, rfl, hrv, hst ▸ h1, hst ▸ h2⟩
    simp only [store, hr, Option.bind_some, hrv, hc', hst]

theorem deref_storeAt_self (c : Ctx) (p : Path) (w old : GoVal) (h : deref c p = some old) :
    deref (storeAt c p w) p = some w := by
  obtain ⟨_, _, rv0, rv, _, h2, h3, _⟩ := store_spec c p w old h
  unfold deref
  rw [h3]
  exact get_set_self rv0 p.steps w rv h2

theorem deref_storeAt_other (c : Ctx) (p q : Path) (w old : GoVal) (h : deref c p = some old)
    (hr : q.root ≠ p.root) : deref (storeAt c p w) q = deref c q := by
  obtain ⟨_, _, rv0, rv, _, _, _, h4⟩ := store_spec c p w old h
  unfold deref
  rw [h4 q.root hr]

/-- a store below `q`: `*q` is the old value with the store done inside -/
theorem deref_storeAt_prefix (c : Ctx) (p q : Path) (r : List Step) (w old a : GoVal) (h : deref c p = some old)
    (hroot : q.root = p.root) (hsteps : p.steps = q.steps ++ r) (hq : deref c q = some a) :
    ∃ a', a.set r w = some a' ∧ deref (storeAt c p w) q = some a' := by
  obtain ⟨_, _, rv0, rv, h1, h2, h3, _⟩ := store_spec c p w old h
  unfold deref at hq ⊢
  rw [hroot] at hq ⊢
  rw [h1] at hq
  rw [h3]
  simp only [Option.bind_some] at hq ⊢
  rw [hsteps] at h2
  exact get_set_prefix rv0 q.steps r w a rv hq h2

/-! ## live pointers -/

/-- a live pointer and what its owner relies on -/
abbrev LP := Path × Sh

/-- `Rel lo up`: writing a value that satisfies `up`'s requirement through `up`'s pointer keeps
what `lo`'s owner relies on: different roots, or `up` points into `*lo` along an index path at whose
end `lo`'s requirement asks for no more than `up`'s -/
def Rel (lo up : LP) : Prop :=
  lo.1.root ≠ up.1.root ∨
  (lo.1.root = up.1.root ∧ ∃ r ρ, up.1.steps = lo.1.steps ++ r ∧ ShAt lo.2 r ρ ∧ up.2.le ρ)

def MemOK (c : Ctx) (live : List LP) : Prop := ∀ x ∈ live, ∃ v, deref c x.1 = some v ∧ x.2.ok v

theorem MemOK.cons {c : Ctx} {x : LP} {l : List LP} (h : MemOK c (x :: l)) : MemOK c l :=
  fun y hy => h y (List.mem_cons_of_mem _ hy)

/-- THE STORE LEMMA: writing a fitting value through the top live pointer keeps every live pointer
below it resolving to what its owner relies on -/
theorem memOK_store (c : Ctx) (q : Path) (ρq : Sh) (rest : List LP) (w old : GoVal)
    (hrel : ∀ y ∈ rest, Rel y (q, ρq)) (hm : MemOK c rest) (hq : deref c q = some old) (hw : ρq.ok w) :
    MemOK (storeAt c q w) rest := by
  intro y hy
  obtain ⟨v, hv, hok⟩ := hm y hy
  rcases hrel y hy with hne | ⟨heq, r, ρ, hst, hat, hle⟩
  · exact ⟨v, by rw [deref_storeAt_other c q y.1 w old hq hne]; exact hv, hok⟩
  · obtain ⟨a', ha1, ha2⟩ := deref_storeAt_prefix c q y.1 r w old v hq heq hst hv
    exact ⟨a', ha2, ok_set hat v w a' hok ha1 (Sh.le_ok hle hw)⟩

theorem MemOK.same_deref {c c' : Ctx} {l : List LP} (h : MemOK c l) (hd : ∀ x ∈ l, deref c' x.1 = deref c x.1) :
    MemOK c' l := by
  intro x hx
  obtain ⟨v, hv, hok⟩ := h x hx
  exact ⟨v, by rw [hd x hx]; exact hv, hok⟩

end SF.Unf
