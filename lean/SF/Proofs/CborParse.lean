/-
  Helper lemmas: the cborl parser mirror (SF/Cbor/Parse.lean) refines the CBOR
  specification (SF/Cbor/Cst.lean) on whole-buffer input.  Property theorems that use
  these are in SF/Props/C05.lean etc.
-/
import SF.Proofs.CborBits
namespace SF.Cbor.Parse
open SF SF.Cbor SF.Cbor.Cst

/-! ## the loop of feedUntil, one unrolling -/

def contParse (r : R) : Bool :=
  r.rest.length != 0 || (r.p.state.current.major &&& (stStartX ||| stIndef)) == stStartX

/-- what feedUntil does with the result of one execStep -/
def loopFrom (f : Nat) (r : R) : R :=
  if r.done || r.err.isSome then r
  else if !contParse r then r
  else feedUntil f r.p r.rest

theorem feedUntil_succ (f : Nat) (p : P) (b : Bytes) :
    feedUntil (f + 1) p b = loopFrom f (execStep p b) := by
  simp only [feedUntil, loopFrom, contParse]
  rfl

theorem loopFrom_done (f : Nat) (r : R) (h : r.done = true) : loopFrom f r = r := by
  simp [loopFrom, h]

theorem loopFrom_cont (f : Nat) (r : R) (hd : r.done = false) (he : r.err = none)
    (hc : contParse r = true) : loopFrom f r = feedUntil f r.p r.rest := by
  simp [loopFrom, hd, he, hc]

/-! ## configurations -/

/-- no partial token buffered, no injected visitor fault, not in the fail state -/
structure Good (q : P) : Prop where
  buf : q.buffer = []
  nofail : q.failAt = none
  notFail : q.state.current.major ≠ stFail

def addEvs (q : P) (es : List Ev) : P := { q with evs := es.reverse ++ q.evs }

@[simp] theorem addEvs_nil (q : P) : addEvs q [] = q := by simp [addEvs]

theorem addEvs_append (q : P) (a b : List Ev) : addEvs (addEvs q a) b = addEvs q (a ++ b) := by
  simp [addEvs]

theorem visit_good {q : P} (h : q.failAt = none) (e : Ev) : visit q e = (addEvs q [e], none) := by
  simp [visit, h, addEvs]

theorem good_addEvs {q : P} (h : Good q) (es : List Ev) : Good (addEvs q es) :=
  ⟨h.buf, h.nofail, h.notFail⟩

theorem popSt_pushState {q : P} (h : q.state.current.major ≠ stFail) (s : St) :
    popSt (pushState q s) = q := by
  cases q with
  | mk state length buffer err evs failAt =>
    cases state with
    | mk stack current =>
      simp only [pushState, popSt, StateStack.push, StateStack.pop] at *
      simp [h]

theorem depth_pushState {q : P} (h : q.state.current.major ≠ stFail) (s : St) :
    depth (pushState q s) = depth q + 1 := by
  simp [depth, pushState, StateStack.push, h]

theorem popLen_pushLen (q : P) (l : Int) : popLen (pushLen q l) = q := by
  cases q with
  | mk state length buffer err evs failAt =>
    cases length with
    | mk stack current => simp [pushLen, popLen, LenStack.push, LenStack.pop]

/-- popStateR after a push is onValueR of the original configuration -/
theorem popStateR_pushState {q : P} (h : q.state.current.major ≠ stFail) (s : St) (rest : Bytes) :
    popStateR (pushState q s) rest = onValueR q rest := by
  simp only [popStateR, onValueR, depth_pushState h, popState, popSt_pushState h]

/-! ## collect on whole-buffer input -/

theorem collect_nil (b : Bytes) (n : Nat) (h : n ≤ b.length) :
    collect [] b n = ([], b.drop n, some (b.take n)) := by
  simp [collect, h]

theorem collectP_good {q : P} (hb : q.buffer = []) (a rest : Bytes) :
    collectP q (a ++ rest) a.length = (q, rest, some a) := by
  simp only [collectP, hb]
  rw [collect_nil _ _ (by simp)]
  cases q; simp_all

end SF.Cbor.Parse

namespace SF.Cbor.Parse
open SF SF.Cbor SF.Cbor.Cst

/-! ## dispatch of execStep by the current state -/

section dispatch
variable (p : P) (b : Bytes)

theorem execStep_uint (h : p.state.current.major = majorUint) : execStep p b = stepUint p b := by
  simp [execStep, h, majorUint, stFail, stValue, stLen]

theorem execStep_neg (h : p.state.current.major = majorNeg) : execStep p b = stepNeg p b := by
  simp [execStep, h, majorUint, majorNeg, stFail, stValue, stLen]

theorem execStep_len (h : p.state.current.major = stLen) : execStep p b = stepLen p b := by
  simp [execStep, h, stFail, stValue, stLen]

theorem execStep_f32 (h : p.state.current.major = codeSingleFloat) : execStep p b = stepFloat p b 4 := by
  simp [execStep, h, majorUint, majorNeg, stFail, stValue, stLen, codeSingleFloat]

theorem execStep_f64 (h : p.state.current.major = codeDoubleFloat) : execStep p b = stepFloat p b 8 := by
  simp [execStep, h, majorUint, majorNeg, stFail, stValue, stLen, codeSingleFloat, codeDoubleFloat]

end dispatch

end SF.Cbor.Parse

namespace SF.Cbor.Parse
open SF SF.Cbor SF.Cbor.Cst

/-! ## stepValue on each kind of initial byte -/

theorem ib_toNat {m a : Nat} (hm : m < 8) (ha : a < 32) : (ib m a).toNat = m * 32 + a := by
  unfold ib; rw [ofNat_toNat_small]; omega

theorem stepValue_uint_imm (q : P) (a : Nat) (ha : a < 24) (bs : Bytes) :
    stepValue q (ib 0 a :: bs) = scalar q (.num .u8 a) bs := by
  have h1 := ib_major' (m := 0) (a := a) (by omega) (by omega)
  have h3 : (ib 0 a < len8b) := by
    rw [UInt8.lt_iff_toNat_lt, ib_toNat (by omega) (by omega)]; simp [len8b]; omega
  have h4 : (ib 0 a).toNat = a := by rw [ib_toNat (by omega) (by omega)]; omega
  simp [stepValue, h1, h3, h4, majorUint]

theorem stepValue_uint_w (q : P) (a : Nat) (ha : 24 ≤ a) (ha' : a ≤ 27) (bs : Bytes) :
    stepValue q (ib 0 a :: bs) = { p := pushState q ⟨majorUint, UInt8.ofNat a⟩, rest := bs } := by
  have h1 := ib_major' (m := 0) (a := a) (by omega) (by omega)
  have h2 := ib_minor' (m := 0) (a := a) (by omega) (by omega)
  have h3 : ¬ (ib 0 a < len8b) := by
    rw [UInt8.lt_iff_toNat_lt, ib_toNat (by omega) (by omega)]; simp [len8b]; omega
  have h5 : ¬ (UInt8.ofNat a > len64b) := by
    rw [ofNat_gt_len64b (by omega)]; omega
  simp [stepValue, h1, h2, h3, h5, majorUint]

end SF.Cbor.Parse

namespace SF.Cbor.Parse
open SF SF.Cbor SF.Cbor.Cst

theorem stepValue_neg_imm (q : P) (a : Nat) (ha : a < 24) (bs : Bytes) :
    stepValue q (ib 1 a :: bs) = scalar q (.num .i8 (-1 - (a : Int))) bs := by
  have h1 := ib_major' (m := 1) (a := a) (by omega) (by omega)
  have h2 := ib_minor' (m := 1) (a := a) (by omega) (by omega)
  have h3 : (UInt8.ofNat a < len8b) := (ofNat_lt_len8b (by omega)).mpr ha
  have h4 : (UInt8.ofNat a).toNat = a := ofNat_toNat_small (by omega)
  simp [stepValue, h1, h2, h3, h4, majorUint, majorNeg]

theorem stepValue_neg_w (q : P) (a : Nat) (ha : 24 ≤ a) (ha' : a ≤ 27) (bs : Bytes) :
    stepValue q (ib 1 a :: bs) = { p := pushState q ⟨majorNeg, UInt8.ofNat a⟩, rest := bs } := by
  have h1 := ib_major' (m := 1) (a := a) (by omega) (by omega)
  have h2 := ib_minor' (m := 1) (a := a) (by omega) (by omega)
  have h3 : ¬ (UInt8.ofNat a < len8b) := by rw [ofNat_lt_len8b (by omega)]; omega
  have h5 : ¬ (UInt8.ofNat a > len64b) := by rw [ofNat_gt_len64b (by omega)]; omega
  simp [stepValue, h1, h2, h3, h5, majorUint, majorNeg]

/-- byte and text strings (major 2, 3), definite length -/
theorem stepValue_seq (q : P) (m : Nat) (hm : m = 2 ∨ m = 3) (a : Nat) (ha : a ≤ 27) (bs : Bytes) :
    stepValue q (ib m a :: bs) = initByteSeq q (UInt8.ofNat (m * 32)) (UInt8.ofNat a) bs := by
  have h1 := ib_major' (m := m) (a := a) (by omega) (by omega)
  have h2 := ib_minor' (m := m) (a := a) (by omega) (by omega)
  have h3 : ¬ (UInt8.ofNat a = lenIndef) := by
    intro h
    have := congrArg UInt8.toNat h
    rw [ofNat_toNat_small (by omega)] at this
    simp [lenIndef] at this; omega
  rcases hm with rfl | rfl <;>
    simp [stepValue, h1, h2, h3, majorUint, majorNeg, majorBytes, majorText]

/-- arrays and maps (major 4, 5), definite or indefinite -/
theorem stepValue_sub (q : P) (m : Nat) (hm : m = 4 ∨ m = 5) (a : Nat) (ha : a < 32) (bs : Bytes) :
    stepValue q (ib m a :: bs) = initSub q (UInt8.ofNat (m * 32)) (UInt8.ofNat a) bs := by
  have h1 := ib_major' (m := m) (a := a) (by omega) (by omega)
  have h2 := ib_minor' (m := m) (a := a) (by omega) (by omega)
  rcases hm with rfl | rfl <;>
    simp [stepValue, h1, h2, majorUint, majorNeg, majorBytes, majorText, majorArr, majorMap]

theorem stepValue_false (q : P) (bs : Bytes) : stepValue q (0xf4 :: bs) = scalar q (.bool false) bs := by
  have hm : ((0xf4 : UInt8) &&& majorMask) = 0xe0 := by decide
  simp [stepValue, hm, majorUint, majorNeg, majorBytes, majorText, majorArr, majorMap, majorTag, codeFalse]
theorem stepValue_true (q : P) (bs : Bytes) : stepValue q (0xf5 :: bs) = scalar q (.bool true) bs := by
  have hm : ((0xf5 : UInt8) &&& majorMask) = 0xe0 := by decide
  simp [stepValue, hm, majorUint, majorNeg, majorBytes, majorText, majorArr, majorMap, majorTag, codeFalse, codeTrue]
theorem stepValue_null (q : P) (bs : Bytes) : stepValue q (0xf6 :: bs) = scalar q .null bs := by
  have hm : ((0xf6 : UInt8) &&& majorMask) = 0xe0 := by decide
  simp [stepValue, hm, majorUint, majorNeg, majorBytes, majorText, majorArr, majorMap, majorTag, codeFalse, codeTrue, codeNull]
theorem stepValue_undef (q : P) (bs : Bytes) : stepValue q (0xf7 :: bs) = scalar q .null bs := by
  have hm : ((0xf7 : UInt8) &&& majorMask) = 0xe0 := by decide
  simp [stepValue, hm, majorUint, majorNeg, majorBytes, majorText, majorArr, majorMap, majorTag, codeFalse, codeTrue, codeNull, codeUndef]
theorem stepValue_f32 (q : P) (bs : Bytes) :
    stepValue q (0xfa :: bs) = { p := pushState q ⟨codeSingleFloat, stStart⟩, rest := bs } := by
  have hm : ((0xfa : UInt8) &&& majorMask) = 0xe0 := by decide
  simp [stepValue, hm, majorUint, majorNeg, majorBytes, majorText, majorArr, majorMap, majorTag, codeFalse, codeTrue, codeNull, codeUndef, codeHalfFloat, codeSingleFloat]
theorem stepValue_f64 (q : P) (bs : Bytes) :
    stepValue q (0xfb :: bs) = { p := pushState q ⟨codeDoubleFloat, stStart⟩, rest := bs } := by
  have hm : ((0xfb : UInt8) &&& majorMask) = 0xe0 := by decide
  simp [stepValue, hm, majorUint, majorNeg, majorBytes, majorText, majorArr, majorMap, majorTag, codeFalse, codeTrue, codeNull, codeUndef, codeHalfFloat, codeSingleFloat, codeDoubleFloat]

end SF.Cbor.Parse

namespace SF.Cbor.Parse
open SF SF.Cbor SF.Cbor.Cst

theorem loopFrom_step (f : Nat) (r : R) (hd : r.done = false) (he : r.err = none)
    (hc : contParse r = true) : loopFrom (f + 1) r = loopFrom f (execStep r.p r.rest) := by
  rw [loopFrom_cont _ _ hd he hc, feedUntil_succ]

theorem contParse_of_rest {r : R} (h : r.rest ≠ []) : contParse r = true := by
  cases hr : r.rest with
  | nil => exact absurd hr h
  | cons a l => simp [contParse, hr]

theorem addEvs_pushState (q : P) (s : St) (es : List Ev) :
    addEvs (pushState q s) es = pushState (addEvs q es) s := by
  simp [addEvs, pushState]

theorem good_pushState {q : P} (h : Good q) (s : St) (hs : s.major ≠ stFail) : Good (pushState q s) := by
  refine ⟨h.buf, h.nofail, ?_⟩
  have := h.notFail
  simp [pushState, StateStack.push, this, hs]

theorem pushState_current {q : P} (h : q.state.current.major ≠ stFail) (s : St) :
    (pushState q s).state.current = s := by
  simp [pushState, StateStack.push, h]

/-! ## cost (loop iterations) of an item -/

def wcost (w : W) : Nat := if w = .imm then 0 else 1

mutual
def cost : Item → Nat
  | .uint w _ => wcost w
  | .nint w _ => wcost w
  | .bytes w _ => wcost w + 1
  | .text w _ => wcost w + 1
  | .arr w xs => wcost w + 1 + costArr xs
  | .arrIndef xs => 1 + costIndef xs
  | .map w ms => wcost w + 1 + costMap ms
  | .mapIndef ms => 1 + costIndefMap ms
  | .f32 _ => 1
  | .f64 _ => 1
  | _ => 0
/-- definite array body, counted from `stepArray` -/
def costArr : List Item → Nat
  | [] => 0
  | x :: xs => cost x + (if xs.isEmpty then 0 else 1) + costArr xs
/-- indefinite array body, counted from `indefArr` -/
def costIndef : List Item → Nat
  | [] => 0
  | x :: xs => cost x + 1 + costIndef xs
def costMap : List (W × Bytes × Item) → Nat
  | [] => 0
  | (kw, _, v) :: ms => wcost kw + 2 + cost v + (if ms.isEmpty then 0 else 1) + costMap ms
def costIndefMap : List (W × Bytes × Item) → Nat
  | [] => 0
  | (kw, _, v) :: ms => wcost kw + 2 + cost v + 1 + costIndefMap ms
end

end SF.Cbor.Parse

namespace SF.Cbor.Parse
open SF SF.Cbor SF.Cbor.Cst

theorem widthOf_ai (w : W) (n : Nat) (hw : w ≠ .imm) :
    widthOf (UInt8.ofNat (w.ai n)) = some w.bytes := by
  cases w <;> simp_all [W.ai, W.bytes, widthOf, len8b, len16b, len32b, len64b]

theorem fits_pow (w : W) (n : Nat) (hw : w ≠ .imm) (h : w.fits n = true) : n < 256 ^ w.bytes := by
  cases w <;> simp_all [W.fits, W.bytes]

theorem getArg_good {q : P} (hq : q.buffer = []) (w : W) (n : Nat) (hw : w ≠ .imm)
    (h : w.fits n = true) (rest : Bytes) :
    getArg q (beBytes w.bytes n ++ rest) w.bytes = .ok (q, rest, some n) := by
  have hp := fits_pow w n hw h
  by_cases h1 : w = .w1
  · subst h1
    simp only [W.bytes, beBytes, List.nil_append, List.cons_append]
    simp only [getArg]
    have : (UInt8.ofNat (n % 256)).toNat = n := by
      rw [ofNat_toNat_small (by omega)]; simp [W.bytes] at hp; omega
    simp [this]
  · have hne : (w.bytes == 1) = false := by cases w <;> simp_all [W.bytes]
    simp only [getArg, hne]
    have hl : (beBytes w.bytes n).length = w.bytes := beBytes_length _ _
    have := collectP_good hq (beBytes w.bytes n) rest
    rw [hl] at this
    simp [this, beNat_beBytes _ _ hp]

theorem ai_lt (w : W) (n : Nat) (h : w.fits n = true) : w.ai n < 32 := by
  cases w <;> simp_all [W.ai, W.fits] <;> omega

theorem ai_ge (w : W) (n : Nat) (hw : w ≠ .imm) : 24 ≤ w.ai n ∧ w.ai n ≤ 27 := by
  cases w <;> simp_all [W.ai]

theorem head_eq (m : Nat) (w : W) (n : Nat) : head m w n = ib m (w.ai n) :: beBytes w.bytes n := rfl

theorem beBytes_ne_nil (w : W) (n : Nat) (hw : w ≠ .imm) : beBytes w.bytes n ≠ [] := by
  intro h
  have := congrArg List.length h
  simp at this
  cases w <;> simp_all [W.bytes]

theorem uintKind_eq (w : W) (hw : w ≠ .imm) : Parse.uintKind w.bytes = Cst.uintKind w := by
  cases w <;> simp_all [Parse.uintKind, Cst.uintKind, W.bytes]

/-- unsigned integers -/
theorem value_uint (w : W) (n : Nat) (h : w.fits n = true) (f : Nat) (q : P) (rest : Bytes) (hq : Good q) :
    loopFrom (f + cost (.uint w n)) (stepValue q ((Item.uint w n).wire ++ rest)) =
      loopFrom f (onValueR (addEvs q (Item.uint w n).events) rest) := by
  simp only [Item.wire, head_eq, List.cons_append, cost, Item.events]
  by_cases hw : w = .imm
  · subst hw
    simp only [W.ai, W.bytes, beBytes, List.nil_append, wcost, if_true, Nat.add_zero, Cst.uintKind]
    have hn : n < 24 := by simpa [W.fits] using h
    rw [stepValue_uint_imm q n hn, scalar, visit_good hq.nofail]
  · obtain ⟨h24, h27⟩ := ai_ge w n hw
    simp only [wcost, hw, if_false]
    rw [stepValue_uint_w q _ h24 h27]
    rw [loopFrom_step _ _ rfl rfl (contParse_of_rest (by simp [beBytes_ne_nil w n hw]))]
    have hcur := pushState_current hq.notFail ⟨majorUint, UInt8.ofNat (w.ai n)⟩
    rw [execStep_uint _ _ (by rw [hcur])]
    have hg : Good (pushState q ⟨majorUint, UInt8.ofNat (w.ai n)⟩) :=
      good_pushState hq _ (by simp [majorUint, stFail])
    simp only [stepUint, hcur, widthOf_ai w n hw]
    rw [getArg_good hg.buf w n hw h]
    simp only [scalarPop, visit_good hg.nofail, addEvs_pushState, uintKind_eq w hw]
    rw [popStateR_pushState (good_addEvs hq _).notFail]

end SF.Cbor.Parse

namespace SF.Cbor.Parse
open SF SF.Cbor SF.Cbor.Cst

theorem negEvent_eq (w : W) (n : Nat) (hw : w ≠ .imm) (hn : n < 9223372036854775808) :
    negEvent w.bytes n = .ok (.num (nintKind w n) (-1 - (n : Int))) := by
  cases w
  · exact absurd rfl hw
  · simp only [negEvent, W.bytes, nintKind]; simp only [beq_self_eq_true, if_true]; split <;> rfl
  · simp only [negEvent, W.bytes, nintKind]
    simp only [show ((2:Nat) == 1) = false by decide, beq_self_eq_true, if_true]
    simp only [Bool.false_eq_true, if_false]; split <;> rfl
  · simp only [negEvent, W.bytes, nintKind]
    simp only [show ((4:Nat) == 1) = false by decide, show ((4:Nat) == 2) = false by decide, beq_self_eq_true]
    simp only [Bool.false_eq_true, if_false, if_true]; split <;> rfl
  · simp only [negEvent, W.bytes, nintKind]
    simp only [show ((8:Nat) == 1) = false by decide, show ((8:Nat) == 2) = false by decide,
      show ((8:Nat) == 4) = false by decide]
    simp only [Bool.false_eq_true, if_false]
    have : n ≤ 9223372036854775807 := by omega
    simp [this]

/-- negative integers -/
theorem value_nint (w : W) (n : Nat) (h : w.fits n = true) (hn : n < 9223372036854775808)
    (f : Nat) (q : P) (rest : Bytes) (hq : Good q) :
    loopFrom (f + cost (.nint w n)) (stepValue q ((Item.nint w n).wire ++ rest)) =
      loopFrom f (onValueR (addEvs q (Item.nint w n).events) rest) := by
  simp only [Item.wire, head_eq, List.cons_append, cost, Item.events]
  by_cases hw : w = .imm
  · subst hw
    simp only [W.ai, W.bytes, beBytes, List.nil_append, wcost, if_true, Nat.add_zero, Cst.nintKind]
    have hn : n < 24 := by simpa [W.fits] using h
    rw [stepValue_neg_imm q n hn, scalar, visit_good hq.nofail]
  · obtain ⟨h24, h27⟩ := ai_ge w n hw
    simp only [wcost, hw, if_false]
    rw [stepValue_neg_w q _ h24 h27]
    rw [loopFrom_step _ _ rfl rfl (contParse_of_rest (by simp [beBytes_ne_nil w n hw]))]
    have hcur := pushState_current hq.notFail ⟨majorNeg, UInt8.ofNat (w.ai n)⟩
    rw [execStep_neg _ _ (by rw [hcur])]
    have hg : Good (pushState q ⟨majorNeg, UInt8.ofNat (w.ai n)⟩) :=
      good_pushState hq _ (by simp [majorNeg, stFail])
    simp only [stepNeg, hcur, widthOf_ai w n hw]
    rw [getArg_good hg.buf w n hw h]
    simp only [negEvent_eq w n hw hn, scalarPop, visit_good hg.nofail, addEvs_pushState]
    rw [popStateR_pushState (good_addEvs hq _).notFail]

theorem value_simple (b0 : UInt8) (ev : Ev) (hsv : ∀ q bs, stepValue q (b0 :: bs) = scalar q ev bs)
    (f : Nat) (q : P) (rest : Bytes) (hq : Good q) :
    loopFrom (f + 0) (stepValue q ([b0] ++ rest)) = loopFrom f (onValueR (addEvs q [ev]) rest) := by
  simp only [List.cons_append, List.nil_append, Nat.add_zero]
  rw [hsv, scalar, visit_good hq.nofail]

theorem value_f32 (bits : UInt32) (f : Nat) (q : P) (rest : Bytes) (hq : Good q) :
    loopFrom (f + cost (.f32 bits)) (stepValue q ((Item.f32 bits).wire ++ rest)) =
      loopFrom f (onValueR (addEvs q (Item.f32 bits).events) rest) := by
  simp only [Item.wire, List.cons_append, cost, Item.events]
  rw [stepValue_f32]
  have hne : beBytes 4 bits.toNat ≠ [] := by
    intro h; have := congrArg List.length h; simp at this
  rw [loopFrom_step _ _ rfl rfl (contParse_of_rest (by simp [hne]))]
  have hcur := pushState_current hq.notFail ⟨codeSingleFloat, stStart⟩
  rw [execStep_f32 _ _ (by rw [hcur])]
  have hg : Good (pushState q ⟨codeSingleFloat, stStart⟩) :=
    good_pushState hq _ (by simp [codeSingleFloat, stFail])
  have hc := collectP_good hg.buf (beBytes 4 bits.toNat) rest
  rw [beBytes_length] at hc
  have hb : beNat (beBytes 4 bits.toNat) = bits.toNat := beNat_beBytes 4 _ (by have := bits.toNat_lt; omega)
  simp only [stepFloat, hc, hb, visit_good hg.nofail, addEvs_pushState]
  simp only [beq_self_eq_true, if_true, UInt32.ofNat_toNat]
  rw [popStateR_pushState (good_addEvs hq _).notFail]

theorem value_f64 (bits : UInt64) (f : Nat) (q : P) (rest : Bytes) (hq : Good q) :
    loopFrom (f + cost (.f64 bits)) (stepValue q ((Item.f64 bits).wire ++ rest)) =
      loopFrom f (onValueR (addEvs q (Item.f64 bits).events) rest) := by
  simp only [Item.wire, List.cons_append, cost, Item.events]
  rw [stepValue_f64]
  have hne : beBytes 8 bits.toNat ≠ [] := by
    intro h; have := congrArg List.length h; simp at this
  rw [loopFrom_step _ _ rfl rfl (contParse_of_rest (by simp [hne]))]
  have hcur := pushState_current hq.notFail ⟨codeDoubleFloat, stStart⟩
  rw [execStep_f64 _ _ (by rw [hcur])]
  have hg : Good (pushState q ⟨codeDoubleFloat, stStart⟩) :=
    good_pushState hq _ (by simp [codeDoubleFloat, stFail])
  have hc := collectP_good hg.buf (beBytes 8 bits.toNat) rest
  rw [beBytes_length] at hc
  have hb : beNat (beBytes 8 bits.toNat) = bits.toNat := beNat_beBytes 8 _ (by have := bits.toNat_lt; omega)
  simp only [stepFloat, hc, hb, visit_good hg.nofail, addEvs_pushState]
  simp only [show ((8:Nat) == 4) = false by decide, Bool.false_eq_true, if_false, UInt64.ofNat_toNat]
  rw [popStateR_pushState (good_addEvs hq _).notFail]

end SF.Cbor.Parse

namespace SF.Cbor.Parse
open SF SF.Cbor SF.Cbor.Cst

/-! ## small structural facts about configurations -/

@[simp] theorem popSt_setMajor (q : P) (m : UInt8) : popSt (setMajor q m) = popSt q := by
  simp [popSt, setMajor, StateStack.pop]
@[simp] theorem popSt_setMinor (q : P) (m : UInt8) : popSt (setMinor q m) = popSt q := by
  simp [popSt, setMinor, StateStack.pop]
@[simp] theorem depth_setMajor (q : P) (m : UInt8) : depth (setMajor q m) = depth q := rfl
@[simp] theorem depth_setMinor (q : P) (m : UInt8) : depth (setMinor q m) = depth q := rfl
@[simp] theorem depth_pushLen (q : P) (l : Int) : depth (pushLen q l) = depth q := rfl
@[simp] theorem depth_popLen (q : P) : depth (popLen q) = depth q := rfl
@[simp] theorem depth_addEvs (q : P) (es : List Ev) : depth (addEvs q es) = depth q := rfl
@[simp] theorem depth_decLen (q : P) (n : Int) : depth (decLen q n) = depth q := rfl
theorem popSt_pushLen (q : P) (l : Int) : popSt (pushLen q l) = pushLen (popSt q) l := rfl
theorem popSt_popLen (q : P) : popSt (popLen q) = popLen (popSt q) := rfl
theorem popSt_addEvs (q : P) (es : List Ev) : popSt (addEvs q es) = addEvs (popSt q) es := rfl
theorem popLen_addEvs (q : P) (es : List Ev) : popLen (addEvs q es) = addEvs (popLen q) es := rfl
theorem popLen_setMajor (q : P) (m : UInt8) : popLen (setMajor q m) = setMajor (popLen q) m := rfl
theorem popLen_setMinor (q : P) (m : UInt8) : popLen (setMinor q m) = setMinor (popLen q) m := rfl
theorem addEvs_setMajor (q : P) (m : UInt8) (es : List Ev) : addEvs (setMajor q m) es = setMajor (addEvs q es) m := rfl
theorem addEvs_setMinor (q : P) (m : UInt8) (es : List Ev) : addEvs (setMinor q m) es = setMinor (addEvs q es) m := rfl
theorem addEvs_pushLen (q : P) (l : Int) (es : List Ev) : addEvs (pushLen q l) es = pushLen (addEvs q es) l := rfl
@[simp] theorem pushLen_current (q : P) (l : Int) : (pushLen q l).length.current = l := rfl
@[simp] theorem pushLen_state (q : P) (l : Int) : (pushLen q l).state = q.state := rfl
@[simp] theorem pushLen_buffer (q : P) (l : Int) : (pushLen q l).buffer = q.buffer := rfl
@[simp] theorem pushLen_failAt (q : P) (l : Int) : (pushLen q l).failAt = q.failAt := rfl
@[simp] theorem setMajor_buffer (q : P) (m : UInt8) : (setMajor q m).buffer = q.buffer := rfl
@[simp] theorem setMajor_failAt (q : P) (m : UInt8) : (setMajor q m).failAt = q.failAt := rfl
@[simp] theorem setMinor_buffer (q : P) (m : UInt8) : (setMinor q m).buffer = q.buffer := rfl
@[simp] theorem setMinor_failAt (q : P) (m : UInt8) : (setMinor q m).failAt = q.failAt := rfl
@[simp] theorem setMajor_len (q : P) (m : UInt8) : (setMajor q m).length = q.length := rfl
@[simp] theorem setMinor_len (q : P) (m : UInt8) : (setMinor q m).length = q.length := rfl
@[simp] theorem addEvs_len (q : P) (es : List Ev) : (addEvs q es).length = q.length := rfl
@[simp] theorem addEvs_state (q : P) (es : List Ev) : (addEvs q es).state = q.state := rfl
@[simp] theorem addEvs_buffer (q : P) (es : List Ev) : (addEvs q es).buffer = q.buffer := rfl
@[simp] theorem addEvs_failAt (q : P) (es : List Ev) : (addEvs q es).failAt = q.failAt := rfl
@[simp] theorem setMajor_major (q : P) (m : UInt8) : (setMajor q m).state.current.major = m := rfl
@[simp] theorem setMajor_minor (q : P) (m : UInt8) : (setMajor q m).state.current.minor = q.state.current.minor := rfl
@[simp] theorem setMinor_major (q : P) (m : UInt8) : (setMinor q m).state.current.major = q.state.current.major := rfl
@[simp] theorem setMinor_minor (q : P) (m : UInt8) : (setMinor q m).state.current.minor = m := rfl

theorem visitAll_good {q : P} (h : q.failAt = none) (es : List Ev) : visitAll q es = (addEvs q es, none) := by
  induction es generalizing q with
  | nil => simp [visitAll]
  | cons e es ih =>
    simp only [visitAll, visit_good h]
    rw [ih (by simpa using h), addEvs_append]
    rfl

/-- the step in a freshly pushed `stLen` state reads the length argument -/
theorem execStep_stLen {q1 : P} (hq : Good q1) (w : W) (n : Nat) (hw : w ≠ .imm)
    (h : w.fits n = true) (hn : n < 9223372036854775808) (rest : Bytes) :
    execStep (pushState q1 ⟨stLen, UInt8.ofNat (w.ai n)⟩) (beBytes w.bytes n ++ rest) =
      { p := pushLen q1 n, rest := rest } := by
  have hcur := pushState_current hq.notFail ⟨stLen, UInt8.ofNat (w.ai n)⟩
  have hg : Good (pushState q1 ⟨stLen, UInt8.ofNat (w.ai n)⟩) :=
    good_pushState hq _ (by simp [stLen, stFail])
  rw [execStep_len _ _ (by rw [hcur])]
  simp only [stepLen, hcur, widthOf_ai w n hw]
  rw [getArg_good hg.buf w n hw h]
  have : ¬ n > 9223372036854775807 := by omega
  simp only [this, if_false, popSt_pushLen, popSt_pushState hq.notFail]

end SF.Cbor.Parse

namespace SF.Cbor.Parse
open SF SF.Cbor SF.Cbor.Cst

/-- after the head of a definite-length string or key: 0 (immediate length) or 1 (`stLen`)
iterations later the parser sits in the start state with the length pushed -/
theorem seq_head {q : P} (hq : Good q) (major : UInt8) (hm : (major ||| stStartX) ≠ stFail)
    (w : W) (n : Nat) (h : w.fits n = true) (hn : n < 9223372036854775808) (payload : Bytes) (f : Nat) :
    loopFrom (f + wcost w) (initByteSeq q major (UInt8.ofNat (w.ai n)) (beBytes w.bytes n ++ payload)) =
      loopFrom f { p := pushLen (pushState q ⟨major ||| stStartX, stStart⟩) n, rest := payload } := by
  by_cases hw : w = .imm
  · subst hw
    have hn24 : n < 24 := by simpa [W.fits] using h
    have h3 : (UInt8.ofNat n < len8b) := (ofNat_lt_len8b (by omega)).mpr hn24
    simp only [W.ai, W.bytes, beBytes, List.nil_append, wcost, if_true, Nat.add_zero, initByteSeq, h3,
      ofNat_toNat_small (show n < 256 by omega)]
  · obtain ⟨h24, h27⟩ := ai_ge w n hw
    have h3 : ¬ (UInt8.ofNat (w.ai n) < len8b) := by rw [ofNat_lt_len8b (by omega)]; omega
    have h5 : ¬ (UInt8.ofNat (w.ai n) > len64b) := by rw [ofNat_gt_len64b (by omega)]; omega
    simp only [wcost, hw, if_false, initByteSeq, h3, h5]
    rw [loopFrom_step _ _ rfl rfl (contParse_of_rest (by simp [beBytes_ne_nil w n hw]))]
    rw [execStep_stLen (good_pushState hq _ hm) w n hw h hn]

theorem or_bytesStart : (majorBytes ||| stStartX) = 0x44 := by decide
theorem or_textStart : (majorText ||| stStartX) = 0x64 := by decide
theorem or_arrIndef : (majorArr ||| stIndef) = 0x81 := by decide
theorem or_mapIndef : (majorMap ||| stIndef) = 0xa1 := by decide
theorem or_keyStart : (stKey ||| stStartX) = 0xac := by decide
theorem and_bytesStart : ((0x44 : UInt8) &&& ~~~stStartX) = 0x40 := by decide
theorem and_textStart : ((0x64 : UInt8) &&& ~~~stStartX) = 0x60 := by decide
theorem and_keyStart : ((0xac : UInt8) &&& ~~~stStartX) = 0xa8 := by decide

theorem execStep_textStart (p : P) (b : Bytes) (h : p.state.current.major = 0x64) :
    execStep p b =
      if p.length.current == 0 then
        let p := popLen p
        match visit p (.str []) with
        | (p, some e) => { p := p, rest := b, err := some e }
        | (p, none) => popStateR p b
      else
        let p := setMajor p majorText
        if b.length == 0 then { p := p, rest := b } else stepText p b := by
  have hx : ((0x64 : UInt8) &&& ~~~stStartX) = majorText := by decide
  simp +decide [execStep, h, hx]
  rfl

theorem execStep_bytesStart (p : P) (b : Bytes) (h : p.state.current.major = 0x44) :
    execStep p b =
      if p.length.current == 0 then
        match visit p (.arrStart 0 BT.byte) with
        | (p, some e) => { p := p, rest := b, err := some e }
        | (p, none) =>
          match visit p .arrEnd with
          | (p, some e) => { p := popLen p, rest := b, err := some e }
          | (p, none) => popStateR (popLen p) b
      else
        let p := setMajor p majorBytes
        if b.length == 0 then { p := p, rest := b } else stepBytes p b := by
  have hx : ((0x44 : UInt8) &&& ~~~stStartX) = majorBytes := by decide
  simp +decide [execStep, h, hx]
  rfl

theorem contParse_start (p : P) (rest : Bytes) (m : UInt8) (hm : (m &&& (stStartX ||| stIndef)) = stStartX)
    (h : p.state.current.major = m) : contParse { p := p, rest := rest } = true := by
  simp [contParse, h, hm]

end SF.Cbor.Parse

namespace SF.Cbor.Parse
open SF SF.Cbor SF.Cbor.Cst

theorem ofNat_96 : UInt8.ofNat (3 * 32) = majorText := by decide
theorem ofNat_64 : UInt8.ofNat (2 * 32) = majorBytes := by decide

theorem int_natCast_eq_zero {n : Nat} : ((n : Int) == 0) = (n == 0) := by
  cases n <;> simp <;> omega

/-- text strings -/
theorem value_text (w : W) (bs : Bytes) (h : w.fits bs.length = true) (hn : bs.length < 9223372036854775808)
    (f : Nat) (q : P) (rest : Bytes) (hq : Good q) :
    loopFrom (f + cost (.text w bs)) (stepValue q ((Item.text w bs).wire ++ rest)) =
      loopFrom f (onValueR (addEvs q (Item.text w bs).events) rest) := by
  simp only [Item.wire, head_eq, List.cons_append, List.append_assoc, cost, Item.events]
  rw [stepValue_seq q 3 (Or.inr rfl) _ (by have := ai_lt w _ h; have := (ai_ge w bs.length); cases w <;> simp_all [W.ai, W.fits] <;> omega),
    ofNat_96]
  rw [show f + (wcost w + 1) = (f + 1) + wcost w by omega]
  rw [seq_head hq majorText (by decide) w bs.length h hn]
  have hs : ((majorText ||| stStartX) : UInt8) = 0x64 := by decide
  rw [hs]
  have hg1 : Good (pushState q ⟨0x64, stStart⟩) := good_pushState hq _ (by decide)
  have hcur := pushState_current hq.notFail ⟨0x64, stStart⟩
  rw [loopFrom_step _ _ rfl rfl (contParse_start _ _ 0x64 (by decide) (by simp [hcur]))]
  rw [execStep_textStart _ _ (by simp [hcur])]
  simp only [pushLen_current, int_natCast_eq_zero]
  cases bs with
  | nil =>
    simp only [List.length_nil, beq_self_eq_true, if_true, List.nil_append, popLen_pushLen,
      visit_good hg1.nofail, addEvs_pushState]
    rw [popStateR_pushState (good_addEvs hq _).notFail]
  | cons b0 bs' =>
    simp only [List.length_cons, Nat.add_one_ne_zero, beq_iff_eq, if_false, List.cons_append,
      List.length_append, Nat.succ_ne_zero]
    simp only [stepText, pushLen_current, setMajor_len, Int.toNat_natCast]
    have hc := collectP_good (q := setMajor (pushLen (pushState q ⟨0x64, stStart⟩) ((b0 :: bs').length : Nat)) majorText)
      (by simp [hg1.buf]) (b0 :: bs') rest
    simp only [List.length_cons, List.cons_append] at hc
    simp only [Int.natCast_add, Int.cast_ofNat_Int] at hc ⊢
    rw [hc]
    simp only [popLen_setMajor, popLen_pushLen]
    rw [visit_good (by simp [hg1.nofail])]
    simp only [addEvs_setMajor, addEvs_pushState]
    simp only [popStateR, depth_setMajor, depth_pushState (good_addEvs hq _).notFail, popState,
      popSt_setMajor, popSt_pushState (good_addEvs hq _).notFail, onValueR]

end SF.Cbor.Parse

namespace SF.Cbor.Parse
open SF SF.Cbor SF.Cbor.Cst

/-- byte strings (reported element-wise) -/
theorem value_bytes (w : W) (bs : Bytes) (h : w.fits bs.length = true) (hn : bs.length < 9223372036854775808)
    (f : Nat) (q : P) (rest : Bytes) (hq : Good q) :
    loopFrom (f + cost (.bytes w bs)) (stepValue q ((Item.bytes w bs).wire ++ rest)) =
      loopFrom f (onValueR (addEvs q (Item.bytes w bs).events) rest) := by
  simp only [Item.wire, head_eq, List.cons_append, List.append_assoc, cost, Item.events]
  rw [stepValue_seq q 2 (Or.inl rfl) _ (by have := ai_lt w _ h; have := (ai_ge w bs.length); cases w <;> simp_all [W.ai, W.fits] <;> omega),
    ofNat_64]
  rw [show f + (wcost w + 1) = (f + 1) + wcost w by omega]
  rw [seq_head hq majorBytes (by decide) w bs.length h hn]
  have hs : ((majorBytes ||| stStartX) : UInt8) = 0x44 := by decide
  rw [hs]
  have hg1 : Good (pushState q ⟨0x44, stStart⟩) := good_pushState hq _ (by decide)
  have hcur := pushState_current hq.notFail ⟨0x44, stStart⟩
  rw [loopFrom_step _ _ rfl rfl (contParse_start _ _ 0x44 (by decide) (by simp [hcur]))]
  rw [execStep_bytesStart _ _ (by simp [hcur])]
  simp only [pushLen_current, int_natCast_eq_zero]
  cases bs with
  | nil =>
    simp only [List.length_nil, beq_self_eq_true, if_true, List.nil_append, List.map_nil]
    rw [visit_good (by simp [hg1.nofail])]
    simp only []
    rw [visit_good (by simp [hg1.nofail])]
    simp only [addEvs_append, addEvs_pushLen, popLen_pushLen, addEvs_pushState]
    rw [popStateR_pushState (good_addEvs hq _).notFail]
    rfl
  | cons b0 bs' =>
    simp only [List.length_cons, Nat.add_one_ne_zero, beq_iff_eq, if_false, List.cons_append,
      List.length_append, Nat.succ_ne_zero]
    have hmin : (setMajor (pushLen (pushState q ⟨0x44, stStart⟩) ((bs'.length : Int) + 1)) majorBytes).state.current.minor = stStart := by
      simp [hcur]
    simp only [stepBytes, stepBytesGo, Int.natCast_add, Int.cast_ofNat_Int, hmin, beq_self_eq_true, if_true]
    rw [visit_good (by simp [hg1.nofail])]
    simp only [setMinor_len, addEvs_len, setMajor_len, pushLen_current]
    have hlen : (((bs'.length : Int) + 1).toNat) = bs'.length + 1 := by omega
    have hge : (b0 :: (bs' ++ rest)).length ≥ bs'.length + 1 := by simp
    simp only [hlen, hge, decide_true, if_true]
    have htake : (b0 :: (bs' ++ rest)).take (bs'.length + 1) = b0 :: bs' := by
      simp [List.take_append_of_le_length]
    have hdrop : (b0 :: (bs' ++ rest)).drop (bs'.length + 1) = rest := by simp
    rw [htake, hdrop, visitAll_good (by simp [hg1.nofail])]
    simp only []
    rw [visit_good (by simp [hg1.nofail])]
    simp only [addEvs_append, popLen_addEvs, popLen_setMinor, popLen_setMajor, popLen_pushLen,
      addEvs_setMinor, addEvs_setMajor, addEvs_pushState]
    simp only [popStateR, depth_setMajor, depth_setMinor, depth_pushState (good_addEvs hq _).notFail,
      popState, popSt_setMajor, popSt_setMinor, popSt_pushState (good_addEvs hq _).notFail, onValueR]
    simp [List.map_cons]

end SF.Cbor.Parse

namespace SF.Cbor.Parse
open SF SF.Cbor SF.Cbor.Cst

/-! ## containers: dispatch -/

theorem execStep_startArr (p : P) (b : Bytes) (h : p.state.current.major = 0x84) :
    execStep p b =
      match visit p (.arrStart p.length.current BT.any) with
      | (p, some e) => { p := p, rest := b, err := some e }
      | (p, none) => stepArray (popSt p) b := by
  simp +decide [execStep, h]
  rfl
theorem execStep_arr (p : P) (b : Bytes) (h : p.state.current.major = 0x80) :
    execStep p b = stepArray p b := by
  simp +decide [execStep, h]
theorem execStep_startIndefArr (p : P) (b : Bytes) (h : p.state.current.major = 0x85) :
    execStep p b =
      match visit p (.arrStart (-1) BT.any) with
      | (p, some e) => { p := p, rest := b, err := some e }
      | (p, none) => indefArr (popSt p) b := by
  simp +decide [execStep, h]
  rfl
theorem execStep_indefArr (p : P) (b : Bytes) (h : p.state.current.major = 0x81) :
    execStep p b = indefArr p b := by
  simp +decide [execStep, h]
theorem execStep_startMap (p : P) (b : Bytes) (h : p.state.current.major = 0xa4) :
    execStep p b =
      match visit p (.objStart p.length.current BT.any) with
      | (p, some e) => { p := p, rest := b, err := some e }
      | (p, none) => stepMap (popSt p) b := by
  simp +decide [execStep, h]
  rfl
theorem execStep_map (p : P) (b : Bytes) (h : p.state.current.major = 0xa0) :
    execStep p b = stepMap p b := by
  simp +decide [execStep, h]
theorem execStep_startIndefMap (p : P) (b : Bytes) (h : p.state.current.major = 0xa5) :
    execStep p b =
      match visit p (.objStart (-1) BT.any) with
      | (p, some e) => { p := p, rest := b, err := some e }
      | (p, none) => indefMap (popSt p) b := by
  simp +decide [execStep, h]
  rfl
theorem execStep_indefMap (p : P) (b : Bytes) (h : p.state.current.major = 0xa1) :
    execStep p b = indefMap p b := by
  simp +decide [execStep, h]
theorem execStep_keyStart (p : P) (b : Bytes) (h : p.state.current.major = 0xac) :
    execStep p b =
      if p.length.current == 0 then
        match visit p (.key []) with
        | (p, some e) => { p := p, rest := b, err := some e }
        | (p, none) => { p := setMajor (popLen p) stElem, rest := b }
      else stepKey (setMajor p stKey) b := by
  have hx : ((0xac : UInt8) &&& ~~~stStartX) = stKey := by decide
  simp +decide [execStep, h, hx]
  rfl
theorem execStep_elem (p : P) (b : Bytes) (h : p.state.current.major = 0xa9) :
    execStep p b = stepValue (popSt p) b := by
  simp +decide [execStep, h]

end SF.Cbor.Parse

namespace SF.Cbor.Parse
open SF SF.Cbor SF.Cbor.Cst

/-! ## container bodies -/

/-- `q` is inside the body of a container opened from configuration `Q`: the state stack is
`Q`'s with the container state `s` on top; for definite containers (`withLen`) the length
stack is `Q`'s with one entry pushed -/
structure Body (Q q : P) (s : St) (withLen : Bool) : Prop where
  state : q.state = (pushState Q s).state
  lstack : if withLen then q.length.stack = Q.length.current :: Q.length.stack else q.length = Q.length
  buf : q.buffer = []
  nofail : q.failAt = none
  err : q.err = Q.err

def withEvs (Q : P) (evs : List Ev) : P := { Q with evs := evs }

theorem body_good {Q q : P} {s : St} {wl : Bool} (hQ : Good Q) (hs : s.major ≠ stFail)
    (h : Body Q q s wl) : Good q := by
  refine ⟨h.buf, h.nofail, ?_⟩
  rw [h.state, pushState_current hQ.notFail]; exact hs

theorem body_current {Q q : P} {s : St} {wl : Bool} (hQ : Good Q) (h : Body Q q s wl) :
    q.state.current = s := by
  rw [h.state, pushState_current hQ.notFail]

theorem body_depth {Q q : P} {s : St} {wl : Bool} (hQ : Good Q) (h : Body Q q s wl) :
    depth q = depth Q + 1 := by
  simp only [depth, h.state]
  exact depth_pushState hQ.notFail s

theorem body_addEvs {Q q : P} {s : St} {wl : Bool} (h : Body Q q s wl) (es : List Ev) :
    Body Q (addEvs q es) s wl :=
  ⟨h.state, h.lstack, h.buf, h.nofail, h.err⟩

theorem body_decLen {Q q : P} {s : St} (h : Body Q q s true) (n : Int) :
    Body Q (decLen q n) s true :=
  ⟨h.state, by have := h.lstack; simpa [decLen] using this, h.buf, h.nofail, h.err⟩

/-- leaving a definite container restores `Q` (with the events delivered meanwhile) -/
theorem body_close_len {Q q : P} {s : St} (hQ : Good Q) (h : Body Q q s true) :
    popSt (popLen q) = withEvs Q q.evs := by
  have hs := h.state
  have hl := h.lstack
  simp only [if_true] at hl
  cases q with
  | mk state length buffer err evs failAt =>
    cases length with
    | mk lstack lcur =>
      cases Q with
      | mk Qstate Qlength Qbuffer Qerr Qevs QfailAt =>
        cases Qstate with
        | mk Qstack Qcur =>
          cases Qlength with
          | mk Qlstack Qlcur =>
            have hnf : Qcur.major ≠ stFail := hQ.notFail
            have hb := h.buf; have hf := h.nofail; have he := h.err
            have hQb := hQ.buf; have hQf := hQ.nofail
            simp only [pushState, StateStack.push] at hs
            simp only [hnf, bne_iff_ne, ne_eq, not_false_eq_true, if_true] at hs
            simp only at hl hb hf he hQb hQf
            subst hs hl hb hf he hQb
            simp [popSt, popLen, LenStack.pop, StateStack.pop, withEvs, hQf]

/-- leaving an indefinite container restores `Q` -/
theorem body_close_indef {Q q : P} {s : St} (hQ : Good Q) (h : Body Q q s false) :
    popSt q = withEvs Q q.evs := by
  have hs := h.state
  have hl := h.lstack
  simp only [Bool.false_eq_true, if_false] at hl
  cases q with
  | mk state length buffer err evs failAt =>
    cases Q with
    | mk Qstate Qlength Qbuffer Qerr Qevs QfailAt =>
      cases Qstate with
      | mk Qstack Qcur =>
        have hnf : Qcur.major ≠ stFail := hQ.notFail
        have hb := h.buf; have hf := h.nofail; have he := h.err
        have hQb := hQ.buf; have hQf := hQ.nofail
        simp only [pushState, StateStack.push] at hs
        simp only [hnf, bne_iff_ne, ne_eq, not_false_eq_true, if_true] at hs
        simp only at hl hb hf he hQb hQf
        subst hs hl hb hf he hQb
        simp [popSt, StateStack.pop, withEvs, hQf]

theorem depth_withEvs (Q : P) (evs : List Ev) : depth (withEvs Q evs) = depth Q := rfl

theorem good_withEvs {Q : P} (h : Good Q) (evs : List Ev) : Good (withEvs Q evs) :=
  ⟨h.buf, h.nofail, h.notFail⟩

end SF.Cbor.Parse

namespace SF.Cbor.Parse
open SF SF.Cbor SF.Cbor.Cst

def endEv (major : UInt8) : Ev := if major == majorArr then .arrEnd else .objEnd

/-- a value completed inside a definite container that still expects more -/
theorem onValueR_more {Q q : P} {major : UInt8} (hmaj : major = majorArr ∨ major = majorMap)
    (hQ : Good Q) (h : Body Q q ⟨major, stStart⟩ true) (hl : q.length.current - 1 > 0) (rest : Bytes) :
    onValueR q rest = { p := decLen q 1, rest := rest } := by
  have hcur : q.state.current.major = major := by rw [body_current hQ h]
  have hl2 : 1 < q.length.current := by omega
  unfold onValueR onValue
  rcases hmaj with rfl | rfl <;>
    simp +decide [hcur, decLen, hl2]

/-- a value completed inside a definite container that is now full: the container is
finished and the completion is passed on to the enclosing configuration -/
theorem onValueR_full {Q q : P} {major : UInt8} (hmaj : major = majorArr ∨ major = majorMap)
    (hQ : Good Q) (h : Body Q q ⟨major, stStart⟩ true) (hl : ¬ q.length.current - 1 > 0) (rest : Bytes) :
    onValueR q rest = onValueR (withEvs Q (endEv major :: q.evs)) rest := by
  have hcur : q.state.current.major = major := by rw [body_current hQ h]
  have hd := body_depth hQ h
  have hb := body_addEvs (body_decLen h 1) [endEv major]
  have hclose := body_close_len hQ hb
  have hv : visit (decLen q 1) (endEv major) = (addEvs (decLen q 1) [endEv major], none) :=
    visit_good (by simpa [decLen] using h.nofail) _
  have hl' : ¬ (decLen q 1).length.current > 0 := by simpa [decLen] using hl
  conv => lhs; unfold onValueR onValue
  rcases hmaj with rfl | rfl
  · simp only [hcur, beq_self_eq_true, Bool.true_or, if_true, hl', if_false]
    simp only [endEv, beq_self_eq_true, if_true] at hv hclose ⊢
    rw [hv]
    simp only [hd]
    rw [hclose]
    simp [onValueR, depth_withEvs, addEvs, decLen]
  · have hne : (majorMap == majorArr) = false := by decide
    simp only [hcur, hne, beq_self_eq_true, Bool.or_true, if_true, hl', if_false, Bool.false_eq_true]
    simp only [endEv, hne, Bool.false_eq_true, if_false] at hv hclose ⊢
    rw [hv]
    simp only [hd]
    rw [hclose]
    simp [onValueR, depth_withEvs, addEvs, decLen]

/-- stepArray / stepMap on an exhausted definite container (length 0 from the start) -/
theorem handleLen_empty {Q q : P} {major : UInt8} (hmaj : major = majorArr ∨ major = majorMap)
    (hQ : Good Q) (h : Body Q q ⟨major, stStart⟩ true) (hl : q.length.current = 0) (b : Bytes) :
    (let (p, done, err) := handleLenD (major == majorArr) (depth q) q
     ({ p := p, rest := b, done := done, err := err } : R)) =
      onValueR (withEvs Q (endEv major :: q.evs)) b := by
  have hd := body_depth hQ h
  have hb := body_addEvs h [endEv major]
  have hclose := body_close_len hQ hb
  have hv : visit q (endEv major) = (addEvs q [endEv major], none) := visit_good h.nofail _
  have hev : (if (major == majorArr) = true then Ev.arrEnd else Ev.objEnd) = endEv major := rfl
  simp only [handleLenD, hl, Int.lt_irrefl, gt_iff_lt, if_false, hev, hv, hd, popState]
  rw [hclose]
  simp [onValueR, depth_withEvs, addEvs]

theorem onValueR_indef {Q q : P} {s : St} (hs : s.major = 0x81 ∨ s.major = 0xa1)
    (hQ : Good Q) (h : Body Q q s false) (rest : Bytes) :
    onValueR q rest = { p := q, rest := rest } := by
  have hcur : q.state.current.major = s.major := by rw [body_current hQ h]
  unfold onValueR onValue
  rcases hs with hs | hs <;> simp +decide [hcur, hs]

/-- the break byte of an indefinite container -/
theorem popStateR_indef {Q q : P} {s : St} (hQ : Good Q) (h : Body Q q s false) (e : Ev) (rest : Bytes) :
    popStateR (addEvs q [e]) rest = onValueR (withEvs Q (e :: q.evs)) rest := by
  have hd := body_depth hQ h
  have hclose := body_close_indef hQ (body_addEvs h [e])
  simp only [popStateR, depth_addEvs, hd, popState, hclose]
  simp [onValueR, depth_withEvs, addEvs]

end SF.Cbor.Parse

namespace SF.Cbor.Parse
open SF SF.Cbor SF.Cbor.Cst

theorem ofNat_128 : UInt8.ofNat (4 * 32) = majorArr := by decide
theorem ofNat_160 : UInt8.ofNat (5 * 32) = majorMap := by decide

/-- head of a definite array / map: 0 or 1 iterations later the parser sits in the start
state with the length pushed -/
theorem sub_head {Q : P} (hQ : Good Q) (major : UInt8) (hm1 : major ≠ stFail)
    (hm2 : (major ||| stStartX) ≠ stFail)
    (w : W) (n : Nat) (h : w.fits n = true) (hn : n < 9223372036854775808) (payload : Bytes) (f : Nat) :
    loopFrom (f + wcost w) (initSub Q major (UInt8.ofNat (w.ai n)) (beBytes w.bytes n ++ payload)) =
      loopFrom f { p := pushLen (pushState (pushState Q ⟨major, stStart⟩) ⟨major ||| stStartX, stStart⟩) n,
                   rest := payload } := by
  have hai := ai_lt w n h
  have hne : ¬ (UInt8.ofNat (w.ai n) = lenIndef) := by
    intro h'
    have := congrArg UInt8.toNat h'
    rw [ofNat_toNat_small (by omega)] at this
    simp [lenIndef] at this
    cases w <;> simp_all [W.ai, W.fits]
  by_cases hw : w = .imm
  · subst hw
    have hn24 : n < 24 := by simpa [W.fits] using h
    have h3 : (UInt8.ofNat n < len8b) := (ofNat_lt_len8b (by omega)).mpr hn24
    have hne' : ¬ (UInt8.ofNat n = lenIndef) := by simpa [W.ai] using hne
    simp only [W.ai, W.bytes, beBytes, List.nil_append, wcost, if_true, Nat.add_zero, initSub, h3,
      ofNat_toNat_small (show n < 256 by omega), beq_iff_eq, hne', if_false]
  · obtain ⟨h24, h27⟩ := ai_ge w n hw
    have h3 : ¬ (UInt8.ofNat (w.ai n) < len8b) := by rw [ofNat_lt_len8b (by omega)]; omega
    have h5 : ¬ (UInt8.ofNat (w.ai n) > len64b) := by rw [ofNat_gt_len64b (by omega)]; omega
    simp only [wcost, hw, if_false, initSub, h3, h5, beq_iff_eq, hne]
    rw [loopFrom_step _ _ rfl rfl (contParse_of_rest (by simp [beBytes_ne_nil w n hw]))]
    rw [execStep_stLen (good_pushState (good_pushState hQ _ hm1) _ hm2) w n hw h hn]

theorem initSub_indef (Q : P) (major : UInt8) (bs : Bytes) :
    initSub Q major (UInt8.ofNat 31) bs =
      { p := pushState (pushState Q ⟨major ||| stIndef, stStart⟩) ⟨major ||| stStartX ||| stIndef, stStart⟩,
        rest := bs } := by
  have h31 : UInt8.ofNat 31 = lenIndef := by decide
  simp [initSub, h31]

/-! ## facts about wire forms -/

theorem wire_first (t : Item) (h : t.ok = true) : ∃ b0 bs, t.wire = b0 :: bs ∧ b0 ≠ 0xff := by
  have hib : ∀ (m : Fin 6) (a : Fin 32), ib m.val a.val ≠ 0xff := by decide
  have hib' : ∀ m a, m < 6 → a < 32 → ib m a ≠ 0xff := fun m a hm ha => hib ⟨m, hm⟩ ⟨a, ha⟩
  cases t with
  | uint w n => exact ⟨_, _, rfl, hib' 0 _ (by omega) (ai_lt w n (by simpa [Item.ok] using h))⟩
  | nint w n =>
    simp only [Item.ok, Bool.and_eq_true] at h
    exact ⟨_, _, rfl, hib' 1 _ (by omega) (ai_lt w n h.1)⟩
  | bytes w bs =>
    simp only [Item.ok, Bool.and_eq_true] at h
    exact ⟨_, beBytes w.bytes bs.length ++ bs, by simp [Item.wire, head_eq], hib' 2 _ (by omega) (ai_lt w _ h.1)⟩
  | text w bs =>
    simp only [Item.ok, Bool.and_eq_true] at h
    exact ⟨_, beBytes w.bytes bs.length ++ bs, by simp [Item.wire, head_eq], hib' 3 _ (by omega) (ai_lt w _ h.1)⟩
  | arr w xs =>
    simp only [Item.ok, Bool.and_eq_true] at h
    exact ⟨_, beBytes w.bytes xs.length ++ wireList xs, by simp [Item.wire, head_eq], hib' 4 _ (by omega) (ai_lt w _ h.1.1)⟩
  | map w ms =>
    simp only [Item.ok, Bool.and_eq_true] at h
    exact ⟨_, beBytes w.bytes ms.length ++ wireMems ms, by simp [Item.wire, head_eq], hib' 5 _ (by omega) (ai_lt w _ h.1.1)⟩
  | arrIndef xs => exact ⟨_, _, rfl, by decide⟩
  | mapIndef ms => exact ⟨_, _, rfl, by decide⟩
  | fals => exact ⟨_, _, rfl, by decide⟩
  | tru => exact ⟨_, _, rfl, by decide⟩
  | null => exact ⟨_, _, rfl, by decide⟩
  | undef => exact ⟨_, _, rfl, by decide⟩
  | f32 b => exact ⟨_, _, rfl, by decide⟩
  | f64 b => exact ⟨_, _, rfl, by decide⟩

theorem wire_ne_nil (t : Item) (h : t.ok = true) : t.wire ≠ [] := by
  obtain ⟨b0, bs, hw, _⟩ := wire_first t h
  simp [hw]

end SF.Cbor.Parse
