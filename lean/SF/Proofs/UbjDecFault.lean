/-
  C16 (visitor errors) for the UBJSON PULL DECODER mirror (SF/Ubjson/Dec.lean): helper lemmas.

  The decoder embeds the parser state `d.p` (`failAt` = the visitor's fault index, `evs` = the
  log of ALL events delivered so far, across calls of `Next`).  `Next` touches `d.p` through
  `feedUntil` and, at the end of the input, through `Parser.finalize` (whose closing loop may
  deliver `arrEnd`/`objEnd` events).  Both keep the parser-level dichotomy (`Fault.GoodOut`,
  SF/Proofs/UbjChunkFault.lean) — for EVERY state, EVERY fuel of the parser loop and of the
  decoder loop: the dichotomy needs NO "no outOfFuel" proviso (an `outOfFuel` result is not the
  visitor's error and comes with at most k events).  All reasoning goes through `nextG` (`next`
  with the parser's fuel function abstracted; unfolding `next` itself normalises a big literal).
-/
import SF.Proofs.UbjChunkFault
import SF.Proofs.UbjDecReader
set_option linter.unusedSimpArgs false
set_option linter.unusedVariables false
namespace SF.Ubjson.DecFault
open SF SF.Ubjson SF.Ubjson.Parse SF.Ubjson.Dec SF.Ubjson.DecR SF.Ubjson.Fault

variable {fa : Option Nat}

/-- outcome of one call of `Next` that started without a fault (fault index `fa`): still no
fault and the result is not the visitor's error, or THE VISITOR'S error with delivery stopped at
the failing event -/
def GoodNext (fa : Option Nat) (q : P) (r : NextRes) : Prop :=
  (r ≠ .err .visitor ∧ NF fa q) ∨ (r = .err .visitor ∧ Stopped fa q)

/-- the end of the input: `finalize`, then `io.EOF` -/
theorem atEOF_good (d : Dec) (h : NF fa d.p) : GoodNext fa (atEOF d).1.p (atEOF d).2 := by
  have hg := finalize_good d.p h
  unfold atEOF
  rcases hf : finalize d.p with ⟨q, e⟩
  rw [hf] at hg
  cases e with
  | some e =>
    simp only
    rcases hg with ⟨hne, hq⟩ | ⟨hv, hq⟩
    · exact Or.inl ⟨by intro hc; injection hc with hc; exact hne (by rw [hc]), hq⟩
    · exact Or.inr ⟨by injection hv with hv; rw [hv], hq⟩
  | none =>
    simp only
    exact Or.inl ⟨by simp, GoodOut.nf hg (by simp)⟩

/-- the inner function of `Next` (run the parser on the buffer), given the statement for the
recursive call -/
theorem feedIt_good (ff : Bytes → Nat) (fuel : Nat)
    (ih : ∀ (d : Dec), NF fa d.p → GoodNext fa (nextG ff fuel d).1.p (nextG ff fuel d).2)
    (d : Dec) (h : NF fa d.p) :
    GoodNext fa (feedIt ff fuel d).1.p (feedIt ff fuel d).2 := by
  have hg : GoodOut fa (feedUntil (ff d.buffer) d.p d.buffer).p (feedUntil (ff d.buffer) d.p d.buffer).err :=
    feedUntil_good (ff d.buffer) d.p d.buffer h
  unfold feedIt
  simp only []
  cases hre : (feedUntil (ff d.buffer) d.p d.buffer).err with
  | some e =>
    simp only
    rw [hre] at hg
    rcases hg with ⟨hne, hq⟩ | ⟨hv, hq⟩
    · exact Or.inl ⟨by intro hc; injection hc with hc; exact hne (by rw [hc]), hq⟩
    · exact Or.inr ⟨by injection hv with hv; rw [hv], hq⟩
  | none =>
    simp only
    rw [hre] at hg
    have hq := GoodOut.nf hg (by simp)
    split
    · exact Or.inl ⟨by simp, hq⟩
    · exact ih { d with p := (feedUntil (ff d.buffer) d.p d.buffer).p,
                        buffer := (feedUntil (ff d.buffer) d.p d.buffer).rest } hq

/-- ONE CALL of `Next`, EVERY decoder state, reader, buffer size and fuels: the dichotomy -/
theorem nextG_good (ff : Bytes → Nat) (fuel : Nat) : ∀ (d : Dec), NF fa d.p →
    GoodNext fa (nextG ff fuel d).1.p (nextG ff fuel d).2 := by
  induction fuel with
  | zero =>
    intro d h
    rw [nextG_zero]
    exact Or.inl ⟨by simp, h⟩
  | succ fuel ih =>
    intro d h
    rw [nextG_succ]
    split
    · split
      · exact atEOF_good d h
      · split
        · exact atEOF_good (afterRead d) h
        · exact feedIt_good ff fuel ih (afterRead d) h
    · exact feedIt_good ff fuel ih d h

theorem next_good (fuel : Nat) (d : Dec) (h : NF fa d.p) : GoodNext fa (next fuel d).1.p (next fuel d).2 := by
  rw [next_eq_nextG]; exact nextG_good fuelFor fuel d h

/-! ## sequences of calls -/

/-- the trace of a sequence of calls under a visitor failing at its k-th event: either the
fault was never reached — no call returned the visitor's error and at most k events were
delivered in total —, or the LAST call returned THE VISITOR'S error with exactly k+1 events
delivered in total, every earlier call having returned `.ok` with at most k events -/
def GoodTrace (k : Nat) (tr : List (NextRes × List Ev)) : Prop :=
  (∀ x ∈ tr, x.1 ≠ .err .visitor ∧ x.2.length ≤ k) ∨
  (∃ pre evs, tr = pre ++ [(NextRes.err .visitor, evs)] ∧ evs.length = k + 1 ∧
    ∀ x ∈ pre, x.1 = .ok ∧ x.2.length ≤ k)

theorem nextsG_good (ff : Bytes → Nat) (f : Dec → Nat) (k : Nat) (n : Nat) : ∀ (d : Dec), NF (some k) d.p →
    GoodTrace k (nextsG ff f n d) := by
  induction n with
  | zero => intro d _; exact Or.inl (by simp [nextsG])
  | succ n ih =>
    intro d h
    have hn := nextG_good ff (f d) d h
    rw [nextsG_succ]
    rcases hn with ⟨hne, hq⟩ | ⟨hv, _, k', hk2, hl⟩
    · have hlen : (Parse.events (nextG ff (f d) d).1.p).length ≤ k := by
        simp only [Parse.events, List.length_reverse]; exact hq.2.1 k rfl
      by_cases hok : (nextG ff (f d) d).2 = .ok
      · simp only [hok, beq_self_eq_true, if_true]
        rcases ih (nextG ff (f d) d).1 hq with hA | ⟨pre, evs, e1, e2, e3⟩
        · left
          intro x hx
          rcases List.mem_cons.mp hx with hx | hx
          · rw [hx]; exact ⟨by simp, hlen⟩
          · exact hA x hx
        · right
          refine ⟨(NextRes.ok, Parse.events (nextG ff (f d) d).1.p) :: pre, evs, by rw [e1]; rfl, e2, ?_⟩
          intro x hx
          rcases List.mem_cons.mp hx with hx | hx
          · rw [hx]; exact ⟨rfl, hlen⟩
          · exact e3 x hx
      · have : ((nextG ff (f d) d).2 == NextRes.ok) = false := by simpa using hok
        simp only [this, Bool.false_eq_true, if_false]
        left
        intro x hx
        simp only [List.mem_singleton] at hx
        rw [hx]; exact ⟨hne, hlen⟩
    · right
      injection hk2 with hk2; subst hk2
      refine ⟨[], Parse.events (nextG ff (f d) d).1.p, ?_, by simp only [Parse.events, List.length_reverse]; exact hl, by simp⟩
      rw [hv]; simp

theorem nextsF_good (f : Dec → Nat) (k : Nat) (n : Nat) (d : Dec) (h : NF (some k) d.p) :
    GoodTrace k (nextsF f n d) := by
  rw [nextsF_eq_nextsG]; exact nextsG_good fuelFor f k n d h

/-- in any trace every call but the last returned `.ok` -/
theorem nextsG_init_ok (ff : Bytes → Nat) (f : Dec → Nat) (n : Nat) :
    ∀ (d : Dec) (pre : List (NextRes × List Ev)) (x : NextRes × List Ev),
    nextsG ff f n d = pre ++ [x] → ∀ y ∈ pre, y.1 = .ok := by
  induction n with
  | zero => intro d pre x h; simp [nextsG] at h
  | succ n ih =>
    intro d pre x h y hy
    rw [nextsG_succ] at h
    cases pre with
    | nil => simp at hy
    | cons a pre =>
      simp only [List.cons_append, List.cons.injEq] at h
      obtain ⟨ha, ht⟩ := h
      by_cases hok : (nextG ff (f d) d).2 = .ok
      · simp only [hok, beq_self_eq_true, if_true] at ht
        rcases List.mem_cons.mp hy with hy | hy
        · rw [hy, ← ha]; exact hok
        · exact ih _ pre x ht y hy
      · have : ((nextG ff (f d) d).2 == NextRes.ok) = false := by simpa using hok
        simp only [this, Bool.false_eq_true, if_false] at ht
        have := congrArg List.length ht
        simp at this

theorem nextsF_init_ok (f : Dec → Nat) (n : Nat) (d : Dec) (pre : List (NextRes × List Ev))
    (x : NextRes × List Ev) (h : nextsF f n d = pre ++ [x]) : ∀ y ∈ pre, y.1 = .ok := by
  rw [nextsF_eq_nextsG] at h; exact nextsG_init_ok fuelFor f n d pre x h

/-- entry by entry: a call returns the visitor's error IFF k+1 events have been delivered in
total, and never more than k+1 are -/
theorem GoodTrace.entry {k : Nat} {tr : List (NextRes × List Ev)} (h : GoodTrace k tr) :
    ∀ x ∈ tr, (x.1 = .err .visitor ↔ x.2.length = k + 1) ∧ x.2.length ≤ k + 1 := by
  intro x hx
  rcases h with hA | ⟨pre, evs, e1, e2, e3⟩
  · obtain ⟨h1, h2⟩ := hA x hx
    exact ⟨⟨fun hc => absurd hc h1, fun hc => by omega⟩, by omega⟩
  · rw [e1] at hx
    rcases List.mem_append.mp hx with hx | hx
    · obtain ⟨h1, h2⟩ := e3 x hx
      exact ⟨⟨fun hc => (by rw [h1] at hc; cases hc), fun hc => by omega⟩, by omega⟩
    · simp only [List.mem_singleton] at hx
      rw [hx]
      exact ⟨⟨fun _ => e2, fun _ => rfl⟩, by simp only; omega⟩

/-- a visitor without a fault index never fails: no call returns the visitor's error -/
theorem nextsG_no_visitor (ff : Bytes → Nat) (f : Dec → Nat) (n : Nat) : ∀ (d : Dec), NF none d.p →
    ∀ x ∈ nextsG ff f n d, x.1 ≠ .err .visitor := by
  induction n with
  | zero => intro d _ x hx; simp [nextsG] at hx
  | succ n ih =>
    intro d h x hx
    have hn := nextG_good ff (f d) d h
    have hne : (nextG ff (f d) d).2 ≠ .err .visitor ∧ NF none (nextG ff (f d) d).1.p := by
      rcases hn with ⟨hne, hq⟩ | ⟨_, _, k, hk, _⟩
      · exact ⟨hne, hq⟩
      · cases hk
    rw [nextsG_succ] at hx
    rcases List.mem_cons.mp hx with hx | hx
    · rw [hx]; exact hne.1
    · by_cases hok : (nextG ff (f d) d).2 = .ok
      · simp only [hok, beq_self_eq_true, if_true] at hx
        exact ih _ hne.2 x hx
      · have : ((nextG ff (f d) d).2 == NextRes.ok) = false := by simpa using hok
        simp [this] at hx

theorem nextsF_no_visitor (f : Dec → Nat) (n : Nat) (d : Dec) (h : NF none d.p) :
    ∀ x ∈ nextsF f n d, x.1 ≠ .err .visitor := by
  rw [nextsF_eq_nextsG]; exact nextsG_no_visitor fuelFor f n d h

end SF.Ubjson.DecFault
