/-
  C11, direct path, NESTED struct types — the ORACLE's comparison (`agreeF "direct"`), by recursion on the
  description tree: struct-typed members and inlined structs are compared field by field at their own type.
-/
import SF.Proofs.FuIdStruct2NRun
namespace SF.FuId
open SF SF.Gotype SF.Gotype.Fold SF.FoldProofs
open SF.Ops.Fu (agreeF isZeroF)

/-- the oracle's comparison of ONE struct field (the body of `agreeF` on struct types, path "direct") -/
def fieldAgree (fuel : Nat) (f : Field) (x y : GoVal) : Bool :=
  let tag := Rules.parseTag f.tag
  if !f.exported || tag.dash || tag.omit' then isZeroF 1000 y
  else if tag.inline then agreeF "direct" fuel f.typ x y
  else if tag.omitEmpty && Rules.isEmptyF 100000 f.typ x then isZeroF 1000 y || agreeF "direct" fuel f.typ x y
  else
    let name := strBytes (if tag.name != "" then tag.name else toLower f.name)
    if ("direct" == "json") && SF.Ops.Fu.fixU name != name then true
    else agreeF "direct" fuel f.typ x y

theorem agree_struct_eq (m : Nat) (T : GoType) (fs : List Field) (vs gs : List GoVal) (hu : T.under = .struct fs) :
    agreeF "direct" (m + 1) T (.struct vs) (.struct gs) =
      (vs.length == fs.length && gs.length == fs.length &&
        (fs.zip (vs.zip gs)).all fun (x : Field × GoVal × GoVal) => fieldAgree m x.1 x.2.1 x.2.2) := by
  rw [SF.Ops.Fu.agreeF.eq_def]
  simp only [hu]
  rfl

theorem fk_inline {f : Field} (h : fieldKind f = .inline) :
    (!f.exported || (Rules.parseTag f.tag).dash || (Rules.parseTag f.tag).omit') = false ∧
      (Rules.parseTag f.tag).inline = true := by
  unfold fieldKind at h
  simp only [] at h
  split at h
  · cases h
  · rename_i h1
    split at h
    · cases h
    · split at h
      · cases h
      · rename_i h3
        split at h
        · rename_i h4
          refine ⟨?_, h4⟩
          have h1' : (!f.exported || (Rules.parseTag f.tag).dash) = false := by simpa using h1
          have h3' : (Rules.parseTag f.tag).omit' = false := by simpa using h3
          rw [h1', h3']; rfl
        · split at h <;> cases h

mutual
/-- the side condition of (f): the reflection path did not touch the bits of a float32 member -/
def qL : List FT → List GoVal → Prop
  | d :: ds, v :: vs => qI d v ∧ qL ds vs
  | _, _ => True
def qI : FT → GoVal → Prop
  | .mem _ p, v => trPtrElem p v = trPrim p v
  | .oe _ p, v => trPtrElem p v = trPrim p v
  | .sub _ _ _ _ ds, .struct vs => qL ds vs
  | .inl _ _ ds, .struct vs => qL ds vs
  | _, _ => True
end

mutual
theorem lenDL : ∀ (fs : List Field) (ds : List FT), descL fs ds → fs.length = ds.length
  | [], [], _ => rfl
  | f :: fs, d :: ds, h => by
    simp only [descL] at h
    simp [lenDL fs ds h.2]
  | [], _ :: _, h => by simp [descL] at h
  | _ :: _, [], h => by simp [descL] at h
end

theorem lenVL : ∀ (ds : List FT) (vs : List GoVal), valsL ds vs = true → vs.length = ds.length
  | [], [], _ => rfl
  | d :: ds, v :: vs, h => by simp [lenVL ds vs (valsL_cons h).2]
  | [], _ :: _, h => by simp [valsL] at h
  | _ :: _, [], h => by simp [valsL] at h

theorem lenTL : ∀ (ds : List FT) (vs : List GoVal), valsL ds vs = true → (backList (trL ds vs)).length = ds.length
  | [], [], _ => rfl
  | d :: ds, v :: vs, h => by simp [trL, backList, lenTL ds vs (valsL_cons h).2]
  | [], _ :: _, h => by simp [valsL] at h
  | _ :: _, [], h => by simp [valsL] at h

mutual
theorem agL : ∀ (fs : List Field) (ds : List FT), descL fs ds → ∀ (vs : List GoVal), valsL ds vs = true → qL ds vs →
    ∀ (sn : List String) (m : Nat), goodFs sn fs = true → tdepthFs fs + 1 ≤ m →
    ((fs.zip (vs.zip (backList (trL ds vs)))).all fun (x : Field × GoVal × GoVal) => fieldAgree m x.1 x.2.1 x.2.2) = true
  | [], [], _, _, _, _, _, _, _, _ => by simp
  | f :: fs, d :: ds, h, v :: vs, hv, hq, sn, m, hg, hm => by
    simp only [descL] at h
    simp only [qL] at hq
    obtain ⟨hv1, hv2⟩ := valsL_cons hv
    obtain ⟨hgf, _, hgs⟩ := goodFs_cons hg
    rw [tdepthFs_cons] at hm
    simp only [trL, backList, List.zip_cons_cons, List.all_cons, Bool.and_eq_true]
    exact ⟨agI f d h.1 v hv1 hq.1 sn m hgf (by omega), agL fs ds h.2 vs hv2 hq.2 sn m hgs (by omega)⟩
  | [], _ :: _, h, _, _, _, _, _, _, _ => by simp [descL] at h
  | _ :: _, [], h, _, _, _, _, _, _, _ => by simp [descL] at h
  | _ :: _, _ :: _, _, [], hv, _, _, _, _, _ => by simp [valsL] at hv
theorem agI : ∀ (f : Field) (d : FT), descI f d → ∀ (v : GoVal), valI d v = true → qI d v →
    ∀ (sn : List String) (m : Nat), goodT sn f.typ = true → tdepth f.typ + 1 ≤ m →
    fieldAgree m f v (back (trI d v)) = true
  | f, .drop p, h, v, hv, hq, sn, m, hg, hm => by
    simp only [descI] at h
    simp only [fieldAgree, fk_drop h.1, if_true, trI]
    exact isZero_zeroPrim p
  | f, .mem nm p, h, v, hv, hq, sn, m, hg, hm => by
    obtain ⟨m, rfl⟩ : ∃ k, m = k + 1 := ⟨m - 1, by omega⟩
    simp only [descI] at h
    simp only [valI] at hv
    simp only [qI] at hq
    obtain ⟨h1, h2, h3⟩ := fk_plain h.1
    have hj : ("direct" == "json") = false := by decide
    have hb : back (trI (.mem nm p) v) = v := by
      simp only [trI]; rw [hq]; exact back_trPrim p v hv
    simp only [fieldAgree, h1, h2, h3, hj, Bool.false_eq_true, if_false, Bool.false_and, hb, h.2]
    exact agree_prim m p v hv
  | f, .oe nm p, h, v, hv, hq, sn, m, hg, hm => by
    obtain ⟨m, rfl⟩ : ∃ k, m = k + 1 := ⟨m - 1, by omega⟩
    simp only [descI] at h
    simp only [valI] at hv
    simp only [qI] at hq
    obtain ⟨h1, h2, h3⟩ := fk_omitEmpty h.1
    have hj : ("direct" == "json") = false := by decide
    have hb : back (trI (.oe nm p) v) = v := by
      simp only [trI]; rw [hq]; exact back_trPrim p v hv
    have ha := agree_prim m p v hv
    simp only [fieldAgree, h1, h2, h3, hj, Bool.false_eq_true, if_false, Bool.false_and, Bool.true_and, hb, h.2, ha,
      Bool.or_true, ite_self]
  | f, .sub nm T fs' ut ds', h, v, hv, hq, sn, m, hg, hm => by
    cases v with
    | struct vs =>
      simp only [descI] at h
      obtain ⟨hk, ht, hu, hdesc⟩ := h
      simp only [valI] at hv
      simp only [qI] at hq
      rw [ht] at hg hm
      have hdep := tdepth_struct_le hg hu
      obtain ⟨m, rfl⟩ : ∃ k, m = k + 1 := ⟨m - 1, by omega⟩
      obtain ⟨h1, h2, h3⟩ := fk_plain hk
      have hj : ("direct" == "json") = false := by decide
      simp only [fieldAgree, h1, h2, h3, hj, Bool.false_eq_true, if_false, Bool.false_and, ht, trI, back]
      rw [agree_struct_eq m T fs' _ _ hu]
      simp only [lenVL ds' vs hv, lenDL fs' ds' hdesc, lenTL ds' vs hv, beq_self_eq_true, Bool.true_and]
      exact agL fs' ds' hdesc vs hv hq (snU sn T) m (good_struct_fields hg hu) (by omega)
    | _ => simp [valI] at hv
  | f, .inl T fs' ds', h, v, hv, hq, sn, m, hg, hm => by
    cases v with
    | struct vs =>
      simp only [descI] at h
      obtain ⟨hk, ht, hu, hdesc⟩ := h
      simp only [valI] at hv
      simp only [qI] at hq
      rw [ht] at hg hm
      have hdep := tdepth_struct_le hg hu
      obtain ⟨m, rfl⟩ : ∃ k, m = k + 1 := ⟨m - 1, by omega⟩
      obtain ⟨h1, h2⟩ := fk_inline hk
      simp only [fieldAgree, h1, h2, Bool.false_eq_true, if_false, if_true, ht, trI, back]
      rw [agree_struct_eq m T fs' _ _ hu]
      simp only [lenVL ds' vs hv, lenDL fs' ds' hdesc, lenTL ds' vs hv, beq_self_eq_true, Bool.true_and]
      exact agL fs' ds' hdesc vs hv hq (snU sn T) m (good_struct_fields hg hu) (by omega)
    | _ => simp [valI] at hv
end

/-- the oracle's comparison for a nested struct -/
theorem agree_structN (S : GoType) (fs : List Field) (ds : List FT) (vs : List GoVal)
    (hg : goodT [] S = true) (hu : S.under = .struct fs) (hd : descL fs ds) (hv : valsL ds vs = true)
    (hdep : tdepth S ≤ 498) (hq : qL ds vs) :
    agreeF "direct" 1000 S (.struct vs) (back (.struct (trL ds vs))) = true := by
  have hdp := tdepth_struct_le hg hu
  show agreeF "direct" (999 + 1) S _ _ = true
  simp only [back]
  rw [agree_struct_eq 999 S fs _ _ hu]
  simp only [lenVL ds vs hv, lenDL fs ds hd, lenTL ds vs hv, beq_self_eq_true, Bool.true_and]
  exact agL fs ds hd vs hv hq (snU [] S) 999 (good_struct_fields hg hu) (by omega)

end SF.FuId
