/-
  Targets with structs, part 7: a fresh `reflect.New` cell, `initState` of a compiled unfolder on a pointer
  (the lazy placeholder of a self-referential type is resolved through the registry), `process` of
  `unfolderReflMapOnElem` / `unfolderReflPtr` (ports of `UnfTyInit`, `UnfTyProc`).
-/
import SF.Proofs.UnfStrRefl
namespace SF.Unf.Str
open SF SF.Unf

variable {tbl : TypeTable} {R : Reg} {D : Nat} {base : S6} {fs : List Frame} {c : Ctx}

/-- the frames whose `prepare` allocates a cell, and the type of the cell -/
def Frame.cellTy : Frame → Option GoType
  | .rmE e _ _ _ _ => some e
  | .rp e _ _ _ => some e
  | _ => none

/-- `prepare`: a fresh zeroed cell, its pointer on the value stack -/
theorem prepare_cell (e : GoType) (G : Frame) (hG : G.cellTy = some e) (hz : ZeroOK tbl e)
    (h : Inv tbl R D base (G :: fs) c) :
    ∃ c1, reflMapOnElemPrepare e c = .ok (some ⟨.cell c.cells.size, []⟩) c1 ∧
      Inv tbl R D base (.cellx e ⟨.cell c.cells.size, []⟩ :: G :: fs) c1 ∧
      deref c1 ⟨.cell c.cells.size, []⟩ = some (zero tbl e) ∧ c1.whatIfFixed = c.whatIfFixed := by
  have hrun : reflMapOnElemPrepare e c = .ok (some ⟨.cell c.cells.size, []⟩) (cellCtx c e) := by
    simp [reflMapOnElemPrepare, bind_def, newCell, pushValue, modifyCtx, pure_def, cellCtx]
  have hcell : deref (cellCtx c e) ⟨.cell c.cells.size, []⟩ = some (zero tbl e) := by
    simp [deref, rootVal, cellCtx, h.env]
  obtain ⟨hu, hp, hv, hk, hi, hb⟩ := s6_eq _ _ h.stacks
  refine ⟨_, hrun, ⟨?_, ⟨⟨rfl, h.fresh_cells, ?_⟩, h.wfs⟩, ?_, ?_, ?_, ?_, h.env, h.reg, h.regOK⟩, hcell, rfl⟩
  · exact s6_mk _ _ (by simp [stacksOf, Frame.push, hu, cellCtx]) (by simp [stacksOf, Frame.push, hp, cellCtx])
      (by simp [stacksOf, Frame.push, hv, cellCtx]) (by simp [stacksOf, Frame.push, hk, cellCtx])
      (by simp [stacksOf, Frame.push, hi, cellCtx]) (by simp [stacksOf, Frame.push, hb, cellCtx])
  · cases G <;> first | (simp only [Frame.cellTy, Option.some.injEq] at hG; exact hG) | (simp [Frame.cellTy] at hG)
  · intro x hx
    simp only [liveOf, List.map_cons, List.mem_cons] at hx
    rcases hx with rfl | hx
    · exact ⟨_, hcell, hz, trivial⟩
    · refine (h.mem.grow ?_) x (by simpa [liveOf] using hx)
      intro p v hd
      exact deref_grow c (cellCtx c e) rfl (fun n v h => push_getElem?_of_some _ _ _ _ h) (fun _ _ h => h)
        (fun _ _ h => h) (fun _ _ h => h) p v hd
  · exact h.nA
  · exact h.nMA
  · exact h.nMP

/-- the frame `initState` pushes -/
def waitF : RU → GoType → Path → Frame
  | .lifted (.prim k), t, q => .prim k t q
  | .lifted (.arr k), t, q => .arrS k t q
  | .lifted (.map k), t, q => .mapS k t q
  | .slice e ru, t, q => .rslS e ru t q
  | .map e ru, t, q => .rmS e ru t q
  | .ptr e ru, t, q => .rp e ru t q
  | .struct fields, t, q => .stS fields t q
  | .ref _, t, q => .prim .ifc t q

theorem waitF_live (ru : RU) (t : GoType) (q : Path) : (waitF ru t q).live = (q, t, .none) := by
  cases ru with
  | lifted p => cases p <;> rfl
  | _ => rfl

theorem resolveRU_notRef (ru : RU) (c : Ctx) (h : ru.notRef) : resolveRU ru c = .ok ru c := by
  cases ru <;> first | rfl | exact h.elim

/-- `reflUnfolder.initState` of a real unfolder (no placeholder) on a pointer that resolves to a value of
the type the unfolder is consistent with -/
theorem init_notRef (ru : RU) (t : GoType) (q : Path) (hnr : ru.notRef) (hok : RUOk tbl R D t ru)
    (h : Inv tbl R D base fs c) (hatt : ∀ a, Attach tbl q t a fs) (x : GoVal) (hx : deref c q = some x)
    (hxok : HasTy tbl t x) :
    ∃ c', (match ru with
        | .ref n => modelGap ("registry entry of " ++ n ++ " is a placeholder")
        | .lifted p => initStatePU p (some q)
        | .slice et elem => do
          pushValue (some q); pushU (.reflSlice et elem); pushIdx 0; pushU .reflSliceStart
        | .map et elem => do
          pushValue (some q); pushU (.reflMapOnKey et elem); pushU .reflMapStart
        | .ptr et elem => do
          pushValue (some q); pushU (.reflPtr et elem)
        | .struct fields => do
          pushPtr (some q); pushU (.struct fields); pushU .structStart : M Unit) c = .ok () c' ∧
      Inv tbl R D base (waitF ru t q :: fs) c' ∧ c'.whatIfFixed = c.whatIfFixed := by
  obtain ⟨hu, hp, hv, hk, hi, hb⟩ := s6_eq _ _ h.stacks
  have key : ∀ c' : Ctx, c'.mem' = c.mem' → c'.s6 = stacksOf base (waitF ru t q :: fs) → Born tbl R D (waitF ru t q) fs →
      cntA (waitF ru t q :: fs) = cntA fs → cntMA (waitF ru t q :: fs) = cntMA fs →
      cntMP (waitF ru t q :: fs) = cntMP fs → Inv tbl R D base (waitF ru t q :: fs) c' := by
    intro c' hm hs hborn hA hMA hMP
    obtain ⟨hm, he, hr⟩ := mem_of_mem' hm
    have hvb : c'.valueBuffer = c.valueBuffer := by
      simp only [Ctx.mem, Prod.mk.injEq] at hm; exact hm.2.2
    refine ⟨hs, ⟨hborn, h.wfs⟩, ?_, by rw [hvb, h.nA, hA], by rw [hvb, h.nMA, hMA], by rw [hvb, h.nMP, hMP],
      he.trans h.env, hr.trans h.reg, h.regOK⟩
    intro y hy
    simp only [liveOf, List.map_cons, List.mem_cons] at hy
    rcases hy with rfl | hy
    · rw [waitF_live ru t q]
      exact ⟨x, (deref_congr c c' hm q).trans hx, hxok, trivial⟩
    · exact (h.mem.congr hm) y (by simpa [liveOf] using hy)
  cases ru with
  | lifted pu =>
    cases pu with
    | prim k =>
      refine ⟨{ c with unfolder := c.unfolder.push (.prim k), ptr := c.ptr.push (some q) },
        by simp [initStatePU, primInitState, bind_def, pushU, pushPtr, modifyCtx],
        key _ rfl ?_ ⟨hatt none, ?_⟩ rfl rfl rfl, rfl⟩
      · exact s6_mk _ _ (by simp [waitF, stacksOf, Frame.push, hu]) (by simp [waitF, stacksOf, Frame.push, hp])
          (by simp [waitF, stacksOf, Frame.push, hv]) (by simp [waitF, stacksOf, Frame.push, hk])
          (by simp [waitF, stacksOf, Frame.push, hi]) (by simp [waitF, stacksOf, Frame.push, hb])
      · cases hok with
        | prim _ _ hf => exact hf
    | arr k =>
      refine ⟨{ c with unfolder := (c.unfolder.push (.arr k)).push (.arrStart k), idx := c.idx.push 0,
                       ptr := c.ptr.push (some q) },
        by simp [initStatePU, arrInitState, bind_def, pushU, pushPtr, pushIdx, modifyCtx],
        key _ rfl ?_ ⟨hatt _, ?_⟩ rfl rfl rfl, rfl⟩
      · exact s6_mk _ _ (by simp [waitF, stacksOf, Frame.push, hu]) (by simp [waitF, stacksOf, Frame.push, hp])
          (by simp [waitF, stacksOf, Frame.push, hv]) (by simp [waitF, stacksOf, Frame.push, hk])
          (by simp [waitF, stacksOf, Frame.push, hi]) (by simp [waitF, stacksOf, Frame.push, hb])
      · cases hok with
        | arr _ e _ h1 h2 => exact ⟨e, h1, h2⟩
    | map k =>
      refine ⟨{ c with unfolder := (c.unfolder.push (.mapKey k)).push (.mapStart k), ptr := c.ptr.push (some q) },
        by simp [initStatePU, mapInitState, bind_def, pushU, pushPtr, modifyCtx],
        key _ rfl ?_ ⟨hatt _, ?_⟩ rfl rfl rfl, rfl⟩
      · exact s6_mk _ _ (by simp [waitF, stacksOf, Frame.push, hu]) (by simp [waitF, stacksOf, Frame.push, hp])
          (by simp [waitF, stacksOf, Frame.push, hv]) (by simp [waitF, stacksOf, Frame.push, hk])
          (by simp [waitF, stacksOf, Frame.push, hi]) (by simp [waitF, stacksOf, Frame.push, hb])
      · cases hok with
        | map _ e _ h1 => exact ⟨e, h1⟩
  | slice e elem =>
    refine ⟨{ c with value := c.value.push (some q),
                     unfolder := (c.unfolder.push (.reflSlice e elem)).push .reflSliceStart, idx := c.idx.push 0 },
      by simp [bind_def, pushValue, pushU, pushIdx, modifyCtx],
      key _ rfl ?_ ⟨hatt none, hok⟩ rfl rfl rfl, rfl⟩
    exact s6_mk _ _ (by simp [waitF, stacksOf, Frame.push, hu]) (by simp [waitF, stacksOf, Frame.push, hp])
      (by simp [waitF, stacksOf, Frame.push, hv]) (by simp [waitF, stacksOf, Frame.push, hk])
      (by simp [waitF, stacksOf, Frame.push, hi]) (by simp [waitF, stacksOf, Frame.push, hb])
  | map e elem =>
    refine ⟨{ c with value := c.value.push (some q),
                     unfolder := (c.unfolder.push (.reflMapOnKey e elem)).push .reflMapStart },
      by simp [bind_def, pushValue, pushU, modifyCtx],
      key _ rfl ?_ ⟨hatt none, hok⟩ rfl rfl rfl, rfl⟩
    exact s6_mk _ _ (by simp [waitF, stacksOf, Frame.push, hu]) (by simp [waitF, stacksOf, Frame.push, hp])
      (by simp [waitF, stacksOf, Frame.push, hv]) (by simp [waitF, stacksOf, Frame.push, hk])
      (by simp [waitF, stacksOf, Frame.push, hi]) (by simp [waitF, stacksOf, Frame.push, hb])
  | ptr e elem =>
    refine ⟨{ c with value := c.value.push (some q), unfolder := c.unfolder.push (.reflPtr e elem) },
      by simp [bind_def, pushValue, pushU, modifyCtx],
      key _ rfl ?_ ⟨hatt none, hok⟩ rfl rfl rfl, rfl⟩
    exact s6_mk _ _ (by simp [waitF, stacksOf, Frame.push, hu]) (by simp [waitF, stacksOf, Frame.push, hp])
      (by simp [waitF, stacksOf, Frame.push, hv]) (by simp [waitF, stacksOf, Frame.push, hk])
      (by simp [waitF, stacksOf, Frame.push, hi]) (by simp [waitF, stacksOf, Frame.push, hb])
  | struct fields =>
    refine ⟨{ c with ptr := c.ptr.push (some q), unfolder := (c.unfolder.push (.struct fields)).push .structStart },
      by simp [bind_def, pushPtr, pushU, modifyCtx],
      key _ rfl ?_ ⟨hatt none, hok⟩ rfl rfl rfl, rfl⟩
    exact s6_mk _ _ (by simp [waitF, stacksOf, Frame.push, hu]) (by simp [waitF, stacksOf, Frame.push, hp])
      (by simp [waitF, stacksOf, Frame.push, hv]) (by simp [waitF, stacksOf, Frame.push, hk])
      (by simp [waitF, stacksOf, Frame.push, hi]) (by simp [waitF, stacksOf, Frame.push, hb])
  | ref _ => exact hnr.elim

/-- `reflUnfolder.initState` on a pointer that resolves to a value of the type the unfolder is consistent
with: a placeholder is resolved through the registry; the frame of the real unfolder is pushed -/
theorem init_at (ru : RU) (t : GoType) (q : Path) (hok : RUOk tbl R D t ru) (h : Inv tbl R D base fs c)
    (hatt : ∀ a, Attach tbl q t a fs) (x : GoVal) (hx : deref c q = some x) (hxok : HasTy tbl t x) :
    ∃ ru' c', initStateRU ru (some q) c = .ok () c' ∧ ru'.notRef ∧ RUOk tbl R D t ru' ∧
      Inv tbl R D base (waitF ru' t q :: fs) c' ∧ c'.whatIfFixed = c.whatIfFixed := by
  have main : ∀ ru', ru'.notRef → RUOk tbl R D t ru' → resolveRU ru c = .ok ru' c →
      ∃ ru' c', initStateRU ru (some q) c = .ok () c' ∧ ru'.notRef ∧ RUOk tbl R D t ru' ∧
        Inv tbl R D base (waitF ru' t q :: fs) c' ∧ c'.whatIfFixed = c.whatIfFixed := by
    intro ru' hnr hok' hres
    obtain ⟨c', hrun, hinv, hw⟩ := init_notRef ru' t q hnr hok' h hatt x hx hxok
    refine ⟨ru', c', ?_, hnr, hok', hinv, hw⟩
    unfold initStateRU
    rw [bind_ok _ _ c c ru' hres]
    exact hrun
  by_cases hnr : ru.notRef
  · exact main ru hnr hok (resolveRU_notRef ru c hnr)
  · cases ru with
    | ref n =>
      cases hok with
      | ref _ _ ru0 hl hun =>
        obtain ⟨hnr0, hok0⟩ := h.regOK n ru0 hl
        refine main ru0 hnr0 (hok0.congr hun.symm) ?_
        simp [resolveRU, h.reg, hl]
    | _ => exact absurd trivial hnr

/-! ## `process` -/

/-- popping the cell pointer -/
theorem pop_cellx (e : GoType) (C : Path) (G : Frame) (h : Inv tbl R D base (.cellx e C :: G :: fs) c) :
    ∃ v c1, popValue c = .ok (some C) c1 ∧ Inv tbl R D base (G :: fs) c1 ∧ deref c1 C = some v ∧
      c1.unfolder = c.unfolder := by
  have hs : c.s6 = (Frame.cellx e C).push (stacksOf base (G :: fs)) := h.stacks
  obtain ⟨hu, hp, hv, hk, hi, hb⟩ := s6_eq _ _ hs
  simp only [Frame.push] at hu hp hv hk hi hb
  obtain ⟨v, hd, _⟩ := h.top_deref
  refine ⟨v, { c with value := (stacksOf base (G :: fs)).v }, by simp [popValue, hv], ?_,
    (deref_congr c _ rfl C).trans hd, rfl⟩
  exact h.pop (s6_mk _ _ hu hp rfl hk hi hb) rfl rfl rfl rfl

/-- `unfolderReflMapOnElem.process` -/
theorem process_rmE (e' : GoType) (C : Path) (e : GoType) (ru : RU) (t : GoType) (p : Path) (key : Bytes)
    (h : Inv tbl R D base (.cellx e' C :: .rmE e ru t p key :: fs) c) :
    ∃ c', reflMapOnElemProcess e ru c = .ok () c' ∧ Inv tbl R D base (.rmK e ru t p :: fs) c' := by
  obtain ⟨v, c1, hpop, hinv, hd, _⟩ := pop_cellx e' C _ h
  obtain ⟨c', hrun, hinv'⟩ := rmE_set e ru t p key v hinv
  refine ⟨c', ?_, hinv'⟩
  rw [← hrun]
  simp only [reflMapOnElemProcess, bind_def, hpop, load_def, hd]

/-- `unfolderReflPtr.process` -/
theorem process_rp (e' : GoType) (C : Path) (e : GoType) (ru : RU) (t : GoType) (p : Path)
    (h : Inv tbl R D base (.cellx e' C :: .rp e ru t p :: fs) c) :
    ∃ c', reflPtrProcess e c = .ok () c' ∧ Inv tbl R D base fs c' ∧
      c.unfolder.stack.length = c'.unfolder.stack.length + 1 := by
  obtain ⟨v, c1, hpop, hinv, hd, hcu⟩ := pop_cellx e' C _ h
  obtain ⟨hu, hp, hv, hk, hi, hb⟩ := s6_eq _ _ hinv.stacks
  simp only [stacksOf, Frame.push] at hu hp hv hk hi hb
  obtain ⟨old, hold, _⟩ := hinv.top_deref
  have hold : deref c1 p = some old := hold
  have hrun : reflPtrProcess e c = .ok ()
      { storeAt c1 p (.ptr e v) with value := (stacksOf base fs).v, unfolder := (stacksOf base fs).u } := by
    simp only [reflPtrProcess, bind_def, hpop, load_def, hd, currentValue, hv, Stk.push_current,
      store_at_ok c1 p _ _ hold]
    simp [reflPtrCleanup, bind_def, popValue, popU, hu, hv, pure_def]
  refine ⟨_, hrun, hinv.pop_store c1 rfl (.ptr e v) (.flat _ _ (flat_of_ptr hinv.wfs.1.2.ptr_inv.1)) ?_ rfl rfl rfl rfl,
    ?_⟩
  · exact s6_mk _ _ rfl (by simp [hp]) rfl (by simp [hk]) (by simp [hi]) (by simp [hb])
  · rw [← hcu, hu]
    simp [Stk.push]

end SF.Unf.Str
