/-
  Property C16 for the gotype fold mirror (`SF.Gotype.Fold.impl`): visitor errors are
  propagated — promptly, unchanged, never swallowed.

    fold_fault_truncates            impl o T v = truncate k (impl {o with failAt := none} T v)
    fold_propagates_visitor_error   the (a) / (b) dichotomy and the prefix property
    fold_ok_means_fault_not_reached, fold_fault_iff     corollaries
    run_commutes_with_fault         the same for every compiled folder / visitor chain / state

  for EVERY type, value, option record and fault index: no `goodT` / `wt` / depth hypothesis is
  needed, because nothing in the mirror but `deliver` reads the fault index, and every control
  structure hands the first result that is not `ok` to its caller unchanged (the one place that
  rewrites a result, `embeddObjReFold`'s "expected object close", only rewrites `ok`).

  FILES  FoldFaultCore  simulation relation `Rel`, the class `FOK` of computations commuting with
                        the fault, its closure under `bindM` / `seqM` / `rangeM` / state reads and
                        updates, `deliver`, `visit` (ExpectObjVisitor chains), `emit`
         FoldFaultOpts  compile and run functions depend on `FoldOpts.folders` only
         FoldFaultRun   `runOK`: `foldInterfaceValue` / `runFast` / `foldAnyReflect` / `run` are
                        `FOK` at every fuel (induction on the fuel, one case per folder)

  C17 for the fold iterator.  The mirror has, deliberately, no registry state: `Fold.impl` is a
  function of (options, type, value) and op `fold-seq` (SF/Ops/Fold.lean, `opFoldSeq`) models
  a sequence of folds on one iterator as one fresh `Fold.impl` per value.  On the mirror
  "reused = fresh" therefore holds by definition (`rfl`), for any history, failed folds included;
  that the Go registry is transparent is established by the fold-seq correspondence, not here.
  (A term-level invariant "every registry entry equals the fresh compilation of its key" would
  in fact be false for recursive types: compiled inside `N = struct{V int; Next *N}` the entry
  of `*N` is `pointer 1 (forward N)`, a fresh compilation of `*N` gives
  `pointer 1 (structFold [.., field next (pointer 1 (forward N))] 2)` — equal in behaviour only.)
-/
import SF.Proofs.FoldFaultRun
import SF.Proofs.FoldFaultOpts
namespace SF.FoldProofs.Fault
open SF SF.Gotype SF.Gotype.Fold

/-- an outcome cut at a visitor failing at event index `k`: unchanged if no more than `k`
events were delivered, else the events up to and including event `k` and the injected error -/
def truncate (k : Nat) (out : Outcome) : Outcome :=
  if out.evs.length ≤ k then out else { evs := out.evs.take (k + 1), res := .err .injected }

theorem impl_eq' (o : FoldOpts) (T : GoType) (v : GoVal) :
    impl o T v =
      { evs := (foldInterfaceValue runFuel o .user
          (match T.under with | .iface => v | _ => .iface T v) { failAt := o.failAt, hint := o.order }).1.evs.reverse,
        res := (foldInterfaceValue runFuel o .user
          (match T.under with | .iface => v | _ => .iface T v) { failAt := o.failAt, hint := o.order }).2 } := rfl

/-- MAIN THEOREM: the fold on a visitor failing at event `k` is the fold on the healthy visitor,
truncated at the fault -/
theorem fold_fault_truncates (o : FoldOpts) (T : GoType) (v : GoVal) (k : Nat)
    (hk : o.failAt = some k) :
    impl o T v = truncate k (impl { o with failAt := none } T v) := by
  rw [impl_eq', impl_eq', fiv_opts o none runFuel, hk]
  generalize (match T.under with | .iface => v | _ => GoVal.iface T v) = i
  have hF := (runOK o runFuel).fiv .user i
  let s0 : St := { failAt := none, hint := o.order }
  have hm := hF.mono s0
  have hs := hF.sim k s0 rfl (Nat.zero_le k)
  show _ = truncate k { evs := (foldInterfaceValue runFuel o .user i s0).1.evs.reverse,
                        res := (foldInterfaceValue runFuel o .user i s0).2 }
  have harm : ({ failAt := some k, hint := o.order } : St) = arm k s0 := rfl
  rw [harm]
  rcases hA : foldInterfaceValue runFuel o .user i s0 with ⟨t, r⟩
  rcases hB : foldInterfaceValue runFuel o .user i (arm k s0) with ⟨t', r'⟩
  rw [hA] at hm hs
  rw [hB] at hs
  obtain ⟨_, m0, hev0, hn0⟩ := hm
  have hlen : t.evs.length = t.n := by
    rw [hev0, hn0]; simp [s0]
  rcases hs with ⟨hle, hb⟩ | ⟨hlt, hr, hn', more, hev, hnn⟩
  · cases hb
    have hle' : t.n ≤ k := hle
    have : t.evs.length ≤ k := by omega
    simp [truncate, arm, this]
  · have hr' : r' = .err .injected := hr
    subst hr'
    have hl' : t'.evs.length = k + 1 := by
      have : t.evs.length = more.length + t'.evs.length := by rw [hev]; simp
      have h1 : t.n = t'.n + more.length := hnn
      have h2 : t'.n = k + 1 := hn'
      omega
    have hgt : ¬ t.evs.length ≤ k := by
      have : k < t.n := hlt
      omega
    simp only [truncate, List.length_reverse, hgt, if_false]
    congr 1
    have h1 : t.evs = more ++ t'.evs := hev
    rw [h1, List.reverse_append]
    rw [List.take_left' (by simp [hl'])]


/-- C16 for the gotype fold, every type, value, option record and fault index `k`: with a visitor
that fails at its `k`-th event the fold EITHER never gets that far — it delivers at most `k` events
and its whole outcome (events and result, be it ok, a Go error, a panic) is the one on the healthy
visitor — OR it returns THE VISITOR'S error, having delivered exactly `k + 1` events (the failing
call is the last one: nothing is delivered after it; the error is neither swallowed nor replaced);
in both cases what was delivered is a prefix of what the healthy visitor receives. -/
theorem fold_propagates_visitor_error (o : FoldOpts) (T : GoType) (v : GoVal) (k : Nat)
    (hk : o.failAt = some k) :
    ((impl o T v).evs.length ≤ k ∧ impl o T v = impl { o with failAt := none } T v ∨
     (impl o T v).res = .err .injected ∧ (impl o T v).evs.length = k + 1 ∧
       k < (impl { o with failAt := none } T v).evs.length) ∧
    (impl o T v).evs <+: (impl { o with failAt := none } T v).evs := by
  rw [fold_fault_truncates o T v k hk]
  generalize impl { o with failAt := none } T v = h
  unfold truncate
  by_cases hle : h.evs.length ≤ k
  · rw [if_pos hle]
    exact ⟨Or.inl ⟨hle, rfl⟩, List.prefix_refl _⟩
  · rw [if_neg hle]
    refine ⟨Or.inr ⟨rfl, ?_, by omega⟩, List.take_prefix _ _⟩
    simp only [List.length_take]
    omega

/-- the error is never swallowed: a fold that returns `ok` on the failing visitor never called
it at index `k` -/
theorem fold_ok_means_fault_not_reached (o : FoldOpts) (T : GoType) (v : GoVal) (k : Nat)
    (hk : o.failAt = some k) (hok : (impl o T v).res ≠ .err .injected) :
    (impl o T v).evs.length ≤ k ∧ impl o T v = impl { o with failAt := none } T v := by
  rcases (fold_propagates_visitor_error o T v k hk).1 with h | h
  · exact h
  · exact absurd h.1 hok

/-- … and the fault is reached exactly when the healthy fold delivers more than `k` events -/
theorem fold_fault_iff (o : FoldOpts) (T : GoType) (v : GoVal) (k : Nat) (hk : o.failAt = some k) :
    (k < (impl { o with failAt := none } T v).evs.length →
      (impl o T v).res = .err .injected ∧
      (impl o T v).evs = (impl { o with failAt := none } T v).evs.take (k + 1)) ∧
    ((impl { o with failAt := none } T v).evs.length ≤ k →
      impl o T v = impl { o with failAt := none } T v) := by
  rw [fold_fault_truncates o T v k hk]
  generalize impl { o with failAt := none } T v = h
  unfold truncate
  constructor
  · intro hlt
    have : ¬ h.evs.length ≤ k := by omega
    rw [if_neg this]
    exact ⟨rfl, rfl⟩
  · intro hle
    rw [if_pos hle]

/- non-vacuity: `map[string][]*int32{"a": {nil, &5}, "b": nil}` delivers 10 events on a healthy
visitor; a visitor failing at event 3 gets events 0 … 3 and its error comes back; one failing at
event 10 is never called at that index -/
example :
    let T : GoType := .map .string (.slice (.ptr (.int .i32)))
    let v : GoVal := .map [(.str [97], .slice [.nilPtr, .ptr (.int 5)]), (.str [98], .nilSlice)]
    (impl {} T v).res = .ok ∧ (impl {} T v).evs.length = 10 ∧
    (impl { failAt := some 3 } T v).res = .err .injected ∧
    (impl { failAt := some 3 } T v).evs = (impl {} T v).evs.take 4 ∧
    (impl { failAt := some 10 } T v).res = .ok ∧
    (impl { failAt := some 10 } T v).evs = (impl {} T v).evs := by decide +kernel

/- … the interface fast paths: `[]interface{}{map[string]bool{"k": true}, nil}` folded as the
dynamic value of an interface (the typed map is ONE extended event) -/
example :
    let T : GoType := .iface
    let v : GoVal := .iface (.slice .iface) (.slice [.iface (.map .string .bool) (.map [(.str [107], .bool true)]), .nilIface])
    (impl {} T v).res = .ok ∧ (impl {} T v).evs.length = 4 ∧
    (impl { failAt := some 1 } T v).res = .err .injected ∧
    (impl { failAt := some 1 } T v).evs = (impl {} T v).evs.take 2 := by decide +kernel


/-- the same fact one level down, for EVERY compiled folder (also those no compilation
produces), every run-time visitor (the user's or any chain of ExpectObjVisitors), every state
of a healthy visitor that has seen at most `k` events: the run on the visitor failing at
event `k` is the healthy run, cut right after event `k` with the injected error (`Rel`) -/
theorem run_commutes_with_fault (o : FoldOpts) (fuel : Nat) (c : VisRef) (f : ReFold) (rv : RV)
    (k : Nat) (s : St) (hs : s.failAt = none) (hn : s.n ≤ k) :
    Rel k (run fuel o c f rv s) (run fuel o c f rv (arm k s)) :=
  ((runOK o fuel).run c f rv).sim k s hs hn

/- non-vacuity, through an ExpectObjVisitor (`inline` interface field holding a
`map[string]bool`; such fields are outside `goodT`): the folder `embedd inlineIface` delivers
key, value, key, value to the user's visitor — the object start / end are swallowed — and with
a fault at event 2 the injected error comes back through the ExpectObjVisitor, unreplaced -/
example :
    let rv : RV := ⟨.map .string .bool, .map [(.str [107], .bool true), (.str [108], .bool false)]⟩
    let F := run runFuel {} .user (.embedd .inlineIface) rv
    (F {}).2 = .ok ∧ (F {}).1.evs.length = 4 ∧
    (F (arm 2 {})).2 = .err .injected ∧ (F (arm 2 {})).1.evs = (F {}).1.evs.drop 1 := by
  decide +kernel

end SF.FoldProofs.Fault
