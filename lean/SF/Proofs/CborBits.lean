/-
  Bit-level facts about CBOR initial bytes, proved by exhaustive evaluation in the kernel.
-/
import SF.Cbor.Parse
import SF.Cbor.Cst
namespace SF.Cbor
open SF

/-- initial byte for major type `m` (0..7) and additional information `a` (0..31) -/
def ib (m a : Nat) : UInt8 := UInt8.ofNat (m * 32 + a)

theorem ib_major : ∀ (m : Fin 8) (a : Fin 32), (ib m.val a.val &&& majorMask) = UInt8.ofNat (m.val * 32) := by
  decide

theorem ib_minor : ∀ (m : Fin 8) (a : Fin 32), (ib m.val a.val &&& minorMask) = UInt8.ofNat a.val := by
  decide

theorem ib_major' {m a : Nat} (hm : m < 8) (ha : a < 32) : (ib m a &&& majorMask) = UInt8.ofNat (m * 32) :=
  ib_major ⟨m, hm⟩ ⟨a, ha⟩

theorem ib_minor' {m a : Nat} (hm : m < 8) (ha : a < 32) : (ib m a &&& minorMask) = UInt8.ofNat a :=
  ib_minor ⟨m, hm⟩ ⟨a, ha⟩

theorem ib_lt_len8b : ∀ (a : Fin 32), (ib 0 a.val < len8b) = (a.val < 24) := by decide

theorem ofNat_lt_len8b {a : Nat} (ha : a < 32) : (UInt8.ofNat a < len8b) ↔ a < 24 := by
  have : (UInt8.ofNat a).toNat = a := by simp [UInt8.toNat_ofNat']; omega
  rw [UInt8.lt_iff_toNat_lt, this]; rfl

theorem ofNat_gt_len64b {a : Nat} (ha : a < 32) : (UInt8.ofNat a > len64b) ↔ a > 27 := by
  have : (UInt8.ofNat a).toNat = a := by simp [UInt8.toNat_ofNat']; omega
  show len64b < UInt8.ofNat a ↔ _
  rw [UInt8.lt_iff_toNat_lt, this]; rfl

theorem ofNat_toNat_small {a : Nat} (ha : a < 256) : (UInt8.ofNat a).toNat = a := by
  simp [UInt8.toNat_ofNat']; omega

end SF.Cbor
