/-
  Generic theorems about event trees (SF/Tree.lean):
    build (events t) = value t      and      wf t → the events obey the Visitor contract.
-/
import SF.Tree
namespace SF
open ETree

/-! ## value of the events of a tree -/

def BState.accepts (st : BState) : Bool :=
  match st.stack with
  | .obj _ none :: _ => false
  | _ => true

/-- the state after a value was put (meaningful when `accepts`) -/
def BState.putD (st : BState) (v : Val) : BState :=
  match st.stack with
  | [] => { st with done := v :: st.done }
  | .arr acc :: rest => { st with stack := .arr (v :: acc) :: rest }
  | .obj acc (some k) :: rest => { st with stack := .obj ((k, v) :: acc) none :: rest }
  | .obj _ none :: _ => st

theorem BState.put_eq {st : BState} (h : st.accepts = true) (v : Val) : st.put v = some (st.putD v) := by
  unfold BState.accepts at h
  unfold BState.put BState.putD
  split <;> simp_all

theorem BState.run_append (st : BState) (a b : List Ev) :
    st.run (a ++ b) = (st.run a).bind (fun st' => st'.run b) := by
  induction a generalizing st with
  | nil => simp [BState.run]
  | cons e a ih =>
    simp only [List.cons_append, BState.run]
    cases st.step e with
    | none => simp
    | some st' => simp [ih]

mutual
theorem run_tree (t : ETree) (st : BState) (more : List Ev) (h : st.accepts = true) :
    st.run (t.events ++ more) = (st.putD t.value).run more := by
  match t with
  | .null => simp [events, BState.run, BState.step, BState.put_eq h, value]
  | .bool b => simp [events, BState.run, BState.step, BState.put_eq h, value]
  | .str s => simp [events, BState.run, BState.step, BState.put_eq h, value]
  | .num k v => simp [events, BState.run, BState.step, BState.put_eq h, value]
  | .f32 b => simp [events, BState.run, BState.step, BState.put_eq h, value]
  | .f64 b => simp [events, BState.run, BState.step, BState.put_eq h, value]
  | .arr len bt xs =>
    have hstart : st.step (.arrStart len bt) = some { st with stack := .arr [] :: st.stack } := by
      unfold BState.accepts at h
      simp only [BState.step]
      split <;> simp_all
    simp only [events, List.cons_append, List.append_assoc, BState.run, hstart]
    rw [run_list xs _ [] st.stack _ rfl]
    simp only [List.append_nil, List.singleton_append, BState.run, BState.step]
    have : (({ st with stack := st.stack } : BState)) = st := rfl
    simp only [List.reverse_reverse, BState.put_eq h, value]
    cases st; rfl
  | .obj len bt ms =>
    have hstart : st.step (.objStart len bt) = some { st with stack := .obj [] none :: st.stack } := by
      unfold BState.accepts at h
      simp only [BState.step]
      split <;> simp_all
    simp only [events, List.cons_append, List.append_assoc, BState.run, hstart]
    rw [run_mems ms _ [] st.stack _ rfl]
    simp only [List.append_nil, List.singleton_append, BState.run, BState.step]
    simp only [List.reverse_reverse, BState.put_eq h, value]
    cases st; rfl

theorem run_list (xs : List ETree) (st : BState) (acc : List Val) (S : List BFrame) (more : List Ev)
    (hs : st.stack = .arr acc :: S) :
    st.run (eventsList xs ++ more) =
      ({ st with stack := .arr ((valueList xs).reverse ++ acc) :: S } : BState).run more := by
  match xs with
  | [] =>
    simp only [eventsList, valueList, List.nil_append, List.reverse_nil]
    cases st; simp_all
  | x :: xs' =>
    simp only [eventsList, valueList, List.append_assoc]
    rw [run_tree x st _ (by simp [BState.accepts, hs])]
    rw [run_list xs' _ (x.value :: acc) S more (by simp [BState.putD, hs])]
    simp [BState.putD, hs]

theorem run_mems (ms : List (Bytes × ETree)) (st : BState) (acc : List (Bytes × Val)) (S : List BFrame)
    (more : List Ev) (hs : st.stack = .obj acc none :: S) :
    st.run (eventsMems ms ++ more) =
      ({ st with stack := .obj ((valueMems ms).reverse ++ acc) none :: S } : BState).run more := by
  match ms with
  | [] =>
    simp only [eventsMems, valueMems, List.nil_append, List.reverse_nil]
    cases st; simp_all
  | (k, v) :: ms' =>
    simp only [eventsMems, valueMems, List.cons_append, List.append_assoc, BState.run]
    have hkey : st.step (.key k) = some { st with stack := .obj acc (some k) :: S } := by
      simp [BState.step, hs]
    simp only [hkey]
    rw [run_tree v _ _ (by simp [BState.accepts])]
    rw [run_mems ms' _ ((k, v.value) :: acc) S more (by simp [BState.putD])]
    simp [BState.putD]
end

/-- the events of a tree describe exactly its value -/
theorem build_events (t : ETree) : build t.events = some t.value := by
  have := run_tree t {} [] rfl
  simp only [List.append_nil] at this
  simp [build, buildAll, this, BState.putD, BState.run]

/-- a stream of trees describes the list of their values -/
theorem buildAll_events (ts : List ETree) : buildAll (eventsList ts) = some (valueList ts) := by
  have key : ∀ (ts : List ETree) (st : BState), st.stack = [] →
      st.run (eventsList ts) = some { st with done := (valueList ts).reverse ++ st.done } := by
    intro ts
    induction ts with
    | nil => intro st _; simp [eventsList, valueList, BState.run]
    | cons t ts ih =>
      intro st hs
      simp only [eventsList, valueList]
      rw [run_tree t st _ (by simp [BState.accepts, hs])]
      rw [ih _ (by simp [BState.putD, hs])]
      simp [BState.putD, hs]
  simp [buildAll, key ts {} rfl]

end SF

namespace SF
open ETree

/-! ## the contract automaton on the events of a tree -/

theorem WState.run_append (st : WState) (a b : List Ev) :
    st.run (a ++ b) = (st.run a).bind (fun st' => st'.run b) := by
  induction a generalizing st with
  | nil => simp [WState.run]
  | cons e a ih =>
    simp only [List.cons_append, WState.run]
    cases st.step e with
    | none => simp
    | some st' => simp [ih]

def decRem : Option Nat → Nat → Option Nat
  | none, _ => none
  | some r, n => some (r - n)

theorem lenOk_of (len : Int) (n : Nat) (h : lenOkFor len n = true) :
    lenOk len = some (if len == -1 then none else some n) := by
  simp only [lenOkFor, Bool.or_eq_true, beq_iff_eq] at h
  rcases h with h | h
  · subst h; simp [lenOk]
  · subst h
    have : ¬ ((n : Int) = -1) := by omega
    simp [lenOk, this]

theorem scalar_step (st st' : WState) (e : Ev) (hs : st.onValueStart = some st')
    (hm : e.matchesBT st.topElem = true)
    (hsc : ∀ k, e ≠ .key k) (h1 : ∀ l b, e ≠ .arrStart l b) (h2 : ∀ l b, e ≠ .objStart l b)
    (h3 : e ≠ .arrEnd) (h4 : e ≠ .objEnd) :
    st.step e = some st'.countDoc := by
  cases e <;> simp_all [WState.step]

mutual
theorem wf_tree (t : ETree) (hw : t.wf = true) (st st' : WState) (more : List Ev)
    (hs : st.onValueStart = some st') (hm : t.matchesBT st.topElem = true) :
    st.run (t.events ++ more) = st'.countDoc.run more := by
  match t with
  | .null =>
    simp only [events, List.cons_append, List.nil_append, WState.run]
    rw [scalar_step st st' .null hs hm (by simp) (by simp) (by simp) (by simp) (by simp)]
  | .bool b =>
    simp only [events, List.cons_append, List.nil_append, WState.run]
    rw [scalar_step st st' (.bool b) hs hm (by simp) (by simp) (by simp) (by simp) (by simp)]
  | .str s =>
    simp only [events, List.cons_append, List.nil_append, WState.run]
    rw [scalar_step st st' (.str s) hs hm (by simp) (by simp) (by simp) (by simp) (by simp)]
  | .num k v =>
    simp only [events, List.cons_append, List.nil_append, WState.run]
    rw [scalar_step st st' (.num k v) hs hm (by simp) (by simp) (by simp) (by simp) (by simp)]
  | .f32 b =>
    simp only [events, List.cons_append, List.nil_append, WState.run]
    rw [scalar_step st st' (.f32 b) hs hm (by simp) (by simp) (by simp) (by simp) (by simp)]
  | .f64 b =>
    simp only [events, List.cons_append, List.nil_append, WState.run]
    rw [scalar_step st st' (.f64 b) hs hm (by simp) (by simp) (by simp) (by simp) (by simp)]
  | .arr len bt xs =>
    simp only [wf, Bool.and_eq_true] at hw
    have hany : st.topElem = BT.any := by simpa [matchesBT] using hm
    have hstart : st.step (.arrStart len bt) =
        some { st' with stack := { isObj := false, remaining := (if len == -1 then none else some xs.length),
                                   elem := bt, expectKey := false } :: st'.stack } := by
      simp [WState.step, lenOk_of len xs.length hw.1, hany, hs]
    simp only [events, List.cons_append, List.append_assoc, WState.run, hstart]
    rw [wf_list bt xs hw.2 st'.stack st'.docs _ 0 _ (by split <;> simp)]
    simp only [List.singleton_append, WState.run, WState.step]
    cases st' with
    | mk stk dcs =>
      by_cases hl : len = -1
      · simp [hl, decRem]
      · simp [hl, decRem]
  | .obj len bt ms =>
    simp only [wf, Bool.and_eq_true] at hw
    have hany : st.topElem = BT.any := by simpa [matchesBT] using hm
    have hstart : st.step (.objStart len bt) =
        some { st' with stack := { isObj := true, remaining := (if len == -1 then none else some ms.length),
                                   elem := bt, expectKey := true } :: st'.stack } := by
      simp [WState.step, lenOk_of len ms.length hw.1, hany, hs]
    simp only [events, List.cons_append, List.append_assoc, WState.run, hstart]
    rw [wf_mems bt ms hw.2 st'.stack st'.docs _ 0 _ (by split <;> simp)]
    simp only [List.singleton_append, WState.run, WState.step]
    cases st' with
    | mk stk dcs =>
      by_cases hl : len = -1
      · simp [hl, decRem]
      · simp [hl, decRem]

theorem wf_list (bt : Nat) (xs : List ETree) (hw : wfList bt xs = true) (S : List WFrame) (docs : Nat)
    (rem : Option Nat) (j : Nat) (more : List Ev) (hr : rem = none ∨ rem = some (xs.length + j)) :
    ({ stack := { isObj := false, remaining := rem, elem := bt, expectKey := false } :: S, docs := docs } : WState).run
        (eventsList xs ++ more) =
      ({ stack := { isObj := false, remaining := decRem rem xs.length, elem := bt, expectKey := false } :: S,
         docs := docs } : WState).run more := by
  match xs with
  | [] =>
    simp only [eventsList, List.nil_append, List.length_nil]
    rcases hr with rfl | rfl <;> simp [decRem]
  | x :: xs' =>
    simp only [wfList, Bool.and_eq_true] at hw
    simp only [eventsList, List.append_assoc, List.length_cons]
    rcases hr with rfl | rfl
    · rw [wf_tree x hw.1.2 _ ({ stack := { isObj := false, remaining := none, elem := bt, expectKey := false } :: S, docs := docs }) _
        (by simp [WState.onValueStart]) (by simpa [WState.topElem] using hw.1.1)]
      simp only [WState.countDoc, List.isEmpty_cons, Bool.false_eq_true, if_false]
      rw [wf_list bt xs' hw.2 S docs none 0 more (Or.inl rfl)]
      simp [decRem]
    · rw [wf_tree x hw.1.2 _ ({ stack := { isObj := false, remaining := some (xs'.length + j), elem := bt, expectKey := false } :: S, docs := docs }) _
        (by simp [WState.onValueStart, show xs'.length + 1 + j = (xs'.length + j) + 1 by omega]) (by simpa [WState.topElem] using hw.1.1)]
      simp only [WState.countDoc, List.isEmpty_cons, Bool.false_eq_true, if_false]
      rw [wf_list bt xs' hw.2 S docs (some (xs'.length + j)) j more (Or.inr rfl)]
      simp [decRem] <;> omega

theorem wf_mems (bt : Nat) (ms : List (Bytes × ETree)) (hw : wfMems bt ms = true) (S : List WFrame)
    (docs : Nat) (rem : Option Nat) (j : Nat) (more : List Ev) (hr : rem = none ∨ rem = some (ms.length + j)) :
    ({ stack := { isObj := true, remaining := rem, elem := bt, expectKey := true } :: S, docs := docs } : WState).run
        (eventsMems ms ++ more) =
      ({ stack := { isObj := true, remaining := decRem rem ms.length, elem := bt, expectKey := true } :: S,
         docs := docs } : WState).run more := by
  match ms with
  | [] =>
    simp only [eventsMems, List.nil_append, List.length_nil]
    rcases hr with rfl | rfl <;> simp [decRem]
  | (k, v) :: ms' =>
    simp only [wfMems, Bool.and_eq_true] at hw
    simp only [eventsMems, List.cons_append, List.append_assoc, List.length_cons, WState.run]
    have hkey : ∀ rem, ({ stack := { isObj := true, remaining := rem, elem := bt, expectKey := true } :: S, docs := docs } : WState).step (.key k) =
        some { stack := { isObj := true, remaining := rem, elem := bt, expectKey := false } :: S, docs := docs } := by
      intro rem; simp [WState.step]
    simp only [hkey]
    rcases hr with rfl | rfl
    · rw [wf_tree v hw.1.2 _ ({ stack := { isObj := true, remaining := none, elem := bt, expectKey := true } :: S, docs := docs }) _
        (by simp [WState.onValueStart]) (by simpa [WState.topElem] using hw.1.1)]
      simp only [WState.countDoc, List.isEmpty_cons, Bool.false_eq_true, if_false]
      rw [wf_mems bt ms' hw.2 S docs none 0 more (Or.inl rfl)]
      simp [decRem]
    · rw [wf_tree v hw.1.2 _ ({ stack := { isObj := true, remaining := some (ms'.length + j), elem := bt, expectKey := true } :: S, docs := docs }) _
        (by simp [WState.onValueStart, show ms'.length + 1 + j = (ms'.length + j) + 1 by omega]) (by simpa [WState.topElem] using hw.1.1)]
      simp only [WState.countDoc, List.isEmpty_cons, Bool.false_eq_true, if_false]
      rw [wf_mems bt ms' hw.2 S docs (some (ms'.length + j)) j more (Or.inr rfl)]
      simp [decRem] <;> omega
end

/-- the events of a contract-conforming tree are one well-formed document -/
theorem wf1_events (t : ETree) (hw : t.wf = true) : WF1 t.events = true := by
  have := wf_tree t hw {} {} [] rfl (by cases t <;> simp [matchesBT, WState.topElem, Ev.matchesBT, BT.any])
  simp only [List.append_nil] at this
  simp [WF1, this, WState.countDoc, WState.run]

/-- a stream of contract-conforming trees is a well-formed stream -/
theorem wf_events_list (ts : List ETree) (hw : ∀ t ∈ ts, t.wf = true) : WF (eventsList ts) = true := by
  have key : ∀ (ts : List ETree), (∀ t ∈ ts, t.wf = true) → ∀ docs : Nat,
      ({ stack := [], docs := docs } : WState).run (eventsList ts) = some { stack := [], docs := docs + ts.length } := by
    intro ts
    induction ts with
    | nil => intro _ docs; simp [eventsList, WState.run]
    | cons t ts ih =>
      intro hw docs
      simp only [eventsList]
      have h1 := wf_tree t (hw t (by simp)) { stack := [], docs := docs } { stack := [], docs := docs } (eventsList ts) rfl
        (by cases t <;> simp [matchesBT, WState.topElem, Ev.matchesBT, BT.any])
      rw [h1]
      simp only [WState.countDoc, List.isEmpty_nil, if_true]
      rw [ih (fun t ht => hw t (by simp [ht])) (docs + 1)]
      simp; omega
  simp [WF, key ts hw 0]

end SF
