/-
  C16 (visitor errors) for the CBOR PULL DECODER mirror (SF/Cbor/Dec.lean): helper lemmas.

  The decoder embeds the parser state `d.p`; its `failAt` field is the fault index of the
  visitor and `d.p.evs` the log of ALL events delivered so far (across calls of `Next`).
  `Next` touches `d.p` only through `feedUntil`; the end-of-input check (`eof`) delivers
  nothing.  So the parser-level dichotomy (`GoodOut`) lifts to every call of `Next`, for
  EVERY decoder state, buffer content, read script and loop fuel, and from there to every
  sequence of calls.
-/
import SF.Proofs.CborFault
import SF.Proofs.CborFailAt
import SF.Proofs.CborNoPanic
import SF.Proofs.CborDecReaderTop
set_option linter.unusedSimpArgs false
set_option linter.unusedVariables false
namespace SF.Cbor.DecFault
open SF SF.Cbor SF.Cbor.Parse SF.Cbor.Dec SF.Cbor.DecR

/-- `feedUntil` under a possibly failing visitor (any fuel, any state, any bytes) -/
theorem feedUntil_good (f : Nat) (p : P) (b : Bytes) (h : NoFault p) (herr : p.err ≠ some .visitor) :
    GoodOut (feedUntil f p b).p (feedUntil f p b).err := by
  induction f generalizing p b with
  | zero => exact good_of_noFault h (by simp [feedUntil])
  | succ f ih =>
    simp only [feedUntil]
    have h1 := execStep_good p b h herr
    have h2 := SF.Props.C03.execStep_errf p b
    split
    · exact h1
    · split
      · exact h1
      · rename_i hne _
        have hnone : (execStep p b).err = none := by
          cases he : (execStep p b).err with
          | none => rfl
          | some e => simp [he] at hne
        rcases h1 with ⟨_, hq⟩ | ⟨he, _⟩
        · exact ih _ _ hq (by rw [h2]; exact herr)
        · rw [hnone] at he; simp at he

/-- outcome of one call of `Next` that started without a fault: still no fault and the result is
not the visitor's error, or THE VISITOR'S error with delivery stopped at the failing event -/
def GoodNext (q : P) (r : NextRes) : Prop :=
  (r ≠ .err .visitor ∧ NoFault q) ∨ (r = .err .visitor ∧ Stopped q)

theorem eof_ne_visitor (d : Dec) : eof d ≠ .err .visitor := by
  simp only [eof]; split <;> simp

/-- the parser fields `Next` never changes, and the outcome -/
structure NextInv (d d' : Dec) (r : NextRes) : Prop where
  good : GoodNext d'.p r
  err : d'.p.err = d.p.err
  failAt : d'.p.failAt = d.p.failAt

/-- the inner function of `Next` (run the parser on the buffer) keeps the dichotomy, given that
the recursive call does -/
theorem feedIt_good (fuel : Nat)
    (ih : ∀ (d : Dec), NoFault d.p → d.p.err ≠ some .visitor → NextInv d (next fuel d).1 (next fuel d).2)
    (d : Dec) (h : NoFault d.p) (herr : d.p.err ≠ some .visitor) :
    NextInv d (feedIt fuel d).1 (feedIt fuel d).2 := by
  have hg := feedUntil_good (fuelFor d.buffer) d.p d.buffer h herr
  have he := SF.Props.C03.feedUntil_no_panic_errf (fuelFor d.buffer) d.p d.buffer
  have hf := SF.Props.C16F.feedUntil_fAt (fuelFor d.buffer) d.p d.buffer
  unfold feedIt
  simp only []
  cases hre : (feedUntil (fuelFor d.buffer) d.p d.buffer).err with
  | some e =>
    simp only
    rw [hre] at hg
    refine ⟨?_, he, hf⟩
    rcases hg with ⟨hne, hq⟩ | ⟨hv, hq⟩
    · exact Or.inl ⟨by intro hc; injection hc with hc; exact hne (by rw [hc]), hq⟩
    · exact Or.inr ⟨by injection hv with hv; rw [hv], hq⟩
  | none =>
    simp only
    rw [hre] at hg
    rcases hg with ⟨_, hq⟩ | ⟨hv, _⟩
    · split
      · exact ⟨Or.inl ⟨by simp, hq⟩, he, hf⟩
      · have := ih { d with p := (feedUntil (fuelFor d.buffer) d.p d.buffer).p,
                            buffer := (feedUntil (fuelFor d.buffer) d.p d.buffer).rest } hq
          (by simp only; rw [he]; exact herr)
        exact ⟨this.good, by rw [this.err]; exact he, by rw [this.failAt]; exact hf⟩
    · simp at hv

/-- ONE CALL of `Next`, EVERY decoder state and fuel: the dichotomy -/
theorem next_good (fuel : Nat) : ∀ (d : Dec), NoFault d.p → d.p.err ≠ some .visitor →
    NextInv d (next fuel d).1 (next fuel d).2 := by
  induction fuel with
  | zero =>
    intro d h herr
    exact ⟨Or.inl ⟨by simp [next], h⟩, rfl, rfl⟩
  | succ fuel ih =>
    intro d h herr
    rw [next_succ]
    split
    · split
      · exact ⟨Or.inl ⟨eof_ne_visitor d, h⟩, rfl, rfl⟩
      · split
        · exact ⟨Or.inl ⟨eof_ne_visitor d, h⟩, rfl, rfl⟩
        · rename_i c rest _
          split
          · have := ih { d with reads := rest, buffer := c } h herr
            exact ⟨this.good, this.err, this.failAt⟩
          · have := feedIt_good fuel ih { d with reads := rest, buffer := c } h herr
            exact ⟨this.good, this.err, this.failAt⟩
    · exact feedIt_good fuel ih d h herr

/-! ## sequences of calls -/

/-- the trace of a sequence of calls under a visitor failing at its k-th event: either the
fault was never reached — no call returned the visitor's error and at most k events were
delivered in total —, or the LAST call returned THE VISITOR'S error with exactly k+1 events
delivered in total, every earlier call having returned `.ok` with at most k events -/
def GoodTrace (k : Nat) (tr : List (NextRes × List Ev)) : Prop :=
  (∀ x ∈ tr, x.1 ≠ .err .visitor ∧ x.2.length ≤ k) ∨
  (∃ pre evs, tr = pre ++ [(NextRes.err .visitor, evs)] ∧ evs.length = k + 1 ∧
    ∀ x ∈ pre, x.1 = .ok ∧ x.2.length ≤ k)

theorem nextsF_good (f : Dec → Nat) (k : Nat) (n : Nat) : ∀ (d : Dec), NoFault d.p →
    d.p.err ≠ some .visitor → d.p.failAt = some k → GoodTrace k (nextsF f n d) := by
  induction n with
  | zero => intro d _ _ _; exact Or.inl (by simp [nextsF])
  | succ n ih =>
    intro d h herr hk
    have hn := next_good (f d) d h herr
    rw [nextsF_succ]
    have hk' : (next (f d) d).1.p.failAt = some k := by rw [hn.failAt]; exact hk
    rcases hn.good with ⟨hne, hq⟩ | ⟨hv, k', hk2, hl⟩
    · have hlen : (Parse.events (next (f d) d).1.p).length ≤ k := by
        simp only [Parse.events, List.length_reverse]; exact hq k hk'
      by_cases hok : (next (f d) d).2 = .ok
      · simp only [hok, beq_self_eq_true, if_true]
        rcases ih (next (f d) d).1 hq (by rw [hn.err]; exact herr) hk' with hA | ⟨pre, evs, e1, e2, e3⟩
        · left
          intro x hx
          rcases List.mem_cons.mp hx with hx | hx
          · rw [hx]; exact ⟨by simp, hlen⟩
          · exact hA x hx
        · right
          refine ⟨(NextRes.ok, Parse.events (next (f d) d).1.p) :: pre, evs, by rw [e1]; rfl, e2, ?_⟩
          intro x hx
          rcases List.mem_cons.mp hx with hx | hx
          · rw [hx]; exact ⟨rfl, hlen⟩
          · exact e3 x hx
      · have : ((next (f d) d).2 == NextRes.ok) = false := by simpa using hok
        simp only [this, Bool.false_eq_true, if_false]
        left
        intro x hx
        simp only [List.mem_singleton] at hx
        rw [hx]; exact ⟨hne, hlen⟩
    · right
      rw [hk'] at hk2; cases hk2
      refine ⟨[], Parse.events (next (f d) d).1.p, ?_, by simp only [Parse.events, List.length_reverse]; exact hl, by simp⟩
      rw [hv]; simp

/-- in any trace every call but the last returned `.ok` -/
theorem nextsF_init_ok (f : Dec → Nat) (n : Nat) : ∀ (d : Dec) (pre : List (NextRes × List Ev)) (x : NextRes × List Ev),
    nextsF f n d = pre ++ [x] → ∀ y ∈ pre, y.1 = .ok := by
  induction n with
  | zero => intro d pre x h; simp [nextsF] at h
  | succ n ih =>
    intro d pre x h y hy
    rw [nextsF_succ] at h
    cases pre with
    | nil => simp at hy
    | cons a pre =>
      simp only [List.cons_append, List.cons.injEq] at h
      obtain ⟨ha, ht⟩ := h
      by_cases hok : (next (f d) d).2 = .ok
      · simp only [hok, beq_self_eq_true, if_true] at ht
        rcases List.mem_cons.mp hy with hy | hy
        · rw [hy, ← ha]; exact hok
        · exact ih _ pre x ht y hy
      · have : ((next (f d) d).2 == NextRes.ok) = false := by simpa using hok
        simp only [this, Bool.false_eq_true, if_false] at ht
        have := congrArg List.length ht
        simp at this

/-- entry by entry: a call returns the visitor's error IFF k+1 events have been delivered in
total, and never more than k+1 are -/
theorem GoodTrace.entry {k : Nat} {tr : List (NextRes × List Ev)} (h : GoodTrace k tr) :
    ∀ x ∈ tr, (x.1 = .err .visitor ↔ x.2.length = k + 1) ∧ x.2.length ≤ k + 1 := by
  intro x hx
  rcases h with hA | ⟨pre, evs, e1, e2, e3⟩
  · obtain ⟨h1, h2⟩ := hA x hx
    exact ⟨⟨fun hc => absurd hc h1, fun hc => by omega⟩, by omega⟩
  · rw [e1] at hx
    rcases List.mem_append.mp hx with hx | hx
    · obtain ⟨h1, h2⟩ := e3 x hx
      exact ⟨⟨fun hc => (by rw [h1] at hc; cases hc), fun hc => by omega⟩, by omega⟩
    · simp only [List.mem_singleton] at hx
      rw [hx]
      exact ⟨⟨fun _ => e2, fun _ => rfl⟩, by simp only; omega⟩

/-- a visitor without a fault index never fails: no call returns the visitor's error -/
theorem nextsF_no_visitor (f : Dec → Nat) (n : Nat) : ∀ (d : Dec), d.p.failAt = none → d.p.err ≠ some .visitor →
    ∀ x ∈ nextsF f n d, x.1 ≠ .err .visitor := by
  induction n with
  | zero => intro d _ _ x hx; simp [nextsF] at hx
  | succ n ih =>
    intro d hfa herr x hx
    have hn := next_good (f d) d (fun k hk => by rw [hfa] at hk; cases hk) herr
    have hfa' : (next (f d) d).1.p.failAt = none := by rw [hn.failAt]; exact hfa
    have hne : (next (f d) d).2 ≠ .err .visitor := by
      rcases hn.good with ⟨hne, _⟩ | ⟨_, k, hk, _⟩
      · exact hne
      · rw [hfa'] at hk; cases hk
    rw [nextsF_succ] at hx
    rcases List.mem_cons.mp hx with hx | hx
    · rw [hx]; exact hne
    · by_cases hok : (next (f d) d).2 = .ok
      · simp only [hok, beq_self_eq_true, if_true] at hx
        exact ih _ hfa' (by rw [hn.err]; exact herr) x hx
      · have : ((next (f d) d).2 == NextRes.ok) = false := by simpa using hok
        simp [this] at hx

end SF.Cbor.DecFault
