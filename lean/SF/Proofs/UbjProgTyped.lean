/-
  C03 no-hang (UBJSON): typed-container header, stepArrayTyped.
-/
import SF.Proofs.UbjProgArr
namespace SF.Ubjson.Parse
open SF SF.Ubjson
open StateType StateStep

/-! ### typed containers -/

theorem stepType_step (p : P) (b : Bytes) (ty : StateType) (hty : ty = stArrayTyped ∨ ty = stObjectTyped)
    (hg : G p) (hb : b ≠ []) (hcur : p.state.current = ⟨ty, stStart⟩) :
    Step p b (stepType p b ⟨ty, stWithType0⟩) := by
  unfold stepType
  cases b with
  | nil => exact absurd rfl hb
  | cons m bs =>
    simp only []
    split
    · exact Step.error .unknownMarker rfl (by decide)
    · rename_i state hst
      split
      · exact Step.error .unknownMarker rfl (by decide)
      · rename_i hn
        have hn' : (m == noopMarker) = false := by simpa using hn
        exact Step.good (hg.typeRead ty hty hcur state (isStart_of_marker' hst hn') _)
          (.mk_consume (by simp [setCurrent]; omega) (by simp [setCurrent]))

theorem pastHdr_typed {ty : StateType} (hty : ty = stArrayTyped ∨ ty = stObjectTyped) (s : StateStep) :
    pastHdr ⟨ty, s⟩ = (s != stStart) := by
  rcases hty with rfl | rfl <;> rfl

theorem stepTypeLenHeader_step (p : P) (b : Bytes) (hg : G p) (hb : b ≠ [])
    (ht : p.state.current.type = stArrayTyped ∨ p.state.current.type = stObjectTyped)
    (hs : p.state.current.step = stStart ∨ p.state.current.step = stWithType0 ∨ p.state.current.step = stWithType1) :
    Step p b (stepTypeLenHeader p b stWithLen) := by
  have hcur : ∀ s, p.state.current.step = s → p.state.current = ⟨p.state.current.type, s⟩ := by
    intro s h; cases hc : p.state.current with | mk t st => simp [hc] at h ⊢; exact h
  have hnn : ∀ s, ((p.state.current.withStep s).type == stNext) = (p.state.current.type == stNext) := fun _ => rfl
  unfold stepTypeLenHeader
  simp only []
  split
  · rename_i h
    have := stepType_step p b p.state.current.type ht hg hb (hcur _ h)
    simpa [St.withStep] using this
  · rename_i h
    cases b with
    | nil => exact absurd rfl hb
    | cons x bs =>
      simp only []
      split
      · exact Step.error .missingCount rfl (by decide)
      · refine Step.good (hg.setCurrent _ ?_ (hnn _) ?_)
          (.mk_consume (by simp [setCurrent]; omega) (by simp [setCurrent]))
        · rcases ht with h' | h' <;> simp [St.withStep, validSt, h']
        · rw [hcur _ h]; simp only [St.withStep]; rw [pastHdr_typed ht, pastHdr_typed ht]; rfl
  · rename_i h
    refine stepLen_step p b _ hg ⟨?_, hnn _, ?_⟩ hb
    · rcases ht with h' | h' <;> simp [St.withStep, validSt, h']
    · rw [hcur _ h]; simp only [St.withStep]; rw [pastHdr_typed ht, pastHdr_typed ht]; rfl
  · rename_i h1 h2 h3
    rcases hs with h | h | h
    · exact (h1 h).elim
    · exact (h2 h).elim
    · exact (h3 h).elim

/-- a typed container past its header has a real element start state on top of `valueState` -/
theorem G.elemStart {p : P} (hg : G p) (hp : pastHdr p.state.current = true) :
    isStart p.valueState.current = true := by
  have hc := hg.cnt
  simp only [sl, nT_cons, hp, if_true] at hc
  rcases hg.vcur with h | h
  · exact h
  · simp [vdepth, h.1] at hc

theorem atContent_step (p0 : P) (l : Int) (b : Bytes) (p : P) (hg : G p)
    (ht : p.state.current = ⟨stArrayTyped, stCont⟩) (hbuf : p.buffer = p0.buffer)
    (hev : p0.evs.length + 1 ≤ p.evs.length ∨ (p0.evs.length ≤ p.evs.length ∧ tS p0.state.current = 1)) :
    Step p0 b (atContent l b p) := by
  have hp : pastHdr p.state.current = true := by rw [ht]; rfl
  unfold atContent
  split
  · simp only [visit_eq]
    rcases verr_cases p with h | h <;> rw [h] <;> simp only []
    · refine Step.good ((hg.addEv _).popTyped (by simp [addEv, ht]) (by simpa [addEv] using hp))
        (.mk_deliver (by simp [addEv, popLenState, popState, popLen, popValueState, hbuf])
          (by simp [addEv, popLenState, popState, popLen, popValueState]; omega))
    · exact Step.error .visitor rfl (by decide)
  · have hst := hg.elemStart hp
    have hg' : G (pushState (decLen p) (decLen p).valueState.current) := hg.decLen.pushState _ hst
    have hcur : (pushState (decLen p) (decLen p).valueState.current).state.current = p.valueState.current := by
      simp [pushState, decLen, StateStack.push, ht]
    refine Step.good hg' ?_
    rcases hev with hev | hev
    · exact .mk_deliver (by simp [pushState, decLen, hbuf]) (by simpa [pushState, decLen] using hev)
    · exact .mk_push hev.2 (by rw [hcur]; exact (isStart_facts hst).2.2.2) (by simp [pushState, decLen, hbuf])
        (by simpa [pushState, decLen] using hev.1)

theorem stepArrayTyped_step (p : P) (b : Bytes) (hg : G p)
    (hgd : b ≠ [] ∨ pending p = true) (ht : p.state.current.type = stArrayTyped) :
    Step p b (stepArrayTyped p b) := by
  have hv := hg.val p.state.current (by simp [sl])
  simp only [validSt, ht, Bool.or_eq_true, beq_iff_eq] at hv
  have hcur : ∀ s, p.state.current.step = s → p.state.current = ⟨stArrayTyped, s⟩ := by
    intro s h; cases hc : p.state.current with | mk t st => simp [hc] at h ht ⊢; exact ⟨ht, h⟩
  rw [stepArrayTyped_eq]
  split
  · rename_i hs
    simp only [Bool.or_eq_true, beq_iff_eq] at hs
    have hb : b ≠ [] := by
      rcases hgd with h | h
      · exact h
      · rcases hs with (hs | hs) | hs <;> simp [pending, ht, hs] at h
    exact (stepTypeLenHeader_step p b hg hb (Or.inl ht) (by rcases hs with (hs | hs) | hs <;> simp [hs])).setDone false
  · rename_i hs
    simp only [Bool.or_eq_true, beq_iff_eq, not_or] at hs
    split
    · rename_i hs2
      have hs2' : p.state.current.step = stWithLen := by simpa using hs2
      have hgc : G (setStep p stCont) :=
        hg.setCurrent _ (by simp [validSt, ht]) (by simp [ht])
          (by rw [hcur _ hs2']; rfl)
      simp only [visit_eq]
      rcases verr_cases (setStep p stCont) with h | h <;> rw [h] <;> simp only []
      · exact atContent_step p _ b _ (hgc.addEv _) (by simp [addEv, setStep, setCurrent, ht]) rfl
          (Or.inl (by simp [addEv, setStep, setCurrent]))
      · exact Step.error .visitor rfl (by decide)
    · rename_i hs2
      have hs2' : p.state.current.step ≠ stWithLen := by simpa using hs2
      have hc : p.state.current.step = stCont := by
        rcases hv with (((h | h) | h) | h) | h
        · exact absurd h hs.1.1
        · exact absurd h hs.1.2
        · exact absurd h hs.2
        · exact absurd h hs2'
        · exact h
      exact atContent_step p _ b p hg (hcur _ hc) rfl (Or.inr ⟨Nat.le_refl _, by rw [hcur _ hc]; rfl⟩)

end SF.Ubjson.Parse
