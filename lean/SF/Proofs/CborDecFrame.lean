/-
  C17 for the CBOR parser and PULL DECODER (mirrors: SF/Cbor/Parse.lean, SF/Cbor/Dec.lean): the
  loops `feed`, `Parse`, `Write*` and the decoder's `Next` commute with the event-log frame
  `FrC E0` (SF/Proofs/CborFrame.lean) — from EVERY state, for ALL input, any read script.
-/
import SF.Proofs.CborFrame
import SF.Proofs.CborDecReaderTop
set_option linter.unusedSimpArgs false
set_option linter.unusedVariables false
namespace SF.Cbor.Frame
open SF SF.Cbor SF.Cbor.Parse SF.Cbor.Dec SF.Cbor.DecR

variable (E0 : List Ev)

/-! ## the parser's entry points -/

theorem feed_fr (fuel : Nat) : ∀ (p : P) (b : Bytes),
    feed fuel (FrC E0 p) b = (FrC E0 (feed fuel p b).1, (feed fuel p b).2) := by
  induction fuel with
  | zero => intro p b; rfl
  | succ fuel ih =>
    intro p b
    simp only [feed]
    by_cases hb : (b.length == 0) = true
    · rw [if_pos hb, if_pos hb]
    · rw [if_neg hb, if_neg hb, feedUntil_fr]
      dsimp (instances := true) only [mapP_err, mapP_p, mapP_rest]
      cases (feedUntil (fuelFor b) p b).err with
      | some e => rfl
      | none => exact ih _ _

theorem parse_fr (p : P) (b : Bytes) : parse (FrC E0 p) b = (FrC E0 (parse p b).1, (parse p b).2) := by
  unfold parse feedAll
  rw [feed_fr]
  rcases feed (2 * b.length + 2) p b with ⟨q, _ | e⟩ <;> rfl

theorem write_fr (p : P) (b : Bytes) : write (FrC E0 p) b = (FrC E0 (write p b).1, (write p b).2) := by
  unfold write feedAll
  rw [feed_fr]
  rfl

theorem writeChunks_fr (cs : List Bytes) : ∀ p : P,
    writeChunks (FrC E0 p) cs = (FrC E0 (writeChunks p cs).1, (writeChunks p cs).2) := by
  induction cs with
  | nil => intro p; rfl
  | cons c cs ih =>
    intro p
    simp only [writeChunks]
    rw [write_fr]
    rcases write p c with ⟨q, _ | e⟩
    · exact ih q
    · rfl

/-! ## the decoder -/

/-- the decoder `d` with another parser value -/
def setP (d : Dec) (p : P) : Dec := { d with p := p }

theorem setP_p (d : Dec) (p : P) : (setP d p).p = p := rfl
theorem stream_setP (d : Dec) (p : P) : stream (setP d p) = stream d := rfl
theorem need_setP (d : Dec) (p : P) : need (setP d p) = need d := rfl

theorem eof_fr (d : Dec) : eof (setP d (FrC E0 d.p)) = eof d := rfl

theorem fi_err (fuel : Nat) (d : Dec) (e : Err) (h : (feedUntil (fuelFor d.buffer) d.p d.buffer).err = some e) :
    feedIt fuel d = ({ d with p := (feedUntil (fuelFor d.buffer) d.p d.buffer).p }, .err e) := by
  unfold feedIt; simp only [h]

theorem fi_done (fuel : Nat) (d : Dec) (h : (feedUntil (fuelFor d.buffer) d.p d.buffer).err = none)
    (hd : (feedUntil (fuelFor d.buffer) d.p d.buffer).done = true) :
    feedIt fuel d =
      (({ d with p := (feedUntil (fuelFor d.buffer) d.p d.buffer).p, buffer := (feedUntil (fuelFor d.buffer) d.p d.buffer).rest } : Dec), .ok) := by
  unfold feedIt; simp only [h, hd, if_true]

theorem fi_cont (fuel : Nat) (d : Dec) (h : (feedUntil (fuelFor d.buffer) d.p d.buffer).err = none)
    (hd : (feedUntil (fuelFor d.buffer) d.p d.buffer).done = false) :
    feedIt fuel d = next fuel
      ({ d with p := (feedUntil (fuelFor d.buffer) d.p d.buffer).p, buffer := (feedUntil (fuelFor d.buffer) d.p d.buffer).rest } : Dec) := by
  unfold feedIt; simp only [h, hd, Bool.false_eq_true, if_false]

/-- what `next_fr` says about one decoder state and one amount of fuel -/
def NextFr (fuel : Nat) (d : Dec) : Prop :=
  next fuel (setP d (FrC E0 d.p)) = (setP (next fuel d).1 (FrC E0 (next fuel d).1.p), (next fuel d).2)

theorem feedIt_fr (fuel : Nat) (d : Dec) (ih : ∀ d' : Dec, NextFr E0 fuel d') :
    feedIt fuel (setP d (FrC E0 d.p)) = (setP (feedIt fuel d).1 (FrC E0 (feedIt fuel d).1.p), (feedIt fuel d).2) := by
  have h1 : feedUntil (fuelFor (setP d (FrC E0 d.p)).buffer) (setP d (FrC E0 d.p)).p (setP d (FrC E0 d.p)).buffer =
      mapP (FrC E0) (feedUntil (fuelFor d.buffer) d.p d.buffer) := feedUntil_fr E0 _ d.p d.buffer
  cases he : (feedUntil (fuelFor d.buffer) d.p d.buffer).err with
  | some e =>
    rw [fi_err fuel d e he, fi_err fuel (setP d (FrC E0 d.p)) e (by rw [h1]; exact he), h1]
    rfl
  | none =>
    cases hd : (feedUntil (fuelFor d.buffer) d.p d.buffer).done with
    | true =>
      rw [fi_done fuel d he hd, fi_done fuel (setP d (FrC E0 d.p)) (by rw [h1]; exact he) (by rw [h1]; exact hd), h1]
      rfl
    | false =>
      rw [fi_cont fuel d he hd, fi_cont fuel (setP d (FrC E0 d.p)) (by rw [h1]; exact he) (by rw [h1]; exact hd), h1]
      exact ih { d with p := (feedUntil (fuelFor d.buffer) d.p d.buffer).p, buffer := (feedUntil (fuelFor d.buffer) d.p d.buffer).rest }

/-- ONE CALL OF `Next` COMMUTES WITH THE FRAME — any parser state, any buffered bytes, any read
script, any fuel -/
theorem next_fr (fuel : Nat) : ∀ d : Dec, NextFr E0 fuel d := by
  induction fuel with
  | zero => intro d; rfl
  | succ fuel ih =>
    intro d
    unfold NextFr
    cases hb : d.buffer with
    | cons x xs =>
      have hb1 : d.buffer ≠ [] := by rw [hb]; simp
      have hb2 : (setP d (FrC E0 d.p)).buffer ≠ [] := hb1
      rw [next_buf fuel d hb1, next_buf fuel _ hb2]
      exact feedIt_fr E0 fuel d ih
    | nil =>
      have hb2 : (setP d (FrC E0 d.p)).buffer = [] := hb
      cases hrd : d.reads with
      | nil =>
        have hrd2 : (setP d (FrC E0 d.p)).reads = [] := hrd
        rw [next_end fuel d hb hrd, next_end fuel _ hb2 hrd2]
        rfl
      | cons c rest =>
        have hrd2 : (setP d (FrC E0 d.p)).reads = c :: rest := hrd
        cases hh : d.hasReader with
        | false =>
          have e1 : next (fuel + 1) d = (d, eof d) := by rw [next_succ]; simp [hb, hh]
          have e2 : next (fuel + 1) (setP d (FrC E0 d.p)) = (setP d (FrC E0 d.p), eof (setP d (FrC E0 d.p))) := by
            rw [next_succ]
            have : (setP d (FrC E0 d.p)).hasReader = false := hh
            simp [hb2, this]
          rw [e1, e2]
          rfl
        | true =>
          have hh2 : (setP d (FrC E0 d.p)).hasReader = true := hh
          cases c with
          | nil =>
            rw [next_empty_read fuel d rest hb hh hrd, next_empty_read fuel _ rest hb2 hh2 hrd2]
            exact ih { d with reads := rest, buffer := [] }
          | cons x xs =>
            rw [next_read fuel d x xs rest hb hh hrd, next_read fuel _ x xs rest hb2 hh2 hrd2]
            exact feedIt_fr E0 fuel { d with reads := rest, buffer := x :: xs } ih

/-- the trace behind the frame: the events of the frame come first -/
def frameTrace (pre : List Ev) (tr : List (NextRes × List Ev)) : List (NextRes × List Ev) :=
  tr.map (fun x => (x.1, pre ++ x.2))

/-- SEQUENCES OF CALLS COMMUTE WITH THE FRAME, for any fuel function that does not look at the
parser (`nextFuel`, or any function of buffer and read script) -/
theorem nextsF_fr (f : Dec → Nat) (hfp : ∀ (d : Dec) (p : P), f (setP d p) = f d) (n : Nat) :
    ∀ d : Dec, nextsF f n (setP d (FrC E0 d.p)) = frameTrace E0.reverse (nextsF f n d) := by
  induction n with
  | zero => intro d; rfl
  | succ n ih =>
    intro d
    have h1 := next_fr E0 (f d) d
    unfold NextFr at h1
    rw [nextsF_succ, nextsF_succ, hfp, h1]
    simp only [frameTrace, List.map_cons, setP_p, events_fr]
    congr 1
    by_cases hok : (next (f d) d).2 = .ok
    · simp only [hok, beq_self_eq_true, if_true]
      exact ih _
    · have : ((next (f d) d).2 == NextRes.ok) = false := by simpa using hok
      simp only [this, Bool.false_eq_true, if_false, List.map_nil]

end SF.Cbor.Frame
