/-
  Definitions for the GENERIC clause of C13 (unfolding into `interface{}`):

    * `UTree.wf`    : well-formedness of a value tree (`UTree` of SF/Proofs/UnfIgnore.lean):
                      numbers inside their kind's range, announced base types valid, announced
                      lengths `-1` or the real count (more generally: not above the real count),
                      typed containers (announced element type ≠ any) hold only scalars of that
                      type;
    * `UTree.toS`   : the specification tree (`Spec.STree`) of a value tree;
    * `UTree.gen`   : the value the mirror delivers for a tree, EXACTLY (an empty container is the
                      nil slice / nil map, as in the Go code) — `SF/Proofs/UnfGenNorm.lean` proves
                      `norm (gen t) = norm (generic t.toS)`;
    * `arrCtx`, `mapCtx`, `mapValCtx` : the contexts while the elements of a sub-array / the
                      members of a sub-object of an `interface{}` are being delivered, as explicit
                      functions of the context before the container started.
-/
import SF.Proofs.UnfIgnore
import SF.Proofs.Symbols
import SF.Gotype.UnfoldSpec
namespace SF.Unf
open SF

/-! ## well-formed value trees -/

/-- a number event carries a value of its own Go type -/
def Sc.inRange : Sc → Bool
  | .num k v => k.inRange v
  | _ => true

/-- scalar `s` is an element of a container announced with element type `bt` ≠ any
(`Ev.matchesBT` without the `any` alternative; `null` fits `ZeroType` only, which is a
generic container here) -/
def Sc.fits (bt : Nat) : Sc → Bool
  | .nil => false
  | .bool _ => bt == BT.bool
  | .str _ => bt == BT.string
  | .f32 _ => bt == BT.float32
  | .f64 _ => bt == BT.float64
  | .num k v => k.inRange v && (bt == k.baseType || ((bt == BT.byte || bt == BT.uint8) && (k == .byte || k == .u8)))

/-- the announced element types whose containers hold arbitrary values: AnyType, ZeroType -/
def isAnyBT (bt : Nat) : Bool := bt == BT.any || bt == BT.zero

/-- a typed element: a scalar (by value or a string by reference) of the announced type -/
def UTree.fits (bt : Nat) : UTree → Bool
  | .scalar s => s.fits bt
  | .strRef _ => bt == BT.string
  | _ => false

mutual
/-- well-formed: numbers in range, base types valid (≤ 16), the announced length of an array is
not above the real count (`-1`, `0` and the real count all qualify; the Go code uses it as a
preallocation hint only), typed containers hold matching scalars only -/
def UTree.wf : UTree → Bool
  | .scalar s => s.inRange
  | .strRef _ => true
  | .arr l bt xs => decide (l ≤ (xs.length : Int)) && decide (bt ≤ 16) && wfList bt xs
  | .obj _ bt ms => decide (bt ≤ 16) && wfMems bt ms
def wfList (bt : Nat) : List UTree → Bool
  | [] => true
  | x :: r => (if isAnyBT bt then x.wf else x.fits bt) && wfList bt r
def wfMems (bt : Nat) : List (Bool × Bytes × UTree) → Bool
  | [] => true
  | (_, _, x) :: r => (if isAnyBT bt then x.wf else x.fits bt) && wfMems bt r
end

/-- the reading of the task: announced length `-1` (unknown) or the real count -/
theorem wf_len_of_exact (l : Int) (n : Nat) (h : l = -1 ∨ l = n) : l ≤ (n : Int) := by omega

/-! ## the specification tree -/

mutual
def UTree.toS : UTree → Spec.STree
  | .scalar s => .sc s
  | .strRef s => .sc (.str s)
  | .arr _ bt xs => .arr bt (toSList xs)
  | .obj _ bt ms => .obj bt (toSMems ms)
def toSList : List UTree → List Spec.STree
  | [] => []
  | x :: r => x.toS :: toSList r
def toSMems : List (Bool × Bytes × UTree) → List (Bytes × Spec.STree)
  | [] => []
  | (_, k, x) :: r => (k, x.toS) :: toSMems r
end

/-! ## the delivered value, exactly -/

/-- `(interface{})(v)` of an in-range scalar -/
def scGen : Sc → GoVal
  | .nil => .ifcNil
  | .bool b => .ifc (.bool b)
  | .str x => .ifc (.str x)
  | .num ek v => .ifc (.int (normKind ek) v)
  | .f32 b => .ifc (.f32 b)
  | .f64 b => .ifc (.f64 b)

/-- a finished sub-array: never written = nil -/
def sliceFin (et : GoType) (vs : List GoVal) : GoVal :=
  if vs.isEmpty then .sliceNil et else .slice et vs []

/-- a sub-map after the members `acc` were put: never written = nil -/
def mapSt (et : GoType) (acc : List (Bytes × GoVal)) : GoVal :=
  if acc.isEmpty then .mapNil et else .map et acc

/-- element kind of a container (valid base type codes only) -/
def kindOf (bt : Nat) : PK := (btKind bt).getD .ifc

/-- the value a typed container of kind `k` stores for an element -/
def UTree.typed (k : PK) : UTree → GoVal
  | .scalar s => (k.conv s).getD .invalid
  | .strRef s => (k.conv (.str s)).getD .invalid
  | _ => .invalid

mutual
def UTree.gen : UTree → GoVal
  | .scalar s => scGen s
  | .strRef s => .ifc (.str s)
  | .arr _ bt xs => .ifc (sliceFin (kindOf bt).goType (genList (kindOf bt) xs))
  | .obj _ bt ms => .ifc (mapSt (kindOf bt).goType (genMems (kindOf bt) ms []))
def genList (k : PK) : List UTree → List GoVal
  | [] => []
  | x :: r => (if k = .ifc then x.gen else x.typed k) :: genList k r
def genMems (k : PK) : List (Bool × Bytes × UTree) → List (Bytes × GoVal) → List (Bytes × GoVal)
  | [], acc => acc
  | (_, key, x) :: r, acc => genMems k r (mapSet acc key (if k = .ifc then x.gen else x.typed k))
end

/-! ## contexts inside a generic container -/

def setKC (c : Ctx) (kc : Symbols.Cache) : Ctx := { c with keyCache := kc }

/-- the sub-array's scratch slot after `vs` were appended: `unfoldArrStartX.OnArrayStart` made
`min(l, 1024)` zero elements when a positive length `l` was announced -/
def sliceSt (et : GoType) (z : GoVal) (l : Int) (vs : List GoVal) : GoVal :=
  if l ≤ 0 then sliceFin et vs
  else .slice et (vs ++ List.replicate ((arrPreallocLen l).toNat - vs.length) z) []

/-- the context after `OnArrayStart(l, bt)` in a generic position of `c` and `vs` appended
elements: `unfolderArrX` on top, the slot pointer twice on the ptr stack (once for
`unfoldIfcFinishSubArray`), `bt` on the baseType stack, the index, the slot -/
def arrCtx (c : Ctx) (k : PK) (bt : Nat) (l : Int) (vs : List GoVal) : Ctx :=
  { c with
    unfolder := ⟨.arr k, c.unfolder.current :: c.unfolder.stack⟩
    ptr := ⟨some { root := .arrays c.valueBuffer.arrays.size },
            some { root := .arrays c.valueBuffer.arrays.size } :: c.ptr.current :: c.ptr.stack⟩
    baseType := ⟨bt, c.baseType.current :: c.baseType.stack⟩
    idx := ⟨(vs.length : Int), c.idx.current :: c.idx.stack⟩
    valueBuffer := { c.valueBuffer with
      arrays := c.valueBuffer.arrays.push (sliceSt k.goType (zero c.env k.goType) l vs) } }

/-- the scratch buffers with the sub-map's slot pushed: `mapAny` for interface{} elements,
`mapPrimitive` for the others -/
def mapBuf (b : UnfoldBuf) (k : PK) (v : GoVal) : UnfoldBuf :=
  if k = .ifc then { b with mapAny := b.mapAny.push v } else { b with mapPrimitive := b.mapPrimitive.push v }

def mapRoot (b : UnfoldBuf) (k : PK) : Root :=
  if k = .ifc then .mapAny b.mapAny.size else .mapPrimitive b.mapPrimitive.size

/-- the context after `OnObjectStart(l, bt)` in a generic position of `c` and the members `acc`
put: `unfoldMapKeyX` on top -/
def mapCtx (c : Ctx) (k : PK) (bt : Nat) (acc : List (Bytes × GoVal)) : Ctx :=
  { c with
    unfolder := ⟨.mapKey k, c.unfolder.current :: c.unfolder.stack⟩
    ptr := ⟨some { root := mapRoot c.valueBuffer k },
            some { root := mapRoot c.valueBuffer k } :: c.ptr.current :: c.ptr.stack⟩
    baseType := ⟨bt, c.baseType.current :: c.baseType.stack⟩
    valueBuffer := mapBuf c.valueBuffer k (mapSt k.goType acc) }

/-- … and after a key: `unfolderMapX` on top, the key on the key stack -/
def mapValCtx (c : Ctx) (k : PK) (bt : Nat) (acc : List (Bytes × GoVal)) (key : Bytes) : Ctx :=
  { c with
    unfolder := ⟨.mapVal k, c.unfolder.current :: c.unfolder.stack⟩
    ptr := ⟨some { root := mapRoot c.valueBuffer k },
            some { root := mapRoot c.valueBuffer k } :: c.ptr.current :: c.ptr.stack⟩
    baseType := ⟨bt, c.baseType.current :: c.baseType.stack⟩
    key := ⟨key, c.key.current :: c.key.stack⟩
    valueBuffer := mapBuf c.valueBuffer k (mapSt k.goType acc) }

/-- the three unfolder states a generic value can be delivered to (`pukDeliver`) -/
def isSink (u : U) : Prop := u = .prim .ifc ∨ u = .arr .ifc ∨ u = .mapVal .ifc

end SF.Unf
