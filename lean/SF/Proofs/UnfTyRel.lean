/-
  Typed targets, part 4: from the well-formedness of the frame list to the relation `Rel` between
  the live pointers below a frame and the frame's own pointer.
-/
import SF.Proofs.UnfTyFrames
namespace SF.Unf
open SF

theorem Rel.of_ne {lo up : LP} (h : lo.1.root ≠ up.1.root) : Rel lo up := Or.inl h

/-- the same pointer, the upper owner relying on no less -/
theorem Rel.same (p : Path) (ρlo ρup : Sh) (h : ρup.le ρlo) : Rel (p, ρlo) (p, ρup) :=
  Or.inr ⟨rfl, [], ρlo, by simp, ShAt.nil _, h⟩

@[simp] theorem Path.push_root (p : Path) (s : Step) : (p.push s).root = p.root := rfl
@[simp] theorem Path.push_steps (p : Path) (s : Step) : (p.push s).steps = p.steps ++ [s] := rfl

/-- from a slice to one of its elements -/
theorem Rel.extend {y : LP} {P : Path} {n : Nat} {sh ρ : Sh} (h : Rel y (P, .slice n sh)) (hρ : ρ.le sh) (j : Nat) :
    Rel y (P.push (.index j), ρ) := by
  rcases h with hne | ⟨heq, r, ρ', hst, hat, hle⟩
  · exact Or.inl hne
  · have hst' : P.steps = y.1.steps ++ r := hst
    refine Or.inr ⟨heq, r ++ [.index j], ?_⟩
    rcases hle with h1 | ⟨h1, _⟩ | h1 | ⟨n', m', e', h1, h2, _⟩
    · subst h1
      exact ⟨sh, by simp [hst'], hat.snoc j, hρ⟩
    · cases h1
    · subst h1
      exact ⟨.flat, by simp [hst'], hat.append (ShAt.flat _), Sh.le_flat _⟩
    · injection h1 with h1a h1b
      subst h1a; subst h1b; subst h2
      exact ⟨sh, by simp [hst'], hat.snoc j, hρ⟩

theorem attach_rel (D : Nat) : ∀ (fs : List Frame) (p : Path) (ρ : Sh) (a : Option Bool),
    WFS D fs → Attach p ρ a fs → ∀ y ∈ liveOf fs, Rel y (p, ρ) := by
  intro fs
  induction fs with
  | nil => intro p ρ a _ _ y hy; cases hy
  | cons G fs ih =>
    intro p ρ a hw ha y hy
    obtain ⟨hb, hw'⟩ := hw
    simp only [liveOf, List.map_cons, List.mem_cons] at hy
    cases G with
    | cellx cell =>
      simp only [Attach] at ha
      subst ha
      rcases hy with rfl | hy
      · exact Rel.same _ _ _ (Sh.le_flat _)
      · exact Or.inl (hb.2.1 y hy)
    | sub isArr bt slot k =>
      simp only [Attach] at ha
      obtain ⟨_, rfl⟩ := ha
      rcases hy with rfl | hy
      · exact Rel.same _ _ _ (Sh.le_flat _)
      · exact Or.inl (hb.2.2.1 y hy)
    | rsl e ru P i =>
      simp only [Attach] at ha
      obtain ⟨⟨j, rfl⟩, hle⟩ := ha
      rcases hy with rfl | hy
      · exact Rel.extend (Rel.same _ _ _ (Sh.le_refl _)) hle j
      · exact Rel.extend (ih P _ none hw' hb.1 y hy) hle j
    | prim k p' => exact ha.elim
    | arrS k p' => exact ha.elim
    | arr k p' i => exact ha.elim
    | mapS k p' => exact ha.elim
    | mapK k p' => exact ha.elim
    | mapV k p' key => exact ha.elim
    | rslS e ru p' => exact ha.elim
    | rmS e ru p' => exact ha.elim
    | rmK e ru p' => exact ha.elim
    | rmE e ru p' key => exact ha.elim
    | rp e ru p' => exact ha.elim

/-- every live pointer below a frame is related to the frame's pointer -/
theorem rel_of_wfs (D : Nat) (F : Frame) (fs : List Frame) (hw : WFS D (F :: fs)) :
    ∀ y ∈ liveOf fs, Rel y F.live := by
  obtain ⟨hb, hw'⟩ := hw
  cases F with
  | prim k p => exact attach_rel D fs p _ _ hw' hb
  | arrS k p => exact attach_rel D fs p _ _ hw' hb
  | arr k p i => exact attach_rel D fs p _ _ hw' hb
  | mapS k p => exact attach_rel D fs p _ _ hw' hb
  | mapK k p => exact attach_rel D fs p _ _ hw' hb
  | mapV k p key => exact attach_rel D fs p _ _ hw' hb
  | sub isArr bt slot k => exact fun y hy => Or.inl (hb.2.2.1 y hy)
  | rslS e ru p => exact attach_rel D fs p _ _ hw' hb.1
  | rsl e ru p i => exact attach_rel D fs p _ _ hw' hb.1
  | rmS e ru p => exact attach_rel D fs p _ _ hw' hb.1
  | rmK e ru p => exact attach_rel D fs p _ _ hw' hb.1
  | rmE e ru p key => exact attach_rel D fs p _ _ hw' hb.1
  | cellx cell => exact fun y hy => Or.inl (hb.2.1 y hy)
  | rp e ru p => exact attach_rel D fs p _ _ hw' hb.1

/-- an owner relying on more, on the same pointer, is still related -/
theorem Rel.weaken_up {y : LP} {p : Path} {ρ ρ' : Sh} (h : Rel y (p, ρ)) (hle : ρ'.le ρ) : Rel y (p, ρ') := by
  rcases h with hne | ⟨heq, r, ρ0, hst, hat, hl⟩
  · exact Or.inl hne
  · exact Or.inr ⟨heq, r, ρ0, hst, hat, Sh.le_trans hle hl⟩

/-! ## the stack equations of a context -/

theorem s6_eq (c : Ctx) (s : S6) (h : c.s6 = s) :
    c.unfolder = s.u ∧ c.ptr = s.p ∧ c.value = s.v ∧ c.key = s.k ∧ c.idx = s.i ∧ c.baseType = s.b := by
  subst h
  exact ⟨rfl, rfl, rfl, rfl, rfl, rfl⟩

theorem s6_mk (c : Ctx) (s : S6) (h1 : c.unfolder = s.u) (h2 : c.ptr = s.p) (h3 : c.value = s.v) (h4 : c.key = s.k)
    (h5 : c.idx = s.i) (h6 : c.baseType = s.b) : c.s6 = s := by
  cases s
  simp only [Ctx.s6] at *
  simp [h1, h2, h3, h4, h5, h6]

theorem SameFrame.s6 {c c' : Ctx} (h : SameFrame c c') : c'.s6 = c.s6 := by
  simp only [Ctx.s6, h.unfolder, h.ptr, h.value, h.key, h.idx, h.baseType]

end SF.Unf
