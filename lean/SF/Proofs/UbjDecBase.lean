/-
  C18 for the UBJSON pull decoder (mirror: SF/Ubjson/Dec.lean) — base: `Next` with the fuel
  function of the parser loop abstracted (`nextG`; unfolding `next` itself makes Lean normalise
  the literal `2000000` of `fuelFor`, which takes minutes), the scripted reader, sequences of
  calls.
-/
import SF.Ubjson.Dec
import SF.Proofs.UbjRefTop
import SF.Proofs.UbjProgFeed
set_option linter.unusedSimpArgs false
set_option linter.unusedVariables false
namespace SF.Ubjson.DecR
open SF SF.Ubjson SF.Ubjson.Parse SF.Ubjson.Dec SF.Ubjson.Syn
open StateType StateStep

/-! ## `next` with the fuel function abstracted -/

/-- `Dec.next` with `fuelFor` replaced by a parameter -/
def nextG (ff : Bytes → Nat) : Nat → Dec → Dec × NextRes
  | 0, d => (d, .err .outOfFuel)
  | fuel + 1, d =>
    let feedIt (d : Dec) : Dec × NextRes :=
      let r := feedUntil (ff d.buffer) d.p d.buffer
      match r.err with
      | some e => ({ d with p := r.p }, .err e)
      | none =>
        let d := { d with p := r.p, buffer := r.rest }
        if r.done then (d, .ok) else nextG ff fuel d
    if d.buffer.isEmpty then
      if !d.hasReader then atEOF d
      else
        let (rd, got, eof) := d.reader.read d.bufsize
        let d := { d with reader := rd, buffer := got }
        -- `if n == 0 && err != nil`: the only error of the scripted reader is io.EOF
        if got.isEmpty && eof then atEOF d
        else feedIt d
    else feedIt d

theorem next_eq_nextG : next = nextG fuelFor := by
  delta next nextG
  rfl

/-- the inner function of `next`: run the parser on the buffer -/
def feedIt (ff : Bytes → Nat) (fuel : Nat) (d : Dec) : Dec × NextRes :=
  let r := feedUntil (ff d.buffer) d.p d.buffer
  match r.err with
  | some e => ({ d with p := r.p }, .err e)
  | none =>
    let d := { d with p := r.p, buffer := r.rest }
    if r.done then (d, .ok) else nextG ff fuel d

/-- the decoder after one `Read` into its (empty) buffer -/
def afterRead (d : Dec) : Dec :=
  { d with reader := (d.reader.read d.bufsize).1, buffer := (d.reader.read d.bufsize).2.1 }

/-- the `Read` returned `(0, io.EOF)` -/
def readEnd (d : Dec) : Bool := (d.reader.read d.bufsize).2.1.isEmpty && (d.reader.read d.bufsize).2.2

theorem nextG_zero (ff : Bytes → Nat) (d : Dec) : nextG ff 0 d = (d, .err .outOfFuel) := rfl

theorem nextG_succ (ff : Bytes → Nat) (fuel : Nat) (d : Dec) :
    nextG ff (fuel + 1) d =
      if d.buffer.isEmpty then
        if !d.hasReader then atEOF d
        else if readEnd d then atEOF (afterRead d) else feedIt ff fuel (afterRead d)
      else feedIt ff fuel d := by
  rw [nextG]
  rfl

theorem nextG_buf (ff : Bytes → Nat) (fuel : Nat) (d : Dec) (h : d.buffer ≠ []) :
    nextG ff (fuel + 1) d = feedIt ff fuel d := by
  rw [nextG_succ]
  have : d.buffer.isEmpty = false := by cases hb : d.buffer <;> simp_all
  simp only [this, Bool.false_eq_true, if_false]

theorem nextG_noReader (ff : Bytes → Nat) (fuel : Nat) (d : Dec) (hb : d.buffer = []) (hr : d.hasReader = false) :
    nextG ff (fuel + 1) d = atEOF d := by
  rw [nextG_succ]; simp [hb, hr]

theorem nextG_read (ff : Bytes → Nat) (fuel : Nat) (d : Dec) (hb : d.buffer = []) (hr : d.hasReader = true) :
    nextG ff (fuel + 1) d = if readEnd d then atEOF (afterRead d) else feedIt ff fuel (afterRead d) := by
  rw [nextG_succ]; simp [hb, hr]

/-! ## the scripted reader -/

/-- everything the reader is still going to deliver -/
def rstream (r : Reader) : Bytes := r.pending ++ r.chunks.flatten

/-- a bound on the number of `Read` calls that return something other than `(0, io.EOF)` -/
def rcost (r : Reader) : Nat := r.pending.length + r.chunks.length + (r.chunks.map List.length).sum

/-- the script is used up -/
def rend (r : Reader) : Prop := r.pending = [] ∧ r.chunks = []

theorem take_ne_nil {α : Type} (l : List α) (n : Nat) (hn : 1 ≤ n) (hl : l ≠ []) : l.take n ≠ [] := by
  cases l with
  | nil => exact absurd rfl hl
  | cons x xs =>
    obtain ⟨k, rfl⟩ : ∃ k, n = k + 1 := ⟨n - 1, by omega⟩
    simp

/-- ONE `Read` with a buffer of `n ≥ 1` bytes: what it returns is a prefix of what was still to
come; it reports `(0, io.EOF)` exactly when the script is used up; otherwise the script got
shorter -/
theorem read_spec (r : Reader) (n : Nat) (hn : 1 ≤ n) :
    rstream r = (r.read n).2.1 ++ rstream (r.read n).1 ∧
    (((r.read n).2.1.isEmpty && (r.read n).2.2) = true ↔ rend r) ∧
    (¬ rend r → rcost (r.read n).1 + 1 ≤ rcost r) ∧
    (rend r → (r.read n).1 = r ∧ (r.read n).2.1 = []) := by
  obtain ⟨chunks, lastEOF, pending⟩ := r
  cases pending with
  | cons x xs =>
    have h1 : ((x :: xs).take n) ≠ [] := take_ne_nil _ n hn (by simp)
    have h2 : ((x :: xs).take n).isEmpty = false := by
      cases h : (x :: xs).take n with
      | nil => exact absurd h h1
      | cons _ _ => rfl
    simp only [Reader.read, List.isEmpty_cons, Bool.false_eq_true, if_false, rstream, rend, rcost]
    refine ⟨by rw [← List.append_assoc, List.take_append_drop], ?_, ?_, ?_⟩
    · simp [h2]
    · intro _
      simp only [List.length_drop, List.length_cons]
      omega
    · intro h; simp at h
  | nil =>
    cases chunks with
    | nil =>
      simp [Reader.read, rstream, rend, rcost]
    | cons c rest =>
      cases c with
      | nil =>
        simp [Reader.read, rstream, rend, rcost]
        omega
      | cons x xs =>
        have h1 : ((x :: xs).take n) ≠ [] := take_ne_nil _ n hn (by simp)
        have h2 : ((x :: xs).take n).isEmpty = false := by
          cases h : (x :: xs).take n with
          | nil => exact absurd h h1
          | cons _ _ => rfl
        simp only [Reader.read, List.isEmpty_nil, if_true, List.isEmpty_cons, Bool.false_eq_true, if_false,
          rstream, rend, rcost]
        refine ⟨?_, ?_, ?_, ?_⟩
        · simp only [List.nil_append, List.flatten_cons]
          rw [← List.append_assoc, List.take_append_drop]
        · simp [h2]
        · intro _
          simp only [List.length_drop, List.length_cons, List.length_nil, List.map_cons, List.sum_cons]
          omega
        · intro h; simp at h

end SF.Ubjson.DecR
