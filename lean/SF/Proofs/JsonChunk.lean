/-
  C02 for the JSON parser mirror: CHUNK INDEPENDENCE.  However the input is cut into
  `Write` calls, the visitor sees the same events and the caller the same verdict as for
  `Parse` of the whole input.  From the peel lemma (SF/Proofs/JsonPeel.lean) by induction.
-/
import SF.Proofs.JsonPeel
set_option linter.unusedSimpArgs false
namespace SF.Json.ParseP
open SF SF.Json SF.Json.Parse SF.Json.Float

theorem RE.symm {x y : P × Option Err} (h : RE x y) : RE y x := by
  obtain ⟨a1, a2, a3, a4⟩ := h
  exact ⟨a1.symm, a2.symm, a3.symm, fun hy => (a4 (by rw [← a1]; exact hy)).symm⟩

theorem runA_inv (p : P) (b : Bytes) (hinv : Inv p) : Inv (runA p b).1 := by
  rw [← feedAll_run p b hinv]
  exact (feed_spec _ p b hinv).1

theorem runA_err (p : P) (b : Bytes) (hinv : Inv p) (h : (runA p b).2 = none) : (runA p b).1.err = p.err := by
  rw [← feedAll_run p b hinv] at h ⊢
  exact (feed_spec _ p b hinv).2.2.2 h

theorem seq_RE (x y : P × Option Err) (b : Bytes) (hinv : x.2 = none → Inv x.1) (h : RE x y) :
    RE (seq x b) (seq y b) := by
  obtain ⟨p, e⟩ := x
  obtain ⟨q, e'⟩ := y
  obtain ⟨a1, a2, a3, a4⟩ := h
  simp only at a1 a2 a3 a4 hinv
  subst a1
  cases e' with
  | some e => exact ⟨rfl, a2, a3, by simp [seq]⟩
  | none => exact RE_of_eqv p q b (hinv rfl) (a4 rfl)

/-- THE APPEND LEMMA: one run over `a ++ b` agrees with a run over `a` followed by a run
over `b` -/
theorem run_append (p : P) (a b : Bytes) (hinv : Inv p) : RE (seq (runA p a) b) (runA p (a ++ b)) := by
  induction a generalizing p with
  | nil => simp only [runA_nil, seq, List.nil_append]; exact RE.refl _
  | cons x a' ih =>
    have hp1 := peel p x (a' ++ b) hinv
    have hp2 := peel p x a' hinv
    cases hX : (runA p [x]).2 with
    | some e =>
      have e1 : ∀ r, seq (runA p [x]) r = runA p [x] := by intro r; simp only [seq, hX]
      rw [e1] at hp1 hp2
      have e2 : seq (runA p (x :: a')) b = runA p (x :: a') := by
        have : (runA p (x :: a')).2 = some e := by rw [hp2.1, hX]
        simp only [seq, this]
      rw [e2]
      exact RE.trans (RE.symm hp2) hp1
    | none =>
      have hi1 : Inv (runA p [x]).1 := runA_inv p [x] hinv
      have e1 : ∀ r, seq (runA p [x]) r = runA (runA p [x]).1 r := by intro r; simp only [seq, hX]
      rw [e1] at hp1 hp2
      have h3 := ih (runA p [x]).1 hi1
      have h4 := seq_RE _ _ b (fun _ => runA_inv _ a' hi1) hp2
      exact RE.trans (RE.symm h4) (RE.trans h3 hp1)

/-! ## Parse and Write* + end of input -/

/-- what is observed: the verdict and the events -/
def OE (x y : P × Option Err) : Prop := y.2 = x.2 ∧ y.1.evs = x.1.evs ∧ y.1.nevs = x.1.nevs

theorem OE.refl (x : P × Option Err) : OE x x := ⟨rfl, rfl, rfl⟩
theorem OE.symm {x y : P × Option Err} (h : OE x y) : OE y x := ⟨h.1.symm, h.2.1.symm, h.2.2.symm⟩
theorem OE.trans {x y z : P × Option Err} (h1 : OE x y) (h2 : OE y z) : OE x z :=
  ⟨h2.1.trans h1.1, h2.2.1.trans h1.2.1, h2.2.2.trans h1.2.2⟩

/-- what `Parse` does with the result of the feeding loop -/
def parseTail (x : P × Option Err) : P × Option Err :=
  match x with
  | (q, some e) => ({ q with err := some e }, some e)
  | (q, none) => ({ (finalize q).1 with err := (finalize q).2 }, (finalize q).2)

/-- feed everything, then the end-of-input check: `Parse` without the reset -/
def parseFrom (p : P) (b : Bytes) : P × Option Err := parseTail (feedAll p b)

theorem parse_eq_parseFrom (p : P) (b : Bytes) :
    parse p b = parseFrom { p with states := [], literalBuffer := [], currentState := .startState } b := by
  unfold parse parseFrom parseTail
  simp only
  generalize feedAll _ b = x
  obtain ⟨q, e⟩ := x
  cases e <;> rfl

theorem finalize_setReq (p : P) (r : Nat) : finalize (setReq p r) = (setReq (finalize p).1 r, (finalize p).2) := by
  unfold finalize
  simp only
  have hcs : (setReq p r).currentState = p.currentState := rfl
  have hlb : (setReq p r).literalBuffer = p.literalBuffer := rfl
  have hd : (setReq p r).isDouble = p.isDouble := rfl
  rw [hcs, hlb, hd]
  split
  · rw [reportNumber_setReq]
    obtain ⟨q, e⟩ := reportNumber p p.literalBuffer p.isDouble
    cases e with
    | some e => rfl
    | none =>
      simp only
      rw [popState_setReq]
      have hs : (setReq (popState q) r).states = (popState q).states := rfl
      have hc : (setReq (popState q) r).currentState = (popState q).currentState := rfl
      rw [hs, hc]
      split <;> rfl
  · have hs : (setReq p r).states = p.states := rfl
    rw [hs]
    split <;> rfl

theorem finalize_eqv {p q : P} (h : Eqv p q) :
    (finalize q).2 = (finalize p).2 ∧ (finalize q).1.evs = (finalize p).1.evs ∧
    (finalize q).1.nevs = (finalize p).1.nevs := by
  obtain ⟨r, rfl, _⟩ := h
  rw [finalize_setReq]
  exact ⟨rfl, rfl, rfl⟩

/-- results of the feeding loop that agree up to `RE` give the same observations after the
end-of-input check -/
theorem parseTail_RE (x y : P × Option Err) (h : RE x y) : OE (parseTail x) (parseTail y) := by
  obtain ⟨p, e⟩ := x
  obtain ⟨q, e'⟩ := y
  obtain ⟨a1, a2, a3, a4⟩ := h
  simp only at a1 a2 a3 a4
  subst a1
  cases e' with
  | some e => exact ⟨rfl, a2, a3⟩
  | none =>
    obtain ⟨k1, k2, k3⟩ := finalize_eqv (a4 rfl)
    exact ⟨k1, k2, k3⟩

/-- CHUNK INDEPENDENCE, general form: from any state satisfying the invariant whose stored
error is clear, `Write` per chunk + end of input observes what one `feed` + end of input does -/
theorem writeChunks_parseFrom (cs : List Bytes) (p : P) (hinv : Inv p) (herr : p.err = none) :
    OE (parseFrom p cs.flatten) (writeChunks p cs) := by
  induction cs generalizing p with
  | nil =>
    simp only [List.flatten_nil, writeChunks, parseFrom]
    have : feedAll p [] = (p, none) := by simp [feedAll, feed]
    rw [this]
    exact ⟨rfl, rfl, rfl⟩
  | cons c cs ih =>
    simp only [List.flatten_cons, writeChunks, write]
    have happ := run_append p c cs.flatten hinv
    unfold parseFrom
    rw [feedAll_run p (c ++ cs.flatten) hinv, feedAll_run p c hinv]
    cases hc : runA p c with
    | mk q e =>
      rw [hc] at happ
      cases e with
      | some e =>
        simp only [seq] at happ
        exact OE.symm (parseTail_RE _ _ happ)
      | none =>
        simp only
        have hq : Inv q := by have := runA_inv p c hinv; rw [hc] at this; exact this
        have hqe : q.err = none := by
          have := runA_err p c hinv (by rw [hc]); rw [hc] at this; rw [this]; exact herr
        have hqq : ({ q with err := none } : P) = q := by cases q; simp only at hqe; subst hqe; rfl
        rw [hqq]
        have h1 := ih q hq hqe
        simp only [seq] at happ
        have h2 := parseTail_RE _ _ happ
        unfold parseFrom at h1
        rw [feedAll_run q cs.flatten hq] at h1
        exact OE.trans (OE.symm h2) h1

/-- C02 for JSON: `Write*` + end of input (`ParseReader`), for ANY chunking, observes the same
verdict and the same events as `Parse` of the whole input -/
theorem writeChunks_eq_parse (cs : List Bytes) :
    (writeChunks {} cs).2 = (parse {} cs.flatten).2 ∧
    (writeChunks {} cs).1.evs = (parse {} cs.flatten).1.evs ∧
    (writeChunks {} cs).1.nevs = (parse {} cs.flatten).1.nevs := by
  rw [parse_eq_parseFrom]
  exact writeChunks_parseFrom cs {} inv_fresh rfl

/-- … also with a visitor that fails from its k-th event on -/
theorem writeChunks_eq_parse_init (failAt : Option Nat) (cs : List Bytes) :
    (writeChunks (init failAt) cs).2 = (parse (init failAt) cs.flatten).2 ∧
    (writeChunks (init failAt) cs).1.evs = (parse (init failAt) cs.flatten).1.evs ∧
    (writeChunks (init failAt) cs).1.nevs = (parse (init failAt) cs.flatten).1.nevs := by
  rw [parse_eq_parseFrom]
  exact writeChunks_parseFrom cs (init failAt) (inv_init failAt) rfl

/-- any two chunkings of the same bytes -/
theorem chunk_independent (failAt : Option Nat) (cs1 cs2 : List Bytes) (h : cs1.flatten = cs2.flatten) :
    (writeChunks (init failAt) cs1).2 = (writeChunks (init failAt) cs2).2 ∧
    events (writeChunks (init failAt) cs1).1 = events (writeChunks (init failAt) cs2).1 := by
  obtain ⟨a1, a2, _⟩ := writeChunks_eq_parse_init failAt cs1
  obtain ⟨b1, b2, _⟩ := writeChunks_eq_parse_init failAt cs2
  rw [h] at a1 a2
  exact ⟨a1.trans b1.symm, by simp only [events]; rw [a2, b2]⟩

end SF.Json.ParseP
