/-
  C11, direct path, NESTED struct types — UNFOLD side and the composition.  The specification's field list of the
  outer struct is FLATTENED (`sfL`): an inlined struct contributes its members with longer field-index paths, a
  plain struct-typed member is one entry of struct type, assigned recursively (`Spec.assign` on an object).
-/
import SF.Proofs.FuIdStruct2NFold
namespace SF.FuId
open SF SF.Gotype SF.Gotype.Fold SF.FoldProofs
open SF.Unf (Sc UEv PK Ctx newUnfolder setTarget typeFuel UTree eventsMems toSMems Step)
open SF.Unf.Spec (assign assignMembers norm normList specFields)
open SF.Ops.Unf (xevToUEvs evToUEv runToken)
open SF.Ops.Fu (feed)

mutual
/-- zero value of the fresh target -/
def zerosL : List FT → List Unf.GoVal
  | [] => []
  | d :: ds => zeroI d :: zerosL ds
def zeroI : FT → Unf.GoVal
  | .drop p => zeroPrim p
  | .mem _ p => zeroPrim p
  | .oe _ p => zeroPrim p
  | .sub _ _ _ _ ds => .struct (zerosL ds)
  | .inl _ _ ds => .struct (zerosL ds)
end

mutual
/-- translation of the field values: a dropped field keeps the zero value of the fresh target -/
def trL : List FT → List GoVal → List Unf.GoVal
  | d :: ds, v :: vs => trI d v :: trL ds vs
  | _, _ => []
def trI : FT → GoVal → Unf.GoVal
  | .drop p, _ => zeroPrim p
  | .mem _ p, v => trPtrElem p v
  | .oe _ p, v => trPtrElem p v
  | .sub _ _ _ _ ds, .struct vs => .struct (trL ds vs)
  | .inl _ _ ds, .struct vs => .struct (trL ds vs)
  | _, _ => .invalid
end

mutual
/-- the members of the object Fold delivers -/
def memTreesL : List FT → List GoVal → List (Bool × Bytes × UTree)
  | d :: ds, v :: vs => memTreesI d v ++ memTreesL ds vs
  | _, _ => []
def memTreesI : FT → GoVal → List (Bool × Bytes × UTree)
  | .drop _, _ => []
  | .mem nm p, v => [(false, nm, .scalar (scOfPtr p v))]
  | .oe nm p, v => if isEmptyP p v then [] else [(false, nm, .scalar (scOfPtr p v))]
  | .sub nm _ fs _ ds, .struct vs =>
    [(false, nm, .obj (structFoldLen fs (foldersL ds 0).length) BT.any (memTreesL ds vs))]
  | .inl _ _ ds, .struct vs => memTreesL ds vs
  | _, _ => []
end

mutual
/-- the FLATTENED field list of the specification; `pre` = the index path of the struct the fields belong to -/
def sfL : List FT → Nat → List Nat → Unf.SV.SpecFields
  | [], _, _ => []
  | d :: r, i, pre => sfI d i pre ++ sfL r (i + 1) pre
def sfI : FT → Nat → List Nat → Unf.SV.SpecFields
  | .drop _, _, _ => []
  | .mem nm p, i, pre => [(nm, pre ++ [i], uPrimTy p)]
  | .oe nm p, i, pre => [(nm, pre ++ [i], uPrimTy p)]
  | .sub nm _ _ ut _, i, pre => [(nm, pre ++ [i], ut)]
  | .inl _ _ ds, i, pre => sfL ds 0 (pre ++ [i])
end

mutual
/-- the UNFOLD side of the nested struct types: the translated type of a struct-typed member is a struct type
whose specification field list is the flattened list of its description, with distinct member names -/
def uokL (tbl : Unf.TypeTable) : List FT → Prop
  | [] => True
  | d :: ds => uokI tbl d ∧ uokL tbl ds
def uokI (tbl : Unf.TypeTable) : FT → Prop
  | .sub _ _ _ ut ds =>
    (∃ nm ufs, ut.un tbl = .struct nm ufs ∧ specFields tbl (ufs.length + 64) ufs 0 = sfL ds 0 []) ∧
      ((sfL ds 0 []).map (·.1)).Nodup ∧ uokL tbl ds
  | .inl _ _ ds => uokL tbl ds
  | _ => True
end

mutual
/-- fuel of the specification -/
def wL : List FT → Nat
  | [] => 0
  | d :: ds => wI d + wL ds
def wI : FT → Nat
  | .drop _ => 0
  | .mem _ _ => 1
  | .oe _ _ => 1
  | .sub _ _ _ _ ds => wL ds + 3
  | .inl _ _ ds => wL ds
end

/-! ## tokens -/

theorem eventsMems_append : ∀ (a b : List (Bool × Bytes × UTree)), eventsMems (a ++ b) = eventsMems a ++ eventsMems b
  | [], b => rfl
  | (r, k, v) :: a, b => by simp [eventsMems, eventsMems_append a b]

theorem toSMems_append : ∀ (a b : List (Bool × Bytes × UTree)), toSMems (a ++ b) = toSMems a ++ toSMems b
  | [], b => by simp [toSMems]
  | (r, k, v) :: a, b => by simp [toSMems, toSMems_append a b]

theorem toSMems_length : ∀ (a : List (Bool × Bytes × UTree)), (toSMems a).length = a.length
  | [] => by simp [toSMems]
  | (r, k, v) :: a => by simp [toSMems, toSMems_length a]

theorem wfMems_of_all : ∀ (ms : List (Bool × Bytes × UTree)), (∀ m ∈ ms, m.2.2.wf = true) →
    SF.Unf.wfMems BT.any ms = true
  | [], _ => by simp [SF.Unf.wfMems]
  | (r, k, x) :: ms, h => by
    have h1 := h (r, k, x) (by simp)
    have h2 := wfMems_of_all ms (fun m hm => h m (by simp [hm]))
    have : SF.Unf.isAnyBT BT.any = true := by decide
    simp only [SF.Unf.wfMems, this, if_true, Bool.and_eq_true]
    exact ⟨h1, h2⟩

mutual
theorem tokensL : ∀ (ds : List FT) (vs : List GoVal), valsL ds vs = true →
    (memEvsL ds vs).map xevToUEvs = (eventsMems (memTreesL ds vs)).map fun e => [e]
  | [], [], _ => rfl
  | d :: ds, v :: vs, h => by
    obtain ⟨h1, h2⟩ := valsL_cons h
    simp only [memEvsL, memTreesL, List.map_append, eventsMems_append, tokensI d v h1, tokensL ds vs h2]
  | [], _ :: _, h => by simp [valsL] at h
  | _ :: _, [], h => by simp [valsL] at h
theorem tokensI : ∀ (d : FT) (v : GoVal), valI d v = true →
    (memEvsI d v).map xevToUEvs = (eventsMems (memTreesI d v)).map fun e => [e]
  | .drop p, v, _ => rfl
  | .mem nm p, v, _ => by
    simp only [memEvsI, memTreesI, List.map_cons, eventsMems, UTree.events, xevToUEvs, evOfPrim_tok]
    rfl
  | .oe nm p, v, _ => by
    by_cases he : isEmptyP p v = true
    · simp [memEvsI, memTreesI, he, eventsMems]
    · simp only [memEvsI, memTreesI, he, Bool.false_eq_true, if_false, List.map_cons, eventsMems, UTree.events,
        xevToUEvs, evOfPrim_tok]
      rfl
  | .sub nm T fs ut ds, v, h => by
    cases v with
    | struct vs =>
      simp only [valI] at h
      simp only [memEvsI, memTreesI, List.map_cons, List.map_append, eventsMems, UTree.events, tokensL ds vs h,
        List.map_nil, List.append_nil]
      rfl
    | _ => simp [valI] at h
  | .inl T fs ds, v, h => by
    cases v with
    | struct vs =>
      simp only [valI] at h
      simp only [memEvsI, memTreesI, tokensL ds vs h]
    | _ => simp [valI] at h
end

mutual
theorem wfL : ∀ (ds : List FT) (vs : List GoVal), valsL ds vs = true → ∀ m ∈ memTreesL ds vs, m.2.2.wf = true
  | [], [], _ => by intro m hm; simp [memTreesL] at hm
  | d :: ds, v :: vs, h => by
    obtain ⟨h1, h2⟩ := valsL_cons h
    intro m hm
    simp only [memTreesL, List.mem_append] at hm
    rcases hm with hm | hm
    · exact wfI d v h1 m hm
    · exact wfL ds vs h2 m hm
  | [], _ :: _, h => by simp [valsL] at h
  | _ :: _, [], h => by simp [valsL] at h
theorem wfI : ∀ (d : FT) (v : GoVal), valI d v = true → ∀ m ∈ memTreesI d v, m.2.2.wf = true
  | .drop p, v, _ => by intro m hm; simp [memTreesI] at hm
  | .mem nm p, v, h => by
    intro m hm
    simp only [memTreesI, List.mem_singleton] at hm
    subst hm
    exact wf_scOfPtr p v h
  | .oe nm p, v, h => by
    intro m hm
    by_cases he : isEmptyP p v = true
    · simp [memTreesI, he] at hm
    · simp only [memTreesI, he, Bool.false_eq_true, if_false, List.mem_singleton] at hm
      subst hm
      exact wf_scOfPtr p v h
  | .sub nm T fs ut ds, v, h => by
    cases v with
    | struct vs =>
      simp only [valI] at h
      intro m hm
      simp only [memTreesI, List.mem_singleton] at hm
      subst hm
      show (UTree.obj _ BT.any (memTreesL ds vs)).wf = true
      simp only [UTree.wf, wfMems_of_all _ (wfL ds vs h), Bool.and_true]
      decide
    | _ => simp [valI] at h
  | .inl T fs ds, v, h => by
    cases v with
    | struct vs =>
      simp only [valI] at h
      simpa [memTreesI] using wfL ds vs h
    | _ => simp [valI] at h
end

mutual
theorem lenML : ∀ (ds : List FT) (vs : List GoVal), (memTreesL ds vs).length ≤ wL ds
  | [], _ => by simp [memTreesL]
  | _ :: _, [] => by simp [memTreesL]
  | d :: ds, v :: vs => by
    have h1 := lenMI d v
    have h2 := lenML ds vs
    simp only [memTreesL, List.length_append, wL]
    omega
theorem lenMI : ∀ (d : FT) (v : GoVal), (memTreesI d v).length ≤ wI d
  | .drop p, v => by simp [memTreesI]
  | .mem nm p, v => by simp [memTreesI, wI]
  | .oe nm p, v => by
    by_cases he : isEmptyP p v = true <;> simp [memTreesI, wI, he]
  | .sub nm T fs ut ds, v => by
    cases v <;> simp [memTreesI, wI]
  | .inl T fs ds, v => by
    cases v <;> simp [memTreesI, wI]
    exact lenML ds _
end

/-! ## the place of an (inlined) struct inside the target -/

inductive Cx
  | top
  | inl (outer : Cx) (done rest : List Unf.GoVal)

def Cx.plug : Cx → Unf.GoVal → Unf.GoVal
  | .top, v => v
  | .inl outer done rest, v => outer.plug (.struct (done ++ v :: rest))

def Cx.path : Cx → List Nat
  | .top => []
  | .inl outer done _ => outer.path ++ [done.length]

theorem get_plug : ∀ (cx : Cx) (v : Unf.GoVal) (q : List Nat),
    (cx.plug v).get ((cx.path ++ q).map Step.field) = v.get (q.map Step.field)
  | .top, v, q => rfl
  | .inl outer done rest, v, q => by
    have := get_plug outer (.struct (done ++ v :: rest)) (done.length :: q)
    simp only [Cx.plug, Cx.path, List.append_assoc, List.singleton_append]
    rw [this]
    simp [Unf.GoVal.get]

theorem set_plug : ∀ (cx : Cx) (v : Unf.GoVal) (q : List Nat) (nv : Unf.GoVal),
    (cx.plug v).set ((cx.path ++ q).map Step.field) nv = (v.set (q.map Step.field) nv).map cx.plug
  | .top, v, q, nv => by simp [Cx.plug, Cx.path]
  | .inl outer done rest, v, q, nv => by
    have := set_plug outer (.struct (done ++ v :: rest)) (done.length :: q) nv
    simp only [Cx.plug, Cx.path, List.append_assoc, List.singleton_append]
    rw [this]
    cases hs : v.set (q.map Step.field) nv <;> simp [Unf.GoVal.set, hs, Cx.plug]

/-! ## the specification -/

theorem assign_obj_struct (tbl : Unf.TypeTable) (ip : Bool) (n : Nat) (ft : Unf.GoType) (nm : String)
    (ufs : List (String × String × Unf.GoType)) (ofs : List Unf.GoVal) (bt : Nat) (ms : List (Bytes × Unf.Spec.STree))
    (hu : ft.un tbl = .struct nm ufs) :
    assign tbl ip (n + 1) ft (.struct ofs) (.obj bt ms) =
      assignMembers tbl ip n (specFields tbl (ufs.length + 64) ufs 0) (.struct ofs) ms := by
  unfold assign
  simp only [hu]

/-- one member assigned by the specification, anywhere in the target -/
theorem assign_at (tbl : Unf.TypeTable) (ip : Bool) (sfAll : Unf.SV.SpecFields) (hnd : (sfAll.map (·.1)).Nodup)
    (cx : Cx) (nm : Bytes) (ft : Unf.GoType) (x : Unf.Spec.STree) (done rest : List Unf.GoVal) (z nv : Unf.GoVal)
    (hmem : (nm, cx.path ++ [done.length], ft) ∈ sfAll) (m : Nat) (restMs : List (Bytes × Unf.Spec.STree))
    (ha : assign tbl ip m ft z x = some nv) :
    assignMembers tbl ip (m + 1) sfAll (cx.plug (.struct (done ++ z :: rest))) ((nm, x) :: restMs) =
      assignMembers tbl ip m sfAll (cx.plug (.struct (done ++ nv :: rest))) restMs := by
  have hfind := find_of_mem_nodup sfAll nm (cx.path ++ [done.length], ft) hnd hmem
  rw [assignMembers]
  simp only [hfind]
  have hget : (cx.plug (.struct (done ++ z :: rest))).get ((cx.path ++ [done.length]).map Step.field) = some z := by
    rw [get_plug]; simp [Unf.GoVal.get]
  have hset : (cx.plug (.struct (done ++ z :: rest))).set ((cx.path ++ [done.length]).map Step.field) nv =
      some (cx.plug (.struct (done ++ nv :: rest))) := by
    rw [set_plug]; simp [Unf.GoVal.set]
  simp only [hget, ha, hset]

theorem am_nil (tbl : Unf.TypeTable) (ip : Bool) (n : Nat) (sf : Unf.SV.SpecFields) (cur : Unf.GoVal) (h : 1 ≤ n) :
    assignMembers tbl ip n sf cur [] = some cur := by
  obtain ⟨n, rfl⟩ : ∃ k, n = k + 1 := ⟨n - 1, by omega⟩
  simp [assignMembers]

theorem uokL_cons {tbl : Unf.TypeTable} {d : FT} {ds : List FT} (h : uokL tbl (d :: ds)) : uokI tbl d ∧ uokL tbl ds := by
  simpa [uokL] using h

mutual
theorem amL (tbl : Unf.TypeTable) (ip : Bool) : ∀ (ds : List FT) (vs : List GoVal), valsL ds vs = true → uokL tbl ds →
    ∀ (sfAll : Unf.SV.SpecFields), (sfAll.map (·.1)).Nodup →
    ∀ (cx : Cx) (done : List Unf.GoVal) (n : Nat) (restMs : List (Bytes × Unf.Spec.STree)),
      (∀ x ∈ sfL ds done.length cx.path, x ∈ sfAll) → wL ds + restMs.length + 2 ≤ n →
      assignMembers tbl ip n sfAll (cx.plug (.struct (done ++ zerosL ds))) (toSMems (memTreesL ds vs) ++ restMs) =
        assignMembers tbl ip (n - (memTreesL ds vs).length) sfAll (cx.plug (.struct (done ++ trL ds vs))) restMs
  | [], [], _, _, sfAll, hnd, cx, done, n, restMs, hsub, hn => by
    simp [memTreesL, toSMems, zerosL, trL]
  | d :: ds, v :: vs, hv, hu, sfAll, hnd, cx, done, n, restMs, hsub, hn => by
    obtain ⟨hv1, hv2⟩ := valsL_cons hv
    obtain ⟨hu1, hu2⟩ := uokL_cons hu
    have hl1 := lenMI d v
    have hl2 := lenML ds vs
    simp only [wL] at hn
    have hsub1 : ∀ x ∈ sfI d done.length cx.path, x ∈ sfAll := fun x hx => hsub x (by simp [sfL, hx])
    have hsub2 : ∀ x ∈ sfL ds (done ++ [trI d v]).length cx.path, x ∈ sfAll :=
      fun x hx => hsub x (by simp only [sfL, List.mem_append]; right; simpa using hx)
    have e1 := amI tbl ip d v hv1 hu1 sfAll hnd cx done (zerosL ds) n (toSMems (memTreesL ds vs) ++ restMs) hsub1
      (by simp only [List.length_append, toSMems_length]; omega)
    have e2 := amL tbl ip ds vs hv2 hu2 sfAll hnd cx (done ++ [trI d v]) (n - (memTreesI d v).length) restMs hsub2
      (by omega)
    simp only [memTreesL, toSMems_append, List.append_assoc, zerosL, trL]
    rw [e1]
    simp only [List.append_assoc, List.singleton_append] at e2
    rw [e2]
    congr 1
    simp only [List.length_append]
    omega
  | [], _ :: _, h, _, _, _, _, _, _, _, _, _ => by simp [valsL] at h
  | _ :: _, [], h, _, _, _, _, _, _, _, _, _ => by simp [valsL] at h
theorem amI (tbl : Unf.TypeTable) (ip : Bool) : ∀ (d : FT) (v : GoVal), valI d v = true → uokI tbl d →
    ∀ (sfAll : Unf.SV.SpecFields), (sfAll.map (·.1)).Nodup →
    ∀ (cx : Cx) (done rest : List Unf.GoVal) (n : Nat) (restMs : List (Bytes × Unf.Spec.STree)),
      (∀ x ∈ sfI d done.length cx.path, x ∈ sfAll) → wI d + restMs.length + 2 ≤ n →
      assignMembers tbl ip n sfAll (cx.plug (.struct (done ++ zeroI d :: rest))) (toSMems (memTreesI d v) ++ restMs) =
        assignMembers tbl ip (n - (memTreesI d v).length) sfAll (cx.plug (.struct (done ++ trI d v :: rest))) restMs
  | .drop p, v, _, _, sfAll, hnd, cx, done, rest, n, restMs, hsub, hn => by
    simp [memTreesI, toSMems, zeroI, trI]
  | .mem nm p, v, hv, _, sfAll, hnd, cx, done, rest, n, restMs, hsub, hn => by
    obtain ⟨n, rfl⟩ : ∃ k, n = k + 1 + 1 := ⟨n - 2, by omega⟩
    have hmem : (nm, cx.path ++ [done.length], uPrimTy p) ∈ sfAll := hsub _ (by simp [sfI])
    simp only [memTreesI, toSMems_cons, toSMems, List.cons_append, List.nil_append, zeroI, trI, UTree.toS,
      List.length_singleton, Nat.add_sub_cancel]
    exact assign_at tbl ip sfAll hnd cx nm _ _ done rest _ _ hmem (n + 1) restMs (assign_prim tbl ip n p _ v hv)
  | .oe nm p, v, hv, _, sfAll, hnd, cx, done, rest, n, restMs, hsub, hn => by
    by_cases he : isEmptyP p v = true
    · simp [memTreesI, toSMems, zeroI, trI, he, zero_of_empty p v he]
    · obtain ⟨n, rfl⟩ : ∃ k, n = k + 1 + 1 := ⟨n - 2, by omega⟩
      have hmem : (nm, cx.path ++ [done.length], uPrimTy p) ∈ sfAll := hsub _ (by simp [sfI])
      simp only [memTreesI, he, Bool.false_eq_true, if_false, toSMems_cons, toSMems, List.cons_append,
        List.nil_append, zeroI, trI, UTree.toS, List.length_singleton, Nat.add_sub_cancel]
      exact assign_at tbl ip sfAll hnd cx nm _ _ done rest _ _ hmem (n + 1) restMs (assign_prim tbl ip n p _ v hv)
  | .sub nm T fs ut ds, v, hv, hu, sfAll, hnd, cx, done, rest, n, restMs, hsub, hn => by
    cases v with
    | struct vs =>
      simp only [valI] at hv
      simp only [uokI] at hu
      obtain ⟨⟨unm, ufs, hun, hsf⟩, hnd', hu'⟩ := hu
      simp only [wI] at hn
      have hl := lenML ds vs
      obtain ⟨n, rfl⟩ : ∃ k, n = k + 1 + 1 := ⟨n - 2, by omega⟩
      have hmem : (nm, cx.path ++ [done.length], ut) ∈ sfAll := hsub _ (by simp [sfI])
      have hin := amL tbl ip ds vs hv hu' (sfL ds 0 []) hnd' .top [] n [] (fun x hx => hx) (by simp; omega)
      simp only [Cx.plug, List.nil_append, List.append_nil] at hin
      have ha : assign tbl ip (n + 1) ut (.struct (zerosL ds))
          (.obj BT.any (toSMems (memTreesL ds vs))) = some (.struct (trL ds vs)) := by
        rw [assign_obj_struct tbl ip n ut unm ufs _ _ _ hun, hsf, hin]
        exact am_nil _ _ _ _ _ (by omega)
      simp only [memTreesI, toSMems_cons, toSMems, List.cons_append, List.nil_append, zeroI, trI, UTree.toS,
        List.length_singleton, Nat.add_sub_cancel]
      exact assign_at tbl ip sfAll hnd cx nm _ _ done rest _ _ hmem (n + 1) restMs ha
    | _ => simp [valI] at hv
  | .inl T fs ds, v, hv, hu, sfAll, hnd, cx, done, rest, n, restMs, hsub, hn => by
    cases v with
    | struct vs =>
      simp only [valI] at hv
      simp only [uokI] at hu
      simp only [wI] at hn
      have := amL tbl ip ds vs hv hu sfAll hnd (.inl cx done rest) [] n restMs
        (by simpa [sfI, Cx.path] using hsub) hn
      simpa [memTreesI, zeroI, trI, Cx.plug] using this
    | _ => simp [valI] at hv
end

/-- the specification assigns the members of the folded object to the zero struct: the translated struct -/
theorem assign_membersN (tbl : Unf.TypeTable) (ip : Bool) (ds : List FT) (vs : List GoVal) (hv : valsL ds vs = true)
    (hu : uokL tbl ds) (hnd : ((sfL ds 0 []).map (·.1)).Nodup) :
    assignMembers tbl ip (wL ds + 2) (sfL ds 0 []) (.struct (zerosL ds)) (toSMems (memTreesL ds vs)) =
      some (.struct (trL ds vs)) := by
  have := amL tbl ip ds vs hv hu (sfL ds 0 []) hnd .top [] (wL ds + 2) [] (fun x hx => hx) (by simp)
  simp only [Cx.plug, List.nil_append, List.append_nil] at this
  rw [this]
  have := lenML ds vs
  exact am_nil _ _ _ _ _ (by omega)

/-! ## `norm` is the identity on structs of scalars and structs -/

theorem isSc_trPtrElem (p : Prim) (v : GoVal) : isSc (trPtrElem p v) = true := by cases p <;> rfl
theorem isSc_zeroPrim (p : Prim) : isSc (zeroPrim p) = true := by cases p <;> rfl
theorem norm_isSc (w : Unf.GoVal) (h : isSc w = true) : norm w = w := by
  cases w <;> simp [isSc] at h <;> rfl

theorem norm_eq_struct (g : Unf.GoVal) (ws : List Unf.GoVal) (h : norm g = .struct ws) :
    ∃ gs, g = .struct gs ∧ normList gs = ws := by
  cases g <;> simp only [norm] at h <;> first | (cases h; done) | skip
  · split at h <;> cases h
  · split at h <;> cases h
  · rename_i gs
    injection h with h
    exact ⟨gs, rfl, h⟩

mutual
theorem normIdL : ∀ (ds : List FT) (vs : List GoVal), valsL ds vs = true → normList (trL ds vs) = trL ds vs
  | [], [], _ => rfl
  | d :: ds, v :: vs, h => by
    obtain ⟨h1, h2⟩ := valsL_cons h
    simp only [trL, normList, normIdI d v h1, normIdL ds vs h2]
  | [], _ :: _, h => by simp [valsL] at h
  | _ :: _, [], h => by simp [valsL] at h
theorem normIdI : ∀ (d : FT) (v : GoVal), valI d v = true → norm (trI d v) = trI d v
  | .drop p, v, _ => norm_isSc _ (isSc_zeroPrim p)
  | .mem nm p, v, _ => norm_isSc _ (isSc_trPtrElem p v)
  | .oe nm p, v, _ => norm_isSc _ (isSc_trPtrElem p v)
  | .sub nm T fs ut ds, v, h => by
    cases v with
    | struct vs =>
      simp only [valI] at h
      simp only [trI, norm, normIdL ds vs h]
    | _ => simp [valI] at h
  | .inl T fs ds, v, h => by
    cases v with
    | struct vs =>
      simp only [valI] at h
      simp only [trI, norm, normIdL ds vs h]
    | _ => simp [valI] at h
end

mutual
theorem normInvL : ∀ (ds : List FT) (vs : List GoVal), valsL ds vs = true → ∀ gs : List Unf.GoVal,
    normList gs = trL ds vs → gs = trL ds vs
  | [], [], _, gs, h => by
    cases gs with
    | nil => rfl
    | cons g gs => simp [normList, trL] at h
  | d :: ds, v :: vs, hv, gs, h => by
    obtain ⟨h1, h2⟩ := valsL_cons hv
    cases gs with
    | nil => simp [normList, trL] at h
    | cons g gs =>
      simp only [normList, trL, List.cons.injEq] at h
      rw [trL, normInvI d v h1 g h.1, normInvL ds vs h2 gs h.2]
  | [], _ :: _, h, _, _ => by simp [valsL] at h
  | _ :: _, [], h, _, _ => by simp [valsL] at h
theorem normInvI : ∀ (d : FT) (v : GoVal), valI d v = true → ∀ g : Unf.GoVal, norm g = trI d v → g = trI d v
  | .drop p, v, _, g, h => norm_sc g _ (isSc_zeroPrim p) h
  | .mem nm p, v, _, g, h => norm_sc g _ (isSc_trPtrElem p v) h
  | .oe nm p, v, _, g, h => norm_sc g _ (isSc_trPtrElem p v) h
  | .sub nm T fs ut ds, v, hv, g, h => by
    cases v with
    | struct vs =>
      simp only [valI] at hv
      simp only [trI] at h ⊢
      obtain ⟨gs, rfl, hgs⟩ := norm_eq_struct g _ h
      rw [normInvL ds vs hv gs hgs]
    | _ => simp [valI] at hv
  | .inl T fs ds, v, hv, g, h => by
    cases v with
    | struct vs =>
      simp only [valI] at hv
      simp only [trI] at h ⊢
      obtain ⟨gs, rfl, hgs⟩ := norm_eq_struct g _ h
      rw [normInvL ds vs hv gs hgs]
    | _ => simp [valI] at hv
end

theorem norm_structN (g : Unf.GoVal) (ds : List FT) (vs : List GoVal) (hv : valsL ds vs = true)
    (h : norm g = norm (.struct (trL ds vs))) : g = .struct (trL ds vs) := by
  have h2 : norm (Unf.GoVal.struct (trL ds vs)) = .struct (trL ds vs) := by simp only [norm, normIdL ds vs hv]
  rw [h2] at h
  obtain ⟨gs, rfl, hgs⟩ := norm_eq_struct g _ h
  rw [normInvL ds vs hv gs hgs]

/-! ## the composition -/

/-- NESTED STRUCT at mirror level.  Hypotheses about the UNFOLD side of the translated type `ut` as in `struct_run`,
plus `huok`: the same facts about the struct types of the struct-typed members. -/
theorem struct_runN (o : FoldOpts) (hfail : o.failAt = none) (S : GoType) (fs : List Field) (ds : List FT)
    (vs : List GoVal) (hg : goodT [] S = true) (hu : S.under = .struct fs) (hd : descL fs ds)
    (hv : valsL ds vs = true) (hdep : tdepth S ≤ 498)
    (ut : Unf.GoType) (nm : String) (ufs : List (String × String × Unf.GoType)) (fields : Unf.Fields) (R : Unf.Reg)
    (hS : ut.un tbl = .struct nm ufs)
    (hcomp : Unf.lookupReflUnfolder tbl typeFuel [] newUnfolder.reg ut = .ok (.struct fields, R))
    (hFM : SF.UnfProofs.StructVal.FM tbl ut fields (sfL ds 0 []))
    (hnd : ((sfL ds 0 []).map (·.1)).Nodup)
    (huok : uokL tbl ds)
    (hz : Unf.zero tbl ut = .struct (zerosL ds))
    (hv0 : SF.UnfProofs.StructVal.Shaped tbl ut (Unf.zero tbl ut)) :
    ∃ c0 cells' kc', (impl o S (.struct vs)).res = .ok ∧
      setTarget tbl ut (Unf.zero tbl ut) newUnfolder = .ok c0 ∧
      feed c0 ((impl o S (.struct vs)).evs.map xevToUEvs) =
        ({ newUnfolder with target := .struct (trL ds vs), env := tbl, reg := R, cells := cells', keyCache := kc' },
          none) := by
  rw [impl_structN o hfail S fs ds vs hg hu hd hv hdep]
  have hspec := assign_membersN tbl true ds vs hv huok hnd
  obtain ⟨got, cells', kc', hrun, hn, _, _, _⟩ :=
    SF.UnfProofs.StructVal.object_into_struct_compiled 254 tbl ut fields (sfL ds 0 []) R (Unf.zero tbl ut) newUnfolder
      (structFoldLen fs (foldersL ds 0).length) BT.any (memTreesL ds vs) true _ _ hFM hv0 rfl (SF.Symbols.inv_init 0)
      (wfL ds vs hv) (by rw [hz]; exact hspec)
  have hgot := norm_structN got ds vs hv hn
  subst hgot
  refine ⟨_, cells', kc', rfl, SF.UnfProofs.StructVal.setTarget_struct tbl ut nm ufs _ newUnfolder fields R hS hcomp, ?_⟩
  have htok : (XEv.ev (.objStart (structFoldLen fs (foldersL ds 0).length) BT.any) :: memEvsL ds vs ++ [XEv.ev .objEnd]).map
      xevToUEvs = ((UTree.obj (structFoldLen fs (foldersL ds 0).length) BT.any (memTreesL ds vs)).events).map
        fun e => [e] := by
    simp only [List.map_cons, List.map_append, List.map_nil, UTree.events, tokensL ds vs hv]
    rfl
  show feed _ (List.map xevToUEvs _) = _
  rw [htok]
  exact feed_singletons _ _ _ hrun

end SF.FuId
