/-
  C11, DIRECT path (events flow from Fold straight into the Unfolder), composed statement, in the
  vocabulary of the op `fu` (SF/Ops/Fu.lean):

      Fu.model t v "direct" =
        match Tr.trType t with | some ut =>
        match setTarget fuTable ut (zero fuTable ut) newUnfolder with | .ok c0 =>
        let o := Fold.impl {folders := true} t v
        match feed c0 (o.evs.map xevToUEvs) with | (c, none) => if o.res == .ok then printFu c.target ++ "|ok" …
      Fu.oracle … = … match GoVal.parse? t final with | some got => agreeF path 1000 t v got …

  Each theorem below says, for a family of types `T` and EVERY value `v` of `T`:
    (a) `Tr.trType T = some ut`                                   (the translation exists),
    (b) `setTarget fuTable ut (zero fuTable ut) newUnfolder = .ok c0`   (fresh zero target accepted),
    (c) `(Fold.impl o T v).res = .ok`                              (the fold succeeds),
    (d) `feed c0 ((Fold.impl o T v).evs.map xevToUEvs) = (c1, none)`     (every token accepted),
    (e) `c1.target = ` the translation of `v`, explicitly (nil ≙ empty: `sliceFin` / `mapSt`),
        and `c1` is the fresh Unfolder again (all six stacks idle, nothing else changed),
    (f) `agreeF "direct" 1000 T v (back c1.target) = true`          (the oracle's comparison),
  for every `FoldOpts` with a healthy visitor (`failAt = none`; `Fu.model` uses `{folders := true}`),
  user folders registered or not, and — for maps — every order oracle `o.order` with `hintOK`.
  `back` (SF/Proofs/FuIdAgree.lean) is the reading of `GoVal.parse? t (printFu c.target)`: the
  printed form of the Unfold-side value read in the Fold universe (strings are not evaluated by
  the kernel; `back` is that composition as a structural function).
-/
import SF.Proofs.FuIdAgree
import SF.Proofs.FuIdIface
import SF.Proofs.FuIdPtr
namespace SF.Props.FuId
open SF SF.Gotype SF.Gotype.Fold SF.FoldProofs SF.FuId
open SF.Unf (Ctx newUnfolder setTarget)
open SF.Ops.Unf (xevToUEvs)
open SF.Ops.Fu (feed agreeF)

/-- STAGE 1 — scalars: bool, string, int8 … int64, int, uint8 … uint64, uint, float32, float64
(`primTy p`).  Every value `v` of the type (`hasPrim`: the right shape, integers inside the range
of their kind): exact for integers at every width (no wrap: `int` travels as `OnInt64`), BIT-exact
for floats (every NaN payload, signalling or quiet, ±0, ±Inf), any bytes for strings. -/
theorem fold_unfold_scalar (o : FoldOpts) (hfail : o.failAt = none) (p : Prim) (v : GoVal)
    (hv : hasPrim p v = true) :
    ∃ ut c0 c1,
      Unf.Tr.trType (primTy p) = some ut ∧
      setTarget Unf.Tr.fuTable ut (Unf.zero Unf.Tr.fuTable ut) newUnfolder = .ok c0 ∧
      (impl o (primTy p) v).res = .ok ∧
      feed c0 ((impl o (primTy p) v).evs.map xevToUEvs) = (c1, none) ∧
      c1.target = trPrim p v ∧
      c1 = { newUnfolder with target := trPrim p v, env := Unf.Tr.fuTable } ∧
      back c1.target = v ∧
      agreeF "direct" 1000 (primTy p) v (back c1.target) = true := by
  obtain ⟨c0, h1, h2, h3⟩ := scalar_run o hfail p v hv
  refine ⟨_, c0, _, trType_primTy p, h2, h1, h3, rfl, rfl, back_trPrim p v hv, ?_⟩
  show agreeF "direct" (999 + 1) (primTy p) v (back (trPrim p v)) = true
  rw [back_trPrim p v hv]
  exact agree_prim 999 p v hv

/-- STAGE 2a — `[]T`, `T` scalar: nil, empty, or any elements `xs` (`sliceElems?`).  Fold delivers
ONE typed-array event (`OnInt16Array` …, `[]uint8` as `OnBytes`), which reaches the Unfolder through
its expansion; the target holds exactly the translated elements, no spare capacity; nil and empty
both come back as nil (`sliceFin`). -/
theorem fold_unfold_slice (o : FoldOpts) (hfail : o.failAt = none) (p : Prim) (v : GoVal) (xs : List GoVal)
    (hv : sliceElems? v = some xs) (hxs : ∀ x ∈ xs, hasPrim p x = true) :
    ∃ ut c0 c1,
      Unf.Tr.trType (.slice (primTy p)) = some ut ∧
      setTarget Unf.Tr.fuTable ut (Unf.zero Unf.Tr.fuTable ut) newUnfolder = .ok c0 ∧
      (impl o (.slice (primTy p)) v).res = .ok ∧
      feed c0 ((impl o (.slice (primTy p)) v).evs.map xevToUEvs) = (c1, none) ∧
      c1.target = (if xs.isEmpty then .sliceNil (uPrimTy p) else .slice (uPrimTy p) (xs.map (trPrim p)) []) ∧
      c1 = { newUnfolder with target := c1.target, env := Unf.Tr.fuTable } ∧
      back c1.target = (if xs.isEmpty then .nilSlice else .slice xs) ∧
      agreeF "direct" 1000 (.slice (primTy p)) v (back c1.target) = true := by
  obtain ⟨c0, h1, h2, h3⟩ := slice_run o hfail p v xs hv hxs
  refine ⟨_, c0, _, trType_slice p, h2, h1, h3, ?_, rfl, back_sliceFin p xs hxs, agree_slice 998 p v xs hv hxs⟩
  show Unf.sliceFin _ _ = _
  unfold Unf.sliceFin
  cases xs <;> rfl

/-- STAGE 2b — `map[string]T`, `T` scalar: nil, empty, or any entries `ms` with string keys, pairwise
distinct (a Go map), under EVERY iteration order the order oracle `o.order` dictates (`hintOK`: it
mentions no key twice inside one typed map).  Fold delivers ONE typed-map event (`OnStringObject` …);
the target holds exactly the translated entries — `fin`, a permutation of them, in the order they
were delivered —; nil and empty both come back as nil (`mapSt`). -/
theorem fold_unfold_map (o : FoldOpts) (hfail : o.failAt = none) (hord : hintOK o.order) (p : Prim) (v : GoVal)
    (ms : List (GoVal × GoVal)) (hv : mapEntries? v = some ms) (hms : ∀ m ∈ ms, hasEntry p m = true)
    (hnd : (ms.map fun m => getS m.1).Nodup) :
    ∃ ut c0 c1 fin,
      Unf.Tr.trType (.map .string (primTy p)) = some ut ∧
      setTarget Unf.Tr.fuTable ut (Unf.zero Unf.Tr.fuTable ut) newUnfolder = .ok c0 ∧
      (impl o (.map .string (primTy p)) v).res = .ok ∧
      feed c0 ((impl o (.map .string (primTy p)) v).evs.map xevToUEvs) = (c1, none) ∧
      fin.Perm (ms.map fun m => (getS m.1, trPrim p m.2)) ∧
      c1.target = (if fin.isEmpty then .mapNil (uPrimTy p) else .map (uPrimTy p) fin) ∧
      c1 = { newUnfolder with target := c1.target, env := Unf.Tr.fuTable } ∧
      agreeF "direct" 1000 (.map .string (primTy p)) v (back c1.target) = true := by
  obtain ⟨c0, fin, h1, h2, hp, h3⟩ := map_run o hfail hord p v ms hv hms hnd
  exact ⟨_, c0, _, fin, trType_map p, h2, h1, h3, hp, rfl, rfl, agree_map 998 p v ms fin hv hms hnd hp⟩

/-- STAGE 3 — `interface{}` holding nil, a scalar, `[]T` or `map[string]T` (`T` scalar).  Fold folds
the dynamic value, the empty-interface target receives the stream's GENERIC value (C13, generic
clause).  "Deeply equal" here means: the same VALUE with the Go type of the events —
  * nil ↦ nil;  bool / string / floats / every sized integer kind and `uint` ↦ themselves, bit-exact;
  * `int(n)` ↦ `int64(n)` (`genPrim`: Fold reports `int` through `OnInt64`; the value is unchanged);
  * `[]T{…}` ↦ `[]T{…}` with the same elements (`[]int8` inside `interface{}` comes back as `[]int8`,
    `[]int` as `[]int`: the typed-array event announces its element type), nil / empty ↦ nil `[]T`;
  * `map[string]T{…}` ↦ `map[string]T{…}` with the same entries under ANY iteration order
    (`fin` a permutation), nil / empty ↦ nil `map[string]T`.
(The oracle compares `Rules.fold dt dv` with `gvToValF` of the received value through
`approxPath "direct"`, i.e. values with integer kinds erased and objects sorted — implied by the
explicit values below, not restated here.) -/
theorem fold_unfold_iface_nil (o : FoldOpts) (hfail : o.failAt = none) :
    ∃ ut c0 c1,
      Unf.Tr.trType .iface = some ut ∧
      setTarget Unf.Tr.fuTable ut (Unf.zero Unf.Tr.fuTable ut) newUnfolder = .ok c0 ∧
      (impl o .iface .nilIface).res = .ok ∧
      feed c0 ((impl o .iface .nilIface).evs.map xevToUEvs) = (c1, none) ∧
      c1.target = .ifcNil ∧ c1 = { newUnfolder with target := .ifcNil, env := Unf.Tr.fuTable } ∧
      agreeF "direct" 1000 .iface .nilIface (back c1.target) = true := by
  obtain ⟨c0, h1, h2, h3⟩ := iface_nil_run o hfail
  exact ⟨_, c0, _, rfl, h2, h1, h3, rfl, rfl, by decide⟩

theorem fold_unfold_iface_scalar (o : FoldOpts) (hfail : o.failAt = none) (p : Prim) (v : GoVal)
    (hv : hasPrim p v = true) :
    ∃ ut c0 c1,
      Unf.Tr.trType .iface = some ut ∧
      setTarget Unf.Tr.fuTable ut (Unf.zero Unf.Tr.fuTable ut) newUnfolder = .ok c0 ∧
      (impl o .iface (.iface (primTy p) v)).res = .ok ∧
      feed c0 ((impl o .iface (.iface (primTy p) v)).evs.map xevToUEvs) = (c1, none) ∧
      c1.target = .ifc (genPrim p v) ∧
      c1 = { newUnfolder with target := c1.target, env := Unf.Tr.fuTable } ∧
      back (genPrim p v) = v := by
  obtain ⟨c0, h1, h2, h3⟩ := iface_scalar_run o hfail p v hv
  refine ⟨_, c0, _, rfl, h2, h1, h3, rfl, rfl, ?_⟩
  cases p <;> cases v <;> simp [hasPrim] at hv <;> rfl

theorem fold_unfold_iface_slice (o : FoldOpts) (hfail : o.failAt = none) (p : Prim) (v : GoVal) (xs : List GoVal)
    (hv : sliceElems? v = some xs) (hxs : ∀ x ∈ xs, hasPrim p x = true) :
    ∃ ut c0 c1,
      Unf.Tr.trType .iface = some ut ∧
      setTarget Unf.Tr.fuTable ut (Unf.zero Unf.Tr.fuTable ut) newUnfolder = .ok c0 ∧
      (impl o .iface (.iface (.slice (primTy p)) v)).res = .ok ∧
      feed c0 ((impl o .iface (.iface (.slice (primTy p)) v)).evs.map xevToUEvs) = (c1, none) ∧
      c1.target = .ifc (if xs.isEmpty then .sliceNil (uPrimTy p) else .slice (uPrimTy p) (xs.map (trPrim p)) []) ∧
      c1 = { newUnfolder with target := c1.target, env := Unf.Tr.fuTable } := by
  obtain ⟨c0, h1, h2, h3⟩ := iface_slice_run o hfail p v xs hv hxs
  refine ⟨_, c0, _, rfl, h2, h1, h3, ?_, rfl⟩
  show Unf.GoVal.ifc (Unf.sliceFin _ _) = _
  unfold Unf.sliceFin
  cases xs <;> rfl

theorem fold_unfold_iface_map (o : FoldOpts) (hfail : o.failAt = none) (hord : hintOK o.order) (p : Prim) (v : GoVal)
    (ms : List (GoVal × GoVal)) (hv : mapEntries? v = some ms) (hms : ∀ m ∈ ms, hasEntry p m = true)
    (hnd : (ms.map fun m => getS m.1).Nodup) :
    ∃ ut c0 c1 fin,
      Unf.Tr.trType .iface = some ut ∧
      setTarget Unf.Tr.fuTable ut (Unf.zero Unf.Tr.fuTable ut) newUnfolder = .ok c0 ∧
      (impl o .iface (.iface (.map .string (primTy p)) v)).res = .ok ∧
      feed c0 ((impl o .iface (.iface (.map .string (primTy p)) v)).evs.map xevToUEvs) = (c1, none) ∧
      fin.Perm (ms.map fun m => (getS m.1, trPrim p m.2)) ∧
      c1.target = .ifc (if fin.isEmpty then .mapNil (uPrimTy p) else .map (uPrimTy p) fin) ∧
      c1 = { newUnfolder with target := c1.target, env := Unf.Tr.fuTable } := by
  obtain ⟨c0, fin, h1, h2, hp, h3⟩ := iface_map_run o hfail hord p v ms hv hms hnd
  exact ⟨_, c0, _, fin, rfl, h2, h1, h3, hp, rfl, rfl⟩

/-- STAGE 4 — `*T`, `T` scalar: nil or `&y`.  Fold takes the reflection path (`makePointerFold`):
nil ↦ `null` ↦ nil pointer; `&y` ↦ the event of `y` ↦ a pointer to a fresh cell holding the translated
`y` (the cell stays in `cells`: `reflect.New`).  Exact for every kind EXCEPT that `*float32` holding a
SIGNALLING NaN comes back QUIETED (`quiet32`: `float32(v.Float())` in `reFoldFloat32`) — the reading
"any NaN ≙ any NaN of the same width" of Rules.lean / `agreeF`.  The oracle's comparison is proved
under the side condition `hq` (the stored pointee is the translated one: always for `T ≠ float32`,
for `float32` iff the value is no signalling NaN). -/
theorem fold_unfold_ptr (o : FoldOpts) (hfail : o.failAt = none) (p : Prim) (v : GoVal) (hv : hasPtr p v = true) :
    ∃ ut c0 c1,
      Unf.Tr.trType (.ptr (primTy p)) = some ut ∧
      setTarget Unf.Tr.fuTable ut (Unf.zero Unf.Tr.fuTable ut) newUnfolder = .ok c0 ∧
      (impl o (.ptr (primTy p)) v).res = .ok ∧
      feed c0 ((impl o (.ptr (primTy p)) v).evs.map xevToUEvs) = (c1, none) ∧
      c1.target = (match trPtr p v with | none => .ptrNil (uPrimTy p) | some w => .ptr (uPrimTy p) w) ∧
      c1 = { newUnfolder with target := c1.target, env := Unf.Tr.fuTable, cells := c1.cells } ∧
      c1.depths = [0, 0, 0, 0, 0, 0] ∧
      ((∀ y, v = .ptr y → trPtrElem p y = trPrim p y) →
        agreeF "direct" 1000 (.ptr (primTy p)) v (back c1.target) = true) := by
  obtain ⟨c0, h1, h2, h3⟩ := ptr_run o hfail p v hv
  have htr : Unf.Tr.trType (.ptr (primTy p)) = some (.ptr (uPrimTy p)) := by cases p <;> rfl
  refine ⟨_, c0, _, htr, h2, h1, h3, ?_, ?_, ?_, ?_⟩
  · cases v <;> rfl
  · cases v <;> rfl
  · cases v <;> rfl
  · intro hq
    have := agree_ptr 998 p v hv hq
    cases v <;> exact this

/-- `hq` holds for every pointee type but float32, and for float32 values that are no NaN at all -/
theorem ptr_side_condition (p : Prim) (y : GoVal) (h : p ≠ .f32 ∨ isNaN32 (getF32 y) = false) :
    trPtrElem p y = trPrim p y := by
  cases p <;> first | rfl | skip
  rcases h with h | h
  · exact absurd rfl h
  · simp [trPtrElem, trPrim, quiet32, h]

/-! ## non-vacuity: the pipeline of `Fu.model … "direct"`, evaluated by the kernel -/

/-- the final target of the `fu` model on the direct path -/
def pipe (o : FoldOpts) (T : GoType) (v : GoVal) : Option Unf.GoVal :=
  match Unf.Tr.trType T with
  | none => none
  | some ut =>
    match setTarget Unf.Tr.fuTable ut (Unf.zero Unf.Tr.fuTable ut) newUnfolder with
    | .error _ => none
    | .ok c0 =>
      match feed c0 ((impl o T v).evs.map xevToUEvs) with
      | (c1, none) => if (impl o T v).res == .ok then some c1.target else none
      | _ => none

/- stage 1: `uint64` MaxUint64, `int64` MinInt64, `int` through OnInt64, a SIGNALLING float32 NaN with
payload (bit-exact), float64 -0 -/
example : hasPrim (.num .u64) (.int 18446744073709551615) = true ∧
    hasPrim (.num .i64) (.int (-9223372036854775808)) = true ∧ hasPrim .f32 (.f32 0x7fa00001) = true ∧
    (match pipe {} (.int .u64) (.int 18446744073709551615) with
     | some (.int .u64 18446744073709551615) => true | _ => false) = true ∧
    (match pipe {} (.int .i64) (.int (-9223372036854775808)) with
     | some (.int .i64 (-9223372036854775808)) => true | _ => false) = true ∧
    (match pipe {} (.int .int) (.int (-7)) with
     | some (.int .int (-7)) => true | _ => false) = true ∧
    (match pipe {} .float32 (.f32 0x7fa00001) with
     | some (.f32 0x7fa00001) => true | _ => false) = true ∧
    (match pipe {} .float64 (.f64 0x8000000000000000) with
     | some (.f64 0x8000000000000000) => true | _ => false) = true := by decide +kernel

/- stage 2a: `[]int16{-200, 0, 32767}`, `[]uint8{0, 255}` (through OnBytes), nil `[]string`, empty `[]bool` -/
example : (∀ x ∈ [GoVal.int (-200), .int 0, .int 32767], hasPrim (.num .i16) x = true) ∧
    (match pipe {} (.slice (.int .i16)) (.slice [.int (-200), .int 0, .int 32767]) with
     | some (.slice (.int .i16) [.int .i16 (-200), .int .i16 0, .int .i16 32767] []) => true | _ => false) = true ∧
    (match pipe {} (.slice (.int .u8)) (.slice [.int 0, .int 255]) with
     | some (.slice (.int .u8) [.int .u8 0, .int .u8 255] []) => true | _ => false) = true ∧
    (match pipe {} (.slice .string) .nilSlice with
     | some (.sliceNil .string) => true | _ => false) = true ∧
    (match pipe {} (.slice .bool) (.slice []) with
     | some (.sliceNil .bool) => true | _ => false) = true := by decide +kernel

/- stage 2b: `map[string]string{"a":"b", "b":"c"}` under an order oracle that asks for "b" first: the
target holds both entries, in the delivered order; `hintOK` holds for that oracle -/
example : (match pipe { order := [.strObj [([98], []), ([97], [])]] } (.map .string .string)
      (.map [(.str [97], .str [98]), (.str [98], .str [99])]) with
    | some (.map .string [([98], .str [99]), ([97], .str [98])]) => true
    | _ => false) = true ∧
    (match pipe {} (.map .string (.int .i8)) .nilMap with
     | some (.mapNil (.int .i8)) => true | _ => false) = true := by decide +kernel
example : hintOK [.strObj [([98], []), ([97], [])]] := by
  intro x hx ks hk
  simp at hx; subst hx
  simp [objKeys] at hk; subst hk
  decide

/- stage 3: `interface{}(int(5))` comes back as `int64(5)`, `interface{}([]int8{-1, 1})` as `[]int8`,
`interface{}(map[string]float32{"k": sNaN})` as `map[string]float32` with the payload kept, nil as nil -/
example : (match pipe {} .iface (.iface (.int .int) (.int 5)) with
     | some (.ifc (.int .i64 5)) => true | _ => false) = true ∧
    (match pipe {} .iface (.iface (.slice (.int .i8)) (.slice [.int (-1), .int 1])) with
     | some (.ifc (.slice (.int .i8) [.int .i8 (-1), .int .i8 1] [])) => true | _ => false) = true ∧
    (match pipe {} .iface (.iface (.map .string .float32) (.map [(.str [107], .f32 0x7fa00001)])) with
     | some (.ifc (.map .float32 [([107], .f32 0x7fa00001)])) => true | _ => false) = true ∧
    (match pipe {} .iface .nilIface with
     | some .ifcNil => true | _ => false) = true := by decide +kernel

/- stage 4: `*int32` nil and `&(-5)`, `*string`; `*float32` holding the signalling NaN 0x7fa00001 comes
back as the QUIET NaN 0x7fe00001 — the counterexample to bit-exactness behind pointers -/
example : hasPtr (.num .i32) (.ptr (.int (-5))) = true ∧ hasPtr .f32 (.ptr (.f32 0x7fa00001)) = true ∧
    (match pipe {} (.ptr (.int .i32)) .nilPtr with
     | some (.ptrNil (.int .i32)) => true | _ => false) = true ∧
    (match pipe {} (.ptr (.int .i32)) (.ptr (.int (-5))) with
     | some (.ptr (.int .i32) (.int .i32 (-5))) => true | _ => false) = true ∧
    (match pipe {} (.ptr .string) (.ptr (.str [104, 105])) with
     | some (.ptr .string (.str [104, 105])) => true | _ => false) = true ∧
    (match pipe {} (.ptr .float32) (.ptr (.f32 0x7fa00001)) with
     | some (.ptr .float32 (.f32 0x7fe00001)) => true | _ => false) = true := by decide +kernel

end SF.Props.FuId
