/-
  C04 for the JSON parser mirror: reading a text token by token.  `Reads p w es Q F`: from
  state `p` the text `w` — whatever follows it, subject to `F` — is read WITHOUT ERROR,
  delivers exactly the events `es`, and leaves the parser in a state of class `Q` with what
  follows still to be read.  (The visitor does not fail: `failAt = none`.)
-/
import SF.Proofs.JsonTrunc
import SF.Proofs.JsonRefineSem
set_option linter.unusedSimpArgs false
namespace SF.Json.ParseP
open SF SF.Json SF.Json.Parse SF.Json.Float SF.Json.Grammar

/-- in state `c` with stack `S`, well-formed, clean, with a visitor that does not fail -/
def AtN (p : P) (c : St) (S : List St) : Prop := At p c S ∧ p.failAt = none

/-- about to read a value, with a visitor that does not fail -/
def ReadyN (p : P) (r : St) (S : List St) : Prop := ValueReady p r S ∧ p.failAt = none

def Reads (p : P) (w : Bytes) (es : List Ev) (Q : P → Prop) (F : Bytes → Prop) : Prop :=
  ∀ more, F more → ∃ p1, Q p1 ∧ p1.evs = es.reverse ++ p.evs ∧ runA p (w ++ more) = runA p1 more

theorem reads_seq {p : P} {w1 w2 : Bytes} {es1 es2 : List Ev} {Q Q' : P → Prop} {F1 F2 : Bytes → Prop}
    (h1 : Reads p w1 es1 Q F1) (h2 : ∀ p1, Q p1 → Reads p1 w2 es2 Q' F2)
    (hF : ∀ more, F2 more → F1 (w2 ++ more)) : Reads p (w1 ++ w2) (es1 ++ es2) Q' F2 := by
  intro more hm
  rw [List.append_assoc]
  obtain ⟨p1, q1, e1, r1⟩ := h1 (w2 ++ more) (hF more hm)
  obtain ⟨p2, q2, e2, r2⟩ := h2 p1 q1 more hm
  exact ⟨p2, q2, by rw [e2, e1]; simp, by rw [r1, r2]⟩

theorem reads_weaken {p : P} {w : Bytes} {es : List Ev} {Q : P → Prop} {F : Bytes → Prop}
    (h : Reads p w es Q anyF) : Reads p w es Q F := fun more _ => h more trivial

theorem reads_ws {p : P} {ws w : Bytes} {es : List Ev} {Q : P → Prop} {F : Bytes → Prop} (hinv : Inv p)
    (ht : trims p.currentState = true) (hws : allWs ws = true) (h : Reads p w es Q F) :
    Reads p (ws ++ w) es Q F := by
  intro more hm
  rw [List.append_assoc, runA_skip p ws _ hinv ht hws]
  exact h more hm

theorem reads_move {p q : P} {x : UInt8} {w : Bytes} {es : List Ev} {Q : P → Prop} {F : Bytes → Prop} (hwf : WF p)
    (h : ∀ t, ∃ rep, execStep p (x :: t) = ({ p := q, rest := x :: t, reported := rep, err := none }, false))
    (he : q.evs = p.evs) (hl : Reads q (x :: w) es Q F) : Reads p (x :: w) es Q F := by
  intro more hm
  obtain ⟨rep, hs⟩ := h (w ++ more)
  rw [List.cons_append, runA_move p q _ (by simp) hwf rep hs]
  obtain ⟨p1, q1, e1, r1⟩ := hl more hm
  exact ⟨p1, q1, by rw [e1, he], r1⟩

/-- a step that takes the non-empty `w` off the front, without error -/
theorem reads_of_step (p : P) (w : Bytes) (hw : w ≠ []) (es : List Ev) (Q : P → Prop) (F : Bytes → Prop)
    (hwf : WF p)
    (h : ∀ more, F more → ∃ q rep,
      execStep p (w ++ more) = ({ p := q, rest := more, reported := rep, err := none }, false) ∧
      q.evs = es.reverse ++ p.evs ∧ (WF q → Q q)) :
    Reads p w es Q F := by
  intro more hm
  obtain ⟨q, rep, he, hev, hq⟩ := h more hm
  have hne : w ++ more ≠ [] := by intro hc; exact hw (List.append_eq_nil_iff.mp hc).1
  have hs := runA_of_step p (w ++ more) hne hwf.inv q more none rep he
  have hq' : WF q := by
    have := (execStep_wf p (w ++ more) hne hwf).2
    rw [he] at this; exact this
  exact ⟨q, hq hq', hev, hs.1 rfl⟩

theorem visit_none (p : P) (e : Ev) (h : p.failAt = none) :
    visit p e = ({ p with evs := e :: p.evs, nevs := p.nevs + 1 }, none) := by
  simp [visit, h]

/-! ## brackets, commas, colons -/

theorem reads_lbrack {p : P} {r : St} {S : List St} (h : ReadyN p r S) :
    Reads p [0x5b] [.arrStart (-1) BT.any] (fun q => AtN q .arrState (r :: S)) anyF := by
  obtain ⟨c, hat, _, _⟩ := h.1.at
  have hr := isRet_pushOk h.1.1
  apply reads_of_step p [0x5b] (by simp) _ _ _ hat.wf
  intro more _
  have e1 := stepValue_lbrack p r more
  rw [pushState_ret p r _ hr, visit_none _ _ (by exact h.2)] at e1
  obtain ⟨rep, he⟩ := h.1.step (0x5b :: more) _ more false _ e1
  exact ⟨_, rep, he, rfl, fun hq => ⟨⟨hq, hat.clean, rfl, by simp only [hat.st]⟩, h.2⟩⟩

theorem reads_lbrace {p : P} {r : St} {S : List St} (h : ReadyN p r S) :
    Reads p [0x7b] [.objStart (-1) BT.any] (fun q => AtN q .dictState (r :: S)) anyF := by
  obtain ⟨c, hat, _, _⟩ := h.1.at
  have hr := isRet_pushOk h.1.1
  apply reads_of_step p [0x7b] (by simp) _ _ _ hat.wf
  intro more _
  have e1 := stepValue_lbrace p r more
  rw [pushState_ret p r _ hr, visit_none _ _ (by exact h.2)] at e1
  obtain ⟨rep, he⟩ := h.1.step (0x7b :: more) _ more false _ e1
  exact ⟨_, rep, he, rfl, fun hq => ⟨⟨hq, hat.clean, rfl, by simp only [hat.st]⟩, h.2⟩⟩

theorem reads_rbrack {p : P} {c r : St} {S : List St} (h : AtN p c (r :: S))
    (hc : c = .arrState ∨ c = .arrStateNext) : Reads p [0x5d] [.arrEnd] (fun q => AtN q r S) anyF := by
  apply reads_of_step p [0x5d] (by simp) _ _ _ h.1.wf
  intro more _
  have hv : visit (popState p) .arrEnd =
      (({ p with currentState := r, states := S, evs := .arrEnd :: p.evs, nevs := p.nevs + 1 } : P), none) := by
    rw [popState_cons p r S h.1.st, visit_none _ _ (by exact h.2)]
  refine ⟨{ p with currentState := r, states := S, evs := .arrEnd :: p.evs, nevs := p.nevs + 1 }, true, ?_, rfl,
    fun hq => ⟨⟨hq, h.1.clean, rfl, rfl⟩, h.2⟩⟩
  rw [List.singleton_append]
  rcases hc with rfl | rfl
  · unfold execStep; rw [h.1.cs]; simp only [stepArray]; rw [trimLeft_ns _ (by decide)]
    simp only [endArray, hv]; rfl
  · unfold execStep; rw [h.1.cs]; simp only [stepArrValueEnd]; rw [trimLeft_ns _ (by decide)]
    simp only [endArray, hv]; rfl

theorem reads_rbrace {p : P} {c r : St} {S : List St} (h : AtN p c (r :: S))
    (hc : c = .dictState ∨ c = .dictFieldStateEnd) : Reads p [0x7d] [.objEnd] (fun q => AtN q r S) anyF := by
  apply reads_of_step p [0x7d] (by simp) _ _ _ h.1.wf
  intro more _
  have hv : visit (popState p) .objEnd =
      (({ p with currentState := r, states := S, evs := .objEnd :: p.evs, nevs := p.nevs + 1 } : P), none) := by
    rw [popState_cons p r S h.1.st, visit_none _ _ (by exact h.2)]
  refine ⟨{ p with currentState := r, states := S, evs := .objEnd :: p.evs, nevs := p.nevs + 1 }, true, ?_, rfl,
    fun hq => ⟨⟨hq, h.1.clean, rfl, rfl⟩, h.2⟩⟩
  rw [List.singleton_append]
  rcases hc with rfl | rfl
  · unfold execStep; rw [h.1.cs]; simp only [stepDict]; rw [trimLeft_ns _ (by decide)]
    simp only [endDict, hv]; rfl
  · unfold execStep; rw [h.1.cs]; simp only [stepDictValueEnd]; rw [trimLeft_ns _ (by decide)]
    simp only [endDict, hv]; rfl

theorem atN_setCs {p : P} {c c' : St} {S : List St} (h : AtN p c S) (hq : WF { p with currentState := c' }) :
    AtN { p with currentState := c' } c' S := ⟨at_setCs h.1 hq, h.2⟩

theorem reads_comma_arr {p : P} {S : List St} (h : AtN p .arrStateNext S) :
    Reads p [0x2c] [] (fun q => AtN q .arrStateValue S) anyF := by
  apply reads_of_step p [0x2c] (by simp) _ _ _ h.1.wf
  intro more _
  refine ⟨{ p with currentState := .arrStateValue }, false, ?_, rfl, fun hq => atN_setCs h hq⟩
  rw [List.singleton_append]
  unfold execStep; rw [h.1.cs]; simp only [stepArrValueEnd]; rw [trimLeft_ns _ (by decide)]; rfl

theorem reads_comma_obj {p : P} {S : List St} (h : AtN p .dictFieldStateEnd S) :
    Reads p [0x2c] [] (fun q => AtN q .dictNextFieldState S) anyF := by
  apply reads_of_step p [0x2c] (by simp) _ _ _ h.1.wf
  intro more _
  refine ⟨{ p with currentState := .dictNextFieldState }, false, ?_, rfl, fun hq => atN_setCs h hq⟩
  rw [List.singleton_append]
  unfold execStep; rw [h.1.cs]; simp only [stepDictValueEnd]; rw [trimLeft_ns _ (by decide)]; rfl

theorem reads_colon {p : P} {S : List St} (h : AtN p .dictFieldValueSep S) :
    Reads p [0x3a] [] (fun q => AtN q .dictFieldValue S) anyF := by
  apply reads_of_step p [0x3a] (by simp) _ _ _ h.1.wf
  intro more _
  refine ⟨{ p with currentState := .dictFieldValue }, false, ?_, rfl, fun hq => atN_setCs h hq⟩
  rw [List.singleton_append]
  unfold execStep; rw [h.1.cs]; simp only; rw [trimLeft_ns _ (by decide)]; rfl

/-! ## literals -/

theorem reads_lit_aux {p : P} {r : St} {S : List St} (h : ReadyN p r S) (kind : String) (err : Err) (ev : Ev)
    (litSt : St) (c : UInt8) (tl : Bytes) (hk : strBytes kind = c :: tl)
    (hdisp : ∀ b, stepValue p (c :: b) r =
      stepLit { pushState { p with currentState := r } litSt with required := tl.length } b kind err ev) :
    Reads p (c :: tl) [ev] (fun q => AtN q r S) anyF := by
  obtain ⟨c0, hat, _, _⟩ := h.1.at
  have hpush := pushState_ret p r litSt (isRet_pushOk h.1.1)
  apply reads_of_step p (c :: tl) (by simp) _ _ _ hat.wf
  intro more _
  have e1 := hdisp (tl ++ more)
  rw [stepLit_word _ kind err ev c tl more hk rfl, hpush, popState_cons _ r p.states rfl,
    visit_none _ _ (by exact h.2)] at e1
  obtain ⟨rep, he⟩ := h.1.step (c :: tl ++ more) _ more true _ e1
  exact ⟨_, rep, he, rfl, fun hq => ⟨⟨hq, hat.clean, rfl, hat.st⟩, h.2⟩⟩

theorem reads_lit {p : P} {r : St} {S : List St} (h : ReadyN p r S) (k : LitK) :
    Reads p k.word [litEv k] (fun q => AtN q r S) anyF := by
  cases k with
  | null =>
    exact reads_lit_aux h "null" .expectedNull .null .nullState 0x6e [0x75, 0x6c, 0x6c] kind_null
      (by intro b; unfold stepValue; rw [trimLeft_ns _ (by decide)]; rfl)
  | tru =>
    exact reads_lit_aux h "true" .expectedTrue (.bool true) .trueState 0x74 [0x72, 0x75, 0x65] kind_true
      (by intro b; unfold stepValue; rw [trimLeft_ns _ (by decide)]; rfl)
  | fals =>
    exact reads_lit_aux h "false" .expectedFalse (.bool false) .falseState 0x66 [0x61, 0x6c, 0x73, 0x65]
      kind_false (by intro b; unfold stepValue; rw [trimLeft_ns _ (by decide)]; rfl)

/-! ## strings and keys -/

theorem strVal_bodyOk (raw s : Bytes) (h : strVal raw = some s) : bodyOk raw = true := by
  simp [bodyOk, (strVal_unquote raw s h).2]

theorem reads_str {p : P} {r : St} {S : List St} (h : ReadyN p r S) (raw s : Bytes) (hs : strVal raw = some s) :
    Reads p (0x22 :: (raw ++ [0x22])) [.str s] (fun q => AtN q r S) anyF := by
  obtain ⟨c0, hat, _, _⟩ := h.1.at
  have hpush := pushState_ret { p with literalBuffer := [] } r .stringState (isRet_pushOk h.1.1)
  simp only at hpush
  apply reads_of_step p _ (by simp) _ _ _ hat.wf
  intro more _
  have e1 := stepValue_quote p r (raw ++ 0x22 :: more)
  rw [hpush] at e1
  unfold stepString at e1
  rw [doString_body _ rfl rfl raw more (strVal_bodyOk raw s hs), (strVal_unquote raw s hs).1] at e1
  simp only [Bool.true_and, Option.isNone_none, if_true] at e1
  rw [popState_cons _ r p.states rfl, visit_none _ _ (by exact h.2)] at e1
  have e0 : (0x22 :: (raw ++ [0x22]) ++ more : Bytes) = 0x22 :: (raw ++ 0x22 :: more) := by simp
  rw [e0]
  obtain ⟨rep, he⟩ := h.1.step _ _ _ _ _ e1
  exact ⟨_, rep, he, rfl, fun hq => ⟨⟨hq, ⟨rfl, rfl⟩, rfl, hat.st⟩, h.2⟩⟩

theorem reads_key {p : P} {S : List St} (h : AtN p .dictFieldState S) (key k : Bytes) (hs : strVal key = some k) :
    Reads p (0x22 :: (key ++ [0x22])) [.key k] (fun q => AtN q .dictFieldValueSep S) anyF := by
  have hE : ∀ b, execStep p b = (stepDictKey p b, false) := by
    intro b; unfold execStep; rw [h.1.cs]
  apply reads_of_step p _ (by simp) _ _ _ h.1.wf
  intro more _
  have e0 : (0x22 :: (key ++ [0x22]) ++ more : Bytes) = 0x22 :: (key ++ 0x22 :: more) := by simp
  rw [e0, hE]
  unfold stepDictKey
  rw [doString_body p h.1.clean.1 h.1.clean.2 key more (strVal_bodyOk key k hs), (strVal_unquote key k hs).1]
  simp only [Bool.true_and, Option.isNone_none, if_true]
  rw [visit_none _ _ (by exact h.2)]
  exact ⟨_, _, rfl, rfl, fun hq => ⟨⟨hq, ⟨h.1.clean.1, rfl⟩, rfl, h.1.st⟩, h.2⟩⟩

/-! ## numbers -/

/-- a number followed by a stop character -/
theorem reads_num {p : P} {r : St} {S : List St} (h : ReadyN p r S) (tok : Bytes) (hb : tokOk tok = true) (ev : Ev)
    (hev : numEv tok = some ev) : Reads p tok [ev] (fun q => AtN q r S) stopF := by
  obtain ⟨c0, hat, _, _⟩ := h.1.at
  cases tok with
  | nil => simp [tokOk] at hb
  | cons a tl =>
    simp only [tokOk, Bool.and_eq_true] at hb
    obtain ⟨ha, hall⟩ := hb
    have hpush := pushState_ret { p with isDouble := false, literalBuffer := [] } r .numberState (isRet_pushOk h.1.1)
    simp only at hpush
    apply reads_of_step p _ (by simp) _ _ _ hat.wf
    intro more hm
    obtain ⟨c, t, rfl, hc⟩ := hm
    obtain ⟨k1, k2, k3⟩ := scan_tok_stop (a :: tl) c t false hall hc
    have k4 := scan_dbl_stop (a :: tl) c t false hall hc
    have e1 := stepValue_num p r a (tl ++ c :: t) ha
    rw [hpush, stepNumber_done _ _ k3] at e1
    simp only [List.cons_append] at k1 k2 k4 e1 ⊢
    simp only [k1, k2, k4, List.nil_append, Bool.false_or] at e1
    rw [reportNumber_numEv _ (a :: tl) ev hev, visit_none _ _ (by exact h.2), popState_cons _ r p.states rfl] at e1
    obtain ⟨rep, he⟩ := h.1.step _ _ _ _ _ e1
    exact ⟨_, rep, he, rfl, fun hq => ⟨⟨hq, ⟨rfl, hat.clean.2⟩, rfl, hat.st⟩, h.2⟩⟩

/-- a number and then the end of the input: the token is buffered (and `finalize` converts it) -/
theorem run_num_pending {p : P} {r : St} {S : List St} (h : ReadyN p r S) (tok : Bytes) (hb : tokOk tok = true) :
    runA p tok = ({ p with isDouble := isDblTok tok, literalBuffer := tok, states := r :: p.states,
                           currentState := .numberState }, none) := by
  obtain ⟨c0, hat, _, _⟩ := h.1.at
  cases tok with
  | nil => simp [tokOk] at hb
  | cons a tl =>
    simp only [tokOk, Bool.and_eq_true] at hb
    obtain ⟨ha, hall⟩ := hb
    have hpush := pushState_ret { p with isDouble := false, literalBuffer := [] } r .numberState (isRet_pushOk h.1.1)
    simp only at hpush
    have e1 := stepValue_num p r a tl ha
    rw [hpush, stepNumber_more _ _ (scan_tok_all _ _ hall)] at e1
    simp only [scan_dbl_all _ _ hall, Bool.false_or, List.nil_append] at e1
    obtain ⟨rep, he⟩ := h.1.step _ _ _ _ _ e1
    exact run_of_last_step p (a :: tl) (by simp) hat.wf _ rep he

end SF.Json.ParseP
