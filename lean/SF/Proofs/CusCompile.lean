/-
  The compile phase of the mirror (`getReflectFold` …) on good types with custom code, one level
  at a time (cf. FoldCompile): plain heads compile as before; a type with a custom folder and a
  pointer to one compile to a LEAF (`folderIfc`, `userVal`, `userPtr`).
-/
import SF.Proofs.CusUniv
import SF.Proofs.FoldCompile
namespace SF.FoldProofs.Custom
open SF SF.Gotype SF.Gotype.Fold

variable {reg : Bool}

/-- a good type is not under compilation -/
theorem not_open {op : Open} {sn : List String} {T : GoType} (h : goodC reg sn T = true) (hop : OpIn op sn) :
    (T.menagerieName?.map op.norm.contains).getD false = false := by
  cases T <;> try rfl
  · rename_i n m u
    simp only [GoType.menagerieName?, Option.map_some, Option.getD_some]
    have hn : ¬ n ∈ sn := name_fresh h
    have : ¬ n ∈ op.norm := fun hx => hn (hop.1 n hx)
    simpa using this
  · simp [goodC] at h

theorem grf_good (cf : Nat) (o : FoldOpts) (op : Open) (hreg : o.folders = reg) {sn : List String} {T : GoType}
    (h : goodC reg sn T = true) (hpl : plainT reg T = true) (hop : OpIn op sn) :
    getReflectFold (cf + 1) o op T =
      match getReflectFoldPrimitive T with
      | some f => .ok f
      | none =>
        match (generalizing := false) T.under with
        | .ptr _ => getFoldPointer cf o (op.enter T) T
        | .struct fs => getReflectFoldStruct cf o (op.enter T) fs false
        | .map _ _ => getReflectFoldMap cf o (op.enter T) T
        | .slice _ | .array _ _ => getReflectFoldSlice cf o (op.enter T) T
        | .iface => .ok .ifaceElem
        | _ => getReflectFoldPrimitiveKind T := by
  have h1 : isC1 reg T = false := by
    simp only [plainT, Bool.and_eq_true, Bool.not_eq_true'] at hpl; exact hpl.1
  unfold getReflectFold
  simp only [whnf_good h, userReg_good hreg h hpl, not_open h hop, Bool.false_eq_true, if_false,
    implementsFolder_good h hpl, implementsPtrFolder_good h h1, Bool.or_self]
  cases getReflectFoldPrimitive T with
  | some f => rfl
  | none =>
    simp only []
    cases T.under <;> rfl

theorem good_of_prim {sn : List String} {T : GoType} {p : Prim} (h : primOf? T = some p) :
    goodC reg sn T = true := by
  cases T <;> simp_all [primOf?, goodC]

theorem plain_of_prim {T : GoType} {p : Prim} (h : primOf? T = some p) : plainT reg T = true :=
  plain_unnamed (unnamed_of_prim h) (by intro e he; subst he; simp [primOf?] at h)

/-- a named type whose underlying type is of primitive kind, or a primitive type -/
theorem plain_of_under_nonptr {sn : List String} {T : GoType} (hg : goodC reg sn T = true)
    (h1 : isC1 reg T = false) (hu : ∀ e, T.under ≠ .ptr e) : plainT reg T = true :=
  plain_of_notC1 h1 (by intro e he; subst he; exact hu e rfl)

/-- a type of primitive kind (named or not) -/
theorem grf_primkind (cf : Nat) (o : FoldOpts) (op : Open) (hreg : o.folders = reg) {sn : List String}
    {T : GoType} {p : Prim}
    (hg : goodC reg sn T = true) (hpl : plainT reg T = true) (hop : OpIn op sn) (h : primOf? T.under = some p) :
    getReflectFold (cf + 1) o op T = .ok (.prim p) := by
  rw [grf_good cf o op hreg hg hpl hop]
  cases T <;> first
    | (simp only [GoType.under, primOf?, Option.some.injEq, reduceCtorEq] at h; subst h; rfl)
    | (simp only [GoType.under] at h
       rename_i n m u
       have hu : unnamedHead u = true := (good_named_under hg).2
       simp only [getReflectFoldPrimitive, primOf?, Option.map_none, GoType.under]
       cases u <;> first
         | (simp only [primOf?, Option.some.injEq, reduceCtorEq] at h; subst h; rfl)
         | (simp [primOf?] at h; done)
         | (simp [unnamedHead] at hu))
    | (simp [GoType.under, primOf?] at h; done)
    | (simp [goodC] at hg)

theorem grf_slice_prim (cf : Nat) (o : FoldOpts) (op : Open) (hreg : o.folders = reg) {e : GoType} {p : Prim}
    (h : primOf? e = some p) :
    getReflectFold (cf + 1) o op (.slice e) = .ok (.arrPrim p) := by
  rw [grf_good cf o op hreg (T := .slice e) (by simpa [goodC] using good_of_prim h)
    (plain_unnamed rfl (by intro e he; cases he)) (OpIn_self op)]
  simp [getReflectFoldPrimitive, h]

theorem grf_map_prim (cf : Nat) (o : FoldOpts) (op : Open) (hreg : o.folders = reg) {e : GoType} {p : Prim}
    (h : primOf? e = some p) :
    getReflectFold (cf + 1) o op (.map .string e) = .ok (.mapPrim p) := by
  rw [grf_good cf o op hreg (T := .map .string e) (by simpa [goodC] using good_of_prim h)
    (plain_unnamed rfl (by intro e he; cases he)) (OpIn_self op)]
  simp [getReflectFoldPrimitive, h]

theorem grf_slice (cf : Nat) (o : FoldOpts) (op : Open) (hreg : o.folders = reg) {sn : List String} {T e : GoType}
    (hg : goodC reg sn T = true) (hpl : plainT reg T = true) (hop : OpIn op sn) (hu : T.under = .slice e)
    (hn : noPrimitive T) :
    getReflectFold (cf + 2) o op T =
      match getReflectFold cf o (op.enter T) e with
      | .error x => .error x
      | .ok el => .ok (.slice el) := by
  rw [grf_good (cf + 1) o op hreg hg hpl hop, hn]
  simp only [hu]
  rw [getReflectFoldSlice, elem_of_under.1 e hu]
  rfl

theorem grf_array (cf : Nat) (o : FoldOpts) (op : Open) (hreg : o.folders = reg) {sn : List String} {T e : GoType}
    {n : Nat}
    (hg : goodC reg sn T = true) (hpl : plainT reg T = true) (hop : OpIn op sn) (hu : T.under = .array n e) :
    getReflectFold (cf + 2) o op T =
      match getReflectFold cf o (op.enter T) e with
      | .error x => .error x
      | .ok el => .ok (.slice el) := by
  have hn : noPrimitive T := by
    cases T <;> first | rfl | (simp [GoType.under] at hu; done) | (simp [goodC] at hg)
  rw [grf_good (cf + 1) o op hreg hg hpl hop, hn]
  simp only [hu]
  rw [getReflectFoldSlice, elem_of_under.2.1 n e hu]
  rfl

theorem grf_iface (cf : Nat) (o : FoldOpts) (op : Open) (hreg : o.folders = reg) {sn : List String} {T : GoType}
    (hg : goodC reg sn T = true) (hpl : plainT reg T = true) (hop : OpIn op sn) (hu : T.under = .iface) :
    getReflectFold (cf + 1) o op T = .ok .ifaceElem := by
  have hn : noPrimitive T := by
    cases T <;> first | rfl | (simp [GoType.under] at hu; done) | (simp [goodC] at hg)
  rw [grf_good cf o op hreg hg hpl hop, hn]
  simp only [hu]

theorem grf_unsupported (cf : Nat) (o : FoldOpts) (op : Open) (hreg : o.folders = reg) {sn : List String}
    {T : GoType}
    (hg : goodC reg sn T = true) (hpl : plainT reg T = true) (hop : OpIn op sn)
    (hu : (∃ e, T.under = .chan e) ∨ (∃ k, T.under = .other k)) :
    getReflectFold (cf + 1) o op T = .error (.err .unsupported) := by
  have hn : noPrimitive T := by
    cases T <;> first | rfl | (simp [GoType.under] at hu; done) | (simp [goodC] at hg)
  rw [grf_good cf o op hreg hg hpl hop, hn]
  rcases hu with ⟨e, hu⟩ | ⟨k, hu⟩ <;> simp [hu, getReflectFoldPrimitiveKind, primOf?]

theorem grf_map (cf : Nat) (o : FoldOpts) (op : Open) (hreg : o.folders = reg) {sn : List String} {T k e : GoType}
    (hg : goodC reg sn T = true) (hpl : plainT reg T = true) (hop : OpIn op sn) (hu : T.under = .map k e)
    (hn : noPrimitive T) :
    getReflectFold (cf + 3) o op T =
      match getReflectFoldMapKeys (cf + 1) o (op.enter T) T with
      | .error x => .error x
      | .ok it => .ok (.mapFold it) := by
  rw [grf_good (cf + 2) o op hreg hg hpl hop, hn]
  simp only [hu]
  rw [getReflectFoldMap]
  rfl

theorem grf_ptr (cf : Nat) (o : FoldOpts) (op : Open) (hreg : o.folders = reg) {sn : List String} {T e : GoType}
    (hg : goodC reg sn T = true) (hpl : plainT reg T = true) (hop : OpIn op sn) (hu : T.under = .ptr e) :
    getReflectFold (cf + 2) o op T =
      match getReflectFold cf o (op.enter T) (baseType T).2 with
      | .error x => .error x
      | .ok el => .ok (makePointerFold (baseType T).1 el) := by
  have hn : noPrimitive T := by
    cases T <;> first | rfl | (simp [GoType.under] at hu; done) | (simp [goodC] at hg)
  rw [grf_good (cf + 1) o op hreg hg hpl hop, hn]
  simp only [hu]
  rw [getFoldPointer]
  rfl

theorem grf_struct (cf : Nat) (o : FoldOpts) (op : Open) (hreg : o.folders = reg) {sn : List String} {T : GoType}
    {fs : List Field}
    (hg : goodC reg sn T = true) (hpl : plainT reg T = true) (hop : OpIn op sn) (hu : T.under = .struct fs) :
    getReflectFold (cf + 1) o op T = getReflectFoldStruct cf o (op.enter T) fs false := by
  have hn : noPrimitive T := by
    cases T <;> first | rfl | (simp [GoType.under] at hu; done) | (simp [goodC] at hg)
  rw [grf_good cf o op hreg hg hpl hop, hn]
  simp only [hu]

/-! ## leaves: a type with a custom folder, a pointer to one -/

/-- the compiled folder of a type with a custom folder -/
def leafC1 (reg : Bool) (n : String) : ReFold :=
  if reg && userFoldTypes.contains n then .userVal n else .folderIfc

/-- the compiled folder of a pointer to a type with a custom folder -/
def leafC2 (reg : Bool) (n : String) : ReFold :=
  if reg && userFoldTypes.contains n then .userPtr n else .folderIfc

theorem implementsAny_of_c1 {n : String} {m : Methods} {u : GoType}
    (h1 : isC1 reg (.named n m u) = true) (hr : (reg && userFoldTypes.contains n) = false) :
    (implementsFolder (.named n m u) || implementsPtrFolder (.named n m u)) = true := by
  rw [isC1_named, hr, Bool.false_or] at h1
  unfold implementsPtrFolder
  rw [implementsFolder_named, implementsFolder_ptr_named, h1, Bool.or_true]

theorem grf_c1 (cf : Nat) (o : FoldOpts) (op : Open) (hreg : o.folders = reg) {sn : List String}
    {n : String} {m : Methods} {u : GoType}
    (hg : goodC reg sn (.named n m u) = true) (h1 : isC1 reg (.named n m u) = true) (hop : OpIn op sn) :
    getReflectFold (cf + 1) o op (.named n m u) = .ok (leafC1 reg n) := by
  unfold getReflectFold leafC1
  simp only [whnf_good hg, userReg_named hreg]
  by_cases hr : (reg && userFoldTypes.contains n) = true
  · simp only [hr, if_true]
  · have hr' : (reg && userFoldTypes.contains n) = false := by simpa using hr
    simp only [hr', Bool.false_eq_true, if_false, not_open hg hop, implementsAny_of_c1 h1 hr',
      getReflectFoldPrimitive, primOf?, Option.map_none, if_true]

theorem grf_c2 (cf : Nat) (o : FoldOpts) (op : Open) (hreg : o.folders = reg)
    {n : String} {m : Methods} {u : GoType} (h1 : isC1 reg (.named n m u) = true) :
    getReflectFold (cf + 1) o op (.ptr (.named n m u)) = .ok (leafC2 reg n) := by
  unfold getReflectFold leafC2
  have hw : (GoType.ptr (.named n m u)).whnf = .ptr (.named n m u) := rfl
  simp only [hw, userReg_ptr_named hreg]
  by_cases hr : (reg && userFoldTypes.contains n) = true
  · simp only [hr, if_true]
  · have hr' : (reg && userFoldTypes.contains n) = false := by simpa using hr
    have hi : implementsFolder (.ptr (.named n m u)) = true := by
      rw [isC1_named, hr', Bool.false_or] at h1
      rw [implementsFolder_ptr_named, h1]
    simp only [hr', Bool.false_eq_true, if_false, GoType.menagerieName?, Option.map_none, Option.getD_none,
      getReflectFoldPrimitive, primOf?, Option.map_none, hi, Bool.true_or, if_true]

/-! ## pointers -/

theorem stripPtr_of_under_nonptr {sn : List String} {T : GoType} (hg : goodC reg sn T = true)
    (hu : ∀ e, T.under ≠ .ptr e) : stripPtr T = (0, T) := by
  cases T <;> first
    | rfl
    | (exact absurd rfl (hu _))
    | (simp [goodC] at hg; done)
    | (rename_i n m u
       cases u <;> first | rfl | (exact absurd rfl (hu _)))

theorem baseTypeF_strip (fuel : Nat) {sn : List String} {T : GoType} (h : goodC reg sn T = true)
    (hf : (stripPtr T).1 ≤ fuel) : baseTypeF fuel T = stripPtr T := by
  induction fuel generalizing sn T with
  | zero =>
    by_cases hp : ∃ e, T.under = .ptr e
    · obtain ⟨e, he⟩ := hp
      rw [stripPtr_of_under_ptr he (headKind h)] at hf
      simp at hf
    · rw [stripPtr_of_under_nonptr h (fun e he => hp ⟨e, he⟩)]
      rfl
  | succ n ih =>
    by_cases hp : ∃ e, T.under = .ptr e
    · obtain ⟨e, he⟩ := hp
      have hT : unnamedHead T = true ∨ ∃ n m u, T = .named n m u := headKind h
      rw [stripPtr_of_under_ptr he hT] at hf ⊢
      have hge : goodC reg (snU sn T) e = true := by
        have := (good_under h).1
        rw [he] at this
        simpa [goodC] using this
      simp only [baseTypeF, he]
      rw [ih hge (by simp at hf; omega)]
    · rw [stripPtr_of_under_nonptr h (fun e he => hp ⟨e, he⟩)]
      simp only [baseTypeF]
      cases hu : T.under <;> first | rfl | (exact absurd ⟨_, hu⟩ hp)

theorem good_stripPtr : ∀ (T : GoType) (sn : List String), goodC reg sn T = true →
    ∃ sn', (∀ x ∈ sn, x ∈ sn') ∧ goodC reg sn' (stripPtr T).2 = true := by
  intro T
  induction T using GoType.rec (motive_2 := fun _ => True) (motive_3 := fun _ => True) <;>
    try (intro sn h; exact ⟨sn, fun _ hx => hx, h⟩)
  · rename_i e ih
    intro sn h
    exact ih sn (by simpa [goodC] using h)
  · rename_i n m u ih
    intro sn h
    have hu : unnamedHead u = true := (good_named_under h).2
    rw [stripPtr_named n m u hu]
    by_cases h0 : (stripPtr u).1 = 0
    · simp only [h0, if_true]
      exact ⟨sn, fun _ hx => hx, h⟩
    · simp only [h0, if_false]
      obtain ⟨sn', hs, hg⟩ := ih (n :: sn) (good_named_under h).1
      exact ⟨sn', fun x hx => hs x (by simp [hx]), hg⟩
  all_goals trivial

/-- the stripped type is no pointer type -/
theorem stripPtr_not_ptr : ∀ (T : GoType) (sn : List String), goodC reg sn T = true →
    ∀ e, (stripPtr T).2.under ≠ .ptr e := by
  intro T
  induction T using GoType.rec (motive_2 := fun _ => True) (motive_3 := fun _ => True) <;>
    try (intro sn h e he; simp [stripPtr, GoType.under] at he; done)
  · rename_i e ih
    intro sn h
    exact ih sn (by simpa [goodC] using h)
  · rename_i n m u ih
    intro sn h
    have hu : unnamedHead u = true := (good_named_under h).2
    rw [stripPtr_named n m u hu]
    by_cases h0 : (stripPtr u).1 = 0
    · simp only [h0, if_true, GoType.under]
      intro e he
      exact (stripPtr_unnamed_nonptr h0 hu).2 e he
    · simp only [h0, if_false]
      exact ih (n :: sn) (good_named_under h).1
  · intro sn h; simp [goodC] at h
  all_goals trivial

theorem baseType_good {sn : List String} {T : GoType} (h : goodC reg sn T = true) (hd : tdepth T ≤ 1000) :
    baseType T = stripPtr T :=
  baseTypeF_strip 1000 h (Nat.le_trans (stripPtr_le_tdepth T) hd)

/-- the stripped type is no pointer type, literally -/
theorem stripPtr_not_ptr' {T : GoType} {sn : List String} (h : goodC reg sn T = true) :
    ∀ e, (stripPtr T).2 ≠ .ptr e := by
  intro e he
  have := stripPtr_not_ptr T sn h e
  rw [he] at this
  exact this rfl

/-! ## inline fields -/

theorem ffgi_good (cf : Nat) (o : FoldOpts) (op : Open) (hreg : o.folders = reg) {sn : List String} {t : GoType}
    (h : goodC reg sn t = true) (h1 : isC1 reg t = false) (hnp : ∀ e, t ≠ .ptr e) :
    fieldFoldGenInline (cf + 1) o op t =
      match (generalizing := false) t.under with
      | .struct fs => getReflectFoldStruct cf o op fs true
      | .map _ _ => getReflectFoldMapKeys cf o op t
      | .iface => .ok (.embedd .inlineIface)
      | _ => .error (.err .squashNeedObject) := by
  have hpl := plain_of_notC1 h1 hnp
  unfold fieldFoldGenInline
  simp only [whnf_good h, userReg_good hreg h hpl, implementsFolder_good h hpl, implementsPtrFolder_good h h1,
    Bool.or_self, Bool.false_eq_true, if_false]
  cases t.under <;> rfl

/-- the base folder of an `inline` field whose type has a custom folder -/
theorem ffgi_c1 (cf : Nat) (o : FoldOpts) (op : Open) (hreg : o.folders = reg) {sn : List String}
    {n : String} {m : Methods} {u : GoType}
    (hg : goodC reg sn (.named n m u) = true) (h1 : isC1 reg (.named n m u) = true) :
    fieldFoldGenInline (cf + 1) o op (.named n m u) = .ok (.embedd (leafC1 reg n)) := by
  unfold fieldFoldGenInline leafC1
  simp only [whnf_good hg, userReg_named hreg]
  by_cases hr : (reg && userFoldTypes.contains n) = true
  · simp only [hr, if_true]
  · have hr' : (reg && userFoldTypes.contains n) = false := by simpa using hr
    simp only [hr', Bool.false_eq_true, if_false, implementsAny_of_c1 h1 hr', if_true]

theorem bffi_good (cf : Nat) (o : FoldOpts) (op : Open) (f : Field) (idx : Nat) {sn : List String}
    (h : goodC reg sn (baseType f.typ).2 = true) (hop : OpIn op sn) :
    buildFieldFoldInline (cf + 1) o op f idx =
      match fieldFoldGenInline cf o (enterInl op (baseType f.typ).2) (baseType f.typ).2 with
      | .error e => .error e
      | .ok base => .ok (.fieldInline idx (makeInlinePointerFold (baseType f.typ).1 base)) := by
  unfold buildFieldFoldInline
  have hno : ((baseType f.typ).2.menagerieName?.map op.inl.contains).getD false = false := by
    generalize (baseType f.typ).2 = bt at h
    cases bt <;> try rfl
    · rename_i n m u
      simp only [GoType.menagerieName?, Option.map_some, Option.getD_some]
      have hn : ¬ n ∈ sn := name_fresh h
      have : ¬ n ∈ op.inl := fun hx => hn (hop.2 n hx)
      simpa using this
    · simp [goodC] at h
  simp only [whnf_good h, hno, Bool.false_eq_true, if_false]
  unfold enterInl
  cases (baseType f.typ).2.menagerieName? <;> rfl

end SF.FoldProofs.Custom
