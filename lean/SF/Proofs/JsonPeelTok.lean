/-
  Chunk independence of the JSON parser mirror, token level: feeding `a :: rest` to a
  token-reading function does the same as feeding `[a]` and then `rest` (strings, numbers,
  literals).
-/
import SF.Proofs.JsonEqv
set_option linter.unusedSimpArgs false
namespace SF.Json.ParseP
open SF SF.Json SF.Json.Parse SF.Json.Float

/-! ## strings -/

theorem scanString_shift (buf : Bytes) (esc : Bool) (k : Nat) :
    scanString buf esc (k + 1) = ((scanString buf esc k).1.map (· + 1), (scanString buf esc k).2) := by
  induction buf generalizing esc k with
  | nil => simp [scanString]
  | cons c rest ih =>
    simp only [scanString]
    split
    · exact ih _ _
    · split
      · simp
      · split
        · exact ih _ _
        · exact ih _ _

/-- the byte `a` closes the string that is being read -/
def closes (p : P) (a : UInt8) : Bool := !p.literalBuffer.isEmpty && !p.inEscape && a == ch '"'

/-- scanning one byte that does not close -/
theorem scanString_one (a : UInt8) (esc : Bool) (h : (!esc && a == ch '"') = false) :
    (scanString [a] esc 0).1 = none ∧
    ∀ rest, scanString (a :: rest) esc 0 = scanString rest (scanString [a] esc 0).2 1 := by
  cases esc with
  | true => simp [scanString]
  | false =>
    have ha : (a == ch '"') = false := by simpa using h
    by_cases hb : (a == ch '\\') = true
    · simp [scanString, ha, hb]
    · simp [scanString, ha, hb]

/-- doString, one byte that does not close the string: it is buffered; and the rest is then
read exactly as if both had come together -/
theorem doString_peel (p : P) (a : UInt8) (rest : Bytes) (h : closes p a = false) :
    doString p [a] = ((doString p [a]).1, [], false, [], none) ∧
    (doString p [a]).1.currentState = p.currentState ∧
    doString p (a :: rest) = doString (doString p [a]).1 rest := by
  cases hlb : p.literalBuffer with
  | nil =>
    -- `a` is the opening quote
    have h0 : (scanString [] p.inEscape 0).1 = none := rfl
    rw [doString_start_none p a [] hlb h0]
    refine ⟨rfl, rfl, ?_⟩
    simp only [scanString]
    cases hs : (scanString rest p.inEscape 0).1 with
    | none =>
      rw [doString_start_none p a rest hlb hs,
        doString_cont_none { p with literalBuffer := [a], inEscape := p.inEscape } rest a [] rfl hs]
      rfl
    | some i =>
      rw [doString_start_some p a rest i hlb hs,
        doString_cont_some { p with literalBuffer := [a], inEscape := p.inEscape } rest a [] i rfl hs]
      simp only [List.nil_append]
      have : ∀ esc, ({ p with inEscape := esc } : P) = { p with literalBuffer := [], inEscape := esc } := by
        intro esc; cases p; simp only at hlb; subst hlb; rfl
      cases unquote (rest.take i) <;> simp only [this]
  | cons l ls =>
    have hc : (!p.inEscape && a == ch '"') = false := by
      simp only [closes, hlb, List.isEmpty_cons, Bool.not_false, Bool.true_and] at h; exact h
    obtain ⟨h1, h2⟩ := scanString_one a p.inEscape hc
    rw [doString_cont_none p [a] l ls hlb h1]
    refine ⟨rfl, rfl, ?_⟩
    have h3 := h2 rest
    rw [scanString_shift] at h3
    cases hs : (scanString rest (scanString [a] p.inEscape 0).2 0).1 with
    | none =>
      have hs' : (scanString (a :: rest) p.inEscape 0).1 = none := by rw [h3, hs]; rfl
      rw [doString_cont_none p (a :: rest) l ls hlb hs',
        doString_cont_none { p with literalBuffer := l :: ls ++ [a], inEscape := (scanString [a] p.inEscape 0).2 }
          rest l (ls ++ [a]) rfl hs]
      simp only [h3, List.cons_append, List.append_assoc, List.singleton_append, List.nil_append]
    | some i =>
      have hs' : (scanString (a :: rest) p.inEscape 0).1 = some (i + 1) := by rw [h3, hs]; rfl
      rw [doString_cont_some p (a :: rest) l ls (i + 1) hlb hs',
        doString_cont_some { p with literalBuffer := l :: ls ++ [a], inEscape := (scanString [a] p.inEscape 0).2 }
          rest l (ls ++ [a]) i rfl hs]
      simp only [h3, List.take_succ_cons, List.drop_succ_cons, List.append_assoc, List.singleton_append, List.nil_append,
        List.cons_append]

/-- doString, the byte that closes the string: what follows is not looked at -/
theorem doString_close (p : P) (a : UInt8) (rest : Bytes) (h : closes p a = true) :
    ∃ q ref done err, doString p [a] = (q, ref, done, [], err) ∧
      doString p (a :: rest) = (q, ref, done, if done then rest else [], err) ∧
      (done = true → err = none) ∧ (done = false → err ≠ none) := by
  simp only [closes, Bool.and_eq_true, Bool.not_eq_true', beq_iff_eq] at h
  obtain ⟨⟨h1, h2⟩, h3⟩ := h
  cases hlb : p.literalBuffer with
  | nil => rw [hlb] at h1; simp at h1
  | cons l ls =>
    have hs : ∀ r, (scanString (a :: r) p.inEscape 0).1 = some 0 := by
      intro r; simp [scanString, h2, h3]
    rw [doString_cont_some p [a] l ls 0 hlb (hs []), doString_cont_some p (a :: rest) l ls 0 hlb (hs rest)]
    have he : ∀ r, (scanString (a :: r) p.inEscape 0).2 = false := by
      intro r; simp [scanString, h2, h3]
    simp only [he, List.take_zero, List.append_nil, List.drop_succ_cons, List.drop_zero, List.drop_nil]
    cases unquote ls with
    | error e => exact ⟨_, _, _, _, rfl, rfl, by simp, by simp⟩
    | ok s' => exact ⟨_, _, _, _, rfl, rfl, by simp, by simp⟩

theorem stepString_peel (p : P) (a : UInt8) (rest : Bytes) (h : closes p a = false) :
    stepString p [a] = { p := (stepString p [a]).p, rest := [], reported := false, err := none } ∧
    (stepString p [a]).p.currentState = p.currentState ∧
    stepString p (a :: rest) = stepString (stepString p [a]).p rest := by
  obtain ⟨h1, h2, h3⟩ := doString_peel p a rest h
  have e : stepString p [a] = { p := (doString p [a]).1, rest := [], reported := false, err := none } := by
    unfold stepString; rw [h1]; rfl
  rw [e]
  refine ⟨rfl, h2, ?_⟩
  unfold stepString
  rw [h3]

theorem stepDictKey_peel (p : P) (a : UInt8) (rest : Bytes) (h : closes p a = false) :
    stepDictKey p [a] = { p := (stepDictKey p [a]).p, rest := [], reported := false, err := none } ∧
    (stepDictKey p [a]).p.currentState = p.currentState ∧
    stepDictKey p (a :: rest) = stepDictKey (stepDictKey p [a]).p rest := by
  obtain ⟨h1, h2, h3⟩ := doString_peel p a rest h
  have e : stepDictKey p [a] = { p := (doString p [a]).1, rest := [], reported := false, err := none } := by
    unfold stepDictKey; rw [h1]; rfl
  rw [e]
  refine ⟨rfl, h2, ?_⟩
  unfold stepDictKey
  rw [h3]

/-- the closing byte: same state and verdict whatever follows; the rest is handed back -/
theorem stepString_close (p : P) (a : UInt8) (rest : Bytes) (h : closes p a = true) :
    (stepString p (a :: rest)).p = (stepString p [a]).p ∧
    (stepString p (a :: rest)).err = (stepString p [a]).err ∧
    ((stepString p [a]).err = none → (stepString p [a]).rest = [] ∧ (stepString p (a :: rest)).rest = rest) := by
  obtain ⟨q, ref, done, err, h1, h2, h3, h4⟩ := doString_close p a rest h
  unfold stepString
  rw [h1, h2]
  cases done with
  | true =>
    have := h3 rfl; subst this
    simp
  | false =>
    simp only [Bool.false_and, Bool.false_eq_true, if_false, true_and]
    intro he
    exact absurd he (h4 rfl)

theorem stepDictKey_close (p : P) (a : UInt8) (rest : Bytes) (h : closes p a = true) :
    (stepDictKey p (a :: rest)).p = (stepDictKey p [a]).p ∧
    (stepDictKey p (a :: rest)).err = (stepDictKey p [a]).err ∧
    ((stepDictKey p [a]).err = none → (stepDictKey p [a]).rest = [] ∧ (stepDictKey p (a :: rest)).rest = rest) := by
  obtain ⟨q, ref, done, err, h1, h2, h3, h4⟩ := doString_close p a rest h
  unfold stepDictKey
  rw [h1, h2]
  cases done with
  | true =>
    have := h3 rfl; subst this
    simp
  | false =>
    simp only [Bool.false_and, Bool.false_eq_true, if_false, true_and]
    intro he
    exact absurd he (h4 rfl)

/-! ## numbers -/

/-- stepNumber, one byte that is no stop character: it is buffered; the rest is then read
exactly as if both had come together -/
theorem stepNumber_peel (p : P) (a : UInt8) (rest : Bytes) (h : isStopChar a = false) :
    stepNumber p [a] = { p := (stepNumber p [a]).p, rest := [], reported := false, err := none } ∧
    (stepNumber p [a]).p.currentState = p.currentState ∧
    stepNumber p (a :: rest) = stepNumber (stepNumber p [a]).p rest := by
  have h1 : scanNumber [a] p.isDouble = ([a], [], false, p.isDouble || a == ch '.' || a == ch 'e' || a == ch 'E') := by
    simp [scanNumber, h]
  have hm : (scanNumber [a] p.isDouble).2.2.1 = false := by rw [h1]
  rw [stepNumber_more p [a] hm]
  refine ⟨rfl, rfl, ?_⟩
  have h2 : scanNumber (a :: rest) p.isDouble =
      (a :: (scanNumber rest (scanNumber [a] p.isDouble).2.2.2).1, (scanNumber rest (scanNumber [a] p.isDouble).2.2.2).2.1,
        (scanNumber rest (scanNumber [a] p.isDouble).2.2.2).2.2.1, (scanNumber rest (scanNumber [a] p.isDouble).2.2.2).2.2.2) := by
    rw [h1]; simp [scanNumber, h]
  cases hd : (scanNumber rest (scanNumber [a] p.isDouble).2.2.2).2.2.1 with
  | false =>
    have hd1 : (scanNumber (a :: rest) p.isDouble).2.2.1 = false := by rw [h2]; exact hd
    rw [stepNumber_more p (a :: rest) hd1, stepNumber_more _ rest hd]
    simp only [h2, List.append_assoc, List.singleton_append]
  | true =>
    have hd1 : (scanNumber (a :: rest) p.isDouble).2.2.1 = true := by rw [h2]; exact hd
    rw [stepNumber_done p (a :: rest) hd1, stepNumber_done _ rest hd]
    simp only [h2, List.append_assoc, List.singleton_append]

/-- stepNumber, a stop character first: the number is converted, nothing is consumed, what
follows is not looked at -/
theorem stepNumber_stop (p : P) (a : UInt8) (rest : Bytes) (h : isStopChar a = true) :
    stepNumber p (a :: rest) = { stepNumber p [a] with rest := a :: rest } ∧ (stepNumber p [a]).rest = [a] := by
  have h1 : ∀ r, scanNumber (a :: r) p.isDouble = ([], a :: r, true, p.isDouble) := by
    intro r; simp [scanNumber, h]
  have hd : ∀ r, (scanNumber (a :: r) p.isDouble).2.2.1 = true := by intro r; rw [h1]
  rw [stepNumber_done p (a :: rest) (hd rest), stepNumber_done p [a] (hd [])]
  simp only [h1]
  exact ⟨trivial, trivial⟩

/-! ## literals -/

/-- results of a step that agree as far as the loop looks at them: same verdict and events;
and without error the same rest and states equal up to `Eqv` -/
def REq (x y : R) : Prop :=
  y.err = x.err ∧ y.p.evs = x.p.evs ∧ y.p.nevs = x.p.nevs ∧ (x.err = none → y.rest = x.rest ∧ Eqv x.p y.p)

theorem REq.refl (x : R) : REq x x := ⟨rfl, rfl, rfl, fun _ => ⟨rfl, Eqv.refl _⟩⟩

theorem hasPrefix_nil (b : Bytes) : hasPrefix b [] = true := by cases b <;> rfl

theorem hasPrefix_cons (a x : UInt8) (rest s : Bytes) :
    hasPrefix (a :: rest) (x :: s) = (a == x && hasPrefix rest s) := rfl

theorem drop_tail_cons (K : Bytes) (n : Nat) (h1 : 1 ≤ n) (h2 : n ≤ K.length) :
    ∃ x, K.drop (K.length - n) = x :: K.drop (K.length - (n - 1)) := by
  have h : K.length - n < K.length := by omega
  refine ⟨K[K.length - n], ?_⟩
  rw [List.drop_eq_getElem_cons h]
  congr 2
  omega


theorem setReq_setReq (p : P) (r r' : Nat) : setReq (setReq p r) r' = setReq p r' := rfl

/-- stepLit on `a :: rest` against `[a]` and then `rest` -/
theorem stepLit_class (p : P) (a : UInt8) (rest : Bytes) (kind : String) (err : Err) (ev : Ev)
    (hn : p.required ≤ (strBytes kind).length) (hst : ∀ s ∈ p.states, isRet s = true) :
    -- nothing required: the literal ends without consuming
    (∀ b, stepLit p b kind err ev =
      { p := (visit (popState p) ev).1, rest := b, reported := true, err := (visit (popState p) ev).2 }) ∨
    -- the byte decides by itself
    ((stepLit p (a :: rest) kind err ev).err = (stepLit p [a] kind err ev).err ∧
      (stepLit p (a :: rest) kind err ev).p.evs = (stepLit p [a] kind err ev).p.evs ∧
      (stepLit p (a :: rest) kind err ev).p.nevs = (stepLit p [a] kind err ev).p.nevs ∧
      ((stepLit p [a] kind err ev).err = none →
        (stepLit p (a :: rest) kind err ev).p = (stepLit p [a] kind err ev).p ∧
        (stepLit p [a] kind err ev).rest = [] ∧ (stepLit p (a :: rest) kind err ev).rest = rest)) ∨
    -- the byte is taken, one less is required
    (stepLit p [a] kind err ev = { p := setReq p (p.required - 1), rest := [], reported := false, err := none } ∧
      REq (stepLit (setReq p (p.required - 1)) rest kind err ev) (stepLit p (a :: rest) kind err ev)) := by
  generalize hK : strBytes kind = K at hn
  by_cases h0 : p.required = 0
  · -- Move
    left
    have e : ∀ b : Bytes, stepLit p b kind err ev =
        { p := (visit (popState p) ev).1, rest := b, reported := true, err := (visit (popState p) ev).2 } := by
      intro b
      rw [stepLit_full p b kind err ev (by rw [hK]; exact hn) (by omega), hK, h0]
      simp only [Nat.sub_zero, List.drop_length, hasPrefix_nil, if_true, List.drop_zero]
    exact e
  · by_cases h1 : p.required = 1
    · -- Local
      right; left
      obtain ⟨x, hx⟩ := drop_tail_cons K p.required (by omega) hn
      have hx' : K.drop (K.length - 1) = [x] := by
        rw [h1] at hx; simpa using hx
      rw [stepLit_full p (a :: rest) kind err ev (by rw [hK]; exact hn) (by simp only [List.length_cons]; omega),
        stepLit_full p [a] kind err ev (by rw [hK]; exact hn) (by simp only [List.length_cons, List.length_nil]; omega),
        hK, h1, hx']
      simp only [hasPrefix_cons, hasPrefix_nil, Bool.and_true]
      by_cases hax : (a == x) = true
      · simp only [hax, if_true, List.drop_succ_cons, List.drop_zero, List.drop_nil]
        exact ⟨trivial, trivial, trivial, fun _ => ⟨trivial, trivial, trivial⟩⟩
      · simp only [hax, Bool.false_eq_true, if_false]
        exact ⟨trivial, trivial, trivial, by simp⟩
    · -- required ≥ 2
      have h2 : 2 ≤ p.required := by omega
      obtain ⟨x, hx⟩ := drop_tail_cons K p.required (by omega) hn
      have e1 : stepLit p [a] kind err ev =
          if (a == x) = true then
            { p := setReq p (p.required - 1), rest := [], reported := false, err := none }
          else { p := setReq p (p.required - 1), rest := [a], reported := false, err := some err } := by
        rw [stepLit_short p [a] kind err ev (by rw [hK]; exact hn) (by simp only [List.length_cons, List.length_nil]; omega),
          hK, hx]
        simp only [List.length_cons, List.length_nil, Nat.zero_add, List.take_succ_cons, List.take_zero,
          hasPrefix_cons, hasPrefix_nil, Bool.and_true]
        rfl
      by_cases hax : (a == x) = true
      · -- Cont
        right; right
        rw [e1, if_pos hax]
        refine ⟨rfl, ?_⟩
        have hn2 : (setReq p (p.required - 1)).required ≤ (strBytes kind).length := by
          rw [hK]; show p.required - 1 ≤ K.length; omega
        by_cases hfull : p.required ≤ rest.length + 1
        · rw [stepLit_full p (a :: rest) kind err ev (by rw [hK]; exact hn) (by simp only [List.length_cons]; exact hfull),
            stepLit_full _ rest kind err ev hn2 (by show p.required - 1 ≤ rest.length; omega), hK, hx]
          show REq (if hasPrefix rest (K.drop (K.length - (p.required - 1))) = true then _ else _) _
          simp only [hasPrefix_cons, hax, Bool.true_and]
          by_cases hp : hasPrefix rest (K.drop (K.length - (p.required - 1))) = true
          · simp only [hp, if_true]
            have hnl := popState_notLit p hst
            have e2 : (visit (popState (setReq p (p.required - 1))) ev) =
                (setReq (visit (popState p) ev).1 (p.required - 1), (visit (popState p) ev).2) := by
              rw [popState_setReq, visit_setReq]
            rw [e2]
            refine ⟨rfl, rfl, rfl, fun _ => ⟨?_, ?_⟩⟩
            · show List.drop p.required (a :: rest) = List.drop (p.required - 1) rest
              obtain ⟨m, hm⟩ : ∃ m, p.required = m + 1 := ⟨p.required - 1, by omega⟩
              rw [hm]; simp
            · exact Eqv.symm ⟨p.required - 1, rfl, fun hl => by
                rw [visit_cs, hnl] at hl; simp at hl⟩
          · simp only [hp, Bool.false_eq_true, if_false]
            exact ⟨rfl, rfl, rfl, by simp⟩
        · have hshort : rest.length + 1 < p.required := by omega
          rw [stepLit_short p (a :: rest) kind err ev (by rw [hK]; exact hn) (by simp only [List.length_cons]; exact hshort),
            stepLit_short _ rest kind err ev hn2 (by show rest.length < p.required - 1; omega), hK, hx]
          show REq (if hasPrefix rest ((K.drop (K.length - (p.required - 1))).take rest.length) = true then _ else _) _
          simp only [List.length_cons, List.take_succ_cons, hasPrefix_cons, hax, Bool.true_and]
          have e3 : (setReq p (p.required - 1)).required - rest.length = p.required - (rest.length + 1) := by
            show p.required - 1 - rest.length = _; omega
          by_cases hp : hasPrefix rest ((K.drop (K.length - (p.required - 1))).take rest.length) = true
          · simp only [hp, if_true, e3]
            exact REq.refl _
          · simp only [hp, Bool.false_eq_true, if_false]
            exact ⟨rfl, rfl, rfl, by simp⟩
      · -- mismatch at the first byte: Local
        right; left
        rw [e1, if_neg hax]
        have herr : (stepLit p (a :: rest) kind err ev).err = some err ∧
            (stepLit p (a :: rest) kind err ev).p.evs = p.evs ∧
            (stepLit p (a :: rest) kind err ev).p.nevs = p.nevs := by
          by_cases hfull : p.required ≤ rest.length + 1
          · rw [stepLit_full p (a :: rest) kind err ev (by rw [hK]; exact hn)
              (by simp only [List.length_cons]; exact hfull), hK, hx]
            simp only [hasPrefix_cons, hax, Bool.false_and, Bool.false_eq_true, if_false]
            exact ⟨trivial, trivial, trivial⟩
          · rw [stepLit_short p (a :: rest) kind err ev (by rw [hK]; exact hn)
              (by simp only [List.length_cons]; omega), hK, hx]
            simp only [List.length_cons, List.take_succ_cons, hasPrefix_cons, hax, Bool.false_and,
              Bool.false_eq_true, if_false]
            exact ⟨trivial, trivial, trivial⟩
        exact ⟨herr.1, herr.2.1, herr.2.2, by simp⟩

end SF.Json.ParseP
