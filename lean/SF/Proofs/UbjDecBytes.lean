/-
  C18 for the UBJSON BYTE-SLICE decoder (`NewBytesDecoder`), directly from the refinement theorem
  of the parser (SF/Proofs/UbjRefTop.lean): no split law involved, and only the side condition of
  the parser theorems (`free ≤ 1000000` per item: the whole rest of the input is in ONE buffer, so
  the model's fuel `fuelFor` is granted for all of it at once).
-/
import SF.Proofs.UbjDecReader
set_option linter.unusedSimpArgs false
set_option linter.unusedVariables false
namespace SF.Ubjson.DecR
open SF SF.Ubjson SF.Ubjson.Parse SF.Ubjson.Dec SF.Ubjson.Syn
open StateType StateStep

theorem feedIt_done (ff : Bytes → Nat) (fuel : Nat) (d : Dec) (r : R)
    (h : feedUntil (ff d.buffer) d.p d.buffer = r) (he : r.err = none) (hd : r.done = true) :
    feedIt ff fuel d = ({ d with p := r.p, buffer := r.rest }, .ok) := by
  unfold feedIt
  simp only [h, he, hd, if_true]

theorem feedIt_cont (ff : Bytes → Nat) (fuel : Nat) (d : Dec) (r : R)
    (h : feedUntil (ff d.buffer) d.p d.buffer = r) (he : r.err = none) (hd : r.done = false) :
    feedIt ff fuel d = nextG ff fuel { d with p := r.p, buffer := r.rest } := by
  unfold feedIt
  simp only [h, he, hd, Bool.false_eq_true, if_false]

/-- one Next on a buffer that starts with a complete item (after `n` no-ops): it succeeds,
delivers exactly that item's events and none of what follows, and keeps the remainder -/
theorem next_one (n : Nat) (x : Item) (hx : x.ok = true) (hfree : free x ≤ 1000000) (rest : Bytes)
    (E : List Ev) (vt : Nat) (d : Dec) (hp : d.p = idle E vt) (hb : d.buffer = noops n ++ (x.wire ++ rest))
    (fuel : Nat) :
    ∃ vt', next (fuel + 1) d = ({ d with p := idle (x.events.reverse ++ E) vt', buffer := rest }, .ok) := by
  have hne : d.buffer ≠ [] := by
    rw [hb]; intro hc
    exact wire_ne_nil x (List.append_eq_nil_iff.mp (List.append_eq_nil_iff.mp hc).2).1
  have hcost : n + 1 + vcost x ≤ fuelFor d.buffer := by
    have := vcost_le x
    rw [hb]
    simp only [fuelFor, List.length_append, noops_length]
    omega
  obtain ⟨vt', h⟩ := feedUntil_value n x hx E vt rest (fuelFor d.buffer) hcost
  refine ⟨vt', ?_⟩
  rw [← hb, ← hp] at h
  rw [next_eq_nextG, nextG_buf _ _ _ hne, feedIt_done fuelFor fuel d _ h rfl rfl]

theorem feedUntil_noops (t : Nat) (E : List Ev) (vt : Nat) (F : Nat) (hF : t + 1 ≤ F) :
    feedUntil F (idle E vt) (noops t) = ⟨idle E vt, [], false, none⟩ := by
  obtain ⟨f, rfl⟩ : ∃ f, F = (f + 1) + t := ⟨F - (t + 1), by omega⟩
  have := top_noops t (f + 1) {} [] 0 vt E []
  rw [List.append_nil] at this
  rw [idle_eq, this, feedUntil_idle_nil f _ (by rw [← idle_eq]; exact pending_idle E vt)]

/-- the call after the last item of a byte slice (trailing no-ops allowed): a clean end -/
theorem next_bytes_end (t : Nat) (E : List Ev) (vt : Nat) (d : Dec) (hr : d.hasReader = false)
    (hp : d.p = idle E vt) (hb : d.buffer = noops t) (fuel : Nat) :
    (next (fuel + 2) d).2 = .eof ∧ (next (fuel + 2) d).1.p = idle E vt := by
  rw [next_eq_nextG]
  have key : ∀ (g : Nat) (d' : Dec), d'.buffer = [] → d'.hasReader = false → d'.p = idle E vt →
      (nextG fuelFor (g + 1) d').2 = .eof ∧ (nextG fuelFor (g + 1) d').1.p = idle E vt := by
    intro g d' h1 h2 h3
    rw [nextG_noReader _ _ _ h1 h2, atEOF_spec, h3, eofV_idle, finalize_idle]
    exact ⟨rfl, rfl⟩
  cases t with
  | zero => exact key _ d (by simpa [noops] using hb) hr hp
  | succ t =>
    have hne : d.buffer ≠ [] := by rw [hb]; simp [noops, List.replicate]
    have h := feedUntil_noops (t + 1) E vt (fuelFor d.buffer) (by
      rw [hb]; simp only [fuelFor, noops_length]; omega)
    rw [← hb, ← hp] at h
    rw [nextG_buf _ _ _ hne, feedIt_cont fuelFor (fuel + 1) d _ h rfl rfl]
    exact key _ _ rfl hr hp

/-- C18 (1) for the UBJSON byte-slice decoder, general form -/
theorem bytes_stream_from (f : Dec → Nat) (hf : ∀ d, 2 ≤ f d) (xs : List (Nat × Item)) (trail : Nat)
    (hok : okElems xs = true) (hfree : ∀ nx ∈ xs, free nx.2 ≤ 1000000) :
    ∀ (d : Dec) (E : List Ev) (vt : Nat), d.hasReader = false → d.p = idle E vt →
      d.buffer = wireElems xs ++ noops trail →
      nextsF f (xs.length + 1) d = okTrace E.reverse xs ++ [(NextRes.eof, E.reverse ++ evElems xs)] := by
  induction xs with
  | nil =>
    intro d E vt hr hp hb
    obtain ⟨g, hg⟩ : ∃ g, f d = g + 2 := ⟨f d - 2, by have := hf d; omega⟩
    obtain ⟨e1, e2⟩ := next_bytes_end trail E vt d hr hp (by simpa [wireElems] using hb) g
    rw [show ([] : List (Nat × Item)).length + 1 = 0 + 1 from rfl, nextsF_succ, hg, e1, e2]
    simp [okTrace, evElems, Parse.events, idle, nextsF]
  | cons nx xs ih =>
    obtain ⟨n, x⟩ := nx
    intro d E vt hr hp hb
    have hok' : x.ok = true ∧ okElems xs = true := by simpa [okElems] using hok
    obtain ⟨g, hg⟩ : ∃ g, f d = g + 1 := ⟨f d - 1, by have := hf d; omega⟩
    rw [wireElems_cons_append] at hb
    obtain ⟨vt1, h1⟩ := next_one n x hok'.1 (hfree (n, x) (by simp)) _ E vt d hp hb g
    have hlen : ((n, x) :: xs).length + 1 = (xs.length + 1) + 1 := by simp
    rw [hlen, nextsF_succ, hg, h1]
    simp only [beq_self_eq_true, if_true]
    have := ih hok'.2 (fun nx h => hfree nx (by simp [h]))
      { d with p := idle (x.events.reverse ++ E) vt1, buffer := wireElems xs ++ noops trail }
      (x.events.reverse ++ E) vt1 hr rfl rfl
    rw [this]
    simp [okTrace, evElems, Parse.events, idle, List.append_assoc]

end SF.Ubjson.DecR
