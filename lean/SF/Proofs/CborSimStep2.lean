/-
  Simulation of one parser step on ghost contexts.  Part 2: containers and keys, and the
  combined statement `step_sim`.
-/
import SF.Proofs.CborSimStep
set_option linter.unusedSimpArgs false
namespace SF.Cbor.Sim
open SF SF.Cbor SF.Cbor.Cst SF.Cbor.Parse SF.Props.C03

/-! ## arrays -/

theorem indefArr_sim (fs : List Cont) (hfs : contsValid fs) (done : List Item) (hd : okwList done = true)
    (p : P) (hr0 : RelL p (⟨0x81, 1⟩ :: contsSts fs) (contsLens fs) []) (b0 : UInt8) (bs : Bytes)
    (pend : Bool) :
    SimR (contsWire (.arrI done :: fs)) (b0 :: bs) (indefArr p (b0 :: bs)) pend := by
  by_cases h : b0 = 0xff
  · subst h
    simp only [indefArr, codeBreak, beq_self_eq_true, if_true]
    have hv := hr0.visit .arrEnd
    rcases hvis : visit p .arrEnd with ⟨p2, _ | e⟩
    · rw [hvis] at hv
      simp only []
      exact finish_value fs hfs (.arrIndef done) (by simpa [okw] using hd) _ (0xff :: bs) [0xff] bs rfl
        (popStateR_sim fs hfs _ p2 _ hv bs) _ (by simp [Item.wire, contsWire, Cont.wire]) pend
        (Or.inl (by simp))
    · exact Or.inl (by simp)
  · rw [indefArr_value p b0 bs h]
    exact value_sim (.arrI done :: fs) ⟨hd, hfs⟩ p hr0 b0 bs pend

theorem step_val (fs : List Cont) (hfs : contsValid fs) (hv : topIsMapV fs = false) (p : P)
    (hr : Rel p ⟨fs, .val⟩) (b0 : UInt8) (bs : Bytes) (pend : Bool) :
    SimR (Ctx.wire ⟨fs, .val⟩) (b0 :: bs) (execStep p (b0 :: bs)) pend := by
  have hw : Ctx.wire ⟨fs, .val⟩ = contsWire fs := by simp [Ctx.wire, Top.wire]
  rw [hw]
  have hr0 : RelL p (contsSts fs) (contsLens fs) [] := hr
  cases fs with
  | nil =>
    have hcur := hr0.cur
    rw [execStep_value p _ (by rw [hcur])]
    exact value_sim [] hfs p hr0 b0 bs pend
  | cons f fs =>
    cases f with
    | arr w n done =>
      have hcur := hr0.cur
      have hlc : p.length.current = (n : Int) - done.length := hr0.lcur
      rw [execStep_arr p _ (by rw [hcur]; rfl), stepArray_pos p _ (by rw [hlc]; have := hfs.1.2.1; omega)]
      exact value_sim _ hfs p hr0 b0 bs pend
    | arrI done =>
      have hcur := hr0.cur
      rw [execStep_indefArr p _ (by rw [hcur]; rfl)]
      exact indefArr_sim fs hfs.2 done hfs.1 p hr0 b0 bs pend
    | mapV w n done kw k => simp [topIsMapV] at hv
    | mapIV done kw k => simp [topIsMapV] at hv

theorem step_elem (fs : List Cont) (hfs : contsValid fs) (p : P)
    (hr : Rel p ⟨fs, .elem⟩) (b0 : UInt8) (bs : Bytes) (pend : Bool) :
    SimR (Ctx.wire ⟨fs, .elem⟩) (b0 :: bs) (execStep p (b0 :: bs)) pend := by
  have hw : Ctx.wire ⟨fs, .elem⟩ = contsWire fs := by simp [Ctx.wire, Top.wire]
  rw [hw]
  have hr0 : RelL p (⟨0xa9, 1⟩ :: contsSts fs) (contsLens fs) [] := hr
  have hcur := hr0.cur
  rw [execStep_elem p _ (by rw [hcur])]
  exact value_sim fs hfs (popSt p) (hr0.pop (contsSts_ne_nil fs)) b0 bs pend

/-- closing of a definite container that is (already) full -/
theorem handleLen_sim (fs : List Cont) (hfs : contsValid fs) (t : Item) (isArr : Bool) (q : P) (s : St)
    (l : Int) (hl : ¬ l > 0) (hr0 : RelL q (s :: contsSts fs) (l :: contsLens fs) []) (b : Bytes) :
    let r : R := { p := (handleLenD isArr (depth q) q).1, rest := b,
                   done := (handleLenD isArr (depth q) q).2.1, err := (handleLenD isArr (depth q) q).2.2 }
    r.err ≠ none ∨ (r.rest = b ∧ ROut r (complete t fs)) := by
  have hd : depth q = fs.length + 1 := by rw [hr0.depth, contsSts_length]
  have hlc : q.length.current = l := hr0.lcur
  have hnl : ¬ q.length.current > 0 := by rw [hlc]; exact hl
  simp only [handleLenD, hnl, if_false, hd]
  have hv := hr0.visit (if isArr then Ev.arrEnd else Ev.objEnd)
  rcases hvis : visit q (if isArr then Ev.arrEnd else Ev.objEnd) with ⟨p2, _ | e⟩
  · rw [hvis] at hv
    simp only [popState]
    have := onValue_sim fs hfs t (popSt (popLen p2))
      ((hv.popLen (contsLens_ne_nil fs)).pop (contsSts_ne_nil fs)) fs.length rfl
    exact this.imp id (fun h => ⟨by first | rfl | trivial, h⟩)
  · exact Or.inl (by simp)

theorem stepValue_nil (p : P) : stepValue p [] = { p := p, rest := [] } := rfl

theorem step_startArr (fs : List Cont) (hfs : contsValid fs) (w : W) (n : Nat) (hl : lenOk w n) (p : P)
    (hr : Rel p ⟨fs, .startArr w n⟩) (b : Bytes) :
    SimR (Ctx.wire ⟨fs, .startArr w n⟩) b (execStep p b) true := by
  have hr0 : RelL p (⟨0x84, 1⟩ :: ⟨0x80, 1⟩ :: contsSts fs) ((n : Int) :: contsLens fs) [] := hr
  have hcur := hr0.cur
  rw [execStep_startArr p b (by rw [hcur])]
  have hv := hr0.visit (.arrStart p.length.current BT.any)
  rcases hvis : visit p (.arrStart p.length.current BT.any) with ⟨p2, _ | e⟩
  · rw [hvis] at hv
    simp only []
    have hq : RelL (popSt p2) (⟨0x80, 1⟩ :: contsSts fs) ((n : Int) :: contsLens fs) [] := hv.pop (by simp)
    have hlc : (popSt p2).length.current = (n : Int) := hq.lcur
    by_cases hn : n = 0
    · subst hn
      have hnl : ¬ (popSt p2).length.current > 0 := by rw [hlc]; simp
      simp only [stepArray, hnl, if_false]
      exact finish_value fs hfs (.arr w []) (by simp only [okw, List.length_nil, hl.1, okwList]; simp) _ b [] b rfl
        (handleLen_sim fs hfs _ true (popSt p2) _ _ (by simp) hq b) _
        (by simp [Item.wire, Ctx.wire, Top.wire, wireList]) true (Or.inr rfl)
    · rw [stepArray_pos _ _ (by rw [hlc]; omega)]
      have hq' : RelL (popSt p2) (contsSts (.arr w n [] :: fs)) (contsLens (.arr w n [] :: fs)) [] := by
        refine ⟨hq.st, ?_, hq.buf⟩
        rw [hq.ln]; simp [contsLens, Cont.lens]
      have hfs' : contsValid (.arr w n [] :: fs) := ⟨⟨hl, by simp; omega, rfl⟩, hfs⟩
      cases b with
      | nil =>
        rw [stepValue_nil]
        refine finish_cont ⟨.arr w n [] :: fs, .val⟩ ⟨hfs', rfl⟩ _ [] [] rfl
          (fun _ => ⟨rfl, by exact hq'⟩) _ ?_ true (Or.inr ⟨rfl, rfl⟩)
        simp [Ctx.wire, Top.wire, contsWire, Cont.wire, wireList]
      | cons b0 bs =>
        have := value_sim _ hfs' (popSt p2) hq' b0 bs true
        simpa [Ctx.wire, Top.wire, contsWire, Cont.wire, wireList] using this
  · exact Or.inl (by simp)

theorem step_startArrI (fs : List Cont) (hfs : contsValid fs) (p : P)
    (hr : Rel p ⟨fs, .startArrI⟩) (b0 : UInt8) (bs : Bytes) (pend : Bool) :
    SimR (Ctx.wire ⟨fs, .startArrI⟩) (b0 :: bs) (execStep p (b0 :: bs)) pend := by
  have hr0 : RelL p (⟨0x85, 1⟩ :: ⟨0x81, 1⟩ :: contsSts fs) (contsLens fs) [] := hr
  have hcur := hr0.cur
  rw [execStep_startIndefArr p _ (by rw [hcur])]
  have hv := hr0.visit (.arrStart (-1) BT.any)
  rcases hvis : visit p (.arrStart (-1) BT.any) with ⟨p2, _ | e⟩
  · rw [hvis] at hv
    simp only []
    have := indefArr_sim fs hfs [] rfl (popSt p2) (hv.pop (by simp)) b0 bs pend
    simpa [Ctx.wire, Top.wire, contsWire, Cont.wire, wireList] using this
  · exact Or.inl (by simp)

/-! ## maps -/

def MapK.toV : MapK → W → Bytes → Cont
  | .dfn w n done, kw, k => .mapV w n done kw k
  | .ind done, kw, k => .mapIV done kw k

theorem toV_st (m : MapK) (kw : W) (k : Bytes) : (m.toV kw k).st = m.st := by cases m <;> rfl
theorem toV_lens (m : MapK) (kw : W) (k : Bytes) : (m.toV kw k).lens = m.lens := by cases m <;> rfl
theorem toV_wire (m : MapK) (kw : W) (k : Bytes) :
    (m.toV kw k).wire = m.wire ++ (head 3 kw k.length ++ k) := by
  cases m <;> simp [MapK.toV, Cont.wire, MapK.wire]
theorem toV_valid (m : MapK) (hm : m.valid) (kw : W) (k : Bytes) (hk : lenOk kw k.length) :
    (m.toV kw k).valid := by
  cases m with
  | dfn w n done => exact ⟨hm.1, hm.2.1, hm.2.2, hk⟩
  | ind done => exact ⟨hm, hk⟩
theorem toV_isMapV (m : MapK) (kw : W) (k : Bytes) (fs : List Cont) : topIsMapV (m.toV kw k :: fs) = true := by
  cases m <;> rfl

/-- the key is complete: the parser sits in `stElem` on top of the map -/
theorem elem_rel (fs : List Cont) (m : MapK) (kw : W) (k : Bytes) (q : P)
    (hq : RelL q (⟨0xa9, 1⟩ :: m.st :: contsSts fs) (m.lens ++ contsLens fs) []) :
    Rel q ⟨m.toV kw k :: fs, .elem⟩ := by
  refine ⟨?_, ?_, hq.buf⟩
  · rw [hq.st]; simp [Ctx.sts, Top.sts, contsSts, toV_st]
  · rw [hq.ln]; simp [Ctx.lens, Top.lens, contsLens, toV_lens]

theorem keyStr_sim (fs : List Cont) (hfs : contsValid fs) (m : MapK) (hm : m.valid) (w : W) (n : Nat)
    (hl : lenOk w n) (got : Bytes) (hg : got.length < n) (p : P)
    (hr0 : RelL p (⟨0xa8, 1⟩ :: m.st :: contsSts fs) ((n : Int) :: (m.lens ++ contsLens fs)) got)
    (b : Bytes) (pend : Bool) (hb : b ≠ [] ∨ pend = true) :
    SimR (contsWire fs ++ (m.wire ++ (head 3 w n ++ got))) b (stepKey p b) pend := by
  have hlc : p.length.current = (n : Int) := hr0.lcur
  obtain ⟨p', rest, v, hc, hcase⟩ := collectP_sim hr0 n hg b
  simp only [stepKey, hlc, Int.toNat_natCast, hc]
  rcases hcase with ⟨rfl, rfl, h3, h4⟩ | ⟨used, h2, h3, rfl, h4⟩
  · simp only []
    refine finish_cont ⟨fs, .key m (.str w n (got ++ b))⟩ ⟨hfs, hm, hl, by simpa using h3⟩ _ b b (by simp)
      (fun _ => ⟨rfl, by exact h4⟩) _ ?_ pend ?_
    · simp [Ctx.wire, Top.wire, KeyTop.wire]
    · rcases hb with hb | hb
      · exact Or.inl hb
      · exact Or.inr ⟨hb, rfl⟩
  · simp only []
    have hu : used ≠ [] := by intro hu; subst hu; simp at h3; omega
    have hv := h4.visit (.key (got ++ used))
    rcases hvis : visit p' (.key (got ++ used)) with ⟨p2, _ | e⟩
    · rw [hvis] at hv
      simp only []
      have hmne : (m.lens ++ contsLens fs) ≠ [] := by simp [contsLens_ne_nil]
      refine finish_cont ⟨m.toV w (got ++ used) :: fs, .elem⟩
        ⟨⟨toV_valid m hm _ _ (by rw [h3]; exact hl), hfs⟩, toV_isMapV _ _ _ _⟩ _ b used h2
        (fun _ => ⟨rfl, ?_⟩) _ ?_ pend (Or.inl hu)
      · exact elem_rel fs m _ _ _ ((hv.popLen hmne).setMajor stElem)
      · simp [Ctx.wire, Top.wire, contsWire, toV_wire, h3]
    · exact Or.inl (by simp)

theorem step_keyStr (fs : List Cont) (hfs : contsValid fs) (m : MapK) (hm : m.valid) (w : W) (n : Nat)
    (hl : lenOk w n) (got : Bytes) (hg : got.length < n) (p : P)
    (hr : Rel p ⟨fs, .key m (.str w n got)⟩) (b : Bytes) (hb : b ≠ []) (pend : Bool) :
    SimR (Ctx.wire ⟨fs, .key m (.str w n got)⟩) b (execStep p b) pend := by
  have hr0 : RelL p (⟨0xa8, 1⟩ :: m.st :: contsSts fs) ((n : Int) :: (m.lens ++ contsLens fs)) got := hr
  have hcur := hr0.cur
  rw [execStep_key p b (by rw [hcur])]
  have := keyStr_sim fs hfs m hm w n hl got hg p hr0 b pend (Or.inl hb)
  simpa [Ctx.wire, Top.wire, KeyTop.wire] using this

theorem step_keyStart (fs : List Cont) (hfs : contsValid fs) (m : MapK) (hm : m.valid) (w : W) (n : Nat)
    (hl : lenOk w n) (p : P) (hr : Rel p ⟨fs, .key m (.start w n)⟩) (b : Bytes) :
    SimR (Ctx.wire ⟨fs, .key m (.start w n)⟩) b (execStep p b) true := by
  have hr0 : RelL p (⟨0xac, 1⟩ :: m.st :: contsSts fs) ((n : Int) :: (m.lens ++ contsLens fs)) [] := hr
  have hcur := hr0.cur
  have hlc : p.length.current = (n : Int) := hr0.lcur
  rw [execStep_keyStart p b (by rw [hcur])]
  simp only [hlc, int_natCast_eq_zero]
  by_cases hn : n = 0
  · subst hn
    simp only [beq_self_eq_true, if_true]
    have hv := hr0.visit (.key [])
    rcases hvis : visit p (.key []) with ⟨p2, _ | e⟩
    · rw [hvis] at hv
      simp only []
      have hmne : (m.lens ++ contsLens fs) ≠ [] := by simp [contsLens_ne_nil]
      refine finish_cont ⟨m.toV w [] :: fs, .elem⟩
        ⟨⟨toV_valid m hm _ _ hl, hfs⟩, toV_isMapV _ _ _ _⟩ _ b [] rfl
        (fun _ => ⟨rfl, ?_⟩) _ ?_ true (Or.inr ⟨rfl, rfl⟩)
      · exact elem_rel fs m _ _ _ ((hv.popLen hmne).setMajor stElem)
      · simp [Ctx.wire, Top.wire, KeyTop.wire, contsWire, toV_wire]
    · exact Or.inl (by simp)
  · have hn' : (n == 0) = false := by simpa using hn
    simp only [hn', Bool.false_eq_true, if_false]
    have := keyStr_sim fs hfs m hm w n hl [] (by simp; omega) (setMajor p stKey) (hr0.setMajor stKey) b true
      (Or.inr rfl)
    simpa [Ctx.wire, Top.wire, KeyTop.wire] using this

theorem indefMap_sim (fs : List Cont) (hfs : contsValid fs) (done : List Mem) (hd : okwMems done = true)
    (p : P) (hr0 : RelL p (⟨0xa1, 1⟩ :: contsSts fs) (contsLens fs) []) (b0 : UInt8) (bs : Bytes)
    (pend : Bool) :
    SimR (contsWire fs ++ (MapK.ind done).wire) (b0 :: bs) (indefMap p (b0 :: bs)) pend := by
  by_cases h : b0 = 0xff
  · subst h
    simp only [indefMap, codeBreak, beq_self_eq_true, if_true]
    have hv := hr0.visit .objEnd
    rcases hvis : visit p .objEnd with ⟨p2, _ | e⟩
    · rw [hvis] at hv
      simp only []
      exact finish_value fs hfs (.mapIndef done) (by simpa [okw] using hd) _ (0xff :: bs) [0xff] bs rfl
        (popStateR_sim fs hfs _ p2 _ hv bs) _ (by simp [Item.wire, MapK.wire]) pend
        (Or.inl (by simp))
    · exact Or.inl (by simp)
  · rw [indefMap_key p b0 bs h]
    exact key_sim fs hfs (.ind done) hd p hr0 b0 bs pend

theorem step_keyExpect (fs : List Cont) (hfs : contsValid fs) (m : MapK) (hm : m.valid) (p : P)
    (hr : Rel p ⟨fs, .key m .expect⟩) (b0 : UInt8) (bs : Bytes) (pend : Bool) :
    SimR (Ctx.wire ⟨fs, .key m .expect⟩) (b0 :: bs) (execStep p (b0 :: bs)) pend := by
  have hw : Ctx.wire ⟨fs, .key m .expect⟩ = contsWire fs ++ m.wire := by simp [Ctx.wire, Top.wire, KeyTop.wire]
  rw [hw]
  cases m with
  | dfn w n done =>
    have hr0 : RelL p (⟨0xa0, 1⟩ :: contsSts fs) (((n : Int) - done.length) :: contsLens fs) [] := hr
    have hcur := hr0.cur
    have hlc : p.length.current = (n : Int) - done.length := hr0.lcur
    have hpos : p.length.current > 0 := by rw [hlc]; have := hm.2.1; omega
    rw [execStep_map p _ (by rw [hcur])]
    simp only [stepMap, hpos, if_true, List.length_cons, Nat.zero_lt_succ, gt_iff_lt]
    exact key_sim fs hfs (.dfn w n done) hm p hr b0 bs pend
  | ind done =>
    have hr0 : RelL p (⟨0xa1, 1⟩ :: contsSts fs) (contsLens fs) [] := hr
    have hcur := hr0.cur
    rw [execStep_indefMap p _ (by rw [hcur])]
    exact indefMap_sim fs hfs done hm p hr0 b0 bs pend

theorem step_startMap (fs : List Cont) (hfs : contsValid fs) (w : W) (n : Nat) (hl : lenOk w n) (p : P)
    (hr : Rel p ⟨fs, .startMap w n⟩) (b : Bytes) :
    SimR (Ctx.wire ⟨fs, .startMap w n⟩) b (execStep p b) true := by
  have hr0 : RelL p (⟨0xa4, 1⟩ :: ⟨0xa0, 1⟩ :: contsSts fs) ((n : Int) :: contsLens fs) [] := hr
  have hcur := hr0.cur
  rw [execStep_startMap p b (by rw [hcur])]
  have hv := hr0.visit (.objStart p.length.current BT.any)
  rcases hvis : visit p (.objStart p.length.current BT.any) with ⟨p2, _ | e⟩
  · rw [hvis] at hv
    simp only []
    have hq : RelL (popSt p2) (⟨0xa0, 1⟩ :: contsSts fs) ((n : Int) :: contsLens fs) [] := hv.pop (by simp)
    have hlc : (popSt p2).length.current = (n : Int) := hq.lcur
    by_cases hn : n = 0
    · subst hn
      have hnl : ¬ (popSt p2).length.current > 0 := by rw [hlc]; simp
      simp only [stepMap, hnl, if_false]
      exact finish_value fs hfs (.map w []) (by simp only [okw, List.length_nil, hl.1, okwMems]; simp) _ b [] b rfl
        (handleLen_sim fs hfs _ false (popSt p2) _ _ (by simp) hq b) _
        (by simp [Item.wire, Ctx.wire, Top.wire, wireMems]) true (Or.inr rfl)
    · have hpos : (popSt p2).length.current > 0 := by rw [hlc]; omega
      have hmv : (MapK.dfn w n []).valid := ⟨hl, by simp; omega, rfl⟩
      have hq' : Rel (popSt p2) ⟨fs, .key (.dfn w n []) .expect⟩ := by
        refine ⟨hq.st, ?_, hq.buf⟩
        rw [hq.ln]; simp [Ctx.lens, Top.lens, KeyTop.lens, MapK.lens]
      simp only [stepMap, hpos, if_true]
      cases b with
      | nil =>
        simp only [List.length_nil, Nat.lt_irrefl, gt_iff_lt, if_false]
        refine finish_cont ⟨fs, .key (.dfn w n []) .expect⟩ ⟨hfs, hmv, trivial⟩ _ [] [] rfl
          (fun _ => ⟨rfl, by exact hq'⟩) _ ?_ true (Or.inr ⟨rfl, rfl⟩)
        simp [Ctx.wire, Top.wire, KeyTop.wire, MapK.wire, wireMems]
      | cons b0 bs =>
        simp only [List.length_cons, Nat.zero_lt_succ, gt_iff_lt, if_true]
        have := key_sim fs hfs (.dfn w n []) hmv (popSt p2) hq' b0 bs true
        simpa [Ctx.wire, Top.wire, MapK.wire, wireMems] using this
  · exact Or.inl (by simp)

theorem step_startMapI (fs : List Cont) (hfs : contsValid fs) (p : P)
    (hr : Rel p ⟨fs, .startMapI⟩) (b0 : UInt8) (bs : Bytes) (pend : Bool) :
    SimR (Ctx.wire ⟨fs, .startMapI⟩) (b0 :: bs) (execStep p (b0 :: bs)) pend := by
  have hr0 : RelL p (⟨0xa5, 1⟩ :: ⟨0xa1, 1⟩ :: contsSts fs) (contsLens fs) [] := hr
  have hcur := hr0.cur
  rw [execStep_startIndefMap p _ (by rw [hcur])]
  have hv := hr0.visit (.objStart (-1) BT.any)
  rcases hvis : visit p (.objStart (-1) BT.any) with ⟨p2, _ | e⟩
  · rw [hvis] at hv
    simp only []
    have := indefMap_sim fs hfs [] rfl (popSt p2) (hv.pop (by simp)) b0 bs pend
    simpa [Ctx.wire, Top.wire, MapK.wire, wireMems] using this
  · exact Or.inl (by simp)


/-! ## one step, all states -/

/-- ONE STEP.  From a state described by a well-formed context `c`, on any input the main
loop can pass (non-empty, or empty in a start-pending state), `execStep` either reports an
error or
  * consumes a prefix `used` of the input,
  * ends in a state that is again described by a well-formed context accounting for the
    bytes consumed so far plus `used` — or completes a well-formed item whose wire form is
    exactly those bytes and reports `done` —, and
  * consumes at least one byte unless it leaves a start-pending state for a non-pending one. -/
theorem step_sim (c : Ctx) (hv : c.Valid) (p : P) (hr : Rel p c) (b : Bytes)
    (hb : b ≠ [] ∨ c.pending = true) : SimR c.wire b (execStep p b) c.pending := by
  obtain ⟨fs, top⟩ := c
  obtain ⟨hfs, ht⟩ := hv
  cases top with
  | val =>
    have hb' : b ≠ [] := by rcases hb with h | h; exact h; simp [Ctx.pending, Top.pending] at h
    cases b with
    | nil => exact absurd rfl hb'
    | cons b0 bs => exact step_val fs hfs ht p hr b0 bs _
  | elem =>
    have hb' : b ≠ [] := by rcases hb with h | h; exact h; simp [Ctx.pending, Top.pending] at h
    cases b with
    | nil => exact absurd rfl hb'
    | cons b0 bs => exact step_elem fs hfs p hr b0 bs _
  | arg k w got =>
    have hb' : b ≠ [] := by rcases hb with h | h; exact h; simp [Ctx.pending, Top.pending] at h
    cases k with
    | uint => exact step_uint fs hfs w got ht.1 ht.2 p hr b hb' _
    | nint => exact step_nint fs hfs w got ht.1 ht.2 p hr b hb' _
    | lenBytes => exact step_lenBytes fs hfs w got ht.1 ht.2 p hr b hb' _
    | lenText => exact step_lenText fs hfs w got ht.1 ht.2 p hr b hb' _
    | lenArr => exact step_lenArr fs hfs w got ht.1 ht.2 p hr b hb' _
    | lenMap => exact step_lenMap fs hfs w got ht.1 ht.2 p hr b hb' _
  | f32 got =>
    have hb' : b ≠ [] := by rcases hb with h | h; exact h; simp [Ctx.pending, Top.pending] at h
    exact step_f32 fs hfs got ht p hr b hb' _
  | f64 got =>
    have hb' : b ≠ [] := by rcases hb with h | h; exact h; simp [Ctx.pending, Top.pending] at h
    exact step_f64 fs hfs got ht p hr b hb' _
  | startStr isText w n =>
    cases isText with
    | false => exact step_startBytes fs hfs w n ht p hr b
    | true => exact step_startText fs hfs w n ht p hr b
  | str isText w n got started =>
    have hb' : b ≠ [] := by rcases hb with h | h; exact h; simp [Ctx.pending, Top.pending] at h
    cases isText with
    | false => exact step_bytes fs hfs w n ht.1 got ht.2 started p hr b hb' _
    | true => exact step_text fs hfs w n ht.1 got ht.2 started p hr b hb' _
  | startArr w n => exact step_startArr fs hfs w n ht p hr b
  | startMap w n => exact step_startMap fs hfs w n ht p hr b
  | startArrI =>
    have hb' : b ≠ [] := by rcases hb with h | h; exact h; simp [Ctx.pending, Top.pending] at h
    cases b with
    | nil => exact absurd rfl hb'
    | cons b0 bs => exact step_startArrI fs hfs p hr b0 bs _
  | startMapI =>
    have hb' : b ≠ [] := by rcases hb with h | h; exact h; simp [Ctx.pending, Top.pending] at h
    cases b with
    | nil => exact absurd rfl hb'
    | cons b0 bs => exact step_startMapI fs hfs p hr b0 bs _
  | key m kt =>
    obtain ⟨hm, hk⟩ := ht
    cases kt with
    | expect =>
      have hb' : b ≠ [] := by rcases hb with h | h; exact h; simp [Ctx.pending, Top.pending] at h
      cases b with
      | nil => exact absurd rfl hb'
      | cons b0 bs => exact step_keyExpect fs hfs m hm p hr b0 bs _
    | lenArg w got =>
      have hb' : b ≠ [] := by rcases hb with h | h; exact h; simp [Ctx.pending, Top.pending] at h
      exact step_lenKey fs hfs m hm w got hk.1 hk.2 p hr b hb' _
    | start w n => exact step_keyStart fs hfs m hm w n hk p hr b
    | str w n got =>
      have hb' : b ≠ [] := by rcases hb with h | h; exact h; simp [Ctx.pending, Top.pending] at h
      exact step_keyStr fs hfs m hm w n hk.1 got hk.2 p hr b hb' _

end SF.Cbor.Sim
