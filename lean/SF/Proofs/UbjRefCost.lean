/-
  UBJSON refinement: the loop cost of an item is linear in its wire length plus the number of
  payload-free elements of typed arrays.
-/
import SF.Proofs.UbjRefine
namespace SF.Ubjson.Parse
open SF SF.Ubjson SF.Ubjson.Syn
open StateType StateStep

/-! ## cost bounds: linear in the wire length plus the payload-free elements -/

mutual
/-- number of payload-free (Z / T / F) elements of typed arrays, all levels -/
def free : Item → Nat
  | .arr xs _ => freeElems xs
  | .arrN _ xs => freeElems xs
  | .arrT _ _ xs => freeList xs
  | .obj ms => freeMems ms
  | .objN _ ms => freeMems ms
  | .objT _ _ ms => freeMems ms
  | _ => 0
def freeElems : List (Nat × Item) → Nat
  | [] => 0
  | (_, x) :: xs => free x + freeElems xs
def freeList : List Item → Nat
  | [] => 0
  | x :: xs => (if isLit x then 1 else free x) + freeList xs
def freeMems : List (LW × Bytes × Item) → Nat
  | [] => 0
  | (_, _, v) :: ms => free v + freeMems ms
end

theorem lenWire_length (w : LW) (n : Nat) : (lenWire w n).length = 1 + w.bytes := by
  simp [lenWire]; omega

theorem lw_bytes_pos (w : LW) : 1 ≤ w.bytes := by cases w <;> simp [LW.bytes]
theorem ik_bytes_pos (k : IK) : 1 ≤ k.bytes := by cases k <;> simp [IK.bytes]

theorem noops_length (n : Nat) : (noops n).length = n := by simp [noops]

mutual
theorem cost_le (x : Item) (hl : isLit x = false) : pcost x + 1 ≤ 3 * x.payload.length + 2 * free x := by
  match x with
  | .null | .tru | .fals => simp [isLit] at hl
  | .int k v => have := ik_bytes_pos k; simp only [pcost, Item.payload, twos_length, free]; omega
  | .f32 b => simp [pcost, Item.payload, free]
  | .f64 b => simp [pcost, Item.payload, free]
  | .char c => simp [pcost, Item.payload, free]
  | .str w s => have := lw_bytes_pos w; simp only [pcost, Item.payload, List.length_append, lenWire_length, free]; omega
  | .hp w s => have := lw_bytes_pos w; simp only [pcost, Item.payload, List.length_append, lenWire_length, free]; omega
  | .arr xs t =>
    have := costElems_le xs
    simp only [pcost, Item.payload, List.length_append, noops_length, List.length_cons, List.length_nil, free]; omega
  | .arrN w xs =>
    have := costElems_le xs; have := lw_bytes_pos w
    simp only [pcost, Item.payload, List.length_append, List.length_cons, lenWire_length, free]; omega
  | .arrT t w xs =>
    have := costTyped_le xs; have := lw_bytes_pos w
    simp only [pcost, Item.payload, List.length_append, List.length_cons, lenWire_length, free]; omega
  | .obj ms =>
    have := costMems_le ms
    simp only [pcost, Item.payload, List.length_append, List.length_cons, List.length_nil, free]; omega
  | .objN w ms =>
    have := costMems_le ms; have := lw_bytes_pos w
    simp only [pcost, Item.payload, List.length_append, List.length_cons, lenWire_length, free]; omega
  | .objT t w ms =>
    have := costMemsT_le ms; have := lw_bytes_pos w
    simp only [pcost, Item.payload, List.length_append, List.length_cons, lenWire_length, free]; omega
theorem costElems_le (xs : List (Nat × Item)) : costElems xs ≤ 3 * (wireElems xs).length + 2 * freeElems xs := by
  match xs with
  | [] => simp [costElems]
  | (n, x) :: xs =>
    have h2 := costElems_le xs
    simp only [costElems, wireElems, List.length_append, List.length_cons, noops_length, freeElems]
    by_cases hl : isLit x = true
    · simp only [hl, if_true]; omega
    · have hl' : isLit x = false := by simpa using hl
      have h1 := cost_le x hl'
      simp only [hl', Bool.false_eq_true, if_false]; omega
theorem costTyped_le (xs : List Item) : costTyped xs ≤ 3 * (payList xs).length + 2 * freeList xs := by
  match xs with
  | [] => simp [costTyped]
  | x :: xs =>
    have h2 := costTyped_le xs
    simp only [costTyped, payList, List.length_append, freeList]
    by_cases hl : isLit x = true
    · have : pcost x = 1 := by cases x <;> simp [isLit] at hl <;> rfl
      simp only [hl, if_true]; omega
    · have hl' : isLit x = false := by simpa using hl
      have h1 := cost_le x hl'
      simp only [hl', Bool.false_eq_true, if_false]; omega
theorem costMems_le (ms : List (LW × Bytes × Item)) : costMems ms ≤ 3 * (wireMems ms).length + 2 * freeMems ms := by
  match ms with
  | [] => simp [costMems]
  | (kw, k, v) :: ms =>
    have h2 := costMems_le ms; have := lw_bytes_pos kw
    simp only [costMems, wireMems, List.length_append, List.length_cons, lenWire_length, freeMems]
    by_cases hl : isLit v = true
    · simp only [hl, if_true]; omega
    · have hl' : isLit v = false := by simpa using hl
      have h1 := cost_le v hl'
      simp only [hl', Bool.false_eq_true, if_false]; omega
theorem costMemsT_le (ms : List (LW × Bytes × Item)) : costMemsT ms ≤ 3 * (payMems ms).length + 2 * freeMems ms := by
  match ms with
  | [] => simp [costMemsT]
  | (kw, k, v) :: ms =>
    have h2 := costMemsT_le ms; have := lw_bytes_pos kw
    simp only [costMemsT, payMems, List.length_append, lenWire_length, freeMems]
    by_cases hl : isLit v = true
    · have : pcost v = 1 := by cases v <;> simp [isLit] at hl <;> rfl
      omega
    · have hl' : isLit v = false := by simpa using hl
      have h1 := cost_le v hl'
      omega
end

/-- iterations for a value after its marker step: at most 3 per wire byte plus 2 per
payload-free element -/
theorem vcost_le (x : Item) : vcost x + 1 ≤ 3 * x.wire.length + 2 * free x := by
  simp only [vcost, Item.wire, List.length_cons]
  by_cases hl : isLit x = true
  · simp only [hl, if_true]; omega
  · have hl' : isLit x = false := by simpa using hl
    have := cost_le x hl'
    simp only [hl', Bool.false_eq_true, if_false]; omega

end SF.Ubjson.Parse
