/-
  Property C09 with the gotype fold as producer, universe with custom code — the run side (cf.
  FoldWfRun): a typed folder (`FVc` / `FIc` / `FMc`, CusWfType) run on a typed value (`wtC`) on a
  healthy user visitor, IF it returns ok, has delivered one conforming value / conforming
  members.  New against FoldWfRun: the leaves (custom folders: `LeafW`, CusWfLeaf), `embedd`
  (inline fields of a type with a custom folder: through an `ExpectObjVisitor`), dynamic types
  with custom code in `foldInterfaceValue`, the `IsZero()` resolvers of `omitempty` fields.
-/
import SF.Proofs.CusWfLeaf
import SF.Proofs.CusWfType
import SF.Proofs.CusMain
import SF.Proofs.FoldWfRun
namespace SF.FoldProofs.Custom.WfC
open SF SF.Gotype SF.Gotype.Fold SF.Gotype.Rules SF.FoldProofs.Wf

variable {reg : Bool}

/-! ## the resolvers of an `omitempty` field keep a typed value -/

/-- resolvers that keep the value they are given, or drop it -/
def sameR : Resolver → Bool
  | .bySize | .isZeroer | .isZeroerPtr => true
  | _ => false

theorem applyResolvers_same : ∀ (rs : List Resolver) (f : Nat) (rv rv' : RV), (∀ r ∈ rs, sameR r = true) →
    applyResolvers f rs rv = .keep rv' → rv' = rv := by
  intro rs
  induction rs with
  | nil =>
    intro f rv rv' _ h
    cases f with
    | zero => simp [applyResolvers] at h
    | succ f => rw [applyResolvers_nil] at h; cases h; rfl
  | cons r rs ih =>
    intro f rv rv' hr h
    have hrs : ∀ r' ∈ rs, sameR r' = true := fun r' hr' => hr r' (List.mem_cons_of_mem _ hr')
    cases f with
    | zero => simp [applyResolvers] at h
    | succ f =>
      have h0 := hr r (by simp)
      cases r with
      | bySize =>
        rw [applyResolvers_bySize] at h
        cases hl : len? rv.v with
        | none => simp [hl] at h
        | some l =>
          simp only [hl] at h
          by_cases hl0 : l > 0
          · rw [if_pos hl0] at h; exact ih f rv rv' hrs h
          · rw [if_neg hl0] at h; cases h
      | isZeroer =>
        rw [applyResolvers_isZeroer] at h
        cases hz : isZeroCall rv with
        | none => simp [hz] at h
        | some b =>
          simp only [hz] at h
          cases b with
          | true => simp at h
          | false => simp only [Bool.false_eq_true, if_false] at h; exact ih f rv rv' hrs h
      | isZeroerPtr =>
        rw [applyResolvers_isZeroerPtr] at h
        cases hz : isZeroCall ⟨.ptr rv.t, .ptr rv.v⟩ with
        | none => simp [hz] at h
        | some b =>
          simp only [hz] at h
          cases b with
          | true => simp at h
          | false => simp only [Bool.false_eq_true, if_false] at h; exact ih f rv rv' hrs h
      | interfaceLazy => simp [sameR] at h0
      | pointers n => simp [sameR] at h0

theorem base_chain_same (bt : GoType) :
    ∀ r ∈ (if isSized bt then [Resolver.bySize] else []) ++ isZeroers bt, sameR r = true := by
  intro r hr
  unfold isZeroers at hr
  rcases List.mem_append.mp hr with h | h
  · split at h <;> simp at h; subst h; rfl
  · split at h
    · simp at h; subst h; rfl
    · split at h
      · simp at h; subst h; rfl
      · simp at h

/-- what the resolver chain of a field of type `t` keeps -/
structure KeepOKc (reg : Bool) (t : GoType) (rv : RV) : Prop where
  typed : wtC reg rv.t rv.v = true
  good : ∃ sn, goodC reg sn rv.t = true
  depth : tdepth rv.t ≤ 1000
  base : isIfaceT (stripPtr t).2 = false → rv.t = (stripPtr t).2

theorem resolve_keepC : ∀ (F : Nat) (sn : List String) (t : GoType) (x : GoVal) (rv : RV),
    goodC reg sn t = true → wtC reg t x = true → tdepth t ≤ 1000 →
    applyResolvers F (makeResolveNonEmptyValue t) ⟨t, x⟩ = .keep rv → KeepOKc reg t rv := by
  intro F
  induction F using Nat.strongRecOn with
  | _ F ih =>
    intro sn t x rv hp hw hdt h
    rw [mrnev_gen hp hdt] at h
    have hwalk := ptrWalk_good sn t hp x hw
    obtain ⟨sn', _, hpb⟩ := good_stripPtr t sn hp
    have hdb := tdepth_stripPtr t
    -- the value behind the pointers: the rest of the chain on it
    have tail : ∀ (f : Nat) (x' : GoVal), f ≤ F → wtC reg (stripPtr t).2 x' = true →
        applyResolvers f (if isIfaceT (stripPtr t).2 then [Resolver.interfaceLazy]
            else (if isSized (stripPtr t).2 then [Resolver.bySize] else []) ++ isZeroers (stripPtr t).2)
          ⟨(stripPtr t).2, x'⟩ = .keep rv →
        KeepOKc reg t rv := by
      intro f x' hf hx' h
      by_cases hi : isIfaceT (stripPtr t).2 = true
      · cases f with
        | zero => simp [applyResolvers] at h
        | succ f1 =>
        have hu : (stripPtr t).2.under = .iface := by
          unfold isIfaceT at hi
          cases hU : (stripPtr t).2.under <;> simp_all
        rw [if_pos hi, applyResolvers_lazy] at h
        rcases wt_iface_inv hu hx' with rfl | ⟨dt, dv, rfl, hpd, hdd, hwd⟩
        · simp at h
        · simp only [] at h
          by_cases hem : (makeResolveNonEmptyValue dt).isEmpty = true
          · rw [if_pos hem] at h
            cases f1 with
            | zero => simp [applyResolvers] at h
            | succ f2 =>
              rw [applyResolvers_nil] at h
              cases h
              exact ⟨hx', ⟨sn', hpb⟩, (by show tdepth (stripPtr t).2 ≤ 1000; omega), fun _ => rfl⟩
          · rw [if_neg hem] at h
            cases hr : applyResolvers f1 (makeResolveNonEmptyValue dt) ⟨dt, dv⟩ with
            | keep rv' =>
              rw [hr] at h
              simp only [] at h
              have hk := ih f1 (by omega) [] dt dv rv' hpd hwd (by unfold dynBound at hdd; omega) hr
              cases f1 with
              | zero => simp [applyResolvers] at h
              | succ f2 =>
                rw [applyResolvers_nil] at h
                cases h
                exact ⟨hk.typed, hk.good, hk.depth, fun hc => by rw [hi] at hc; cases hc⟩
            | drop => rw [hr] at h; simp at h
            | panic => rw [hr] at h; simp at h
      · rw [if_neg hi] at h
        have := applyResolvers_same _ f _ rv (base_chain_same (stripPtr t).2) h
        subst this
        exact ⟨hx', ⟨sn', hpb⟩, (by show tdepth (stripPtr t).2 ≤ 1000; omega), fun _ => rfl⟩
    -- assemble
    cases F with
    | zero =>
      simp [applyResolvers] at h
    | succ F1 =>
    by_cases hn : 1 ≤ (stripPtr t).1
    · rw [if_pos hn, List.singleton_append, applyResolvers_pointers, hwalk] at h
      cases hdr : deref (stripPtr t).1 x with
      | none => rw [hdr] at h; simp at h
      | some x' =>
        rw [hdr] at h
        simp only [] at h
        exact tail F1 x' (by omega) (deref_wt sn t hp x x' hw hdr).1 h
    · have hn0 : (stripPtr t).1 = 0 := by omega
      have hb := stripPtr_zero hp hn0
      rw [if_neg hn, List.nil_append] at h
      refine tail (F1 + 1) x (Nat.le_refl _) (by rw [hb]; exact hw) ?_
      rw [hb]
      rw [hb] at h
      exact h

/-! ## typed fields -/

theorem FMsc_mem {fs : List Field} {fields : List ReFold} (h : FMsc reg fs fields) {f : ReFold} (hf : f ∈ fields) :
    FMc reg fs f := by
  induction fields with
  | nil => cases hf
  | cons g l ih =>
    simp only [FMsc] at h
    rcases List.mem_cons.mp hf with rfl | hf'
    · exact h.1
    · exact ih h.2 hf'

theorem field_typedC {T : GoType} {fs : List Field} {v : GoVal} (hu : T.under = .struct fs) (hw : wtC reg T v = true)
    {idx : Nat} {fld : Field} (hf : fs[idx]? = some fld) {fv : RV} (h : RV.field ⟨T, v⟩ idx = some fv) :
    ∃ x, fv = ⟨fld.typ, x⟩ ∧ wtC reg fld.typ x = true := by
  obtain ⟨vs, rfl, hwf⟩ := wt_struct_inv hu hw
  simp only [RV.field, hu, hf] at h
  cases hx : vs[idx]? with
  | none => simp [hx] at h
  | some x =>
    simp only [hx, Option.some.injEq] at h
    exact ⟨x, h.symm, wtF_get hwf hf hx⟩

/-! ## the leaves -/

/-- the compiled folder of a type with a custom folder, whatever the fuel: if it returns ok, it
delivered the events of that folder -/
theorem run_leafC1_ok (rf : Nat) (o : FoldOpts) (c : VisRef) {n : String} {mm : Methods} {u : GoType}
    {n' : String} {b : Bool} (hu : badKind u = false)
    (hc : customOf reg (.named n mm u) = some (n', b)) (v : GoVal) (s s' : St)
    (h : run (rf + 1) o c (leafC1 reg n) ⟨.named n mm u, v⟩ s = (s', .ok)) :
    deliverAll c s (customEvents n' (recvOf b v)) = (s', .ok) := by
  cases rf with
  | succ rf => rw [run_leafC1 rf o c hu hc v s] at h; exact h
  | zero =>
    obtain ⟨rfl, hcs⟩ := customOf_cases hc
    have hnp : ∀ e, (GoType.named n' mm u).under ≠ .ptr e := by
      intro e he
      simp only [GoType.under] at he
      subst he
      simp [badKind] at hu
    unfold leafC1 at h
    rcases hcs with ⟨hr, rfl⟩ | ⟨hr, hm, rfl⟩ | ⟨hr, hm, rfl⟩
    · simp only [hr, if_true, run_userVal] at h
      simpa [recvOf] using h
    · simp only [hr, Bool.false_eq_true, if_false] at h
      rw [run_folderIfc] at h
      have h1 : implementsFolder (.named n' mm u) = true := by rw [implementsFolder_named, hm]; rfl
      simp only [h1, if_true, isNilValueFolder_nonptr v hnp, Bool.false_eq_true, if_false] at h
      have hfe : folderEvents ⟨.named n' mm u, v⟩ = customEvents n' v := rfl
      rw [hfe] at h
      simpa [recvOf] using h
    · simp only [hr, Bool.false_eq_true, if_false] at h
      rw [run_folderIfc] at h
      have h1 : implementsFolder (.named n' mm u) = false := by rw [implementsFolder_named, hm]; rfl
      simp only [h1, Bool.false_eq_true, if_false] at h
      simp [run] at h

theorem custom_of_c1 {T : GoType} (h1 : isC1 reg T = true) : ∃ n' b, customOf reg T = some (n', b) := by
  obtain ⟨p, hcp⟩ := Option.isSome_iff_exists.mp h1
  exact ⟨p.1, p.2, hcp⟩

/-- a leaf on a healthy user visitor: one conforming value -/
theorem leaf_run_user (rf : Nat) (o : FoldOpts) {T : GoType} {f : ReFold} {v : GoVal} {s s' : St}
    (hf : LeafT reg T f) (hw : wtC reg T v = true) (hs : H s)
    (h : run (rf + 1) o .user f ⟨T, v⟩ s = (s', .ok)) : Out s s' IsVal := by
  rcases hf with ⟨sn, n, mm, u, rfl, hg, h1, rfl⟩ | ⟨sn, n, mm, u, rfl, hg, h1, rfl⟩
  · obtain ⟨n', b, hc⟩ := custom_of_c1 h1
    obtain ⟨_, _, _, he, _, hk1, _, _⟩ := c1_shape hg h1
    cases he
    have h2 := run_leafC1_ok rf o .user hk1 hc v s s' h
    obtain ⟨xs, hxs, hl⟩ := cusOK_leaf hc hw
    rw [hxs] at h2
    exact leafW_user hl hs h2
  · obtain ⟨n', b, hc⟩ := custom_of_c1 h1
    rcases wt_ptr_inv' (T := .ptr (.named n mm u)) rfl hw with ⟨rfl, hnt⟩ | ⟨x, rfl, hx, _⟩
    · cases b with
      | true =>
        rw [run_leafC2_nil_ptr rf o .user hc s] at h
        obtain ⟨xs, hxs, hl⟩ := nilTop_leaf hc hnt
        rw [hxs] at h
        exact leafW_user hl hs h
      | false =>
        rw [run_leafC2_nil_val rf o .user hc s] at h
        exact emit_good hs null_good h
    · rw [run_leafC2_ptr rf o .user hc x s] at h
      obtain ⟨xs, hxs, hl⟩ := cusOK_leaf hc hx
      rw [hxs] at h
      exact leafW_user hl hs h

/-- `embeddObjReFold` around the leaf of a type with a custom folder (an `inline` field), on a
healthy user visitor: conforming members (none for a nil value) -/
theorem leaf_run_embedd (rf : Nat) (o : FoldOpts) {sn : List String} {n : String} {mm : Methods} {u : GoType}
    {v : GoVal} {s s' : St}
    (hg : goodC reg sn (.named n mm u) = true) (h1 : isC1 reg (.named n mm u) = true)
    (hw : wtC reg (.named n mm u) v = true) (hs : H s)
    (h : run (rf + 1) o .user (.embedd (leafC1 reg n)) ⟨.named n mm u, v⟩ s = (s', .ok)) :
    ∃ k, Out s s' (IsMems · k) := by
  rw [run_embedd] at h
  by_cases hnil : isNilValue ⟨.named n mm u, v⟩ = true
  · simp only [hnil, if_true, Prod.mk.injEq, and_true] at h
    subst h
    exact ⟨0, [], Dl.refl hs, by simpa [expandAll] using IsMems.nil⟩
  · simp only [hnil, Bool.false_eq_true, if_false] at h
    rcases hrun : run rf o (.exp s.nextVs) (leafC1 reg n) ⟨.named n mm u, v⟩ (newVs s .user) with ⟨s1, r⟩
    rw [hrun] at h
    simp only [Prod.mk.injEq] at h
    obtain ⟨rfl, hr⟩ := h
    have hrok : r = .ok := by
      cases r <;> first | rfl | (split at hr <;> cases hr)
    subst hrok
    cases rf with
    | zero => simp [run] at hrun
    | succ rf =>
      obtain ⟨n', b, hc⟩ := custom_of_c1 h1
      obtain ⟨_, _, _, he, _, hk1, _, _⟩ := c1_shape hg h1
      cases he
      have h2 := run_leafC1_ok rf o (.exp s.nextVs) hk1 hc v (newVs s .user) s1 hrun
      obtain ⟨xs, hxs, hl⟩ := cusOK_leaf hc hw
      rw [hxs] at h2
      exact leafW_embedd hl hs h2

/-! ## dynamic types with custom code -/

theorem fiv_c1_cases (rf : Nat) (o : FoldOpts) (hreg : o.folders = reg) (c : VisRef) {sn : List String} {n : String}
    {mm : Methods} {u : GoType} (hg : goodC reg sn (.named n mm u) = true)
    (h1 : isC1 reg (.named n mm u) = true) (v : GoVal) (s : St) :
    foldInterfaceValue (rf + 1) o c (.iface (.named n mm u) v) s =
      if (reg && userFoldTypes.contains n) = true then run rf o c (.userVal n) ⟨.named n mm u, v⟩ s
      else if mm.folder = .value then run 1 o c .folderIfc ⟨.named n mm u, v⟩ s
      else foldAnyReflect rf o c ⟨.named n mm u, v⟩ s := by
  obtain ⟨_, _, _, he, _, hk1, hk2, _⟩ := c1_shape hg h1
  cases he
  rw [foldInterfaceValue]
  rw [userReg_named hreg]
  by_cases hr : (reg && userFoldTypes.contains n) = true
  · simp only [hr, if_true]
  · have hr' : (reg && userFoldTypes.contains n) = false := by simpa using hr
    simp only [hr', Bool.false_eq_true, if_false, GoType.whnf, getFoldGoTypes_named]
    rw [isC1_named, hr', Bool.false_or] at h1
    cases hm : mm.folder with
    | none => rw [hm] at h1; cases h1
    | value =>
      have hi : implementsFolder (.named n mm u) = true := by rw [implementsFolder_named, hm]; rfl
      simp only [hi, if_true]
      rw [run_folderIfc]
      simp only [hi, if_true]
      unfold deliverAll
      split
      · rfl
      · cases folderEvents ⟨.named n mm u, v⟩ <;> rfl
    | pointer =>
      have hi : implementsFolder (.named n mm u) = false := by rw [implementsFolder_named, hm]; rfl
      simp only [hi, Bool.false_eq_true, if_false, getFoldConvert_c1 hk2 hm, reduceCtorEq]

theorem fiv_c2_cases (rf : Nat) (o : FoldOpts) (hreg : o.folders = reg) (c : VisRef) {n : String}
    {mm : Methods} {u : GoType}
    (h1 : isC1 reg (.named n mm u) = true) (v : GoVal) (s : St) :
    foldInterfaceValue (rf + 1) o c (.iface (.ptr (.named n mm u)) v) s =
      if (reg && userFoldTypes.contains n) = true then run rf o c (.userPtr n) ⟨.ptr (.named n mm u), v⟩ s
      else run 1 o c .folderIfc ⟨.ptr (.named n mm u), v⟩ s := by
  rw [foldInterfaceValue]
  rw [userReg_ptr_named hreg]
  by_cases hr : (reg && userFoldTypes.contains n) = true
  · simp only [hr, if_true]
  · have hr' : (reg && userFoldTypes.contains n) = false := by simpa using hr
    have hi : implementsFolder (.ptr (.named n mm u)) = true := by
      rw [isC1_named, hr', Bool.false_or] at h1
      rw [implementsFolder_ptr_named, h1]
    have hw : (GoType.ptr (.named n mm u)).whnf = .ptr (.named n mm u) := rfl
    have hg : getFoldGoTypes (.ptr (.named n mm u)) = none := rfl
    simp only [hr', Bool.false_eq_true, if_false, hw, hg, hi, if_true]
    rw [run_folderIfc]
    simp only [hi, if_true]
    unfold deliverAll
    split
    · rfl
    · cases folderEvents ⟨.ptr (.named n mm u), v⟩ <;> rfl

/-! ## the induction on the run fuel -/

/-- the claims at one fuel -/
structure RunWfC (o : FoldOpts) (reg : Bool) (rf : Nat) : Prop where
  val : ∀ T f v s s', FVc reg T f → wtC reg T v = true → H s →
    run rf o .user f ⟨T, v⟩ s = (s', .ok) → Out s s' IsVal
  inl : ∀ T f v s s', FIc reg T f → wtC reg T v = true → H s →
    run rf o .user f ⟨T, v⟩ s = (s', .ok) →
    ∃ n, Out s s' (IsMems · n) ∧ (isIterF f = true → ∀ ms, mapEntries? v = some ms → n = ms.length)
  mem : ∀ T fs f v s s', T.under = .struct fs → FMc reg fs f → wtC reg T v = true → H s →
    run rf o .user f ⟨T, v⟩ s = (s', .ok) →
    ∃ n, Out s s' (IsMems · n) ∧ (isFieldF f = true → n = 1)
  ifc : ∀ (rv : RV) s s', wtC reg rv.t rv.v = true → (∃ sn, goodC reg sn rv.t = true) → tdepth rv.t ≤ 1000 → H s →
    run rf o .user .ifaceElem rv s = (s', .ok) → Out s s' IsVal
  fiv : ∀ i s s', wtC reg .iface i = true → H s →
    foldInterfaceValue rf o .user i s = (s', .ok) → Out s s' IsVal
  any : ∀ sn T v s s', goodC reg sn T = true → tdepth T ≤ 1000 → wtC reg T v = true → H s →
    foldAnyReflect rf o .user ⟨T, v⟩ s = (s', .ok) → Out s s' IsVal
  fast : ∀ sn T fa v s s', goodC reg sn T = true → getFoldGoTypes T.under = some fa → wtC reg T v = true → H s →
    runFast rf o .user fa v s = (s', .ok) → Out s s' IsVal

section
variable {o : FoldOpts} (hreg : o.folders = reg)
include hreg

theorem any_stepC {rf : Nat} (ih : RunWfC o reg rf) {sn : List String} {T : GoType} {v : GoVal}
    {s s' : St} (hg : goodC reg sn T = true) (hd : tdepth T ≤ 1000) (hw : wtC reg T v = true) (hs : H s)
    (h : foldAnyReflect (rf + 1) o .user ⟨T, v⟩ s = (s', .ok)) : Out s s' IsVal := by
  rw [foldAnyReflect_eq] at h
  cases hc : getReflectFold compileFuel o {} T with
  | error r =>
    simp only [hc, Prod.mk.injEq] at h
    obtain ⟨_, rfl⟩ := h
    exact absurd hc ((compNE o compileFuel).rf {} T)
  | ok f =>
    simp only [hc] at h
    exact ih.val T f v s s' (compile_FVc o hreg hg hd (OpIn_empty sn) hc) hw hs h

omit hreg in
theorem ifc_stepC {rf : Nat} (ih : RunWfC o reg rf) {rv : RV} {s s' : St}
    (hw : wtC reg rv.t rv.v = true) (hg : ∃ sn, goodC reg sn rv.t = true) (hd : tdepth rv.t ≤ 1000) (hs : H s)
    (h : run (rf + 1) o .user .ifaceElem rv s = (s', .ok)) : Out s s' IsVal := by
  rw [run_ifaceElem] at h
  obtain ⟨sn, hg⟩ := hg
  obtain ⟨T, v⟩ := rv
  simp only [] at hw hg hd h
  by_cases hu : T.under = .iface
  · rw [hu] at h
    simp only [] at h
    rcases wt_iface_inv hu hw with rfl | ⟨dt, dv, rfl, hpd, hdd, hwd⟩
    · exact emit_good hs null_good h
    · exact ih.any [] dt dv s s' hpd (by unfold dynBound at hdd; omega) hwd hs h
  · have h' : foldAnyReflect rf o .user ⟨T, v⟩ s = (s', .ok) := by
      cases hU : T.under <;> first | (exact absurd hU hu) | (simpa [hU] using h)
    exact ih.any sn T v s s' hg hd hw hs h'

theorem fiv_stepC {rf : Nat} (ih : RunWfC o reg rf) {i : GoVal} {s s' : St}
    (hw : wtC reg .iface i = true) (hs : H s)
    (h : foldInterfaceValue (rf + 1) o .user i s = (s', .ok)) : Out s s' IsVal := by
  rcases wt_iface_inv (T := .iface) rfl hw with rfl | ⟨dt, dv, rfl, hpd, hdd, hwd⟩
  · rw [fiv_nil] at h
    exact emit_good hs null_good h
  · have hdd' : tdepth dt ≤ 1000 := by unfold dynBound at hdd; omega
    rcases head_cases hpd with ⟨n, mm, u, rfl, h1⟩ | ⟨n, mm, u, rfl, h1, hge⟩ | hpl
    · -- a dynamic type with a custom folder
      rw [fiv_c1_cases rf o hreg .user hpd h1 dv s] at h
      by_cases hr : (reg && userFoldTypes.contains n) = true
      · rw [if_pos hr] at h
        refine ih.val _ _ dv s s' (leaf_FVc (Or.inl ⟨[], n, mm, u, rfl, hpd, h1, ?_⟩)) hwd hs h
        unfold leafC1; rw [if_pos hr]
      · rw [if_neg hr] at h
        by_cases hm : mm.folder = .value
        · rw [if_pos hm] at h
          refine leaf_run_user 0 o (Or.inl ⟨[], n, mm, u, rfl, hpd, h1, ?_⟩) hwd hs h
          unfold leafC1; rw [if_neg hr]
        · rw [if_neg hm] at h
          exact ih.any [] _ dv s s' hpd hdd' hwd hs h
    · -- a pointer to one
      rw [fiv_c2_cases rf o hreg .user h1 dv s] at h
      by_cases hr : (reg && userFoldTypes.contains n) = true
      · rw [if_pos hr] at h
        refine ih.val _ _ dv s s' (leaf_FVc (Or.inr ⟨[], n, mm, u, rfl, hge, h1, ?_⟩)) hwd hs h
        unfold leafC2; rw [if_pos hr]
      · rw [if_neg hr] at h
        refine leaf_run_user 0 o (Or.inr ⟨[], n, mm, u, rfl, hge, h1, ?_⟩) hwd hs h
        unfold leafC2; rw [if_neg hr]
    · rw [fiv_good rf o hreg .user dv s hpd hpl] at h
      cases hf : fastSel dt with
      | some fa =>
        simp only [hf] at h
        exact ih.fast [] dt fa dv s s' hpd (fastSel_inv hpd hf) hwd hs h
      | none =>
        simp only [hf] at h
        exact ih.any [] dt dv s s' hpd hdd' hwd hs h

omit hreg in
theorem fast_stepC {rf : Nat} (ih : RunWfC o reg rf) {sn : List String} {T : GoType} {fa : Fast}
    {v : GoVal} {s s' : St} (_hg : goodC reg sn T = true) (hf : getFoldGoTypes T.under = some fa)
    (hw : wtC reg T v = true) (hs : H s)
    (h : runFast (rf + 1) o .user fa v s = (s', .ok)) : Out s s' IsVal := by
  cases fa with
  | prim p =>
    rw [runFast_prim] at h
    cases hx : primEv false p v with
    | none => simp [hx] at h
    | some x => simp only [hx] at h; exact emit_good hs (primEv_good hx) h
  | arr p =>
    rw [runFast_arr] at h
    cases hx : (sliceElems? v).bind (arrEv true p) with
    | none => simp [hx] at h
    | some x =>
      simp only [hx] at h
      obtain ⟨xs, _, hxs⟩ := Option.bind_eq_some_iff.mp hx
      exact emit_good hs (arrEv_good hxs) h
  | map p =>
    rw [runFast_map] at h
    cases hx : (mapEntries? v).bind (objEv p) with
    | none => simp [hx] at h
    | some x =>
      simp only [hx] at h
      obtain ⟨ms, _, hms⟩ := Option.bind_eq_some_iff.mp hx
      exact emit_good hs (objEv_good hms) h
  | arrIface =>
    have hu := getFoldGoTypes_arrIface hf
    rw [runFast_arrIface] at h
    have hxs : ∃ xs, sliceElems? v = some xs ∧ wtCL reg .iface xs = true := by
      rcases wt_slice_inv hu hw with rfl | ⟨xs, rfl, hx⟩
      · exact ⟨[], rfl, rfl⟩
      · exact ⟨xs, rfl, hx⟩
    obtain ⟨xs, hxs, hwl⟩ := hxs
    simp only [hxs] at h
    refine Wf.wrap_arr hs xs.length (fun s => seqM (fun s x => foldInterfaceValue rf o .user x s) s xs) ?_ h
    exact Wf.seq_elems _ xs (fun x hx s s' hs h => ih.fiv x s s' (wtL_mem hwl hx) hs h)
  | mapIface =>
    have hu := getFoldGoTypes_mapIface hf
    rw [runFast_mapIface] at h
    cases hes : (mapEntries? v).bind stringKeyed with
    | none => simp [hes] at h
    | some es =>
      simp only [hes] at h
      have hwe : ∀ m ∈ es, wtC reg .iface m.2 = true := by
        obtain ⟨ms, hms, hsk⟩ := Option.bind_eq_some_iff.mp hes
        rcases wt_map_inv hu hw with rfl | ⟨ms', rfl, hwp, _⟩
        · simp only [mapEntries?, Option.some.injEq] at hms
          subst hms
          simp [stringKeyed, allSome] at hsk
          subst hsk
          intro m hm; cases hm
        · simp only [mapEntries?, Option.some.injEq] at hms
          subst hms
          intro m hm
          obtain ⟨kx, hkx, e⟩ := (stringKeyed_inv hsk).2 m hm
          rw [← e]
          exact wtP_mem hwp hkx
      refine Wf.wrap_obj hs es.length (fun s => rangeM (fun s m =>
          match emit s .user (.ev (.key m.1)) with
          | (s, .ok) => foldInterfaceValue rf o .user m.2 s
          | r => r) es.length s es) ?_ h
      intro s s' hs h
      refine ⟨es.length, ?_, Or.inr rfl⟩
      refine Wf.range_mems _ es.length es ?_ (Nat.le_refl _) s s' hs h
      intro m hm s s' hs h
      exact Wf.key_then hs m.1 (fun s => foldInterfaceValue rf o .user m.2 s)
        (fun s s' hs h => ih.fiv m.2 s s' (hwe m hm) hs h) h

omit hreg in
theorem val_stepC {rf : Nat} (ih : RunWfC o reg rf) {T : GoType} {f : ReFold} {v : GoVal}
    {s s' : St} (hf : FVc reg T f) (hw : wtC reg T v = true) (hs : H s)
    (h : run (rf + 1) o .user f ⟨T, v⟩ s = (s', .ok)) : Out s s' IsVal := by
  cases f with
  | prim p =>
    rw [run_prim] at h
    cases hx : primEv true p v with
    | none => simp [hx] at h
    | some x => simp only [hx] at h; exact emit_good hs (primEv_good hx) h
  | arrPrim p =>
    rw [run_arrPrim] at h
    cases hx : (sliceElems? v).bind (arrEv false p) with
    | none => simp [hx] at h
    | some x =>
      simp only [hx] at h
      obtain ⟨xs, _, hxs⟩ := Option.bind_eq_some_iff.mp hx
      exact emit_good hs (arrEv_good hxs) h
  | mapPrim p =>
    rw [run_mapPrim] at h
    cases hx : (mapEntries? v).bind (objEv p) with
    | none => simp [hx] at h
    | some x =>
      simp only [hx] at h
      obtain ⟨ms, _, hms⟩ := Option.bind_eq_some_iff.mp hx
      exact emit_good hs (objEv_good hms) h
  | folderIfc => simp only [FVc] at hf; exact leaf_run_user rf o hf hw hs h
  | userVal n => simp only [FVc] at hf; exact leaf_run_user rf o hf hw hs h
  | userPtr n => simp only [FVc] at hf; exact leaf_run_user rf o hf hw hs h
  | pointer n e =>
    simp only [FVc] at hf
    obtain ⟨⟨sn, hg⟩, rfl, hfe⟩ := hf
    rw [run_pointer, ptrWalk_good sn T hg v hw] at h
    cases hdr : deref (stripPtr T).1 v with
    | none => simp only [hdr] at h; exact emit_good hs null_good h
    | some x =>
      simp only [hdr] at h
      exact ih.val _ e x s s' hfe (deref_wt sn T hg v x hw hdr).1 hs h
  | structFold fields count =>
    simp only [FVc] at hf
    obtain ⟨fs, hu, hfm, hcount⟩ := hf
    rw [run_structFold] at h
    refine Wf.wrap_obj hs count (fun s => seqM (fun s fv => run rf o .user fv ⟨T, v⟩ s) s fields) ?_ h
    intro s s' hs h
    obtain ⟨n, hout, hn⟩ := Wf.seq_mems _ (fun g => isFieldF g = true) fields
      (fun g hg s s' hs h => ih.mem T fs g v s s' hu (FMsc_mem hfm hg) hw hs h) s s' hs h
    refine ⟨n, hout, ?_⟩
    rcases hcount with hc | ⟨hc, hall⟩
    · exact Or.inl hc
    · right; rw [hc, hn hall]
  | mapFold it =>
    simp only [FVc] at hf
    obtain ⟨_, hfi, hit⟩ := hf
    rw [run_mapFold] at h
    cases hms : mapEntries? v with
    | none => simp [hms] at h
    | some ms =>
      simp only [hms] at h
      refine Wf.wrap_obj hs ms.length (fun s => run rf o .user it ⟨T, v⟩ s) ?_ h
      intro s s' hs h
      obtain ⟨n, hout, hn⟩ := ih.inl T it v s s' hfi hw hs h
      exact ⟨n, hout, Or.inr (by rw [hn hit ms hms])⟩
  | slice el =>
    simp only [FVc] at hf
    obtain ⟨hu, hfe⟩ := hf
    have hxs : (v = .nilSlice ∧ True) ∨ ∃ xs, (v = .slice xs ∨ v = .array xs) ∧ ∀ x ∈ xs, wtC reg T.elem x = true := by
      rcases hu with ⟨e, hu⟩ | ⟨n, e, hu⟩
      · rcases wt_slice_inv hu hw with rfl | ⟨xs, rfl, hx⟩
        · exact Or.inl ⟨rfl, trivial⟩
        · exact Or.inr ⟨xs, Or.inl rfl, fun x hx' => by rw [elem_of_under.1 e hu]; exact wtL_mem hx hx'⟩
      · obtain ⟨xs, rfl, hx⟩ := wt_array_inv hu hw
        exact Or.inr ⟨xs, Or.inr rfl, fun x hx' => by rw [elem_of_under.2.1 n e hu]; exact wtL_mem hx hx'⟩
    rcases hxs with ⟨rfl, _⟩ | ⟨xs, hv, hwx⟩
    · rw [run_slice_nil] at h
      refine Wf.wrap_arr hs 0 (fun s => (s, .ok)) ?_ h
      intro s s' hs h
      simp only [Prod.mk.injEq, and_true] at h
      subst h
      exact ⟨[], Dl.refl hs, by simpa [expandAll] using IsElems.nil⟩
    · have h' : (match emit s .user (.ev (.arrStart xs.length BT.any)) with
          | (s, .ok) =>
            match seqM (fun s x => run rf o .user el ⟨T.elem, x⟩ s) s xs with
            | (s, .ok) => emit s .user (.ev .arrEnd)
            | r => r
          | r => r) = (s', .ok) := by
        rcases hv with rfl | rfl
        · rw [run_slice_slice] at h; exact h
        · rw [run_slice_array] at h; exact h
      refine Wf.wrap_arr hs xs.length (fun s => seqM (fun s x => run rf o .user el ⟨T.elem, x⟩ s) s xs) ?_ h'
      exact Wf.seq_elems _ xs (fun x hx s s' hs h => ih.val T.elem el x s s' hfe (hwx x hx) hs h)
  | ifaceElem =>
    simp only [FVc] at hf
    rw [run_ifaceElem] at h
    simp only [hf] at h
    rcases wt_iface_inv hf hw with rfl | ⟨dt, dv, rfl, hpd, hdd, hwd⟩
    · exact emit_good hs null_good h
    · exact ih.any [] dt dv s s' hpd (by unfold dynBound at hdd; omega) hwd hs h
  | _ => simp [FVc] at hf

omit hreg in
/-- the values of a typed map -/
theorem map_values_typedC {T k e : GoType} {ms : List (GoVal × GoVal)} (hu : T.under = .map k e)
    (hw : wtC reg T (.map ms) = true) {es : List (Bytes × GoVal)} (hsk : stringKeyed ms = some es) :
    es.length = ms.length ∧ ∀ m ∈ es, wtC reg T.elem m.2 = true := by
  rcases wt_map_inv hu hw with hc | ⟨ms', hms', hwp, _⟩
  · cases hc
  · cases hms'
    refine ⟨(stringKeyed_inv hsk).1, ?_⟩
    intro m hm
    obtain ⟨kx, hkx, e1⟩ := (stringKeyed_inv hsk).2 m hm
    rw [← e1, elem_of_under.2.2.1 k e hu]
    exact wtP_mem hwp hkx

omit hreg in
theorem inl_stepC {rf : Nat} (ih : RunWfC o reg rf) {T : GoType} {f : ReFold} {v : GoVal}
    {s s' : St} (hf : FIc reg T f) (hw : wtC reg T v = true) (hs : H s)
    (h : run (rf + 1) o .user f ⟨T, v⟩ s = (s', .ok)) :
    ∃ n, Out s s' (IsMems · n) ∧ (isIterF f = true → ∀ ms, mapEntries? v = some ms → n = ms.length) := by
  have nothing : ∀ {s s' : St}, H s → (s, Res.ok) = (s', Res.ok) → Out s s' (IsMems · 0) := by
    intro s s' hs h
    simp only [Prod.mk.injEq, and_true] at h
    subst h
    exact ⟨[], Dl.refl hs, by simpa [expandAll] using IsMems.nil⟩
  cases f with
  | inlinePointer n e =>
    simp only [FIc] at hf
    obtain ⟨⟨sn, hg⟩, rfl, hfe⟩ := hf
    rw [run_inlinePointer, ptrWalk_good sn T hg v hw] at h
    cases hdr : deref (stripPtr T).1 v with
    | none =>
      simp only [hdr] at h
      exact ⟨0, nothing hs h, fun hc => by simp [isIterF] at hc⟩
    | some x =>
      simp only [hdr] at h
      obtain ⟨n, hout, _⟩ := ih.inl _ e x s s' hfe (deref_wt sn T hg v x hw hdr).1 hs h
      exact ⟨n, hout, fun hc => by simp [isIterF] at hc⟩
  | fieldsFold fields =>
    simp only [FIc] at hf
    obtain ⟨fs, hu, hfm⟩ := hf
    rw [run_fieldsFold] at h
    obtain ⟨n, hout, _⟩ := Wf.seq_mems _ (fun g => isFieldF g = true) fields
      (fun g hg s s' hs h => ih.mem T fs g v s s' hu (FMsc_mem hfm hg) hw hs h) s s' hs h
    exact ⟨n, hout, fun hc => by simp [isIterF] at hc⟩
  | embedd obj =>
    simp only [FIc] at hf
    obtain ⟨sn, n, mm, u, rfl, hg, h1, rfl⟩ := hf
    obtain ⟨k, hout⟩ := leaf_run_embedd rf o hg h1 hw hs h
    exact ⟨k, hout, fun hc => by simp [isIterF] at hc⟩
  | mapKeys el =>
    simp only [FIc] at hf
    obtain ⟨⟨k, e, hu⟩, hfe⟩ := hf
    rw [run_mapKeys] at h
    rcases wt_map_inv hu hw with rfl | ⟨ms, rfl, _, _⟩
    · simp only [] at h
      refine ⟨0, nothing hs h, fun _ ms hms => ?_⟩
      simp only [mapEntries?, Option.some.injEq] at hms
      subst hms; rfl
    · simp only [] at h
      cases hsk : stringKeyed ms with
      | none => simp [hsk] at h
      | some es =>
        simp only [hsk] at h
        obtain ⟨hlen, hwe⟩ := map_values_typedC hu hw hsk
        refine ⟨es.length, ?_, fun _ ms' hms' => ?_⟩
        · refine Wf.range_mems _ es.length es ?_ (Nat.le_refl _) s s' hs h
          intro m hm s s' hs h
          exact Wf.key_then hs m.1 (fun s => run rf o .user el ⟨T.elem, m.2⟩ s)
            (fun s s' hs h => ih.val T.elem el m.2 s s' hfe (hwe m hm) hs h) h
        · simp only [mapEntries?, Option.some.injEq] at hms'
          subst hms'; exact hlen
  | mapInline p =>
    have hu : ∃ k e, T.under = .map k e ∧ (p = none → e = .iface) := by
      cases p with
      | none => simp only [FIc] at hf; obtain ⟨k, hu⟩ := hf; exact ⟨k, .iface, hu, fun _ => rfl⟩
      | some p => simp only [FIc] at hf; obtain ⟨k, e, hu⟩ := hf; exact ⟨k, e, hu, fun hc => by cases hc⟩
    obtain ⟨k, e, hu, hp⟩ := hu
    rw [run_mapInline] at h
    rcases wt_map_inv hu hw with rfl | ⟨ms, rfl, _, _⟩
    · simp only [] at h
      refine ⟨0, nothing hs h, fun _ ms hms => ?_⟩
      simp only [mapEntries?, Option.some.injEq] at hms
      subst hms; rfl
    · simp only [] at h
      cases hsk : stringKeyed ms with
      | none => simp [hsk] at h
      | some es =>
        simp only [hsk] at h
        obtain ⟨hlen, hwe⟩ := map_values_typedC hu hw hsk
        refine ⟨es.length, ?_, fun _ ms' hms' => ?_⟩
        · refine Wf.range_mems _ es.length es ?_ (Nat.le_refl _) s s' hs h
          intro m hm s s' hs h
          cases p with
          | none =>
            have he := hp rfl
            subst he
            have hwm := hwe m hm
            rw [elem_of_under.2.2.1 k _ hu] at hwm
            exact Wf.key_then hs m.1 (fun s => foldInterfaceValue rf o .user m.2 s)
              (fun s s' hs h => ih.fiv m.2 s s' hwm hs h) h
          | some p =>
            refine Wf.key_then hs m.1 (fun s =>
              match elemEv p m.2 with
              | some x => emit s .user x
              | none => (s, .panic)) ?_ h
            intro s s' hs h
            cases hx : elemEv p m.2 with
            | none => simp [hx] at h
            | some x => simp only [hx] at h; exact emit_good hs (elemEv_good hx) h
        · simp only [mapEntries?, Option.some.injEq] at hms'
          subst hms'; exact hlen
  | _ => simp [FIc] at hf

omit hreg in
theorem mem_stepC {rf : Nat} (ih : RunWfC o reg rf) {T : GoType} {fs : List Field} {f : ReFold}
    {v : GoVal} {s s' : St} (hu : T.under = .struct fs) (hf : FMc reg fs f) (hw : wtC reg T v = true) (hs : H s)
    (h : run (rf + 1) o .user f ⟨T, v⟩ s = (s', .ok)) :
    ∃ n, Out s s' (IsMems · n) ∧ (isFieldF f = true → n = 1) := by
  cases f with
  | field name idx fn =>
    simp only [FMc] at hf
    obtain ⟨fld, hfld, hfv⟩ := hf
    rw [run_field] at h
    refine ⟨1, ?_, fun _ => rfl⟩
    refine Wf.key_then hs name (fun s =>
      match RV.field ⟨T, v⟩ idx with
      | some fv => run rf o .user fn fv s
      | none => (s, .panic)) ?_ h
    intro s s' hs h
    cases hfv' : RV.field ⟨T, v⟩ idx with
    | none => simp [hfv'] at h
    | some fv =>
      simp only [hfv'] at h
      obtain ⟨x, rfl, hwx⟩ := field_typedC hu hw hfld hfv'
      exact ih.val fld.typ fn x s s' hfv hwx hs h
  | fieldInline idx fn =>
    simp only [FMc] at hf
    obtain ⟨fld, hfld, hfi⟩ := hf
    rw [run_fieldInline] at h
    cases hfv' : RV.field ⟨T, v⟩ idx with
    | none => simp [hfv'] at h
    | some fv =>
      simp only [hfv'] at h
      obtain ⟨x, rfl, hwx⟩ := field_typedC hu hw hfld hfv'
      obtain ⟨n, hout, _⟩ := ih.inl fld.typ fn x s s' hfi hwx hs h
      exact ⟨n, hout, fun hc => by simp [isFieldF] at hc⟩
  | nonEmptyField name idx rs fn =>
    simp only [FMc] at hf
    obtain ⟨fld, hfld, ⟨sn, hg⟩, hdt, rfl, hfv, hifc⟩ := hf
    rw [run_nonEmptyField] at h
    cases hfv' : RV.field ⟨T, v⟩ idx with
    | none => simp [hfv'] at h
    | some fv =>
      simp only [hfv'] at h
      obtain ⟨x, rfl, hwx⟩ := field_typedC hu hw hfld hfv'
      cases hr : applyResolvers 1000 (makeResolveNonEmptyValue fld.typ) ⟨fld.typ, x⟩ with
      | panic => simp [hr] at h
      | drop =>
        simp only [hr, Prod.mk.injEq, and_true] at h
        subst h
        exact ⟨0, ⟨[], Dl.refl hs, by simpa [expandAll] using IsMems.nil⟩, fun hc => by simp [isFieldF] at hc⟩
      | keep field =>
        simp only [hr] at h
        have hk := resolve_keepC 1000 sn fld.typ x field hg hwx hdt hr
        refine ⟨1, ?_, fun hc => by simp [isFieldF] at hc⟩
        refine Wf.key_then hs name (fun s => run rf o .user fn field s) ?_ h
        intro s s' hs h
        by_cases hi : isIfaceT (stripPtr fld.typ).2 = true
        · have := hifc hi
          subst this
          exact ih.ifc field s s' hk.typed hk.good hk.depth hs h
        · have hb := hk.base (by simpa using hi)
          obtain ⟨ft, fx⟩ := field
          simp only [] at hb
          subst hb
          exact ih.val _ fn fx s s' hfv hk.typed hs h
  | _ => simp [FMc] at hf

/-- the claims hold at every fuel -/
theorem runWfC : ∀ rf, RunWfC o reg rf := by
  intro rf
  induction rf with
  | zero =>
    constructor
    · intro T f v s s' _ _ _ h; simp [run] at h
    · intro T f v s s' _ _ _ h; simp [run] at h
    · intro T fs f v s s' _ _ _ _ h; simp [run] at h
    · intro rv s s' _ _ _ _ h; simp [run] at h
    · intro i s s' _ _ h; simp [foldInterfaceValue] at h
    · intro sn T v s s' _ _ _ _ h; simp [foldAnyReflect] at h
    · intro sn T fa v s s' _ _ _ _ h; simp [runFast] at h
  | succ rf ih =>
    exact ⟨fun T f v s s' hf hw hs h => val_stepC ih hf hw hs h,
           fun T f v s s' hf hw hs h => inl_stepC ih hf hw hs h,
           fun T fs f v s s' hu hf hw hs h => mem_stepC ih hu hf hw hs h,
           fun rv s s' hw hg hd hs h => ifc_stepC ih hw hg hd hs h,
           fun i s s' hw hs h => fiv_stepC hreg ih hw hs h,
           fun sn T v s s' hg hd hw hs h => any_stepC hreg ih hg hd hw hs h,
           fun sn T fa v s s' hg hf hw hs h => fast_stepC ih hg hf hw hs h⟩

end

end SF.FoldProofs.Custom.WfC
