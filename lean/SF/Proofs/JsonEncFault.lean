/-
  C16 for the JSON encoder mirror (SF/Json/Enc.lean): with a writer that fails from its k-th
  Write call on, a failed Write is always reported (never silent, never turned into a panic
  or a hang), success implies that no Write failed, and — when the stream contains no
  unsupported float (the only error the visitor raises by itself) — an error is reported
  ONLY when a Write failed.
-/
import SF.Json.Enc
namespace SF.Json.Enc
open SF SF.Json SF.Json.Float

/-- no Write call has failed so far -/
def Clean (w : Writer) : Prop := ∀ k, w.failFrom = some k → w.calls ≤ k

theorem write_clean (w : Writer) (b : Bytes) (h : Clean w) :
    ((w.write b).2 = true ↔ Clean (w.write b).1) ∧ (w.write b).1.failFrom = w.failFrom := by
  unfold Writer.write
  cases hf : w.failFrom with
  | none => simp [Clean]
  | some k =>
    have hk := h k hf
    simp only
    split
    · simp [Clean]; omega
    · simp [Clean]; omega

/-- the options of the visitor: never changed by any event -/
structure SameOpts (s s' : Enc) : Prop where
  html : s'.escapeHTML = s.escapeHTML
  ign : s'.ignoreInvalidFloat = s.ignoreInvalidFloat
  radix : s'.explicitRadixPoint = s.explicitRadixPoint
  ff : s'.w.failFrom = s.w.failFrom

theorem SameOpts.refl (s : Enc) : SameOpts s s := ⟨rfl, rfl, rfl, rfl⟩
theorem SameOpts.trans {a b c : Enc} (h1 : SameOpts a b) (h2 : SameOpts b c) : SameOpts a c :=
  ⟨h2.html.trans h1.html, h2.ign.trans h1.ign, h2.radix.trans h1.radix, h2.ff.trans h1.ff⟩

theorem SameOpts.step {s s1 s2 : Enc} (h : SameOpts s1 s2) (h1 : s1.escapeHTML = s.escapeHTML)
    (h2 : s1.ignoreInvalidFloat = s.ignoreInvalidFloat) (h3 : s1.explicitRadixPoint = s.explicitRadixPoint)
    (h4 : s1.w.failFrom = s.w.failFrom) : SameOpts s s2 :=
  SameOpts.trans ⟨h1, h2, h3, h4⟩ h

theorem acts_sameOpts {s s' : Enc} (h : SameOpts s s') (e : Ev) : acts s' e = acts s e := by
  cases e <;> simp only [acts, onFloat, h.html, h.ign, h.radix]

/-- what one run of actions guarantees about write failures.
`r = ok → clean`, `not clean → r = err`; and if the actions contain no `fail`,
`r = err → not clean`. -/
structure FaultSpec (noFail : Prop) (s' : Enc) (r : Res) : Prop where
  ok_clean : r = .ok → Clean s'.w
  dirty_err : ¬ Clean s'.w → r = .err
  err_dirty : noFail → r = .err → ¬ Clean s'.w

theorem exec_fault (as : List Act) (s : Enc) (h : Clean s.w) :
    FaultSpec (Act.fail ∉ as) (exec s as).1 (exec s as).2 ∧ SameOpts s (exec s as).1 := by
  induction as generalizing s with
  | nil => exact ⟨⟨fun _ => h, fun hc => absurd h hc, fun _ hr => by simp [exec] at hr⟩, SameOpts.refl s⟩
  | cons a as ih =>
    have hmem : ∀ {b : Act}, b ≠ Act.fail → (Act.fail ∉ b :: as ↔ Act.fail ∉ as) := by
      intro b hb; simp only [List.mem_cons, not_or]; exact ⟨fun h => h.2, fun h => ⟨fun e => hb e.symm, h⟩⟩
    -- a write followed by the rest (shared by write / tryElemNext / onFieldNext)
    have hwrite : ∀ (b : Bytes) (P : Prop), (P → Act.fail ∉ as) →
        FaultSpec P
          (match s.w.write b with
            | (w', true) => exec { s with w := w' } as
            | (w', false) => ({ s with w := w' }, Res.err)).1
          (match s.w.write b with
            | (w', true) => exec { s with w := w' } as
            | (w', false) => ({ s with w := w' }, Res.err)).2 ∧
        SameOpts s
          (match s.w.write b with
            | (w', true) => exec { s with w := w' } as
            | (w', false) => ({ s with w := w' }, Res.err)).1 := by
      intro b P hP
      have hw := write_clean s.w b h
      rcases hwr : s.w.write b with ⟨w', ok⟩
      rw [hwr] at hw
      cases ok with
      | true =>
        simp only
        have := ih { s with w := w' } (hw.1.mp rfl)
        refine ⟨⟨this.1.ok_clean, this.1.dirty_err, fun hp => this.1.err_dirty (hP hp)⟩, ?_⟩
        exact SameOpts.step this.2 rfl rfl rfl hw.2
      | false =>
        simp only
        have hd : ¬ Clean w' := fun hc => absurd (hw.1.mpr hc) (by simp)
        exact ⟨⟨fun hr => by simp at hr, fun _ => rfl, fun _ _ => hd⟩, ⟨rfl, rfl, rfl, hw.2⟩⟩
    cases a with
    | write b =>
      simp only [exec]
      exact hwrite b _ (fun hp => (hmem (by simp)).mp hp)
    | tryElemNext =>
      simp only [exec]
      split
      · have := ih s h
        exact ⟨⟨this.1.ok_clean, this.1.dirty_err, fun hp => this.1.err_dirty ((hmem (by simp)).mp hp)⟩, this.2⟩
      · split
        · have := ih { s with first := { s.first with current := false } } h
          exact ⟨⟨this.1.ok_clean, this.1.dirty_err, fun hp => this.1.err_dirty ((hmem (by simp)).mp hp)⟩,
            SameOpts.step this.2 rfl rfl rfl rfl⟩
        · exact hwrite _ _ (fun hp => (hmem (by simp)).mp hp)
    | onFieldNext =>
      simp only [exec]
      split
      · have := ih { s with first := { s.first with current := false } } h
        exact ⟨⟨this.1.ok_clean, this.1.dirty_err, fun hp => this.1.err_dirty ((hmem (by simp)).mp hp)⟩,
          SameOpts.step this.2 rfl rfl rfl rfl⟩
      · exact hwrite _ _ (fun hp => (hmem (by simp)).mp hp)
    | push a =>
      simp only [exec]
      have := ih { s with first := s.first.push true, inArray := s.inArray.push a } h
      exact ⟨⟨this.1.ok_clean, this.1.dirty_err, fun hp => this.1.err_dirty ((hmem (by simp)).mp hp)⟩,
        SameOpts.step this.2 rfl rfl rfl rfl⟩
    | pop =>
      simp only [exec]
      split
      · exact ⟨⟨fun hr => by simp at hr, fun hc => absurd h hc, fun _ hr => by simp at hr⟩, SameOpts.refl s⟩
      · split
        · exact ⟨⟨fun hr => by simp at hr, fun hc => absurd h hc, fun _ hr => by simp at hr⟩, ⟨rfl, rfl, rfl, rfl⟩⟩
        · rename_i _ f _ _ a _
          have := ih { s with first := f, inArray := a } h
          exact ⟨⟨this.1.ok_clean, this.1.dirty_err, fun hp => this.1.err_dirty ((hmem (by simp)).mp hp)⟩,
            SameOpts.step this.2 rfl rfl rfl rfl⟩
    | fail =>
      simp only [exec]
      exact ⟨⟨fun hr => by simp at hr, fun hc => absurd h hc, fun hp => by simp at hp⟩, SameOpts.refl s⟩
    | hang =>
      simp only [exec]
      exact ⟨⟨fun hr => by simp at hr, fun hc => absurd h hc, fun _ hr => by simp at hr⟩, SameOpts.refl s⟩

/-- the basic event `e` makes the visitor itself return an error (json: "unsupported float
value"): a NaN / ±Inf float while `ignoreInvalidFloat` is off -/
def ownError (ign : Bool) : Ev → Bool
  | .f32 bits => !ign && isNaNInf32 bits
  | .f64 bits => !ign && isNaNInf64 bits
  | _ => false

theorem fail_not_mem_stringLoop (html : Bool) (fuel : Nat) (rest pending : Bytes) :
    Act.fail ∉ stringLoop html fuel rest pending := by
  induction fuel generalizing rest pending with
  | zero => simp [stringLoop]
  | succ fuel ih =>
    have hfl : ∀ p, Act.fail ∉ flush p := by intro p; unfold flush; split <;> simp
    unfold stringLoop
    split
    · simp [hfl]
    · split
      · split
        · exact ih _ _
        · simp [hfl, ih]
      · simp only
        split
        · simp [hfl, ih]
        · split
          · simp [hfl, ih]
          · exact ih _ _

theorem fail_not_mem_onString (html : Bool) (s : Bytes) : Act.fail ∉ onString html s := by
  simp [onString, fail_not_mem_stringLoop]

theorem fail_not_mem_onKey (html : Bool) (s : Bytes) : Act.fail ∉ onKey html s := by
  simp [onKey, fail_not_mem_onString]

theorem fail_not_mem_onNumber (neg : Bool) (u : Nat) : Act.fail ∉ onNumber neg u := by
  unfold onNumber; simp only; split <;> simp

theorem fail_not_mem_floatTail (r : Bool) (b : Bytes) : Act.fail ∉ floatTail r b := by
  unfold floatTail; split
  · simp only; split <;> simp
  · simp

theorem fail_not_mem_acts (s : Enc) (e : Ev) (h : ownError s.ignoreInvalidFloat e = false) :
    Act.fail ∉ acts s e := by
  cases e with
  | null => simp [acts]
  | bool b => simp [acts]
  | str b => exact fail_not_mem_onString _ _
  | key b => exact fail_not_mem_onKey _ _
  | num k x =>
    simp only [acts]; split
    · simp [onInt, fail_not_mem_onNumber]
    · simp [onUint, fail_not_mem_onNumber]
  | f32 bits =>
    simp only [ownError, Bool.and_eq_false_iff] at h
    simp only [acts, onFloat]
    rcases h with h | h
    · simp [h]; split
      · simp
      · split <;> simp [fail_not_mem_floatTail]
    · simp [h]; split <;> simp [fail_not_mem_floatTail]
  | f64 bits =>
    simp only [ownError, Bool.and_eq_false_iff] at h
    simp only [acts, onFloat]
    rcases h with h | h
    · simp [h]; split
      · simp
      · split <;> simp [fail_not_mem_floatTail]
    · simp [h]; split <;> simp [fail_not_mem_floatTail]
  | arrStart l b => simp [acts]
  | arrEnd => simp [acts]
  | objStart l b => simp [acts]
  | objEnd => simp [acts]

theorem execEvs_fault (es : List Ev) (s : Enc) (h : Clean s.w) :
    FaultSpec (∀ e ∈ es, ownError s.ignoreInvalidFloat e = false) (execEvs s es).1 (execEvs s es).2 ∧
      SameOpts s (execEvs s es).1 := by
  induction es generalizing s with
  | nil => exact ⟨⟨fun _ => h, fun hc => absurd h hc, fun _ hr => by simp [execEvs] at hr⟩, SameOpts.refl s⟩
  | cons e es ih =>
    simp only [execEvs]
    have he := exec_fault (acts s e) s h
    rcases hx : exec s (acts s e) with ⟨s1, r⟩
    rw [hx] at he
    cases r with
    | ok =>
      simp only
      have := ih s1 (he.1.ok_clean rfl)
      refine ⟨⟨this.1.ok_clean, this.1.dirty_err, fun hp => this.1.err_dirty ?_⟩, SameOpts.trans he.2 this.2⟩
      intro e' he'; rw [he.2.ign]; exact hp e' (by simp [he'])
    | err =>
      simp only
      exact ⟨⟨fun hr => by simp at hr, fun _ => rfl,
        fun hp _ => he.1.err_dirty (fail_not_mem_acts s e (hp e (by simp))) rfl⟩, he.2⟩
    | panic =>
      simp only
      exact ⟨⟨fun hr => by simp at hr, he.1.dirty_err, fun _ hr => by simp at hr⟩, he.2⟩
    | hang =>
      simp only
      exact ⟨⟨fun hr => by simp at hr, he.1.dirty_err, fun _ hr => by simp at hr⟩, he.2⟩

theorem step_fault (x : XEv) (s : Enc) (h : Clean s.w) :
    FaultSpec (∀ e ∈ x.expand, ownError s.ignoreInvalidFloat e = false) (step s x).1 (step s x).2 ∧
      SameOpts s (step s x).1 := by
  have hev := execEvs_fault x.expand s h
  have weaken : ∀ {P Q : Prop} {s' r}, (Q → P) → FaultSpec P s' r → FaultSpec Q s' r :=
    fun hq hf => ⟨hf.ok_clean, hf.dirty_err, fun q => hf.err_dirty (hq q)⟩
  cases x with
  | ev e =>
    have := exec_fault (acts s e) s h
    exact ⟨weaken (fun hq => fail_not_mem_acts s e (hq e (by simp [XEv.expand]))) this.1, this.2⟩
  | strRef b =>
    have := exec_fault (onString s.escapeHTML b) s h
    exact ⟨weaken (fun _ => fail_not_mem_onString _ _) this.1, this.2⟩
  | keyRef b =>
    have := exec_fault (onKey s.escapeHTML b) s h
    exact ⟨weaken (fun _ => fail_not_mem_onKey _ _) this.1, this.2⟩
  | boolArr xs => exact hev
  | strArr xs => exact hev
  | numArr k xs => exact hev
  | f32Arr xs => exact hev
  | f64Arr xs => exact hev
  | boolObj ms => exact hev
  | strObj ms => exact hev
  | numObj k ms => exact hev
  | f32Obj ms => exact hev
  | f64Obj ms => exact hev

theorem run_go_fault (xs : List XEv) (s : Enc) (i : Nat) (h : Clean s.w) :
    FaultSpec (∀ e ∈ expandAll xs, ownError s.ignoreInvalidFloat e = false)
      (run.go s i xs).1 (run.go s i xs).2.2 ∧
    ((run.go s i xs).2.1 = none ↔ (run.go s i xs).2.2 = .ok) ∧
    SameOpts s (run.go s i xs).1 := by
  induction xs generalizing s i with
  | nil =>
    exact ⟨⟨fun _ => h, fun hc => absurd h hc, fun _ hr => by simp [run.go] at hr⟩, by simp [run.go],
      SameOpts.refl s⟩
  | cons x xs ih =>
    simp only [run.go]
    have hs := step_fault x s h
    rcases hx : step s x with ⟨s1, r⟩
    rw [hx] at hs
    have hsub : (∀ e ∈ expandAll (x :: xs), ownError s.ignoreInvalidFloat e = false) →
        (∀ e ∈ x.expand, ownError s.ignoreInvalidFloat e = false) ∧
        (∀ e ∈ expandAll xs, ownError s.ignoreInvalidFloat e = false) := by
      intro hp
      simp only [expandAll, List.flatMap_cons, List.mem_append] at hp
      exact ⟨fun e he => hp e (Or.inl he), fun e he => hp e (Or.inr he)⟩
    cases r with
    | ok =>
      simp only
      have := ih s1 (i + 1) (hs.1.ok_clean rfl)
      refine ⟨⟨this.1.ok_clean, this.1.dirty_err, fun hp => this.1.err_dirty ?_⟩, this.2.1,
        SameOpts.trans hs.2 this.2.2⟩
      rw [hs.2.ign]; exact (hsub hp).2
    | err =>
      simp only
      exact ⟨⟨fun hr => by simp at hr, fun _ => rfl, fun hp _ => hs.1.err_dirty (hsub hp).1 rfl⟩,
        by simp, hs.2⟩
    | panic =>
      simp only
      exact ⟨⟨fun hr => by simp at hr, hs.1.dirty_err, fun _ hr => by simp at hr⟩, by simp, hs.2⟩
    | hang =>
      simp only
      exact ⟨⟨fun hr => by simp at hr, hs.1.dirty_err, fun _ hr => by simp at hr⟩, by simp, hs.2⟩

/-- a fresh writer failing from call k on is `Clean` -/
theorem clean_init (k : Option Nat) : Clean ({ failFrom := k } : Writer) := by
  intro k' _; simp

end SF.Json.Enc
