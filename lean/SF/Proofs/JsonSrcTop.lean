/-
  JSON PARSER as a producer and as the SOURCE of a transcoding; the JSON round trip through the
  parser mirror — the property theorems.

  Built on the parser refinement (C04, SF/Proofs/JsonRefineTop.lean: every grammatical text `J`
  of SF/Proofs/JsonGrammar.lean whose tokens denote is accepted and exactly the events of its
  tree `J.tree` are delivered) and the three encoder theorems (CBOR SF/Proofs/CborEnc.lean,
  UBJSON SF/Proofs/UbjEncTop.lean + UbjBridgeTop.lean, JSON SF/Proofs/JsonEncTop.lean).

   (A) C09  `json_parser_events_tree`   the delivered events are those of a contract-conforming
                                        tree (`ETree.wf`) with the text's value, all of whose
                                        numbers are in range and all of whose strings and keys
                                        are well-formed UTF-8
            `json_parser_events_ok`     … on the events: strings / keys UTF-8, numbers in range
            `json_parser_wf1`, `json_parser_wf1_chunks`, `json_parser_wf`, `json_parser_wf_chunks`
   (B) C08  `json_to_cbor`, `json_to_ubjson`, `json_to_json`      JSON as SOURCE
            `json_source_any_chunking`  (the same events however the source is cut into Writes)
   (C) C01  `json_encoder_writes_grammar`, `json_roundtrip`, `json_roundtrip_sanitized`,
            `json_roundtrip_chunks`     the encoder's output through the PARSER mirror

  New proofs: SF/Proofs/JsonSrcTree.lean (the tree of a text: wf, small, plain, utf8),
  SF/Proofs/JsonSrcStr.lean (the reference lexer returns well-formed UTF-8, no longer than the
  token), SF/Proofs/JsonSrcText.lean (`toJ`: the encoder's text as a grammatical text).
-/
import SF.Proofs.JsonRefineTop
import SF.Proofs.JsonEncTop
import SF.Proofs.UbjBridgeTop
import SF.Proofs.JsonSrcTree
import SF.Proofs.JsonSrcText
namespace SF.Props.JsonSrc
open SF SF.Json SF.Json.Parse SF.Json.ParseP SF.Json.Grammar
open SF.Json.Enc (plain utf8Tree jvalue validUtf8 toJ)
open SF.Cbor.Enc (small)
open SF.Ubjson.Enc (approx noBig smallU)
open SF.Ubjson.Wire (UItem)

/-! ## (A) C09 — the JSON parser delivers contract-conforming streams -/

/-- what the JSON parser delivers for a grammatical text (white space, a value of the grammar `J`
with any nesting and white space, white space; `Text.good`: every string token is accepted by
the RFC 8259 reference lexer, every number token denotes) is the event sequence of a
contract-conforming tree (`ETree.wf`; arrays and objects are announced with length -1 and
element type `any`) whose value is the text's value, whose strings and keys are well-formed
UTF-8 (`\uXXXX` escapes are written with EncodeRune, a lone surrogate as U+FFFD; unescaped bytes
are accepted by the reference lexer only as well-formed sequences), whose numbers are int64 /
uint64 / float64 events in range, and which is `small` (the size condition of the CBOR encoder
theorem) whenever the text is shorter than 2^63 bytes -/
theorem json_parser_events_tree (t : Text) (h : t.good) :
    (parse {} t.bytes).2 = none ∧ events (parse {} t.bytes).1 = t.v.tree.events ∧ t.v.tree.wf = true ∧
      t.v.tree.value = t.v.value ∧ utf8Tree t.v.tree = true ∧
      (t.v.noFloat = true → plain t.v.tree = true) ∧
      (t.bytes.length < 9223372036854775808 → small t.v.tree = true) := by
  obtain ⟨g1, g2, g3, g4⟩ := h
  obtain ⟨a, b, _⟩ := SF.Json.RefineTop.json_reads_value t.v g1 g2 t.ws1 t.ws2 g3 g4
  refine ⟨a, b, J.tree_wf t.v, rfl, J.tree_utf8 t.v, J.tree_plain t.v g2, fun hl => J.tree_small t.v ?_⟩
  simp only [Text.bytes, List.length_append] at hl
  omega

/-- … stated on the delivered events themselves (`evOk`, SF/Proofs/JsonSrcTree.lean): EVERY string
and key event carries well-formed UTF-8, EVERY number event is an int64 or uint64 event in the
range of its kind (floats are float64 events, never float32), EVERY container is announced with
length -1 and element type `any` -/
theorem json_parser_events_ok (t : Text) (h : t.good) : (events (parse {} t.bytes).1).all evOk = true := by
  rw [(json_parser_events_tree t h).2.1]
  exact J.events_ok t.v

/-- C09 for the JSON parser, one text: `Parse` of EVERY grammatical JSON text delivers exactly
one contract-conforming document (`WF1`: balanced, one key before each object value, announced
lengths — here always -1 — and element types respected) -/
theorem json_parser_wf1 (t : Text) (h : t.good) : WF1 (events (parse {} t.bytes).1) = true := by
  obtain ⟨_, he, hw, _⟩ := json_parser_events_tree t h
  rw [he]; exact wf1_events _ hw

theorem stream_trees_wf (ds : List Doc) : ∀ x ∈ ds.map (fun d => d.1.tree), x.wf = true := by
  intro x hx
  obtain ⟨d, _, rfl⟩ := List.mem_map.mp hx
  exact J.tree_wf d.1

/-- C09 for the JSON parser, streams: `Parse` of EVERY sequence of grammatical documents (each
followed by white space, at least one character after a bare number; any leading white space)
delivers a contract-conforming stream of complete documents (`WF`) -/
theorem json_parser_wf (ds : List Doc) (hd : ∀ d ∈ ds, d.good) (ws0 : Bytes) (h0 : allWs ws0 = true) :
    WF (events (parse {} (ws0 ++ streamWire ds)).1) = true := by
  rw [(SF.Json.RefineTop.json_reads_stream ds hd ws0 h0).2.1, SF.Json.RefineTop.streamEvents_eq]
  exact wf_events_list _ (stream_trees_wf ds)

/-- … and so does `Write*` + end of input for EVERY chunking of the same bytes -/
theorem json_parser_wf_chunks (ds : List Doc) (hd : ∀ d ∈ ds, d.good) (ws0 : Bytes) (h0 : allWs ws0 = true)
    (cs : List Bytes) (hcs : cs.flatten = ws0 ++ streamWire ds) :
    (writeChunks {} cs).2 = none ∧ WF (events (writeChunks {} cs).1) = true := by
  obtain ⟨a, b⟩ := SF.Json.RefineTop.json_reads_stream_chunks ds hd ws0 h0 cs hcs
  refine ⟨a, ?_⟩
  rw [b, SF.Json.RefineTop.streamEvents_eq]
  exact wf_events_list _ (stream_trees_wf ds)

/-- non-vacuity of (A): ` {"a": [18446744073709551615,"\ud800é"],⏎"b":null }⏎` — a uint64, a lone
surrogate escape followed by raw UTF-8 — is a good text; the kernel runs the parser on it -/
def exJ : J :=
  .obj [] (.mems [0x61] [] [0x20]
    (.arr [] (.elems (.num [0x31, 0x38, 0x34, 0x34, 0x36, 0x37, 0x34, 0x34, 0x30, 0x37, 0x33, 0x37, 0x30, 0x39, 0x35,
        0x35, 0x31, 0x36, 0x31, 0x35]) []
      (.more [] (.str [0x5c, 0x75, 0x64, 0x38, 0x30, 0x30, 0xc3, 0xa9]) [] .close))) []
    (.more [0x0a] [0x62] [] [] (.lit .null) [0x20] .close))
def exT : Text := ⟨[0x20], exJ, [0x0a]⟩

theorem exT_good : exT.good := ⟨by decide +kernel, by decide +kernel, by decide +kernel, by decide +kernel⟩

example : exT.good ∧
    events (parse {} exT.bytes).1 =
      [.objStart (-1) 0, .key [0x61], .arrStart (-1) 0, .num .u64 18446744073709551615,
       .str [0xef, 0xbf, 0xbd, 0xc3, 0xa9], .arrEnd, .key [0x62], .null, .objEnd] ∧
    WF1 (events (parse {} exT.bytes).1) = true :=
  ⟨exT_good, by decide +kernel, by decide +kernel⟩

example : (∀ d ∈ ([(exJ, [0x0a]), (.num [0x31, 0x32], [0x20]), (.lit .tru, [])] : List Doc), Doc.good d) ∧
    WF (events (parse {} (streamWire [(exJ, [0x0a]), (.num [0x31, 0x32], [0x20]), (.lit .tru, [])])).1) = true := by
  refine ⟨?_, by decide +kernel⟩
  intro d hd
  simp only [List.mem_cons, List.not_mem_nil, or_false] at hd
  rcases hd with rfl | rfl | rfl <;>
    exact ⟨by decide +kernel, by decide +kernel, by decide +kernel, by decide +kernel⟩

/-- the JSON encoder on the events of a `plain` tree, fresh writer, top level: success, and the
bytes written are `text o t` -/
theorem encAll_text (o : SF.Json.Enc.Enc) (t : ETree) (hp : plain t = true) (hw : o.w = {})
    (ha : o.inArray.current = false) :
    (SF.Json.Enc.run o (t.events.map .ev)).2 = (none, .ok) ∧
    SF.Json.Enc.encAll o (t.events.map .ev) = SF.Json.Enc.text o t := by
  have hfl : o.w.failFrom = none := by rw [hw]
  obtain ⟨w', e1, _, e3⟩ := SF.Props.JsonEnc.json_encoder_doc_idle o t
    (SF.Json.Enc.plain_supported o _ hp) o ⟨rfl, rfl, rfl⟩ hfl ha
  have hrun := SF.Json.Enc.run_evs _ _ _ e1
  refine ⟨by rw [hrun], ?_⟩
  simp only [SF.Json.Enc.encAll, hrun, e3, hw]
  simp [SF.Json.Enc.Writer.out]

/-! ## (B) C08 — JSON as the SOURCE of a transcoding -/

/-- the events do not depend on how the source text is cut into `Write` calls: every statement
of this section about `events (parse {} t.bytes).1` holds for `Write*` + end of input with ANY
chunking of `t.bytes` -/
theorem json_source_any_chunking (t : Text) (h : t.good) (cs : List Bytes) (hcs : cs.flatten = t.bytes) :
    (writeChunks {} cs).2 = none ∧ events (writeChunks {} cs).1 = events (parse {} t.bytes).1 := by
  obtain ⟨g1, g2, g3, g4⟩ := h
  obtain ⟨a, b⟩ := SF.Json.RefineTop.json_reads_value_chunks t.v g1 g2 t.ws1 t.ws2 g3 g4 cs hcs
  obtain ⟨_, c, _⟩ := SF.Json.RefineTop.json_reads_value t.v g1 g2 t.ws1 t.ws2 g3 g4
  exact ⟨a, by rw [b]; exact c.symm⟩

/-- C09 for the JSON parser, one text in ANY chunking: `Write` per chunk, then end of input —
accepted, exactly one contract-conforming document -/
theorem json_parser_wf1_chunks (t : Text) (h : t.good) (cs : List Bytes) (hcs : cs.flatten = t.bytes) :
    (writeChunks {} cs).2 = none ∧ WF1 (events (writeChunks {} cs).1) = true := by
  obtain ⟨a, b⟩ := json_source_any_chunking t h cs hcs
  exact ⟨a, by rw [b]; exact json_parser_wf1 t h⟩

/-- C08, JSON → CBOR: for EVERY grammatical JSON text `t` (any nesting, any white space, every
escape spelling, integers in [-2^63, 2^64), floats; `J.sized`: every string value, key and
element count below 2^63 — the CBOR encoder theorem's size condition; implied by
`t.bytes.length < 2^63`, `sized_of_short`), feeding the parser's events to the CBOR encoder
yields a valid CBOR document (a well-formed RFC 7049 item) that the CBOR reference decoder reads
back completely and whose value is the text's value.  No range condition on the numbers is
needed: the parser delivers int64 / uint64 / float64 events in range. -/
theorem json_to_cbor (t : Text) (h : t.good) (hz : t.v.sized = true) :
    let evs := events (parse {} t.bytes).1
    ∃ j : SF.Cbor.Cst.Item, j.ok = true ∧ (SF.Cbor.Enc.run {} (evs.map XEv.ev)).1.w.out = j.wire ∧
      SF.Cbor.Cst.decode j.wire = .ok (j, []) ∧ j.value = t.v.value := by
  obtain ⟨_, he, hwf, hv, _⟩ := json_parser_events_tree t h
  simp only [he]
  have hs : small t.v.tree = true := hz
  have henc : SF.Cbor.Enc.run {} (t.v.tree.events.map XEv.ev) =
      (SF.Cbor.Enc.Enc.emit {} (SF.Cbor.Enc.toItem t.v.tree).wire, none) := by
    have h := SF.Cbor.Enc.enc_tree t.v.tree hwf hs {} rfl []
    simp only [List.append_nil, SF.Cbor.Enc.execEvs] at h
    exact SF.Cbor.Enc.run_evs _ _ _ h
  refine ⟨SF.Cbor.Enc.toItem t.v.tree, SF.Cbor.Enc.toItem_ok _ hs, ?_, ?_, ?_⟩
  · simp [henc, SF.Cbor.Enc.Enc.emit]
  · simpa using SF.Cbor.Cst.decode_wire _ (SF.Cbor.Enc.toItem_ok _ hs) []
  · rw [SF.Cbor.Enc.toItem_value _ hs, hv]

/-- the size conditions follow from the length of the text -/
theorem sized_of_short (t : Text) (h : t.bytes.length < 9223372036854775808) :
    t.v.sized = true ∧ t.v.sizedS = true := by
  have : t.v.sized = true := by
    apply J.sized_of_short
    simp only [Text.bytes, List.length_append] at h
    omega
  exact ⟨this, J.sizedS_of_sized _ this⟩

/-- C08, JSON → UBJSON: for EVERY grammatical JSON text (`J.sizedS`: every string value and key
shorter than 2^63 bytes — their lengths are written as int64; implied by
`t.bytes.length < 2^63`), feeding the parser's events to the UBJSON encoder yields the wire form
of a well-formed UBJSON item that the UBJSON reference decoder reads back completely as ONE
value, and that the UBJSON parser mirror accepts with the same value: the text's value up to
the format's documented representation change (an integer above MaxInt64 — delivered by the
JSON parser as a uint64 event — becomes a high-precision string), and EXACTLY the text's value
when no number exceeds MaxInt64. -/
theorem json_to_ubjson (t : Text) (h : t.good) (hz : t.v.sizedS = true) :
    let evs := events (parse {} t.bytes).1
    ∃ u : UItem, u.ok = true ∧ SF.Ubjson.Enc.encAll (evs.map XEv.ev) = u.wire ∧
      SF.Ubjson.Cst.decodeStream (SF.Ubjson.Enc.encAll (evs.map XEv.ev)) = .ok [u.value] ∧
      approx t.v.value u.value = true ∧ (noBig t.v.tree = true → u.value = t.v.value) ∧
      (SF.Ubjson.Parse.parse {} u.wire).2 = none ∧
      build (SF.Ubjson.Parse.events (SF.Ubjson.Parse.parse {} u.wire).1) = some u.value := by
  obtain ⟨_, he, hwf, hv, _⟩ := json_parser_events_tree t h
  simp only [he]
  obtain ⟨u, h1, h2, h4, h5⟩ := SF.Props.UbjBridge.ubj_output_valid' t.v.tree hwf hz
  obtain ⟨vt, hp, hbu, _, hd⟩ := SF.Props.UbjBridge.parser_agrees_with_reference u h1
  have h2' : SF.Ubjson.Enc.encAll (t.v.tree.events.map XEv.ev) = u.wire := h2
  refine ⟨u, h1, h2', by rw [h2']; exact hd, by rw [← hv]; exact h4, fun hb => by rw [h5 hb, hv], by rw [hp], ?_⟩
  rw [hp]
  simpa [SF.Ubjson.Parse.events] using hbu

/-- C08, JSON → JSON: for EVERY grammatical JSON text without float tokens (`J.noFloat`: no
number token contains `.`, `e`, `E` — the JSON encoder theorem covers float-free trees), feeding
the parser's events to the JSON encoder (any options, fresh writer) succeeds and yields a JSON
text that the RFC 8259 reference decoder accepts as exactly one value — the source's value —
and that the JSON PARSER accepts again, delivering events that build the same value.  No UTF-8
condition is needed: every string and key the parser delivers is well-formed UTF-8. -/
theorem json_to_json (o : SF.Json.Enc.Enc) (t : Text) (h : t.good) (hf : t.v.noFloat = true)
    (hw : o.w = {}) (ha : o.inArray.current = false) :
    let evs := events (parse {} t.bytes).1
    (SF.Json.Enc.run o (evs.map XEv.ev)).2 = (none, .ok) ∧
    (∃ v, SF.Json.Cst.decode (SF.Json.Enc.encAll o (evs.map XEv.ev)) = .ok [v] false ∧ v = t.v.value) ∧
    (parse {} (SF.Json.Enc.encAll o (evs.map XEv.ev))).2 = none ∧
    build (events (parse {} (SF.Json.Enc.encAll o (evs.map XEv.ev))).1) = some t.v.value := by
  obtain ⟨_, he, _, hv, hu, hpl, _⟩ := json_parser_events_tree t h
  simp only [he]
  have hp := hpl hf
  obtain ⟨h1, v, h2, h3⟩ := SF.Props.JsonEnc.json_output_decodes o t.v.tree hp hu hw ha
  -- the output is the encoder's text, a grammatical text
  have hout := (encAll_text o t.v.tree hp hw ha).2
  obtain ⟨g1, g2, g3, g4⟩ := SF.Json.Enc.text_grammatical o t.v.tree hp
  obtain ⟨a, _, c⟩ := SF.Json.RefineTop.json_reads_value (toJ o t.v.tree) g2 g3 [] [] rfl rfl
  simp only [List.nil_append, List.append_nil, g1] at a c
  refine ⟨h1, ⟨v, h2, by rw [h3, hv]⟩, by rw [hout]; exact a, ?_⟩
  rw [hout, c, g4, SF.Json.Enc.jvalue_eq _ hu, hv]

/-- non-vacuity of (B): the sample text meets the hypotheses of all three theorems (it contains a
number above MaxInt64, so `noBig` fails and the UBJSON target carries a high-precision string);
the kernel runs the three compositions -/
example : exT.good ∧ exT.v.sized = true ∧ exT.v.sizedS = true ∧ exT.v.noFloat = true ∧ noBig exT.v.tree = false :=
  ⟨exT_good, by decide +kernel, by decide +kernel, by decide +kernel, by decide +kernel⟩

example :
    (SF.Cbor.Enc.run {} ((events (parse {} exT.bytes).1).map XEv.ev)).1.w.out =
      [0xbf, 0x61, 0x61, 0x9f, 0x1b, 0xff, 0xff, 0xff, 0xff, 0xff, 0xff, 0xff, 0xff,
       0x65, 0xef, 0xbf, 0xbd, 0xc3, 0xa9, 0xff, 0x61, 0x62, 0xf6, 0xff] ∧
    SF.Json.Enc.encAll {} ((events (parse {} exT.bytes).1).map XEv.ev) =
      [0x7b, 0x22, 0x61, 0x22, 0x3a, 0x5b, 0x31, 0x38, 0x34, 0x34, 0x36, 0x37, 0x34, 0x34, 0x30, 0x37, 0x33, 0x37,
       0x30, 0x39, 0x35, 0x35, 0x31, 0x36, 0x31, 0x35, 0x2c, 0x22, 0xef, 0xbf, 0xbd, 0xc3, 0xa9, 0x22, 0x5d, 0x2c,
       0x22, 0x62, 0x22, 0x3a, 0x6e, 0x75, 0x6c, 0x6c, 0x7d] := by decide +kernel

/-- … a text with a float and a negative integer, `[1.5 ,-2,"\n"]` (no number above MaxInt64: the
kernel cannot run the `toString` behind a high-precision number): hypotheses of the CBOR and
UBJSON theorems, and both outputs -/
def exF : Text :=
  ⟨[], .arr [] (.elems (.num [0x31, 0x2e, 0x35]) [0x20] (.more [] (.num [0x2d, 0x32]) []
    (.more [] (.str [0x5c, 0x6e]) [] .close))), []⟩

example : exF.good ∧ exF.v.sized = true ∧ exF.v.sizedS = true ∧ exF.v.noFloat = false ∧ noBig exF.v.tree = true :=
  ⟨⟨by decide +kernel, by decide +kernel, by decide +kernel, by decide +kernel⟩, by decide +kernel, by decide +kernel,
    by decide +kernel, by decide +kernel⟩

example :
    (SF.Cbor.Enc.run {} ((events (parse {} exF.bytes).1).map XEv.ev)).1.w.out =
      [0x9f, 0xfb, 0x3f, 0xf8, 0, 0, 0, 0, 0, 0, 0x21, 0x61, 0x0a, 0xff] ∧
    SF.Ubjson.Enc.encAll ((events (parse {} exF.bytes).1).map XEv.ev) =
      [0x5b, 0x44, 0x3f, 0xf8, 0, 0, 0, 0, 0, 0, 0x69, 0xfe, 0x53, 0x69, 0x01, 0x0a, 0x5d] := by decide +kernel

/-- the hypothesis `noFloat` of `json_to_json` is the limit of the JSON encoder theorem (`plain`:
the float formatting `strconv.AppendFloat` is modelled but not proved against the reference
decoder), not a defect: on this text with a float the composition, evaluated, gives `[1.5,-2,"\n"]`,
which the parser reads back with the same events -/
example : SF.Json.Enc.encAll {} ((events (parse {} exF.bytes).1).map XEv.ev) =
      [0x5b, 0x31, 0x2e, 0x35, 0x2c, 0x2d, 0x32, 0x2c, 0x22, 0x5c, 0x6e, 0x22, 0x5d] ∧
    events (parse {} (SF.Json.Enc.encAll {} ((events (parse {} exF.bytes).1).map XEv.ev))).1 =
      events (parse {} exF.bytes).1 := by decide +kernel

/-! ## (C) C01 — the JSON round trip through the parser mirror -/

/-- THE JSON ENCODER WRITES GRAMMATICAL JSON: for every tree without floats whose numbers are in
the range of their kind (`plain`; no `wf` needed — the JSON visitor ignores announced lengths)
and all options (HTML escaping …), started on a fresh writer at top level, the run succeeds and
the bytes written are the wire form of a grammatical text `toJ o t` of
SF/Proofs/JsonGrammar.lean (no white space; every string token as `OnString` writes it, every
number the canonical literal) all of whose tokens denote, and whose value is the value of the
tree with every string and key sanitized (= the tree's value when they are well-formed UTF-8) -/
theorem json_encoder_writes_grammar (o : SF.Json.Enc.Enc) (t : ETree) (hp : plain t = true)
    (hw : o.w = {}) (ha : o.inArray.current = false) :
    (SF.Json.Enc.run o (t.events.map .ev)).2 = (none, .ok) ∧
    SF.Json.Enc.encAll o (t.events.map .ev) = (toJ o t).wire ∧
    (toJ o t).ok = true ∧ (toJ o t).sem = true ∧ (toJ o t).value = jvalue t ∧
    (utf8Tree t = true → jvalue t = t.value) := by
  obtain ⟨hrun, hout⟩ := encAll_text o t hp hw ha
  obtain ⟨g1, g2, g3, g4⟩ := SF.Json.Enc.text_grammatical o t hp
  exact ⟨hrun, by rw [hout, g1], g2, g3, g4, SF.Json.Enc.jvalue_eq t⟩

/-- C01 for JSON, through the PARSER: for EVERY tree supported by the JSON encoder theorem
(`plain`: no floats, numbers in the range of their kind; any nesting, arbitrary byte strings and
keys, announced and unknown lengths — `ETree.wf` is not needed) and all encoder options, the text
the encoder writes is ACCEPTED by the JSON parser mirror (`Parse`; a top-level number is
converted at the end of the input), which delivers ONE contract-conforming document (`WF1`) —
the events of the grammatical text `toJ o t`: containers with length -1, numbers as int64 /
uint64 — whose value is the value of `t` with every string and key sanitized (each byte outside
a well-formed UTF-8 sequence ↦ U+FFFD, the documented representation change).  The reference
decoder reads the same value. -/
theorem json_roundtrip_sanitized (o : SF.Json.Enc.Enc) (t : ETree) (hp : plain t = true)
    (hw : o.w = {}) (ha : o.inArray.current = false) :
    (SF.Json.Enc.run o (t.events.map .ev)).2 = (none, .ok) ∧
    (parse {} (SF.Json.Enc.encAll o (t.events.map .ev))).2 = none ∧
    events (parse {} (SF.Json.Enc.encAll o (t.events.map .ev))).1 = (toJ o t).events ∧
    build (events (parse {} (SF.Json.Enc.encAll o (t.events.map .ev))).1) = some (jvalue t) ∧
    WF1 (events (parse {} (SF.Json.Enc.encAll o (t.events.map .ev))).1) = true ∧
    SF.Json.Cst.decode (SF.Json.Enc.encAll o (t.events.map .ev)) = .ok [jvalue t] false := by
  obtain ⟨h1, hout, g2, g3, g4, _⟩ := json_encoder_writes_grammar o t hp hw ha
  obtain ⟨a, b, c⟩ := SF.Json.RefineTop.json_reads_value (toJ o t) g2 g3 [] [] rfl rfl
  simp only [List.nil_append, List.append_nil] at a b c
  rw [hout]
  refine ⟨h1, a, b, by rw [c, g4], ?_, ?_⟩
  · rw [b]; exact wf1_events _ (J.tree_wf _)
  · rw [← hout, (encAll_text o t hp hw ha).2]
    obtain ⟨v, hv1, hv2⟩ := SF.Json.Enc.decode_text o t hp
    rw [hv1, hv2]

/-- C01 for JSON, composed: for EVERY event tree `t` within the hypotheses of the encoder theorem
`json_output_decodes` (`plain`; strings and keys well-formed UTF-8) the encoder's output is
accepted by the JSON PARSER, which delivers one contract-conforming document that builds
EXACTLY the value of `t`; the RFC 8259 reference decoder reads the same value. -/
theorem json_roundtrip (o : SF.Json.Enc.Enc) (t : ETree) (hp : plain t = true) (hu : utf8Tree t = true)
    (hw : o.w = {}) (ha : o.inArray.current = false) :
    (SF.Json.Enc.run o (t.events.map .ev)).2 = (none, .ok) ∧
    (parse {} (SF.Json.Enc.encAll o (t.events.map .ev))).2 = none ∧
    build (events (parse {} (SF.Json.Enc.encAll o (t.events.map .ev))).1) = some t.value ∧
    WF1 (events (parse {} (SF.Json.Enc.encAll o (t.events.map .ev))).1) = true ∧
    SF.Json.Cst.decode (SF.Json.Enc.encAll o (t.events.map .ev)) = .ok [t.value] false := by
  obtain ⟨h1, h2, _, h4, h5, h6⟩ := json_roundtrip_sanitized o t hp hw ha
  rw [SF.Json.Enc.jvalue_eq t hu] at h4 h6
  exact ⟨h1, h2, h4, h5, h6⟩

/-- … and the same however the encoder's output reaches the parser: `Write` per chunk, for EVERY
chunking, then end of input -/
theorem json_roundtrip_chunks (o : SF.Json.Enc.Enc) (t : ETree) (hp : plain t = true)
    (hw : o.w = {}) (ha : o.inArray.current = false) (cs : List Bytes)
    (hcs : cs.flatten = SF.Json.Enc.encAll o (t.events.map .ev)) :
    (writeChunks {} cs).2 = none ∧ build (events (writeChunks {} cs).1) = some (jvalue t) ∧
    WF1 (events (writeChunks {} cs).1) = true ∧ (utf8Tree t = true → jvalue t = t.value) := by
  obtain ⟨_, hout, g2, g3, g4, g5⟩ := json_encoder_writes_grammar o t hp hw ha
  obtain ⟨a, b⟩ := SF.Json.RefineTop.json_reads_value_chunks (toJ o t) g2 g3 [] [] rfl rfl cs
    (by rw [hcs, hout]; simp)
  refine ⟨a, ?_, ?_, g5⟩
  · rw [b, SF.Json.RefineTop.value_of_events, g4]
  · rw [b]; exact wf1_events _ (J.tree_wf _)

/-- non-vacuity of (C): `{"a":[-5,"\"é<",18446744073709551615],"b":{},"":[[],{}]}` with HTML
escaping on; a top-level number (converted at the end of the input); an invalid byte, which comes
back as U+FFFD.  The kernel runs encoder and parser. -/
def exE : ETree :=
  .obj (-1) 0 [([0x61], .arr 3 0 [.num .i8 (-5), .str [0x22, 0xC3, 0xA9, 0x3C], .num .u64 18446744073709551615]),
    ([0x62], .obj 0 0 []), ([], .arr 2 0 [.arr 0 0 [], .obj (-1) 0 []])]

example : plain exE = true ∧ utf8Tree exE = true ∧
    (parse {} (SF.Json.Enc.encAll { escapeHTML := true } (exE.events.map .ev))).2 = none ∧
    (match build (events (parse {} (SF.Json.Enc.encAll { escapeHTML := true } (exE.events.map .ev))).1) with
     | some v => v == exE.value
     | none => false) = true := by
  decide +kernel

example : plain (.num .i64 (-9223372036854775808)) = true ∧
    events (parse {} (SF.Json.Enc.encAll {} ((ETree.num .i64 (-9223372036854775808)).events.map .ev))).1 =
      [.num .i64 (-9223372036854775808)] ∧
    plain (.str [0x61, 0xff]) = true ∧ utf8Tree (.str [0x61, 0xff]) = false ∧
    events (parse {} (SF.Json.Enc.encAll {} ((ETree.str [0x61, 0xff]).events.map .ev))).1 =
      [.str [0x61, 0xef, 0xbf, 0xbd]] := by
  decide +kernel

end SF.Props.JsonSrc
