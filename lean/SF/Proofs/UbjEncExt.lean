/-
  The extended events of the UBJSON encoder (typed arrays / typed maps written as optimized
  containers `[$t#n…`, by-reference strings): the bytes of one extended event are the wire form
  of a well-formed item `xItem x` whose value is — up to `approx` — the value of the event's
  expansion into basic events (`xTree x`, `(xTree x).events = x.expand`).
-/
import SF.Proofs.UbjEncValue
namespace SF.Ubjson.Enc
open SF SF.Ubjson SF.Ubjson.Wire
open SF.Cbor.Enc (small smallList smallMems)

/-! ## typed containers, generically -/

/-- the item of a typed array method: `[]` when empty, else `[$t#n payloads` -/
def typedArr (t : UInt8) (items : List UItem) : UItem :=
  if items.length == 0 then .arr [] else .arrT t (minM items.length) items

def typedObj (t : UInt8) (mems : List (IM × Bytes × UItem)) : UItem :=
  if mems.length == 0 then .obj [] else .objT t (minM mems.length) mems

theorem payloadList_map {α : Type} (xs : List α) (item : α → UItem) :
    payloadList (xs.map item) = xs.flatMap (fun a => (item a).payload) := by
  induction xs with
  | nil => rfl
  | cons a xs ih => simp [payloadList, List.flatMap_cons, ih]

theorem flat_typedArray {α : Type} (t : UInt8) (xs : List α) (elem : α → List Act) (item : α → UItem)
    (h : ∀ a, flat (elem a) = (item a).payload) :
    flat (typedArray t xs elem) = (typedArr t (xs.map item)).wire := by
  unfold typedArray typedArr
  simp only [List.length_map]
  split
  · rfl
  · have hf : (xs.flatMap fun a => flat (elem a)) = xs.flatMap (fun a => (item a).payload) := by
      congr 1; funext a; exact h a
    simp [onArray, onTypedStruct, flat_flatMap, flat_writeLen, UItem.wire, UItem.marker, UItem.payload,
      payloadList_map, hf, arrStartMarker, typeMarker, countMarker]

theorem payloadMems_map {α : Type} (ms : List (Bytes × α)) (item : α → UItem) :
    payloadMems (ms.map fun m => (minM m.1.length, m.1, item m.2)) =
      ms.flatMap (fun m => lenWire (minM m.1.length) m.1.length ++ (m.1 ++ (item m.2).payload)) := by
  induction ms with
  | nil => rfl
  | cons a ms ih => simp [payloadMems, List.flatMap_cons, ih]

theorem flat_typedObject {α : Type} (t : UInt8) (ms : List (Bytes × α)) (elem : α → List Act) (item : α → UItem)
    (h : ∀ a, flat (elem a) = (item a).payload) :
    flat (typedObject t ms elem) = (typedObj t (ms.map fun m => (minM m.1.length, m.1, item m.2))).wire := by
  unfold typedObject typedObj
  simp only [List.length_map]
  split
  · rfl
  · have hf : (ms.flatMap fun m => flat (string m.1 false) ++ flat (elem m.2)) =
        ms.flatMap (fun m => lenWire (minM m.1.length) m.1.length ++ (m.1 ++ (item m.2).payload)) := by
      congr 1; funext m; simp [flat_string, mk, h]
    simp [onObject, onTypedStruct, flat_flatMap, flat_writeLen, UItem.wire, UItem.marker, UItem.payload,
      payloadMems_map, hf, objStartMarker, typeMarker, countMarker]

theorem allMarker_map {α : Type} (t : UInt8) (xs : List α) (item : α → UItem) (h : ∀ a, (item a).marker = t) :
    allMarker t (xs.map item) = true := by
  induction xs with
  | nil => rfl
  | cons a xs ih => simp [allMarker, h a, ih]

theorem okList_map {α : Type} (xs : List α) (item : α → UItem) (h : ∀ a ∈ xs, (item a).ok = true) :
    okList (xs.map item) = true := by
  induction xs with
  | nil => rfl
  | cons a xs ih =>
    simp only [List.map_cons, okList, Bool.and_eq_true]
    exact ⟨h a (by simp), ih (fun b hb => h b (by simp [hb]))⟩

theorem typedArr_ok {α : Type} (t : UInt8) (ht : typeOk t = true) (xs : List α) (item : α → UItem)
    (hl : xs.length < 9223372036854775808) (hm : ∀ a, (item a).marker = t)
    (hok : ∀ a ∈ xs, (item a).ok = true) : (typedArr t (xs.map item)).ok = true := by
  unfold typedArr
  split
  · rfl
  · simp only [UItem.ok, Bool.and_eq_true, List.length_map]
    exact ⟨⟨⟨minM_fits (xs.length : Int) (by omega) (by omega), ht⟩, allMarker_map t xs item hm⟩,
      okList_map xs item hok⟩

theorem allMarkerM_map {α : Type} (t : UInt8) (ms : List (Bytes × α)) (item : α → UItem)
    (h : ∀ a, (item a).marker = t) :
    allMarkerM t (ms.map fun m => (minM m.1.length, m.1, item m.2)) = true := by
  induction ms with
  | nil => rfl
  | cons a ms ih => simp [allMarkerM, h a.2, ih]

theorem okMems_map {α : Type} (ms : List (Bytes × α)) (item : α → UItem)
    (h : ∀ m ∈ ms, m.1.length < 9223372036854775808 ∧ (item m.2).ok = true) :
    okMems (ms.map fun m => (minM m.1.length, m.1, item m.2)) = true := by
  induction ms with
  | nil => rfl
  | cons a ms ih =>
    simp only [List.map_cons, okMems, Bool.and_eq_true]
    have ha := h a (by simp)
    exact ⟨⟨minM_fits (a.1.length : Int) (by omega) (by omega), ha.2⟩, ih (fun b hb => h b (by simp [hb]))⟩

theorem typedObj_ok {α : Type} (t : UInt8) (ht : typeOk t = true) (ms : List (Bytes × α)) (item : α → UItem)
    (hl : ms.length < 9223372036854775808) (hm : ∀ a, (item a).marker = t)
    (hok : ∀ m ∈ ms, m.1.length < 9223372036854775808 ∧ (item m.2).ok = true) :
    (typedObj t (ms.map fun m => (minM m.1.length, m.1, item m.2))).ok = true := by
  unfold typedObj
  split
  · rfl
  · simp only [UItem.ok, Bool.and_eq_true, List.length_map]
    exact ⟨⟨⟨minM_fits (ms.length : Int) (by omega) (by omega), ht⟩, allMarkerM_map t ms item hm⟩,
      okMems_map ms item hok⟩

theorem typedArr_value (t : UInt8) (items : List UItem) : (typedArr t items).value = .arr (Wire.valueList items) := by
  unfold typedArr
  split
  · rename_i h
    have : items = [] := by simpa using h
    subst this; rfl
  · rfl

theorem typedObj_value (t : UInt8) (mems : List (IM × Bytes × UItem)) :
    (typedObj t mems).value = .obj (Wire.valueMems mems) := by
  unfold typedObj
  split
  · rename_i h
    have : mems = [] := by simpa using h
    subst this; rfl
  · rfl

theorem valueList_map {α : Type} (xs : List α) (item : α → UItem) :
    Wire.valueList (xs.map item) = xs.map (fun a => (item a).value) := by
  induction xs with
  | nil => rfl
  | cons a xs ih => simp [Wire.valueList, ih]

theorem valueMems_map {α : Type} (ms : List (Bytes × α)) (item : α → UItem) :
    Wire.valueMems (ms.map fun m => (minM m.1.length, m.1, item m.2)) = ms.map (fun m => (m.1, (item m.2).value)) := by
  induction ms with
  | nil => rfl
  | cons a ms ih => simp [Wire.valueMems, ih]

/-! ## the "find type" pass of the unsigned arrays / maps -/

def maxUT (a b : UT) : UT := if b.rank ≤ a.rank then a else b

theorem maxNumType_eq (a b : UT) : maxNumType a.byte b.byte = (maxUT a b).byte := by
  cases a <;> cases b <;> rfl

def minUT (xs : List Int) : UT := xs.foldl (fun t v => maxUT t (utOf v.toNat)) .i

theorem minType_eq (xs : List Int) : minType xs = (minUT xs).byte := by
  have key : ∀ (xs : List Int) (a : UT),
      xs.foldl (fun t v => maxNumType t (uintType v.toNat)) a.byte =
        (xs.foldl (fun t v => maxUT t (utOf v.toNat)) a).byte := by
    intro xs
    induction xs with
    | nil => intro a; rfl
    | cons v xs ih =>
      intro a
      simp only [List.foldl_cons]
      rw [uintType_eq, maxNumType_eq, ih]
  exact key xs .i

theorem maxUT_rank (a b : UT) : a.rank ≤ (maxUT a b).rank ∧ b.rank ≤ (maxUT a b).rank := by
  unfold maxUT; split <;> omega

theorem foldl_rank (xs : List Int) (a : UT) :
    a.rank ≤ (xs.foldl (fun t v => maxUT t (utOf v.toNat)) a).rank ∧
      ∀ v ∈ xs, (utOf v.toNat).rank ≤ (xs.foldl (fun t v => maxUT t (utOf v.toNat)) a).rank := by
  induction xs generalizing a with
  | nil => simp
  | cons w xs ih =>
    simp only [List.foldl_cons, List.mem_cons]
    have h1 := ih (maxUT a (utOf w.toNat))
    have h2 := maxUT_rank a (utOf w.toNat)
    refine ⟨by omega, ?_⟩
    intro v hv
    rcases hv with rfl | hv
    · omega
    · exact h1.2 v hv

/-- every element fits the type found -/
theorem minUT_rank (xs : List Int) (v : Int) (hv : v ∈ xs) : (utOf v.toNat).rank ≤ (minUT xs).rank :=
  (foldl_rank xs .i).2 v hv

theorem foldl_H (xs : List Int) (a : UT) (h : xs.foldl (fun t v => maxUT t (utOf v.toNat)) a = .H) :
    a = .H ∨ ∃ v ∈ xs, utOf v.toNat = .H := by
  induction xs generalizing a with
  | nil => exact Or.inl h
  | cons w xs ih =>
    simp only [List.foldl_cons] at h
    rcases ih _ h with h1 | ⟨v, hv, h2⟩
    · unfold maxUT at h1
      split at h1
      · exact Or.inl h1
      · exact Or.inr ⟨w, by simp, h1⟩
    · exact Or.inr ⟨v, by simp [hv], h2⟩

/-- the whole container is typed `H` only if some element exceeds MaxInt64 -/
theorem minUT_H (xs : List Int) (h : minUT xs = .H) : ∃ v ∈ xs, 9223372036854775807 < v := by
  rcases foldl_H xs .i h with h1 | ⟨v, hv, h2⟩
  · cases h1
  · exact ⟨v, hv, by have := (utOf_H _).mp h2; omega⟩

end SF.Ubjson.Enc
