/-
  Typed targets of the Unfolder mirror, part 3: the FRAMES on the six stacks.  Every unfolder state
  on the unfolder stack owns entries of the other five stacks; `Frame.push` says which, `Frame.live`
  which pointers it will still use and what it relies on finding there, `Born` how a frame sits on
  the frames below it, `Inv` is the invariant of the reachable contexts.
-/
import SF.Proofs.UnfTyMem
namespace SF.Unf
open SF

/-! ## descriptors -/

/-- the shape a compiled unfolder expects behind the pointer it is initialised with -/
def RU.req : RU → Sh
  | .lifted (.prim _) => .flat
  | .lifted (.arr _) => .slice 0 .flat
  | .lifted (.map _) => .map
  | .slice e _ => .slice 0 (shOf e)
  | .map _ _ => .map
  | .ptr _ _ => .flat
  | .struct _ => .flat
  | .ref _ => .flat

/-- nesting of reflection states: bounds the forwarding of one event -/
def RU.depth : RU → Nat
  | .slice _ elem => elem.depth + 1
  | .map _ elem => elem.depth + 1
  | .ptr _ elem => elem.depth + 1
  | _ => 0

/-- descriptors of types built from primitives, `interface{}`, slices, string-keyed maps and
pointers (no structs, no named types), consistent with the element types they carry -/
def RU.ok : RU → Prop
  | .lifted _ => True
  | .slice e elem => elem.req = shOf e ∧ elem.ok
  | .map e elem => elem.req = shOf e ∧ elem.ok
  | .ptr e elem => elem.req = shOf e ∧ elem.ok
  | .struct _ => False
  | .ref _ => False

/-! ## the six stacks -/

structure S6 where
  u : Stk U
  p : Stk Ptr
  v : Stk Ptr
  k : Stk Bytes
  i : Stk Int
  b : Stk Nat

def Ctx.s6 (c : Ctx) : S6 := ⟨c.unfolder, c.ptr, c.value, c.key, c.idx, c.baseType⟩

@[simp] theorem Stk.pop_push {α : Type} (s : Stk α) (x : α) : (s.push x).pop = some (x, s) := by
  cases s; rfl

/-! ## frames -/

inductive Frame
  /-- `unfolderX` (primitive kinds, `interface{}`) waiting for its value -/
  | prim (k : PK) (p : Path)
  /-- `unfolderArrX` waiting for the array to start / inside the array -/
  | arrS (k : PK) (p : Path)
  | arr (k : PK) (p : Path) (i : Int)
  /-- `unfolderMapX`: waiting for the object to start / for a key / for the value of `key` -/
  | mapS (k : PK) (p : Path)
  | mapK (k : PK) (p : Path)
  | mapV (k : PK) (p : Path) (key : Bytes)
  /-- the saved scratch pointer and base type of a generic sub-array (`isArr`) / sub-map below the
  template frame working on the scratch slot -/
  | sub (isArr : Bool) (bt : Nat) (slot : Path) (k : PK)
  /-- `unfolderReflSlice` -/
  | rslS (e : GoType) (ru : RU) (p : Path)
  | rsl (e : GoType) (ru : RU) (p : Path) (i : Int)
  /-- `unfolderReflMap` -/
  | rmS (e : GoType) (ru : RU) (p : Path)
  | rmK (e : GoType) (ru : RU) (p : Path)
  | rmE (e : GoType) (ru : RU) (p : Path) (key : Bytes)
  /-- the `reflect.New` cell pushed by `prepare` of `unfolderReflMapOnElem` / `unfolderReflPtr` -/
  | cellx (cell : Path)
  /-- `unfolderReflPtr` -/
  | rp (e : GoType) (ru : RU) (p : Path)

/-- the entries a frame owns -/
def Frame.push : Frame → S6 → S6
  | .prim k p, s => { s with u := s.u.push (.prim k), p := s.p.push (some p) }
  | .arrS k p, s => { s with u := (s.u.push (.arr k)).push (.arrStart k), i := s.i.push 0, p := s.p.push (some p) }
  | .arr k p i, s => { s with u := s.u.push (.arr k), i := s.i.push i, p := s.p.push (some p) }
  | .mapS k p, s => { s with u := (s.u.push (.mapKey k)).push (.mapStart k), p := s.p.push (some p) }
  | .mapK k p, s => { s with u := s.u.push (.mapKey k), p := s.p.push (some p) }
  | .mapV k p key, s => { s with u := s.u.push (.mapVal k), p := s.p.push (some p), k := s.k.push key }
  | .sub _ bt slot _, s => { s with p := s.p.push (some slot), b := s.b.push bt }
  | .rslS e ru p, s =>
    { s with v := s.v.push (some p), u := (s.u.push (.reflSlice e ru)).push .reflSliceStart, i := s.i.push 0 }
  | .rsl e ru p i, s => { s with v := s.v.push (some p), u := s.u.push (.reflSlice e ru), i := s.i.push i }
  | .rmS e ru p, s => { s with v := s.v.push (some p), u := (s.u.push (.reflMapOnKey e ru)).push .reflMapStart }
  | .rmK e ru p, s => { s with v := s.v.push (some p), u := s.u.push (.reflMapOnKey e ru) }
  | .rmE e ru p key, s =>
    { s with v := s.v.push (some p), u := s.u.push (.reflMapOnElem e ru), k := s.k.push key }
  | .cellx cell, s => { s with v := s.v.push (some cell) }
  | .rp e ru p, s => { s with v := s.v.push (some p), u := s.u.push (.reflPtr e ru) }

def stacksOf (base : S6) : List Frame → S6
  | [] => base
  | F :: fs => F.push (stacksOf base fs)

/-- the pointer a frame will still use, and what it relies on finding there -/
def Frame.live : Frame → LP
  | .prim _ p => (p, .flat)
  | .arrS _ p => (p, .slice 0 .flat)
  | .arr _ p _ => (p, .slice 0 .flat)
  | .mapS _ p => (p, .map)
  | .mapK _ p => (p, .map)
  | .mapV _ p _ => (p, .map)
  | .sub _ _ slot _ => (slot, .flat)
  | .rslS e _ p => (p, .slice 0 (shOf e))
  | .rsl e _ p i => (p, .slice i.toNat (shOf e))
  | .rmS _ _ p => (p, .map)
  | .rmK _ _ p => (p, .mapNN)
  | .rmE _ _ p _ => (p, .mapNN)
  | .cellx cell => (cell, .flat)
  | .rp _ _ p => (p, .flat)

def liveOf (fs : List Frame) : List LP := fs.map Frame.live

/-- scratch slots in use -/
def cntA : List Frame → Nat
  | [] => 0
  | .sub true _ _ _ :: fs => cntA fs + 1
  | _ :: fs => cntA fs
def cntMA : List Frame → Nat
  | [] => 0
  | .sub false _ _ .ifc :: fs => cntMA fs + 1
  | _ :: fs => cntMA fs
def cntMP : List Frame → Nat
  | [] => 0
  | .sub false _ _ .ifc :: fs => cntMP fs
  | .sub false _ _ _ :: fs => cntMP fs + 1
  | _ :: fs => cntMP fs

/-- the scratch slot of the next generic sub-container -/
def slotRoot (isArr : Bool) (k : PK) (fs : List Frame) : Root :=
  if isArr then .arrays (cntA fs) else if k = .ifc then .mapAny (cntMA fs) else .mapPrimitive (cntMP fs)

/-- the frames a generic value can be delivered to -/
def Frame.isSinkF : Frame → Prop
  | .prim .ifc _ => True
  | .arr .ifc _ _ => True
  | .mapV .ifc _ _ => True
  | _ => False

/-! ### how a frame sits on the frames below -/

/-- where the pointer of a value frame comes from: the target itself (nothing below), the cell of a
`prepare`, an element of the slice below (then the slice's elements have the shape the frame relies
on), the scratch slot of a generic sub-container -/
def Attach (p : Path) (ρ : Sh) (allowSub : Option Bool) : List Frame → Prop
  | [] => True
  | .cellx cell :: _ => p = cell
  | .rsl e _ P _ :: _ => (∃ j, p = P.push (.index j)) ∧ ρ.le (shOf e)
  | .sub a _ slot _ :: _ => allowSub = some a ∧ p = slot
  | _ => False

/-- reflection frames carry a consistent descriptor of bounded depth -/
def ruOK (D : Nat) (ru : RU) : Prop := ru.ok ∧ ru.depth ≤ D

def Born (D : Nat) : Frame → List Frame → Prop
  | .prim _ p, fs => Attach p .flat none fs
  | .arrS _ p, fs => Attach p (.slice 0 .flat) (some true) fs
  | .arr _ p _, fs => Attach p (.slice 0 .flat) (some true) fs
  | .mapS _ p, fs => Attach p .map (some false) fs
  | .mapK _ p, fs => Attach p .map (some false) fs
  | .mapV _ p _, fs => Attach p .map (some false) fs
  | .sub isArr bt slot k, fs =>
    btKind bt = some k ∧ slot = ⟨slotRoot isArr k fs, []⟩ ∧ (∀ y ∈ liveOf fs, y.1.root ≠ slot.root) ∧
    (match fs with | F :: _ => F.isSinkF | [] => False)
  | .rslS e ru p, fs => Attach p (.slice 0 (shOf e)) none fs ∧ ruOK D (.slice e ru)
  | .rsl e ru p i, fs => Attach p (.slice i.toNat (shOf e)) none fs ∧ ruOK D (.slice e ru) ∧ 0 ≤ i
  | .rmS e ru p, fs => Attach p .map none fs ∧ ruOK D (.map e ru)
  | .rmK e ru p, fs => Attach p .mapNN none fs ∧ ruOK D (.map e ru)
  | .rmE e ru p _, fs => Attach p .mapNN none fs ∧ ruOK D (.map e ru)
  | .cellx cell, fs =>
    cell.steps = [] ∧ (∀ y ∈ liveOf fs, y.1.root ≠ cell.root) ∧
    (match fs with | .rmE _ _ _ _ :: _ => True | .rp _ _ _ :: _ => True | _ => False)
  | .rp e ru p, fs => Attach p .flat none fs ∧ ruOK D (.ptr e ru)

def WFS (D : Nat) : List Frame → Prop
  | [] => True
  | F :: fs => Born D F fs ∧ WFS D fs

/-- THE INVARIANT of the contexts reachable from `SetTarget` on a typed target: the six stacks are
those of a well-formed frame list on top of `base`, the scratch buffers hold exactly the slots of
the live sub-containers, every live pointer resolves to a value of the shape its frame relies on -/
structure Inv (D : Nat) (base : S6) (fs : List Frame) (c : Ctx) : Prop where
  stacks : c.s6 = stacksOf base fs
  wfs : WFS D fs
  mem : MemOK c (liveOf fs)
  nA : c.valueBuffer.arrays.size = cntA fs
  nMA : c.valueBuffer.mapAny.size = cntMA fs
  nMP : c.valueBuffer.mapPrimitive.size = cntMP fs

end SF.Unf
