/-
  The compile phase of the fold mirror never fails with the "error" `Res.ok`
  (`Except Res ReFold` uses `Res` for its errors; they are `fatal` or `err _`).
-/
import SF.Gotype.Fold
import SF.Proofs.FoldList
namespace SF.FoldProofs.Wf
open SF SF.Gotype SF.Gotype.Fold SF.FoldProofs

def NE {α : Type} (x : Except Res α) : Prop := x ≠ .error .ok

theorem NE_ok {α : Type} (a : α) : NE (Except.ok a : Except Res α) := fun h => by cases h
theorem NE_fatal {α : Type} : NE (Except.error .fatal : Except Res α) := fun h => by cases h
theorem NE_err {α : Type} (e : Err) : NE (Except.error (.err e) : Except Res α) := fun h => by cases h

theorem NE_mapM {α β : Type} {f : α → Except Res β} (hf : ∀ a, NE (f a)) (l : List α) : NE (l.mapM f) := by
  induction l with
  | nil => exact NE_ok _
  | cons a l ih =>
    rw [mapM_cons]
    cases ha : f a with
    | error e => intro h; simp only [Except.error.injEq] at h; subst h; exact hf a ha
    | ok b =>
      simp only []
      cases hl : l.mapM f with
      | error e => intro h; simp only [Except.error.injEq] at h; subst h; exact ih hl
      | ok bs => exact NE_ok _

theorem NE_map {α β : Type} {x : Except Res α} (g : α → β) (h : NE x) : NE (x.map g) := by
  cases x with
  | error e => intro h'; simp only [Except.map, Except.error.injEq] at h'; subst h'; exact h rfl
  | ok a => exact NE_ok _

theorem NE_primKind (t : GoType) : NE (getReflectFoldPrimitiveKind t) := by
  unfold getReflectFoldPrimitiveKind
  split
  · exact NE_ok _
  · exact NE_err _

/-- the compile functions at one fuel -/
structure CompNE (o : FoldOpts) (fuel : Nat) : Prop where
  rf : ∀ op t, NE (getReflectFold fuel o op t)
  ptr : ∀ op t, NE (getFoldPointer fuel o op t)
  str : ∀ op fs i, NE (getReflectFoldStruct fuel o op fs i)
  bff : ∀ op f i, NE (buildFieldFold fuel o op f i)
  bfi : ∀ op f i, NE (buildFieldFoldInline fuel o op f i)
  gen : ∀ op t, NE (fieldFoldGenInline fuel o op t)
  map : ∀ op t, NE (getReflectFoldMap fuel o op t)
  keys : ∀ op t, NE (getReflectFoldMapKeys fuel o op t)
  sl : ∀ op t, NE (getReflectFoldSlice fuel o op t)

set_option hygiene false in
macro "ne_tac" : tactic => `(tactic|
  (repeat' split) <;> first
    | exact NE_ok _ | exact NE_fatal | exact NE_err _ | exact NE_primKind _
    | exact ih.rf _ _ | exact ih.ptr _ _ | exact ih.str _ _ _ | exact ih.bff _ _ _
    | exact ih.bfi _ _ _ | exact ih.gen _ _ | exact ih.map _ _ | exact ih.keys _ _ | exact ih.sl _ _
    | exact NE_map _ (ih.bfi _ _ _)
    | (rename_i hx; intro hc; simp only [Except.error.injEq] at hc; subst hc; first
        | exact ih.rf _ _ hx | exact ih.keys _ _ hx | exact ih.gen _ _ hx))

theorem compNE (o : FoldOpts) : ∀ fuel, CompNE o fuel := by
  intro fuel
  induction fuel with
  | zero =>
    constructor
    · intro op t; simp only [getReflectFold]; exact NE_fatal
    · intro op t; simp only [getFoldPointer]; exact NE_fatal
    · intro op fs i; simp only [getReflectFoldStruct]; exact NE_fatal
    · intro op f i; simp only [buildFieldFold]; exact NE_fatal
    · intro op f i; simp only [buildFieldFoldInline]; exact NE_fatal
    · intro op t; simp only [fieldFoldGenInline]; exact NE_fatal
    · intro op t; simp only [getReflectFoldMap]; exact NE_fatal
    · intro op t; simp only [getReflectFoldMapKeys]; exact NE_fatal
    · intro op t; simp only [getReflectFoldSlice]; exact NE_fatal
  | succ fuel ih =>
    constructor
    · intro op t; rw [getReflectFold]; ne_tac
    · intro op t; simp only [getFoldPointer]; ne_tac
    · intro op fs i
      simp only [getReflectFoldStruct]
      have hm := NE_mapM (f := fun (x : Field × Nat) => buildFieldFold fuel o op x.1 x.2)
        (fun a => ih.bff op a.1 a.2) fs.zipIdx
      cases hmm : fs.zipIdx.mapM (fun (x : Field × Nat) => buildFieldFold fuel o op x.1 x.2) with
      | error e =>
        rw [hmm] at hm
        intro hc
        simp only [Except.error.injEq] at hc
        subst hc
        exact hm rfl
      | ok fvs =>
        simp only []
        split <;> exact NE_ok _
    · intro op f i; simp only [buildFieldFold]; ne_tac
    · intro op f i; simp only [buildFieldFoldInline]; ne_tac
    · intro op t; simp only [fieldFoldGenInline]; ne_tac
    · intro op t; simp only [getReflectFoldMap]; ne_tac
    · intro op t; simp only [getReflectFoldMapKeys]; ne_tac
    · intro op t; simp only [getReflectFoldSlice]; ne_tac

end SF.FoldProofs.Wf
