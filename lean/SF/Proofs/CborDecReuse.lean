/-
  C17 for the CBOR PULL DECODER (mirror: SF/Cbor/Dec.lean): after a successful call of `Next` —
  on ARBITRARY bytes — the parser is exactly a new parser that has delivered some events
  (`idle evs`); hence (with the event-log frame, SF/Proofs/CborDecFrame.lean) the decoder
  behaves on the rest of the stream as a new decoder.
  Final statements: SF/Proofs/DecReuseTop.lean.
-/
import SF.Proofs.CborDecFrame
set_option linter.unusedSimpArgs false
set_option linter.unusedVariables false
namespace SF.Cbor.DecR
open SF SF.Cbor SF.Cbor.Cst SF.Cbor.Parse SF.Cbor.Dec
open SF.Props.C03 (startPending)
open SF.Cbor.Chunk (More)
open SF.Cbor.Frame (FrC setP frameTrace)

/-! ## a step that reports `done` ends in the idle state -/

theorem step_done_idle (p : P) (b : Bytes) (hg : Good p) (hm : More p b) (hperr : p.err = none)
    (he : (execStep p b).err = none) (hd : (execStep p b).done = true) :
    (execStep p b).p = idle (execStep p b).p.evs := by
  obtain ⟨c, hv, hr⟩ := hg.reach
  have hpend := SF.Cbor.Sim.rel_pending hr
  rcases SF.Cbor.Sim.step_sim c hv p hr b (by rw [← hpend]; exact hm) with h | ⟨used, o, _, hro, _, _⟩
  · exact absurd he h
  · cases o with
    | cont c' => rw [hro.1] at hd; cases hd
    | done t =>
      obtain ⟨hcur, hstk, hbuf⟩ := idle_of_rel hro.2
      have hln := hro.2.ln
      simp only [SF.Cbor.Sim.Ctx.lens, SF.Cbor.Sim.idleCtx, SF.Cbor.Sim.Top.lens, SF.Cbor.Sim.contsLens,
        List.nil_append, List.cons.injEq] at hln
      have herr : (execStep p b).p.err = none := by rw [SF.Props.C03.execStep_errf]; exact hperr
      have hfa : (execStep p b).p.failAt = none := by rw [SF.Props.C16F.execStep_fAt]; exact hg.nofail
      generalize (execStep p b).p = q at hcur hstk hbuf hln herr hfa
      obtain ⟨⟨stk, cur⟩, ⟨lstk, lcur⟩, buf, err, evs, fa⟩ := q
      simp only at hcur hstk hbuf hln herr hfa
      obtain ⟨h1, h2⟩ := hln
      subst hcur hstk hbuf h1 h2 herr hfa
      rfl

/-- … the whole loop -/
theorem until_done_idle {p : P} {b : Bytes} {r : R} (h : Until p b r) (hg : Good p) (hm : More p b)
    (hperr : p.err = none) (he : r.err = none) (hd : r.done = true) : r.p = idle r.p.evs := by
  induction h with
  | @halt p b hs => exact step_done_idle p b hg hm hperr he hd
  | step hd' he' hm' _ ih =>
    exact ih (good_step hg hm he') hm' (by rw [SF.Props.C03.execStep_errf]; exact hperr) he hd

/-! ## between two documents -/

/-- THE DECODER STATES BETWEEN TWO DOCUMENTS (at creation, and after every successful call): the
parser is exactly a new parser, up to the event log -/
structure Between (d : Dec) : Prop where
  rd : RdOK d
  p : ∃ evs, d.p = idle evs

theorem between_new (d : Dec) (hr : RdOK d) (hp : d.p = {}) : Between d := ⟨hr, [], hp⟩

/-- a successful call — on ARBITRARY bytes — leads from between two documents to between two documents -/
theorem between_next (d : Dec) (h : Between d) (fuel : Nat) (hf : need d ≤ fuel) (hok : (next fuel d).2 = .ok) :
    Between (next fuel d).1 := by
  obtain ⟨evs, hp⟩ := h.p
  have hg : Good d.p := by rw [hp]; exact good_idle evs
  have hnp : startPending d.p = false := by rw [hp]; exact pending_idle evs
  obtain ⟨a1, a2⟩ := next_canon fuel d h.rd hg hnp hf
  by_cases hs : stream d = []
  · rw [(a1 hs).1, eof_eq] at hok
    have := eofP_ne_ok d.p
    rw [hok] at this; simp at this
  · have pa := a2 hs
    have hu : Until d.p (stream d) (canon d) := feedUntil_fuelFor d.p (stream d) hg.inv (Or.inl hs)
    cases he : (canon d).err with
    | some e => rw [(pa.err e he).1] at hok; cases hok
    | none =>
      cases hd : (canon d).done with
      | false =>
        rw [(pa.eof he hd).1] at hok
        have := eofP_ne_ok (canon d).p
        rw [hok] at this; simp at this
      | true =>
        obtain ⟨_, x2, _, x4⟩ := pa.ok he hd
        refine ⟨x4, (canon d).p.evs, ?_⟩
        rw [x2]
        exact until_done_idle hu hg (Or.inl hs) (by rw [hp]; rfl) he hd

/-- the decoder after `k` successful calls of `Next` (`none`: one of them did not succeed) -/
def afterOk (f : Dec → Nat) : Nat → Dec → Option Dec
  | 0, d => some d
  | k + 1, d => if (next (f d) d).2 = .ok then afterOk f k (next (f d) d).1 else none

theorem between_afterOk (f : Dec → Nat) (hf : Enough f) (k : Nat) :
    ∀ d0 d : Dec, Between d0 → afterOk f k d0 = some d → Between d := by
  induction k with
  | zero => intro d0 d h hk; simp only [afterOk, Option.some.injEq] at hk; subst hk; exact h
  | succ k ih =>
    intro d0 d h hk
    simp only [afterOk] at hk
    split at hk
    · rename_i hok
      exact ih _ d (between_next d0 h (f d0) (hf d0) hok) hk
    · cases hk

theorem nextsF_afterOk (f : Dec → Nat) (k m : Nat) :
    ∀ d0 d : Dec, afterOk f k d0 = some d →
      nextsF f (k + m) d0 = nextsF f k d0 ++ nextsF f m d ∧ (nextsF f k d0).length = k ∧
      ∀ x ∈ nextsF f k d0, x.1 = .ok := by
  induction k with
  | zero =>
    intro d0 d hk
    simp only [afterOk, Option.some.injEq] at hk; subst hk
    simp [nextsF]
  | succ k ih =>
    intro d0 d hk
    simp only [afterOk] at hk
    split at hk
    · rename_i hok
      obtain ⟨j1, j2, j3⟩ := ih _ d hk
      have e : k + 1 + m = (k + m) + 1 := by omega
      rw [e, nextsF_succ, nextsF_succ]
      simp only [hok, beq_self_eq_true, if_true, List.cons_append, j1, List.length_cons, j2, true_and]
      intro x hx
      rcases List.mem_cons.mp hx with rfl | hx
      · rfl
      · exact j3 x hx
    · cases hk

/-- BETWEEN TWO DOCUMENTS THE DECODER IS AS GOOD AS NEW: its trace on the rest of the stream — ANY
bytes — is the trace of ANY decoder `dn` with a new parser that is going to see the same bytes,
behind the events delivered so far -/
theorem between_trace (f f' : Dec → Nat) (hf : Enough f) (hf' : Enough f') (d : Dec) (h : Between d)
    (dn : Dec) (hrn : RdOK dn) (hpn : dn.p = {}) (hs : stream dn = stream d) (m : Nat) :
    nextsF f m d = frameTrace (Parse.events d.p) (nextsF f' m dn) := by
  obtain ⟨evs, hp⟩ := h.p
  have hd : d = setP (setP d {}) (FrC evs (setP d {}).p) := by
    cases d
    simp only at hp
    subst hp
    rfl
  have e1 : nextsF f m d = nextsF nextFuel m d :=
    nextsF_congr f nextFuel hf enough_nextFuel m d d h.rd h.rd rfl (by rw [hp]; exact good_idle evs)
      (by rw [hp]; exact pending_idle evs) rfl
  have e2 : nextsF nextFuel m (setP d {}) = nextsF f' m dn :=
    nextsF_congr nextFuel f' enough_nextFuel hf' m (setP d {}) dn h.rd hrn (by rw [hpn]; rfl) good_init
      (pending_idle []) (by rw [hs]; rfl)
  have e3 := SF.Cbor.Frame.nextsF_fr evs nextFuel (fun _ _ => rfl) m (setP d {})
  rw [← hd] at e3
  rw [e1, e3, e2, hp]
  simp [Parse.events, idle]

end SF.Cbor.DecR
