/-
  Simulation of one parser step (`execStep`) on ghost contexts, state by state.
  Part 1: argument states (unsigned, negative, lengths, floats).
-/
import SF.Proofs.CborSimValue
set_option linter.unusedSimpArgs false
namespace SF.Cbor.Sim
open SF SF.Cbor SF.Cbor.Cst SF.Cbor.Parse SF.Props.C03

theorem fits_of_lt (w : W) (hw : w ≠ .imm) (n : Nat) (h : n < 256 ^ w.bytes) : w.fits n = true := by
  cases w <;> simp_all [W.fits, W.bytes]

theorem head_arg (m : Nat) (w : W) (hw : w ≠ .imm) (x : Bytes) (hx : x.length = w.bytes) :
    head m w (beNat x) = ib m (w.ai 0) :: x ∧ w.fits (beNat x) = true := by
  constructor
  · rw [head_eq, ai_const w hw, ← hx, beBytes_beNat]
  · apply fits_of_lt w hw
    rw [← hx]; exact beNat_lt x

theorem widthOf_aiB (w : W) (hw : w ≠ .imm) : widthOf (aiB w) = some w.bytes := widthOf_ai w 0 hw

theorem step_uint (fs : List Cont) (hfs : contsValid fs) (w : W) (got : Bytes) (hw : w ≠ .imm)
    (hg : got.length < w.bytes) (p : P) (hr : Rel p ⟨fs, .arg .uint w got⟩) (b : Bytes) (hb : b ≠ [])
    (pend : Bool) : SimR (Ctx.wire ⟨fs, .arg .uint w got⟩) b (execStep p b) pend := by
  have hr0 : RelL p (⟨majorUint, aiB w⟩ :: contsSts fs) (contsLens fs) got := hr
  have hcur := hr0.cur
  rw [execStep_uint p b (by rw [hcur])]
  simp only [stepUint, hcur, widthOf_aiB w hw]
  obtain ⟨p', rest, v, hga, hcase⟩ := getArg_sim hr0 w hw hg b hb
  rw [hga]
  rcases hcase with ⟨rfl, rfl, h3, h4⟩ | ⟨used, h2, hu, h3, rfl, h4⟩
  · simp only []
    refine finish_cont ⟨fs, .arg .uint w (got ++ b)⟩ ⟨hfs, hw, by simpa using h3⟩ _ b b (by simp)
      (fun _ => ⟨rfl, by exact h4⟩) _ ?_ pend (Or.inl hb)
    simp [Ctx.wire, Top.wire]
  · simp only []
    obtain ⟨hh, hf⟩ := head_arg 0 w hw _ h3
    exact scalarPop_sim fs hfs (.uint w (beNat (got ++ used))) (by simpa [okw] using hf) p' _ h4 _ b used
      rest h2 _ (by simp [Item.wire, hh, Ctx.wire, Top.wire, ArgK.m]) pend (Or.inl hu)

theorem negEvent_ok (w : W) (hw : w ≠ .imm) (v : Nat) (hv : v < 256 ^ w.bytes) (ev : Ev)
    (h : negEvent w.bytes v = .ok ev) : v < 9223372036854775808 := by
  cases w with
  | imm => exact absurd rfl hw
  | w1 => simp [W.bytes] at hv; omega
  | w2 => simp [W.bytes] at hv; omega
  | w4 => simp [W.bytes] at hv; omega
  | w8 =>
    simp only [negEvent, W.bytes] at h
    simp only [show ((8:Nat) == 1) = false by decide, show ((8:Nat) == 2) = false by decide,
      show ((8:Nat) == 4) = false by decide, Bool.false_eq_true, if_false] at h
    split at h
    · omega
    · cases h

theorem step_nint (fs : List Cont) (hfs : contsValid fs) (w : W) (got : Bytes) (hw : w ≠ .imm)
    (hg : got.length < w.bytes) (p : P) (hr : Rel p ⟨fs, .arg .nint w got⟩) (b : Bytes) (hb : b ≠ [])
    (pend : Bool) : SimR (Ctx.wire ⟨fs, .arg .nint w got⟩) b (execStep p b) pend := by
  have hr0 : RelL p (⟨majorNeg, aiB w⟩ :: contsSts fs) (contsLens fs) got := hr
  have hcur := hr0.cur
  rw [execStep_neg p b (by rw [hcur])]
  simp only [stepNeg, hcur, widthOf_aiB w hw]
  obtain ⟨p', rest, v, hga, hcase⟩ := getArg_sim hr0 w hw hg b hb
  rw [hga]
  rcases hcase with ⟨rfl, rfl, h3, h4⟩ | ⟨used, h2, hu, h3, rfl, h4⟩
  · simp only []
    refine finish_cont ⟨fs, .arg .nint w (got ++ b)⟩ ⟨hfs, hw, by simpa using h3⟩ _ b b (by simp)
      (fun _ => ⟨rfl, by exact h4⟩) _ ?_ pend (Or.inl hb)
    simp [Ctx.wire, Top.wire]
  · simp only []
    obtain ⟨hh, hf⟩ := head_arg 1 w hw _ h3
    cases hne : negEvent w.bytes (beNat (got ++ used)) with
    | error e => exact Or.inl (by simp)
    | ok ev =>
      simp only []
      have hlt := negEvent_ok w hw _ (by rw [← h3]; exact beNat_lt _) ev hne
      exact scalarPop_sim fs hfs (.nint w (beNat (got ++ used))) (by simp [okw, hf, hlt]) p' _ h4 _ b used
        rest h2 _ (by simp [Item.wire, hh, Ctx.wire, Top.wire, ArgK.m]) pend (Or.inl hu)

/-- a length argument (state `stLen`) on top of the states `S'` -/
theorem stepLen_raw (S' : List St) (hS' : S' ≠ []) (L : List Int) (w : W) (got : Bytes) (hw : w ≠ .imm)
    (hg : got.length < w.bytes) (p : P) (hr0 : RelL p (⟨stLen, aiB w⟩ :: S') L got) (b : Bytes)
    (hb : b ≠ []) :
    (execStep p b).err ≠ none ∨
    ((execStep p b).done = false ∧ (execStep p b).rest = [] ∧ got.length + b.length < w.bytes ∧
      RelL (execStep p b).p (⟨stLen, aiB w⟩ :: S') L (got ++ b)) ∨
    (∃ used, b = used ++ (execStep p b).rest ∧ used ≠ [] ∧ (got ++ used).length = w.bytes ∧
      beNat (got ++ used) < 9223372036854775808 ∧ (execStep p b).done = false ∧
      RelL (execStep p b).p S' ((beNat (got ++ used) : Int) :: L) []) := by
  have hcur := hr0.cur
  rw [execStep_len p b (by rw [hcur])]
  simp only [stepLen, hcur, widthOf_aiB w hw]
  obtain ⟨p', rest, v, hga, hcase⟩ := getArg_sim hr0 w hw hg b hb
  rw [hga]
  rcases hcase with ⟨rfl, rfl, h3, h4⟩ | ⟨used, h2, hu, h3, rfl, h4⟩
  · simp only []
    exact Or.inr (Or.inl ⟨by first | rfl | trivial, by first | rfl | trivial, h3, h4⟩)
  · simp only []
    by_cases hgt : beNat (got ++ used) > 9223372036854775807
    · simp only [hgt, if_true]
      exact Or.inl (by simp)
    · simp only [hgt, if_false]
      exact Or.inr (Or.inr ⟨used, h2, hu, h3, by omega, by first | rfl | trivial, (h4.pushLen _).pop hS'⟩)

theorem step_lenBytes (fs : List Cont) (hfs : contsValid fs) (w : W) (got : Bytes)
    (hw : w ≠ .imm) (hg : got.length < w.bytes) (p : P)
    (hr : Rel p ⟨fs, .arg .lenBytes w got⟩) (b : Bytes) (hb : b ≠ []) (pend : Bool) :
    SimR (Ctx.wire ⟨fs, .arg .lenBytes w got⟩) b (execStep p b) pend := by
  have hr0 : RelL p (⟨stLen, aiB w⟩ :: ⟨0x44, 1⟩ :: contsSts fs) (contsLens fs) got := hr
  rcases stepLen_raw _ (by simp) _ w got hw hg p hr0 b hb with h | ⟨h1, h2, h3, h4⟩ | ⟨used, h1, h2, h3, h4, h5, h6⟩
  · exact Or.inl h
  · refine finish_cont ⟨fs, .arg .lenBytes w (got ++ b)⟩
      ⟨hfs, hw, by simpa using h3⟩ _ b b (by simp [h2]) (fun _ => ⟨h1, by exact h4⟩) _ ?_ pend (Or.inl hb)
    simp [Ctx.wire, Top.wire]
  · obtain ⟨hh, hf⟩ := head_arg 2 w hw _ h3
    refine finish_cont ⟨fs, .startStr false w (beNat (got ++ used))⟩ ⟨hfs, hf, h4⟩ _ b used h1
      (fun _ => ⟨h5, by exact h6⟩) _ ?_ pend (Or.inl h2)
    simp [Ctx.wire, Top.wire, hh, ArgK.m]

theorem step_lenText (fs : List Cont) (hfs : contsValid fs) (w : W) (got : Bytes)
    (hw : w ≠ .imm) (hg : got.length < w.bytes) (p : P)
    (hr : Rel p ⟨fs, .arg .lenText w got⟩) (b : Bytes) (hb : b ≠ []) (pend : Bool) :
    SimR (Ctx.wire ⟨fs, .arg .lenText w got⟩) b (execStep p b) pend := by
  have hr0 : RelL p (⟨stLen, aiB w⟩ :: ⟨0x64, 1⟩ :: contsSts fs) (contsLens fs) got := hr
  rcases stepLen_raw _ (by simp) _ w got hw hg p hr0 b hb with h | ⟨h1, h2, h3, h4⟩ | ⟨used, h1, h2, h3, h4, h5, h6⟩
  · exact Or.inl h
  · refine finish_cont ⟨fs, .arg .lenText w (got ++ b)⟩
      ⟨hfs, hw, by simpa using h3⟩ _ b b (by simp [h2]) (fun _ => ⟨h1, by exact h4⟩) _ ?_ pend (Or.inl hb)
    simp [Ctx.wire, Top.wire]
  · obtain ⟨hh, hf⟩ := head_arg 3 w hw _ h3
    refine finish_cont ⟨fs, .startStr true w (beNat (got ++ used))⟩ ⟨hfs, hf, h4⟩ _ b used h1
      (fun _ => ⟨h5, by exact h6⟩) _ ?_ pend (Or.inl h2)
    simp [Ctx.wire, Top.wire, hh, ArgK.m]

theorem step_lenArr (fs : List Cont) (hfs : contsValid fs) (w : W) (got : Bytes)
    (hw : w ≠ .imm) (hg : got.length < w.bytes) (p : P)
    (hr : Rel p ⟨fs, .arg .lenArr w got⟩) (b : Bytes) (hb : b ≠ []) (pend : Bool) :
    SimR (Ctx.wire ⟨fs, .arg .lenArr w got⟩) b (execStep p b) pend := by
  have hr0 : RelL p (⟨stLen, aiB w⟩ :: ⟨0x84, 1⟩ :: ⟨0x80, 1⟩ :: contsSts fs) (contsLens fs) got := hr
  rcases stepLen_raw _ (by simp) _ w got hw hg p hr0 b hb with h | ⟨h1, h2, h3, h4⟩ | ⟨used, h1, h2, h3, h4, h5, h6⟩
  · exact Or.inl h
  · refine finish_cont ⟨fs, .arg .lenArr w (got ++ b)⟩
      ⟨hfs, hw, by simpa using h3⟩ _ b b (by simp [h2]) (fun _ => ⟨h1, by exact h4⟩) _ ?_ pend (Or.inl hb)
    simp [Ctx.wire, Top.wire]
  · obtain ⟨hh, hf⟩ := head_arg 4 w hw _ h3
    refine finish_cont ⟨fs, .startArr w (beNat (got ++ used))⟩ ⟨hfs, hf, h4⟩ _ b used h1
      (fun _ => ⟨h5, by exact h6⟩) _ ?_ pend (Or.inl h2)
    simp [Ctx.wire, Top.wire, hh, ArgK.m]

theorem step_lenMap (fs : List Cont) (hfs : contsValid fs) (w : W) (got : Bytes)
    (hw : w ≠ .imm) (hg : got.length < w.bytes) (p : P)
    (hr : Rel p ⟨fs, .arg .lenMap w got⟩) (b : Bytes) (hb : b ≠ []) (pend : Bool) :
    SimR (Ctx.wire ⟨fs, .arg .lenMap w got⟩) b (execStep p b) pend := by
  have hr0 : RelL p (⟨stLen, aiB w⟩ :: ⟨0xa4, 1⟩ :: ⟨0xa0, 1⟩ :: contsSts fs) (contsLens fs) got := hr
  rcases stepLen_raw _ (by simp) _ w got hw hg p hr0 b hb with h | ⟨h1, h2, h3, h4⟩ | ⟨used, h1, h2, h3, h4, h5, h6⟩
  · exact Or.inl h
  · refine finish_cont ⟨fs, .arg .lenMap w (got ++ b)⟩
      ⟨hfs, hw, by simpa using h3⟩ _ b b (by simp [h2]) (fun _ => ⟨h1, by exact h4⟩) _ ?_ pend (Or.inl hb)
    simp [Ctx.wire, Top.wire]
  · obtain ⟨hh, hf⟩ := head_arg 5 w hw _ h3
    refine finish_cont ⟨fs, .startMap w (beNat (got ++ used))⟩ ⟨hfs, hf, h4⟩ _ b used h1
      (fun _ => ⟨h5, by exact h6⟩) _ ?_ pend (Or.inl h2)
    simp [Ctx.wire, Top.wire, hh, ArgK.m]

theorem step_lenKey (fs : List Cont) (hfs : contsValid fs) (m : MapK) (hm : m.valid) (w : W) (got : Bytes)
    (hw : w ≠ .imm) (hg : got.length < w.bytes) (p : P)
    (hr : Rel p ⟨fs, .key m (.lenArg w got)⟩) (b : Bytes) (hb : b ≠ []) (pend : Bool) :
    SimR (Ctx.wire ⟨fs, .key m (.lenArg w got)⟩) b (execStep p b) pend := by
  have hr0 : RelL p (⟨stLen, aiB w⟩ :: ⟨0xac, 1⟩ :: m.st :: contsSts fs) (m.lens ++ contsLens fs) got := hr
  rcases stepLen_raw _ (by simp) _ w got hw hg p hr0 b hb with h | ⟨h1, h2, h3, h4⟩ | ⟨used, h1, h2, h3, h4, h5, h6⟩
  · exact Or.inl h
  · refine finish_cont ⟨fs, .key m (.lenArg w (got ++ b))⟩
      ⟨hfs, hm, hw, by simpa using h3⟩ _ b b (by simp [h2]) (fun _ => ⟨h1, by exact h4⟩) _ ?_ pend (Or.inl hb)
    simp [Ctx.wire, Top.wire, KeyTop.wire]
  · obtain ⟨hh, hf⟩ := head_arg 3 w hw _ h3
    refine finish_cont ⟨fs, .key m (.start w (beNat (got ++ used)))⟩ ⟨hfs, hm, hf, h4⟩ _ b used h1
      (fun _ => ⟨h5, by exact h6⟩) _ ?_ pend (Or.inl h2)
    simp [Ctx.wire, Top.wire, KeyTop.wire, hh]


/-! ## floats -/

theorem step_f32 (fs : List Cont) (hfs : contsValid fs) (got : Bytes)
    (hg : got.length < 4) (p : P) (hr : Rel p ⟨fs, .f32 got⟩) (b : Bytes) (hb : b ≠ [])
    (pend : Bool) : SimR (Ctx.wire ⟨fs, .f32 got⟩) b (execStep p b) pend := by
  have hr0 : RelL p (⟨0xfa, 1⟩ :: contsSts fs) (contsLens fs) got := hr
  have hcur := hr0.cur
  rw [execStep_f32 p b (by rw [hcur]; rfl)]
  obtain ⟨p', rest, v, hc, hcase⟩ := collectP_sim hr0 4 hg b
  simp only [stepFloat, hc]
  rcases hcase with ⟨rfl, rfl, h3, h4⟩ | ⟨used, h2, h3, rfl, h4⟩
  · simp only []
    refine finish_cont ⟨fs, .f32 (got ++ b)⟩ ⟨hfs, by simpa [Top.valid] using h3⟩ _ b b (by simp)
      (fun _ => ⟨rfl, by exact h4⟩) _ ?_ pend (Or.inl hb)
    simp [Ctx.wire, Top.wire]
  · simp only []
    have hu : used ≠ [] := by intro hu; subst hu; simp at h3; omega
    have hlt : beNat (got ++ used) < 4294967296 := by
      have := beNat_lt (got ++ used); rw [h3] at this; simpa using this
    have hw : (Item.f32 (UInt32.ofNat (beNat (got ++ used)))).wire = 0xfa :: (got ++ used) := by
      simp only [Item.wire]
      rw [UInt32.toNat_ofNat', Nat.mod_eq_of_lt (by simpa using hlt), ← h3, beBytes_beNat]
    exact scalarPop_sim fs hfs (.f32 (UInt32.ofNat (beNat (got ++ used)))) rfl p' _ h4 _ b used
      rest h2 _ (by rw [hw]; simp [Ctx.wire, Top.wire]) pend (Or.inl hu)


theorem step_f64 (fs : List Cont) (hfs : contsValid fs) (got : Bytes)
    (hg : got.length < 8) (p : P) (hr : Rel p ⟨fs, .f64 got⟩) (b : Bytes) (hb : b ≠ [])
    (pend : Bool) : SimR (Ctx.wire ⟨fs, .f64 got⟩) b (execStep p b) pend := by
  have hr0 : RelL p (⟨0xfb, 1⟩ :: contsSts fs) (contsLens fs) got := hr
  have hcur := hr0.cur
  rw [execStep_f64 p b (by rw [hcur]; rfl)]
  obtain ⟨p', rest, v, hc, hcase⟩ := collectP_sim hr0 8 hg b
  simp only [stepFloat, hc]
  rcases hcase with ⟨rfl, rfl, h3, h4⟩ | ⟨used, h2, h3, rfl, h4⟩
  · simp only []
    refine finish_cont ⟨fs, .f64 (got ++ b)⟩ ⟨hfs, by simpa [Top.valid] using h3⟩ _ b b (by simp)
      (fun _ => ⟨rfl, by exact h4⟩) _ ?_ pend (Or.inl hb)
    simp [Ctx.wire, Top.wire]
  · simp only []
    have hu : used ≠ [] := by intro hu; subst hu; simp at h3; omega
    have hlt : beNat (got ++ used) < 18446744073709551616 := by
      have := beNat_lt (got ++ used); rw [h3] at this; simpa using this
    have hw : (Item.f64 (UInt64.ofNat (beNat (got ++ used)))).wire = 0xfb :: (got ++ used) := by
      simp only [Item.wire]
      rw [UInt64.toNat_ofNat', Nat.mod_eq_of_lt (by simpa using hlt), ← h3, beBytes_beNat]
    exact scalarPop_sim fs hfs (.f64 (UInt64.ofNat (beNat (got ++ used)))) rfl p' _ h4 _ b used
      rest h2 _ (by rw [hw]; simp [Ctx.wire, Top.wire]) pend (Or.inl hu)


/-! ## text strings -/

theorem text_sim (fs : List Cont) (hfs : contsValid fs) (w : W) (n : Nat) (hl : lenOk w n) (got : Bytes)
    (hg : got.length < n) (started : Bool) (p : P)
    (hr0 : RelL p (⟨0x60, if started then 2 else 1⟩ :: contsSts fs) ((n : Int) :: contsLens fs) got)
    (b : Bytes) (hb : b ≠ []) (pend : Bool) :
    SimR (contsWire fs ++ (head 3 w n ++ got)) b (stepText p b) pend := by
  have hlc : p.length.current = (n : Int) := hr0.lcur
  obtain ⟨p', rest, v, hc, hcase⟩ := collectP_sim hr0 n hg b
  simp only [stepText, hlc, Int.toNat_natCast, hc]
  rcases hcase with ⟨rfl, rfl, h3, h4⟩ | ⟨used, h2, h3, rfl, h4⟩
  · simp only []
    refine finish_cont ⟨fs, .str true w n (got ++ b) started⟩ ⟨hfs, hl, by simpa using h3⟩ _ b b (by simp)
      (fun _ => ⟨rfl, by exact h4⟩) _ ?_ pend (Or.inl hb)
    simp [Ctx.wire, Top.wire]
  · simp only []
    have hu : used ≠ [] := by intro hu; subst hu; simp at h3; omega
    exact scalarPop_sim fs hfs (.text w (got ++ used)) (by simp only [okw, h3, hl.1]; simp [hl.2]) (popLen p') _
      (h4.popLen (contsLens_ne_nil fs)) _ b used rest h2 _ (by simp [Item.wire, h3]) pend (Or.inl hu)

theorem step_startText (fs : List Cont) (hfs : contsValid fs) (w : W) (n : Nat) (hl : lenOk w n) (p : P)
    (hr : Rel p ⟨fs, .startStr true w n⟩) (b : Bytes) :
    SimR (Ctx.wire ⟨fs, .startStr true w n⟩) b (execStep p b) true := by
  have hr0 : RelL p (⟨0x64, 1⟩ :: contsSts fs) ((n : Int) :: contsLens fs) [] := hr
  have hcur := hr0.cur
  have hlc : p.length.current = (n : Int) := hr0.lcur
  rw [execStep_textStart p b (by rw [hcur])]
  simp only [hlc, int_natCast_eq_zero]
  by_cases hn : n = 0
  · subst hn
    simp only [beq_self_eq_true, if_true]
    have hv := (hr0.popLen (contsLens_ne_nil fs)).visit (.str [])
    rcases hvis : visit (popLen p) (.str []) with ⟨p2, _ | e⟩
    · rw [hvis] at hv
      simp only []
      exact finish_value fs hfs (.text w []) (by simp only [okw, List.length_nil, hl.1]; simp) _ b [] b rfl
        (popStateR_sim fs hfs _ p2 _ hv b) _ (by simp [Item.wire, Ctx.wire, Top.wire]) true (Or.inr rfl)
    · exact Or.inl (by simp)
  · have hn' : (n == 0) = false := by simpa using hn
    simp only [hn', Bool.false_eq_true, if_false]
    have hsm := hr0.setMajor majorText
    cases b with
    | nil =>
      simp only [List.length_nil, beq_self_eq_true, if_true]
      refine finish_cont ⟨fs, .str true w n [] false⟩ ⟨hfs, hl, by simp; omega⟩ _ [] [] rfl
        (fun _ => ⟨rfl, by exact hsm⟩) _ ?_ true (Or.inr ⟨rfl, rfl⟩)
      simp [Ctx.wire, Top.wire]
    | cons b0 bs =>
      simp only [List.length_cons, Nat.add_one_ne_zero, beq_iff_eq, if_false]
      have := text_sim fs hfs w n hl [] (by simp; omega) false (setMajor p majorText) hsm (b0 :: bs) (by simp) true
      simpa [Ctx.wire, Top.wire] using this

theorem step_text (fs : List Cont) (hfs : contsValid fs) (w : W) (n : Nat) (hl : lenOk w n) (got : Bytes)
    (hg : got.length < n) (started : Bool) (p : P)
    (hr : Rel p ⟨fs, .str true w n got started⟩) (b : Bytes) (hb : b ≠ []) (pend : Bool) :
    SimR (Ctx.wire ⟨fs, .str true w n got started⟩) b (execStep p b) pend := by
  have hr0 : RelL p (⟨0x60, if started then 2 else 1⟩ :: contsSts fs) ((n : Int) :: contsLens fs) got := hr
  have hcur := hr0.cur
  rw [execStep_text p b (by rw [hcur])]
  have := text_sim fs hfs w n hl got hg started p hr0 b hb pend
  simpa [Ctx.wire, Top.wire] using this


/-! ## byte strings -/

def bytesEvs (l : Bytes) : List Ev := l.map fun c => Ev.num .byte c.toNat

theorem stepBytesGo_done (p : P) (b : Bytes) (k : Nat) (hk : p.length.current.toNat = k)
    (hge : b.length ≥ k) :
    stepBytesGo p b =
      match visitAll p (bytesEvs (b.take k)) with
      | (p, some e) => { p := p, rest := [], err := some e }
      | (p, none) =>
        match visit p .arrEnd with
        | (p, some e) => { p := popLen p, rest := b.drop k, done := true, err := some e }
        | (p, none) => popStateR (popLen p) (b.drop k) := by
  simp [stepBytesGo, hk, hge, bytesEvs]
  rfl

theorem stepBytesGo_part (p : P) (b : Bytes) (k : Nat) (hk : p.length.current.toNat = k)
    (hlt : ¬ b.length ≥ k) :
    stepBytesGo p b =
      match visitAll (decLen p b.length) (bytesEvs b) with
      | (p, some e) => { p := p, rest := [], err := some e }
      | (p, none) => { p := p, rest := [] } := by
  simp [stepBytesGo, hk, hlt, bytesEvs]
  rfl

theorem bytesGo_sim (fs : List Cont) (hfs : contsValid fs) (w : W) (n : Nat) (hl : lenOk w n) (got : Bytes)
    (hg : got.length < n) (p : P)
    (hr0 : RelL p (⟨0x40, 2⟩ :: contsSts fs) (((n : Int) - got.length) :: contsLens fs) [])
    (b : Bytes) (hb : b ≠ []) (pend : Bool) :
    SimR (contsWire fs ++ (head 2 w n ++ got)) b (stepBytesGo p b) pend := by
  have hlc : p.length.current = (n : Int) - got.length := hr0.lcur
  have hk : p.length.current.toNat = n - got.length := by rw [hlc]; omega
  by_cases hge : b.length ≥ n - got.length
  · rw [stepBytesGo_done p b _ hk hge]
    have hq := hr0.visitAll (bytesEvs (b.take (n - got.length)))
    rcases hva : visitAll p (bytesEvs (b.take (n - got.length))) with ⟨q, _ | e⟩
    · rw [hva] at hq
      simp only []
      have hu : b.take (n - got.length) ≠ [] := by
        intro h
        have := congrArg List.length h
        simp [List.length_take] at this
        cases b with
        | nil => exact hb rfl
        | cons x xs => simp at this; omega
      have h3 : (got ++ b.take (n - got.length)).length = n := by simp [List.length_take]; omega
      have hq2 := hq.visit .arrEnd
      rcases hvis : visit q .arrEnd with ⟨q2, _ | e⟩
      · rw [hvis] at hq2
        simp only []
        exact finish_value fs hfs (.bytes w (got ++ b.take (n - got.length)))
          (by simp only [okw, h3, hl.1]; simp [hl.2]) _ b (b.take (n - got.length)) (b.drop (n - got.length))
          (by simp) (popStateR_sim fs hfs _ (popLen q2) _ (hq2.popLen (contsLens_ne_nil fs)) _) _
          (by simp [Item.wire, h3]) pend (Or.inl hu)
      · exact Or.inl (by simp)
    · exact Or.inl (by simp)
  · rw [stepBytesGo_part p b _ hk hge]
    have hq := (hr0.decLen b.length).visitAll (bytesEvs b)
    rcases hva : visitAll (decLen p b.length) (bytesEvs b) with ⟨q, _ | e⟩
    · rw [hva] at hq
      simp only []
      refine finish_cont ⟨fs, .str false w n (got ++ b) true⟩ ⟨hfs, hl, by simp; omega⟩ _ b b (by simp)
        (fun _ => ⟨rfl, ?_⟩) _ ?_ pend (Or.inl hb)
      · refine ⟨hq.st, ?_, hq.buf⟩
        rw [hq.ln]
        simp [Ctx.lens, Top.lens]; omega
      · simp [Ctx.wire, Top.wire]
    · exact Or.inl (by simp)

theorem bytes_sim (fs : List Cont) (hfs : contsValid fs) (w : W) (n : Nat) (hl : lenOk w n) (got : Bytes)
    (hg : got.length < n) (started : Bool) (p : P)
    (hr0 : RelL p (⟨0x40, if started then 2 else 1⟩ :: contsSts fs) (((n : Int) - got.length) :: contsLens fs) [])
    (b : Bytes) (hb : b ≠ []) (pend : Bool) :
    SimR (contsWire fs ++ (head 2 w n ++ got)) b (stepBytes p b) pend := by
  have hcur := hr0.cur
  cases started with
  | false =>
    simp only [Bool.false_eq_true, if_false] at hr0 hcur
    have hmin : (p.state.current.minor == stStart) = true := by rw [hcur]; decide
    simp only [stepBytes, hmin, if_true]
    have hv := hr0.visit (.arrStart p.length.current BT.byte)
    rcases hvis : visit p (.arrStart p.length.current BT.byte) with ⟨p2, _ | e⟩
    · rw [hvis] at hv
      simp only []
      exact bytesGo_sim fs hfs w n hl got hg (setMinor p2 stCont) (hv.setMinor stCont) b hb pend
    · exact Or.inl (by simp)
  | true =>
    simp only [if_true] at hr0 hcur
    have hmin : (p.state.current.minor == stStart) = false := by rw [hcur]; decide
    simp only [stepBytes, hmin, Bool.false_eq_true, if_false]
    exact bytesGo_sim fs hfs w n hl got hg p hr0 b hb pend

theorem step_bytes (fs : List Cont) (hfs : contsValid fs) (w : W) (n : Nat) (hl : lenOk w n) (got : Bytes)
    (hg : got.length < n) (started : Bool) (p : P)
    (hr : Rel p ⟨fs, .str false w n got started⟩) (b : Bytes) (hb : b ≠ []) (pend : Bool) :
    SimR (Ctx.wire ⟨fs, .str false w n got started⟩) b (execStep p b) pend := by
  have hr0 : RelL p (⟨0x40, if started then 2 else 1⟩ :: contsSts fs) (((n : Int) - got.length) :: contsLens fs) [] := hr
  have hcur := hr0.cur
  rw [execStep_bytes p b (by rw [hcur])]
  have := bytes_sim fs hfs w n hl got hg started p hr0 b hb pend
  simpa [Ctx.wire, Top.wire] using this

theorem step_startBytes (fs : List Cont) (hfs : contsValid fs) (w : W) (n : Nat) (hl : lenOk w n) (p : P)
    (hr : Rel p ⟨fs, .startStr false w n⟩) (b : Bytes) :
    SimR (Ctx.wire ⟨fs, .startStr false w n⟩) b (execStep p b) true := by
  have hr0 : RelL p (⟨0x44, 1⟩ :: contsSts fs) ((n : Int) :: contsLens fs) [] := hr
  have hcur := hr0.cur
  have hlc : p.length.current = (n : Int) := hr0.lcur
  rw [execStep_bytesStart p b (by rw [hcur])]
  simp only [hlc, int_natCast_eq_zero]
  by_cases hn : n = 0
  · subst hn
    simp only [beq_self_eq_true, if_true]
    have hv := hr0.visit (.arrStart 0 BT.byte)
    rcases hvis : visit p (.arrStart 0 BT.byte) with ⟨p2, _ | e⟩
    · rw [hvis] at hv
      simp only []
      have hv2 := hv.visit .arrEnd
      rcases hvis2 : visit p2 .arrEnd with ⟨p3, _ | e⟩
      · rw [hvis2] at hv2
        simp only []
        exact finish_value fs hfs (.bytes w []) (by simp only [okw, List.length_nil, hl.1]; simp) _ b [] b rfl
          (popStateR_sim fs hfs _ (popLen p3) _ (hv2.popLen (contsLens_ne_nil fs)) b) _
          (by simp [Item.wire, Ctx.wire, Top.wire]) true (Or.inr rfl)
      · exact Or.inl (by simp)
    · exact Or.inl (by simp)
  · have hn' : (n == 0) = false := by simpa using hn
    simp only [hn', Bool.false_eq_true, if_false]
    have hsm := hr0.setMajor majorBytes
    cases b with
    | nil =>
      simp only [List.length_nil, beq_self_eq_true, if_true]
      refine finish_cont ⟨fs, .str false w n [] false⟩ ⟨hfs, hl, by simp; omega⟩ _ [] [] rfl
        (fun _ => ⟨rfl, ?_⟩) _ ?_ true (Or.inr ⟨rfl, rfl⟩)
      · refine ⟨hsm.st, ?_, hsm.buf⟩
        rw [hsm.ln]; simp [Ctx.lens, Top.lens]
      · simp [Ctx.wire, Top.wire]
    | cons b0 bs =>
      simp only [List.length_cons, Nat.add_one_ne_zero, beq_iff_eq, if_false]
      have := bytes_sim fs hfs w n hl [] (by simp; omega) false (setMajor p majorBytes)
        (by refine ⟨hsm.st, ?_, hsm.buf⟩; rw [hsm.ln]; simp) (b0 :: bs) (by simp) true
      simpa [Ctx.wire, Top.wire] using this

end SF.Cbor.Sim
