/-
  Helper lemmas for C02 (CBOR parser mirror): one step of the main loop preserves the
  invariant (`execStep_ok`), and the fuelled loops `feedUntil` / `feed` / `feedAll` compute
  the fuel-free big-step relation `Runs` from every invariant state (fuel adequacy).
  Property theorems: SF/Proofs/CborChunkTop.lean.
-/
import SF.Proofs.CborChunkStep
set_option linter.unusedSimpArgs false
set_option linter.unusedVariables false
namespace SF.Cbor.Chunk
open SF SF.Cbor SF.Cbor.Parse
open SF.Props.C03 (startPending)

/-- ONE STEP from an invariant state, on input the main loop can pass: if it succeeds, the
invariant holds again, the measure has decreased and `done` leaves no start pending -/
theorem execStep_ok (p : P) (a : Bytes) (hI : Inv p) (hm : More p a) :
    (execStep p a).err = none → StepOK p a (execStep p a) := by
  cases hI with
  | val hq =>
    have hnp := hq.not_pending
    have ha := hm.ne_nil hnp
    rcases hq.vs.head_cases with h | h | h | h | h
    · rw [execStep_val _ _ h]
      intro he; exact StepOK.ofOutS (stepValue_ok p a hq he) hm
    · rw [execStep_arr _ _ h]
      intro he
      exact StepOK.ofOutS ((stepArray_ok p a hq.vs (by rw [h]; decide) hq.buf he).2 (hq.len (Or.inl h))) hm
    · rw [execStep_map _ _ h]
      intro he
      exact StepOK.ofOutS ((stepMap_ok p a hq.vs (by rw [h]; decide) hq.buf he).2 (hq.len (Or.inr h))) hm
    · rw [execStep_indefArr _ _ h]
      cases a with
      | nil => exact absurd rfl ha
      | cons x bs =>
        intro he
        exact StepOK.ofOutS (indefArr_ok p x bs hq.vs (by rw [h]; decide) hq.buf he) hm
    · rw [execStep_indefMap _ _ h]
      cases a with
      | nil => exact absurd rfl ha
      | cons x bs =>
        intro he
        exact StepOK.ofOutS (indefMap_ok p x bs hq.vs (by rw [h]; decide) hq.buf he) hm
  | uint w h1 h2 h3 h4 =>
    have ha := hm.ne_nil (not_pending_of_major h1 (by decide))
    rw [execStep_uint _ _ h1]
    intro he; exact StepOK.ofOutS (stepUint_ok p a w h1 h2 h3 h4 ha he) hm
  | neg w h1 h2 h3 h4 =>
    have ha := hm.ne_nil (not_pending_of_major h1 (by decide))
    rw [execStep_neg _ _ h1]
    intro he; exact StepOK.ofOutS (stepNeg_ok p a w h1 h2 h3 h4 ha he) hm
  | f32 h1 h2 h3 =>
    have hnp := not_pending_of_major h1 (by decide)
    rw [execStep_f32 _ _ h1]
    intro he
    exact StepOK.ofOutS (stepFloat_ok p a 4 (by omega) h2 h3 hnp (fun buf hb => Inv.f32 h1 hb h3) he) hm
  | f64 h1 h2 h3 =>
    have hnp := not_pending_of_major h1 (by decide)
    rw [execStep_f64 _ _ h1]
    intro he
    exact StepOK.ofOutS (stepFloat_ok p a 8 (by omega) h2 h3 hnp (fun buf hb => Inv.f64 h1 hb h3) he) hm
  | len w s t h1 h2 h3 h4 h5 =>
    have ha := hm.ne_nil (not_pending_of_major h1 (by decide))
    rw [execStep_len _ _ h1]
    intro he; exact StepOK.ofOutS (stepLen_ok p a w s t h1 h2 h3 h4 h5 ha he) hm
  | startSeq h1 h2 h3 h4 =>
    have hp : startPending p = true := pending_of_major rfl h1.pending
    rcases h1 with h | h | h
    · rw [execStep_bytesStart _ _ h]
      by_cases hl0 : (p.length.current == 0) = true
      · simp only [hl0, if_true]
        rw [visit_eq]
        by_cases hf : vfail p = true
        · simp [hf]
        · simp only [hf, Bool.false_eq_true, if_false]
          rw [visit_eq]
          by_cases hf2 : vfail (addEv p (Ev.arrStart 0 BT.byte)) = true
          · simp [hf2]
          · simp only [hf2, Bool.false_eq_true, if_false]
            intro he
            exact StepOK.ofOut (Out.ofVal (popStateR_ok _ a h4 h2 he)) hp
      · simp only [hl0, Bool.false_eq_true, if_false]
        have hlpos : p.length.current > 0 := by
          have : p.length.current ≠ 0 := by simpa using hl0
          omega
        by_cases ha : (a.length == 0) = true
        · simp only [ha, if_true]
          intro _
          have hnp : startPending (setMajor p majorBytes) = false := by simp [startPending]; decide
          exact StepOK.ofOut ⟨Inv.bytes rfl h2 hlpos h4, by simp, fun _ => hnp, fun _ => hnp⟩ hp
        · simp only [ha, Bool.false_eq_true, if_false]
          have ha' : a ≠ [] := by intro hc; subst hc; simp at ha
          intro he
          exact StepOK.ofOutS (stepBytes_ok (setMajor p majorBytes) a rfl h2 hlpos h4 ha' he) hm
    · rw [execStep_textStart _ _ h]
      by_cases hl0 : (p.length.current == 0) = true
      · simp only [hl0, if_true]
        rw [visit_eq]
        by_cases hf : vfail (popLen p) = true
        · simp [hf]
        · simp only [hf, Bool.false_eq_true, if_false]
          intro he
          exact StepOK.ofOut (Out.ofVal (popStateR_ok _ a h4 h2 he)) hp
      · simp only [hl0, Bool.false_eq_true, if_false]
        have hlpos : p.length.current > 0 := by
          have : p.length.current ≠ 0 := by simpa using hl0
          omega
        have hbl : ((setMajor p majorText).buffer.length : Int) < (setMajor p majorText).length.current := by
          simp [h2]; exact hlpos
        by_cases ha : (a.length == 0) = true
        · simp only [ha, if_true]
          intro _
          have hnp : startPending (setMajor p majorText) = false := by simp [startPending]; decide
          exact StepOK.ofOut ⟨Inv.text rfl hbl h4, by simp, fun _ => hnp, fun _ => hnp⟩ hp
        · simp only [ha, Bool.false_eq_true, if_false]
          intro he
          exact StepOK.ofOutS (stepText_ok (setMajor p majorText) a rfl hbl h4 he) hm
    · rw [execStep_keyStart _ _ h]
      by_cases hl0 : (p.length.current == 0) = true
      · simp only [hl0, if_true]
        rw [visit_eq]
        by_cases hf : vfail p = true
        · simp [hf]
        · simp only [hf, Bool.false_eq_true, if_false]
          intro _
          have hnp : startPending (setMajor (popLen (addEv p (Ev.key []))) stElem) = false := by
            simp [startPending]; decide
          exact StepOK.ofOut ⟨Inv.elem rfl h2 h4, by simp, fun _ => hnp, fun _ => hnp⟩ hp
      · simp only [hl0, Bool.false_eq_true, if_false]
        have hlpos : p.length.current > 0 := by
          have : p.length.current ≠ 0 := by simpa using hl0
          omega
        have hbl : ((setMajor p stKey).buffer.length : Int) < (setMajor p stKey).length.current := by
          simp [h2]; exact hlpos
        intro he
        exact StepOK.ofOutS (stepKey_ok (setMajor p stKey) a rfl hbl h4 he) hm
  | startSub c t hs hpair hv hb =>
    rcases hpair with ⟨h, hc⟩ | ⟨h, hc⟩ | ⟨h, hc⟩ | ⟨h, hc⟩
    · have hp : startPending p = true := pending_of_major h (by decide)
      rw [execStep_startArr _ _ h, visit_eq]
      by_cases hf : vfail p = true
      · simp [hf]
      · simp only [hf, Bool.false_eq_true, if_false]
        intro he
        have hst : (popSt (addEv p (Ev.arrStart p.length.current BT.any))).state = ⟨t, c⟩ :=
          popSt_state (by simpa using hs)
        exact StepOK.ofOut (stepArray_ok (popSt (addEv p (Ev.arrStart p.length.current BT.any))) a
          (by rw [hst]; exact hv.push (Or.inl hc)) (by rw [hst, hc]; decide) hb he).1 hp
    · have hp : startPending p = true := pending_of_major h (by decide)
      rw [execStep_startMap _ _ h, visit_eq]
      by_cases hf : vfail p = true
      · simp [hf]
      · simp only [hf, Bool.false_eq_true, if_false]
        intro he
        have hst : (popSt (addEv p (Ev.objStart p.length.current BT.any))).state = ⟨t, c⟩ :=
          popSt_state (by simpa using hs)
        exact StepOK.ofOut (stepMap_ok (popSt (addEv p (Ev.objStart p.length.current BT.any))) a
          (by rw [hst]; exact hv.push (Or.inr (Or.inl hc))) (by rw [hst, hc]; decide) hb he).1 hp
    · have ha := hm.ne_nil (not_pending_of_major h (by decide))
      rw [execStep_startIndefArr _ _ h, visit_eq]
      by_cases hf : vfail p = true
      · simp [hf]
      · simp only [hf, Bool.false_eq_true, if_false]
        cases a with
        | nil => exact absurd rfl ha
        | cons x bs =>
          intro he
          have hst : (popSt (addEv p (Ev.arrStart (-1) BT.any))).state = ⟨t, c⟩ :=
            popSt_state (by simpa using hs)
          exact StepOK.ofOutS (indefArr_ok (popSt (addEv p (Ev.arrStart (-1) BT.any))) x bs
            (by rw [hst]; exact hv.push (Or.inr (Or.inr (Or.inl hc)))) (by rw [hst, hc]; decide) hb he) hm
    · have ha := hm.ne_nil (not_pending_of_major h (by decide))
      rw [execStep_startIndefMap _ _ h, visit_eq]
      by_cases hf : vfail p = true
      · simp [hf]
      · simp only [hf, Bool.false_eq_true, if_false]
        cases a with
        | nil => exact absurd rfl ha
        | cons x bs =>
          intro he
          have hst : (popSt (addEv p (Ev.objStart (-1) BT.any))).state = ⟨t, c⟩ :=
            popSt_state (by simpa using hs)
          exact StepOK.ofOutS (indefMap_ok (popSt (addEv p (Ev.objStart (-1) BT.any))) x bs
            (by rw [hst]; exact hv.push (Or.inr (Or.inr (Or.inr hc)))) (by rw [hst, hc]; decide) hb he) hm
  | bytes h1 h2 h3 h4 =>
    have ha := hm.ne_nil (not_pending_of_major h1 (by decide))
    rw [execStep_bytes _ _ h1]
    intro he; exact StepOK.ofOutS (stepBytes_ok p a h1 h2 h3 h4 ha he) hm
  | text h1 h2 h3 =>
    rw [execStep_text _ _ h1]
    intro he; exact StepOK.ofOutS (stepText_ok p a h1 h2 h3 he) hm
  | key h1 h2 h3 =>
    rw [execStep_key _ _ h1]
    intro he; exact StepOK.ofOutS (stepKey_ok p a h1 h2 h3 he) hm
  | elem h1 h2 h3 =>
    have ha := hm.ne_nil (not_pending_of_major h1 (by decide))
    rw [execStep_elem _ _ h1]
    cases a with
    | nil => exact absurd rfl ha
    | cons x bs =>
      intro he
      cases hs : p.state.stack with
      | nil => rw [hs] at h3; exact absurd rfl h3.ne_nil
      | cons u t =>
        have hst : (popSt p).state = ⟨t, u⟩ := popSt_state hs
        exact StepOK.ofOutS (OutS.ofSub (stepValue_post (popSt p) x bs (by rw [hst, ← hs]; exact h3) h2 he)) hm


/-! ## the loops compute the big-step relation (fuel adequacy) -/

theorem contParse_iff (r : R) : contParse r = true ↔ More r.p r.rest := by
  simp only [contParse, More, startPending, Bool.or_eq_true, bne_iff_ne, ne_eq, List.length_eq_zero_iff]

theorem mu_le (p : P) (b : Bytes) : mu p b ≤ 2 * b.length + 1 := by
  unfold mu; split <;> omega

theorem feedUntil_runs (n : Nat) (p : P) (b : Bytes) (hI : Inv p) (hm : More p b) (hn : mu p b < n) :
    (∀ e, (feedUntil n p b).err = some e → Runs p b (feedUntil n p b).p (some e)) ∧
    ((feedUntil n p b).err = none →
        Inv (feedUntil n p b).p ∧ mu (feedUntil n p b).p (feedUntil n p b).rest < mu p b ∧
        ((feedUntil n p b).rest = [] → startPending (feedUntil n p b).p = false) ∧
        ∀ p' e, Runs (feedUntil n p b).p (feedUntil n p b).rest p' e → Runs p b p' e) := by
  induction n generalizing p b with
  | zero => omega
  | succ n ih =>
    rw [feedUntil_succ]
    cases hre : (execStep p b).err with
    | some e =>
      have : loopFrom n (execStep p b) = execStep p b := by simp [loopFrom, hre]
      rw [this]
      refine ⟨fun e' he' => ?_, fun he' => ?_⟩
      · rw [hre] at he'; injection he' with he'; subst he'; exact Runs.err hm hre
      · rw [hre] at he'; cases he'
    | none =>
      have hok := execStep_ok p b hI hm hre
      by_cases hd : (execStep p b).done = true
      · rw [loopFrom_done _ _ hd]
        refine ⟨fun e he => (by rw [hre] at he; cases he), fun _ => ⟨hok.inv, hok.dec, fun _ => hok.done hd, ?_⟩⟩
        intro p' e h; exact Runs.step hm hre h
      · have hd' : (execStep p b).done = false := by simpa using hd
        by_cases hc : contParse (execStep p b) = true
        · rw [loopFrom_cont _ _ hd' hre hc]
          have hm' := (contParse_iff _).mp hc
          have hdec := hok.dec
          obtain ⟨ih1, ih2⟩ := ih (execStep p b).p (execStep p b).rest hok.inv hm' (by omega)
          refine ⟨fun e he => Runs.step hm hre (ih1 e he), fun he => ?_⟩
          obtain ⟨i1, i2, i3, i4⟩ := ih2 he
          exact ⟨i1, by omega, i3, fun p' e h => Runs.step hm hre (i4 p' e h)⟩
        · have : loopFrom n (execStep p b) = execStep p b := by simp [loopFrom, hc]
          rw [this]
          have hnm : ¬ More (execStep p b).p (execStep p b).rest := fun h => hc ((contParse_iff _).mpr h)
          refine ⟨fun e he => (by rw [hre] at he; cases he), fun _ => ⟨hok.inv, hok.dec, fun _ => ?_, ?_⟩⟩
          · cases hp : startPending (execStep p b).p with
            | false => rfl
            | true => exact absurd (Or.inr hp) hnm
          · intro p' e h; exact Runs.step hm hre h

theorem feed_runs (F : Nat) (p : P) (b : Bytes) (hI : Inv p) (hm : b ≠ [] ∨ startPending p = false)
    (hF : mu p b < F) : Runs p b (feed F p b).1 (feed F p b).2 := by
  induction F generalizing p b with
  | zero => omega
  | succ F ih =>
    simp only [feed]
    by_cases hb : b = []
    · subst hb
      simp only [List.length_nil, beq_self_eq_true, if_true]
      refine Runs.stop ?_
      rintro (h | h)
      · exact h rfl
      · rcases hm with hm | hm
        · exact hm rfl
        · rw [hm] at h; cases h
    · have hb' : (b.length == 0) = false := by
        cases b with
        | nil => exact absurd rfl hb
        | cons _ _ => simp
      simp only [hb', Bool.false_eq_true, if_false]
      have hfu : mu p b < fuelFor b := by have := mu_le p b; unfold fuelFor; omega
      obtain ⟨h1, h2⟩ := feedUntil_runs (fuelFor b) p b hI (Or.inl hb) hfu
      cases hre : (feedUntil (fuelFor b) p b).err with
      | some e => simp only []; exact h1 e hre
      | none =>
        simp only []
        obtain ⟨i1, i2, i3, i4⟩ := h2 hre
        apply i4
        apply ih _ _ i1
        · by_cases hr : (feedUntil (fuelFor b) p b).rest = []
          · exact Or.inr (i3 hr)
          · exact Or.inl hr
        · omega

/-- `feedAll` (the body of `Write` and `Parse`) computes the big-step relation -/
theorem feedAll_runs (p : P) (b : Bytes) (hI : Inv p) (hm : b ≠ [] ∨ startPending p = false) :
    Runs p b (feedAll p b).1 (feedAll p b).2 :=
  feed_runs _ p b hI hm (by have := mu_le p b; omega)

theorem feedAll_nil (p : P) : feedAll p [] = (p, none) := by
  simp [feedAll, feed]

/-- a successful run re-establishes the invariant and leaves no start pending -/
theorem Runs.inv {p : P} {b : Bytes} {p' : P} {e : Option Err} (h : Runs p b p' e) (hI : Inv p)
    (he : e = none) : Inv p' ∧ startPending p' = false := by
  induction h with
  | stop hm =>
    refine ⟨hI, ?_⟩
    rename_i p b
    cases hp : startPending p with
    | false => rfl
    | true => exact absurd (Or.inr hp) hm
  | err _ _ => cases he
  | step hm hre _ ih => exact ih (execStep_ok _ _ hI hm hre).inv he

end SF.Cbor.Chunk
