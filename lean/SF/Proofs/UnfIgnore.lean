/-
  Proofs about the `ignore` states of the Unfolder mirror (unfold_ignore.generated.go):
  an object member without a matching struct field is swallowed together with its whole,
  arbitrarily nested value, and nothing of the context (target, the other five stacks, the
  scratch buffers, the key cache) changes.
-/
import SF.Gotype.Unfold
namespace SF.Unf

/-- one complete value as the Unfolder receives it: strings and keys by value or by
reference, any announced lengths and element types (the ignore states look at neither) -/
inductive UTree
  | scalar (s : Sc)
  | strRef (s : Bytes)
  | arr (l : Int) (bt : Nat) (xs : List UTree)
  | obj (l : Int) (bt : Nat) (ms : List (Bool × Bytes × UTree))     -- `true`: key by reference

mutual
def UTree.events : UTree → List UEv
  | .scalar s => [.scalar s]
  | .strRef s => [.strRef s]
  | .arr l bt xs => .arrStart l bt :: eventsList xs ++ [.arrEnd]
  | .obj l bt ms => .objStart l bt :: eventsMems ms ++ [.objEnd]
def eventsList : List UTree → List UEv
  | [] => []
  | x :: xs => x.events ++ eventsList xs
def eventsMems : List (Bool × Bytes × UTree) → List UEv
  | [] => []
  | (r, k, v) :: ms => (if r then UEv.keyRef k else UEv.key k) :: v.events ++ eventsMems ms
end

/-- deliver a list of events; stop at the first error / panic -/
def run (fuel : Nat) : List UEv → Ctx → R Unit
  | [], c => .ok () c
  | e :: es, c =>
    match stepEv fuel e c with
    | .ok _ c' => run fuel es c'
    | r => r

theorem run_cons_ok (fuel : Nat) (e : UEv) (es : List UEv) (c c' : Ctx) (h : stepEv fuel e c = .ok () c') :
    run fuel (e :: es) c = run fuel es c' := by
  rw [run, h]

theorem run_single (fuel : Nat) (e : UEv) (c : Ctx) : run fuel [e] c = stepEv fuel e c := by
  rw [run]
  cases stepEv fuel e c <;> rfl

theorem run_append (fuel : Nat) (a b : List UEv) (c : Ctx) :
    run fuel (a ++ b) c = match run fuel a c with
      | .ok _ c' => run fuel b c'
      | r => r := by
  induction a generalizing c with
  | nil => simp [run]
  | cons e a ih =>
    simp only [List.cons_append, run]
    cases h : stepEv fuel e c with
    | ok _ c' => simp only; exact ih c'
    | err e c' => rfl
    | panic c' => rfl
    | outOfFuel => rfl
    | gap m => rfl

/-! ### the monad, unfolded -/

theorem bind_def {α β : Type} (m : M α) (f : α → M β) (c : Ctx) :
    (m >>= f) c = match m c with
      | .ok a c' => f a c'
      | .err e c' => .err e c'
      | .panic c' => .panic c'
      | .outOfFuel => .outOfFuel
      | .gap s => .gap s := rfl

theorem pure_def {α : Type} (a : α) (c : Ctx) : (pure a : M α) c = .ok a c := rfl

/-- context with another unfolder stack -/
def withU (c : Ctx) (s : Stk U) : Ctx := { c with unfolder := s }

@[simp] theorem withU_self (c : Ctx) : withU c c.unfolder = c := by cases c; rfl
@[simp] theorem withU_withU (c : Ctx) (s t : Stk U) : withU (withU c s) t = withU c t := rfl
@[simp] theorem withU_unfolder (c : Ctx) (s : Stk U) : (withU c s).unfolder = s := rfl

theorem pushU_eq (u : U) (c : Ctx) : pushU u c = .ok () (withU c (c.unfolder.push u)) := rfl

theorem popU_eq (c : Ctx) (cur x : U) (r : List U) (h : c.unfolder = ⟨cur, x :: r⟩) :
    popU c = .ok cur (withU c ⟨x, r⟩) := by
  simp [popU, Stk.pop, h, withU]

theorem currentU_eq (c : Ctx) : currentU c = .ok c.unfolder.current c := rfl

def inIgn (u : U) : Prop := u = .ignoreArr ∨ u = .ignoreObj

/-! ### single events inside an ignored container -/

theorem scalar_inIgn (f : Nat) (s : Sc) (c : Ctx) (h : inIgn c.unfolder.current) :
    onScalar (f + 1) s c = .ok () c := by
  rcases h with h | h <;> simp [onScalar, bind_def, currentU_eq, h, pure_def]

theorem key_inIgn (k : Bytes) (c : Ctx) (h : c.unfolder.current = .ignoreObj) :
    onKey k c = .ok () c ∧ onKeyRef k c = .ok () c := by
  simp [onKey, onKeyRef, bind_def, currentU_eq, h, pure_def]

theorem arrStart_ign (f : Nat) (l : Int) (bt : Nat) (c : Ctx)
    (h : inIgn c.unfolder.current ∨ c.unfolder.current = .ignore) :
    onArrayStart (f + 1) l bt c = .ok () (withU c (c.unfolder.push .ignoreArr)) := by
  rcases h with (h | h) | h <;> simp [onArrayStart, bind_def, currentU_eq, h, pushU_eq]

theorem objStart_ign (f : Nat) (l : Int) (bt : Nat) (c : Ctx)
    (h : inIgn c.unfolder.current ∨ c.unfolder.current = .ignore) :
    onObjectStart (f + 1) l bt c = .ok () (withU c (c.unfolder.push .ignoreObj)) := by
  rcases h with (h | h) | h <;> simp [onObjectStart, bind_def, currentU_eq, h, pushU_eq]

theorem stepArrStart_ign (f : Nat) (l : Int) (bt : Nat) (c : Ctx)
    (h : inIgn c.unfolder.current ∨ c.unfolder.current = .ignore) :
    stepEv (f + 1) (.arrStart l bt) c = .ok () (withU c (c.unfolder.push .ignoreArr)) :=
  arrStart_ign f l (bt % 256) c h

theorem stepObjStart_ign (f : Nat) (l : Int) (bt : Nat) (c : Ctx)
    (h : inIgn c.unfolder.current ∨ c.unfolder.current = .ignore) :
    stepEv (f + 1) (.objStart l bt) c = .ok () (withU c (c.unfolder.push .ignoreObj)) :=
  objStart_ign f l (bt % 256) c h

/-- `reportChildDone` when nothing was popped -/
theorem report_same (report : M Unit) (f : Nat) (c : Ctx) :
    reportChildDone report (f + 1) (c.unfolder.stack.length + 1) c = .ok () c := by
  simp [reportChildDone, bind_def, getCtx, pure_def]

/-- `reportChildDone` after exactly one pop, when the state now on top takes the report
without changing anything -/
theorem report_one (report : M Unit) (f : Nat) (c : Ctx) (hrep : report c = .ok () c) :
    reportChildDone report (f + 2) (c.unfolder.stack.length + 2) c = .ok () c := by
  rw [reportChildDone]
  simp only [bind_def, getCtx]
  by_cases hs : c.unfolder.stack.length + 1 ≤ 1
  · simp [hs, pure_def]
  · have h2 : ¬ (c.unfolder.stack.length + 2 ≤ c.unfolder.stack.length + 1) := by omega
    simp only [hs, h2, decide_false, Bool.or_self, Bool.false_eq_true, if_false]
    rw [bind_def, hrep]
    exact report_same report f c

theorem ctxArrFin_eq (c c1 : Ctx) (h : onArrayFinished c = .ok () c1) :
    ctxOnArrayFinished c =
      reportChildDone onChildArrayDone (c.unfolder.stack.length + 1 + 1) (c.unfolder.stack.length + 1) c1 := by
  simp [ctxOnArrayFinished, bind_def, getCtx, h]

theorem ctxObjFin_eq (c c1 : Ctx) (h : onObjectFinished c = .ok () c1) :
    ctxOnObjectFinished c =
      reportChildDone onChildObjectDone (c.unfolder.stack.length + 1 + 1) (c.unfolder.stack.length + 1) c1 := by
  simp [ctxOnObjectFinished, bind_def, getCtx, h]

theorem arrFin_pushed (c : Ctx) : onArrayFinished (withU c (c.unfolder.push .ignoreArr)) = .ok () c := by
  rcases hu : c.unfolder with ⟨cur, stk⟩
  have hpop := popU_eq (withU c ⟨.ignoreArr, cur :: stk⟩) .ignoreArr cur stk rfl
  simp only [withU_withU] at hpop
  rw [← hu, withU_self] at hpop
  simp [onArrayFinished, bind_def, currentU_eq, Stk.push, hpop, pure_def]

theorem objFin_pushed (c : Ctx) : onObjectFinished (withU c (c.unfolder.push .ignoreObj)) = .ok () c := by
  rcases hu : c.unfolder with ⟨cur, stk⟩
  have hpop := popU_eq (withU c ⟨.ignoreObj, cur :: stk⟩) .ignoreObj cur stk rfl
  simp only [withU_withU] at hpop
  rw [← hu, withU_self] at hpop
  simp [onObjectFinished, bind_def, currentU_eq, Stk.push, hpop, pure_def]

/-- closing an ignored container that sits inside another ignored container -/
theorem arrEnd_inIgn (c : Ctx) (h : inIgn c.unfolder.current) :
    ctxOnArrayFinished (withU c (c.unfolder.push .ignoreArr)) = .ok () c := by
  rw [ctxArrFin_eq _ c (arrFin_pushed c)]
  have hrep : onChildArrayDone c = .ok () c := by
    rcases h with h | h <;> simp [onChildArrayDone, bind_def, currentU_eq, h, pure_def]
  simpa [Stk.push] using report_one onChildArrayDone (c.unfolder.stack.length + 1) c hrep

theorem objEnd_inIgn (c : Ctx) (h : inIgn c.unfolder.current) :
    ctxOnObjectFinished (withU c (c.unfolder.push .ignoreObj)) = .ok () c := by
  rw [ctxObjFin_eq _ c (objFin_pushed c)]
  have hrep : onChildObjectDone c = .ok () c := by
    rcases h with h | h <;> simp [onChildObjectDone, bind_def, currentU_eq, h, pure_def]
  simpa [Stk.push] using report_one onChildObjectDone (c.unfolder.stack.length + 1) c hrep

/-! ### a whole value inside an ignored container changes nothing -/

theorem run_ok_then (fuel : Nat) (a b : List UEv) (c c' : Ctx) (h : run fuel a c = .ok () c') :
    run fuel (a ++ b) c = run fuel b c' := by
  rw [run_append, h]

theorem push_inIgnArr (c : Ctx) : inIgn (withU c (c.unfolder.push .ignoreArr)).unfolder.current :=
  Or.inl rfl
theorem push_inIgnObj (c : Ctx) : inIgn (withU c (c.unfolder.push .ignoreObj)).unfolder.current :=
  Or.inr rfl

mutual
theorem tree_inIgn (f : Nat) (t : UTree) (c : Ctx) (h : inIgn c.unfolder.current) :
    run (f + 1) t.events c = .ok () c := by
  match t with
  | .scalar s => rw [UTree.events, run_single]; exact scalar_inIgn f s c h
  | .strRef s => rw [UTree.events, run_single]; exact scalar_inIgn f (.str s) c h
  | .arr l bt xs =>
    rw [UTree.events, List.cons_append, run_cons_ok _ _ _ _ _ (stepArrStart_ign f l bt c (Or.inl h)),
      run_ok_then _ _ _ _ _ (list_inIgn f xs _ (push_inIgnArr c)), run_single]
    exact arrEnd_inIgn c h
  | .obj l bt ms =>
    rw [UTree.events, List.cons_append, run_cons_ok _ _ _ _ _ (stepObjStart_ign f l bt c (Or.inl h)),
      run_ok_then _ _ _ _ _ (mems_inIgn f ms (withU c (c.unfolder.push .ignoreObj)) rfl), run_single]
    exact objEnd_inIgn c h
theorem list_inIgn (f : Nat) (xs : List UTree) (c : Ctx) (h : inIgn c.unfolder.current) :
    run (f + 1) (eventsList xs) c = .ok () c := by
  match xs with
  | [] => simp [eventsList, run]
  | x :: xs =>
    rw [eventsList, run_ok_then _ _ _ _ _ (tree_inIgn f x c h)]
    exact list_inIgn f xs c h
theorem mems_inIgn (f : Nat) (ms : List (Bool × Bytes × UTree)) (c : Ctx) (h : c.unfolder.current = .ignoreObj) :
    run (f + 1) (eventsMems ms) c = .ok () c := by
  match ms with
  | [] => simp [eventsMems, run]
  | (r, k, v) :: ms =>
    have hk : stepEv (f + 1) (if r then UEv.keyRef k else UEv.key k) c = .ok () c := by
      cases r <;> simp [stepEv, key_inIgn k c h]
    rw [eventsMems, List.cons_append, run_cons_ok _ _ _ _ _ hk, run_ok_then _ _ _ _ _ (tree_inIgn f v c (Or.inr h))]
    exact mems_inIgn f ms c h
end

/-! ### the `ignore` state itself: one complete value, then back to the struct -/

theorem report_two (f : Nat) (report : M Unit) (c : Ctx) (fields : Fields) (rest : List U)
    (hu : c.unfolder = ⟨.ignore, .struct fields :: rest⟩)
    (h1 : report c = .ok () (withU c ⟨.struct fields, rest⟩))
    (h2 : report (withU c ⟨.struct fields, rest⟩) = .ok () (withU c ⟨.struct fields, rest⟩)) :
    reportChildDone report (f + 3) (rest.length + 3) c = .ok () (withU c ⟨.struct fields, rest⟩) := by
  rw [reportChildDone]
  simp only [bind_def, getCtx, hu, List.length_cons]
  have e1 : ¬ (rest.length + 1 + 1 ≤ 1) := by omega
  have e2 : ¬ (rest.length + 3 ≤ rest.length + 1 + 1) := by omega
  simp only [e1, e2, decide_false, Bool.or_self, Bool.false_eq_true, if_false]
  rw [bind_def, h1]
  simp only
  have := report_one report f (withU c ⟨.struct fields, rest⟩) h2
  simpa using this

/-- C13 core: in state `unfolderIgnore` (pushed by `unfolderStruct.OnKey` for a member without
a matching field) ONE COMPLETE VALUE of any shape and nesting depth — strings by value or by
reference, keys by value or by reference, any announced lengths and element types — is
consumed without error, and afterwards the context is EXACTLY what it was before the key,
target included: only the ignore state has been popped. -/
theorem ignore_swallows_value (f : Nat) (t : UTree) (c : Ctx) (fields : Fields) (rest : List U)
    (hu : c.unfolder = ⟨.ignore, .struct fields :: rest⟩) :
    run (f + 1) t.events c = .ok () (withU c ⟨.struct fields, rest⟩) := by
  have hpop : popU c = .ok .ignore (withU c ⟨.struct fields, rest⟩) := popU_eq c _ _ _ hu
  have hcur : c.unfolder.current = .ignore := by rw [hu]
  have hval : ignoreOnValue c = .ok () (withU c ⟨.struct fields, rest⟩) := by
    simp [ignoreOnValue, bind_def, hpop, pure_def]
  have hstruct : ∀ (rep : M Unit), (rep = onChildArrayDone ∨ rep = onChildObjectDone) →
      rep (withU c ⟨.struct fields, rest⟩) = .ok () (withU c ⟨.struct fields, rest⟩) := by
    intro rep hr
    rcases hr with hr | hr <;> subst hr <;>
      simp [onChildArrayDone, onChildObjectDone, bind_def, currentU_eq, pure_def]
  match t with
  | .scalar s =>
    rw [UTree.events, run_single]
    simp [stepEv, onScalar, bind_def, currentU_eq, hcur, hval]
  | .strRef s =>
    rw [UTree.events, run_single]
    simp [stepEv, onStringRef, onScalar, bind_def, currentU_eq, hcur, hval]
  | .arr l bt xs =>
    rw [UTree.events, List.cons_append, run_cons_ok _ _ _ _ _ (stepArrStart_ign f l bt c (Or.inr hcur)),
      run_ok_then _ _ _ _ _ (list_inIgn f xs _ (push_inIgnArr c)), run_single]
    simp only [stepEv]
    rw [ctxArrFin_eq _ c (arrFin_pushed c)]
    have hrep : onChildArrayDone c = .ok () (withU c ⟨.struct fields, rest⟩) := by
      simp [onChildArrayDone, bind_def, currentU_eq, hcur, hval]
    have := report_two (rest.length + 1) onChildArrayDone c fields rest hu hrep (hstruct _ (Or.inl rfl))
    simp only [withU_unfolder, Stk.push, hu, List.length_cons]
    rw [this]
  | .obj l bt ms =>
    rw [UTree.events, List.cons_append, run_cons_ok _ _ _ _ _ (stepObjStart_ign f l bt c (Or.inr hcur)),
      run_ok_then _ _ _ _ _ (mems_inIgn f ms (withU c (c.unfolder.push .ignoreObj)) rfl), run_single]
    simp only [stepEv]
    rw [ctxObjFin_eq _ c (objFin_pushed c)]
    have hrep : onChildObjectDone c = .ok () (withU c ⟨.struct fields, rest⟩) := by
      simp [onChildObjectDone, bind_def, currentU_eq, hcur, hval]
    have := report_two (rest.length + 1) onChildObjectDone c fields rest hu hrep (hstruct _ (Or.inr rfl))
    simp only [withU_unfolder, Stk.push, hu, List.length_cons]
    rw [this]

end SF.Unf
