/-
  UBJSON refinement: containers given their bodies, and THE REFINEMENT LEMMA by mutual
  structural induction over items / element lists / member lists.
-/
import SF.Proofs.UbjRefBody
namespace SF.Ubjson.Parse
open SF SF.Ubjson SF.Ubjson.Syn
open StateType StateStep

/-! ## containers, given their bodies -/

theorem start_ne_fail {t : UInt8} {st : St} (h : markerToStartState t = some st) : st.type ≠ stFail := by
  have : ∀ n : Fin 256, (markerToStartState (UInt8.ofNat n.val)).all (fun s => s.type != stFail) = true := by
    decide +kernel
  have := this ⟨t.toNat, t.toNat_lt⟩
  simp only [UInt8.ofNat_toNat] at this
  rw [h] at this
  simpa using this

theorem typeMarker_start {t : UInt8} (h : isTypeMarker t = true) :
    ∃ st, markerToStartState t = some st ∧ (t == noopMarker) = false := by
  simp only [isTypeMarker, Bool.and_eq_true, bne_iff_ne, ne_eq] at h
  obtain ⟨h1, h2⟩ := h
  cases hm : markerToStartState t with
  | none => simp [hm] at h1
  | some st => exact ⟨st, rfl, by simpa using h2⟩

theorem elems_first (xs : List (Nat × Item)) (t : Nat) (rest : Bytes) :
    ∃ b0 bs, wireElems xs ++ (noops t ++ arrEndMarker :: rest) = b0 :: bs ∧
      (b0 == countMarker) = false ∧ (b0 == typeMarker) = false := by
  cases xs with
  | nil =>
    cases t with
    | zero => exact ⟨arrEndMarker, rest, rfl, by decide, by decide⟩
    | succ t => exact ⟨noopMarker, _, rfl, by decide, by decide⟩
  | cons nx xs =>
    obtain ⟨n, x⟩ := nx
    cases n with
    | zero => exact ⟨x.marker, _, rfl, (marker_ne x).2.2.2.1, (marker_ne x).2.2.2.2⟩
    | succ n => exact ⟨noopMarker, _, rfl, by decide, by decide⟩

theorem lw_marker_ne (w : LW) : (w.marker == countMarker) = false ∧ (w.marker == typeMarker) = false := by
  cases w <;> decide

theorem mems_first (ms : List (LW × Bytes × Item)) (rest : Bytes) :
    ∃ b0 bs, wireMems ms ++ objEndMarker :: rest = b0 :: bs ∧
      (b0 == countMarker) = false ∧ (b0 == typeMarker) = false := by
  cases ms with
  | nil => exact ⟨objEndMarker, rest, rfl, by decide, by decide⟩
  | cons m ms =>
    obtain ⟨kw, k, v⟩ := m
    exact ⟨kw.marker, _, rfl, (lw_marker_ne kw).1, (lw_marker_ne kw).2⟩

/-- with at least one unit of fuel, the `stStart` and `stCont` states of a plain array
behave alike -/
theorem feedUntil_arrDyn_start (f : Nat) (S : List St) (VS LS lc vt E) (b0 : UInt8) (bs : Bytes) :
    feedUntil (f + 1) (mk S ⟨stArrayDyn, stStart⟩ VS LS lc vt E) (b0 :: bs) =
      feedUntil (f + 1) (mk S ⟨stArrayDyn, stCont⟩ VS LS lc vt E) (b0 :: bs) := by
  rw [feedUntil_succ _ _ _ (by simp), feedUntil_succ _ _ _ (by simp), step_arrDyn_start]

theorem pl_arr (xs : List (Nat × Item)) (t : Nat) (hb : DynBody xs) : PLs (.arr xs t) := by
  intro f S c VS LS lc vt E rest hv
  obtain ⟨vt', h⟩ := hb f S c VS LS lc vt (.arrStart (-1) BT.any :: E) t rest hv
  refine ⟨vt', ?_⟩
  obtain ⟨b0, bs, hw, h1, h2⟩ := elems_first xs t rest
  simp only [pcost, istart, Item.payload, Item.events, List.append_assoc, List.cons_append, List.nil_append]
  rw [hw] at h ⊢
  rw [show f + (1 + costElems xs + t + 1) = (f + (costElems xs + t + 1)) + 1 by omega,
    feedUntil_succ _ _ _ (by simp), step_arrInit_dyn _ _ _ _ _ _ _ _ h1 h2, after_cont,
    show f + (costElems xs + t + 1) = (f + (costElems xs + t)) + 1 by omega, feedUntil_arrDyn_start,
    show (f + (costElems xs + t)) + 1 = f + (costElems xs + t + 1) by omega, h]
  simp [List.reverse_append]

theorem wireElems_ne_nil (nx : Nat × Item) (xs : List (Nat × Item)) (rest : Bytes) :
    wireElems (nx :: xs) ++ rest ≠ [] := by
  obtain ⟨n, x⟩ := nx
  cases n <;> simp [wireElems, noops, List.replicate]

theorem pl_arrN (w : LW) (xs : List (Nat × Item)) (hw : w.fits xs.length = true) (hb : CntBody xs) :
    PLs (.arrN w xs) := by
  intro f S c VS LS lc vt E rest hv
  obtain ⟨vt', h⟩ := hb f S c VS LS lc vt (.arrStart xs.length BT.any :: E) rest hv
  refine ⟨vt', ?_⟩
  simp only [pcost, istart, Item.payload, Item.events, List.append_assoc, List.cons_append]
  rw [show f + (2 + costElems xs + 1) = ((f + (costElems xs + 1)) + 1) + 1 by omega,
    feedUntil_succ _ _ _ (by simp), step_arrInit_count, after_cont,
    feedUntil_succ _ _ _ (lenWire_isEmpty _ _ _ ▸ rfl), step_arrCount_len _ _ _ _ _ _ _ _ hw, after_cont]
  have hc : (xs.length : Int) = 0 ∨ wireElems xs ++ rest ≠ [] := by
    cases xs with
    | nil => exact Or.inl rfl
    | cons nx xs => exact Or.inr (wireElems_ne_nil nx xs rest)
  have hg : (!(wireElems xs ++ rest).isEmpty || pending (mk (c :: S) ⟨stArrayCount, stWithLen⟩ VS (lc :: LS) xs.length vt E)) = true := by
    simp [pending, mk]
  have hg2 : (!(wireElems xs ++ rest).isEmpty || pending (mk (c :: S) ⟨stArrayCount, stCont⟩ VS (lc :: LS) xs.length vt
      (.arrStart xs.length BT.any :: E))) = true := by
    rcases hc with hc | hc
    · simp [pending, mk, hc]
    · cases hb' : wireElems xs ++ rest with
      | nil => exact absurd hb' hc
      | cons a l => rfl
  rw [show f + (costElems xs + 1) = (f + costElems xs) + 1 by omega, feedUntil_succ _ _ _ hg,
    step_arrCount_withLen _ _ _ _ _ _ _ hc, ← feedUntil_succ _ _ _ hg2,
    show (f + costElems xs) + 1 = f + (costElems xs + 1) by omega, h]
  simp [List.reverse_append]

theorem pl_arrT (t : UInt8) (w : LW) (xs : List Item) (ht : isTypeMarker t = true)
    (hw : w.fits xs.length = true) (hm : ∀ x ∈ xs, x.marker = t) (hb : TypBody xs) : PLs (.arrT t w xs) := by
  intro f S c VS LS lc vt E rest hv
  obtain ⟨st, hst, hn⟩ := typeMarker_start ht
  have hv' : VSok (VS.push st) := vsok_push VS st (start_ne_fail hst)
  have hcur : ∀ x ∈ xs, istart x = (VS.push st).current := by
    intro x hx
    have := start_of_marker x
    rw [hm x hx, hst] at this
    rw [push_current]; exact (Option.some.inj this).symm
  obtain ⟨vt', h⟩ := hb f S c (VS.push st) LS lc (markerToBaseType t)
    (.arrStart xs.length (markerToBaseType t) :: E) rest hv' hcur
  refine ⟨vt', ?_⟩
  simp only [pcost, istart, Item.payload, Item.events, List.append_assoc, List.cons_append]
  rw [show f + (4 + costTyped xs + 1) = ((((f + (costTyped xs + 1)) + 1) + 1) + 1) + 1 by omega,
    feedUntil_succ _ _ _ (by simp), step_arrInit_typed, after_cont,
    feedUntil_succ _ _ _ (by simp), step_typed_type _ _ _ _ _ _ stArrayTyped (Or.inl rfl) t st _ hst hn, after_cont,
    feedUntil_succ _ _ _ (by simp), step_typed_hash _ _ _ _ _ _ stArrayTyped (Or.inl rfl), after_cont,
    feedUntil_succ _ _ _ (lenWire_isEmpty _ _ _ ▸ rfl),
    step_typed_len _ _ _ _ _ _ stArrayTyped (Or.inl rfl) _ _ hw, after_cont]
  have hg : ∀ s E', (s = stWithLen ∨ s = stCont) → (!(payList xs ++ rest).isEmpty ||
      pending (mk (c :: S) ⟨stArrayTyped, s⟩ (VS.push st) (lc :: LS) xs.length (markerToBaseType t) E')) = true := by
    intro s E' hs; rcases hs with rfl | rfl <;> simp [pending, mk]
  rw [show f + (costTyped xs + 1) = (f + costTyped xs) + 1 by omega, feedUntil_succ _ _ _ (hg _ _ (Or.inl rfl)),
    step_arrTyped_withLen, ← feedUntil_succ _ _ _ (hg _ _ (Or.inr rfl)),
    show (f + costTyped xs) + 1 = f + (costTyped xs + 1) by omega, h, push_pop hv]
  simp [List.reverse_append]


theorem pl_obj (ms : List (LW × Bytes × Item)) (hb : DynMems ms) : PLs (.obj ms) := by
  intro f S c VS LS lc vt E rest hv
  obtain ⟨vt', h⟩ := hb f S c VS LS lc vt (.objStart (-1) BT.any :: E) rest hv
  refine ⟨vt', ?_⟩
  obtain ⟨b0, bs, hw, h1, h2⟩ := mems_first ms rest
  simp only [pcost, istart, Item.payload, Item.events, List.append_assoc, List.cons_append, List.nil_append]
  rw [hw] at h ⊢
  rw [show f + (1 + costMems ms + 1) = (f + (costMems ms + 1)) + 1 by omega,
    feedUntil_succ _ _ _ (by simp), step_objInit_dyn _ _ _ _ _ _ _ _ h1 h2, after_cont, h]
  simp [List.reverse_append]

theorem wireMems_ne_nil (m : LW × Bytes × Item) (ms : List (LW × Bytes × Item)) (rest : Bytes) :
    wireMems (m :: ms) ++ rest ≠ [] := by
  obtain ⟨kw, k, v⟩ := m
  simp [wireMems, lenWire]

theorem payMems_ne_nil (m : LW × Bytes × Item) (ms : List (LW × Bytes × Item)) (rest : Bytes) :
    payMems (m :: ms) ++ rest ≠ [] := by
  obtain ⟨kw, k, v⟩ := m
  simp [payMems, lenWire]

theorem pl_objN (w : LW) (ms : List (LW × Bytes × Item)) (hw : w.fits ms.length = true) (hb : CntMems ms) :
    PLs (.objN w ms) := by
  intro f S c VS LS lc vt E rest hv
  obtain ⟨vt', h⟩ := hb f S c VS LS lc vt (.objStart ms.length BT.any :: E) rest hv
  refine ⟨vt', ?_⟩
  simp only [pcost, istart, Item.payload, Item.events, List.append_assoc, List.cons_append]
  rw [show f + (2 + costMems ms + 1) = ((f + (costMems ms + 1)) + 1) + 1 by omega,
    feedUntil_succ _ _ _ (by simp), step_objInit_count, after_cont,
    feedUntil_succ _ _ _ (lenWire_isEmpty _ _ _ ▸ rfl), step_objCount_len _ _ _ _ _ _ _ _ hw, after_cont]
  have hc : (ms.length : Int) = 0 ∨ wireMems ms ++ rest ≠ [] := by
    cases ms with
    | nil => exact Or.inl rfl
    | cons m ms => exact Or.inr (wireMems_ne_nil m ms rest)
  have hg : (!(wireMems ms ++ rest).isEmpty || pending (mk (c :: S) ⟨stObjectCount, stWithLen⟩ VS (lc :: LS) ms.length vt E)) = true := by
    simp [pending, mk]
  have hg2 : (!(wireMems ms ++ rest).isEmpty || pending (mk (c :: S) ⟨stObjectCount, stFieldName⟩ VS (lc :: LS) ms.length vt
      (.objStart ms.length BT.any :: E))) = true := by
    rcases hc with hc | hc
    · simp [pending, mk, hc]
    · cases hb' : wireMems ms ++ rest with
      | nil => exact absurd hb' hc
      | cons a l => rfl
  rw [show f + (costMems ms + 1) = (f + costMems ms) + 1 by omega, feedUntil_succ _ _ _ hg,
    step_objCount_withLen _ _ _ _ _ _ stObjectCount (Or.inl rfl) _ hc, ← feedUntil_succ _ _ _ hg2,
    show (f + costMems ms) + 1 = f + (costMems ms + 1) by omega, h]
  simp [List.reverse_append]

theorem pl_objT (t : UInt8) (w : LW) (ms : List (LW × Bytes × Item)) (ht : isTypeMarker t = true)
    (hw : w.fits ms.length = true) (hm : ∀ m ∈ ms, m.2.2.marker = t) (hb : TypMems ms) : PLs (.objT t w ms) := by
  intro f S c VS LS lc vt E rest hv
  obtain ⟨st, hst, hn⟩ := typeMarker_start ht
  have hv' : VSok (VS.push st) := vsok_push VS st (start_ne_fail hst)
  have hcur : ∀ m ∈ ms, istart m.2.2 = (VS.push st).current := by
    intro m hx
    have := start_of_marker m.2.2
    rw [hm m hx, hst] at this
    rw [push_current]; exact (Option.some.inj this).symm
  obtain ⟨vt', h⟩ := hb f S c (VS.push st) LS lc (markerToBaseType t)
    (.objStart ms.length BT.any :: E) rest hv' hcur
  refine ⟨vt', ?_⟩
  simp only [pcost, istart, Item.payload, Item.events, List.append_assoc, List.cons_append]
  rw [show f + (4 + costMemsT ms + 1) = ((((f + (costMemsT ms + 1)) + 1) + 1) + 1) + 1 by omega,
    feedUntil_succ _ _ _ (by simp), step_objInit_typed, after_cont,
    feedUntil_succ _ _ _ (by simp), step_typed_type _ _ _ _ _ _ stObjectTyped (Or.inr rfl) t st _ hst hn, after_cont,
    feedUntil_succ _ _ _ (by simp), step_typed_hash _ _ _ _ _ _ stObjectTyped (Or.inr rfl), after_cont,
    feedUntil_succ _ _ _ (lenWire_isEmpty _ _ _ ▸ rfl),
    step_typed_len _ _ _ _ _ _ stObjectTyped (Or.inr rfl) _ _ hw, after_cont]
  have hc : (ms.length : Int) = 0 ∨ payMems ms ++ rest ≠ [] := by
    cases ms with
    | nil => exact Or.inl rfl
    | cons m ms => exact Or.inr (payMems_ne_nil m ms rest)
  have hg : (!(payMems ms ++ rest).isEmpty || pending (mk (c :: S) ⟨stObjectTyped, stWithLen⟩ (VS.push st) (lc :: LS)
      ms.length (markerToBaseType t) E)) = true := by
    simp [pending, mk]
  have hg2 : (!(payMems ms ++ rest).isEmpty || pending (mk (c :: S) ⟨stObjectTyped, stFieldName⟩ (VS.push st) (lc :: LS)
      ms.length (markerToBaseType t) (.objStart ms.length BT.any :: E))) = true := by
    rcases hc with hc | hc
    · simp [pending, mk, hc]
    · cases hb' : payMems ms ++ rest with
      | nil => exact absurd hb' hc
      | cons a l => rfl
  rw [show f + (costMemsT ms + 1) = (f + costMemsT ms) + 1 by omega, feedUntil_succ _ _ _ hg,
    step_objCount_withLen _ _ _ _ _ _ stObjectTyped (Or.inr rfl) _ hc, ← feedUntil_succ _ _ _ hg2,
    show (f + costMemsT ms) + 1 = f + (costMemsT ms + 1) by omega, h, push_pop hv]
  simp [List.reverse_append]

theorem okTyped_marker (t : UInt8) (xs : List Item) (h : okTyped t xs = true) : ∀ x ∈ xs, x.marker = t := by
  induction xs with
  | nil => simp
  | cons x xs ih =>
    have h' : (x.ok = true ∧ x.marker = t) ∧ okTyped t xs = true := by simpa [okTyped] using h
    intro y hy
    simp only [List.mem_cons] at hy
    rcases hy with rfl | hy
    · exact h'.1.2
    · exact ih h'.2 y hy

theorem okMemsT_marker (t : UInt8) (ms : List (LW × Bytes × Item)) (h : okMemsT t ms = true) :
    ∀ m ∈ ms, m.2.2.marker = t := by
  induction ms with
  | nil => simp
  | cons m ms ih =>
    obtain ⟨kw, k, v⟩ := m
    have h' : ((kw.fits k.length = true ∧ v.ok = true) ∧ v.marker = t) ∧ okMemsT t ms = true := by
      simpa [okMemsT] using h
    intro y hy
    simp only [List.mem_cons] at hy
    rcases hy with rfl | hy
    · exact h'.1.2
    · exact ih h'.2 y hy

/-! ## THE REFINEMENT: mutual structural induction over items, element lists, member lists -/

mutual
theorem pl_item (x : Item) (h : x.ok = true) : PLs x :=
  match x with
  | .null => pl_null
  | .tru => pl_tru
  | .fals => pl_fals
  | .int k v => pl_int k v (by simpa [Item.ok] using h)
  | .f32 b => pl_f32 b
  | .f64 b => pl_f64 b
  | .char ch => pl_char ch
  | .str w s => pl_str w s (by simpa [Item.ok] using h)
  | .hp w s => pl_hp w s (by simpa [Item.ok] using h)
  | .arr xs t => pl_arr xs t (dynBody xs (by simpa [Item.ok] using h))
  | .arrN w xs =>
    have h' : w.fits xs.length = true ∧ okElems xs = true := by simpa [Item.ok] using h
    pl_arrN w xs h'.1 (cntBody xs h'.2)
  | .arrT t w xs =>
    have h' : (isTypeMarker t = true ∧ w.fits xs.length = true) ∧ okTyped t xs = true := by
      simpa [Item.ok] using h
    pl_arrT t w xs h'.1.1 h'.1.2 (okTyped_marker t xs h'.2) (typBody t xs h'.2)
  | .obj ms => pl_obj ms (dynMems ms (by simpa [Item.ok] using h))
  | .objN w ms =>
    have h' : w.fits ms.length = true ∧ okMems ms = true := by simpa [Item.ok] using h
    pl_objN w ms h'.1 (cntMems ms h'.2)
  | .objT t w ms =>
    have h' : (isTypeMarker t = true ∧ w.fits ms.length = true) ∧ okMemsT t ms = true := by
      simpa [Item.ok] using h
    pl_objT t w ms h'.1.1 h'.1.2 (okMemsT_marker t ms h'.2) (typMems t ms h'.2)
theorem dynBody (xs : List (Nat × Item)) (h : okElems xs = true) : DynBody xs :=
  match xs with
  | [] => dynBody_nil
  | (n, x) :: xs =>
    have h' : x.ok = true ∧ okElems xs = true := by simpa [okElems] using h
    dynBody_cons n x xs (pl_item x h'.1) (dynBody xs h'.2)
theorem cntBody (xs : List (Nat × Item)) (h : okElems xs = true) : CntBody xs :=
  match xs with
  | [] => cntBody_nil
  | (n, x) :: xs =>
    have h' : x.ok = true ∧ okElems xs = true := by simpa [okElems] using h
    cntBody_cons n x xs (pl_item x h'.1) (cntBody xs h'.2)
theorem typBody (t : UInt8) (xs : List Item) (h : okTyped t xs = true) : TypBody xs :=
  match xs with
  | [] => typBody_nil
  | x :: xs =>
    have h' : (x.ok = true ∧ x.marker = t) ∧ okTyped t xs = true := by simpa [okTyped] using h
    typBody_cons x xs (pl_item x h'.1.1) (typBody t xs h'.2)
theorem dynMems (ms : List (LW × Bytes × Item)) (h : okMems ms = true) : DynMems ms :=
  match ms with
  | [] => dynMems_nil
  | (kw, k, v) :: ms =>
    have h' : (kw.fits k.length = true ∧ v.ok = true) ∧ okMems ms = true := by simpa [okMems] using h
    dynMems_cons kw k v ms h'.1.1 (pl_item v h'.1.2) (dynMems ms h'.2)
theorem cntMems (ms : List (LW × Bytes × Item)) (h : okMems ms = true) : CntMems ms :=
  match ms with
  | [] => cntMems_nil
  | (kw, k, v) :: ms =>
    have h' : (kw.fits k.length = true ∧ v.ok = true) ∧ okMems ms = true := by simpa [okMems] using h
    cntMems_cons kw k v ms h'.1.1 (pl_item v h'.1.2) (cntMems ms h'.2)
theorem typMems (t : UInt8) (ms : List (LW × Bytes × Item)) (h : okMemsT t ms = true) : TypMems ms :=
  match ms with
  | [] => typMems_nil
  | (kw, k, v) :: ms =>
    have h' : ((kw.fits k.length = true ∧ v.ok = true) ∧ v.marker = t) ∧ okMemsT t ms = true := by
      simpa [okMemsT] using h
    typMems_cons kw k v ms h'.1.1.1 (pl_item v h'.1.1.2) (typMems t ms h'.2)
end

end SF.Ubjson.Parse
