/-
  Property C09 with the gotype fold as producer, on the universe with CUSTOM CODE (`goodC` /
  `wtC`, CusUniv) — the leaves: the events of the menagerie's custom folders, as far as rule 2
  reads a value off them (`cusOK`, part of `wtC`), are the events of ONE contract-conforming
  tree (`IsVal`), the order oracle leaves them alone, and an `ExpectObjVisitor` (inline fields)
  forwards conforming members of them or returns an error.  The `ExpectObjVisitor` lemmas of
  CusLeaf are redone for a visitor that is merely healthy (`Wf.H`: no condition on the oracle).
-/
import SF.Proofs.CusRun
import SF.Proofs.FoldWfShape
namespace SF.FoldProofs.Custom.WfC
open SF SF.Gotype SF.Gotype.Fold SF.Gotype.Rules SF.FoldProofs.Wf ETree

/-! ## a healthy user visitor -/

/-- a healthy user visitor takes a list of quiet events as they are -/
theorem seqM_user_quiet {xs : List XEv} (hq : ∀ x ∈ xs, quietX x = true) :
    ∀ s s' r, H s → seqM (fun s x => emit s .user x) s xs = (s', r) → r = .ok ∧ Dl s s' xs := by
  induction xs with
  | nil =>
    intro s s' r hs h
    simp only [seqM, Prod.mk.injEq] at h
    obtain ⟨rfl, rfl⟩ := h
    exact ⟨rfl, Dl.refl hs⟩
  | cons x xs ih =>
    intro s s' r hs h
    rcases h1 : emit s .user x with ⟨s1, r1⟩
    obtain ⟨rfl, d1⟩ := emit_H hs h1
    rw [reorder_quiet s (hq x (by simp))] at d1
    simp only [seqM, h1] at h
    obtain ⟨hr, d2⟩ := ih (fun y hy => hq y (by simp [hy])) s1 s' r d1.2 h
    exact ⟨hr, by simpa using d1.trans d2⟩

/-- the outcome of delivering events through the `ExpectObjVisitor` `id` -/
def ThruOutH (s : St) (id : VsId) (out : St × Res) (res : Except Err (List XEv × Int)) : Prop :=
  match res with
  | .ok (ys, d') => ∃ s', out = (s', .ok) ∧ Dl s s' ys ∧ ExpAt s' id d'
  | .error err => ∃ s', out = (s', .err err)

theorem deliver_evH (s : St) (e : Ev) (h : H s) :
    ∃ s', deliver s (.ev e) = (s', .ok) ∧ Dl s s' [.ev e] ∧ s'.vss = s.vss := by
  refine ⟨{ s with evs := .ev e :: s.evs, n := s.n + 1, hint := s.hint.drop 1 }, ?_, ⟨?_, h⟩, rfl⟩
  · unfold H at h
    simp [deliver, h, reorder_ev]
  · simp

theorem deliver_quietH (s : St) {x : XEv} (hq : quietX x = true) (h : H s) :
    ∃ s', deliver s x = (s', .ok) ∧ Dl s s' [x] ∧ s'.vss = s.vss := by
  refine ⟨{ s with evs := x :: s.evs, n := s.n + 1, hint := s.hint.drop 1 }, ?_, ⟨?_, h⟩, rfl⟩
  · unfold H at h
    simp [deliver, h, reorder_quiet s hq]
  · simp

theorem Dl_setVs {s : St} (hs : H s) (id : VsId) (v : Vs) : Dl s (s.setVs id v) [] :=
  ⟨by simp [St.setVs], hs⟩

theorem Dl_of_setVs {s s' : St} {id : VsId} {v : Vs} {xs : List XEv} (h : Dl (s.setVs id v) s' xs) :
    Dl s s' xs := ⟨by rw [h.1]; simp [St.setVs], h.2⟩

/-- one basic event through the `ExpectObjVisitor` -/
theorem visit_exp_evH (f : Nat) {s : St} {id : VsId} {d : Int} (e : Ev) (hs : H s) (hx : ExpAt s id d) :
    ThruOutH s id (visit (f + 2) s (.exp id) (.ev e)) (thruEv d e) := by
  unfold ExpAt at hx
  have scalar : (∀ l bt, e ≠ .objStart l bt) → e ≠ .objEnd →
      visit (f + 2) s (.exp id) (.ev e) =
        if d == 0 then (s, .err .inlineNoObject) else deliver s (.ev e) := by
    intro h1 h2
    rw [visit]
    · simp only [hx, visit_user]
    · intro l bt h; cases h; exact h1 l bt rfl
    · intro h; cases h; exact h2 rfl
  have scalarOut : (∀ l bt, e ≠ .objStart l bt) → e ≠ .objEnd →
      thruEv d e = (if d == 0 then .error .inlineNoObject else .ok ([.ev e], d)) →
      ThruOutH s id (visit (f + 2) s (.exp id) (.ev e)) (thruEv d e) := by
    intro h1 h2 h3
    rw [scalar h1 h2, h3]
    by_cases hd : (d == 0) = true
    · simp only [hd, if_true]
      exact ⟨s, rfl⟩
    · simp only [hd, Bool.false_eq_true, if_false]
      obtain ⟨s', h1, h2, h3⟩ := deliver_evH s e hs
      exact ⟨s', h1, h2, ExpAt_of_vss hx h3⟩
  cases e with
  | objStart l bt =>
    rw [visit]
    simp only [hx, thruEv]
    by_cases hd : (d + 1 == 1) = true
    · simp only [hd, if_true]
      exact ⟨_, rfl, Dl_setVs hs _ _, getVs_setVs _ _ _⟩
    · simp only [hd, Bool.false_eq_true, if_false, visit_user]
      obtain ⟨s', h1, h2, h3⟩ := deliver_evH (s.setVs id { active := some .user, depth := d + 1 }) (.objStart l bt) hs
      exact ⟨s', h1, Dl_of_setVs h2, ExpAt_of_vss (getVs_setVs _ _ _) h3⟩
  | objEnd =>
    rw [visit]
    simp only [hx, thruEv]
    by_cases hd : (d - 1 == 0) = true
    · simp only [hd, if_true]
      exact ⟨_, rfl, Dl_setVs hs _ _, getVs_setVs _ _ _⟩
    · simp only [hd, Bool.false_eq_true, if_false, visit_user]
      obtain ⟨s', h1, h2, h3⟩ := deliver_evH (s.setVs id { active := some .user, depth := d - 1 }) .objEnd hs
      exact ⟨s', h1, Dl_of_setVs h2, ExpAt_of_vss (getVs_setVs _ _ _) h3⟩
  | null => exact scalarOut (by intro _ _ h; cases h) (by intro h; cases h) rfl
  | bool b => exact scalarOut (by intro _ _ h; cases h) (by intro h; cases h) rfl
  | str b => exact scalarOut (by intro _ _ h; cases h) (by intro h; cases h) rfl
  | key b => exact scalarOut (by intro _ _ h; cases h) (by intro h; cases h) rfl
  | num k v => exact scalarOut (by intro _ _ h; cases h) (by intro h; cases h) rfl
  | f32 b => exact scalarOut (by intro _ _ h; cases h) (by intro h; cases h) rfl
  | f64 b => exact scalarOut (by intro _ _ h; cases h) (by intro h; cases h) rfl
  | arrStart l bt => exact scalarOut (by intro _ _ h; cases h) (by intro h; cases h) rfl
  | arrEnd => exact scalarOut (by intro _ _ h; cases h) (by intro h; cases h) rfl

/-- composition: a step, then a sequence -/
theorem ThruOutH_seq {α : Type} (step : St → α → St × Res) (sim : Int → α → Except Err (List XEv × Int))
    (sims : Int → List α → Except Err (List XEv × Int))
    (hnil : ∀ d, sims d [] = .ok ([], d))
    (hcons : ∀ d x xs, sims d (x :: xs) =
      match sim d x with
      | .error err => .error err
      | .ok (ys, d') =>
        match sims d' xs with
        | .error err => .error err
        | .ok (zs, d'') => .ok (ys ++ zs, d''))
    (id : VsId) (xs : List α)
    (hstep : ∀ x ∈ xs, ∀ s d, H s → ExpAt s id d → ThruOutH s id (step s x) (sim d x)) :
    ∀ s d, H s → ExpAt s id d → ThruOutH s id (seqM step s xs) (sims d xs) := by
  induction xs with
  | nil =>
    intro s d hs hx
    rw [hnil]
    exact ⟨s, rfl, Dl.refl hs, hx⟩
  | cons x xs ih =>
    intro s d hs hx
    rw [hcons]
    have h1 := hstep x (by simp) s d hs hx
    cases hsim : sim d x with
    | error err =>
      rw [hsim] at h1
      obtain ⟨s', h1⟩ := h1
      exact ⟨s', by simp only [seqM, h1]⟩
    | ok p =>
      obtain ⟨ys, d'⟩ := p
      rw [hsim] at h1
      obtain ⟨s1, h1, a1, x1⟩ := h1
      have h2 := ih (fun y hy => hstep y (by simp [hy])) s1 d' a1.2 x1
      simp only []
      cases hsims : sims d' xs with
      | error err =>
        rw [hsims] at h2
        obtain ⟨s', h2⟩ := h2
        exact ⟨s', by simp only [seqM, h1, h2]⟩
      | ok q =>
        obtain ⟨zs, d''⟩ := q
        rw [hsims] at h2
        obtain ⟨s2, h2, a2, x2⟩ := h2
        exact ⟨s2, by simp only [seqM, h1, h2], a1.trans a2, x2⟩

theorem visit_exp_evsH (f : Nat) (id : VsId) (es : List Ev) :
    ∀ s d, H s → ExpAt s id d →
      ThruOutH s id (seqM (fun s e => visit (f + 2) s (.exp id) (.ev e)) s es) (thruEvs d es) :=
  ThruOutH_seq _ thruEv thruEvs (fun _ => rfl) (fun _ _ _ => rfl) id es
    (fun e _ _ _ hs hx => visit_exp_evH f e hs hx)

/-- no typed map -/
theorem objMembers_quiet {x : XEv} (h : quietX x = true) : objMembers x = none := by
  cases x <;> first | rfl | (simp [quietX, objKeys] at h)

/-- one extended event through the `ExpectObjVisitor` -/
theorem visit_exp_xH (f : Nat) {s : St} {id : VsId} {d : Int} {x : XEv} (hq : quietX x = true) (hs : H s)
    (hx : ExpAt s id d) : ThruOutH s id (visit (f + 3) s (.exp id) x) (thruX d x) := by
  have href : ∀ y : XEv, quietX y = true → (∀ e, y ≠ .ev e) →
      visit (f + 3) s (.exp id) y = (if d == 0 then (s, .err .inlineNoObject) else deliver s y) →
      ThruOutH s id (visit (f + 3) s (.exp id) y) (if d == 0 then .error .inlineNoObject else .ok ([y], d)) := by
    intro y hy _ hv
    rw [hv]
    by_cases hd : (d == 0) = true
    · simp only [hd, if_true]
      exact ⟨s, rfl⟩
    · simp only [hd, Bool.false_eq_true, if_false]
      obtain ⟨s', h1, h2, h3⟩ := deliver_quietH s hy hs
      exact ⟨s', h1, h2, ExpAt_of_vss hx h3⟩
  have harr : ∀ y : XEv, quietX y = true → (∀ e, y ≠ .ev e) → (∀ b, y ≠ .strRef b) → (∀ b, y ≠ .keyRef b) →
      thruX d y = thruEvs d y.expand →
      ThruOutH s id (visit (f + 3) s (.exp id) y) (thruX d y) := by
    intro y hy h1 h2 h3 h4
    have : visit (f + 3) s (.exp id) y =
        seqM (fun s e => visit (f + 2) s (.exp id) (.ev e)) s y.expand := by
      rw [visit]
      · simp only [objMembers_quiet hy]
      · intro l bt h; exact h1 _ h
      · intro h; exact h1 _ h
      · intro e h; exact h1 _ h
      · intro b h; exact h2 _ h
      · intro b h; exact h3 _ h
    rw [this, h4]
    exact visit_exp_evsH f id y.expand s d hs hx
  cases x with
  | ev e => exact visit_exp_evH (f + 1) e hs hx
  | strRef b =>
    refine href (.strRef b) hq (by intro e h; cases h) ?_
    unfold ExpAt at hx
    rw [visit]
    simp only [hx, visit_user]
  | keyRef b =>
    refine href (.keyRef b) hq (by intro e h; cases h) ?_
    unfold ExpAt at hx
    rw [visit]
    simp only [hx, visit_user]
  | boolArr xs => exact harr _ hq (by intro e h; cases h) (by intro e h; cases h) (by intro e h; cases h) rfl
  | strArr xs => exact harr _ hq (by intro e h; cases h) (by intro e h; cases h) (by intro e h; cases h) rfl
  | numArr k xs => exact harr _ hq (by intro e h; cases h) (by intro e h; cases h) (by intro e h; cases h) rfl
  | f32Arr xs => exact harr _ hq (by intro e h; cases h) (by intro e h; cases h) (by intro e h; cases h) rfl
  | f64Arr xs => exact harr _ hq (by intro e h; cases h) (by intro e h; cases h) (by intro e h; cases h) rfl
  | boolObj ms => simp [quietX, objKeys] at hq
  | strObj ms => simp [quietX, objKeys] at hq
  | numObj k ms => simp [quietX, objKeys] at hq
  | f32Obj ms => simp [quietX, objKeys] at hq
  | f64Obj ms => simp [quietX, objKeys] at hq

/-- a list of quiet events through the `ExpectObjVisitor` -/
theorem emit_exp_seqH (id : VsId) {xs : List XEv} (hq : ∀ x ∈ xs, quietX x = true) :
    ∀ s d, H s → ExpAt s id d →
      ThruOutH s id (seqM (fun s x => emit s (.exp id) x) s xs) (thru d xs) :=
  ThruOutH_seq _ thruX thru (fun _ => rfl) (fun _ _ _ => rfl) id xs
    (fun x hx _ _ hs hxa => visit_exp_xH (visitFuel - 3) (hq x hx) hs hxa)

/-! ## the menagerie's folders, case by case -/

/-- what C09 needs to know about the events `xs` of one call of a custom folder -/
structure LeafW (xs : List XEv) : Prop where
  /-- the order oracle leaves them alone -/
  quiet : ∀ x ∈ xs, quietX x = true
  /-- they are the events of one conforming tree -/
  val : IsVal (expandAll xs)
  /-- in `inline` position: an object, whose (conforming) members the `ExpectObjVisitor`
  forwards — or no object, and the `ExpectObjVisitor` returns an error -/
  inl : (∃ ys n, thru 0 xs = .ok (ys, 0) ∧ IsMems (expandAll ys) n) ∨ (∃ e, thru 0 xs = .error e)

theorem leafW_null : LeafW [.ev .null] :=
  ⟨by intro x hx; simp at hx; subst hx; rfl, ⟨.null, rfl, rfl⟩, Or.inr ⟨_, rfl⟩⟩

theorem leafW_str (b : Bytes) : LeafW [.ev (.str b)] :=
  ⟨by intro x hx; simp at hx; subst hx; rfl, ⟨.str b, rfl, rfl⟩, Or.inr ⟨_, rfl⟩⟩

theorem leafW_num (k : NumKind) (i : Int) : LeafW [.ev (.num k i)] :=
  ⟨by intro x hx; simp at hx; subst hx; rfl, ⟨.num k i, rfl, rfl⟩, Or.inr ⟨_, rfl⟩⟩

set_option maxRecDepth 2000 in
theorem leafW_FV (a : Int) (s : Bytes) :
    LeafW [.ev (.objStart 3 BT.any), .ev (.key (strBytes "fa")), .ev (.num .int a),
          .keyRef (strBytes "fs"), .strRef s, .ev (.key (strBytes "fl")), .numArr .int [a, 7], .ev .objEnd] := by
  refine ⟨?_, ⟨.obj 3 BT.any [(strBytes "fa", .num .int a), (strBytes "fs", .str s),
    (strBytes "fl", .arr 2 NumKind.int.baseType [.num .int a, .num .int 7])], rfl, rfl⟩,
    Or.inl ⟨[.ev (.key (strBytes "fa")), .ev (.num .int a),
          .keyRef (strBytes "fs"), .strRef s, .ev (.key (strBytes "fl")),
          .ev (.arrStart 2 NumKind.int.baseType), .ev (.num .int a), .ev (.num .int 7), .ev .arrEnd], 3, rfl,
      ⟨[(strBytes "fa", .num .int a), (strBytes "fs", .str s),
        (strBytes "fl", .arr 2 NumKind.int.baseType [.num .int a, .num .int 7])], rfl, rfl, rfl⟩⟩⟩
  intro x hx
  simp only [List.mem_cons, List.not_mem_nil, or_false] at hx
  rcases hx with rfl | rfl | rfl | rfl | rfl | rfl | rfl | rfl <;> rfl

set_option maxRecDepth 2000 in
theorem leafW_FP (a : Int) :
    LeafW [.ev (.objStart (-1) BT.any), .ev (.key (strBytes "pa")), .ev (.num .i64 a), .ev (.key (strBytes "po")),
          .ev (.objStart 1 BT.any), .ev (.key (strBytes "x")), .ev (.bool true), .ev .objEnd, .ev .objEnd] := by
  refine ⟨?_, ⟨.obj (-1) BT.any [(strBytes "pa", .num .i64 a),
    (strBytes "po", .obj 1 BT.any [(strBytes "x", .bool true)])], rfl, rfl⟩,
    Or.inl ⟨[.ev (.key (strBytes "pa")), .ev (.num .i64 a), .ev (.key (strBytes "po")),
          .ev (.objStart 1 BT.any), .ev (.key (strBytes "x")), .ev (.bool true), .ev .objEnd], 2, rfl,
      ⟨[(strBytes "pa", .num .i64 a), (strBytes "po", .obj 1 BT.any [(strBytes "x", .bool true)])], rfl, rfl, rfl⟩⟩⟩
  intro x hx
  simp only [List.mem_cons, List.not_mem_nil, or_false] at hx
  rcases hx with rfl | rfl | rfl | rfl | rfl | rfl | rfl | rfl | rfl <;> rfl

set_option maxRecDepth 2000 in
theorem leafW_UO (d : Int) :
    LeafW [.ev (.objStart 1 BT.any), .ev (.key (strBytes "ud")), .ev (.num .int d), .ev .objEnd] := by
  refine ⟨?_, ⟨.obj 1 BT.any [(strBytes "ud", .num .int d)], rfl, rfl⟩,
    Or.inl ⟨[.ev (.key (strBytes "ud")), .ev (.num .int d)], 1, rfl,
      ⟨[(strBytes "ud", .num .int d)], rfl, rfl, rfl⟩⟩⟩
  intro x hx
  simp only [List.mem_cons, List.not_mem_nil, or_false] at hx
  rcases hx with rfl | rfl | rfl | rfl <;> rfl

/-- `FOpen` leaves its object open: its events are no conforming document -/
theorem wf1_FOpen (a : Int) :
    WF1 (expandAll [.ev (.objStart 1 BT.any), .ev (.key (strBytes "oa")), .ev (.num .int a)]) = false := rfl

theorem custom_leafW_FV {recv : GoVal} {xs : List XEv} (h : customEvents "FV" recv = some xs) : LeafW xs := by
  unfold customEvents at h
  split at h <;> first
    | (cases h; exact leafW_FV _ _)
    | (rename_i h1 _; simp at h1; done)
    | (rename_i h1; simp at h1; done)
    | cases h

/-- every custom folder of the menagerie, on every receiver it is defined on: if its events are
one conforming document (`WF1` — what `cusOK` demands; this excludes `FOpen`), they have the
three properties of `LeafW` -/
theorem custom_leafW {n : String} {recv : GoVal} {xs : List XEv} (h : customEvents n recv = some xs)
    (hw : WF1 (expandAll xs) = true) : LeafW xs := by
  unfold customEvents at h
  split at h <;> first
    | (cases h; exact leafW_FV _ _)
    | exact custom_leafW_FV h
    | (cases h; exact leafW_str _)
    | (cases h; exact leafW_num _ _)
    | (cases h; exact leafW_null)
    | (cases h; exact leafW_FP _)
    | (cases h; exact leafW_UO _)
    | (cases h; rw [wf1_FOpen] at hw; cases hw)
    | cases h

/-- rule 2 reads a value off the events: they are one conforming document -/
theorem specOf_wf1 {xs : List XEv} {r : RVal} (h : specOf xs = .ok r) : WF1 (expandAll xs) = true := by
  unfold specOf at h
  cases hw : WF1 (expandAll xs) with
  | true => rfl
  | false => simp [hw] at h

/-- `cusOK`: the events of the type's own folder on a typed value -/
theorem cusOK_leaf {reg : Bool} {T : GoType} {v : GoVal} {n : String} {b : Bool}
    (hc : customOf reg T = some (n, b)) (hw : wtC reg T v = true) :
    ∃ xs, customEvents n (recvOf b v) = some xs ∧ LeafW xs := by
  have h := wtC_cus hw
  unfold cusOK at h
  rw [hc] at h
  simp only [] at h
  obtain ⟨r, hr⟩ := isOk_iff.mp h
  obtain ⟨xs, hxs, hsp⟩ := customValue_ok hr
  exact ⟨xs, hxs, custom_leafW hxs (specOf_wf1 hsp)⟩

/-- `nilTop … false`: the folder of the pointer type on nil -/
theorem nilTop_leaf {reg : Bool} {e : GoType} {n : String} (hc : customOf reg e = some (n, true))
    (h : nilTop reg false e = true) : ∃ xs, customEvents n .nilPtr = some xs ∧ LeafW xs := by
  unfold nilTop at h
  rw [hc] at h
  simp only [Bool.false_eq_true, if_false] at h
  obtain ⟨r, hr⟩ := isOk_iff.mp h
  obtain ⟨xs, hxs, hsp⟩ := customNil_ok hr
  exact ⟨xs, hxs, custom_leafW hxs (specOf_wf1 hsp)⟩

/-! ## delivering the events of a leaf -/

/-- to a healthy user visitor: one conforming value -/
theorem leafW_user {xs : List XEv} (hl : LeafW xs) {s s' : St} (hs : H s)
    (h : deliverAll .user s (some xs) = (s', .ok)) : Out s s' IsVal := by
  obtain ⟨_, d⟩ := seqM_user_quiet hl.quiet s s' .ok hs h
  exact ⟨xs, d, hl.val⟩

/-- through a fresh `ExpectObjVisitor` on a healthy user visitor (`embeddObjReFold`): if all is
ok and the visitor is back at depth 0, conforming members -/
theorem leafW_embedd {xs : List XEv} (hl : LeafW xs) {s s' : St} (hs : H s)
    (h : deliverAll (.exp s.nextVs) (newVs s .user) (some xs) = (s', .ok)) :
    ∃ n, Out s s' (IsMems · n) := by
  have := emit_exp_seqH s.nextVs hl.quiet (newVs s .user) 0 hs (newVs_at s)
  unfold deliverAll at h
  simp only [] at h
  rw [h] at this
  rcases hl.inl with ⟨ys, n, hthru, hm⟩ | ⟨e, hthru⟩
  · rw [hthru] at this
    obtain ⟨s1, h1, d, _⟩ := this
    cases h1
    exact ⟨n, ys, ⟨by rw [d.1, newVs_evs], d.2⟩, hm⟩
  · rw [hthru] at this
    obtain ⟨s1, h1⟩ := this
    cases h1

end SF.FoldProofs.Custom.WfC
