/-
  Property C09 with the gotype fold as producer — the run side: a typed folder (`FV` / `FI` /
  `FM`, SF/Proofs/FoldWfType.lean) run on a typed value (`wt`) on a healthy user visitor, IF
  it returns ok, has delivered one conforming value / conforming members (`IsVal` / `IsMems`,
  SF/Proofs/FoldWfShape.lean).  Induction on the run fuel; no reference to the rules.
-/
import SF.Proofs.FoldWfShape
import SF.Proofs.FoldWfType
import SF.Proofs.FoldMain
import SF.Proofs.FoldWfNoOk
namespace SF.FoldProofs.Wf
open SF SF.Gotype SF.Gotype.Fold SF.FoldProofs

/-! ## the resolvers of an `omitempty` field keep a typed value -/

/-- what the resolver chain of a field of type `t` keeps -/
structure KeepOK (t : GoType) (rv : RV) : Prop where
  typed : wt rv.t rv.v = true
  good : ∃ sn, goodT sn rv.t = true
  depth : tdepth rv.t ≤ 1000
  base : isIfaceT (stripPtr t).2 = false → rv.t = (stripPtr t).2

theorem resolve_keep : ∀ (F : Nat) (sn : List String) (t : GoType) (x : GoVal) (rv : RV),
    goodT sn t = true → wt t x = true → tdepth t ≤ 1000 →
    applyResolvers F (makeResolveNonEmptyValue t) ⟨t, x⟩ = .keep rv → KeepOK t rv := by
  intro F
  induction F using Nat.strongRecOn with
  | _ F ih =>
    intro sn t x rv hp hw hdt h
    rw [mrnev_gen hp hdt] at h
    have hwalk := ptrWalk_good sn t hp x hw
    obtain ⟨sn', _, hpb⟩ := good_stripPtr t sn hp
    have hdb := tdepth_stripPtr t
    -- the value behind the pointers: the rest of the chain on it
    have tail : ∀ (f : Nat) (x' : GoVal), f ≤ F → wt (stripPtr t).2 x' = true →
        applyResolvers f (if isIfaceT (stripPtr t).2 then [Resolver.interfaceLazy]
            else if isSized (stripPtr t).2 then [Resolver.bySize] else []) ⟨(stripPtr t).2, x'⟩ = .keep rv →
        KeepOK t rv := by
      intro f x' hf hx' h
      cases f with
      | zero => simp [applyResolvers] at h
      | succ f1 =>
      by_cases hi : isIfaceT (stripPtr t).2 = true
      · have hu : (stripPtr t).2.under = .iface := by
          unfold isIfaceT at hi
          cases hU : (stripPtr t).2.under <;> simp_all
        rw [if_pos hi, applyResolvers_lazy] at h
        rcases wt_iface_inv hu hx' with rfl | ⟨dt, dv, rfl, hpd, hdd, hwd⟩
        · simp at h
        · simp only [] at h
          by_cases hem : (makeResolveNonEmptyValue dt).isEmpty = true
          · rw [if_pos hem] at h
            cases f1 with
            | zero => simp [applyResolvers] at h
            | succ f2 =>
              rw [applyResolvers_nil] at h
              cases h
              exact ⟨hx', ⟨sn', hpb⟩, (by show tdepth (stripPtr t).2 ≤ 1000; omega), fun _ => rfl⟩
          · rw [if_neg hem] at h
            cases hr : applyResolvers f1 (makeResolveNonEmptyValue dt) ⟨dt, dv⟩ with
            | keep rv' =>
              rw [hr] at h
              simp only [] at h
              have hk := ih f1 (by omega) [] dt dv rv' hpd hwd (by unfold dynBound at hdd; omega) hr
              cases f1 with
              | zero => simp [applyResolvers] at h
              | succ f2 =>
                rw [applyResolvers_nil] at h
                cases h
                exact ⟨hk.typed, hk.good, hk.depth, fun hc => by rw [hi] at hc; cases hc⟩
            | drop => rw [hr] at h; simp at h
            | panic => rw [hr] at h; simp at h
      · have hi' : isIfaceT (stripPtr t).2 = false := by simpa using hi
        rw [if_neg hi] at h
        by_cases hs : isSized (stripPtr t).2 = true
        · rw [if_pos hs, applyResolvers_bySize] at h
          cases hl : len? x' with
          | none => simp [hl] at h
          | some l =>
            simp only [hl] at h
            by_cases hl0 : l > 0
            · rw [if_pos hl0] at h
              cases f1 with
              | zero => simp [applyResolvers] at h
              | succ f2 =>
                rw [applyResolvers_nil] at h
                cases h
                exact ⟨hx', ⟨sn', hpb⟩, (by show tdepth (stripPtr t).2 ≤ 1000; omega), fun _ => rfl⟩
            · rw [if_neg hl0] at h; cases h
        · rw [if_neg hs, applyResolvers_nil] at h
          cases h
          exact ⟨hx', ⟨sn', hpb⟩, (by show tdepth (stripPtr t).2 ≤ 1000; omega), fun _ => rfl⟩
    -- assemble
    cases F with
    | zero =>
      simp [applyResolvers] at h
    | succ F1 =>
    by_cases hn : 1 ≤ (stripPtr t).1
    · rw [if_pos hn, List.singleton_append, applyResolvers_pointers, hwalk] at h
      cases hdr : deref (stripPtr t).1 x with
      | none => rw [hdr] at h; simp at h
      | some x' =>
        rw [hdr] at h
        simp only [] at h
        exact tail F1 x' (by omega) (deref_wt sn t hp x x' hw hdr).1 h
    · have hn0 : (stripPtr t).1 = 0 := by omega
      have hb := stripPtr_zero hp hn0
      rw [if_neg hn, List.nil_append] at h
      refine tail (F1 + 1) x (Nat.le_refl _) (by rw [hb]; exact hw) ?_
      rw [hb]
      rw [hb] at h
      exact h


/-! ## the events of the leaves -/

theorem primEv_good {b : Bool} {p : Prim} {v : GoVal} {x : XEv} (h : primEv b p v = some x) : GoodX x := by
  left
  cases p <;> cases v <;> simp [primEv] at h <;> subst h <;> exact ⟨_, rfl, rfl⟩

theorem elemEv_good {p : Prim} {v : GoVal} {x : XEv} (h : elemEv p v = some x) : GoodX x := by
  left
  cases p <;> cases v <;> simp [elemEv] at h <;> subst h <;> exact ⟨_, rfl, rfl⟩

theorem arrEv_good {b : Bool} {p : Prim} {xs : List GoVal} {x : XEv} (h : arrEv b p xs = some x) : GoodX x := by
  right
  cases p <;> simp only [arrEv, Option.map_eq_some_iff] at h <;> obtain ⟨_, _, rfl⟩ := h <;> rfl

theorem objEv_good {p : Prim} {ms : List (GoVal × GoVal)} {x : XEv} (h : objEv p ms = some x) : GoodX x := by
  right
  cases p <;> simp only [objEv, Option.map_eq_some_iff] at h <;> obtain ⟨_, _, rfl⟩ := h <;> rfl

theorem allSome_length {α : Type} : ∀ {l : List (Option α)} {r : List α}, allSome l = some r → r.length = l.length
  | [], r, h => by simp [allSome] at h; subst h; rfl
  | none :: l, r, h => by simp [allSome] at h
  | some a :: l, r, h => by
    simp only [allSome, Option.map_eq_some_iff] at h
    obtain ⟨r', hr', rfl⟩ := h
    simp [allSome_length hr']

theorem stringKeyed_inv {α : Type} : ∀ {ms : List (GoVal × α)} {es : List (Bytes × α)},
    stringKeyed ms = some es → es.length = ms.length ∧ ∀ m ∈ es, ∃ kx ∈ ms, kx.2 = m.2
  | [], es, h => by
    simp [stringKeyed, allSome] at h; subst h; exact ⟨rfl, fun m hm => by cases hm⟩
  | (k, v) :: ms, es, h => by
    unfold stringKeyed at h
    simp only [List.map_cons] at h
    cases hk : asStr k with
    | none => simp [hk, allSome] at h
    | some kb =>
      simp only [hk, Option.map_some, allSome, Option.map_eq_some_iff] at h
      obtain ⟨es', hes', rfl⟩ := h
      obtain ⟨h1, h2⟩ := stringKeyed_inv (ms := ms) (es := es') hes'
      refine ⟨by simp [h1], ?_⟩
      intro m hm
      rcases List.mem_cons.mp hm with rfl | hm'
      · exact ⟨(k, v), by simp, rfl⟩
      · obtain ⟨kx, hkx, e⟩ := h2 m hm'
        exact ⟨kx, by simp [hkx], e⟩

theorem FMs_mem {fs : List Field} {fields : List ReFold} (h : FMs fs fields) {f : ReFold} (hf : f ∈ fields) :
    FM fs f := by
  induction fields with
  | nil => cases hf
  | cons g l ih =>
    simp only [FMs] at h
    rcases List.mem_cons.mp hf with rfl | hf'
    · exact h.1
    · exact ih h.2 hf'

theorem field_typed {T : GoType} {fs : List Field} {v : GoVal} (hu : T.under = .struct fs) (hw : wt T v = true)
    {idx : Nat} {fld : Field} (hf : fs[idx]? = some fld) {fv : RV} (h : RV.field ⟨T, v⟩ idx = some fv) :
    ∃ x, fv = ⟨fld.typ, x⟩ ∧ wt fld.typ x = true := by
  obtain ⟨vs, rfl, hwf⟩ := wt_struct_inv hu hw
  simp only [RV.field, hu, hf] at h
  cases hx : vs[idx]? with
  | none => simp [hx] at h
  | some x =>
    simp only [hx, Option.some.injEq] at h
    exact ⟨x, h.symm, wtF_get hwf hf hx⟩


/-! ## the induction on the run fuel -/

/-- the claims at one fuel -/
structure RunWf (o : FoldOpts) (rf : Nat) : Prop where
  val : ∀ T f v s s', FV T f → wt T v = true → H s →
    run rf o .user f ⟨T, v⟩ s = (s', .ok) → Out s s' IsVal
  inl : ∀ T f v s s', FI T f → wt T v = true → H s →
    run rf o .user f ⟨T, v⟩ s = (s', .ok) →
    ∃ n, Out s s' (IsMems · n) ∧ (isIterF f = true → ∀ ms, mapEntries? v = some ms → n = ms.length)
  mem : ∀ T fs f v s s', T.under = .struct fs → FM fs f → wt T v = true → H s →
    run rf o .user f ⟨T, v⟩ s = (s', .ok) →
    ∃ n, Out s s' (IsMems · n) ∧ (isFieldF f = true → n = 1)
  ifc : ∀ (rv : RV) s s', wt rv.t rv.v = true → (∃ sn, goodT sn rv.t = true) → tdepth rv.t ≤ 1000 → H s →
    run rf o .user .ifaceElem rv s = (s', .ok) → Out s s' IsVal
  fiv : ∀ i s s', wt .iface i = true → H s →
    foldInterfaceValue rf o .user i s = (s', .ok) → Out s s' IsVal
  any : ∀ sn T v s s', goodT sn T = true → tdepth T ≤ 1000 → wt T v = true → H s →
    foldAnyReflect rf o .user ⟨T, v⟩ s = (s', .ok) → Out s s' IsVal
  fast : ∀ sn T fa v s s', goodT sn T = true → getFoldGoTypes T.under = some fa → wt T v = true → H s →
    runFast rf o .user fa v s = (s', .ok) → Out s s' IsVal

theorem null_good : GoodX (.ev .null) := Or.inl ⟨_, rfl, rfl⟩

theorem any_step {o : FoldOpts} {rf : Nat} (ih : RunWf o rf) {sn : List String} {T : GoType} {v : GoVal}
    {s s' : St} (hg : goodT sn T = true) (hd : tdepth T ≤ 1000) (hw : wt T v = true) (hs : H s)
    (h : foldAnyReflect (rf + 1) o .user ⟨T, v⟩ s = (s', .ok)) : Out s s' IsVal := by
  rw [foldAnyReflect_eq] at h
  cases hc : getReflectFold compileFuel o {} T with
  | error r =>
    simp only [hc, Prod.mk.injEq] at h
    obtain ⟨_, rfl⟩ := h
    exact absurd hc ((compNE o compileFuel).rf {} T)
  | ok f =>
    simp only [hc] at h
    exact ih.val T f v s s' (compile_FV o hg hd (OpIn_empty sn) hc) hw hs h

theorem ifc_step {o : FoldOpts} {rf : Nat} (ih : RunWf o rf) {rv : RV} {s s' : St}
    (hw : wt rv.t rv.v = true) (hg : ∃ sn, goodT sn rv.t = true) (hd : tdepth rv.t ≤ 1000) (hs : H s)
    (h : run (rf + 1) o .user .ifaceElem rv s = (s', .ok)) : Out s s' IsVal := by
  rw [run_ifaceElem] at h
  obtain ⟨sn, hg⟩ := hg
  obtain ⟨T, v⟩ := rv
  simp only [] at hw hg hd h
  by_cases hu : T.under = .iface
  · rw [hu] at h
    simp only [] at h
    rcases wt_iface_inv hu hw with rfl | ⟨dt, dv, rfl, hpd, hdd, hwd⟩
    · exact emit_good hs null_good h
    · exact ih.any [] dt dv s s' hpd (by unfold dynBound at hdd; omega) hwd hs h
  · have h' : foldAnyReflect rf o .user ⟨T, v⟩ s = (s', .ok) := by
      cases hU : T.under <;> first | (exact absurd hU hu) | (simpa [hU] using h)
    exact ih.any sn T v s s' hg hd hw hs h'


theorem fiv_step {o : FoldOpts} {rf : Nat} (ih : RunWf o rf) {i : GoVal} {s s' : St}
    (hw : wt .iface i = true) (hs : H s)
    (h : foldInterfaceValue (rf + 1) o .user i s = (s', .ok)) : Out s s' IsVal := by
  rcases wt_iface_inv (T := .iface) rfl hw with rfl | ⟨dt, dv, rfl, hpd, hdd, hwd⟩
  · rw [fiv_nil] at h
    exact emit_good hs null_good h
  · rw [fiv_good rf o .user dv s hpd] at h
    cases hf : fastSel dt with
    | some fa =>
      simp only [hf] at h
      exact ih.fast [] dt fa dv s s' hpd (fastSel_inv hpd hf) hwd hs h
    | none =>
      simp only [hf] at h
      exact ih.any [] dt dv s s' hpd (by unfold dynBound at hdd; omega) hwd hs h

theorem getFoldGoTypes_arrIface {U : GoType} (h : getFoldGoTypes U = some .arrIface) : U = .slice .iface := by
  unfold getFoldGoTypes at h
  split at h <;> first
    | rfl
    | (simp at h; done)
    | (simp only [Option.map_eq_some_iff] at h; obtain ⟨_, _, h⟩ := h; cases h)

theorem getFoldGoTypes_mapIface {U : GoType} (h : getFoldGoTypes U = some .mapIface) :
    U = .map .string .iface := by
  unfold getFoldGoTypes at h
  split at h <;> first
    | rfl
    | (simp at h; done)
    | (simp only [Option.map_eq_some_iff] at h; obtain ⟨_, _, h⟩ := h; cases h)

theorem fast_step {o : FoldOpts} {rf : Nat} (ih : RunWf o rf) {sn : List String} {T : GoType} {fa : Fast}
    {v : GoVal} {s s' : St} (_hg : goodT sn T = true) (hf : getFoldGoTypes T.under = some fa)
    (hw : wt T v = true) (hs : H s)
    (h : runFast (rf + 1) o .user fa v s = (s', .ok)) : Out s s' IsVal := by
  cases fa with
  | prim p =>
    rw [runFast_prim] at h
    cases hx : primEv false p v with
    | none => simp [hx] at h
    | some x => simp only [hx] at h; exact emit_good hs (primEv_good hx) h
  | arr p =>
    rw [runFast_arr] at h
    cases hx : (sliceElems? v).bind (arrEv true p) with
    | none => simp [hx] at h
    | some x =>
      simp only [hx] at h
      obtain ⟨xs, _, hxs⟩ := Option.bind_eq_some_iff.mp hx
      exact emit_good hs (arrEv_good hxs) h
  | map p =>
    rw [runFast_map] at h
    cases hx : (mapEntries? v).bind (objEv p) with
    | none => simp [hx] at h
    | some x =>
      simp only [hx] at h
      obtain ⟨ms, _, hms⟩ := Option.bind_eq_some_iff.mp hx
      exact emit_good hs (objEv_good hms) h
  | arrIface =>
    have hu := getFoldGoTypes_arrIface hf
    rw [runFast_arrIface] at h
    have hxs : ∃ xs, sliceElems? v = some xs ∧ wtL .iface xs = true := by
      rcases wt_slice_inv hu hw with rfl | ⟨xs, rfl, hx⟩
      · exact ⟨[], rfl, rfl⟩
      · exact ⟨xs, rfl, hx⟩
    obtain ⟨xs, hxs, hwl⟩ := hxs
    simp only [hxs] at h
    refine wrap_arr hs xs.length (fun s => seqM (fun s x => foldInterfaceValue rf o .user x s) s xs) ?_ h
    exact seq_elems _ xs (fun x hx s s' hs h => ih.fiv x s s' (wtL_mem hwl hx) hs h)
  | mapIface =>
    have hu := getFoldGoTypes_mapIface hf
    rw [runFast_mapIface] at h
    cases hes : (mapEntries? v).bind stringKeyed with
    | none => simp [hes] at h
    | some es =>
      simp only [hes] at h
      have hwe : ∀ m ∈ es, wt .iface m.2 = true := by
        obtain ⟨ms, hms, hsk⟩ := Option.bind_eq_some_iff.mp hes
        rcases wt_map_inv hu hw with rfl | ⟨ms', rfl, hwp, _⟩
        · simp only [mapEntries?, Option.some.injEq] at hms
          subst hms
          simp [stringKeyed, allSome] at hsk
          subst hsk
          intro m hm; cases hm
        · simp only [mapEntries?, Option.some.injEq] at hms
          subst hms
          intro m hm
          obtain ⟨kx, hkx, e⟩ := (stringKeyed_inv hsk).2 m hm
          rw [← e]
          exact wtP_mem hwp hkx
      refine wrap_obj hs es.length (fun s => rangeM (fun s m =>
          match emit s .user (.ev (.key m.1)) with
          | (s, .ok) => foldInterfaceValue rf o .user m.2 s
          | r => r) es.length s es) ?_ h
      intro s s' hs h
      refine ⟨es.length, ?_, Or.inr rfl⟩
      refine range_mems _ es.length es ?_ (Nat.le_refl _) s s' hs h
      intro m hm s s' hs h
      exact key_then hs m.1 (fun s => foldInterfaceValue rf o .user m.2 s)
        (fun s s' hs h => ih.fiv m.2 s s' (hwe m hm) hs h) h


theorem val_step {o : FoldOpts} {rf : Nat} (ih : RunWf o rf) {T : GoType} {f : ReFold} {v : GoVal}
    {s s' : St} (hf : FV T f) (hw : wt T v = true) (hs : H s)
    (h : run (rf + 1) o .user f ⟨T, v⟩ s = (s', .ok)) : Out s s' IsVal := by
  cases f with
  | prim p =>
    rw [run_prim] at h
    cases hx : primEv true p v with
    | none => simp [hx] at h
    | some x => simp only [hx] at h; exact emit_good hs (primEv_good hx) h
  | arrPrim p =>
    rw [run_arrPrim] at h
    cases hx : (sliceElems? v).bind (arrEv false p) with
    | none => simp [hx] at h
    | some x =>
      simp only [hx] at h
      obtain ⟨xs, _, hxs⟩ := Option.bind_eq_some_iff.mp hx
      exact emit_good hs (arrEv_good hxs) h
  | mapPrim p =>
    rw [run_mapPrim] at h
    cases hx : (mapEntries? v).bind (objEv p) with
    | none => simp [hx] at h
    | some x =>
      simp only [hx] at h
      obtain ⟨ms, _, hms⟩ := Option.bind_eq_some_iff.mp hx
      exact emit_good hs (objEv_good hms) h
  | pointer n e =>
    simp only [FV] at hf
    obtain ⟨⟨sn, hg⟩, rfl, hfe⟩ := hf
    rw [run_pointer, ptrWalk_good sn T hg v hw] at h
    cases hdr : deref (stripPtr T).1 v with
    | none => simp only [hdr] at h; exact emit_good hs null_good h
    | some x =>
      simp only [hdr] at h
      exact ih.val _ e x s s' hfe (deref_wt sn T hg v x hw hdr).1 hs h
  | structFold fields count =>
    simp only [FV] at hf
    obtain ⟨fs, hu, hfm, hcount⟩ := hf
    rw [run_structFold] at h
    refine wrap_obj hs count (fun s => seqM (fun s fv => run rf o .user fv ⟨T, v⟩ s) s fields) ?_ h
    intro s s' hs h
    obtain ⟨n, hout, hn⟩ := seq_mems _ (fun g => isFieldF g = true) fields
      (fun g hg s s' hs h => ih.mem T fs g v s s' hu (FMs_mem hfm hg) hw hs h) s s' hs h
    refine ⟨n, hout, ?_⟩
    rcases hcount with hc | ⟨hc, hall⟩
    · exact Or.inl hc
    · right; rw [hc, hn hall]
  | mapFold it =>
    simp only [FV] at hf
    obtain ⟨_, hfi, hit⟩ := hf
    rw [run_mapFold] at h
    cases hms : mapEntries? v with
    | none => simp [hms] at h
    | some ms =>
      simp only [hms] at h
      refine wrap_obj hs ms.length (fun s => run rf o .user it ⟨T, v⟩ s) ?_ h
      intro s s' hs h
      obtain ⟨n, hout, hn⟩ := ih.inl T it v s s' hfi hw hs h
      exact ⟨n, hout, Or.inr (by rw [hn hit ms hms])⟩
  | slice el =>
    simp only [FV] at hf
    obtain ⟨hu, hfe⟩ := hf
    have hxs : (v = .nilSlice ∧ True) ∨ ∃ xs, (v = .slice xs ∨ v = .array xs) ∧ ∀ x ∈ xs, wt T.elem x = true := by
      rcases hu with ⟨e, hu⟩ | ⟨n, e, hu⟩
      · rcases wt_slice_inv hu hw with rfl | ⟨xs, rfl, hx⟩
        · exact Or.inl ⟨rfl, trivial⟩
        · exact Or.inr ⟨xs, Or.inl rfl, fun x hx' => by rw [elem_of_under.1 e hu]; exact wtL_mem hx hx'⟩
      · obtain ⟨xs, rfl, hx⟩ := wt_array_inv hu hw
        exact Or.inr ⟨xs, Or.inr rfl, fun x hx' => by rw [elem_of_under.2.1 n e hu]; exact wtL_mem hx hx'⟩
    rcases hxs with ⟨rfl, _⟩ | ⟨xs, hv, hwx⟩
    · rw [run_slice_nil] at h
      refine wrap_arr hs 0 (fun s => (s, .ok)) ?_ h
      intro s s' hs h
      simp only [Prod.mk.injEq, and_true] at h
      subst h
      exact ⟨[], Dl.refl hs, by simpa [expandAll] using IsElems.nil⟩
    · have h' : (match emit s .user (.ev (.arrStart xs.length BT.any)) with
          | (s, .ok) =>
            match seqM (fun s x => run rf o .user el ⟨T.elem, x⟩ s) s xs with
            | (s, .ok) => emit s .user (.ev .arrEnd)
            | r => r
          | r => r) = (s', .ok) := by
        rcases hv with rfl | rfl
        · rw [run_slice_slice] at h; exact h
        · rw [run_slice_array] at h; exact h
      refine wrap_arr hs xs.length (fun s => seqM (fun s x => run rf o .user el ⟨T.elem, x⟩ s) s xs) ?_ h'
      exact seq_elems _ xs (fun x hx s s' hs h => ih.val T.elem el x s s' hfe (hwx x hx) hs h)
  | ifaceElem =>
    simp only [FV] at hf
    -- the static type is an interface type; its dynamic value is folded by type
    rw [run_ifaceElem] at h
    simp only [hf] at h
    rcases wt_iface_inv hf hw with rfl | ⟨dt, dv, rfl, hpd, hdd, hwd⟩
    · exact emit_good hs null_good h
    · exact ih.any [] dt dv s s' hpd (by unfold dynBound at hdd; omega) hwd hs h
  | _ => simp [FV] at hf


/-- the values of a typed map -/
theorem map_values_typed {T k e : GoType} {ms : List (GoVal × GoVal)} (hu : T.under = .map k e)
    (hw : wt T (.map ms) = true) {es : List (Bytes × GoVal)} (hsk : stringKeyed ms = some es) :
    es.length = ms.length ∧ ∀ m ∈ es, wt T.elem m.2 = true := by
  rcases wt_map_inv hu hw with hc | ⟨ms', hms', hwp, _⟩
  · cases hc
  · cases hms'
    refine ⟨(stringKeyed_inv hsk).1, ?_⟩
    intro m hm
    obtain ⟨kx, hkx, e1⟩ := (stringKeyed_inv hsk).2 m hm
    rw [← e1, elem_of_under.2.2.1 k e hu]
    exact wtP_mem hwp hkx

theorem inl_step {o : FoldOpts} {rf : Nat} (ih : RunWf o rf) {T : GoType} {f : ReFold} {v : GoVal}
    {s s' : St} (hf : FI T f) (hw : wt T v = true) (hs : H s)
    (h : run (rf + 1) o .user f ⟨T, v⟩ s = (s', .ok)) :
    ∃ n, Out s s' (IsMems · n) ∧ (isIterF f = true → ∀ ms, mapEntries? v = some ms → n = ms.length) := by
  have nothing : ∀ {s s' : St}, H s → (s, Res.ok) = (s', Res.ok) → Out s s' (IsMems · 0) := by
    intro s s' hs h
    simp only [Prod.mk.injEq, and_true] at h
    subst h
    exact ⟨[], Dl.refl hs, by simpa [expandAll] using IsMems.nil⟩
  cases f with
  | inlinePointer n e =>
    simp only [FI] at hf
    obtain ⟨⟨sn, hg⟩, rfl, hfe⟩ := hf
    rw [run_inlinePointer, ptrWalk_good sn T hg v hw] at h
    cases hdr : deref (stripPtr T).1 v with
    | none =>
      simp only [hdr] at h
      exact ⟨0, nothing hs h, fun hc => by simp [isIterF] at hc⟩
    | some x =>
      simp only [hdr] at h
      obtain ⟨n, hout, _⟩ := ih.inl _ e x s s' hfe (deref_wt sn T hg v x hw hdr).1 hs h
      exact ⟨n, hout, fun hc => by simp [isIterF] at hc⟩
  | fieldsFold fields =>
    simp only [FI] at hf
    obtain ⟨fs, hu, hfm⟩ := hf
    rw [run_fieldsFold] at h
    obtain ⟨n, hout, _⟩ := seq_mems _ (fun g => isFieldF g = true) fields
      (fun g hg s s' hs h => ih.mem T fs g v s s' hu (FMs_mem hfm hg) hw hs h) s s' hs h
    exact ⟨n, hout, fun hc => by simp [isIterF] at hc⟩
  | mapKeys el =>
    simp only [FI] at hf
    obtain ⟨⟨k, e, hu⟩, hfe⟩ := hf
    rw [run_mapKeys] at h
    rcases wt_map_inv hu hw with rfl | ⟨ms, rfl, _, _⟩
    · simp only [] at h
      refine ⟨0, nothing hs h, fun _ ms hms => ?_⟩
      simp only [mapEntries?, Option.some.injEq] at hms
      subst hms; rfl
    · simp only [] at h
      cases hsk : stringKeyed ms with
      | none => simp [hsk] at h
      | some es =>
        simp only [hsk] at h
        obtain ⟨hlen, hwe⟩ := map_values_typed hu hw hsk
        refine ⟨es.length, ?_, fun _ ms' hms' => ?_⟩
        · refine range_mems _ es.length es ?_ (Nat.le_refl _) s s' hs h
          intro m hm s s' hs h
          exact key_then hs m.1 (fun s => run rf o .user el ⟨T.elem, m.2⟩ s)
            (fun s s' hs h => ih.val T.elem el m.2 s s' hfe (hwe m hm) hs h) h
        · simp only [mapEntries?, Option.some.injEq] at hms'
          subst hms'; exact hlen
  | mapInline p =>
    have hu : ∃ k e, T.under = .map k e ∧ (p = none → e = .iface) := by
      cases p with
      | none => simp only [FI] at hf; obtain ⟨k, hu⟩ := hf; exact ⟨k, .iface, hu, fun _ => rfl⟩
      | some p => simp only [FI] at hf; obtain ⟨k, e, hu⟩ := hf; exact ⟨k, e, hu, fun hc => by cases hc⟩
    obtain ⟨k, e, hu, hp⟩ := hu
    rw [run_mapInline] at h
    rcases wt_map_inv hu hw with rfl | ⟨ms, rfl, _, _⟩
    · simp only [] at h
      refine ⟨0, nothing hs h, fun _ ms hms => ?_⟩
      simp only [mapEntries?, Option.some.injEq] at hms
      subst hms; rfl
    · simp only [] at h
      cases hsk : stringKeyed ms with
      | none => simp [hsk] at h
      | some es =>
        simp only [hsk] at h
        obtain ⟨hlen, hwe⟩ := map_values_typed hu hw hsk
        refine ⟨es.length, ?_, fun _ ms' hms' => ?_⟩
        · refine range_mems _ es.length es ?_ (Nat.le_refl _) s s' hs h
          intro m hm s s' hs h
          cases p with
          | none =>
            have he := hp rfl
            subst he
            have hwm := hwe m hm
            rw [elem_of_under.2.2.1 k _ hu] at hwm
            exact key_then hs m.1 (fun s => foldInterfaceValue rf o .user m.2 s)
              (fun s s' hs h => ih.fiv m.2 s s' hwm hs h) h
          | some p =>
            refine key_then hs m.1 (fun s =>
              match elemEv p m.2 with
              | some x => emit s .user x
              | none => (s, .panic)) ?_ h
            intro s s' hs h
            cases hx : elemEv p m.2 with
            | none => simp [hx] at h
            | some x => simp only [hx] at h; exact emit_good hs (elemEv_good hx) h
        · simp only [mapEntries?, Option.some.injEq] at hms'
          subst hms'; exact hlen
  | _ => simp [FI] at hf

theorem mem_step {o : FoldOpts} {rf : Nat} (ih : RunWf o rf) {T : GoType} {fs : List Field} {f : ReFold}
    {v : GoVal} {s s' : St} (hu : T.under = .struct fs) (hf : FM fs f) (hw : wt T v = true) (hs : H s)
    (h : run (rf + 1) o .user f ⟨T, v⟩ s = (s', .ok)) :
    ∃ n, Out s s' (IsMems · n) ∧ (isFieldF f = true → n = 1) := by
  cases f with
  | field name idx fn =>
    simp only [FM] at hf
    obtain ⟨fld, hfld, hfv⟩ := hf
    rw [run_field] at h
    refine ⟨1, ?_, fun _ => rfl⟩
    refine key_then hs name (fun s =>
      match RV.field ⟨T, v⟩ idx with
      | some fv => run rf o .user fn fv s
      | none => (s, .panic)) ?_ h
    intro s s' hs h
    cases hfv' : RV.field ⟨T, v⟩ idx with
    | none => simp [hfv'] at h
    | some fv =>
      simp only [hfv'] at h
      obtain ⟨x, rfl, hwx⟩ := field_typed hu hw hfld hfv'
      exact ih.val fld.typ fn x s s' hfv hwx hs h
  | fieldInline idx fn =>
    simp only [FM] at hf
    obtain ⟨fld, hfld, hfi⟩ := hf
    rw [run_fieldInline] at h
    cases hfv' : RV.field ⟨T, v⟩ idx with
    | none => simp [hfv'] at h
    | some fv =>
      simp only [hfv'] at h
      obtain ⟨x, rfl, hwx⟩ := field_typed hu hw hfld hfv'
      obtain ⟨n, hout, _⟩ := ih.inl fld.typ fn x s s' hfi hwx hs h
      exact ⟨n, hout, fun hc => by simp [isFieldF] at hc⟩
  | nonEmptyField name idx rs fn =>
    simp only [FM] at hf
    obtain ⟨fld, hfld, ⟨sn, hg⟩, hdt, rfl, hfv, hifc⟩ := hf
    rw [run_nonEmptyField] at h
    cases hfv' : RV.field ⟨T, v⟩ idx with
    | none => simp [hfv'] at h
    | some fv =>
      simp only [hfv'] at h
      obtain ⟨x, rfl, hwx⟩ := field_typed hu hw hfld hfv'
      cases hr : applyResolvers 1000 (makeResolveNonEmptyValue fld.typ) ⟨fld.typ, x⟩ with
      | panic => simp [hr] at h
      | drop =>
        simp only [hr, Prod.mk.injEq, and_true] at h
        subst h
        exact ⟨0, ⟨[], Dl.refl hs, by simpa [expandAll] using IsMems.nil⟩, fun hc => by simp [isFieldF] at hc⟩
      | keep field =>
        simp only [hr] at h
        have hk := resolve_keep 1000 sn fld.typ x field hg hwx hdt hr
        refine ⟨1, ?_, fun hc => by simp [isFieldF] at hc⟩
        refine key_then hs name (fun s => run rf o .user fn field s) ?_ h
        intro s s' hs h
        by_cases hi : isIfaceT (stripPtr fld.typ).2 = true
        · have := hifc hi
          subst this
          exact ih.ifc field s s' hk.typed hk.good hk.depth hs h
        · have hb := hk.base (by simpa using hi)
          obtain ⟨ft, fx⟩ := field
          simp only [] at hb
          subst hb
          exact ih.val _ fn fx s s' hfv hk.typed hs h
  | _ => simp [FM] at hf

/-- the claims hold at every fuel -/
theorem runWf (o : FoldOpts) : ∀ rf, RunWf o rf := by
  intro rf
  induction rf with
  | zero =>
    constructor
    · intro T f v s s' _ _ _ h; simp [run] at h
    · intro T f v s s' _ _ _ h; simp [run] at h
    · intro T fs f v s s' _ _ _ _ h; simp [run] at h
    · intro rv s s' _ _ _ _ h; simp [run] at h
    · intro i s s' _ _ h; simp [foldInterfaceValue] at h
    · intro sn T v s s' _ _ _ _ h; simp [foldAnyReflect] at h
    · intro sn T fa v s s' _ _ _ _ h; simp [runFast] at h
  | succ rf ih =>
    exact ⟨fun T f v s s' hf hw hs h => val_step ih hf hw hs h,
           fun T f v s s' hf hw hs h => inl_step ih hf hw hs h,
           fun T fs f v s s' hu hf hw hs h => mem_step ih hu hf hw hs h,
           fun rv s s' hw hg hd hs h => ifc_step ih hw hg hd hs h,
           fun i s s' hw hs h => fiv_step ih hw hs h,
           fun sn T v s s' hg hd hw hs h => any_step ih hg hd hw hs h,
           fun sn T fa v s s' hg hf hw hs h => fast_step ih hg hf hw hs h⟩

end SF.FoldProofs.Wf
