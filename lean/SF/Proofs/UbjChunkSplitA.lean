/-
  C02 for the UBJSON parser mirror, part 2: the SPLIT LAW of the step functions `stepLen`,
  `stepValue`, `stepFixedValue`, `stepString`.  A step on input `a ++ b` either is the step
  on `a` with `b` left over in addition (`Ext`), or — when `a` ends inside a token — the step
  on `a` parks `a` (in the buffer / the pending length marker) and the step on `b` from the
  parked configuration is the step on `a ++ b`.
  Property theorems: SF/Proofs/UbjChunkTop.lean.
-/
import SF.Proofs.UbjChunkCollect
namespace SF.Ubjson.Chunk
open SF SF.Ubjson SF.Ubjson.Parse
open StateType StateStep

set_option hygiene false in
/-- split an `if` and use the condition (`hsp`) to resolve its other occurrences -/
macro "csplit" : tactic =>
  `(tactic| (split <;> rename_i hsp <;>
      (try simp only [hsp, if_true, if_false, Bool.false_eq_true, ↓reduceIte])))

/-- SPLIT LAW of a step function `f` in state `p` on input `a` (`f` is what `execStep`
dispatches to in every state of `p`'s type) -/
def SplitF (f : P → Bytes → R) (p : P) (a : Bytes) : Prop :=
  (∀ b, Ext (f p a) (f p (a ++ b)) b) ∨
  (∃ q, f p a = { p := q, rest := [] } ∧ q.state.current.type = p.state.current.type ∧
    pending q = false ∧ ∀ b, b ≠ [] → f q b = f p (a ++ b))

/-- the common shape of the token-collecting steps -/
theorem coll_split_of {f : P → Bytes → R} {n : Nat} {ks : P → Bytes → Bytes → R} (p : P) (a : Bytes)
    (hf : ∀ buf c, f { p with buffer := buf } c =
      match collectP { p with buffer := buf } c n with
      | (q, rest, none) => { p := q, rest := rest }
      | (q, rest, some t) => ks q rest t)
    (hks : ∀ q rest t b, Ext (ks q rest t) (ks q (rest ++ b) t) b) :
    (∀ b, Ext (f p a) (f p (a ++ b)) b) ∨
    (∃ buf, f p a = { p := { p with buffer := buf }, rest := [] } ∧ n ≠ 0 ∧
      ∀ b, f { p with buffer := buf } b = f p (a ++ b)) := by
  have e0 : ∀ c, f p c =
      match collectP p c n with
      | (q, rest, none) => { p := q, rest := rest }
      | (q, rest, some t) => ks q rest t := fun c => hf p.buffer c
  rcases collectP_split p a n with ⟨buf, rest, t, e1, e2⟩ | ⟨buf, e1, e2⟩
  · left
    intro b
    rw [e0 a, e0 (a ++ b), e1, e2 b]
    exact hks _ _ _ _
  · right
    refine ⟨buf, ?_, ?_, fun b => ?_⟩
    · rw [e0 a, e1]
    · intro hn
      subst hn
      have := collectP_zero_some p a
      rw [e1] at this
      exact this rfl
    · rw [hf buf b, e0 (a ++ b), e2 b]

/-! ### stepLen -/

theorem lenFin_ext (cont : St) (p : P) (bs b : Bytes) (L : Int) :
    Ext (lenFin cont p bs L) (lenFin cont p (bs ++ b) L) b := by
  unfold lenFin
  csplit <;> eleaf

theorem coll_drop {f : P → Bytes → R} {n : Nat} {p : P} {a : Bytes}
    (h : (∀ b, Ext (f p a) (f p (a ++ b)) b) ∨
      (∃ buf, f p a = { p := { p with buffer := buf }, rest := [] } ∧ n ≠ 0 ∧
        ∀ b, f { p with buffer := buf } b = f p (a ++ b))) :
    (∀ b, Ext (f p a) (f p (a ++ b)) b) ∨
    (∃ buf, f p a = { p := { p with buffer := buf }, rest := [] } ∧
      ∀ b, f { p with buffer := buf } b = f p (a ++ b)) := by
  rcases h with h | ⟨buf, h1, _, h2⟩
  · exact Or.inl h
  · exact Or.inr ⟨buf, h1, h2⟩

theorem lenValue_split (cont : St) (p : P) (a : Bytes) (ha : a ≠ []) :
    (∀ b, Ext (lenValue cont p a) (lenValue cont p (a ++ b)) b) ∨
    (∃ buf, lenValue cont p a = { p := { p with buffer := buf }, rest := [] } ∧
      ∀ b, lenValue cont { p with buffer := buf } b = lenValue cont p (a ++ b)) := by
  by_cases h1 : (p.marker == int8Marker) = true
  · left
    intro b
    cases a with
    | nil => exact absurd rfl ha
    | cons x xs =>
      simp only [lenValue, h1, if_true, List.cons_append]
      exact lenFin_ext _ _ _ _ _
  by_cases h2 : (p.marker == uint8Marker) = true
  · left
    intro b
    cases a with
    | nil => exact absurd rfl ha
    | cons x xs =>
      simp only [lenValue, h1, h2, if_true, if_false, Bool.false_eq_true, List.cons_append]
      exact lenFin_ext _ _ _ _ _
  by_cases h3 : (p.marker == int16Marker) = true
  · refine coll_drop <| coll_split_of (n := 2) (ks := fun q rest t => lenFin cont q rest (readInt16 t)) p a ?_
      (fun q rest t b => lenFin_ext _ _ _ _ _)
    intro buf c
    simp only [lenValue, h1, h2, h3, if_true, if_false, Bool.false_eq_true]
    rfl
  by_cases h4 : (p.marker == int32Marker) = true
  · refine coll_drop <| coll_split_of (n := 4) (ks := fun q rest t => lenFin cont q rest (readInt32 t)) p a ?_
      (fun q rest t b => lenFin_ext _ _ _ _ _)
    intro buf c
    simp only [lenValue, h1, h2, h3, h4, if_true, if_false, Bool.false_eq_true]
    rfl
  by_cases h5 : (p.marker == int64Marker) = true
  · refine coll_drop <| coll_split_of (n := 8) (ks := fun q rest t => lenFin cont q rest (readInt64 t)) p a ?_
      (fun q rest t b => lenFin_ext _ _ _ _ _)
    intro buf c
    simp only [lenValue, h1, h2, h3, h4, h5, if_true, if_false, Bool.false_eq_true]
    rfl
  · left
    intro b
    simp only [lenValue, h1, h2, h3, h4, h5, if_false, Bool.false_eq_true]
    eleaf

/-- the five length markers -/
def isLenMarker (x : UInt8) : Bool :=
  x == int8Marker || x == uint8Marker || x == int16Marker || x == int32Marker || x == int64Marker

theorem isLenMarker_ne {x : UInt8} (h : isLenMarker x = true) : x ≠ noMarker := by
  intro hc; subst hc; revert h; decide

theorem stepLen_split (p : P) (a : Bytes) (cont : St) (ha : a ≠ []) :
    (∀ b, Ext (stepLen p a cont) (stepLen p (a ++ b) cont) b) ∨
    (∃ m buf, m ≠ noMarker ∧
      stepLen p a cont = { p := { p with marker := m, buffer := buf }, rest := [] } ∧
      ∀ b, b ≠ [] → stepLen { p with marker := m, buffer := buf } b cont = stepLen p (a ++ b) cont) := by
  by_cases hm : (p.marker == noMarker) = true
  · cases a with
    | nil => exact absurd rfl ha
    | cons x xs =>
      by_cases hx : isLenMarker x = true
      · have hx' : (x == int8Marker || x == uint8Marker || x == int16Marker || x == int32Marker
            || x == int64Marker) = true := hx
        have hxm : (x == noMarker) = false := by
          have := isLenMarker_ne hx; simpa using this
        by_cases hxs : xs = []
        · subst hxs
          right
          refine ⟨x, p.buffer, isLenMarker_ne hx, ?_, fun b hb => ?_⟩
          · rw [stepLen_eq]
            simp only [hm, if_true, hx', List.isEmpty_nil]
          · have hbe : b.isEmpty = false := by cases b <;> simp_all
            rw [stepLen_eq, stepLen_eq]
            simp only [hm, hxm, if_true, if_false, Bool.false_eq_true, hx', List.cons_append, List.nil_append, hbe]
        · have hxe : xs.isEmpty = false := by cases xs <;> simp_all
          have hv : ∀ c : Bytes, stepLen p (x :: (xs ++ c)) cont = lenValue cont { p with marker := x } (xs ++ c) := by
            intro c
            have hce : (xs ++ c).isEmpty = false := by cases xs <;> simp_all
            rw [stepLen_eq]
            simp only [hm, if_true, hx', hce, Bool.false_eq_true, if_false]
          have hv0 : stepLen p (x :: xs) cont = lenValue cont { p with marker := x } xs := by
            have := hv []; simpa using this
          rcases lenValue_split cont { p with marker := x } xs hxs with hE | ⟨buf, e1, e2⟩
          · left
            intro b
            rw [List.cons_append, hv0, hv b]
            exact hE b
          · right
            refine ⟨x, buf, isLenMarker_ne hx, by rw [hv0, e1], fun b _ => ?_⟩
            rw [List.cons_append, hv b, ← e2 b, stepLen_eq]
            simp only [hxm, Bool.false_eq_true, if_false]
      · left
        intro b
        have hx' : (x == int8Marker || x == uint8Marker || x == int16Marker || x == int32Marker
            || x == int64Marker) = false := by
          simpa [isLenMarker] using hx
        rw [stepLen_eq, stepLen_eq]
        simp only [hm, if_true, List.cons_append, hx', Bool.false_eq_true, if_false]
        eleaf
  · have hv : ∀ (q : P) (c : Bytes), q.marker = p.marker → stepLen q c cont = lenValue cont q c := by
      intro q c hq
      rw [stepLen_eq]
      simp only [hq, hm, Bool.false_eq_true, if_false]
    rcases lenValue_split cont p a ha with hE | ⟨buf, e1, e2⟩
    · left
      intro b
      rw [hv p _ rfl, hv p _ rfl]
      exact hE b
    · right
      refine ⟨p.marker, buf, by simpa using hm, by rw [hv p _ rfl, e1], fun b _ => ?_⟩
      rw [hv { p with buffer := buf } b rfl, hv p _ rfl]
      exact e2 b

/-! ### stepValue -/

theorem stepValue_ext (p : P) (x : UInt8) (bs b : Bytes) :
    Ext (stepValue p (x :: bs)) (stepValue p (x :: (bs ++ b))) b := by
  unfold stepValue
  simp only []
  cases markerToStartState x with
  | none => simp only []; eleaf
  | some st =>
    simp only []
    cases st.step <;> simp only [visit_eq] <;> eleaf

/-! ### stepFixedValue -/

theorem fixFin_ext (p : P) (rest b : Bytes) (done : Bool) (err : Option Err) :
    Ext (fixFin p rest done err) (fixFin p (rest ++ b) done err) b := by
  unfold fixFin
  csplit <;> eleaf

theorem fixNow_ext (p : P) (rest b : Bytes) (e : Ev) :
    Ext (let (q, err) := visit p e; fixFin q rest true err) (let (q, err) := visit p e; fixFin q (rest ++ b) true err) b := by
  simp only [visit_eq]
  exact fixFin_ext _ _ _ _ _

theorem SplitF.of_coll {f : P → Bytes → R} {p : P} {a : Bytes} (hp : pending p = false)
    (h : (∀ b, Ext (f p a) (f p (a ++ b)) b) ∨
      (∃ buf, f p a = { p := { p with buffer := buf }, rest := [] } ∧
        ∀ b, f { p with buffer := buf } b = f p (a ++ b))) : SplitF f p a := by
  rcases h with h | ⟨buf, e1, e2⟩
  · exact Or.inl h
  · exact Or.inr ⟨_, e1, rfl, hp, fun b _ => e2 b⟩

theorem stepFixedValue_split (p : P) (a : Bytes) (hm : a ≠ [] ∨ pending p = true)
    (ht : p.state.current.type = stFixed) : SplitF stepFixedValue p a := by
  have hcoll : ∀ (n : Nat) (mk : Bytes → Ev), pending p = false →
      (∀ buf c, stepFixedValue { p with buffer := buf } c =
        match collectP { p with buffer := buf } c n with
        | (q, rest, none) => { p := q, rest := rest }
        | (q, rest, some t) => (let (q', err) := visit q (mk t); fixFin q' rest true err)) →
      SplitF stepFixedValue p a := by
    intro n mk hp hf
    exact SplitF.of_coll hp (coll_drop <| coll_split_of (n := n)
      (ks := fun q rest t => (let (q', err) := visit q (mk t); fixFin q' rest true err)) p a hf
      (fun q rest t b => fixNow_ext _ _ _ _))
  have hne : pending p = false → a ≠ [] := by
    intro hp
    rcases hm with h | h
    · exact h
    · rw [hp] at h; cases h
  cases hs : p.state.current.step
  case stNil => left; intro b; simp only [stepFixedValue_eq, hs]; exact fixNow_ext _ _ _ _
  case stNoop => left; intro b; simp only [stepFixedValue_eq, hs]; exact fixFin_ext _ _ _ _ _
  case stTrue => left; intro b; simp only [stepFixedValue_eq, hs]; exact fixNow_ext _ _ _ _
  case stFalse => left; intro b; simp only [stepFixedValue_eq, hs]; exact fixNow_ext _ _ _ _
  case stInt8 =>
    left; intro b
    cases a with
    | nil => exact absurd rfl (hne (by simp [pending, ht, hs]))
    | cons x xs => simp only [stepFixedValue_eq, hs, List.cons_append]; exact fixNow_ext _ _ _ _
  case stUInt8 =>
    left; intro b
    cases a with
    | nil => exact absurd rfl (hne (by simp [pending, ht, hs]))
    | cons x xs => simp only [stepFixedValue_eq, hs, List.cons_append]; exact fixNow_ext _ _ _ _
  case stChar =>
    exact hcoll 1 (fun t => Ev.num .byte (beNat t)) (by simp [pending, ht, hs])
      (fun buf c => by rw [stepFixedValue_eq]; simp only [hs]; rfl)
  case stInt16 =>
    exact hcoll 2 (fun t => Ev.num .i16 (readInt16 t)) (by simp [pending, ht, hs])
      (fun buf c => by rw [stepFixedValue_eq]; simp only [hs]; rfl)
  case stInt32 =>
    exact hcoll 4 (fun t => Ev.num .i32 (readInt32 t)) (by simp [pending, ht, hs])
      (fun buf c => by rw [stepFixedValue_eq]; simp only [hs]; rfl)
  case stInt64 =>
    exact hcoll 8 (fun t => Ev.num .i64 (readInt64 t)) (by simp [pending, ht, hs])
      (fun buf c => by rw [stepFixedValue_eq]; simp only [hs]; rfl)
  case stFloat32 =>
    exact hcoll 4 (fun t => Ev.f32 (readFloat32 t)) (by simp [pending, ht, hs])
      (fun buf c => by rw [stepFixedValue_eq]; simp only [hs]; rfl)
  case stFloat64 =>
    exact hcoll 8 (fun t => Ev.f64 (readFloat64 t)) (by simp [pending, ht, hs])
      (fun buf c => by rw [stepFixedValue_eq]; simp only [hs]; rfl)
  all_goals (left; intro b; simp only [stepFixedValue_eq, hs]; eleaf)

/-! ### stepString -/

theorem strFin_ext (p : P) (rest b : Bytes) (done : Bool) (err : Option Err) :
    Ext (strFin p rest done err) (strFin p (rest ++ b) done err) b := by
  unfold strFin
  csplit <;> eleaf

theorem strNow_ext (p : P) (rest b : Bytes) (e : Ev) :
    Ext (let (q, err) := visit p e; strFin q rest true err) (let (q, err) := visit p e; strFin q (rest ++ b) true err) b := by
  simp only [visit_eq]
  exact strFin_ext _ _ _ _ _

theorem strWithLen_split (p : P) (a : Bytes) :
    (∀ b, Ext (strWithLen p a) (strWithLen p (a ++ b)) b) ∨
    (∃ buf, strWithLen p a = { p := { p with buffer := buf }, rest := [] } ∧
      ∀ b, strWithLen { p with buffer := buf } b = strWithLen p (a ++ b)) := by
  by_cases h0 : (p.length.current == 0) = true
  · left; intro b
    simp only [strWithLen, h0, if_true]
    exact strNow_ext _ _ _ _
  by_cases h1 : p.length.current < 0
  · left; intro b
    simp only [strWithLen, h0, h1, if_true, if_false, Bool.false_eq_true]
    exact ⟨rfl, rfl, fun h => by simp [panicR] at h⟩
  · refine coll_drop <| coll_split_of (n := p.length.current.toNat)
      (ks := fun q rest t => (let (q', err) := visit q (.str t); strFin q' rest true err)) p a ?_
      (fun q rest t b => strNow_ext _ _ _ _)
    intro buf c
    simp only [strWithLen, h0, h1, if_false, Bool.false_eq_true]
    rfl

theorem stepString_split (p : P) (a : Bytes) (ha : a ≠ [])
    (ht : p.state.current.type = stString ∨ p.state.current.type = stHighPrec) :
    SplitF stepString p a := by
  have hpend : ∀ q : P, q.state.current.type = p.state.current.type → pending q = false := by
    intro q hq
    rcases ht with ht | ht <;> simp [pending, hq, ht]
  cases hs : p.state.current.step
  case stStart =>
    have hv : ∀ (q : P) (c : Bytes), q.state = p.state → stepString q c =
        (let r := stepLen q c (p.state.current.withStep stWithLen)
         if !(r.err.isNone && r.p.state.current.step == stWithLen) then strFin r.p r.rest false r.err
         else strWithLen r.p r.rest) := by
      intro q c hq
      rw [stepString_eq]
      simp only [hq, hs]
    rcases stepLen_split p a (p.state.current.withStep stWithLen) ha with hE | ⟨m, buf, _, e1, e2⟩
    · -- the length is read (or fails) within `a`
      cases hre : (stepLen p a (p.state.current.withStep stWithLen)).err with
      | some e =>
        left; intro b
        obtain ⟨x1, x2, _⟩ := hE b
        rw [hre] at x1
        rw [hv p _ rfl, hv p _ rfl]
        simp only [hre, x1, Option.isNone_some, Bool.false_and, Bool.not_false, if_true]
        exact ⟨rfl, x2, fun h => by simp [strFin] at h⟩
      | none =>
        have hx : ∀ b, stepLen p (a ++ b) (p.state.current.withStep stWithLen) =
            app (stepLen p a (p.state.current.withStep stWithLen)) b := fun b => (hE b).2.2 hre
        by_cases hst : ((stepLen p a (p.state.current.withStep stWithLen)).p.state.current.step == stWithLen) = true
        · have h1 : ∀ b, stepString p (a ++ b) =
              strWithLen (stepLen p a (p.state.current.withStep stWithLen)).p
                ((stepLen p a (p.state.current.withStep stWithLen)).rest ++ b) := by
            intro b
            rw [hv p _ rfl, hx b]
            simp only [app, hre, hst, Option.isNone_none, Bool.and_self, Bool.not_true, Bool.false_eq_true, if_false]
          have h0 : stepString p a =
              strWithLen (stepLen p a (p.state.current.withStep stWithLen)).p
                (stepLen p a (p.state.current.withStep stWithLen)).rest := by
            have := h1 []; simpa using this
          have hty : (stepLen p a (p.state.current.withStep stWithLen)).p.state.current.type = p.state.current.type := by
            rcases stepLen_cur p a (p.state.current.withStep stWithLen) with h | h <;> rw [h] <;> rfl
          rcases strWithLen_split (stepLen p a (p.state.current.withStep stWithLen)).p
              (stepLen p a (p.state.current.withStep stWithLen)).rest with hE2 | ⟨buf, e1, e2⟩
          · left; intro b; rw [h0, h1 b]; exact hE2 b
          · right
            refine ⟨{ (stepLen p a (p.state.current.withStep stWithLen)).p with buffer := buf }, by rw [h0, e1],
              hty, hpend _ hty, fun b _ => ?_⟩
            rw [h1 b, ← e2 b, stepString_eq]
            have : (stepLen p a (p.state.current.withStep stWithLen)).p.state.current.step = stWithLen := by
              simpa using hst
            simp only [this]
        · left; intro b
          rw [hv p _ rfl, hv p _ rfl, hx b]
          simp only [app, hre, hst, Option.isNone_none, Bool.and_false, Bool.not_false, if_true]
          exact strFin_ext _ _ _ _ _
    · -- the length is not complete within `a`
      right
      have hq0 : stepString p a = { p := { p with marker := m, buffer := buf }, rest := [] } := by
        rw [hv p _ rfl, e1]
        simp only [hs, Option.isNone_none, Bool.true_and]
        rfl
      refine ⟨{ p with marker := m, buffer := buf }, hq0, rfl, hpend _ rfl, fun b hb => ?_⟩
      rw [hv { p with marker := m, buffer := buf } b rfl, hv p _ rfl, e2 b hb]
  case stWithLen =>
    have hv : ∀ (q : P) (c : Bytes), q.state = p.state → stepString q c = strWithLen q c := by
      intro q c hq
      rw [stepString_eq]
      simp only [hq, hs]
    rcases strWithLen_split p a with hE | ⟨buf, e1, e2⟩
    · left; intro b; rw [hv p _ rfl, hv p _ rfl]; exact hE b
    · right
      refine ⟨{ p with buffer := buf }, by rw [hv p _ rfl, e1], rfl, hpend _ rfl, fun b _ => ?_⟩
      rw [hv { p with buffer := buf } b rfl, hv p _ rfl]; exact e2 b
  all_goals (left; intro b; simp only [stepString_eq, hs]; exact strFin_ext _ _ _ _ _)

end SF.Ubjson.Chunk
