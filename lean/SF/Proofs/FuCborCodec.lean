/-
  C11, CBOR path, the CODEC leg at the level of scalar calls (`Sc`): what the cborl encoder mirror
  writes for ONE event of Fold (a scalar, a typed array, `OnBytes`, a typed map), as the wire form of
  an explicit well-formed item, and what the parser mirror reports for it: the same scalars, each
  integer under the NARROWEST kind (`narrow`), containers with element type `any`.
-/
import SF.Proofs.CborEnc
import SF.Proofs.CborTop
import SF.Ops.Unfold
import SF.Ops.Cbor
namespace SF.FuCbor
open SF SF.Cbor SF.Cbor.Cst SF.Cbor.Enc
open SF.Unf (Sc UEv)
open SF.Ops.Unf (evToUEv)

/-! ## scalar calls as events / leaves -/

def scEv : Sc → Ev
  | .nil => .null | .bool b => .bool b | .str s => .str s | .num k v => .num k v
  | .f32 b => .f32 b | .f64 b => .f64 b

def scTree : Sc → ETree
  | .nil => .null | .bool b => .bool b | .str s => .str s | .num k v => .num k v
  | .f32 b => .f32 b | .f64 b => .f64 b

theorem scTree_events (s : Sc) : (scTree s).events = [scEv s] := by cases s <;> rfl
theorem scTree_wf (s : Sc) : (scTree s).wf = true := by cases s <;> rfl
theorem scTree_any (s : Sc) : (scTree s).matchesBT BT.any = true := by
  cases s <;> simp [scTree, ETree.matchesBT, Ev.matchesBT]
theorem evToUEv_scEv (s : Sc) : evToUEv (scEv s) = .scalar s := by cases s <;> rfl
theorem acts_scEv (s : Sc) (ls : LenStack) : acts ls (.ev (scEv s)) = scalarActs (scEv s) := by cases s <;> rfl

theorem evToUEv_inj : ∀ a b : Ev, evToUEv a = evToUEv b → a = b := by
  intro a b h
  cases a <;> cases b <;> simp_all [evToUEv]

theorem map_evToUEv_inj : ∀ {a b : List Ev}, a.map evToUEv = b.map evToUEv → a = b
  | [], [], _ => rfl
  | [], _ :: _, h => by simp at h
  | _ :: _, [], h => by simp at h
  | x :: a, y :: b, h => by
    simp only [List.map_cons, List.cons.injEq] at h
    rw [evToUEv_inj x y h.1, map_evToUEv_inj h.2]

/-- numbers in the range of their kind, strings below 2^63 bytes (as every Go value is) -/
def scSmall (s : Sc) : Bool := small (scTree s)

/-- the item the encoder writes for a scalar -/
def scItem (s : Sc) : Item := toItem (scTree s)

/-- the kind under which the parser reports the integer `v`: the narrowest unsigned kind for
`v ≥ 0`, the narrowest signed kind for `v < 0` -/
def narrow (v : Int) : NumKind :=
  if v < 0 then nintKind (minW (-1 - v).toNat) (-1 - v).toNat else uintKind (minW v.toNat)

/-- a scalar call after the CBOR leg -/
def cborSc : Sc → Sc
  | .num _ v => .num (narrow v) v
  | s => s

theorem narrow_inRange (v : Int) (h1 : -9223372036854775808 ≤ v) (h2 : v ≤ 18446744073709551615) :
    (narrow v).inRange v = true := by
  unfold narrow minW
  by_cases hv : v < 0
  · simp only [hv, if_true]
    generalize hn : (-1 - v).toNat = n
    have hn' : (n : Int) = -1 - v := by omega
    by_cases c1 : n < 24
    · simp [c1, nintKind, NumKind.inRange, NumKind.lo, NumKind.hi]; omega
    · by_cases c2 : n ≤ 255
      · by_cases c : n ≤ 127 <;> simp [c1, c2, c, nintKind, NumKind.inRange, NumKind.lo, NumKind.hi] <;> omega
      · by_cases c3 : n ≤ 65535
        · by_cases c : n ≤ 32767 <;> simp [c1, c2, c3, c, nintKind, NumKind.inRange, NumKind.lo, NumKind.hi] <;> omega
        · by_cases c4 : n ≤ 4294967295
          · by_cases c : n ≤ 2147483647 <;>
              simp [c1, c2, c3, c4, c, nintKind, NumKind.inRange, NumKind.lo, NumKind.hi] <;> omega
          · simp [c1, c2, c3, c4, nintKind, NumKind.inRange, NumKind.lo, NumKind.hi]; omega
  · simp only [hv, if_false]
    generalize hn : v.toNat = n
    have hn' : (n : Int) = v := by omega
    by_cases c1 : n < 24
    · simp [c1, uintKind, NumKind.inRange, NumKind.lo, NumKind.hi]; omega
    · by_cases c2 : n ≤ 255
      · simp [c1, c2, uintKind, NumKind.inRange, NumKind.lo, NumKind.hi]; omega
      · by_cases c3 : n ≤ 65535
        · simp [c1, c2, c3, uintKind, NumKind.inRange, NumKind.lo, NumKind.hi]; omega
        · by_cases c4 : n ≤ 4294967295
          · simp [c1, c2, c3, c4, uintKind, NumKind.inRange, NumKind.lo, NumKind.hi]; omega
          · simp [c1, c2, c3, c4, uintKind, NumKind.inRange, NumKind.lo, NumKind.hi]; omega

theorem kind_bounds (k : NumKind) (v : Int) (h : k.inRange v = true) :
    -9223372036854775808 ≤ v ∧ v ≤ 18446744073709551615 := by
  simp only [NumKind.inRange, Bool.and_eq_true, decide_eq_true_eq] at h
  have : k.lo ≥ -9223372036854775808 := by cases k <;> simp [NumKind.lo]
  have : k.hi ≤ 18446744073709551615 := by cases k <;> simp [NumKind.hi]
  omega

theorem cborSc_small (s : Sc) (h : scSmall s = true) : scSmall (cborSc s) = true := by
  cases s with
  | num k v =>
    have hb := kind_bounds k v h
    exact narrow_inRange v hb.1 hb.2
  | _ => exact h

/-- THE PARSER'S REPORT for a scalar item: the same scalar, integers under the narrowest kind -/
theorem scItem_events (s : Sc) (h : scSmall s = true) : (scItem s).events = [scEv (cborSc s)] := by
  cases s with
  | num k v =>
    have hlo : k.lo ≤ v := by simp [scSmall, scTree, small, NumKind.inRange] at h; exact h.1
    simp only [scItem, scTree, toItem, cborSc, scEv, narrow]
    by_cases hv : v < 0
    · have hs : k.signed = true := by
        cases k <;> simp [NumKind.lo] at hlo <;> first | rfl | omega
      simp only [hs, hv, decide_true, Bool.and_self, if_true, Item.events]
      congr 2
      omega
    · simp only [hv, decide_false, Bool.and_false, Bool.false_eq_true, if_false, Item.events]
      congr 2
      omega
  | bool b => cases b <;> rfl
  | _ => rfl

theorem scItem_ok (s : Sc) (h : scSmall s = true) : (scItem s).ok = true := toItem_ok _ h

/-! ## the encoder -/

theorem exec_append (a b : List Act) : ∀ (s : Enc), exec s (a ++ b) =
    match exec s a with
    | (s', true) => exec s' b
    | (s', false) => (s', false) := by
  induction a with
  | nil => intro s; simp [exec]
  | cons x r ih =>
    intro s
    cases x with
    | write w =>
      simp only [List.cons_append, exec]
      cases hw : s.w.write w with
      | mk w' ok => cases ok <;> simp [ih]
    | push n => simp only [List.cons_append, exec, ih]
    | pop => simp only [List.cons_append, exec, ih]

/-- one scalar: its writes are the wire form of its item -/
theorem exec_scalar (s : Enc) (hf : s.w.failFrom = none) (t : Sc) (hs : scSmall t = true) :
    exec s (scalarActs (scEv t)) = (s.emit (scItem t).wire, true) := by
  have h := enc_tree (scTree t) (scTree_wf t) hs s hf []
  simp only [scTree_events, List.append_nil, execEvs_cons, execEvs, acts_scEv] at h
  cases hx : exec s (scalarActs (scEv t)) with
  | mk s' ok =>
    rw [hx] at h
    cases ok with
    | true => simp only at h; rw [h]; rfl
    | false => simp at h

theorem exec_scalars : ∀ (scs : List Sc) (s : Enc), s.w.failFrom = none → (∀ t ∈ scs, scSmall t = true) →
    exec s ((scs.map scEv).flatMap scalarActs) = (s.emit (wireList (scs.map scItem)), true)
  | [], s, _, _ => by simp [exec, wireList]
  | t :: r, s, hf, hs => by
    simp only [List.map_cons, List.flatMap_cons, exec_append, exec_scalar s hf t (hs t List.mem_cons_self), wireList]
    rw [exec_scalars r _ (by simpa using hf) (fun y hy => hs y (List.mem_cons_of_mem _ hy)), emit_emit]

theorem run_single (s s' : Enc) (x : XEv) (h : step s x = (s', true)) : run s [x] = (s', none) := by
  simp [run, run.go, h]

/-- typed arrays that are written element by element (everything but `[]byte`) -/
def isArrX : XEv → Bool
  | .boolArr _ | .strArr _ | .f32Arr _ | .f64Arr _ => true
  | .numArr k _ => !(k == .byte || k == .u8)
  | _ => false

theorem acts_arrX (x : XEv) (h : isArrX x = true) (n : Int) (bt : Nat) (es : List Ev)
    (hx : x.expand = .arrStart n bt :: es ++ [.arrEnd]) (ls : LenStack) :
    acts ls x = .write (head majorArr es.length) :: es.flatMap scalarActs ∧ step {} x = exec {} (acts ({} : Enc).length x) := by
  cases x <;> simp [isArrX] at h
  all_goals
    simp only [XEv.expand, List.cons_append, List.cons.injEq, Ev.arrStart.injEq] at hx
    have he := List.append_cancel_right hx.2
    subst he
    refine ⟨?_, rfl⟩
  · simp [acts, List.flatMap_map]
  · simp [acts, List.flatMap_map]
  · rename_i k xs
    have hk : (k == NumKind.byte || k == NumKind.u8) = false := by simpa using h
    simp [acts, hk, List.flatMap_map]
  · simp [acts, List.flatMap_map]
  · simp [acts, List.flatMap_map]

theorem majorArr_eq : majorArr = UInt8.ofNat (4 * 32) := by decide
theorem majorBytes_eq : majorBytes = UInt8.ofNat (2 * 32) := by decide

/-- ENCODER, typed array: a definite-length array of the elements' items -/
theorem run_arrX (x : XEv) (h : isArrX x = true) (n : Int) (bt : Nat) (scs : List Sc)
    (hx : x.expand = .arrStart n bt :: scs.map scEv ++ [.arrEnd]) (hs : ∀ t ∈ scs, scSmall t = true) :
    run {} [x] = (Enc.emit {} (Item.arr (minW scs.length) (scs.map scItem)).wire, none) := by
  apply run_single
  obtain ⟨ha, hstep⟩ := acts_arrX x h n bt _ hx ({} : Enc).length
  rw [hstep, ha]
  simp only [exec, write_ok (s := ({} : Enc)) rfl]
  have : ({ ({} : Enc) with w := (Enc.emit {} (head majorArr (scs.map scEv).length)).w } : Enc) =
      Enc.emit {} (head majorArr (scs.map scEv).length) := rfl
  rw [this, exec_scalars scs _ rfl hs, emit_emit]
  simp only [Item.wire, List.length_map, majorArr_eq, head_eq_cst 4 (by omega)]

/-- ENCODER, `OnBytes`: a byte string -/
theorem run_bytesX (vs : List Int) :
    run {} [.numArr .byte vs] =
      (Enc.emit {} (Item.bytes (minW vs.length) (vs.map fun v => UInt8.ofNat v.toNat)).wire, none) := by
  apply run_single
  have : step {} (.numArr .byte vs) = exec {} (bytesActs majorBytes (vs.map fun v => UInt8.ofNat v.toNat)) := rfl
  rw [this]
  have hw := exec_writes (s := ({} : Enc)) rfl
    [head majorBytes (vs.map fun v => UInt8.ofNat v.toNat).length, vs.map fun v => UInt8.ofNat v.toNat]
  simp only [List.map_cons, List.map_nil] at hw
  rw [bytesActs, hw]
  simp only [Item.wire, List.length_map, majorBytes_eq, head_eq_cst 2 (by omega), List.flatten_cons, List.flatten_nil,
    List.append_nil]

/-! ### typed maps -/

def isObjX : XEv → Bool
  | .boolObj _ | .strObj _ | .numObj _ _ | .f32Obj _ | .f64Obj _ => true
  | _ => false

/-- key / value events of members given as scalar calls -/
def memEvs : List (Bytes × Sc) → List Ev
  | [] => []
  | (k, s) :: r => .key k :: scEv s :: memEvs r

def memTrees (mems : List (Bytes × Sc)) : List (Bytes × ETree) := mems.map fun m => (m.1, scTree m.2)
def memItems (mems : List (Bytes × Sc)) : List (W × Bytes × Item) :=
  mems.map fun m => (minW m.1.length, m.1, scItem m.2)

theorem eventsMems_memTrees : ∀ mems, ETree.eventsMems (memTrees mems) = memEvs mems
  | [] => rfl
  | (k, s) :: r => by
    have := eventsMems_memTrees r
    simp only [memTrees, List.map_cons, ETree.eventsMems, scTree_events, memEvs] at this ⊢
    rw [this]; rfl

theorem toMems_memTrees : ∀ mems, toMems (memTrees mems) = memItems mems
  | [] => rfl
  | (k, s) :: r => by
    have := toMems_memTrees r
    simp only [memTrees, memItems, List.map_cons, toMems] at this ⊢
    rw [this]; rfl

theorem wfMems_memTrees : ∀ mems, ETree.wfMems BT.any (memTrees mems) = true
  | [] => rfl
  | (k, s) :: r => by
    have := wfMems_memTrees r
    simp only [memTrees, List.map_cons, ETree.wfMems, scTree_any, scTree_wf, Bool.true_and] at this ⊢
    exact this

theorem smallMems_memTrees : ∀ mems : List (Bytes × Sc),
    (∀ m ∈ mems, m.1.length < 9223372036854775808 ∧ scSmall m.2 = true) → smallMems (memTrees mems) = true
  | [], _ => rfl
  | (k, s) :: r, h => by
    have := smallMems_memTrees r (fun y hy => h y (List.mem_cons_of_mem _ hy))
    have h0 := h (k, s) List.mem_cons_self
    simp only [memTrees, List.map_cons, smallMems, Bool.and_eq_true, decide_eq_true_eq] at this ⊢
    exact ⟨⟨h0.1, h0.2⟩, this⟩

theorem step_objX (x : XEv) (h : isObjX x = true) (s : Enc) : step s x = execEvs s x.expand := by
  cases x <;> simp [isObjX] at h <;> rfl

/-- ENCODER, typed map (through map.go's expansion): a definite-length map of the members' items -/
theorem run_objX (x : XEv) (h : isObjX x = true) (bt : Nat) (mems : List (Bytes × Sc))
    (hx : x.expand = .objStart mems.length bt :: memEvs mems ++ [.objEnd])
    (hn : mems.length < 9223372036854775808)
    (hs : ∀ m ∈ mems, m.1.length < 9223372036854775808 ∧ scSmall m.2 = true) :
    run {} [x] = (Enc.emit {} (Item.map (minW mems.length) (memItems mems)).wire, none) := by
  apply run_single
  rw [step_objX x h, hx]
  let T : ETree := .obj mems.length BT.any (memTrees mems)
  have hlen : (memTrees mems).length = mems.length := by simp [memTrees]
  have hw : T.wf = true := by
    simp only [T, ETree.wf, ETree.lenOkFor, hlen, beq_self_eq_true, Bool.or_true, wfMems_memTrees, Bool.and_self]
  have hsm : small T = true := by
    simp only [T, small, hlen, smallMems_memTrees mems hs, Bool.and_true, decide_eq_true_eq]
    exact hn
  have he := enc_tree T hw hsm {} rfl []
  have hev : T.events = .objStart mems.length BT.any :: memEvs mems ++ [.objEnd] := by
    simp only [T, ETree.events, eventsMems_memTrees]
  have hswap : execEvs {} (.objStart mems.length bt :: memEvs mems ++ [.objEnd]) =
      execEvs {} (.objStart mems.length BT.any :: memEvs mems ++ [.objEnd]) := by
    simp only [List.cons_append, execEvs_cons]; rfl
  rw [hswap, ← hev]
  rw [List.append_nil] at he
  rw [he]
  have hneg : ¬ ((mems.length : Int) < 0) := by omega
  simp only [execEvs, T, toItem, hneg, if_false, toMems_memTrees, hlen]

/-! ## the parser -/

theorem wire_ne_nil (i : Item) : i.wire ≠ [] := by
  cases i <;> simp [Item.wire, Cst.head]

/-- PARSER: the bytes of one well-formed item, handed over in one `Write` and finalized
(`Cbor.parseEvents [bytes]`), are accepted; the parser is idle again and has delivered the item's
events -/
theorem parse_item (i : Item) (h : i.ok = true) :
    Parse.writeChunks {} [i.wire] = (Parse.idle i.events.reverse, none) := by
  have hf := Parse.feed_items [i] (by simp [okList, h]) [] (2 * i.wire.length + 2) (by simp)
  simp only [wireList, List.append_nil, eventsList] at hf
  have hidle : (({} : Parse.P)) = Parse.idle [] := rfl
  simp only [Parse.writeChunks, Parse.write, Parse.feedAll, hidle, hf]
  simp +decide [Parse.finalize, Parse.idle]

theorem parseEvents_item (i : Item) (h : i.ok = true) :
    SF.Ops.Cbor.parseEvents [i.wire] = (i.events, "ok") := by
  simp [SF.Ops.Cbor.parseEvents, parse_item i h, Parse.events, Parse.idle, SF.Ops.Cbor.errClass]

/-! ## what the parser reports, as Unfolder calls -/

theorem eventsList_scItems : ∀ scs : List Sc, (∀ t ∈ scs, scSmall t = true) →
    (eventsList (scs.map scItem)).map evToUEv = (scs.map cborSc).map UEv.scalar
  | [], _ => rfl
  | t :: r, h => by
    simp only [List.map_cons, eventsList, scItem_events t (h t List.mem_cons_self),
      evToUEv_scEv, eventsList_scItems r (fun y hy => h y (List.mem_cons_of_mem _ hy)), List.cons_append,
      List.nil_append]

theorem okList_scItems : ∀ scs : List Sc, (∀ t ∈ scs, scSmall t = true) → okList (scs.map scItem) = true
  | [], _ => rfl
  | t :: r, h => by
    simp only [List.map_cons, okList, scItem_ok t (h t List.mem_cons_self),
      okList_scItems r (fun y hy => h y (List.mem_cons_of_mem _ hy)), Bool.and_self]

theorem okMems_memItems : ∀ mems : List (Bytes × Sc),
    (∀ m ∈ mems, m.1.length < 9223372036854775808 ∧ scSmall m.2 = true) → okMems (memItems mems) = true
  | [], _ => rfl
  | (k, s) :: r, h => by
    have h0 := h (k, s) List.mem_cons_self
    have := okMems_memItems r (fun y hy => h y (List.mem_cons_of_mem _ hy))
    simp only [memItems, List.map_cons, okMems] at this ⊢
    simp [minW_fits' _ h0.1, h0.1, scItem_ok s h0.2, this]

end SF.FuCbor
