/-
  C04 for the JSON parser mirror, the refinement direction FOR THE LENIENT GRAMMAR: every
  text of the grammar with the parser's white space (`J.okL`) whose tokens denote for the
  parser (`J.semL`) is read without error, delivering exactly its events (`J.eventsL`).
  (SF/Proofs/JsonRefineTree.lean with `allSp` / `numEvL` / `strValL` for `allWs` / `numEv` /
  `strVal`.)  Together with SF/Proofs/JsonConvDoc.lean this makes the description of the
  accepted inputs EXACT.
-/
import SF.Proofs.JsonConvDoc
import SF.Proofs.JsonRefineTree
set_option linter.unusedSimpArgs false
set_option linter.unusedVariables false
namespace SF.Json.ParseP
open SF SF.Json SF.Json.Parse SF.Json.Float SF.Json.Grammar ETree

/-- a value, read from any state that reads a value -/
def JReadsL (v : J) : Prop :=
  ∀ p r S, ReadyN p r S → Reads p v.wire v.eventsL (fun q => AtN q r S) (follow v)

theorem stopF_sepL {ws w : Bytes} (hs : numSep ws = true) (hw : stopF w) : stopF (ws ++ w) := by
  cases ws with
  | nil => exact hw
  | cons a t => exact ⟨a, t ++ w, rfl, hs⟩

theorem not_rbrack_of_not_stop : ∀ x : UInt8, isStopChar x = false → (x == ch ']') = false := by
  apply forall_uint8; decide +kernel

theorem elem_readsL (cv ca : St) (hv : (cv = .arrStateValue ∧ ca = .arrStateNext) ∨
      (cv = .dictFieldValue ∧ ca = .dictFieldStateEnd))
    (e : J) (he : JReadsL e) (ws w : Bytes) (es : List Ev) (hws : allSp ws = true)
    (hsep : e.isNum = true → numSep ws = true) (hw : InReads ca w es)
    (hstop : stopF w) : InReads cv (e.wire ++ (ws ++ w)) (e.eventsL ++ es) := by
  intro p r S hat hpush
  have hready : ReadyN p ca (r :: S) := by
    refine ⟨⟨Or.inr ⟨stackWF_cons hpush, by rcases hv with ⟨_, rfl⟩ | ⟨_, rfl⟩ <;> rfl⟩, ?_⟩, hat.2⟩
    rcases hv with ⟨rfl, rfl⟩ | ⟨rfl, rfl⟩
    · exact Or.inr (Or.inr ⟨hat.1, rfl⟩)
    · exact Or.inr (Or.inl ⟨hat.1, rfl⟩)
  have hca : trims ca = true := by rcases hv with ⟨_, rfl⟩ | ⟨_, rfl⟩ <;> rfl
  refine reads_seq (he p ca (r :: S) hready) (fun p2 h2 => ?_)
    (fun more _ hn => stopF_append (stopF_sepL (hsep hn) hstop))
  exact reads_wsL h2.1.wf.inv (by rw [h2.1.cs]; exact hca) hws (hw p2 r S h2 hpush)

theorem byte_readsL (c c' : St) (x : UInt8) (ht : trims c' = true)
    (hl : ∀ p S', AtN p c S' → Reads p [x] [] (fun q => AtN q c' S') anyF)
    (ws w : Bytes) (es : List Ev) (hws : allSp ws = true) (hw : InReads c' w es) :
    InReads c ([x] ++ (ws ++ w)) es := by
  intro p r S hat hpush
  have := reads_seq (hl p (r :: S) hat)
    (fun p2 hp2 => reads_wsL hp2.1.wf.inv (by rw [hp2.1.cs]; exact ht) hws (hw p2 r S hp2 hpush))
    (fun _ _ => trivial)
  simpa using this

theorem first_elem_readsL (e : J) (he : JReadsL e) (hok : e.okL = true) (ws w : Bytes) (es : List Ev)
    (hws : allSp ws = true) (hsep : e.isNum = true → numSep ws = true) (hw : InReads .arrStateNext w es)
    (hstop : stopF w) : InReads .arrState (e.wire ++ (ws ++ w)) (e.eventsL ++ es) := by
  intro p r S hat hpush
  obtain ⟨x, t, hx, hsp, hns⟩ := J.wire_firstL e hok
  have hmv := move_arr hat.1 x hsp (not_rbrack_of_not_stop x hns)
  have hwf1 : WF { p with currentState := .arrStateValue } := by
    obtain ⟨rep, h1⟩ := hmv []
    exact wf_of_step hat.1.wf [x] (by simp) (by rw [h1])
  have hat1 : AtN { p with currentState := .arrStateValue } .arrStateValue (r :: S) := atN_setCs hat hwf1
  have k1 := elem_readsL _ _ (Or.inl ⟨rfl, rfl⟩) e he ws w es hws hsep hw hstop _ r S hat1 hpush
  rw [hx, List.cons_append] at k1 ⊢
  exact reads_move hat.1.wf hmv rfl k1

theorem member_readsL (c : St) (hc : c = .dictState ∨ c = .dictNextFieldState)
    (key k ws1 ws2 : Bytes) (v : J) (hv : JReadsL v) (ws3 w : Bytes) (es : List Ev)
    (hkb : bodyOk key = true) (hkey : strValL key = some k) (h1 : allSp ws1 = true) (h2 : allSp ws2 = true)
    (h3 : allSp ws3 = true) (hsep : v.isNum = true → numSep ws3 = true)
    (hw : InReads .dictFieldStateEnd w es) (hstop : stopF w) :
    InReads c (0x22 :: (key ++ 0x22 :: (ws1 ++ 0x3a :: (ws2 ++ (v.wire ++ (ws3 ++ w))))))
      (.key k :: (v.eventsL ++ es)) := by
  intro p r S hat hpush
  have hmv := move_dict hat.1 hc
  have hwf1 : WF { p with currentState := .dictFieldState } := by
    obtain ⟨rep, h1⟩ := hmv []
    exact wf_of_step hat.1.wf [0x22] (by simp) (by rw [h1])
  have hat1 : AtN { p with currentState := .dictFieldState } .dictFieldState (r :: S) := atN_setCs hat hwf1
  have hval : InReads .dictFieldValue (v.wire ++ (ws3 ++ w)) (v.eventsL ++ es) :=
    elem_readsL _ _ (Or.inr ⟨rfl, rfl⟩) v hv ws3 w es h3 hsep hw hstop
  have hsep' : InReads .dictFieldValueSep ([0x3a] ++ (ws2 ++ (v.wire ++ (ws3 ++ w)))) (v.eventsL ++ es) :=
    byte_readsL _ _ 0x3a rfl (fun _ _ h => reads_colon h) ws2 _ _ h2 hval
  have k1 : Reads { p with currentState := .dictFieldState }
      ((0x22 :: (key ++ [0x22])) ++ (ws1 ++ ([0x3a] ++ (ws2 ++ (v.wire ++ (ws3 ++ w))))))
      ([.key k] ++ (v.eventsL ++ es)) (fun q => AtN q r S) anyF :=
    reads_seq (reads_keyL hat1 key k hkb (strValL_some hkey))
      (fun p2 hp2 => reads_wsL hp2.1.wf.inv (by rw [hp2.1.cs]; rfl) h1 (hsep' p2 r S hp2 hpush)) (fun _ _ => trivial)
  have e0 : (0x22 :: (key ++ 0x22 :: (ws1 ++ 0x3a :: (ws2 ++ (v.wire ++ (ws3 ++ w))))) : Bytes) =
      (0x22 :: (key ++ [0x22])) ++ (ws1 ++ ([0x3a] ++ (ws2 ++ (v.wire ++ (ws3 ++ w))))) := by simp
  rw [e0]
  rw [List.cons_append] at k1 ⊢
  exact reads_move hat.1.wf hmv rfl k1

theorem sep_of_bool {a b : Bool} (h : (!a || b) = true) : a = true → b = true := by
  cases a <;> simp_all

mutual
theorem jreadsL : (v : J) → v.okL = true → v.semL = true → JReadsL v
  | .lit k, _, _ => by
    intro p r S h
    have := reads_lit h k
    simp only [J.eventsL, J.treeL, litTree_events, J.wire]
    exact reads_weaken this
  | .num tok, hok, hs => by
    intro p r S h
    simp only [J.semL] at hs
    obtain ⟨ev, hev⟩ := Option.isSome_iff_exists.mp hs
    have := reads_numL h tok (by simpa [J.okL] using hok) ev hev
    simp only [J.eventsL, J.treeL, numTreeL_events tok ev hev, J.wire]
    exact fun more hm => this more (hm rfl)
  | .str raw, hok, hs => by
    intro p r S h
    simp only [J.semL] at hs
    obtain ⟨s, hsv⟩ := Option.isSome_iff_exists.mp hs
    have := reads_strL h raw s (by simpa [J.okL] using hok) (strValL_some hsv)
    simp only [J.eventsL, J.treeL, hsv, Option.getD_some, ETree.events, J.wire]
    exact reads_weaken this
  | .arr ws body, hok, hs => by
    intro p r S h
    simp only [J.okL, Bool.and_eq_true] at hok
    simp only [J.semL] at hs
    have hb := abody_readsL body hok.2 hs
    have := reads_seq (reads_lbrack h)
      (fun p1 hp1 => reads_wsL hp1.1.wf.inv (by rw [hp1.1.cs]; rfl) hok.1 (hb p1 r S hp1 h.1.1)) (fun _ _ => trivial)
    simp only [J.eventsL, J.treeL, ETree.events, J.wire]
    exact reads_weaken (by simpa using this)
  | .obj ws body, hok, hs => by
    intro p r S h
    simp only [J.okL, Bool.and_eq_true] at hok
    simp only [J.semL] at hs
    have hb := obody_readsL body hok.2 hs
    have := reads_seq (reads_lbrace h)
      (fun p1 hp1 => reads_wsL hp1.1.wf.inv (by rw [hp1.1.cs]; rfl) hok.1 (hb p1 r S hp1 h.1.1)) (fun _ _ => trivial)
    simp only [J.eventsL, J.treeL, ETree.events, J.wire]
    exact reads_weaken (by simpa using this)
theorem abody_readsL : (b : ABody) → b.okL = true → b.semL = true →
    InReads .arrState b.wire (eventsList b.treesL ++ [.arrEnd])
  | .close, _, _ => fun _ _ _ hat _ => reads_rbrack hat (Or.inl rfl)
  | .elems e ws tl, hok, hs => by
    simp only [ABody.okL, Bool.and_eq_true] at hok
    simp only [ABody.semL, Bool.and_eq_true] at hs
    obtain ⟨⟨⟨h1, h2⟩, h3⟩, h4⟩ := hok
    have := first_elem_readsL e (jreadsL e h1 hs.1) h1 ws tl.wire _ h2 (sep_of_bool h3) (atail_readsL tl h4 hs.2)
      (ATail.wire_stop tl)
    simpa [ABody.wire, ABody.treesL, eventsList, J.eventsL] using this
theorem atail_readsL : (t : ATail) → t.okL = true → t.semL = true →
    InReads .arrStateNext t.wire (eventsList t.treesL ++ [.arrEnd])
  | .close, _, _ => fun _ _ _ hat _ => reads_rbrack hat (Or.inr rfl)
  | .more ws1 e ws2 tl, hok, hs => by
    simp only [ATail.okL, Bool.and_eq_true] at hok
    simp only [ATail.semL, Bool.and_eq_true] at hs
    obtain ⟨⟨⟨⟨h0, h1⟩, h2⟩, h3⟩, h4⟩ := hok
    have k1 := elem_readsL _ _ (Or.inl ⟨rfl, rfl⟩) e (jreadsL e h1 hs.1) ws2 tl.wire _ h2 (sep_of_bool h3)
      (atail_readsL tl h4 hs.2) (ATail.wire_stop tl)
    have := byte_readsL .arrStateNext .arrStateValue 0x2c rfl (fun _ _ hat => reads_comma_arr hat) ws1 _ _ h0 k1
    simpa [ATail.wire, ATail.treesL, eventsList, J.eventsL] using this
theorem obody_readsL : (b : OBody) → b.okL = true → b.semL = true →
    InReads .dictState b.wire (eventsMems b.membersL ++ [.objEnd])
  | .close, _, _ => fun _ _ _ hat _ => reads_rbrace hat (Or.inl rfl)
  | .mems key ws1 ws2 v ws3 tl, hok, hs => by
    simp only [OBody.okL, Bool.and_eq_true] at hok
    simp only [OBody.semL, Bool.and_eq_true] at hs
    obtain ⟨⟨⟨⟨⟨⟨h1, h2⟩, h3⟩, h4⟩, h5⟩, h5'⟩, h6⟩ := hok
    obtain ⟨k, hk⟩ := Option.isSome_iff_exists.mp hs.1.1
    have := member_readsL _ (Or.inl rfl) key k ws1 ws2 v (jreadsL v h4 hs.1.2) ws3 tl.wire _ h1 hk h2 h3 h5
      (sep_of_bool h5') (otail_readsL tl h6 hs.2) (OTail.wire_stop tl)
    simpa [OBody.wire, OBody.membersL, eventsMems, J.eventsL, hk] using this
theorem otail_readsL : (t : OTail) → t.okL = true → t.semL = true →
    InReads .dictFieldStateEnd t.wire (eventsMems t.membersL ++ [.objEnd])
  | .close, _, _ => fun _ _ _ hat _ => reads_rbrace hat (Or.inr rfl)
  | .more ws0 key ws1 ws2 v ws3 tl, hok, hs => by
    simp only [OTail.okL, Bool.and_eq_true] at hok
    simp only [OTail.semL, Bool.and_eq_true] at hs
    obtain ⟨⟨⟨⟨⟨⟨⟨h0, h1⟩, h2⟩, h3⟩, h4⟩, h5⟩, h5'⟩, h6⟩ := hok
    obtain ⟨k, hk⟩ := Option.isSome_iff_exists.mp hs.1.1
    have hm := member_readsL _ (Or.inr rfl) key k ws1 ws2 v (jreadsL v h4 hs.1.2) ws3 tl.wire _ h1 hk h2 h3 h5
      (sep_of_bool h5') (otail_readsL tl h6 hs.2) (OTail.wire_stop tl)
    have := byte_readsL .dictFieldStateEnd .dictNextFieldState 0x2c rfl (fun _ _ hat => reads_comma_obj hat) ws0 _ _
      h0 hm
    simpa [OTail.wire, OTail.membersL, eventsMems, J.eventsL, hk] using this
end

/-! ## streams -/

theorem stopF_topL {ws : Bytes} (h : numSepTop ws = true) : stopF ws := by
  cases ws with
  | nil => simp [numSepTop] at h
  | cons a t => exact ⟨a, t, rfl, h⟩

/-- a stream of documents of the lenient grammar, and a last bare number token, from the
idle state: no error, and the end of input is accepted, with exactly their events -/
theorem stream_runL (ds : List Doc) (hd : ∀ d ∈ ds, Doc.goodL d = true) (fin : Bytes) (hf : finOk fin = true)
    (ws0 : Bytes) (h0 : allSp ws0 = true) (p : P) (hp : IdleN p) :
    ∃ q, runA p (ws0 ++ (streamWire ds ++ fin)) = (q, none) ∧ (finalize q).2 = none ∧
      (finalize q).1.evs = (streamEventsL ds ++ finEvents fin).reverse ++ p.evs ∧
      (finalize q).1.inEscape = p.inEscape ∧ (finalize q).1.failAt = p.failAt := by
  induction ds generalizing ws0 p with
  | nil =>
    rw [runA_skipL p ws0 _ hp.1.wf.inv (by rw [hp.1.cs]; rfl) h0]
    simp only [streamWire, List.map_nil, List.flatten_nil, List.nil_append]
    cases fin with
    | nil =>
      refine ⟨p, runA_nil p, ?_⟩
      rw [finalize_idle p hp]
      simp [streamEventsL, finEvents_nil]
    | cons a t =>
      simp only [finOk, List.isEmpty_cons, Bool.false_or, Bool.and_eq_true] at hf
      obtain ⟨ev, hev⟩ := Option.isSome_iff_exists.mp hf.2
      refine ⟨pendP p .startState (a :: t), run_num_pending hp.ready (a :: t) hf.1, ?_⟩
      have hne : (a :: t) ≠ [] := by simp
      have hfin : finalize (pendP p .startState (a :: t)) =
          ({ p with isDouble := isDblTok (a :: t), literalBuffer := a :: t, evs := ev :: p.evs,
                    nevs := p.nevs + 1 }, none) := by
        unfold finalize
        simp only [pendP, beq_self_eq_true, if_true]
        have := reportNumber_numEvL (pendP p .startState (a :: t)) (a :: t) hne ev hev
        simp only [pendP] at this
        rw [this, visit_none _ _ (by exact hp.2)]
        simp only [popState, hp.1.st]
        have h1 : p.states = [] := hp.1.st
        have h2 : p.currentState = .startState := hp.1.cs
        cases p
        simp only at h1 h2
        subst h1; subst h2
        rfl
      rw [hfin]
      simp [streamEventsL, finEvents, hev]
  | cons d ds ih =>
    have hg := hd d (by simp)
    simp only [Doc.goodL, Bool.and_eq_true] at hg
    obtain ⟨⟨⟨g1, g2⟩, g3⟩, g4⟩ := hg
    obtain ⟨p1, hp1, he, hr⟩ := jreadsL d.1 g1 g2 p .startState [] hp.ready (d.2 ++ (streamWire ds ++ fin))
      (fun h => stopF_append (stopF_topL (sep_of_bool g4 h)))
    obtain ⟨q, hq1, hq2, hq3, hq4, hq5⟩ := ih (fun d' hd' => hd d' (by simp [hd'])) d.2 g3 p1 hp1
    refine ⟨q, ?_, hq2, ?_, ?_, ?_⟩
    · rw [runA_skipL p ws0 _ hp.1.wf.inv (by rw [hp.1.cs]; rfl) h0]
      have e : streamWire (d :: ds) ++ fin = d.1.wire ++ (d.2 ++ (streamWire ds ++ fin)) := by
        simp [streamWire_cons]
      rw [e, hr, hq1]
    · rw [hq3, he, streamEventsL_cons]; simp
    · rw [hq4, hp1.1.clean.2, hp.1.clean.2]
    · rw [hq5, hp1.2, hp.2]

end SF.Json.ParseP
