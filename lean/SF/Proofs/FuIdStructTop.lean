/-
  C11, DIRECT path, composed statement for STRUCT types whose fields are of primitive kind
  (continuation of SF/Proofs/FuIdTop.lean; helpers SF/Proofs/FuIdStruct{Fold,Run,Agree}.lean).

  `fold_unfold_struct_prim`: for every struct type `S` of the fold universe (`goodT`; named or not) whose
  fields are, one by one (`Desc fs ds`, in terms of `fieldKind` = the DOCUMENTED tag grammar),
    * `FD.drop p`   — dropped: unexported, `-`, `omit` (any tag otherwise), of scalar type `p`, or
    * `FD.mem nm p` — a plain member `nm` (tag name or lower-cased field name; no `omitempty`, no `inline`)
                      of scalar type `p` (bool, string, every integer width, float32/64),
  and EVERY value `(v₁, …, vₙ)` of `S` (`Vals`: one value per field, integers in range):
    (a) the translation exists (`htr`, checkable by `rfl`),  (b) `SetTarget` of the zero value is accepted,
    (c) the fold succeeds,  (d) every token is accepted,
    (e) the target is EXACTLY the translated struct: members hold their value — `int` travels as `OnInt64`,
        a float32 member holding a SIGNALLING NaN comes back QUIETED (`trPtrElem`: `float32(v.Float())` in
        `reFoldFloat32`, as behind pointers) — dropped fields hold the zero value of the fresh target; the
        Unfolder is idle again (all six stacks), nothing changed but target / env / reg (set by `SetTarget`),
    (f) `agreeF "direct" 1000 S v (back c1.target) = true`, under the side condition `hq` that no float32
        member holds a signalling NaN (`field_side_condition`) — as for `*float32` in `fold_unfold_ptr`.

  HYPOTHESES ABOUT THE UNFOLD SIDE of the translated type `ut` (all checkable by evaluation / `rfl`, none about
  values): `hcomp` (the type compiles to the field table `fields`), `hFM` (the table agrees with the member list
  `sfOf ds 0` of the description and each entry has the store lemma: `fieldOK_prim`), `hz` / `hv0` (the zero value
  is the struct of scalar zeros, laid out like `ut`), `hnd` (member names pairwise distinct — FORCED: with two
  members of one name `SetTarget` refuses the type, errDuplicateField, see UnfStructValTop.lean).
  `hFM`, `hz`, `hv0`, `hnd`, `htr`, `Desc` are PROVED below for `struct{A int; b string}` and for the menagerie's
  `Inner = struct{X int; Y string "why"}` (`fold_unfold_T3`, `fold_unfold_Inner`); `hcomp` stays a hypothesis there: `Unf.parseTags` trims with
  `String.trimAscii`, which the kernel cannot evaluate (checked with `#eval`, see the end of this file).
-/
import SF.Proofs.FuIdStructAgree
import SF.Proofs.FuIdTop
import SF.Proofs.FoldExamples
namespace SF.Props.FuId
open SF SF.Gotype SF.Gotype.Fold SF.FoldProofs SF.FuId
open SF.Unf (Ctx newUnfolder setTarget typeFuel)
open SF.Ops.Unf (xevToUEvs)
open SF.Ops.Fu (feed agreeF)
open SF.UnfProofs.StructVal (FM Shaped fieldOK_prim)

/-- STAGE 5 — structs with fields of primitive kind (dropped fields and plain members, any tags that amount to
that), every value. -/
theorem fold_unfold_struct_prim (o : FoldOpts) (hfail : o.failAt = none) (S : GoType) (fs : List Field)
    (ds : List FD) (vs : List GoVal)
    (hg : goodT [] S = true) (hu : S.under = .struct fs) (hd : Desc fs ds) (hv : Vals ds vs)
    (ut : Unf.GoType) (nm : String) (ufs : List (String × String × Unf.GoType)) (fields : Unf.Fields) (R : Unf.Reg)
    (htr : Unf.Tr.trType S = some ut) (hS : ut.un Unf.Tr.fuTable = .struct nm ufs)
    (hcomp : Unf.lookupReflUnfolder Unf.Tr.fuTable typeFuel [] newUnfolder.reg ut = .ok (.struct fields, R))
    (hFM : FM Unf.Tr.fuTable ut fields (sfOf ds 0))
    (hnd : ((sfOf ds 0).map (·.1)).Nodup)
    (hz : Unf.zero Unf.Tr.fuTable ut = .struct (zerosOf ds))
    (hv0 : Shaped Unf.Tr.fuTable ut (Unf.zero Unf.Tr.fuTable ut)) :
    ∃ c0 c1,
      Unf.Tr.trType S = some ut ∧
      setTarget Unf.Tr.fuTable ut (Unf.zero Unf.Tr.fuTable ut) newUnfolder = .ok c0 ∧
      (impl o S (.struct vs)).res = .ok ∧
      feed c0 ((impl o S (.struct vs)).evs.map xevToUEvs) = (c1, none) ∧
      c1.target = .struct (trFields ds vs) ∧
      c1 = { newUnfolder with target := c1.target, env := Unf.Tr.fuTable, reg := R, cells := c1.cells,
                              keyCache := c1.keyCache } ∧
      c1.depths = [0, 0, 0, 0, 0, 0] ∧
      ((∀ d v, (d, v) ∈ ds.zip vs → trField d v = trFieldX d v) →
        agreeF "direct" 1000 S (.struct vs) (back c1.target) = true) := by
  obtain ⟨c0, cells', kc', h1, h2, h3⟩ :=
    struct_run o hfail S fs ds vs hg hu hd hv ut nm ufs fields R hS hcomp hFM hnd hz hv0
  exact ⟨c0, _, htr, h2, h1, h3, rfl, rfl, rfl, fun hq => agree_struct 998 S fs ds vs hu hd hv hq⟩

/-- the same for an UNNAMED struct type: `goodT` follows from the description of the fields -/
theorem fold_unfold_struct_prim_unnamed (o : FoldOpts) (hfail : o.failAt = none) (fs : List Field)
    (ds : List FD) (vs : List GoVal) (hd : Desc fs ds) (hv : Vals ds vs)
    (ut : Unf.GoType) (nm : String) (ufs : List (String × String × Unf.GoType)) (fields : Unf.Fields) (R : Unf.Reg)
    (htr : Unf.Tr.trType (.struct fs) = some ut) (hS : ut.un Unf.Tr.fuTable = .struct nm ufs)
    (hcomp : Unf.lookupReflUnfolder Unf.Tr.fuTable typeFuel [] newUnfolder.reg ut = .ok (.struct fields, R))
    (hFM : FM Unf.Tr.fuTable ut fields (sfOf ds 0))
    (hnd : ((sfOf ds 0).map (·.1)).Nodup)
    (hz : Unf.zero Unf.Tr.fuTable ut = .struct (zerosOf ds))
    (hv0 : Shaped Unf.Tr.fuTable ut (Unf.zero Unf.Tr.fuTable ut)) :
    ∃ c0 c1,
      setTarget Unf.Tr.fuTable ut (Unf.zero Unf.Tr.fuTable ut) newUnfolder = .ok c0 ∧
      (impl o (.struct fs) (.struct vs)).res = .ok ∧
      feed c0 ((impl o (.struct fs) (.struct vs)).evs.map xevToUEvs) = (c1, none) ∧
      c1.target = .struct (trFields ds vs) ∧ c1.depths = [0, 0, 0, 0, 0, 0] ∧
      ((∀ d v, (d, v) ∈ ds.zip vs → trField d v = trFieldX d v) →
        agreeF "direct" 1000 (.struct fs) (.struct vs) (back c1.target) = true) := by
  obtain ⟨c0, c1, _, h2, h3, h4, h5, _, h7, h8⟩ :=
    fold_unfold_struct_prim o hfail (.struct fs) fs ds vs (good_of_desc [] fs ds hd) rfl hd hv ut nm ufs fields R
      htr hS hcomp hFM hnd hz hv0
  exact ⟨c0, c1, h2, h3, h4, h5, h7, h8⟩

/-- the side condition of (f) holds for every field but a float32 member holding a NaN -/
theorem struct_side_condition (d : FD) (v : GoVal) (h : d.prim ≠ .f32 ∨ isNaN32 (getF32 v) = false) :
    trField d v = trFieldX d v := field_side_condition d v h

/-! ## unconditional instances (but for `hcomp`) -/

open SF.FoldProofs.Examples in
/-- `struct{A int; b string}` (`FoldExamples.T3`): `A` is the member "a", `b` is unexported -/
def dsT3 : List FD := [.mem [97] (.num .int), .drop .string]

open SF.FoldProofs.Examples in
theorem descT3 : Desc [fA, fb] dsT3 :=
  .cons ⟨kA, rfl⟩ (.cons ⟨kb, rfl⟩ .nil)

def utT3 : Unf.GoType := .struct "" [("A", "", .int .int), ("b", "", .string)]
def fieldsT3 : Unf.Fields := [([97], [0], .lifted (.prim (.num .int)))]

theorem fmT3 : FM Unf.Tr.fuTable utT3 fieldsT3 (sfOf dsT3 0) :=
  .cons _ _ _ _ _ _ (fieldOK_prim _ _ _ rfl (by decide) (by intro nk h; cases h; rfl))
    (SF.Unf.Str.tyAtB_sound [0] _ _ rfl) .nil

open SF.FoldProofs.Examples in
/-- `struct{A int; b string}`, EVERY value `(a, s)`, `a` an `int`: the new value is `(a, "")` — `b` is not
exported and stays zero.  Only `hcomp` (the compiled table, `#eval`-checked below) is assumed. -/
theorem fold_unfold_T3 (o : FoldOpts) (hfail : o.failAt = none) (vs : List GoVal) (hv : Vals dsT3 vs)
    (hcomp : Unf.lookupReflUnfolder Unf.Tr.fuTable typeFuel [] newUnfolder.reg utT3 = .ok (.struct fieldsT3, [])) :
    ∃ c0 c1,
      setTarget Unf.Tr.fuTable utT3 (Unf.zero Unf.Tr.fuTable utT3) newUnfolder = .ok c0 ∧
      (impl o T3 (.struct vs)).res = .ok ∧
      feed c0 ((impl o T3 (.struct vs)).evs.map xevToUEvs) = (c1, none) ∧
      c1.target = .struct (trFields dsT3 vs) ∧ c1.depths = [0, 0, 0, 0, 0, 0] ∧
      agreeF "direct" 1000 T3 (.struct vs) (back c1.target) = true := by
  obtain ⟨c0, c1, h2, h3, h4, h5, h7, h8⟩ :=
    fold_unfold_struct_prim_unnamed o hfail [fA, fb] dsT3 vs descT3 hv utT3 "" _ fieldsT3 [] rfl rfl hcomp fmT3
      (by decide) rfl (SF.Unf.Str.hasTyB_sound _ _ _ (by decide +kernel))
  refine ⟨c0, c1, h2, h3, h4, h5, h7, h8 ?_⟩
  intro d v hm
  apply struct_side_condition
  left
  cases hv with
  | cons _ hv' => cases hv' with
    | cons _ hv'' =>
      cases hv''
      simp only [dsT3, List.zip_cons_cons, List.zip_nil_right, List.mem_cons, List.not_mem_nil, or_false,
        Prod.mk.injEq] at hm
      rcases hm with ⟨rfl, _⟩ | ⟨rfl, _⟩ <;> simp [FD.prim]

/-! ## non-vacuity -/

/- the hypotheses of `fold_unfold_struct_prim` about types and values hold for `struct{A int; b string}` and the
value `(5, "x")` (`FoldExamples.v3`); the translated struct is `(int 5, "")` -/
open SF.FoldProofs.Examples in
example : Desc [fA, fb] dsT3 ∧ Vals dsT3 [.int 5, .str [120]] ∧ Unf.Tr.trType T3 = some utT3 ∧
    FM Unf.Tr.fuTable utT3 fieldsT3 (sfOf dsT3 0) ∧ ((sfOf dsT3 0).map (·.1)).Nodup ∧
    Unf.zero Unf.Tr.fuTable utT3 = .struct (zerosOf dsT3) ∧
    Shaped Unf.Tr.fuTable utT3 (Unf.zero Unf.Tr.fuTable utT3) ∧
    trFields dsT3 [.int 5, .str [120]] = [.int .int 5, .str []] :=
  ⟨descT3, .cons (by decide +kernel) (.cons (by decide +kernel) .nil), rfl, fmT3, by decide, rfl,
    SF.Unf.Str.hasTyB_sound _ _ _ (by decide +kernel), rfl⟩

/- the Unfold half of the pipeline evaluated by the kernel: from `unfolderStruct.initState` with the compiled
table `fieldsT3`, the tokens `{ "a": int64(5) }` Fold delivers for `(5, "x")` leave `(5, "")`, idle -/
example :
    (match Unf.run typeFuel (Unf.UTree.obj 1 0 (memTrees dsT3 [.int 5, .str [120]])).events
        (SF.UnfProofs.StructVal.startCtx newUnfolder (fun _ => none) [] fieldsT3 (.struct [.int .int 0, .str []])) with
     | .ok _ c₁ => c₁.depths == [0, 0, 0, 0, 0, 0] &&
        (match c₁.target with | .struct [.int .int 5, .str []] => true | _ => false)
     | _ => false) = true := by decide +kernel

/-! ## the menagerie's `Inner` (a NAMED struct type with a tag name); the value has MinInt64 in an `int` -/

section Inner
open SF.FoldProofs.Examples

theorem splitOn_why : "why".splitOn "," = ["why"] := by
  unfold String.splitOn
  simp only [comma_ne, Bool.false_eq_true, if_false]
  iterate 4 (rw [String.splitOnAux]; simp (decide := true) only [if_true, if_false])

theorem pt_why : (Rules.parseTag "why").dash = false ∧ (Rules.parseTag "why").inline = false ∧
    (Rules.parseTag "why").omitEmpty = false ∧ (Rules.parseTag "why").omit' = false ∧
    (Rules.parseTag "why").name = "why" := by
  unfold Rules.parseTag
  simp only [splitOn_why, List.headD_cons, List.drop_one, List.tail_cons, List.map_nil]
  decide +kernel

abbrev fX' : Field := .mk "X" (.int .int) "" false
abbrev fY' : Field := .mk "Y" .string "why" false

theorem kX' : fieldKind fX' = .plain [120] := by
  rw [fieldKind_untagged _ _ _ (by decide +kernel)]; decide +kernel
theorem kY' : fieldKind fY' = .plain [119, 104, 121] := by
  unfold fieldKind fieldName
  obtain ⟨h1, h2, h3, h4, h5⟩ := pt_why
  have hex : Field.exported fY' = true := by decide +kernel
  simp only [Field.tag, hex, h1, h2, h3, h4, h5]
  decide +kernel

/-- the menagerie's `Inner = struct{X int; Y string "why"}` -/
def tInner : GoType := .named "Inner" {} (.struct [fX', fY'])
def dsInner : List FD := [.mem [120] (.num .int), .mem [119, 104, 121] .string]
theorem descInner : Desc [fX', fY'] dsInner := .cons ⟨kX', rfl⟩ (.cons ⟨kY', rfl⟩ .nil)
theorem goodInner : goodT [] tInner = true := by
  have := good_of_desc ["Inner"] _ _ descInner
  simp only [tInner, goodT, this]
  decide +kernel
def utInner : Unf.GoType := .struct "Inner" [("X", "", .int .int), ("Y", "why", .string)]
def fieldsInner : Unf.Fields :=
  [([120], [0], .lifted (.prim (.num .int))), ([119, 104, 121], [1], .lifted (.prim .string))]
theorem fmInner : FM Unf.Tr.fuTable utInner fieldsInner (sfOf dsInner 0) :=
  .cons _ _ _ _ _ _ (fieldOK_prim _ _ _ rfl (by decide) (by intro nk h; cases h; rfl))
    (SF.Unf.Str.tyAtB_sound [0] _ _ rfl) <|
  .cons _ _ _ _ _ _ (fieldOK_prim _ _ _ rfl (by decide) (by intro nk h; cases h))
    (SF.Unf.Str.tyAtB_sound [1] _ _ rfl) .nil

theorem fold_unfold_Inner (o : FoldOpts) (hfail : o.failAt = none) (vs : List GoVal) (hv : Vals dsInner vs)
    (R : Unf.Reg)
    (hcomp : Unf.lookupReflUnfolder Unf.Tr.fuTable typeFuel [] newUnfolder.reg utInner = .ok (.struct fieldsInner, R)) :
    ∃ c0 c1,
      Unf.Tr.trType tInner = some utInner ∧
      setTarget Unf.Tr.fuTable utInner (Unf.zero Unf.Tr.fuTable utInner) newUnfolder = .ok c0 ∧
      (impl o tInner (.struct vs)).res = .ok ∧
      feed c0 ((impl o tInner (.struct vs)).evs.map xevToUEvs) = (c1, none) ∧
      c1.target = .struct (trFields dsInner vs) ∧ c1.depths = [0, 0, 0, 0, 0, 0] ∧
      agreeF "direct" 1000 tInner (.struct vs) (back c1.target) = true := by
  obtain ⟨c0, c1, h1, h2, h3, h4, h5, _, h7, h8⟩ :=
    fold_unfold_struct_prim o hfail tInner [fX', fY'] dsInner vs goodInner rfl descInner hv utInner "Inner" _
      fieldsInner R rfl rfl hcomp fmInner (by decide) rfl (SF.Unf.Str.hasTyB_sound _ _ _ (by decide +kernel))
  refine ⟨c0, c1, h1, h2, h3, h4, h5, h7, h8 ?_⟩
  intro d v hm
  apply struct_side_condition
  left
  cases hv with
  | cons _ hv' => cases hv' with
    | cons _ hv'' =>
      cases hv''
      simp only [dsInner, List.zip_cons_cons, List.zip_nil_right, List.mem_cons, List.not_mem_nil, or_false,
        Prod.mk.injEq] at hm
      rcases hm with ⟨rfl, _⟩ | ⟨rfl, _⟩ <;> simp [FD.prim]

example : Vals dsInner [.int (-9223372036854775808), .str [104, 105]] ∧
    trFields dsInner [.int (-9223372036854775808), .str [104, 105]] =
      [.int .int (-9223372036854775808), .str [104, 105]] :=
  ⟨.cons (by decide +kernel) (.cons (by decide +kernel) .nil), rfl⟩

end Inner

/- `hcomp`, evaluated (not by the kernel: `Unf.parseTags` trims with `String.trimAscii`):
     #eval (match Unf.lookupReflUnfolder Unf.Tr.fuTable typeFuel [] newUnfolder.reg utT3 with
            | .ok (.struct fs, R) => some (fs.map (fun x => (x.1, x.2.1)), R.length) | _ => none)
     -- some ([([97], [0])], 0)
   and `Fu.model T3 (.struct [.int 5, .str [120]]) "direct"` = "(5,s:)|ok".
   For `utInner`: the table is `fieldsInner` (`([120],[0],int), ([119,104,121],[1],string)`), `R` = one entry "Inner";
   `menagerie.lookup "Inner"` is `tInner`; `Fu.model tInner (.struct [.int (-5), .str [104, 105]]) "direct"` =
   "(-5,s:6869)|ok". -/

/-! ## LEFT UNPROVED (intended statements)

  * `hcomp` for all `S` in the scope of `fold_unfold_struct_prim`:
      theorem compile_struct_prim (fs ds) (hd : Desc fs ds) (hnd : ((sfOf ds 0).map (·.1)).Nodup)
          (htr : Unf.Tr.trType (.struct fs) = some ut) :
          ∃ fields, Unf.lookupReflUnfolder Unf.Tr.fuTable typeFuel [] [] ut = .ok (.struct fields, []) ∧
            FM Unf.Tr.fuTable ut fields (sfOf ds 0)
    needs the agreement of THREE tag parsers on the tags in scope: `Rules.parseTag` (behind `fieldKind`),
    `Fold.parseTags` (bridged by `FoldTagRules.tag_rules_agree`) and `Unf.parseTags` (`String.trimAscii` instead of
    `trimSpace`; no bridge lemma exists), and of `toLower` (Fold) with `toLowerAscii` (Unfold) on field names.
    They DISAGREE outside the scope: a tag with a leading blank before `-` (UnfStructValTop.lean).
  * omitempty members (`FK.omitEmpty`): the member is left out when empty (`applyResolvers`), the target keeps the
    zero value, which equals the folded value — one more `FD` constructor, `memEvs` / `memTrees` conditional on
    `isEmptyF`; not started.
  * STAGE 2 of the task, nested structs (plain struct-typed fields via `fieldOK_struct`, inlined ones via longer index
    paths in `sfOf`): `FD` becomes a tree; `seq_fields` / `assign_members` need the recursive versions (`run_fieldInline`,
    `run_fieldsFold`; `GoVal.get/set` on paths of length > 1); not started. -/

end SF.Props.FuId
