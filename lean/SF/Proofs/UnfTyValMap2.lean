/-
  C13 for `map[string]T` targets, specification side.
-/
import SF.Proofs.UnfTyValMap
namespace SF.Unf
open SF SF.Unf.Spec

/-- entry by entry: same keys, and what the kind converts is what the specification assigns -/
inductive MemsOK (nb : Prop) : List (Bytes × GoVal) → List (Bytes × GoVal) → Prop
  | nil : MemsOK nb [] []
  | cons {key : Bytes} {w w' : GoVal} {a b : List (Bytes × GoVal)} (h1 : printEq w w') (h2 : nb → w = w')
      (h : MemsOK nb a b) : MemsOK nb ((key, w) :: a) ((key, w') :: b)

theorem MemsOK.refl (nb : Prop) : ∀ a : List (Bytes × GoVal), MemsOK nb a a
  | [] => MemsOK.nil
  | (_, _) :: r => MemsOK.cons rfl (fun _ => rfl) (MemsOK.refl nb r)

theorem MemsOK.any_key {nb : Prop} {a b : List (Bytes × GoVal)} (h : MemsOK nb a b) (key : Bytes) :
    a.any (·.1 == key) = b.any (·.1 == key) := by
  induction h with
  | nil => rfl
  | cons _ _ _ ih => simp only [List.any_cons, ih]

theorem MemsOK.append {nb : Prop} {a b a' b' : List (Bytes × GoVal)} (h : MemsOK nb a b) (h' : MemsOK nb a' b') :
    MemsOK nb (a ++ a') (b ++ b') := by
  induction h with
  | nil => exact h'
  | cons h1 h2 _ ih => exact MemsOK.cons h1 h2 ih

theorem MemsOK.repl {nb : Prop} {a b : List (Bytes × GoVal)} (h : MemsOK nb a b) (key : Bytes) (w w' : GoVal)
    (h1 : printEq w w') (h2 : nb → w = w') :
    MemsOK nb (a.map fun kv => if kv.1 == key then (key, w) else kv)
      (b.map fun kv => if kv.1 == key then (key, w') else kv) := by
  induction h with
  | nil => exact MemsOK.nil
  | @cons k0 v v' a b hv1 hv2 _ ih =>
    simp only [List.map_cons]
    by_cases hk : (k0 == key) = true
    · simp only [hk, if_true]
      exact MemsOK.cons h1 h2 ih
    · simp only [hk]
      exact MemsOK.cons hv1 hv2 ih

theorem MemsOK.set {nb : Prop} {a b : List (Bytes × GoVal)} (h : MemsOK nb a b) (key : Bytes) (w w' : GoVal)
    (h1 : printEq w w') (h2 : nb → w = w') : MemsOK nb (mapSet a key w) (putMember b key w') := by
  unfold mapSet putMember
  rw [h.any_key key]
  split
  · exact h.repl key w w' h1 h2
  · exact h.append (MemsOK.cons h1 h2 MemsOK.nil)

theorem MemsOK.eq {nb : Prop} {a b : List (Bytes × GoVal)} (h : MemsOK nb a b) (hnb : nb) : a = b := by
  induction h with
  | nil => rfl
  | cons _ h2 _ ih => rw [h2 hnb, ih]

theorem MemsOK.isEmpty {nb : Prop} {a b : List (Bytes × GoVal)} (h : MemsOK nb a b) : a.isEmpty = b.isEmpty := by
  cases h <;> rfl

theorem printMems_normMems {nb : Prop} {a b : List (Bytes × GoVal)} (h : MemsOK nb a b) :
    printMems (normMems a) = printMems (normMems b) := by
  induction h with
  | nil => rfl
  | cons h1 _ _ ih =>
    simp only [normMems, printMems]
    rw [ih]
    congr 2

/-- the members of an object of scalars as specification trees -/
def memberTrees : List (Bytes × Sc) → List (Bytes × STree)
  | [] => []
  | (key, s) :: r => (key, .sc s) :: memberTrees r

theorem assignEntries_scalars (tbl : TypeTable) (ip : Bool) (e : GoType) (k : PK) (hk : PK.ofExact? e = some k)
    (hki : k ≠ .ifc) :
    ∀ (mems : List (Bytes × Sc)) (n : Nat) (acc acc' wantMs : List (Bytes × GoVal)),
      MemsOK (∀ nk, e = .int nk → normKind nk = nk) acc acc' → (∀ m ∈ mems, m.2.inRange = true) →
      assignEntries tbl ip n e acc' (memberTrees mems) = some wantMs →
      ∃ fin, putAll k mems acc = some fin ∧ MemsOK (∀ nk, e = .int nk → normKind nk = nk) fin wantMs := by
  intro mems
  induction mems with
  | nil =>
    intro n acc acc' wantMs hacc _ h
    cases n with
    | zero => simp [assignEntries] at h
    | succ n =>
      simp [memberTrees, assignEntries] at h
      subst h
      exact ⟨acc, rfl, hacc⟩
  | cons mem r ih =>
    intro n acc acc' wantMs hacc hin h
    obtain ⟨key, s⟩ := mem
    cases n with
    | zero => simp [assignEntries] at h
    | succ n =>
      simp only [memberTrees, assignEntries] at h
      split at h
      · rename_i v hv
        cases n with
        | zero => simp [assign] at hv
        | succ n =>
          obtain ⟨w, hc, hsame, heq⟩ := assign_scalar_conv tbl ip n e k _ v s hk hki (hin (key, s) List.mem_cons_self) hv
          obtain ⟨fin, hfin, hall⟩ := ih (n + 1) (mapSet acc key w) (putMember acc' key v) wantMs
            (hacc.set key w v ((sameVal_iff _ _).mp hsame) heq) (fun m hm => hin m (List.mem_cons_of_mem _ hm)) h
          exact ⟨fin, by simp [putAll, hc, hfin], hall⟩
      · cases h

theorem sameVal_map (nb : Prop) (et e : GoType) (a b : List (Bytes × GoVal)) (h : MemsOK nb a b) :
    sameVal (.map et a) (.map e b) = true := by
  rw [sameVal_iff]
  unfold printEq
  rw [norm_map, norm_map, h.isEmpty]
  cases hb : b.isEmpty with
  | true => simp [GoVal.print]
  | false => simp [GoVal.print, printMems_normMems h]

theorem sameVal_mapNil (et e : GoType) : sameVal (.mapNil et) (.map e []) = true := by
  rw [sameVal_iff]
  unfold printEq
  simp [norm_map, norm_mapNil, GoVal.print]

/-- the entries the specification starts from -/
def specOlds (v : GoVal) : List (Bytes × GoVal) :=
  match v with
  | .map _ oms => oms
  | _ => []

/-- `Spec.assign` for a map type on an object -/
theorem assign_map_obj (tbl : TypeTable) (ip : Bool) (n : Nat) (e : GoType) (old want : GoVal) (bt : Nat)
    (ms : List (Bytes × STree)) (ha : assign tbl ip (n + 1) (.map e) old (.obj bt ms) = some want) :
    ∃ wantMs, assignEntries tbl ip n e (specOlds old) ms = some wantMs ∧ want = .map e wantMs := by
  unfold assign at ha
  simp only [GoType.un, resolveFuel, GoType.under] at ha
  obtain ⟨wantMs, hx, hw⟩ := Option.map_eq_some_iff.mp ha
  exact ⟨wantMs, hx, hw.symm⟩

theorem olds_of_mapParts (v0 : GoVal) (et : GoType) (olds : List (Bytes × GoVal)) (h : mapParts v0 = some (et, olds)) :
    specOlds v0 = olds := by
  cases v0 <;> simp [mapParts] at h <;> simp [specOlds, h]

end SF.Unf
