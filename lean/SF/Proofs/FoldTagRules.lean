/-
  The tag parser of the code (`parseTags`, tags.go) against the documented tag grammar
  (`Rules.parseTag`), and the announced-length rule of struct folders.  Restated as property
  theorems in SF/Props/C12.lean.
-/
import SF.Gotype.Fold
import SF.Gotype.Rules
namespace SF.FoldTagRules
open SF SF.Gotype

/-- one step of the code's left-to-right scan over the options -/
def scanStep (o : Fold.TagOpts) (opt : String) : Fold.TagOpts :=
  let t := Fold.trimSpace opt
  if t == "squash" || t == "inline" then { o with squash := true }
  else if t == "omitempty" then { o with omitEmpty := true }
  else if t == "omit" then { o with omitF := true }
  else o

theorem scanStep_flags (o : Fold.TagOpts) (x : String) :
    (scanStep o x).squash = (o.squash || ("inline" == Fold.trimSpace x || "squash" == Fold.trimSpace x)) ∧
    (scanStep o x).omitEmpty = (o.omitEmpty || "omitempty" == Fold.trimSpace x) ∧
    (scanStep o x).omitF = (o.omitF || "omit" == Fold.trimSpace x) := by
  unfold scanStep
  simp only []
  by_cases h1 : Fold.trimSpace x = "squash"
  · simp [h1]
  · by_cases h2 : Fold.trimSpace x = "inline"
    · simp [h2]
    · by_cases h3 : Fold.trimSpace x = "omitempty"
      · simp [h3]
      · by_cases h4 : Fold.trimSpace x = "omit"
        · simp [h4]
        · simp [h1, h2, h3, h4, Ne.symm h1, Ne.symm h2, Ne.symm h3, Ne.symm h4]

/-- the option flags computed by the code's scan = membership tests on the trimmed options -/
theorem scan_flags (opts : List String) (o : Fold.TagOpts) :
    (opts.foldl scanStep o).squash =
      (o.squash || ((opts.map Fold.trimSpace).contains "inline" || (opts.map Fold.trimSpace).contains "squash")) ∧
    (opts.foldl scanStep o).omitEmpty = (o.omitEmpty || (opts.map Fold.trimSpace).contains "omitempty") ∧
    (opts.foldl scanStep o).omitF = (o.omitF || (opts.map Fold.trimSpace).contains "omit") := by
  induction opts generalizing o with
  | nil => simp
  | cons x xs ih =>
    obtain ⟨a, b, c⟩ := ih (scanStep o x)
    obtain ⟨a', b', c'⟩ := scanStep_flags o x
    simp only [List.foldl_cons, List.map_cons, List.contains_cons]
    refine ⟨?_, ?_, ?_⟩
    · rw [a, a']
      generalize o.squash = p1
      generalize ("inline" == Fold.trimSpace x) = p2
      generalize ("squash" == Fold.trimSpace x) = p3
      generalize (List.map Fold.trimSpace xs).contains "inline" = p4
      generalize (List.map Fold.trimSpace xs).contains "squash" = p5
      cases p1 <;> cases p2 <;> cases p3 <;> cases p4 <;> cases p5 <;> rfl
    · rw [b, b', Bool.or_assoc]
    · rw [c, c', Bool.or_assoc]

theorem trim_eq (s : String) : Rules.trim s = Fold.trimSpace s := rfl

/-- C12 (tag rules): for EVERY tag string the code's tag parser and the documented tag grammar
agree on all four decisions: dropped (`-` or `omit`), and — unless the tag is `-` — the member
name, inlined (`inline`/`squash`), `omitempty`; independent of order, repetition, spacing and
unknown options -/
theorem tag_rules_agree (raw : String) :
    (Fold.parseTags raw).2.omitF = ((Rules.parseTag raw).dash || (Rules.parseTag raw).omit') ∧
    ((Rules.parseTag raw).dash = false →
      (Fold.parseTags raw).1 = (Rules.parseTag raw).name ∧
      (Fold.parseTags raw).2.squash = (Rules.parseTag raw).inline ∧
      (Fold.parseTags raw).2.omitEmpty = (Rules.parseTag raw).omitEmpty) := by
  unfold Fold.parseTags Rules.parseTag
  cases hs : raw.splitOn "," with
  | nil =>
    have : ("" == "-") = false := by decide
    simp only [List.headD_nil, this, Bool.false_eq_true, if_false, List.drop_nil, List.map_nil,
      List.contains_nil, Bool.or_self]
    have te : Rules.trim "" = "" := by rfl
    simp [te]
  | cons s0 rest =>
    simp only [List.headD_cons, List.drop_one, List.tail_cons]
    by_cases hd : (s0 == "-") = true
    · simp [hd]
    · simp only [hd, Bool.false_eq_true, if_false]
      obtain ⟨a, b, c⟩ := scan_flags rest {}
      have e : (fun (o : Fold.TagOpts) opt =>
          let t := Fold.trimSpace opt
          if t == "squash" || t == "inline" then { o with squash := true }
          else if t == "omitempty" then { o with omitEmpty := true }
          else if t == "omit" then { o with omitF := true }
          else o) = scanStep := rfl
      have tm : List.map Rules.trim rest = List.map Fold.trimSpace rest := rfl
      rw [e, tm]
      refine ⟨?_, fun _ => ⟨rfl, ?_, ?_⟩⟩
      · exact c
      · exact a
      · exact b

/-- a struct folder announces a definite member count ONLY IF no kept field is `omitempty` or
inlined (their contribution is known only at fold time); otherwise it announces -1 -/
theorem announced_length_rule (fs : List Field) (n : Nat) :
    (Fold.structFoldLen fs n = -1 ∧
      ∃ f ∈ fs, (Fold.parseTags f.tag).2.omitF = false ∧
        ((Fold.parseTags f.tag).2.squash = true ∨ (Fold.parseTags f.tag).2.omitEmpty = true)) ∨
    (Fold.structFoldLen fs n = n ∧
      ∀ f ∈ fs, (Fold.parseTags f.tag).2.omitF = false →
        (Fold.parseTags f.tag).2.squash = false ∧ (Fold.parseTags f.tag).2.omitEmpty = false) := by
  unfold Fold.structFoldLen
  by_cases h : fs.any (fun f => let o := (Fold.parseTags f.tag).2; !o.omitF && (o.squash || o.omitEmpty)) = true
  · left
    simp only [h, if_true, true_and]
    obtain ⟨f, hf, hp⟩ := List.any_eq_true.mp h
    refine ⟨f, hf, ?_⟩
    simp only [Bool.and_eq_true, Bool.not_eq_true', Bool.or_eq_true] at hp
    exact hp
  · right
    simp only [h, Bool.false_eq_true, if_false, true_and]
    intro f hf hk
    have hn : ¬ ((fun f => let o := (Fold.parseTags f.tag).2; !o.omitF && (o.squash || o.omitEmpty)) f = true) := by
      intro hc; exact h (List.any_eq_true.mpr ⟨f, hf, hc⟩)
    simp only [hk, Bool.not_false, Bool.true_and, Bool.or_eq_true, not_or, Bool.not_eq_true] at hn
    exact hn

end SF.FoldTagRules
