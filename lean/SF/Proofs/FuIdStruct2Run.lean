/-
  C11, direct path, STRUCT types with fields of primitive kind and OMITEMPTY members — UNFOLD side and the
  composition (continuation of FuIdStructRun.lean): an `omitempty` member that is empty is missing from the
  object; the specification (`Spec.assignMembers`) leaves the field of the fresh target alone: it keeps the zero
  value, which IS the translated value ("" for the only scalar type with an empty value, string).
-/
import SF.Proofs.FuIdStruct2Fold
namespace SF.FuId
open SF SF.Gotype SF.Gotype.Fold SF.FoldProofs
open SF.Unf (Sc UEv PK Ctx newUnfolder setTarget typeFuel UTree eventsMems toSMems Step)
open SF.Unf.Spec (assign assignMembers norm normList)
open SF.Ops.Unf (xevToUEvs evToUEv runToken)
open SF.Ops.Fu (feed)

/-- translation of a field value: a dropped field keeps the zero value of the fresh target -/
def trField2 : FD2 → GoVal → Unf.GoVal
  | .drop p, _ => zeroPrim p
  | .mem _ p, v => trPtrElem p v
  | .oe _ p, v => trPtrElem p v

def trFields2 : List FD2 → List GoVal → List Unf.GoVal
  | d :: ds, v :: vs => trField2 d v :: trFields2 ds vs
  | _, _ => []

def zerosOf2 (ds : List FD2) : List Unf.GoVal := ds.map fun d => zeroPrim d.prim

/-- the members of the object Fold delivers -/
def memTrees2 : List FD2 → List GoVal → List (Bool × Bytes × UTree)
  | .drop _ :: ds, _ :: vs => memTrees2 ds vs
  | .mem nm p :: ds, v :: vs => (false, nm, .scalar (scOfPtr p v)) :: memTrees2 ds vs
  | .oe nm p :: ds, v :: vs =>
    if isEmptyP p v then memTrees2 ds vs else (false, nm, .scalar (scOfPtr p v)) :: memTrees2 ds vs
  | _, _ => []

/-- the field list of the specification -/
def sfOf2 : List FD2 → Nat → Unf.SV.SpecFields
  | [], _ => []
  | .drop _ :: r, i => sfOf2 r (i + 1)
  | .mem nm p :: r, i => (nm, [i], uPrimTy p) :: sfOf2 r (i + 1)
  | .oe nm p :: r, i => (nm, [i], uPrimTy p) :: sfOf2 r (i + 1)

/-! ## tokens -/

theorem memEvs2_tokens : ∀ (ds : List FD2) (vs : List GoVal), Vals2 ds vs →
    (memEvs2 ds vs).map xevToUEvs = (eventsMems (memTrees2 ds vs)).map fun e => [e] := by
  intro ds vs h
  induction h with
  | nil => rfl
  | @cons d v ds vs _ _ ih =>
    cases d with
    | drop p => simpa [memEvs2, memTrees2] using ih
    | mem nm p =>
      simp only [memEvs2, memTrees2, List.map_cons, eventsMems, UTree.events, xevToUEvs, evOfPrim_tok, ih]
      rfl
    | oe nm p =>
      by_cases he : isEmptyP p v = true
      · simpa [memEvs2, memTrees2, he] using ih
      · simp only [memEvs2, memTrees2, he, Bool.false_eq_true, if_false, List.map_cons, eventsMems, UTree.events,
          xevToUEvs, evOfPrim_tok, ih]
        rfl

theorem wf_scOfPtr (p : Prim) (v : GoVal) (hp : hasPrim p v = true) : (UTree.scalar (scOfPtr p v)).wf = true := by
  show (scOfPtr p v).inRange = true
  cases p with
  | num k =>
    cases v <;> simp [hasPrim] at hp
    show (if k == .int then NumKind.i64 else k).inRange _ = true
    split
    · rename_i hc; simp at hc; rw [hc] at hp; exact hp
    · exact hp
  | _ => rfl

theorem wf_memTrees2 : ∀ (ds : List FD2) (vs : List GoVal), Vals2 ds vs → ∀ m ∈ memTrees2 ds vs, m.2.2.wf = true := by
  intro ds vs h
  induction h with
  | nil => intro m hm; cases hm
  | @cons d v ds vs hp _ ih =>
    cases d with
    | drop p => simpa [memTrees2] using ih
    | mem nm p =>
      intro m hm
      simp only [memTrees2, List.mem_cons] at hm
      rcases hm with rfl | hm
      · exact wf_scOfPtr p v hp
      · exact ih m hm
    | oe nm p =>
      intro m hm
      by_cases he : isEmptyP p v = true
      · simp only [memTrees2, he, if_true] at hm
        exact ih m hm
      · simp only [memTrees2, he, Bool.false_eq_true, if_false, List.mem_cons] at hm
        rcases hm with rfl | hm
        · exact wf_scOfPtr p v hp
        · exact ih m hm

/-! ## the specification -/

/-- an empty `omitempty` scalar IS the zero value -/
theorem zero_of_empty (p : Prim) (v : GoVal) (he : isEmptyP p v = true) : zeroPrim p = trPtrElem p v := by
  cases p <;> simp [isEmptyP] at he
  simp [zeroPrim, trPtrElem, trPrim, he]

/-- one member assigned by the specification -/
theorem assign_one (tbl : Unf.TypeTable) (ip : Bool) (sfAll : Unf.SV.SpecFields) (hnd : (sfAll.map (·.1)).Nodup)
    (nm : Bytes) (p : Prim) (v : GoVal) (hp : hasPrim p v = true) (done zs : List Unf.GoVal) (z : Unf.GoVal)
    (hmem : (nm, [done.length], uPrimTy p) ∈ sfAll) (n' : Nat) (ms : List (Bool × Bytes × UTree)) :
    assignMembers tbl ip (n' + 1 + 1) sfAll (.struct (done ++ z :: zs))
        (toSMems ((false, nm, .scalar (scOfPtr p v)) :: ms)) =
      assignMembers tbl ip (n' + 1) sfAll (.struct ((done ++ [trPtrElem p v]) ++ zs)) (toSMems ms) := by
  have hfind := find_of_mem_nodup sfAll nm ([done.length], uPrimTy p) hnd hmem
  simp only [toSMems_cons]
  rw [assignMembers]
  simp only [hfind, List.map_cons, List.map_nil, UTree.toS]
  have hget : (Unf.GoVal.struct (done ++ z :: zs)).get [Step.field done.length] = some z := by
    simp [Unf.GoVal.get]
  have hset : (Unf.GoVal.struct (done ++ z :: zs)).set [Step.field done.length] (trPtrElem p v) =
      some (.struct (done ++ trPtrElem p v :: zs)) := by
    simp [Unf.GoVal.set]
  simp only [hget, assign_prim tbl ip n' p z v hp, hset]
  simp

theorem assign_members2 (tbl : Unf.TypeTable) (ip : Bool) (sfAll : Unf.SV.SpecFields)
    (hnd : (sfAll.map (·.1)).Nodup) :
    ∀ (ds : List FD2) (vs : List GoVal), Vals2 ds vs → ∀ (done : List Unf.GoVal) (n : Nat),
      (∀ x ∈ sfOf2 ds done.length, x ∈ sfAll) → (memTrees2 ds vs).length + 2 ≤ n →
      assignMembers tbl ip n sfAll (.struct (done ++ zerosOf2 ds)) (toSMems (memTrees2 ds vs)) =
          some (.struct (done ++ trFields2 ds vs)) := by
  intro ds vs h
  induction h with
  | nil =>
    intro done n _ hn
    obtain ⟨n', rfl⟩ : ∃ n', n = n' + 1 := ⟨n - 1, by omega⟩
    simp [memTrees2, toSMems, assignMembers, zerosOf2, trFields2]
  | @cons d v ds vs hp _ ih =>
    intro done n hsub hn
    have hz : zerosOf2 (d :: ds) = zeroPrim d.prim :: zerosOf2 ds := rfl
    rw [hz]
    cases d with
    | drop p =>
      have := ih (done ++ [zeroPrim p]) n
        (by intro x hx; apply hsub; simpa [sfOf2] using hx) (by simpa [memTrees2] using hn)
      simpa [memTrees2, trFields2, trField2, FD2.prim] using this
    | mem nm p =>
      have hlen : (memTrees2 ds vs).length + 3 ≤ n := by simpa [memTrees2] using hn
      obtain ⟨n', rfl⟩ : ∃ n', n = n' + 1 + 1 := ⟨n - 2, by omega⟩
      have := ih (done ++ [trPtrElem p v]) (n' + 1)
        (by intro x hx; apply hsub; simp only [sfOf2, List.mem_cons]; right; simpa using hx) (by omega)
      have hmem : (nm, [done.length], uPrimTy p) ∈ sfAll := hsub _ (by simp [sfOf2])
      simp only [memTrees2, FD2.prim]
      rw [assign_one tbl ip sfAll hnd nm p v hp done _ _ hmem, this]
      simp [trFields2, trField2]
    | oe nm p =>
      by_cases he : isEmptyP p v = true
      · have := ih (done ++ [zeroPrim p]) n
          (by intro x hx; apply hsub; simp only [sfOf2, List.mem_cons]; right; simpa using hx)
          (by simpa [memTrees2, he] using hn)
        simp only [memTrees2, he, if_true, FD2.prim]
        simpa [trFields2, trField2, zero_of_empty p v he] using this
      · have hlen : (memTrees2 ds vs).length + 3 ≤ n := by simpa [memTrees2, he] using hn
        obtain ⟨n', rfl⟩ : ∃ n', n = n' + 1 + 1 := ⟨n - 2, by omega⟩
        have := ih (done ++ [trPtrElem p v]) (n' + 1)
          (by intro x hx; apply hsub; simp only [sfOf2, List.mem_cons]; right; simpa using hx) (by omega)
        have hmem : (nm, [done.length], uPrimTy p) ∈ sfAll := hsub _ (by simp [sfOf2])
        simp only [memTrees2, he, Bool.false_eq_true, if_false, FD2.prim]
        rw [assign_one tbl ip sfAll hnd nm p v hp done _ _ hmem, this]
        simp [trFields2, trField2]

theorem isSc_trFields2 : ∀ (ds : List FD2) (vs : List GoVal), ∀ w ∈ trFields2 ds vs, isSc w = true
  | [], _, w, h => by simp [trFields2] at h
  | _ :: _, [], w, h => by simp [trFields2] at h
  | d :: ds, v :: vs, w, h => by
    simp only [trFields2, List.mem_cons] at h
    rcases h with rfl | h
    · cases d <;> rename_i p <;> cases p <;> rfl
    · exact isSc_trFields2 ds vs w h

/-! ## the composition -/

/-- STRUCT with omitempty members at mirror level (hypotheses as in `struct_run`) -/
theorem struct_run2 (o : FoldOpts) (hfail : o.failAt = none) (S : GoType) (fs : List Field) (ds : List FD2)
    (vs : List GoVal) (hg : goodT [] S = true) (hu : S.under = .struct fs) (hd : Desc2 fs ds) (hv : Vals2 ds vs)
    (ut : Unf.GoType) (nm : String) (ufs : List (String × String × Unf.GoType)) (fields : Unf.Fields) (R : Unf.Reg)
    (hS : ut.un tbl = .struct nm ufs)
    (hcomp : Unf.lookupReflUnfolder tbl typeFuel [] newUnfolder.reg ut = .ok (.struct fields, R))
    (hFM : SF.UnfProofs.StructVal.FM tbl ut fields (sfOf2 ds 0))
    (hnd : ((sfOf2 ds 0).map (·.1)).Nodup)
    (hz : Unf.zero tbl ut = .struct (zerosOf2 ds))
    (hv0 : SF.UnfProofs.StructVal.Shaped tbl ut (Unf.zero tbl ut)) :
    ∃ c0 cells' kc', (impl o S (.struct vs)).res = .ok ∧
      setTarget tbl ut (Unf.zero tbl ut) newUnfolder = .ok c0 ∧
      feed c0 ((impl o S (.struct vs)).evs.map xevToUEvs) =
        ({ newUnfolder with target := .struct (trFields2 ds vs), env := tbl, reg := R, cells := cells', keyCache := kc' },
          none) := by
  rw [impl_struct2 o hfail S fs ds vs hg hu hd hv]
  have hspec := assign_members2 tbl true (sfOf2 ds 0) hnd ds vs hv []
    ((memTrees2 ds vs).length + 2) (fun x hx => hx) (Nat.le_refl _)
  simp only [List.nil_append] at hspec
  obtain ⟨got, cells', kc', hrun, hn, _, _, _⟩ :=
    SF.UnfProofs.StructVal.object_into_struct_compiled 254 tbl ut fields (sfOf2 ds 0) R (Unf.zero tbl ut) newUnfolder
      (structFoldLen fs (foldersOf2 ds 0).length) BT.any (memTrees2 ds vs) true _ _ hFM hv0 rfl (SF.Symbols.inv_init 0)
      (wf_memTrees2 ds vs hv) (by rw [hz]; exact hspec)
  have hgot := norm_struct_sc got _ (isSc_trFields2 ds vs) hn
  subst hgot
  refine ⟨_, cells', kc', rfl, SF.UnfProofs.StructVal.setTarget_struct tbl ut nm ufs _ newUnfolder fields R hS hcomp, ?_⟩
  have htok : (XEv.ev (.objStart (structFoldLen fs (foldersOf2 ds 0).length) BT.any) :: memEvs2 ds vs ++ [XEv.ev .objEnd]).map
      xevToUEvs = ((UTree.obj (structFoldLen fs (foldersOf2 ds 0).length) BT.any (memTrees2 ds vs)).events).map
        fun e => [e] := by
    simp only [List.map_cons, List.map_append, List.map_nil, UTree.events, memEvs2_tokens ds vs hv]
    rfl
  show feed _ (List.map xevToUEvs _) = _
  rw [htok]
  exact feed_singletons _ _ _ hrun

end SF.FuId
