/-
  Documents made of basic AND extended events: `XTree` — an event tree whose leaves are scalar
  events or extended value events (typed arrays / typed maps / by-reference strings) and whose
  keys may be delivered by reference.  `T.expand : ETree` is the tree of the expansion
  (`T.expand.events = expandAll T.events`).  The UBJSON encoder on the events of an `XTree`:
  state, bytes (`T.item : UItem`), well-formedness, value.
-/
import SF.Proofs.UbjEncExtValue
namespace SF.Ubjson.Enc
open SF SF.Ubjson SF.Ubjson.Wire
open SF.Cbor.Enc (small smallList smallMems)

/-! ## leaves -/

/-- an event that stands for one complete value: a scalar basic event or an extended value event -/
def isLeaf : XEv → Bool
  | .ev .null | .ev (.bool _) | .ev (.str _) | .ev (.num _ _) | .ev (.f32 _) | .ev (.f64 _) => true
  | .ev _ => false
  | .keyRef _ => false
  | _ => true

def leafTree : XEv → ETree
  | .ev .null => .null
  | .ev (.bool b) => .bool b
  | .ev (.str s) => .str s
  | .ev (.num k v) => .num k v
  | .ev (.f32 b) => .f32 b
  | .ev (.f64 b) => .f64 b
  | x => xTree x

def leafItem : XEv → UItem
  | .ev e => toItem (leafTree (.ev e))
  | x => xItem x

theorem leaf_split (x : XEv) (hx : isLeaf x = true) :
    (∃ e, x = .ev e) ∨ (isExtValue x = true ∧ leafTree x = xTree x ∧ leafItem x = xItem x) := by
  cases x with
  | ev e => exact Or.inl ⟨e, rfl⟩
  | keyRef k => simp [isLeaf] at hx
  | _ => exact Or.inr ⟨rfl, rfl, rfl⟩

theorem step_leaf (s : Enc) (hf : s.w.failFrom = none) (x : XEv) (hx : isLeaf x = true) :
    step s x = (s.emits (xchunks x), true) := by
  rcases leaf_split x hx with ⟨e, rfl⟩ | ⟨h1, _, _⟩
  · cases e with
    | null => exact step_writes s hf _ (scalarActs .null) rfl (isWrites_scalarActs _)
    | bool b => exact step_writes s hf _ (scalarActs (.bool b)) rfl (isWrites_scalarActs _)
    | str b => exact step_writes s hf _ (scalarActs (.str b)) rfl (isWrites_scalarActs _)
    | num k v => exact step_writes s hf _ (scalarActs (.num k v)) rfl (isWrites_scalarActs _)
    | f32 b => exact step_writes s hf _ (scalarActs (.f32 b)) rfl (isWrites_scalarActs _)
    | f64 b => exact step_writes s hf _ (scalarActs (.f64 b)) rfl (isWrites_scalarActs _)
    | _ => simp [isLeaf] at hx
  · exact step_ext s hf x h1

theorem leaf_events (x : XEv) (hx : isLeaf x = true) : (leafTree x).events = x.expand := by
  rcases leaf_split x hx with ⟨e, rfl⟩ | ⟨h1, h2, _⟩
  · cases e <;> first | rfl | simp [isLeaf] at hx
  · rw [h2]; exact xTree_events x h1

theorem leaf_wf (x : XEv) (hx : isLeaf x = true) : (leafTree x).wf = true := by
  rcases leaf_split x hx with ⟨e, rfl⟩ | ⟨_, h2, _⟩
  · cases e <;> rfl
  · rw [h2]; exact xTree_wf x

theorem leaf_wire (x : XEv) (hx : isLeaf x = true) : (xchunks x).flatten = (leafItem x).wire := by
  rcases leaf_split x hx with ⟨e, rfl⟩ | ⟨h1, _, h3⟩
  · cases e with
    | null => exact chunks_wire .null rfl
    | bool b => exact chunks_wire (.bool b) rfl
    | str b => exact chunks_wire (.str b) rfl
    | num k v => exact chunks_wire (.num k v) rfl
    | f32 b => exact chunks_wire (.f32 b) rfl
    | f64 b => exact chunks_wire (.f64 b) rfl
    | _ => simp [isLeaf] at hx
  · rw [h3]; exact xchunks_wire x h1

theorem leaf_ok (x : XEv) (hx : isLeaf x = true) (hs : small (leafTree x) = true) : (leafItem x).ok = true := by
  rcases leaf_split x hx with ⟨e, rfl⟩ | ⟨_, h2, h3⟩
  · exact toItem_ok _ hs
  · rw [h3]; rw [h2] at hs; exact xItem_ok x hs

theorem leaf_approx (x : XEv) (hx : isLeaf x = true) (hs : small (leafTree x) = true) :
    approx (leafTree x).value (leafItem x).value = true := by
  rcases leaf_split x hx with ⟨e, rfl⟩ | ⟨h1, h2, h3⟩
  · exact toItem_approx _ hs
  · rw [h3, h2]; rw [h2] at hs; exact xItem_approx x h1 hs

theorem leaf_exact (x : XEv) (hx : isLeaf x = true) (hs : small (leafTree x) = true)
    (hb : noBig (leafTree x) = true) : (leafItem x).value = (leafTree x).value := by
  rcases leaf_split x hx with ⟨e, rfl⟩ | ⟨h1, h2, h3⟩
  · exact toItem_exact _ hs hb
  · rw [h3, h2]; rw [h2] at hs hb; exact xItem_exact x h1 hs hb

/-! ## trees of basic and extended events -/

inductive XTree
  | leaf (x : XEv)
  | arr (len : Int) (bt : Nat) (xs : List XTree)
  | obj (len : Int) (bt : Nat) (ms : List (Bytes × Bool × XTree))   -- Bool: key by reference
  deriving Inhabited

def keyEv (k : Bytes) (byRef : Bool) : XEv := if byRef then .keyRef k else .ev (.key k)

namespace XTree

mutual
def events : XTree → List XEv
  | .leaf x => [x]
  | .arr len bt xs => .ev (.arrStart len bt) :: (eventsList xs ++ [.ev .arrEnd])
  | .obj len bt ms => .ev (.objStart len bt) :: (eventsMems ms ++ [.ev .objEnd])
def eventsList : List XTree → List XEv
  | [] => []
  | x :: xs => x.events ++ eventsList xs
def eventsMems : List (Bytes × Bool × XTree) → List XEv
  | [] => []
  | (k, r, v) :: ms => keyEv k r :: (v.events ++ eventsMems ms)
end

mutual
/-- every leaf is a scalar event or an extended value event -/
def leavesOk : XTree → Bool
  | .leaf x => isLeaf x
  | .arr _ _ xs => leavesOkList xs
  | .obj _ _ ms => leavesOkMems ms
def leavesOkList : List XTree → Bool
  | [] => true
  | x :: xs => x.leavesOk && leavesOkList xs
def leavesOkMems : List (Bytes × Bool × XTree) → Bool
  | [] => true
  | (_, _, v) :: ms => v.leavesOk && leavesOkMems ms
end

mutual
/-- the tree of the expansion into basic events -/
def expand : XTree → ETree
  | .leaf x => leafTree x
  | .arr len bt xs => .arr len bt (expandList xs)
  | .obj len bt ms => .obj len bt (expandMems ms)
def expandList : List XTree → List ETree
  | [] => []
  | x :: xs => x.expand :: expandList xs
def expandMems : List (Bytes × Bool × XTree) → List (Bytes × ETree)
  | [] => []
  | (k, _, v) :: ms => (k, v.expand) :: expandMems ms
end

mutual
/-- the Write calls the encoder issues -/
def chunks : XTree → List Bytes
  | .leaf x => xchunks x
  | .arr len _ xs => startChunks arrStartMarker len ++ (chunksList xs ++ endChunks arrEndMarker len)
  | .obj len _ ms => startChunks objStartMarker len ++ (chunksMems ms ++ endChunks objEndMarker len)
def chunksList : List XTree → List Bytes
  | [] => []
  | x :: xs => x.chunks ++ chunksList xs
def chunksMems : List (Bytes × Bool × XTree) → List Bytes
  | [] => []
  | (k, _, v) :: ms => writesOf (scalarActs (.key k)) ++ (v.chunks ++ chunksMems ms)
end

mutual
/-- the item written -/
def item : XTree → UItem
  | .leaf x => leafItem x
  | .arr len _ xs => if len ≤ 0 then .arr (itemList xs) else .arrN (minM xs.length) (itemList xs)
  | .obj len _ ms => if len ≤ 0 then .obj (itemMems ms) else .objN (minM ms.length) (itemMems ms)
def itemList : List XTree → List UItem
  | [] => []
  | x :: xs => x.item :: itemList xs
def itemMems : List (Bytes × Bool × XTree) → List (IM × Bytes × UItem)
  | [] => []
  | (k, _, v) :: ms => (minM k.length, k, v.item) :: itemMems ms
end

theorem expandList_length (xs : List XTree) : (expandList xs).length = xs.length := by
  induction xs with
  | nil => rfl
  | cons x xs ih => simp [expandList, ih]
theorem expandMems_length (ms : List (Bytes × Bool × XTree)) : (expandMems ms).length = ms.length := by
  induction ms with
  | nil => rfl
  | cons m ms ih => obtain ⟨k, r, v⟩ := m; simp [expandMems, ih]
theorem itemList_length (xs : List XTree) : (itemList xs).length = xs.length := by
  induction xs with
  | nil => rfl
  | cons x xs ih => simp [itemList, ih]
theorem itemMems_length (ms : List (Bytes × Bool × XTree)) : (itemMems ms).length = ms.length := by
  induction ms with
  | nil => rfl
  | cons m ms ih => obtain ⟨k, r, v⟩ := m; simp [itemMems, ih]

/-! ### the expansion -/

theorem expandAll_append (a b : List XEv) : expandAll (a ++ b) = expandAll a ++ expandAll b := by
  simp [expandAll]
theorem expandAll_cons (x : XEv) (b : List XEv) : expandAll (x :: b) = x.expand ++ expandAll b := by
  simp [expandAll]

mutual
/-- the events of `T.expand` are the expansion (array.go / map.go / string.go) of the events of `T` -/
theorem expand_events (T : XTree) (h : T.leavesOk = true) : T.expand.events = expandAll T.events := by
  match T with
  | .leaf x =>
    simp only [leavesOk] at h
    simp [expand, events, expandAll, leaf_events x h]
  | .arr len bt xs =>
    simp only [leavesOk] at h
    simp [expand, events, ETree.events, XEv.expand, expand_eventsList xs h, expandAll]
  | .obj len bt ms =>
    simp only [leavesOk] at h
    simp [expand, events, ETree.events, XEv.expand, expand_eventsMems ms h, expandAll]
theorem expand_eventsList (xs : List XTree) (h : leavesOkList xs = true) :
    ETree.eventsList (expandList xs) = expandAll (eventsList xs) := by
  match xs with
  | [] => rfl
  | x :: xs' =>
    simp only [leavesOkList, Bool.and_eq_true] at h
    simp [expandList, eventsList, ETree.eventsList, expandAll_append, expand_events x h.1,
      expand_eventsList xs' h.2]
theorem expand_eventsMems (ms : List (Bytes × Bool × XTree)) (h : leavesOkMems ms = true) :
    ETree.eventsMems (expandMems ms) = expandAll (eventsMems ms) := by
  match ms with
  | [] => rfl
  | (k, r, v) :: ms' =>
    simp only [leavesOkMems, Bool.and_eq_true] at h
    have hk : (keyEv k r).expand = [.key k] := by cases r <;> rfl
    simp [expandMems, eventsMems, ETree.eventsMems, expandAll_cons, expandAll_append, hk,
      expand_events v h.1, expand_eventsMems ms' h.2]
end

/-! ### execution -/

theorem step_key (s : Enc) (hf : s.w.failFrom = none) (k : Bytes) (r : Bool) :
    step s (keyEv k r) = (s.emits (writesOf (scalarActs (.key k))), true) := by
  cases r
  · exact step_writes s hf _ _ rfl (isWrites_scalarActs (.key k))
  · exact step_writes s hf _ _ rfl (isWrites_scalarActs (.key k))

mutual
/-- ENCODER, ONE DOCUMENT of basic and extended events, from any non-failing state: the writes
are `T.chunks`, the length stack is restored -/
theorem enc_xtree (T : XTree) (h : T.leavesOk = true) (s : Enc) (hf : s.w.failFrom = none) (i : Nat)
    (more : List XEv) :
    run.go s i (T.events ++ more) = run.go (s.emits T.chunks) (i + T.events.length) more := by
  match T with
  | .leaf x =>
    simp only [leavesOk] at h
    simp only [events, List.cons_append, List.nil_append, chunks, List.length_cons, List.length_nil]
    rw [run_go_cons, step_leaf s hf x h]
  | .arr len bt xs =>
    simp only [leavesOk] at h
    simp only [events, List.cons_append, List.append_assoc, List.nil_append]
    rw [run_go_cons, step_start s hf arrStartMarker len _ rfl]
    simp only
    rw [enc_xlist xs h _ (by simpa using hf), run_go_cons,
      step_end _ (by simpa using hf) s.length arrEndMarker len _ rfl rfl]
    simp only [chunks, List.length_cons, List.length_append, List.length_nil]
    congr 1
    · simp [Enc.emits, List.append_assoc, Nat.add_assoc]
    · omega
  | .obj len bt ms =>
    simp only [leavesOk] at h
    simp only [events, List.cons_append, List.append_assoc, List.nil_append]
    rw [run_go_cons, step_start s hf objStartMarker len _ rfl]
    simp only
    rw [enc_xmems ms h _ (by simpa using hf), run_go_cons,
      step_end _ (by simpa using hf) s.length objEndMarker len _ rfl rfl]
    simp only [chunks, List.length_cons, List.length_append, List.length_nil]
    congr 1
    · simp [Enc.emits, List.append_assoc, Nat.add_assoc]
    · omega
theorem enc_xlist (xs : List XTree) (h : leavesOkList xs = true) (s : Enc) (hf : s.w.failFrom = none)
    (i : Nat) (more : List XEv) :
    run.go s i (eventsList xs ++ more) = run.go (s.emits (chunksList xs)) (i + (eventsList xs).length) more := by
  match xs with
  | [] => simp [eventsList, chunksList]
  | x :: xs' =>
    simp only [leavesOkList, Bool.and_eq_true] at h
    simp only [eventsList, List.append_assoc, chunksList, List.length_append]
    rw [enc_xtree x h.1 s hf, enc_xlist xs' h.2 _ (by simpa using hf), emits_emits, Nat.add_assoc]
theorem enc_xmems (ms : List (Bytes × Bool × XTree)) (h : leavesOkMems ms = true) (s : Enc)
    (hf : s.w.failFrom = none) (i : Nat) (more : List XEv) :
    run.go s i (eventsMems ms ++ more) = run.go (s.emits (chunksMems ms)) (i + (eventsMems ms).length) more := by
  match ms with
  | [] => simp [eventsMems, chunksMems]
  | (k, r, v) :: ms' =>
    simp only [leavesOkMems, Bool.and_eq_true] at h
    simp only [eventsMems, List.cons_append, List.append_assoc, chunksMems, List.length_cons,
      List.length_append]
    rw [run_go_cons, step_key s hf k r]
    simp only
    rw [enc_xtree v h.1 _ (by simpa using hf), enc_xmems ms' h.2 _ (by simpa using hf), emits_emits,
      emits_emits]
    congr 1
    omega
end

/-! ### bytes -/

mutual
theorem xtree_wire (T : XTree) (h : T.leavesOk = true) (hw : T.expand.wf = true) :
    T.chunks.flatten = T.item.wire := by
  match T with
  | .leaf x =>
    simp only [leavesOk] at h
    exact leaf_wire x h
  | .arr len bt xs =>
    simp only [leavesOk] at h
    simp only [expand, ETree.wf, Bool.and_eq_true, expandList_length] at hw
    simp only [chunks, List.flatten_append, startChunks_flat _ len xs.length (lenOk_cases _ _ hw.1),
      endChunks_flat, xlist_wire xs bt h hw.2, item]
    split <;> simp [UItem.wire, UItem.marker, UItem.payload, arrStartMarker, arrEndMarker, itemList_length]
  | .obj len bt ms =>
    simp only [leavesOk] at h
    simp only [expand, ETree.wf, Bool.and_eq_true, expandMems_length] at hw
    simp only [chunks, List.flatten_append, startChunks_flat _ len ms.length (lenOk_cases _ _ hw.1),
      endChunks_flat, xmems_wire ms bt h hw.2, item]
    split <;> simp [UItem.wire, UItem.marker, UItem.payload, objStartMarker, objEndMarker, itemMems_length]
theorem xlist_wire (xs : List XTree) (bt : Nat) (h : leavesOkList xs = true)
    (hw : ETree.wfList bt (expandList xs) = true) : (chunksList xs).flatten = wireList (itemList xs) := by
  match xs with
  | [] => rfl
  | x :: xs' =>
    simp only [leavesOkList, Bool.and_eq_true] at h
    simp only [expandList, ETree.wfList, Bool.and_eq_true] at hw
    have h1 := xtree_wire x h.1 hw.1.2
    simp only [UItem.wire] at h1
    simp [chunksList, itemList, wireList, h1, xlist_wire xs' bt h.2 hw.2]
theorem xmems_wire (ms : List (Bytes × Bool × XTree)) (bt : Nat) (h : leavesOkMems ms = true)
    (hw : ETree.wfMems bt (expandMems ms) = true) : (chunksMems ms).flatten = wireMems (itemMems ms) := by
  match ms with
  | [] => rfl
  | (k, r, v) :: ms' =>
    simp only [leavesOkMems, Bool.and_eq_true] at h
    simp only [expandMems, ETree.wfMems, Bool.and_eq_true] at hw
    have h1 := xtree_wire v h.1 hw.1.2
    simp only [UItem.wire] at h1
    have h2 := flat_key k
    simp only [flat] at h2
    simp [chunksMems, itemMems, wireMems, h1, h2, xmems_wire ms' bt h.2 hw.2]
end

/-! ### well-formedness and value -/

mutual
theorem item_ok (T : XTree) (h : T.leavesOk = true) (hs : small T.expand = true) : T.item.ok = true := by
  match T with
  | .leaf x =>
    simp only [leavesOk] at h
    exact leaf_ok x h hs
  | .arr len bt xs =>
    simp only [leavesOk] at h
    simp only [expand, small, Bool.and_eq_true, decide_eq_true_eq, expandList_length] at hs
    simp only [item]
    split
    · simp only [UItem.ok]; exact itemList_ok xs h hs.2
    · simp only [UItem.ok, Bool.and_eq_true, itemList_length]
      exact ⟨minM_fits (xs.length : Int) (by omega) (by omega), itemList_ok xs h hs.2⟩
  | .obj len bt ms =>
    simp only [leavesOk] at h
    simp only [expand, small, Bool.and_eq_true, decide_eq_true_eq, expandMems_length] at hs
    simp only [item]
    split
    · simp only [UItem.ok]; exact itemMems_ok ms h hs.2
    · simp only [UItem.ok, Bool.and_eq_true, itemMems_length]
      exact ⟨minM_fits (ms.length : Int) (by omega) (by omega), itemMems_ok ms h hs.2⟩
theorem itemList_ok (xs : List XTree) (h : leavesOkList xs = true) (hs : smallList (expandList xs) = true) :
    okList (itemList xs) = true := by
  match xs with
  | [] => rfl
  | x :: xs' =>
    simp only [leavesOkList, Bool.and_eq_true] at h
    simp only [expandList, smallList, Bool.and_eq_true] at hs
    simp [itemList, okList, item_ok x h.1 hs.1, itemList_ok xs' h.2 hs.2]
theorem itemMems_ok (ms : List (Bytes × Bool × XTree)) (h : leavesOkMems ms = true)
    (hs : smallMems (expandMems ms) = true) : okMems (itemMems ms) = true := by
  match ms with
  | [] => rfl
  | (k, r, v) :: ms' =>
    simp only [leavesOkMems, Bool.and_eq_true] at h
    simp only [expandMems, smallMems, Bool.and_eq_true, decide_eq_true_eq] at hs
    simp [itemMems, okMems, item_ok v h.1 hs.1.2, itemMems_ok ms' h.2 hs.2,
      minM_fits k.length (by omega) (by omega)]
end

theorem item_arr_value (len : Int) (bt : Nat) (xs : List XTree) :
    (item (.arr len bt xs)).value = .arr (Wire.valueList (itemList xs)) := by
  simp only [item]; split <;> rfl
theorem item_obj_value (len : Int) (bt : Nat) (ms : List (Bytes × Bool × XTree)) :
    (item (.obj len bt ms)).value = .obj (Wire.valueMems (itemMems ms)) := by
  simp only [item]; split <;> rfl

mutual
theorem item_approx (T : XTree) (h : T.leavesOk = true) (hs : small T.expand = true) :
    approx T.expand.value T.item.value = true := by
  match T with
  | .leaf x =>
    simp only [leavesOk] at h
    exact leaf_approx x h hs
  | .arr len bt xs =>
    simp only [leavesOk] at h
    simp only [expand, small, Bool.and_eq_true] at hs
    simp only [expand, ETree.value, item_arr_value, approx, itemList_approx xs h hs.2, Bool.true_or]
  | .obj len bt ms =>
    simp only [leavesOk] at h
    simp only [expand, small, Bool.and_eq_true] at hs
    simp only [expand, ETree.value, item_obj_value, approx, itemMems_approx ms h hs.2, Bool.true_or]
theorem itemList_approx (xs : List XTree) (h : leavesOkList xs = true) (hs : smallList (expandList xs) = true) :
    approxList (ETree.valueList (expandList xs)) (Wire.valueList (itemList xs)) = true := by
  match xs with
  | [] => rfl
  | x :: xs' =>
    simp only [leavesOkList, Bool.and_eq_true] at h
    simp only [expandList, smallList, Bool.and_eq_true] at hs
    simp [expandList, ETree.valueList, itemList, Wire.valueList, approxList, item_approx x h.1 hs.1,
      itemList_approx xs' h.2 hs.2]
theorem itemMems_approx (ms : List (Bytes × Bool × XTree)) (h : leavesOkMems ms = true)
    (hs : smallMems (expandMems ms) = true) :
    approxMems (ETree.valueMems (expandMems ms)) (Wire.valueMems (itemMems ms)) = true := by
  match ms with
  | [] => rfl
  | (k, r, v) :: ms' =>
    simp only [leavesOkMems, Bool.and_eq_true] at h
    simp only [expandMems, smallMems, Bool.and_eq_true] at hs
    simp [expandMems, ETree.valueMems, itemMems, Wire.valueMems, approxMems, item_approx v h.1 hs.1.2,
      itemMems_approx ms' h.2 hs.2]
end

mutual
theorem item_exact (T : XTree) (h : T.leavesOk = true) (hs : small T.expand = true)
    (hb : noBig T.expand = true) : T.item.value = T.expand.value := by
  match T with
  | .leaf x =>
    simp only [leavesOk] at h
    exact leaf_exact x h hs hb
  | .arr len bt xs =>
    simp only [leavesOk] at h
    simp only [expand, small, Bool.and_eq_true] at hs
    simp only [expand, noBig] at hb
    simp only [expand, ETree.value, item_arr_value, itemList_exact xs h hs.2 hb]
  | .obj len bt ms =>
    simp only [leavesOk] at h
    simp only [expand, small, Bool.and_eq_true] at hs
    simp only [expand, noBig] at hb
    simp only [expand, ETree.value, item_obj_value, itemMems_exact ms h hs.2 hb]
theorem itemList_exact (xs : List XTree) (h : leavesOkList xs = true) (hs : smallList (expandList xs) = true)
    (hb : noBigList (expandList xs) = true) :
    Wire.valueList (itemList xs) = ETree.valueList (expandList xs) := by
  match xs with
  | [] => rfl
  | x :: xs' =>
    simp only [leavesOkList, Bool.and_eq_true] at h
    simp only [expandList, smallList, Bool.and_eq_true] at hs
    simp only [expandList, noBigList, Bool.and_eq_true] at hb
    simp [expandList, ETree.valueList, itemList, Wire.valueList, item_exact x h.1 hs.1 hb.1,
      itemList_exact xs' h.2 hs.2 hb.2]
theorem itemMems_exact (ms : List (Bytes × Bool × XTree)) (h : leavesOkMems ms = true)
    (hs : smallMems (expandMems ms) = true) (hb : noBigMems (expandMems ms) = true) :
    Wire.valueMems (itemMems ms) = ETree.valueMems (expandMems ms) := by
  match ms with
  | [] => rfl
  | (k, r, v) :: ms' =>
    simp only [leavesOkMems, Bool.and_eq_true] at h
    simp only [expandMems, smallMems, Bool.and_eq_true] at hs
    simp only [expandMems, noBigMems, Bool.and_eq_true] at hb
    simp [expandMems, ETree.valueMems, itemMems, Wire.valueMems, item_exact v h.1 hs.1.2 hb.1,
      itemMems_exact ms' h.2 hs.2 hb.2]
end

end XTree
end SF.Ubjson.Enc
