/-
  C02 for the UBJSON parser mirror, part 5: the fuel-free big-step relation `Runs` of the main
  loop, the invariant `CI` of the states it passes through, the SPLIT LAW OF THE LOOP
  (`runs_split`), and: whenever the fuelled loops `feedUntil` / `feed` do not report
  `outOfFuel` they compute `Runs`.
  Property theorems: SF/Proofs/UbjChunkTop.lean.
-/
import SF.Proofs.UbjChunkSplitC
import SF.Proofs.UbjProgFeed
set_option linter.unusedSimpArgs false
set_option linter.unusedVariables false
namespace SF.Ubjson.Chunk
open SF SF.Ubjson SF.Ubjson.Parse
open StateType StateStep

/-! ## the invariant -/

/-- the invariant of the loop: the no-panic invariant (`Inv`, no stored panic) and the shape
invariant (`G`) of the existing no-panic / no-hang proofs -/
structure CI (p : P) : Prop where
  inv : InvE p
  g : G p

theorem ci_init (failAt : Option Nat) : CI (init failAt) := ⟨invE_init failAt, g_init failAt⟩
theorem ci_default : CI ({} : P) := ⟨invE_default, g_default⟩

theorem CI.congr {p q : P} (h : CI p) (hs : q.state = p.state) (hv : q.valueState = p.valueState)
    (hl : q.length.current = p.length.current) (hm : q.marker = p.marker) (he : q.err ≠ some .panic) : CI q :=
  ⟨⟨h.inv.inv.congr hs hv hl, he⟩, h.g.congr hs hv hm⟩

/-- a successful step keeps the invariant and the stored error -/
theorem execStep_ci (p : P) (a : Bytes) (h : CI p) (hm : More p a) (he : (execStep p a).err = none) :
    CI (execStep p a).p ∧ (execStep p a).p.err = p.err := by
  have h1 := execStep_safe p a h.inv hm
  have h2 := (execStep_step p a h.g hm).ok he
  have h3 := dispatch_safe p a h.inv hm
  refine ⟨⟨h1.2, h2.1⟩, ?_⟩
  rw [execStep_eq] at he ⊢
  cases hd : (dispatch p a).err with
  | none => simp only []; exact h3.ef
  | some e => rw [hd] at he; simp only [] at he; rw [hd] at he; cases he

/-- `done` is only reported back at the bottom of the state stack, where nothing is pending -/
theorem execStep_done (p : P) (a : Bytes) (h : CI p) (hm : More p a) (he : (execStep p a).err = none)
    (hd : (execStep p a).done = true) : pending (execStep p a).p = false := by
  have hs := execStep_di p a h.g hd he
  have hg := (execStep_ci p a h hm he).1.g
  have ht := idle_of_stack_nil hg hs
  simp [pending, ht]

/-! ## the big-step relation -/

/-- `Runs p b p' e`: stepping from `p` over input `b` until the input is used up and nothing
is pending, or an error occurs, ends in `p'` with verdict `e`.  (The loops of `feedUntil` and
`feed`, flattened and without fuel.) -/
inductive Runs : P → Bytes → P → Option Err → Prop
  | stop {p : P} {b : Bytes} : ¬ More p b → Runs p b p none
  | err {p : P} {b : Bytes} {e : Err} : More p b → (execStep p b).err = some e →
      Runs p b (execStep p b).p (some e)
  | step {p : P} {b : Bytes} {p' : P} {e : Option Err} : More p b → (execStep p b).err = none →
      Runs (execStep p b).p (execStep p b).rest p' e → Runs p b p' e

theorem Runs.det {p : P} {b : Bytes} {p1 p2 : P} {e1 e2 : Option Err}
    (h1 : Runs p b p1 e1) (h2 : Runs p b p2 e2) : p1 = p2 ∧ e1 = e2 := by
  induction h1 generalizing p2 e2 with
  | stop hm =>
    cases h2 with
    | stop _ => exact ⟨rfl, rfl⟩
    | err hm' _ => exact absurd hm' hm
    | step hm' _ _ => exact absurd hm' hm
  | err hm he =>
    cases h2 with
    | stop hm' => exact absurd hm hm'
    | err _ he' => rw [he] at he'; injection he' with he'; subst he'; exact ⟨rfl, rfl⟩
    | step _ he' _ => rw [he] at he'; cases he'
  | step hm he _ ih =>
    cases h2 with
    | stop hm' => exact absurd hm hm'
    | err _ he' => rw [he] at he'; cases he'
    | step _ _ h2' => exact ih h2'

/-- a successful run re-establishes the invariant, keeps the stored error and leaves nothing
pending -/
theorem Runs.inv {p : P} {b : Bytes} {p' : P} {e : Option Err} (h : Runs p b p' e) (hI : CI p)
    (he : e = none) : CI p' ∧ pending p' = false ∧ p'.err = p.err := by
  induction h with
  | @stop p b hm =>
    refine ⟨hI, ?_, rfl⟩
    cases hp : pending p with
    | false => rfl
    | true => exact absurd (Or.inr hp) hm
  | err _ _ => cases he
  | step hm hre _ ih =>
    have := execStep_ci _ _ hI hm hre
    obtain ⟨i1, i2, i3⟩ := ih this.1 he
    exact ⟨i1, i2, i3.trans this.2⟩

theorem Runs.of_not_more {p : P} {b : Bytes} {p' : P} {e : Option Err} (h : Runs p b p' e)
    (hm : ¬ More p b) : p' = p ∧ e = none := Runs.det h (Runs.stop hm)

theorem More.append {p : P} {a : Bytes} (h : More p a) (b : Bytes) : More p (a ++ b) := by
  rcases h with h | h
  · left; intro hc; exact h (List.append_eq_nil_iff.mp hc).1
  · exact Or.inr h

/-! ## the split law of the main loop -/

/-- THE SPLIT LAW OF THE MAIN LOOP: running over `a ++ b` is running over `a` and then, from
the configuration reached, over `b` — with the same events and the same verdict, and (if
the verdict is "no error") the very same final parser state -/
theorem runs_split {p : P} {a : Bytes} {p1 : P} {e1 : Option Err} (h : Runs p a p1 e1) (b : Bytes) :
    CI p →
    (∀ e, e1 = some e → ∃ p1', Runs p (a ++ b) p1' (some e) ∧ p1'.evs = p1.evs) ∧
    (e1 = none → ∀ p2 e2, Runs p1 b p2 e2 →
      ∃ p2', Runs p (a ++ b) p2' e2 ∧ p2'.evs = p2.evs ∧ (e2 = none → p2' = p2)) := by
  induction h with
  | @stop p a hm =>
    intro hI
    have ha : a = [] := by
      cases a with
      | nil => rfl
      | cons x xs => exact absurd (Or.inl (by simp)) hm
    subst ha
    refine ⟨fun e he => (by cases he), fun _ p2 e2 h2 => ⟨p2, by simpa using h2, rfl, fun _ => rfl⟩⟩
  | @err p a e hm he =>
    intro hI
    refine ⟨fun e' he' => ?_, fun h => by cases h⟩
    injection he' with he'
    subst he'
    rcases execStep_split p a hI.inv.inv hm with hext | ⟨k1, _, _, _, _⟩
    · obtain ⟨x1, x2, _⟩ := hext b
      exact ⟨_, Runs.err (hm.append b) (by rw [x1, he]), x2⟩
    · rw [he] at k1; cases k1
  | @step p a p1 e1 hm he h' ih =>
    intro hI
    have hok := execStep_ci p a hI hm he
    obtain ⟨ih1, ih2⟩ := ih hok.1
    rcases execStep_split p a hI.inv.inv hm with hext | ⟨k1, k2, _, k3, k4⟩
    · obtain ⟨x1, x2, x3⟩ := hext b
      have hx := x3 he
      have hstep : ∀ X E, Runs (execStep p a).p ((execStep p a).rest ++ b) X E → Runs p (a ++ b) X E := by
        intro X E hr
        refine Runs.step (hm.append b) (by rw [x1, he]) ?_
        rw [hx]; exact hr
      refine ⟨fun e he1 => ?_, fun he1 p2 e2 h2 => ?_⟩
      · obtain ⟨q, hq1, hq2⟩ := ih1 e he1
        exact ⟨q, hstep _ _ hq1, hq2⟩
      · obtain ⟨q, hq1, hq2, hq3⟩ := ih2 he1 p2 e2 h2
        exact ⟨q, hstep _ _ hq1, hq2, hq3⟩
    · have hnm : ¬ More (execStep p a).p (execStep p a).rest := by
        rw [k2]
        rintro (h | h)
        · exact h rfl
        · rw [k3] at h; cases h
      obtain ⟨hp1, he1⟩ := h'.of_not_more hnm
      subst he1
      refine ⟨fun e he1 => (by cases he1), fun _ p2 e2 h2 => ?_⟩
      rw [hp1] at h2
      by_cases hb : b = []
      · subst hb
        have hnm' : ¬ More (execStep p a).p [] := by rw [k2] at hnm; exact hnm
        obtain ⟨hp2, he2⟩ := h2.of_not_more hnm'
        subst he2
        refine ⟨p1, ?_, by rw [hp2, hp1], fun _ => by rw [hp2, hp1]⟩
        rw [List.append_nil]
        exact Runs.step hm he h'
      · obtain ⟨s1, s2, s3⟩ := k4 b hb
        cases h2 with
        | stop hm2 => exact absurd (Or.inl hb) hm2
        | err hm2 he2 =>
          exact ⟨_, Runs.err (hm.append b) (by rw [s1, he2]), s2, fun h => by cases h⟩
        | step hm2 he2 h2' =>
          have hx := s3 he2
          refine ⟨p2, Runs.step (hm.append b) (by rw [s1, he2]) ?_, rfl, fun _ => rfl⟩
          rw [hx]; exact h2'

/-! ## the fuelled loops compute `Runs` unless the fuel runs out -/

theorem feedUntil_runs (n : Nat) (p : P) (b : Bytes) (hI : CI p) :
    (∀ e, (feedUntil n p b).err = some e → e ≠ .outOfFuel → Runs p b (feedUntil n p b).p (some e)) ∧
    ((feedUntil n p b).err = none →
        CI (feedUntil n p b).p ∧
        ((feedUntil n p b).rest = [] → pending (feedUntil n p b).p = false) ∧
        ∀ p' e, Runs (feedUntil n p b).p (feedUntil n p b).rest p' e → Runs p b p' e) := by
  induction n generalizing p b with
  | zero =>
    refine ⟨fun e he hne => ?_, fun he => ?_⟩
    · simp only [feedUntil] at he
      injection he with he
      exact absurd he.symm hne
    · simp [feedUntil] at he
  | succ n ih =>
    simp only [feedUntil]
    by_cases hg : (!b.isEmpty || pending p) = true
    · have hm : More p b := (guard_iff p b).mp hg
      simp only [hg, if_true]
      cases hre : (execStep p b).err with
      | some e =>
        simp only [Option.isSome_some, Bool.or_true, if_true]
        refine ⟨fun e' he' _ => ?_, fun he' => ?_⟩
        · rw [hre] at he'; injection he' with he'; subst he'; exact Runs.err hm hre
        · rw [hre] at he'; cases he'
      | none =>
        have hok := execStep_ci p b hI hm hre
        by_cases hd : (execStep p b).done = true
        · simp only [hd, Bool.true_or, if_true]
          refine ⟨fun e he _ => (by rw [hre] at he; cases he), fun _ => ⟨hok.1, fun _ => ?_, ?_⟩⟩
          · exact execStep_done p b hI hm hre hd
          · intro p' e h; exact Runs.step hm hre h
        · have hd' : (execStep p b).done = false := by simpa using hd
          simp only [hd', Option.isSome_none, Bool.or_self, Bool.false_eq_true, if_false]
          obtain ⟨ih1, ih2⟩ := ih (execStep p b).p (execStep p b).rest hok.1
          refine ⟨fun e he hne => Runs.step hm hre (ih1 e he hne), fun he => ?_⟩
          obtain ⟨i1, i2, i3⟩ := ih2 he
          exact ⟨i1, i2, fun p' e h => Runs.step hm hre (i3 p' e h)⟩
    · have hnm : ¬ More p b := fun h => hg ((guard_iff p b).mpr h)
      simp only [hg, Bool.false_eq_true, if_false]
      refine ⟨fun e he _ => (by cases he), fun _ => ⟨hI, fun hb => ?_, fun p' e h => h⟩⟩
      cases hp : pending p with
      | false => rfl
      | true => exact absurd (Or.inr hp) hnm

theorem feedG_runs (ff : Bytes → Nat) (F : Nat) (p : P) (b : Bytes) (hI : CI p)
    (hm : b ≠ [] ∨ pending p = false) (hne : (feedG ff F p b).2 ≠ some .outOfFuel) :
    Runs p b (feedG ff F p b).1 (feedG ff F p b).2 := by
  induction F generalizing p b with
  | zero => simp [feedG] at hne
  | succ F ih =>
    simp only [feedG] at hne ⊢
    by_cases hb : b = []
    · subst hb
      simp only [List.isEmpty_nil, if_true]
      refine Runs.stop ?_
      rintro (h | h)
      · exact h rfl
      · rcases hm with hm | hm
        · exact hm rfl
        · rw [hm] at h; cases h
    · have hb' : b.isEmpty = false := by cases b <;> simp_all
      simp only [hb', Bool.false_eq_true, if_false] at hne ⊢
      obtain ⟨h1, h2⟩ := feedUntil_runs (ff b) p b hI
      cases hre : (feedUntil (ff b) p b).err with
      | some e =>
        simp only [hre] at hne ⊢
        exact h1 e hre (by simpa using hne)
      | none =>
        simp only [hre] at hne ⊢
        obtain ⟨i1, i2, i3⟩ := h2 hre
        apply i3
        apply ih _ _ i1 _ hne
        by_cases hr : (feedUntil (ff b) p b).rest = []
        · exact Or.inr (i2 hr)
        · exact Or.inl hr

/-- `feedAll` (the body of `Write` and `Parse`) computes the big-step relation, unless it
reports `outOfFuel` -/
theorem feedAll_runs (p : P) (b : Bytes) (hI : CI p) (hm : b ≠ [] ∨ pending p = false)
    (hne : (feedAll p b).2 ≠ some .outOfFuel) : Runs p b (feedAll p b).1 (feedAll p b).2 := by
  unfold feedAll at hne ⊢
  rw [feed_eq_feedG] at hne ⊢
  exact feedG_runs _ _ p b hI hm hne

end SF.Ubjson.Chunk
