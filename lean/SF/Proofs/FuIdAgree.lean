/-
  C11, direct path, the ORACLE's comparison (`SF.Ops.Fu.agreeF "direct"`) of the original Go value
  with what the Unfolder holds, read back into the Fold universe (`back`: what the harness'
  PrintValue → `GoVal.parse?` round trip of `Fu.model` / `Fu.oracle` does to a value).
-/
import SF.Proofs.FuIdRun
namespace SF.FuId
open SF SF.Gotype SF.Gotype.Fold
open SF.Ops.Fu (agreeF)

/-- the Unfold-side type read back (only used for dynamic types inside `interface{}`) -/
def backTy : Unf.GoType → GoType
  | .bool => .bool | .string => .string | .int k => .int k
  | .float32 => .float32 | .float64 => .float64 | .ifc => .iface
  | .slice e => .slice (backTy e)
  | .map e => .map .string (backTy e)
  | .ptr e => .ptr (backTy e)
  | .array n e => .array n (backTy e)
  | .imap e => .map (.int .int) (backTy e)
  | .other k => .other k
  | .struct _ _ => .other "struct"
  | .named _ u => backTy u
  | .ref n => .ref n

mutual
/-- an Unfold-side value read back into the Fold universe: kinds of integers, element types and
hidden capacity are forgotten (they are not printed), map entries keep their order (the printed
form is sorted; no comparison of the oracle looks at the order) -/
def back : Unf.GoVal → GoVal
  | .bool b => .bool b
  | .str s => .str s
  | .int _ v => .int v
  | .f32 b => .f32 b
  | .f64 b => .f64 b
  | .ifcNil => .nilIface
  | .ifc v => .iface (backTy v.dynType) (back v)
  | .sliceNil _ => .nilSlice
  | .slice _ es _ => .slice (backList es)
  | .mapNil _ => .nilMap
  | .map _ ms => .map (backMems ms)
  | .ptrNil _ => .nilPtr
  | .ptr _ v => .ptr (back v)
  | .struct fs => .struct (backList fs)
  | .opaque _ => .nilOther
  | .invalid => .nilOther
def backList : List Unf.GoVal → List GoVal
  | [] => []
  | v :: r => back v :: backList r
def backMems : List (Bytes × Unf.GoVal) → List (GoVal × GoVal)
  | [] => []
  | (k, v) :: r => (.str k, back v) :: backMems r
end

theorem backList_map (f : GoVal → Unf.GoVal) : ∀ xs : List GoVal, backList (xs.map f) = xs.map fun x => back (f x)
  | [] => rfl
  | x :: r => by simp [backList, backList_map f r]

theorem backMems_eq : ∀ ms : List (Bytes × Unf.GoVal), backMems ms = ms.map fun m => (GoVal.str m.1, back m.2)
  | [] => rfl
  | (k, v) :: r => by simp [backMems, backMems_eq r]

theorem under_slice (e : GoType) : (GoType.slice e).under = .slice e := rfl
theorem under_map (k e : GoType) : (GoType.map k e).under = .map k e := rfl
theorem under_ptr (e : GoType) : (GoType.ptr e).under = .ptr e := rfl
theorem under_iface : GoType.iface.under = .iface := rfl
theorem under_primTy (p : Prim) : (primTy p).under = primTy p := by cases p <;> rfl

/-! ## scalars -/

theorem back_trPrim (p : Prim) (x : GoVal) (h : hasPrim p x = true) : back (trPrim p x) = x := by
  cases p <;> cases x <;> simp [hasPrim] at h <;> rfl

theorem agree_prim (n : Nat) (p : Prim) (x : GoVal) (h : hasPrim p x = true) :
    agreeF "direct" (n + 1) (primTy p) x x = true := by
  cases p <;> cases x <;> simp [hasPrim] at h <;> simp [agreeF, primTy, GoType.under]

/-! ## slices -/

theorem zip_self_all (n : Nat) (p : Prim) : ∀ xs : List GoVal, (∀ x ∈ xs, hasPrim p x = true) →
    ((xs.zip xs).all fun x => agreeF "direct" (n + 1) (primTy p) x.1 x.2) = true
  | [], _ => rfl
  | x :: r, h => by
    simp only [List.zip_cons_cons, List.all_cons, agree_prim n p x (h x List.mem_cons_self), Bool.true_and]
    exact zip_self_all n p r (fun y hy => h y (List.mem_cons_of_mem _ hy))

theorem back_sliceFin (p : Prim) (xs : List GoVal) (h : ∀ x ∈ xs, hasPrim p x = true) :
    back (Unf.sliceFin (uPrimTy p) (xs.map (trPrim p))) = if xs.isEmpty then .nilSlice else .slice xs := by
  unfold Unf.sliceFin
  cases xs with
  | nil => rfl
  | cons x r =>
    simp only [List.map_cons, List.isEmpty_cons, Bool.false_eq_true, if_false, back, backList]
    rw [backList_map, back_trPrim p x (h x List.mem_cons_self)]
    congr 2
    exact (List.map_congr_left fun y hy => back_trPrim p y (h y (List.mem_cons_of_mem _ hy))).trans (List.map_id' r)

theorem agree_slice (n : Nat) (p : Prim) (v : GoVal) (xs : List GoVal) (hv : sliceElems? v = some xs)
    (h : ∀ x ∈ xs, hasPrim p x = true) :
    agreeF "direct" (n + 2) (.slice (primTy p)) v (back (Unf.sliceFin (uPrimTy p) (xs.map (trPrim p)))) = true := by
  rw [back_sliceFin p xs h]
  have hz := zip_self_all n p xs h
  cases v with
  | nilSlice =>
    have : xs = [] := by simpa [sliceElems?] using hv.symm
    subst this
    simp [agreeF, GoType.under]
  | slice ys =>
    have : ys = xs := by simpa [sliceElems?] using hv
    subst this
    cases ys with
    | nil => simp [agreeF, GoType.under]
    | cons x r =>
      simp only [List.isEmpty_cons, Bool.false_eq_true, if_false]
      rw [SF.Ops.Fu.agreeF.eq_def]
      simp only [under_slice, beq_self_eq_true, Bool.true_and]
      exact hz
  | _ => simp [sliceElems?] at hv

/-! ## maps -/

theorem eraseDups_of_nodup {α : Type} [BEq α] [LawfulBEq α] : ∀ l : List α, l.Nodup → l.eraseDups = l
  | [], _ => by simp
  | a :: r, h => by
    rw [List.nodup_cons] at h
    rw [List.eraseDups_cons]
    have : r.filter (fun b => !b == a) = r := by
      apply List.filter_eq_self.mpr
      intro b hb
      have : b ≠ a := fun e => h.1 (e ▸ hb)
      simpa using this
    rw [this, eraseDups_of_nodup r h.2]

theorem mapM_some_of {α β : Type} (f : α → Option β) (g : α → β) :
    ∀ l : List α, (∀ x ∈ l, f x = some (g x)) → l.mapM f = some (l.map g)
  | [], _ => rfl
  | x :: r, h => by
    rw [List.mapM_cons, h x List.mem_cons_self, mapM_some_of f g r (fun y hy => h y (List.mem_cons_of_mem _ hy))]
    rfl

theorem find_of_mem_nodup {β : Type} : ∀ (l : List (Bytes × β)) (k : Bytes) (y : β),
    (l.map (·.1)).Nodup → (k, y) ∈ l → l.find? (·.1 == k) = some (k, y)
  | [], _, _, _, h => by cases h
  | (k0, y0) :: r, k, y, hnd, h => by
    simp only [List.map_cons, List.nodup_cons] at hnd
    rcases List.mem_cons.mp h with h | h
    · injection h with h1 h2; subst h1; subst h2
      simp
    · have hne : k0 ≠ k := fun e => hnd.1 (e ▸ List.mem_map.mpr ⟨(k, y), h, rfl⟩)
      have : (k0 == k) = false := by simpa using hne
      simp only [List.find?_cons, this]
      exact find_of_mem_nodup r k y hnd.2 h

theorem agree_map_core (m : Nat) (p : Prim) (ms : List (GoVal × GoVal)) (fin : List (Bytes × Unf.GoVal))
    (helem : ∀ x, hasPrim p x = true → agreeF "direct" m (primTy p) x x = true)
    (hms : ∀ m ∈ ms, hasEntry p m = true)
    (hnd : (ms.map fun m => getS m.1).Nodup)
    (hfin : fin.Perm (ms.map fun m => (getS m.1, trPrim p m.2))) :
    agreeF "direct" (m + 1) (.map .string (primTy p)) (.map ms) (.map (backMems fin)) = true := by
  rw [SF.Ops.Fu.agreeF.eq_def]
  simp only [under_map]
  rw [mapM_some_of _ (fun m : GoVal × GoVal => (getS m.1, m.2)) ms ?h1,
    mapM_some_of _ (fun m : GoVal × GoVal => (getS m.1, m.2)) (backMems fin) ?h2]
  case h1 =>
    intro m hm
    obtain ⟨a, b⟩ := m
    have := (hasEntry_key (hms (a, b) hm)).1
    cases a <;> simp [asStr] at this <;> rfl
  case h2 =>
    intro m hm
    rw [backMems_eq] at hm
    obtain ⟨m1, _, rfl⟩ := List.mem_map.mp hm
    rfl
  have hj : ("direct" == "json") = false := by decide
  have hys : (backMems fin).map (fun m : GoVal × GoVal => (getS m.1, m.2)) = fin.map fun m => (m.1, back m.2) := by
    rw [backMems_eq, List.map_map]; rfl
  have hp2 := hfin.map (fun m : Bytes × Unf.GoVal => (m.1, back m.2))
  have hndf : ((fin.map fun m => (m.1, back m.2)).map (·.1)).Nodup := by
    rw [(hp2.map (·.1)).nodup_iff]
    simpa [List.map_map, Function.comp_def] using hnd
  have hed : ((ms.map fun m => (getS m.1, m.2)).map (fun x => x.1)).eraseDups =
      (ms.map fun m => (getS m.1, m.2)).map (fun x => x.1) := by
    apply eraseDups_of_nodup
    simpa [List.map_map, Function.comp_def] using hnd
  have hlen : fin.length = ms.length := by simpa using hfin.length_eq
  simp only [hj, Bool.false_eq_true, if_false, Prod.eta, List.map_id', hys, hed, List.length_map, bne_self_eq_false,
    hlen, beq_self_eq_true, Bool.true_and]
  rw [List.all_eq_true]
  intro kx hkx
  obtain ⟨m0, h0, rfl⟩ := List.mem_map.mp hkx
  have hmem : (getS m0.1, m0.2) ∈ fin.map fun m => (m.1, back m.2) := by
    rw [hp2.mem_iff]
    simp only [List.map_map, List.mem_map, Function.comp]
    exact ⟨m0, h0, by rw [back_trPrim p m0.2 (hasEntry_key (hms m0 h0)).2]⟩
  dsimp only
  rw [find_of_mem_nodup _ _ _ hndf hmem]
  exact helem _ (hasEntry_key (hms m0 h0)).2

theorem agree_map (n : Nat) (p : Prim) (v : GoVal) (ms : List (GoVal × GoVal)) (fin : List (Bytes × Unf.GoVal))
    (hv : mapEntries? v = some ms) (hms : ∀ m ∈ ms, hasEntry p m = true)
    (hnd : (ms.map fun m => getS m.1).Nodup)
    (hfin : fin.Perm (ms.map fun m => (getS m.1, trPrim p m.2))) :
    agreeF "direct" (n + 2) (.map .string (primTy p)) v (back (Unf.mapSt (uPrimTy p) fin)) = true := by
  have hlen : fin.length = ms.length := by simpa using hfin.length_eq
  have hback : back (Unf.mapSt (uPrimTy p) fin) = if fin.isEmpty then .nilMap else .map (backMems fin) := by
    unfold Unf.mapSt; split <;> rfl
  rw [hback]
  have hj : ("direct" == "json") = false := by decide
  cases v with
  | nilMap =>
    have : ms = [] := by simpa [mapEntries?] using hv.symm
    subst this
    have : fin = [] := by simpa using hlen
    subst this
    rw [SF.Ops.Fu.agreeF.eq_def]
    simp [under_map, hj]
  | map ms' =>
    have : ms' = ms := by simpa [mapEntries?] using hv
    subst this
    cases hf : fin with
    | nil =>
      subst hf
      have : ms' = [] := by simpa using hlen.symm
      subst this
      rw [SF.Ops.Fu.agreeF.eq_def]
      simp [under_map, hj]
    | cons f0 fr =>
      rw [← hf]
      have hne : fin.isEmpty = false := by rw [hf]; rfl
      simp only [hne, Bool.false_eq_true, if_false]
      exact agree_map_core (n + 1) p ms' fin (fun x hx => agree_prim n p x hx) hms hnd hfin
  | _ => simp [mapEntries?] at hv

end SF.FuId
