/-
  Typed targets, part 10: the reflection frames — `nil` elements, `prepare` (one more slice element,
  a fresh cell), `process` (the prepared element is put into the map / behind the pointer).
-/
import SF.Proofs.UnfTyRefl
namespace SF.Unf
open SF

variable {D : Nat} {base : S6} {fs : List Frame} {c : Ctx}

theorem deref_index (c : Ctx) (p : Path) (et : GoType) (es h : List GoVal) (j : Nat) (x : GoVal)
    (hd : deref c p = some (.slice et es h)) (hx : es[j]? = some x) : deref c (p.push (.index j)) = some x := by
  unfold deref at hd ⊢
  cases hr : rootVal c p.root with
  | none => rw [hr] at hd; cases hd
  | some rv =>
    rw [hr] at hd
    simp only [Option.bind_some] at hd
    simp only [Path.push_root, Path.push_steps, hr, Option.bind_some, get_append, hd, GoVal.get, hx]

/-! ## `unfolderReflMapOnElem` -/

theorem reflMapSet_at (key : Bytes) (v : GoVal) (c : Ctx) (p : Path) (et : GoType) (ms : List (Bytes × GoVal))
    (hptr : c.value.current = some p) (hd : deref c p = some (.map et ms)) :
    reflMapSet key v c = .ok () (storeAt c p (.map et (mapSet ms key v))) := by
  simp [reflMapSet, bind_def, currentValue, hptr, load_def, hd, store_at_ok c p _ _ hd]

theorem mapNN_cases (m : GoVal) (h : Sh.mapNN.ok m) : ∃ et ms, m = .map et ms := by
  have h' : isMapNN m := (mapNN_ok m).mp h
  cases m <;> first | exact h'.elim | exact ⟨_, _, rfl⟩

/-- the pending key gets a value: the map entry is set, the frame waits for the next key -/
theorem rmE_set (e : GoType) (ru : RU) (p : Path) (key : Bytes) (v : GoVal)
    (h : Inv D base (.rmE e ru p key :: fs) c) :
    ∃ c', (popKey >>= fun k => reflMapSet k v >>= fun _ => setCurrentU (.reflMapOnKey e ru)) c = .ok () c' ∧
      Inv D base (.rmK e ru p :: fs) c' := by
  obtain ⟨hu, hp, hv, hk, hi, hb⟩ := s6_eq _ _ h.stacks
  simp only [stacksOf, Frame.push] at hu hp hv hk hi hb
  obtain ⟨m, hd, hok⟩ := h.top_deref
  have hd : deref c p = some m := hd
  obtain ⟨et, ms, rfl⟩ := mapNN_cases m hok
  have hd1 : deref { c with key := (stacksOf base fs).k } p = some (.map et ms) := (deref_congr c _ rfl p).trans hd
  have hrun : (popKey >>= fun k => reflMapSet k v >>= fun _ => setCurrentU (.reflMapOnKey e ru)) c =
      .ok () { storeAt { c with key := (stacksOf base fs).k } p (.map et (mapSet ms key v)) with
        unfolder := (stacksOf base fs).u.push (.reflMapOnKey e ru) } := by
    simp only [bind_def, popKey, hk, Stk.pop_push]
    rw [reflMapSet_at key v _ p et ms (by simp [hv]) hd1]
    simp [setCurrentU, modifyCtx, hu, Stk.push]
  refine ⟨_, hrun, h.replace_store (F' := .rmK e ru p) { c with key := (stacksOf base fs).k } rfl
    (.map et (mapSet ms key v)) ((mapNN_ok _).mpr trivial) rfl ((mapNN_ok _).mpr trivial) h.wfs.1 ?_ rfl rfl rfl rfl⟩
  exact s6_mk _ _ rfl (by simp [hp, stacksOf, Frame.push]) (by simp [hv, stacksOf, Frame.push])
    (by simp [stacksOf, Frame.push]) (by simp [hi, stacksOf, Frame.push]) (by simp [hb, stacksOf, Frame.push])

/-- `null` for a map value: the zero value is put -/
theorem nil_rmE (e : GoType) (ru : RU) (p : Path) (key : Bytes) (f : Nat)
    (h : Inv D base (.rmE e ru p key :: fs) c) :
    ∃ c', onScalar (f + 1) .nil c = .ok () c' ∧ Inv D base (.rmK e ru p :: fs) c' := by
  obtain ⟨hu, hp, hv, hk, hi, hb⟩ := s6_eq _ _ h.stacks
  simp only [stacksOf, Frame.push] at hu hp hv hk hi hb
  obtain ⟨c', hrun, hinv⟩ := rmE_set e ru p key (zero c.env e) h
  refine ⟨c', ?_, hinv⟩
  rw [← hrun]
  have hpk : popKey c = .ok key { c with key := (stacksOf base fs).k } := by simp [popKey, hk]
  simp [onScalar, bind_def, currentU, hu, zeroM, hpk]

/-! ## `unfolderReflPtr` -/

/-- `null` for a pointer: nil, the frame is gone -/
theorem nil_rp (e : GoType) (ru : RU) (p : Path) (f : Nat) (h : Inv D base (.rp e ru p :: fs) c) :
    ∃ c', onScalar (f + 1) .nil c = .ok () c' ∧ Inv D base fs c' := by
  obtain ⟨hu, hp, hv, hk, hi, hb⟩ := s6_eq _ _ h.stacks
  simp only [stacksOf, Frame.push] at hu hp hv hk hi hb
  obtain ⟨old, hd, _⟩ := h.top_deref
  have hd : deref c p = some old := hd
  have hrun : onScalar (f + 1) .nil c =
      .ok () { storeAt c p (.ptrNil e) with unfolder := (stacksOf base fs).u, value := (stacksOf base fs).v } := by
    simp [onScalar, bind_def, currentU, hu, currentValue, hv, store_at_ok c p _ _ hd, reflPtrCleanup, popValue, popU,
      pure_def]
  refine ⟨_, hrun, h.pop_store c rfl (.ptrNil e) (flat_ok _) ?_ rfl rfl rfl rfl⟩
  exact s6_mk _ _ rfl (by simp [hp]) rfl (by simp [hk]) (by simp [hi]) (by simp [hb])

end SF.Unf
