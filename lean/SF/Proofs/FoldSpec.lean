/-
  The specification (`Rules.foldF` …) on good types, one level at a time.
-/
import SF.Proofs.FoldUniv
import SF.Proofs.FoldList
namespace SF.FoldProofs
open SF SF.Gotype SF.Gotype.Rules

/-- the member a map entry folds to -/
def entryF (m : Nat) (reg : Bool) (e : GoType) (kx : GoVal × GoVal) : Except RuleErr (Bytes × RVal) :=
  match keyOf kx.1 with
  | .error err => .error err
  | .ok kb =>
    match foldF m reg e kx.2 with
    | .error err => .error err
    | .ok r => .ok (kb, r)

theorem entryF_eq (m : Nat) (reg : Bool) (e : GoType) :
    (fun (x : GoVal × GoVal) =>
      match x with
      | (kv, x) => do
        let kb ← keyOf kv
        let r ← foldF m reg e x
        pure (kb, r)) = entryF m reg e := by
  funext x
  obtain ⟨kv, x⟩ := x
  simp only [entryF, bind, Except.bind, pure, Except.pure]
  cases keyOf kv with
  | error e => rfl
  | ok kb => cases foldF m reg e x <;> rfl

theorem foldF_bool (m : Nat) (reg : Bool) (b : Bool) : foldF (m + 1) reg .bool (.bool b) = .ok (.bool b) := by
  rfl
theorem foldF_string (m : Nat) (reg : Bool) (b : Bytes) : foldF (m + 1) reg .string (.str b) = .ok (.str b) := by
  rfl
theorem foldF_int (m : Nat) (reg : Bool) (k : NumKind) (i : Int) : foldF (m + 1) reg (.int k) (.int i) = .ok (.int i) := by
  rfl
theorem foldF_f32 (m : Nat) (reg : Bool) (b : UInt32) : foldF (m + 1) reg .float32 (.f32 b) = .ok (.f32 b) := by
  rfl
theorem foldF_f64 (m : Nat) (reg : Bool) (b : UInt64) : foldF (m + 1) reg .float64 (.f64 b) = .ok (.f64 b) := by
  rfl
theorem foldF_slice_nil (m : Nat) (reg : Bool) (e : GoType) : foldF (m + 1) reg (.slice e) .nilSlice = .ok (.arr []) := by
  rfl
theorem foldF_slice (m : Nat) (reg : Bool) (e : GoType) (xs : List GoVal) :
    foldF (m + 1) reg (.slice e) (.slice xs) = (xs.mapM (foldF m reg e)).map .arr := by
  rfl
theorem foldF_array (m : Nat) (reg : Bool) (n : Nat) (e : GoType) (xs : List GoVal) :
    foldF (m + 1) reg (.array n e) (.array xs) = (xs.mapM (foldF m reg e)).map .arr := by
  rfl
theorem foldF_map_nil (m : Nat) (reg : Bool) (k e : GoType) :
    foldF (m + 1) reg (.map k e) .nilMap = if isStringKind k then .ok (.obj []) else .error .nonStringKey := by
  rfl
theorem foldF_map (m : Nat) (reg : Bool) (k e : GoType) (ms : List (GoVal × GoVal)) :
    foldF (m + 1) reg (.map k e) (.map ms) =
      if !isStringKind k then .error .nonStringKey else
      (ms.mapM (entryF m reg e)).map fun mems => .obj [(true, mems)] := by
  rw [← entryF_eq]; rfl
theorem foldF_ptr_nil_eq (m : Nat) (reg : Bool) (e : GoType) :
    foldF (m + 1) reg (.ptr e) .nilPtr =
      (match customOf reg e with
       | some (n, true) => customNil n
       | _ => .ok .null) := by
  rfl
theorem foldF_ptr_nil (m : Nat) (reg : Bool) (e : GoType) (h : customOf reg e = none) :
    foldF (m + 1) reg (.ptr e) .nilPtr = .ok .null := by
  rw [foldF_ptr_nil_eq, h]
theorem foldF_ptr (m : Nat) (reg : Bool) (e : GoType) (x : GoVal) :
    foldF (m + 1) reg (.ptr e) (.ptr x) = foldF m reg e x := by
  rfl
theorem foldF_iface_nil (m : Nat) (reg : Bool) : foldF (m + 1) reg .iface .nilIface = .ok .null := by
  rfl
theorem foldF_iface (m : Nat) (reg : Bool) (dt : GoType) (dv : GoVal) :
    foldF (m + 1) reg .iface (.iface dt dv) =
      match typeOk reg dt with
      | .error e => .error e
      | .ok () => foldF m reg dt dv := by
  rfl
theorem foldF_struct (m : Nat) (reg : Bool) (fs : List Field) (vs : List GoVal) :
    foldF (m + 1) reg (.struct fs) (.struct vs) =
      ((fs.zip vs).mapM fun (fx : Field × GoVal) => fieldF m reg fx.1 fx.2).map
        fun (segs : List (List Seg)) => .obj segs.flatten := by
  rfl

/-- a named type folds as its underlying type -/
theorem foldF_under (m : Nat) (reg : Bool) {sn : List String} {T : GoType} (h : goodT sn T = true)
    (v : GoVal) : foldF (m + 1) reg T v = foldF (m + 1) reg T.under v := by
  have h2 := (good_under h).1
  conv => lhs; unfold foldF
  conv => rhs; unfold foldF
  simp only [customOf_good reg h, customOf_good reg h2, under_under h]

end SF.FoldProofs
