/-
  C03 no-hang (UBJSON): stepObjectCountedContent.
-/
import SF.Proofs.UbjProgObj
namespace SF.Ubjson.Parse
open SF SF.Ubjson
open StateType StateStep

/-! ### counted and typed objects -/

theorem push_cur (ss : StateStack) (n : St) : (ss.push n).current = n := by
  simp only [StateStack.push]; split <;> rfl

/-- what a `done` result of the counted-object content guarantees to its caller: still the
same container on top, and real progress -/
def DoneOK (p : P) (b : Bytes) (r : R) : Prop :=
  r.done = true → r.err = none →
    (r.p.state.current.type = p.state.current.type ∧ r.p.state.current.step ≠ stStart ∧ Prg p b r.p r.rest)

theorem doneOK_false {p : P} {b : Bytes} {r : R} (h : r.done = false) : DoneOK p b r := by
  intro hd; rw [h] at hd; cases hd

/-- counted / typed object type, past the count -/
def CntTy (t : StateType) : Prop := t = stObjectCount ∨ t = stObjectTyped

/-- `fin` after at least one event has been delivered since `(p0, b0)` -/
theorem ocFin_delivered (p0 : P) (b0 : Bytes) (p : P) (end_ : Bool) (b : Bytes) (hg : G p)
    (hty : p.state.current.type = p0.state.current.type) (hst : p.state.current.step ≠ stStart)
    (hpot : pot p b ≤ pot p0 b0) (hev : p0.evs.length + 1 ≤ p.evs.length) :
    Step p0 b0 (ocFin p end_ b none) ∧ DoneOK p0 b0 (ocFin p end_ b none) := by
  unfold ocFin
  split
  · simp only [visit_eq]
    refine ⟨Step.visited (hg.addEv _) (.mk_deliver (by simpa [addEv, pot] using hpot) (by simp [addEv]; omega)), ?_⟩
    intro _ _
    exact ⟨hty, hst, Or.inr ⟨by simpa [addEv, pot] using hpot, by simp [addEv]; omega⟩⟩
  · exact ⟨Step.good hg (.mk_deliver (by simpa [pot] using hpot) hev), doneOK_false rfl⟩

/-- the end of the object: OnObjectFinished -/
theorem ocFin_end (p0 : P) (b0 : Bytes) (p : P) (b : Bytes) (hg : G p)
    (hty : p.state.current.type = p0.state.current.type) (hst : p.state.current.step ≠ stStart)
    (hpot : pot p b ≤ pot p0 b0) (hev : p0.evs.length ≤ p.evs.length) :
    Step p0 b0 (ocFin p true b none) ∧ DoneOK p0 b0 (ocFin p true b none) := by
  unfold ocFin
  simp only [if_true, visit_eq]
  refine ⟨Step.visited (hg.addEv _) (.mk_deliver (by simpa [addEv, pot] using hpot) (by simp [addEv]; omega)), ?_⟩
  intro _ _
  exact ⟨hty, hst, Or.inr ⟨by simpa [addEv, pot] using hpot, by simp [addEv]; omega⟩⟩

theorem ocFin_false (p : P) (b : Bytes) (err : Option Err) : ocFin p false b err = ⟨p, b, false, err⟩ := by
  simp [ocFin]

theorem ocAtFieldName_step (p0 : P) (p : P) (b : Bytes) (hg : G p) (ht : CntTy p.state.current.type)
    (hs : p.state.current.step = stFieldName) (hb : p.length.current ≠ 0 → b ≠ [])
    (hty : p.state.current.type = p0.state.current.type) (hbuf : p.buffer = p0.buffer)
    (hev : p0.evs.length ≤ p.evs.length) :
    Step p0 b (ocAtFieldName p b) ∧ DoneOK p0 b (ocAtFieldName p b) := by
  have hcur : p.state.current = ⟨p.state.current.type, stFieldName⟩ := by
    cases hc : p.state.current with | mk t st => simp [hc] at hs ⊢; exact hs
  unfold ocAtFieldName
  split
  · exact ocFin_end p0 b p b hg hty (by simp [hs]) (by simp [pot, hbuf]) hev
  · rename_i hl
    have hl' : p.length.current ≠ 0 := by simpa using hl
    simp only [ocFin_false]
    refine ⟨?_, doneOK_false rfl⟩
    have hc : ContOK p (p.state.current.withStep stFieldNameLen) := by
      refine ⟨?_, rfl, ?_⟩
      · rcases ht with h' | h' <;> simp [St.withStep, validSt, h']
      · rw [hcur]; rcases ht with h' | h' <;> rw [h'] <;> rfl
    refine ((stepLen_step p b _ hg hc (hb hl')).setDone false).from' hbuf hev ?_
    rw [hcur]; rcases ht with h' | h' <;> rw [h'] <;> simp [tS]

theorem ocValue_step (typed : Bool) (b : Bytes) (p : P) (hg : G p)
    (ht : p.state.current = ⟨if typed then stObjectTyped else stObjectCount, stCont⟩)
    (hb : typed = false → b ≠ []) : Step p b (ocValue typed b p) := by
  have hgs : G (setStep (decLen p) stFieldName) := by
    refine hg.decLen.setCurrent _ ?_ (by simp [decLen]) ?_
    · cases typed <;> simp [decLen, ht, validSt]
    · simp only [decLen, ht]; cases typed <;> rfl
  unfold ocValue
  simp only []
  split
  · rename_i hty
    subst hty
    have hp : pastHdr (setStep (decLen p) stFieldName).state.current = true := by
      simp [setStep, setCurrent, decLen, ht, pastHdr]
    have hst := hgs.elemStart hp
    simp only [ocFin_false]
    refine Step.good (hgs.pushState _ hst) (.mk_push (by rw [ht]; rfl) ?_ (by simp [pushState, setStep, setCurrent, decLen])
      (by simp [pushState, setStep, setCurrent, decLen]))
    have : (pushState (setStep (decLen p) stFieldName) (setStep (decLen p) stFieldName).valueState.current).state.current
        = p.valueState.current := by
      show ((setStep (decLen p) stFieldName).state.push _).current = _
      rw [push_cur]; rfl
    rw [this]; exact (isStart_facts hst).2.2.2
  · rename_i hty
    have hty' : typed = false := by simpa using hty
    simp only [ocFin_false]
    refine ((stepValue_step _ b hgs (hb hty')).setDone false).from' rfl (Nat.le_refl _) ?_
    simp [setStep, setCurrent, decLen, tS]

theorem stepObjectCountedContent_step (p : P) (b : Bytes) (typed : Bool) (hg : G p)
    (hgd : b ≠ [] ∨ pending p = true)
    (ht : p.state.current.type = if typed then stObjectTyped else stObjectCount)
    (hs : p.state.current.step = stWithLen ∨ p.state.current.step = stFieldName ∨
      p.state.current.step = stFieldNameLen ∨ p.state.current.step = stCont) :
    Step p b (stepObjectCountedContent p b typed) ∧ DoneOK p b (stepObjectCountedContent p b typed) := by
  have ht' : CntTy p.state.current.type := by cases typed <;> simp_all [CntTy]
  have hcur : ∀ s, p.state.current.step = s →
      p.state.current = ⟨if typed then stObjectTyped else stObjectCount, s⟩ := by
    intro s h; cases hc : p.state.current with | mk t st => simp [hc] at h ht ⊢; exact ⟨ht, h⟩
  rw [stepObjectCountedContent_eq]
  split
  · rename_i hs1
    simp only [visit_eq]
    rcases verr_cases p with h | h <;> rw [h] <;> simp only []
    · split
      · exact ocFin_delivered p b (addEv p _) _ b (hg.addEv _) rfl (by simp [addEv, hs1]) (by simp [addEv, pot])
          (by simp [addEv])
      · rename_i hl
        have hgs : G (setStep (addEv p (.objStart p.length.current BT.any)) stFieldName) := by
          refine (hg.addEv _).setCurrent _ ?_ (by simp [addEv]) ?_
          · rcases ht' with h' | h' <;> simp [addEv, validSt, h']
          · simp only [addEv]; rw [hcur _ hs1]; cases typed <;> rfl
        split
        · exact ocFin_delivered p b _ _ b hgs (by simp [setStep, setCurrent, addEv]) (by simp [setStep, setCurrent])
            (by simp [setStep, setCurrent, addEv, pot]) (by simp [setStep, setCurrent, addEv])
        · rename_i hne
          refine ocAtFieldName_step p _ b hgs (by simpa [setStep, setCurrent, addEv] using ht')
            (by simp [setStep, setCurrent]) (fun _ => by intro hc; simp [hc] at hne)
            (by simp [setStep, setCurrent, addEv]) (by simp [setStep, setCurrent, addEv])
            (by simp [setStep, setCurrent, addEv])
    · exact ⟨Step.error .visitor rfl (by decide), doneOK_false rfl⟩
  · rename_i hs1
    refine ocAtFieldName_step p p b hg ht' hs1 ?_ rfl rfl (Nat.le_refl _)
    intro hl
    rcases hgd with h | h
    · exact h
    · rcases ht' with h' | h' <;> simp [pending, h', hs1, hl] at h
  · rename_i hs1
    simp only [ocFin_false]
    refine ⟨(fieldName_step p b hg ?_ hs1 ?_).setDone false, doneOK_false rfl⟩
    · rcases ht' with h' | h'
      · exact Or.inr (Or.inl h')
      · exact Or.inr (Or.inr h')
    · intro hl
      rcases hgd with h | h
      · exact h
      · rcases ht' with h' | h' <;> simp [pending, h', hs1, hl] at h
  · rename_i hs1
    split
    · rename_i hty
      have hty' : typed = false := by simpa using hty
      cases b with
      | nil => exact ⟨Step.error .panic rfl (by decide), doneOK_false rfl⟩
      | cons x bs =>
        simp only []
        split
        · exact ⟨Step.good hg (.mk_consume (by simp; omega) (by simp)), doneOK_false rfl⟩
        · refine ⟨ocValue_step typed _ p hg (hcur _ hs1) (fun _ => by simp), ?_⟩
          apply doneOK_false
          simp only [ocValue, hty', Bool.false_eq_true, if_false, ocFin_false]
    · rename_i hty
      have hty' : typed = true := by simpa using hty
      refine ⟨ocValue_step typed _ p hg (hcur _ hs1) (fun h => by rw [hty'] at h; cases h), ?_⟩
      apply doneOK_false
      simp only [ocValue, hty', if_true, ocFin_false]
  · rename_i h1 h2 h3 h4
    rcases hs with h | h | h | h
    · exact (h1 h).elim
    · exact (h2 h).elim
    · exact (h3 h).elim
    · exact (h4 h).elim

end SF.Ubjson.Parse
