/-
  C11, JSON path, `[]T` and `map[string]T` for the float-free scalar kinds `T`: the composition at
  mirror level (Fold's ONE typed-array / typed-map event → JSON encoder through EnsureExtVisitor's
  expansion → bytes → JSON parser, one `Write` + end of input → events, one token each → Unfolder).
-/
import SF.Proofs.FuJsonRun
namespace SF.FuJson
open SF SF.Gotype SF.Gotype.Fold SF.FoldProofs SF.FuId
open SF.FuCbor (scEv scTree evToUEv_scEv feed_singles map_scEv_tokens arrX_expand)
open SF.Json.Grammar
open SF.Json.Enc (plain plainList plainMems toJ toABody toATail toOBody toOTail intLit strRaw sanitize)
open SF.Unf (Sc UEv PK Ctx newUnfolder setTarget typeFuel convList putAll memberEvents)
open SF.Ops.Unf (evToUEv xevToUEvs)
open SF.Ops.Fu (feed agreeF)

/-! ## encoder → parser for ONE extended event that the encoder expands into a tree's events -/

theorem codec_leg_x (e : SF.Json.Enc.Enc) (t : ETree) (x : XEv) (hp : plain t = true) (hw : e.w = {})
    (ha : e.inArray.current = false) (hx : SF.Json.Enc.step e x = SF.Json.Enc.execEvs e t.events) :
    ∃ s pr, SF.Json.Enc.run e [x] = (s, none, .ok) ∧ s.w.out = (toJ e t).wire ∧
      SF.Json.Parse.writeChunks {} [s.w.out] = (pr, none) ∧ IdleJ pr ∧
      SF.Json.Parse.events pr = (toJ e t).events := by
  obtain ⟨s, pr, h1, h2, h3, h4, h5⟩ := codec_leg e t hp hw ha
  have hfl : e.w.failFrom = none := by rw [hw]
  obtain ⟨w', e1, _, _⟩ := SF.Props.JsonEnc.json_encoder_doc_idle e t
    (SF.Json.Enc.plain_supported e _ hp) e ⟨rfl, rfl, rfl⟩ hfl ha
  have hrun := SF.Json.Enc.run_evs _ _ _ e1
  rw [hrun] at h1
  have hs : s = { e with w := w' } := by injection h1 with h1 _; exact h1.symm
  refine ⟨s, pr, ?_, h2, h3, h4, h5⟩
  simp only [SF.Json.Enc.run, SF.Json.Enc.run.go, hx, e1, hs]

/-! ## elements -/

theorem plain_elem (bytes : Bool) (p : Prim) (x : GoVal) (h : hasPrim p x = true) (hf : isFloatP p = false) :
    plain (scTree (scOfElem bytes p x)) = true := by
  cases p with
  | num k =>
    cases x <;> simp [hasPrim] at h
    rename_i v
    show (elemKind bytes k).inRange v = true
    unfold elemKind; split
    · rename_i hc; simp at hc; rw [hc.2] at h; exact h
    · exact h
  | f32 => cases hf
  | f64 => cases hf
  | _ => cases x <;> simp [hasPrim] at h <;> rfl

theorem conv_jsonSc_num (k : PK) (hk : k ≠ .ifc) (ek : NumKind) (v : Int) (hs : ek.inRange v = true) :
    k.conv (jsonSc (.num ek v)) = k.conv (.num ek v) := by
  have hb := SF.FuCbor.kind_bounds ek v hs
  have e1 : Unf.wrapTo (jk v) v = v := Unf.wrapTo_inRange _ _ (jk_inRange v hb.1 hb.2)
  have e2 : Unf.wrapTo ek v = v := Unf.wrapTo_inRange _ _ hs
  cases k <;> simp only [jsonSc, PK.conv, e1, e2]
  exact absurd rfl hk

theorem conv_json_elem (bytes : Bool) (p : Prim) (x : GoVal) (h : hasPrim p x = true) (hf : isFloatP p = false) :
    (pkOf p).conv (jsonSc (scOfElem bytes p x)) = some (trPrimJ p x) := by
  cases p with
  | num k =>
    have hpl := plain_elem bytes (.num k) x h hf
    show (pkOf (.num k)).conv (jsonSc (.num (elemKind bytes k) (getI x))) = _
    rw [conv_jsonSc_num _ (pkOf_ne_ifc _) _ _ hpl]
    exact conv_elem bytes (.num k) x h
  | f32 => cases hf
  | f64 => cases hf
  | _ => cases x <;> simp [hasPrim] at h <;> rfl

theorem convList_json (bytes : Bool) (p : Prim) (hf : isFloatP p = false) : ∀ (xs : List GoVal),
    (∀ x ∈ xs, hasPrim p x = true) →
    convList (pkOf p) ((xs.map (scOfElem bytes p)).map jsonSc) = some (xs.map (trPrimJ p))
  | [], _ => rfl
  | x :: r, h => by
    simp only [List.map_cons, convList, conv_json_elem bytes p x (h x List.mem_cons_self) hf,
      convList_json bytes p hf r (fun y hy => h y (List.mem_cons_of_mem _ hy))]

/-! ## the tree of a typed array of scalars and its JSON text -/

theorem plainList_scs : ∀ scs : List Sc, (∀ t ∈ scs, plain (scTree t) = true) → plainList (scs.map scTree) = true
  | [], _ => rfl
  | t :: r, h => by
    simp only [List.map_cons, plainList, h t List.mem_cons_self,
      plainList_scs r (fun y hy => h y (List.mem_cons_of_mem _ hy)), Bool.and_self]

theorem eventsList_scs : ∀ scs : List Sc, ETree.eventsList (scs.map scTree) = scs.map scEv
  | [] => rfl
  | t :: r => by
    simp only [List.map_cons, ETree.eventsList, scTree_events, eventsList_scs r, List.cons_append, List.nil_append]

theorem aTail_events (o : SF.Json.Enc.Enc) : ∀ scs : List Sc, (∀ t ∈ scs, plain (scTree t) = true) →
    ETree.eventsList (toATail o (scs.map scTree)).trees = (scs.map jsonSc).map scEv
  | [], _ => rfl
  | t :: r, h => by
    have h1 := toJ_events o t (h t List.mem_cons_self)
    simp only [J.events] at h1
    simp only [List.map_cons, toATail, ATail.trees, ETree.eventsList, h1,
      aTail_events o r (fun y hy => h y (List.mem_cons_of_mem _ hy)), List.cons_append, List.nil_append]

theorem aBody_events (o : SF.Json.Enc.Enc) (scs : List Sc) (h : ∀ t ∈ scs, plain (scTree t) = true) :
    ETree.eventsList (toABody o (scs.map scTree)).trees = (scs.map jsonSc).map scEv := by
  cases scs with
  | nil => rfl
  | cons t r =>
    have h1 := toJ_events o t (h t List.mem_cons_self)
    simp only [J.events] at h1
    simp only [List.map_cons, toABody, ABody.trees, ETree.eventsList, h1,
      aTail_events o r (fun y hy => h y (List.mem_cons_of_mem _ hy)), List.cons_append, List.nil_append]

/-- THE PARSER'S REPORT for the text of an array of float-free scalars: unknown length, element type
`any`, every integer as int64 / uint64, every string sanitised -/
theorem toJ_arr_events (o : SF.Json.Enc.Enc) (n : Int) (bt : Nat) (scs : List Sc)
    (h : ∀ t ∈ scs, plain (scTree t) = true) :
    (toJ o (.arr n bt (scs.map scTree))).events = .arrStart (-1) BT.any :: (scs.map jsonSc).map scEv ++ [.arrEnd] := by
  simp only [toJ, J.events, J.tree, ETree.events, aBody_events o scs h]

theorem step_arrX (e : SF.Json.Enc.Enc) (bytes : Bool) (p : Prim) (xs : List GoVal) :
    SF.Json.Enc.step e (arrX bytes p xs) = SF.Json.Enc.execEvs e (arrX bytes p xs).expand := by
  cases p <;> rfl

/-! ## STAGE 3: `[]T` -/

theorem slice_json_run (o : FoldOpts) (hfail : o.failAt = none) (e : SF.Json.Enc.Enc) (hw : e.w = {})
    (ha : e.inArray.current = false) (p : Prim) (hf : isFloatP p = false) (v : GoVal) (xs : List GoVal)
    (hv : sliceElems? v = some xs) (hxs : ∀ x ∈ xs, hasPrim p x = true) :
    ∃ c0 s pr, (impl o (.slice (primTy p)) v).res = .ok ∧
      setTarget tbl (.slice (uPrimTy p)) (Unf.zero tbl (.slice (uPrimTy p))) newUnfolder = .ok c0 ∧
      SF.Json.Enc.run e (impl o (.slice (primTy p)) v).evs = (s, none, .ok) ∧
      s.w.out = (toJ e (.arr xs.length (btOf true p) ((xs.map (scOfElem true p)).map scTree))).wire ∧
      s.w.out ≠ [] ∧
      SF.Json.Parse.writeChunks {} [s.w.out] = (pr, none) ∧ IdleJ pr ∧
      SF.Json.Parse.events pr = .arrStart (-1) BT.any ::
        ((xs.map (scOfElem true p)).map jsonSc).map scEv ++ [.arrEnd] ∧
      feed c0 ((SF.Json.Parse.events pr).map fun e => [evToUEv e]) =
        (doneCtx (Unf.sliceFin (uPrimTy p) (xs.map (trPrimJ p))), none) := by
  rw [impl_slice o hfail p v xs _ hv (arrEv_eq true p xs hxs)]
  have hsm : ∀ t ∈ xs.map (scOfElem true p), plain (scTree t) = true := by
    intro t ht
    obtain ⟨x, hx, rfl⟩ := List.mem_map.mp ht
    exact plain_elem true p x (hxs x hx) hf
  have hpl : plain (.arr xs.length (btOf true p) ((xs.map (scOfElem true p)).map scTree)) = true := by
    simp only [plain]; exact plainList_scs _ hsm
  have hev : (ETree.arr xs.length (btOf true p) ((xs.map (scOfElem true p)).map scTree)).events =
      (arrX true p xs).expand := by
    rw [arrX_expand]; simp only [ETree.events, eventsList_scs]
  obtain ⟨s, pr, h1, h2, h3, h4, h5⟩ := codec_leg_x e _ (arrX true p xs) hpl hw ha (by rw [hev]; exact step_arrX e true p xs)
  rw [toJ_arr_events e _ _ _ hsm] at h5
  have hne : s.w.out ≠ [] := by
    intro h0
    rw [h0] at h3
    have := empty_write_no_events
    rw [h3, h5] at this
    cases this
  refine ⟨_, s, pr, rfl, Unf.setTarget_sliceK tbl _ (pkOf p) _ newUnfolder (ofExact_uPrimTy p), h1, h2, hne, h3, h4, h5, ?_⟩
  rw [h5]
  have : ((Ev.arrStart (-1) BT.any :: ((xs.map (scOfElem true p)).map jsonSc).map scEv ++ [Ev.arrEnd]).map
        fun e => [evToUEv e]) =
      (UEv.arrStart (-1) BT.any :: ((xs.map (scOfElem true p)).map jsonSc).map UEv.scalar ++ [UEv.arrEnd]).map
        fun e => [e] := by
    rw [← map_scEv_tokens]
    simp [List.map_map, Function.comp_def, evToUEv]
  rw [this]
  apply feed_singles
  rw [typeFuel_succ]
  have hz0 : Unf.zero tbl (.slice (uPrimTy p)) = .sliceNil (uPrimTy p) := rfl
  rw [hz0, Unf.run_array_into_sliceK 255 tbl (pkOf p) (.sliceNil (uPrimTy p)) newUnfolder _ _ _ _ trivial rfl
    (by simp) (convList_json true p hf xs hxs)]
  rfl

/-! ## the oracle's comparison, `[]T` on the path "json" -/

theorem back_sliceFinJ (p : Prim) (xs : List GoVal) :
    back (Unf.sliceFin (uPrimTy p) (xs.map (trPrimJ p))) =
      if xs.isEmpty then .nilSlice else .slice (xs.map fun x => back (trPrimJ p x)) := by
  unfold Unf.sliceFin
  cases xs with
  | nil => rfl
  | cons x r =>
    simp only [List.map_cons, List.isEmpty_cons, Bool.false_eq_true, if_false, back, backList]
    rw [backList_map]

theorem zip_json_all (n : Nat) (p : Prim) (hf : isFloatP p = false) : ∀ xs : List GoVal, (∀ x ∈ xs, hasPrim p x = true) →
    ((xs.zip (xs.map fun x => back (trPrimJ p x))).all fun x => agreeF "json" (n + 1) (primTy p) x.1 x.2) = true
  | [], _ => rfl
  | x :: r, h => by
    simp only [List.map_cons, List.zip_cons_cons, List.all_cons, agree_json n p x (h x List.mem_cons_self) hf,
      Bool.true_and]
    exact zip_json_all n p hf r (fun y hy => h y (List.mem_cons_of_mem _ hy))

theorem agree_json_slice (n : Nat) (p : Prim) (hf : isFloatP p = false) (v : GoVal) (xs : List GoVal)
    (hv : sliceElems? v = some xs) (h : ∀ x ∈ xs, hasPrim p x = true) :
    agreeF "json" (n + 2) (.slice (primTy p)) v (back (Unf.sliceFin (uPrimTy p) (xs.map (trPrimJ p)))) = true := by
  rw [back_sliceFinJ p xs]
  have hz := zip_json_all n p hf xs h
  cases v with
  | nilSlice =>
    have : xs = [] := by simpa [sliceElems?] using hv.symm
    subst this
    simp [agreeF, GoType.under]
  | slice ys =>
    have : ys = xs := by simpa [sliceElems?] using hv
    subst this
    cases ys with
    | nil => simp [agreeF, GoType.under]
    | cons x r =>
      simp only [List.isEmpty_cons, Bool.false_eq_true, if_false]
      rw [SF.Ops.Fu.agreeF.eq_def]
      simp only [under_slice, List.length_map, beq_self_eq_true, Bool.true_and]
      exact hz
  | _ => simp [sliceElems?] at hv

/-! ## STAGE 4: `map[string]T` -/

open SF.FuCbor (memEvs memTrees eventsMems_memTrees memEvs_tokens isObjX isObjX_objX isObjX_reorder xevToUEvs_objX
  map_evToUEv_inj)

/-- a member after the JSON leg: the KEY sanitised too -/
def jm (m : Bytes × Sc) : Bytes × Sc := (sanitize m.1, jsonSc m.2)

theorem objX_expand (o : FoldOpts) (hord : hintOK o.order) (p : Prim) (ms : List (GoVal × GoVal))
    (hnd : (ms.map fun m => getS m.1).Nodup) :
    ∃ mems, mems.Perm (memsOf p ms) ∧ isObjX (reorderByHint (st0 o) (objX p ms)) = true ∧
      (reorderByHint (st0 o) (objX p ms)).expand = .objStart ms.length (btOf false p) :: memEvs mems ++ [.objEnd] := by
  obtain ⟨mems, htok, hperm⟩ := objX_tokens (st0 o) hord p ms hnd
  have hisobj := isObjX_reorder (st0 o) _ (isObjX_objX p ms)
  refine ⟨mems, hperm, hisobj, ?_⟩
  apply map_evToUEv_inj
  rw [← xevToUEvs_objX _ hisobj, htok]
  simp [evToUEv, memEvs_tokens]

theorem step_objX (e : SF.Json.Enc.Enc) (x : XEv) (h : isObjX x = true) :
    SF.Json.Enc.step e x = SF.Json.Enc.execEvs e x.expand := by
  cases x <;> simp [isObjX] at h <;> rfl

theorem plainMems_memTrees : ∀ mems : List (Bytes × Sc), (∀ m ∈ mems, plain (scTree m.2) = true) →
    plainMems (memTrees mems) = true
  | [], _ => rfl
  | (k, t) :: r, h => by
    have := plainMems_memTrees r (fun y hy => h y (List.mem_cons_of_mem _ hy))
    simp only [memTrees, List.map_cons, plainMems] at this ⊢
    rw [this, h (k, t) List.mem_cons_self]; rfl

theorem oTail_events (o : SF.Json.Enc.Enc) : ∀ mems : List (Bytes × Sc), (∀ m ∈ mems, plain (scTree m.2) = true) →
    ETree.eventsMems (toOTail o (memTrees mems)).members = memEvs (mems.map jm)
  | [], _ => rfl
  | (k, t) :: r, h => by
    have h1 := toJ_events o t (h (k, t) List.mem_cons_self)
    simp only [J.events] at h1
    have ih := oTail_events o r (fun y hy => h y (List.mem_cons_of_mem _ hy))
    simp only [memTrees] at ih
    simp only [memTrees, List.map_cons, toOTail, OTail.members, ETree.eventsMems, h1, ih,
      (SF.Json.Enc.strRaw_spec o.escapeHTML k).2, Option.getD_some, memEvs, jm, List.cons_append, List.nil_append]

theorem oBody_events (o : SF.Json.Enc.Enc) (mems : List (Bytes × Sc)) (h : ∀ m ∈ mems, plain (scTree m.2) = true) :
    ETree.eventsMems (toOBody o (memTrees mems)).members = memEvs (mems.map jm) := by
  cases mems with
  | nil => rfl
  | cons m r =>
    obtain ⟨k, t⟩ := m
    have h1 := toJ_events o t (h (k, t) List.mem_cons_self)
    simp only [J.events] at h1
    have ih := oTail_events o r (fun y hy => h y (List.mem_cons_of_mem _ hy))
    simp only [memTrees] at ih
    simp only [memTrees, List.map_cons, toOBody, OBody.members, ETree.eventsMems, h1, ih,
      (SF.Json.Enc.strRaw_spec o.escapeHTML k).2, Option.getD_some, memEvs, jm, List.cons_append, List.nil_append]

/-- THE PARSER'S REPORT for the text of an object of float-free scalars -/
theorem toJ_obj_events (o : SF.Json.Enc.Enc) (n : Int) (bt : Nat) (mems : List (Bytes × Sc))
    (h : ∀ m ∈ mems, plain (scTree m.2) = true) :
    (toJ o (.obj n bt (memTrees mems))).events = .objStart (-1) BT.any :: memEvs (mems.map jm) ++ [.objEnd] := by
  simp only [toJ, J.events, J.tree, ETree.events, oBody_events o mems h]

theorem putAll_some (k : PK) : ∀ (mems : List (Bytes × Sc)) (acc : List (Bytes × Unf.GoVal)),
    (∀ m ∈ mems, (k.conv m.2).isSome = true) → ∃ fin, putAll k mems acc = some fin
  | [], acc, _ => ⟨acc, rfl⟩
  | (key, s) :: r, acc, hc => by
    obtain ⟨w, hw⟩ := Option.isSome_iff_exists.mp (hc (key, s) List.mem_cons_self)
    simp only at hw
    simp only [putAll, hw]
    exact putAll_some k r _ (fun m hm => hc m (List.mem_cons_of_mem _ hm))

/-- the composition for `map[string]T`, WITHOUT any assumption on the sanitised keys: everything is
accepted; the target holds `fin`, what `put` per member (in the order delivered) leaves -/
theorem map_json_run (o : FoldOpts) (hfail : o.failAt = none) (hord : hintOK o.order) (e : SF.Json.Enc.Enc)
    (hw : e.w = {}) (ha : e.inArray.current = false) (p : Prim) (hf : isFloatP p = false) (v : GoVal)
    (ms : List (GoVal × GoVal)) (hv : mapEntries? v = some ms) (hms : ∀ m ∈ ms, hasEntry p m = true)
    (hnd : (ms.map fun m => getS m.1).Nodup) :
    ∃ c0 fin s pr mems, (impl o (.map .string (primTy p)) v).res = .ok ∧
      setTarget tbl (.map (uPrimTy p)) (Unf.zero tbl (.map (uPrimTy p))) newUnfolder = .ok c0 ∧
      mems.Perm (memsOf p ms) ∧
      (∀ m ∈ mems, ∃ m0 ∈ ms, m = (getS m0.1, scOfElem false p m0.2) ∧
        (pkOf p).conv (jsonSc m.2) = some (trPrimJ p m0.2)) ∧
      putAll (pkOf p) (mems.map jm) [] = some fin ∧
      SF.Json.Enc.run e (impl o (.map .string (primTy p)) v).evs = (s, none, .ok) ∧
      s.w.out = (toJ e (.obj ms.length (btOf false p) (memTrees mems))).wire ∧ s.w.out ≠ [] ∧
      SF.Json.Parse.writeChunks {} [s.w.out] = (pr, none) ∧ IdleJ pr ∧
      SF.Json.Parse.events pr = .objStart (-1) BT.any :: memEvs (mems.map jm) ++ [.objEnd] ∧
      feed c0 ((SF.Json.Parse.events pr).map fun e => [evToUEv e]) =
        (doneCtx (if ms.isEmpty then .mapNil (uPrimTy p) else .map (uPrimTy p) fin), none) := by
  rw [impl_map o hfail p v ms _ hv (objEv_eq p ms hms)]
  obtain ⟨mems, hperm, hisobj, hexp⟩ := objX_expand o hord p ms hnd
  have hlen : mems.length = ms.length := by simpa [memsOf] using hperm.length_eq
  have hmem : ∀ m ∈ mems, ∃ m0 ∈ ms, m = (getS m0.1, scOfElem false p m0.2) ∧
      (pkOf p).conv (jsonSc m.2) = some (trPrimJ p m0.2) := by
    intro m hm
    have := hperm.mem_iff.mp hm
    simp only [memsOf, List.mem_map] at this
    obtain ⟨m0, h0, rfl⟩ := this
    exact ⟨m0, h0, rfl, conv_json_elem false p m0.2 (hasEntry_key (hms m0 h0)).2 hf⟩
  have hsm : ∀ m ∈ mems, plain (scTree m.2) = true := by
    intro m hm
    obtain ⟨m0, h0, rfl, _⟩ := hmem m hm
    exact plain_elem false p m0.2 (hasEntry_key (hms m0 h0)).2 hf
  have hpl : plain (.obj ms.length (btOf false p) (memTrees mems)) = true := by
    simp only [plain]; exact plainMems_memTrees _ hsm
  have hev : (ETree.obj ms.length (btOf false p) (memTrees mems)).events =
      (reorderByHint (st0 o) (objX p ms)).expand := by
    rw [hexp]; simp only [ETree.events, eventsMems_memTrees]
  obtain ⟨s, pr, h1, h2, h3, h4, h5⟩ := codec_leg_x e _ _ hpl hw ha (by rw [hev]; exact step_objX e _ hisobj)
  rw [toJ_obj_events e _ _ _ hsm] at h5
  have hne : s.w.out ≠ [] := by
    intro h0
    rw [h0] at h3
    have := empty_write_no_events
    rw [h3, h5] at this
    cases this
  obtain ⟨fin, hput⟩ := putAll_some (pkOf p) (mems.map jm) [] (by
    intro m hm
    obtain ⟨m1, h1, rfl⟩ := List.mem_map.mp hm
    obtain ⟨m0, _, _, hc⟩ := hmem m1 h1
    simp only [jm, hc]; rfl)
  refine ⟨_, fin, s, pr, mems, rfl, Unf.setTarget_mapK tbl _ (pkOf p) _ newUnfolder (ofExact_uPrimTy p), hperm, hmem,
    hput, h1, h2, hne, h3, h4, h5, ?_⟩
  rw [h5]
  have : ((Ev.objStart (-1) BT.any :: memEvs (mems.map jm) ++ [Ev.objEnd]).map fun e => [evToUEv e]) =
      (UEv.objStart (-1) BT.any :: memberEvents (mems.map jm) ++ [UEv.objEnd]).map fun e => [e] := by
    rw [← memEvs_tokens]
    simp [List.map_map, Function.comp_def, evToUEv]
  rw [this]
  apply feed_singles
  have hz0 : Unf.zero tbl (.map (uPrimTy p)) = .mapNil (uPrimTy p) := rfl
  rw [typeFuel_succ, hz0,
    Unf.run_object_into_mapK 255 tbl (pkOf p) (.mapNil (uPrimTy p)) (uPrimTy p) [] _ newUnfolder _ _ _ rfl rfl hput]
  congr 1
  simp only [Unf.mapFinK, doneCtx]
  have : (mems.map jm).isEmpty = ms.isEmpty := by
    cases mems <;> cases ms <;> simp at hlen ⊢
  rw [this]

end SF.FuJson
