/-
  UBJSON refinement: single steps on explicit configurations — arrays (plain, counted,
  typed) and the typed-container header.
-/
import SF.Proofs.UbjRefScalar
namespace SF.Ubjson.Parse
open SF SF.Ubjson SF.Ubjson.Syn
open StateType StateStep

section arr
variable (S : List St) (VS : StateStack) (LS : List Int) (lc : Int) (vt : Nat) (E : List Ev)

/-! ### '[' : stepArrayInit -/

theorem step_arrInit_count (bs : Bytes) :
    execStep (mk S ⟨stArray, stStart⟩ VS LS lc vt E) (countMarker :: bs) =
      ⟨mk S ⟨stArrayCount, stStart⟩ VS LS lc vt E, bs, false, none⟩ := by
  simp +decide [execStep, stepArrayInit, mk, setType, setCurrent]

theorem step_arrInit_typed (bs : Bytes) :
    execStep (mk S ⟨stArray, stStart⟩ VS LS lc vt E) (typeMarker :: bs) =
      ⟨mk S ⟨stArrayTyped, stStart⟩ VS LS lc vt E, bs, false, none⟩ := by
  simp +decide [execStep, stepArrayInit, mk, setType, setCurrent]

theorem step_arrInit_dyn (b0 : UInt8) (bs : Bytes) (h1 : (b0 == countMarker) = false)
    (h2 : (b0 == typeMarker) = false) :
    execStep (mk S ⟨stArray, stStart⟩ VS LS lc vt E) (b0 :: bs) =
      ⟨mk S ⟨stArrayDyn, stStart⟩ VS LS lc vt (.arrStart (-1) BT.any :: E), b0 :: bs, false, none⟩ := by
  simp [execStep, stepArrayInit, mk, setType, setCurrent, h1, h2, visit]

/-! ### plain arrays: stepArrayDyn -/

theorem step_arrDyn_start (b0 : UInt8) (bs : Bytes) :
    execStep (mk S ⟨stArrayDyn, stStart⟩ VS LS lc vt E) (b0 :: bs) =
      execStep (mk S ⟨stArrayDyn, stCont⟩ VS LS lc vt E) (b0 :: bs) := by
  have : dispatch (mk S ⟨stArrayDyn, stStart⟩ VS LS lc vt E) (b0 :: bs) =
      dispatch (mk S ⟨stArrayDyn, stCont⟩ VS LS lc vt E) (b0 :: bs) := by
    simp only [dispatch, stepArrayDyn, mk, setStep, setCurrent, visit, popState, StateStack.pop]
    by_cases h : (b0 == arrEndMarker) = true
    · simp [h]
    · simp [h]
  rw [execStep_eq, execStep_eq, this]

theorem step_arrDyn_end (c : St) (bs : Bytes) :
    execStep (mk (c :: S) ⟨stArrayDyn, stCont⟩ VS LS lc vt E) (arrEndMarker :: bs) =
      ret S c VS LS lc vt (.arrEnd :: E) bs := by
  simp [execStep, stepArrayDyn, mk, visit, popState, StateStack.pop, ret]

theorem step_arrDyn_noop (bs : Bytes) :
    execStep (mk S ⟨stArrayDyn, stCont⟩ VS LS lc vt E) (noopMarker :: bs) =
      ⟨mk S ⟨stArrayDyn, stCont⟩ VS LS lc vt E, bs, false, none⟩ := by
  simp +decide [execStep, stepArrayDyn, mk, stepValue, markerToStartState]

/-- an element: stepValue, `done` forced to false (the stored error is only touched when
stepValue fails) -/
theorem step_arrDyn_value (b0 : UInt8) (bs : Bytes) (h : (b0 == arrEndMarker) = false)
    (he : (stepValue (mk S ⟨stArrayDyn, stCont⟩ VS LS lc vt E) (b0 :: bs)).err = none) :
    execStep (mk S ⟨stArrayDyn, stCont⟩ VS LS lc vt E) (b0 :: bs) =
      { stepValue (mk S ⟨stArrayDyn, stCont⟩ VS LS lc vt E) (b0 :: bs) with done := false } := by
  rw [execStep_eq]
  have : dispatch (mk S ⟨stArrayDyn, stCont⟩ VS LS lc vt E) (b0 :: bs) =
      { stepValue (mk S ⟨stArrayDyn, stCont⟩ VS LS lc vt E) (b0 :: bs) with done := false } := by
    simp [dispatch, stepArrayDyn, mk, h]
  rw [this]
  simp only [he]

end arr

section arrc
variable (S : List St) (VS : StateStack) (LS : List Int) (lc : Int) (vt : Nat) (E : List Ev)

/-! ### counted arrays: stepArrayCount -/

theorem step_arrCount_len (w : LW) (n : Nat) (h : w.fits n = true) (rest : Bytes) :
    execStep (mk S ⟨stArrayCount, stStart⟩ VS LS lc vt E) (lenWire w n ++ rest) =
      ⟨mk S ⟨stArrayCount, stWithLen⟩ VS (lc :: LS) n vt E, rest, false, none⟩ := by
  have hl := stepLen_lenWire S ⟨stArrayCount, stStart⟩ VS LS lc vt E w n h rest ⟨stArrayCount, stWithLen⟩
  rw [execStep_eq]
  have : dispatch (mk S ⟨stArrayCount, stStart⟩ VS LS lc vt E) (lenWire w n ++ rest) =
      ⟨mk S ⟨stArrayCount, stWithLen⟩ VS (lc :: LS) n vt E, rest, false, none⟩ := by
    simp only [dispatch, mk] at hl ⊢
    simp only [stepArrayCount, St.withStep, beq_self_eq_true, if_true, hl]
  rw [this]

/-- the `stWithLen` step = the `stCont` step with OnArrayStart delivered (unless the step
only announces the array: elements expected, input used up) -/
theorem step_arrCount_withLen (b : Bytes) (h : lc = 0 ∨ b ≠ []) :
    execStep (mk S ⟨stArrayCount, stWithLen⟩ VS LS lc vt E) b =
      execStep (mk S ⟨stArrayCount, stCont⟩ VS LS lc vt (.arrStart lc BT.any :: E)) b := by
  have hcond : (decide (lc > 0) && b.isEmpty) = false := by
    rcases h with h | h
    · simp [h]
    · cases b with
      | nil => exact absurd rfl h
      | cons a l => simp
  have : dispatch (mk S ⟨stArrayCount, stWithLen⟩ VS LS lc vt E) b =
      dispatch (mk S ⟨stArrayCount, stCont⟩ VS LS lc vt (.arrStart lc BT.any :: E)) b := by
    simp +decide only [dispatch, mk, stepArrayCount_eq, acContent, setStep, setCurrent, visit, hcond]
    simp
  rw [execStep_eq, execStep_eq, this]

theorem step_arrCount_end (c : St) (l0 : Int) (b : Bytes) :
    execStep (mk (c :: S) ⟨stArrayCount, stCont⟩ VS (l0 :: LS) 0 vt E) b =
      ret S c VS LS l0 vt (.arrEnd :: E) b := by
  simp +decide [execStep, stepArrayCount, mk, visit, popLenState, popLen, popState, StateStack.pop,
    Cbor.LenStack.pop, ret]

theorem step_arrCount_noop (bs : Bytes) (h : lc ≠ 0) :
    execStep (mk S ⟨stArrayCount, stCont⟩ VS LS lc vt E) (noopMarker :: bs) =
      ⟨mk S ⟨stArrayCount, stCont⟩ VS LS lc vt E, bs, false, none⟩ := by
  simp +decide [execStep, stepArrayCount, mk, h]

theorem step_arrCount_value (b0 : UInt8) (bs : Bytes) (h : lc ≠ 0) (hn : (b0 == noopMarker) = false)
    (he : (stepValue (mk S ⟨stArrayCount, stCont⟩ VS LS (lc - 1) vt E) (b0 :: bs)).err = none) :
    execStep (mk S ⟨stArrayCount, stCont⟩ VS LS lc vt E) (b0 :: bs) =
      { stepValue (mk S ⟨stArrayCount, stCont⟩ VS LS (lc - 1) vt E) (b0 :: bs) with done := false } := by
  rw [execStep_eq]
  have : dispatch (mk S ⟨stArrayCount, stCont⟩ VS LS lc vt E) (b0 :: bs) =
      { stepValue (mk S ⟨stArrayCount, stCont⟩ VS LS (lc - 1) vt E) (b0 :: bs) with done := false } := by
    simp +decide [dispatch, stepArrayCount, mk, h, hn, decLen]
  rw [this]
  simp only [he]

end arrc

section typed
variable (S : List St) (VS : StateStack) (LS : List Int) (lc : Int) (vt : Nat) (E : List Ev)

/-! ### typed containers: the `$ t # n` header (arrays and objects) -/

theorem step_typed_type (ty : StateType) (hty : ty = stArrayTyped ∨ ty = stObjectTyped)
    (t : UInt8) (st : St) (bs : Bytes) (ht : markerToStartState t = some st)
    (hn : (t == noopMarker) = false) :
    execStep (mk S ⟨ty, stStart⟩ VS LS lc vt E) (t :: bs) =
      ⟨mk S ⟨ty, stWithType0⟩ (VS.push st) LS lc (markerToBaseType t) E, bs, false, none⟩ := by
  rcases hty with rfl | rfl <;>
    simp +decide [execStep, stepArrayTyped, stepObjectTyped, stepTypeLenHeader, stepType, mk, ht, hn,
      setCurrent, St.withStep]

theorem step_typed_hash (ty : StateType) (hty : ty = stArrayTyped ∨ ty = stObjectTyped) (bs : Bytes) :
    execStep (mk S ⟨ty, stWithType0⟩ VS LS lc vt E) (countMarker :: bs) =
      ⟨mk S ⟨ty, stWithType1⟩ VS LS lc vt E, bs, false, none⟩ := by
  rcases hty with rfl | rfl <;>
    simp +decide [execStep, stepArrayTyped, stepObjectTyped, stepTypeLenHeader, mk, setCurrent, St.withStep]

theorem step_typed_len (ty : StateType) (hty : ty = stArrayTyped ∨ ty = stObjectTyped)
    (w : LW) (n : Nat) (h : w.fits n = true) (rest : Bytes) :
    execStep (mk S ⟨ty, stWithType1⟩ VS LS lc vt E) (lenWire w n ++ rest) =
      ⟨mk S ⟨ty, stWithLen⟩ VS (lc :: LS) n vt E, rest, false, none⟩ := by
  have hl := stepLen_lenWire S ⟨ty, stWithType1⟩ VS LS lc vt E w n h rest ⟨ty, stWithLen⟩
  rw [execStep_eq]
  have : dispatch (mk S ⟨ty, stWithType1⟩ VS LS lc vt E) (lenWire w n ++ rest) =
      ⟨mk S ⟨ty, stWithLen⟩ VS (lc :: LS) n vt E, rest, false, none⟩ := by
    simp only [mk] at hl ⊢
    rcases hty with rfl | rfl <;>
      simp +decide [dispatch, stepArrayTyped, stepObjectTyped, stepTypeLenHeader, St.withStep, hl]
  rw [this]

/-! ### typed arrays: content -/

theorem step_arrTyped_withLen (b : Bytes) :
    execStep (mk S ⟨stArrayTyped, stWithLen⟩ VS LS lc vt E) b =
      execStep (mk S ⟨stArrayTyped, stCont⟩ VS LS lc vt (.arrStart lc vt :: E)) b := by
  have : dispatch (mk S ⟨stArrayTyped, stWithLen⟩ VS LS lc vt E) b =
      dispatch (mk S ⟨stArrayTyped, stCont⟩ VS LS lc vt (.arrStart lc vt :: E)) b := by
    simp +decide only [dispatch, mk, stepArrayTyped_eq, atContent, setStep, setCurrent, visit]
    simp
  rw [execStep_eq, execStep_eq, this]

theorem step_arrTyped_end (c : St) (l0 : Int) (b : Bytes) :
    execStep (mk (c :: S) ⟨stArrayTyped, stCont⟩ VS (l0 :: LS) 0 vt E) b =
      ret S c VS.pop LS l0 vt (.arrEnd :: E) b := by
  simp +decide [execStep, stepArrayTyped, mk, visit, popLenState, popLen, popState, popValueState,
    StateStack.pop, Cbor.LenStack.pop, ret]

/-- the next element: its start state is pushed, no input consumed -/
theorem step_arrTyped_elem (b : Bytes) (h : lc ≠ 0) :
    execStep (mk S ⟨stArrayTyped, stCont⟩ VS LS lc vt E) b =
      ⟨mk (⟨stArrayTyped, stCont⟩ :: S) VS.current VS LS (lc - 1) vt E, b, false, none⟩ := by
  simp +decide [execStep, stepArrayTyped, mk, h, decLen, pushState, StateStack.push]

end typed
end SF.Ubjson.Parse
