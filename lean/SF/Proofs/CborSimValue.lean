/-
  Simulation of `stepValue` (first byte of a value) and `initMapKey` (first byte of a key)
  on ghost contexts.
-/
import SF.Proofs.CborSimBase
set_option linter.unusedSimpArgs false
namespace SF.Cbor.Sim
open SF SF.Cbor SF.Cbor.Cst SF.Cbor.Parse

theorem byte_split (b0 : UInt8) : ∃ m a, m < 8 ∧ a < 32 ∧ b0 = ib m a := by
  refine ⟨b0.toNat / 32, b0.toNat % 32, ?_, Nat.mod_lt _ (by omega), ?_⟩
  · have := b0.toNat_lt; omega
  · have : b0.toNat / 32 * 32 + b0.toNat % 32 = b0.toNat := by omega
    simp [ib, this]

theorem exists_w (a : Nat) (h1 : 24 ≤ a) (h2 : a ≤ 27) : ∃ w : W, w ≠ .imm ∧ w.ai 0 = a := by
  have : a = 24 ∨ a = 25 ∨ a = 26 ∨ a = 27 := by omega
  rcases this with rfl | rfl | rfl | rfl
  · exact ⟨.w1, by simp, rfl⟩
  · exact ⟨.w2, by simp, rfl⟩
  · exact ⟨.w4, by simp, rfl⟩
  · exact ⟨.w8, by simp, rfl⟩

theorem ai_const (w : W) (hw : w ≠ .imm) (n : Nat) : w.ai n = w.ai 0 := by
  cases w <;> simp_all [W.ai]

/-! ### refused initial bytes -/

theorem stepValue_reserved (q : P) (m : Nat) (hm : m < 6) (a : Nat) (ha : 28 ≤ a)
    (ha' : a ≤ 30 ∨ (m < 2 ∧ a ≤ 31)) (bs : Bytes) :
    (stepValue q (ib m a :: bs)).err ≠ none := by
  have ha32 : a < 32 := by omega
  have h1 := ib_major' (m := m) (a := a) (by omega) ha32
  have h2 := ib_minor' (m := m) (a := a) (by omega) ha32
  have hgt : len64b < UInt8.ofNat a := (ofNat_gt_len64b ha32).mpr (by omega)
  have hnl : ¬ (UInt8.ofNat a < len8b) := by rw [ofNat_lt_len8b ha32]; omega
  have hlt0 : ¬ (ib 0 a < len8b) := by
    rw [UInt8.lt_iff_toNat_lt, ib_toNat (by omega) ha32]; simp [len8b]; omega
  have h6 : m = 0 ∨ m = 1 ∨ m = 2 ∨ m = 3 ∨ m = 4 ∨ m = 5 := by omega
  rcases h6 with rfl | rfl | rfl | rfl | rfl | rfl
  · simp +decide [stepValue, h1, h2, hgt, hlt0]
  · simp +decide [stepValue, h1, h2, hgt, hnl]
  all_goals
    have hni : ¬ (UInt8.ofNat a = lenIndef) := by
      intro h'
      have := congrArg UInt8.toNat h'
      rw [ofNat_toNat_small (by omega)] at this
      simp [lenIndef] at this; omega
  · simp +decide [stepValue, h1, h2, hni, initByteSeq, hgt, hnl]
  · simp +decide [stepValue, h1, h2, hni, initByteSeq, hgt, hnl]
  · simp +decide [stepValue, h1, h2, hni, initSub, hgt, hnl]
  · simp +decide [stepValue, h1, h2, hni, initSub, hgt, hnl]

theorem stepValue_indefStr (q : P) (m : Nat) (hm : m = 2 ∨ m = 3) (bs : Bytes) :
    (stepValue q (ib m 31 :: bs)).err ≠ none := by
  have h1 : ((0x5f : UInt8) &&& majorMask) = 0x40 := by decide
  have h2 : ((0x7f : UInt8) &&& majorMask) = 0x60 := by decide
  have h3 : ((0x5f : UInt8) &&& minorMask) = 31 := by decide
  have h4 : ((0x7f : UInt8) &&& minorMask) = 31 := by decide
  rcases hm with rfl | rfl
  · have : ib 2 31 = 0x5f := by decide
    rw [this]; simp +decide [stepValue, h1, h3]
  · have : ib 3 31 = 0x7f := by decide
    rw [this]; simp +decide [stepValue, h2, h4]

theorem stepValue_tag (q : P) (a : Nat) (ha : a < 32) (bs : Bytes) :
    (stepValue q (ib 6 a :: bs)).err ≠ none := by
  have h1 := ib_major' (m := 6) (a := a) (by omega) ha
  have : UInt8.ofNat (6 * 32) = majorTag := by decide
  rw [this] at h1
  simp +decide [stepValue, h1]

theorem stepValue_other (q : P) (b0 : UInt8) (hm : (b0 &&& majorMask) = 0xe0)
    (h1 : b0 ≠ 0xf4) (h2 : b0 ≠ 0xf5) (h3 : b0 ≠ 0xf6) (h4 : b0 ≠ 0xf7) (h5 : b0 ≠ 0xfa)
    (h6 : b0 ≠ 0xfb) (bs : Bytes) : (stepValue q (b0 :: bs)).err ≠ none := by
  simp only [stepValue, hm]
  simp +decide [codeFalse, codeTrue, codeNull, codeUndef, codeSingleFloat, codeDoubleFloat, h1, h2, h3,
    h4, h5, h6]
  split <;> simp


/-! ### completed scalars -/

theorem scalar_sim (fs : List Cont) (hfs : contsValid fs) (t : Item) (ht : okw t = true) (p : P)
    (hr : RelL p (contsSts fs) (contsLens fs) []) (ev : Ev) (b used rest : Bytes)
    (hb : b = used ++ rest) (pre : Bytes) (hw : contsWire fs ++ t.wire = pre ++ used) (pend : Bool)
    (hm : used ≠ [] ∨ pend = true) : SimR pre b (scalar p ev rest) pend := by
  unfold scalar
  have hv := hr.visit ev
  rcases hvis : visit p ev with ⟨p2, _ | e⟩
  · rw [hvis] at hv
    exact finish_value fs hfs t ht _ b used rest hb (onValueR_sim fs hfs t p2 hv rest) pre hw pend hm
  · exact Or.inl (by simp)

theorem scalarPop_sim (fs : List Cont) (hfs : contsValid fs) (t : Item) (ht : okw t = true) (p : P)
    (s : St) (hr : RelL p (s :: contsSts fs) (contsLens fs) []) (ev : Ev) (b used rest : Bytes)
    (hb : b = used ++ rest) (pre : Bytes) (hw : contsWire fs ++ t.wire = pre ++ used) (pend : Bool)
    (hm : used ≠ [] ∨ pend = true) : SimR pre b (scalarPop p ev rest) pend := by
  unfold scalarPop
  have hv := hr.visit ev
  rcases hvis : visit p ev with ⟨p2, _ | e⟩
  · rw [hvis] at hv
    exact finish_value fs hfs t ht _ b used rest hb (popStateR_sim fs hfs t p2 s hv rest) pre hw pend hm
  · exact Or.inl (by simp)

/-- the step pushed states only -/
theorem push_case (c : Ctx) (hc : c.Valid) (p' : P) (hrel : Rel p' c) (b0 : UInt8) (bs pre : Bytes)
    (hw : c.wire = pre ++ [b0]) (pend : Bool) :
    SimR pre (b0 :: bs) { p := p', rest := bs } pend :=
  finish_cont c hc _ (b0 :: bs) [b0] rfl (fun _ => ⟨rfl, hrel⟩) pre hw pend (Or.inl (by simp))

theorem fits_imm (a : Nat) (ha : a < 24) : lenOk .imm a := ⟨by simp [W.fits, ha], by omega⟩

/-- SIMULATION of `stepValue` on the first byte of a value, in a state whose stacks are
those of the containers `fs` -/
theorem value_sim (fs : List Cont) (hfs : contsValid fs) (p : P)
    (hr : RelL p (contsSts fs) (contsLens fs) []) (b0 : UInt8) (bs : Bytes) (pend : Bool) :
    SimR (contsWire fs) (b0 :: bs) (stepValue p (b0 :: bs)) pend := by
  obtain ⟨m, a, hm, ha, rfl⟩ := byte_split b0
  obtain ⟨s0, S0, hS0, hs0⟩ := contsSts_ne_fail fs
  have hr0 := hr
  rw [hS0] at hr0
  have h8 : m = 0 ∨ m = 1 ∨ m = 2 ∨ m = 3 ∨ m = 4 ∨ m = 5 ∨ m = 6 ∨ m = 7 := by omega
  rcases h8 with rfl | rfl | rfl | rfl | rfl | rfl | rfl | rfl
  · -- unsigned
    by_cases h24 : a < 24
    · rw [stepValue_uint_imm p a h24]
      exact scalar_sim fs hfs (.uint .imm a) (by simp [okw, W.fits, h24]) p hr _ _ [ib 0 a] bs rfl _
        (by simp [Item.wire, head_eq, W.ai, W.bytes, beBytes]) pend (Or.inl (by simp))
    · by_cases h27 : a ≤ 27
      · obtain ⟨w, hw, rfl⟩ := exists_w a (by omega) h27
        rw [stepValue_uint_w p _ (by omega) h27]
        refine push_case ⟨fs, .arg .uint w []⟩ ⟨hfs, hw, W.bytes_pos w hw⟩ _ ?_ _ bs _ ?_ pend
        · have := hr0.push hs0 ⟨majorUint, UInt8.ofNat (w.ai 0)⟩
          rw [← hS0] at this
          exact this
        · simp [Ctx.wire, Top.wire, ArgK.m]
      · exact Or.inl (stepValue_reserved p 0 (by omega) a (by omega) (Or.inr ⟨by omega, by omega⟩) bs)
  · -- negative
    by_cases h24 : a < 24
    · rw [stepValue_neg_imm p a h24]
      exact scalar_sim fs hfs (.nint .imm a) (by simp [okw, W.fits, h24]; omega) p hr _ _ [ib 1 a] bs rfl _
        (by simp [Item.wire, head_eq, W.ai, W.bytes, beBytes]) pend (Or.inl (by simp))
    · by_cases h27 : a ≤ 27
      · obtain ⟨w, hw, rfl⟩ := exists_w a (by omega) h27
        rw [stepValue_neg_w p _ (by omega) h27]
        refine push_case ⟨fs, .arg .nint w []⟩ ⟨hfs, hw, W.bytes_pos w hw⟩ _ ?_ _ bs _ ?_ pend
        · have := hr0.push hs0 ⟨majorNeg, UInt8.ofNat (w.ai 0)⟩
          rw [← hS0] at this
          exact this
        · simp [Ctx.wire, Top.wire, ArgK.m]
      · exact Or.inl (stepValue_reserved p 1 (by omega) a (by omega) (Or.inr ⟨by omega, by omega⟩) bs)
  · -- byte strings
    by_cases h27 : a ≤ 27
    · rw [stepValue_seq p 2 (Or.inl rfl) a h27, ofNat_64]
      by_cases h24 : a < 24
      · have h3 : (UInt8.ofNat a < len8b) := (ofNat_lt_len8b (by omega)).mpr h24
        simp only [initByteSeq, h3, if_true, or_bytesStart, ofNat_toNat_small (show a < 256 by omega)]
        refine push_case ⟨fs, .startStr false .imm a⟩ ⟨hfs, fits_imm a h24⟩ _ ?_ _ bs _ ?_ pend
        · have := (hr0.push hs0 ⟨0x44, stStart⟩).pushLen a
          rw [← hS0] at this
          exact this
        · simp [Ctx.wire, Top.wire, head_eq, W.ai, W.bytes, beBytes]
      · obtain ⟨w, hw, rfl⟩ := exists_w a (by omega) h27
        have h3 : ¬ (UInt8.ofNat (w.ai 0) < len8b) := by rw [ofNat_lt_len8b (by omega)]; omega
        have h5 : ¬ (UInt8.ofNat (w.ai 0) > len64b) := by rw [ofNat_gt_len64b (by omega)]; omega
        simp only [initByteSeq, h3, h5, if_false, or_bytesStart]
        refine push_case ⟨fs, .arg .lenBytes w []⟩ ⟨hfs, hw, W.bytes_pos w hw⟩ _ ?_ _ bs _ ?_ pend
        · have := (hr0.push hs0 ⟨0x44, stStart⟩).push (by decide) ⟨stLen, UInt8.ofNat (w.ai 0)⟩
          rw [← hS0] at this
          exact this
        · simp [Ctx.wire, Top.wire, ArgK.m]
    · by_cases h31 : a = 31
      · subst h31; exact Or.inl (stepValue_indefStr p 2 (Or.inl rfl) bs)
      · exact Or.inl (stepValue_reserved p 2 (by omega) a (by omega) (Or.inl (by omega)) bs)
  · -- text strings
    by_cases h27 : a ≤ 27
    · rw [stepValue_seq p 3 (Or.inr rfl) a h27, ofNat_96]
      by_cases h24 : a < 24
      · have h3 : (UInt8.ofNat a < len8b) := (ofNat_lt_len8b (by omega)).mpr h24
        simp only [initByteSeq, h3, if_true, or_textStart, ofNat_toNat_small (show a < 256 by omega)]
        refine push_case ⟨fs, .startStr true .imm a⟩ ⟨hfs, fits_imm a h24⟩ _ ?_ _ bs _ ?_ pend
        · have := (hr0.push hs0 ⟨0x64, stStart⟩).pushLen a
          rw [← hS0] at this
          exact this
        · simp [Ctx.wire, Top.wire, head_eq, W.ai, W.bytes, beBytes]
      · obtain ⟨w, hw, rfl⟩ := exists_w a (by omega) h27
        have h3 : ¬ (UInt8.ofNat (w.ai 0) < len8b) := by rw [ofNat_lt_len8b (by omega)]; omega
        have h5 : ¬ (UInt8.ofNat (w.ai 0) > len64b) := by rw [ofNat_gt_len64b (by omega)]; omega
        simp only [initByteSeq, h3, h5, if_false, or_textStart]
        refine push_case ⟨fs, .arg .lenText w []⟩ ⟨hfs, hw, W.bytes_pos w hw⟩ _ ?_ _ bs _ ?_ pend
        · have := (hr0.push hs0 ⟨0x64, stStart⟩).push (by decide) ⟨stLen, UInt8.ofNat (w.ai 0)⟩
          rw [← hS0] at this
          exact this
        · simp [Ctx.wire, Top.wire, ArgK.m]
    · by_cases h31 : a = 31
      · subst h31; exact Or.inl (stepValue_indefStr p 3 (Or.inr rfl) bs)
      · exact Or.inl (stepValue_reserved p 3 (by omega) a (by omega) (Or.inl (by omega)) bs)
  · -- arrays
    rw [stepValue_sub p 4 (Or.inl rfl) a ha, ofNat_128]
    by_cases h31 : a = 31
    · subst h31
      rw [initSub_indef]
      have hs1 : ((majorArr ||| stIndef) : UInt8) = 0x81 := by decide
      have hs2 : ((majorArr ||| stStartX ||| stIndef) : UInt8) = 0x85 := by decide
      rw [hs1, hs2]
      refine push_case ⟨fs, .startArrI⟩ ⟨hfs, trivial⟩ _ ?_ _ bs _ ?_ pend
      · have := (hr0.push hs0 ⟨0x81, stStart⟩).push (by decide) ⟨0x85, stStart⟩
        rw [← hS0] at this
        exact this
      · have : ib 4 31 = 0x9f := by decide
        simp [Ctx.wire, Top.wire, this]
    · have hni : ¬ (UInt8.ofNat a = lenIndef) := by
        intro h'
        have := congrArg UInt8.toNat h'
        rw [ofNat_toNat_small (by omega)] at this
        simp [lenIndef] at this; omega
      have hs : ((majorArr ||| stStartX) : UInt8) = 0x84 := by decide
      by_cases h27 : a ≤ 27
      · by_cases h24 : a < 24
        · have h3 : (UInt8.ofNat a < len8b) := (ofNat_lt_len8b (by omega)).mpr h24
          simp only [initSub, beq_iff_eq, hni, h3, if_true, if_false, hs, ofNat_toNat_small (show a < 256 by omega)]
          refine push_case ⟨fs, .startArr .imm a⟩ ⟨hfs, fits_imm a h24⟩ _ ?_ _ bs _ ?_ pend
          · have := ((hr0.push hs0 ⟨majorArr, stStart⟩).push (by decide) ⟨0x84, stStart⟩).pushLen a
            rw [← hS0] at this
            exact this
          · simp [Ctx.wire, Top.wire, head_eq, W.ai, W.bytes, beBytes]
        · obtain ⟨w, hw, rfl⟩ := exists_w a (by omega) h27
          have h3 : ¬ (UInt8.ofNat (w.ai 0) < len8b) := by rw [ofNat_lt_len8b (by omega)]; omega
          have h5 : ¬ (UInt8.ofNat (w.ai 0) > len64b) := by rw [ofNat_gt_len64b (by omega)]; omega
          simp only [initSub, beq_iff_eq, hni, h3, h5, if_false, hs]
          refine push_case ⟨fs, .arg .lenArr w []⟩ ⟨hfs, hw, W.bytes_pos w hw⟩ _ ?_ _ bs _ ?_ pend
          · have := ((hr0.push hs0 ⟨majorArr, stStart⟩).push (by decide) ⟨0x84, stStart⟩).push (by decide)
              ⟨stLen, UInt8.ofNat (w.ai 0)⟩
            rw [← hS0] at this
            exact this
          · simp [Ctx.wire, Top.wire, ArgK.m]
      · rw [← ofNat_128, ← stepValue_sub p 4 (Or.inl rfl) a ha]
        exact Or.inl (stepValue_reserved p 4 (by omega) a (by omega) (Or.inl (by omega)) bs)
  · -- maps
    rw [stepValue_sub p 5 (Or.inr rfl) a ha, ofNat_160]
    by_cases h31 : a = 31
    · subst h31
      rw [initSub_indef]
      have hs1 : ((majorMap ||| stIndef) : UInt8) = 0xa1 := by decide
      have hs2 : ((majorMap ||| stStartX ||| stIndef) : UInt8) = 0xa5 := by decide
      rw [hs1, hs2]
      refine push_case ⟨fs, .startMapI⟩ ⟨hfs, trivial⟩ _ ?_ _ bs _ ?_ pend
      · have := (hr0.push hs0 ⟨0xa1, stStart⟩).push (by decide) ⟨0xa5, stStart⟩
        rw [← hS0] at this
        exact this
      · have : ib 5 31 = 0xbf := by decide
        simp [Ctx.wire, Top.wire, this]
    · have hni : ¬ (UInt8.ofNat a = lenIndef) := by
        intro h'
        have := congrArg UInt8.toNat h'
        rw [ofNat_toNat_small (by omega)] at this
        simp [lenIndef] at this; omega
      have hs : ((majorMap ||| stStartX) : UInt8) = 0xa4 := by decide
      by_cases h27 : a ≤ 27
      · by_cases h24 : a < 24
        · have h3 : (UInt8.ofNat a < len8b) := (ofNat_lt_len8b (by omega)).mpr h24
          simp only [initSub, beq_iff_eq, hni, h3, if_true, if_false, hs, ofNat_toNat_small (show a < 256 by omega)]
          refine push_case ⟨fs, .startMap .imm a⟩ ⟨hfs, fits_imm a h24⟩ _ ?_ _ bs _ ?_ pend
          · have := ((hr0.push hs0 ⟨majorMap, stStart⟩).push (by decide) ⟨0xa4, stStart⟩).pushLen a
            rw [← hS0] at this
            exact this
          · simp [Ctx.wire, Top.wire, head_eq, W.ai, W.bytes, beBytes]
        · obtain ⟨w, hw, rfl⟩ := exists_w a (by omega) h27
          have h3 : ¬ (UInt8.ofNat (w.ai 0) < len8b) := by rw [ofNat_lt_len8b (by omega)]; omega
          have h5 : ¬ (UInt8.ofNat (w.ai 0) > len64b) := by rw [ofNat_gt_len64b (by omega)]; omega
          simp only [initSub, beq_iff_eq, hni, h3, h5, if_false, hs]
          refine push_case ⟨fs, .arg .lenMap w []⟩ ⟨hfs, hw, W.bytes_pos w hw⟩ _ ?_ _ bs _ ?_ pend
          · have := ((hr0.push hs0 ⟨majorMap, stStart⟩).push (by decide) ⟨0xa4, stStart⟩).push (by decide)
              ⟨stLen, UInt8.ofNat (w.ai 0)⟩
            rw [← hS0] at this
            exact this
          · simp [Ctx.wire, Top.wire, ArgK.m]
      · rw [← ofNat_160, ← stepValue_sub p 5 (Or.inr rfl) a ha]
        exact Or.inl (stepValue_reserved p 5 (by omega) a (by omega) (Or.inl (by omega)) bs)
  · exact Or.inl (stepValue_tag p a ha bs)
  · -- simple values and floats
    have hmaj : (ib 7 a &&& majorMask) = 0xe0 := by
      rw [ib_major' (by omega) ha]; decide
    generalize ib 7 a = b0 at hmaj ⊢
    by_cases h1 : b0 = 0xf4
    · subst h1; rw [stepValue_false]
      exact scalar_sim fs hfs .fals rfl p hr _ _ [0xf4] bs rfl _ (by simp [Item.wire]) pend (Or.inl (by simp))
    by_cases h2 : b0 = 0xf5
    · subst h2; rw [stepValue_true]
      exact scalar_sim fs hfs .tru rfl p hr _ _ [0xf5] bs rfl _ (by simp [Item.wire]) pend (Or.inl (by simp))
    by_cases h3 : b0 = 0xf6
    · subst h3; rw [stepValue_null]
      exact scalar_sim fs hfs .null rfl p hr _ _ [0xf6] bs rfl _ (by simp [Item.wire]) pend (Or.inl (by simp))
    by_cases h4 : b0 = 0xf7
    · subst h4; rw [stepValue_undef]
      exact scalar_sim fs hfs .undef rfl p hr _ _ [0xf7] bs rfl _ (by simp [Item.wire]) pend (Or.inl (by simp))
    by_cases h5 : b0 = 0xfa
    · subst h5; rw [stepValue_f32]
      refine push_case ⟨fs, .f32 []⟩ ⟨hfs, by simp [Top.valid]⟩ _ ?_ _ bs _ ?_ pend
      · have := hr0.push hs0 ⟨codeSingleFloat, stStart⟩
        rw [← hS0] at this
        exact this
      · simp [Ctx.wire, Top.wire]
    by_cases h6 : b0 = 0xfb
    · subst h6; rw [stepValue_f64]
      refine push_case ⟨fs, .f64 []⟩ ⟨hfs, by simp [Top.valid]⟩ _ ?_ _ bs _ ?_ pend
      · have := hr0.push hs0 ⟨codeDoubleFloat, stStart⟩
        rw [← hS0] at this
        exact this
      · simp [Ctx.wire, Top.wire]
    exact Or.inl (stepValue_other p b0 hmaj h1 h2 h3 h4 h5 h6 bs)


theorem mapK_st_ne_fail (m : MapK) : m.st.major ≠ stFail := by
  cases m <;> simp [MapK.st, stFail]

/-- SIMULATION of `initMapKey` on the first byte of a key -/
theorem key_sim (fs : List Cont) (hfs : contsValid fs) (m : MapK) (hmv : m.valid) (p : P)
    (hr : Rel p ⟨fs, .key m .expect⟩) (b0 : UInt8) (bs : Bytes) (pend : Bool) :
    SimR (contsWire fs ++ m.wire) (b0 :: bs) (initMapKey p (b0 :: bs)) pend := by
  obtain ⟨m', a, hm', ha, rfl⟩ := byte_split b0
  have hr0 : RelL p (m.st :: contsSts fs) (m.lens ++ contsLens fs) [] := hr
  have h1 := ib_major' (m := m') (a := a) hm' ha
  have h2 := ib_minor' (m := m') (a := a) hm' ha
  by_cases h3 : m' = 3
  · subst h3
    rw [ofNat_96] at h1
    by_cases h31 : a = 31
    · subst h31
      refine Or.inl ?_
      simp +decide [initMapKey, h1, h2]
    · have hni : ¬ (UInt8.ofNat a = lenIndef) := by
        intro h'
        have := congrArg UInt8.toNat h'
        rw [ofNat_toNat_small (by omega)] at this
        simp [lenIndef] at this; omega
      simp only [initMapKey, h1, h2, bne_self_eq_false, Bool.false_eq_true, if_false, beq_iff_eq, hni]
      by_cases h27 : a ≤ 27
      · by_cases h24 : a < 24
        · have h3 : (UInt8.ofNat a < len8b) := (ofNat_lt_len8b (by omega)).mpr h24
          simp only [initByteSeq, h3, if_true, or_keyStart, ofNat_toNat_small (show a < 256 by omega)]
          refine push_case ⟨fs, .key m (.start .imm a)⟩ ⟨hfs, hmv, fits_imm a h24⟩ _ ?_ _ bs _ ?_ pend
          · exact (hr0.push (mapK_st_ne_fail m) ⟨0xac, stStart⟩).pushLen a
          · simp [Ctx.wire, Top.wire, KeyTop.wire, head_eq, W.ai, W.bytes, beBytes]
        · obtain ⟨w, hw, rfl⟩ := exists_w a (by omega) h27
          have h3 : ¬ (UInt8.ofNat (w.ai 0) < len8b) := by rw [ofNat_lt_len8b (by omega)]; omega
          have h5 : ¬ (UInt8.ofNat (w.ai 0) > len64b) := by rw [ofNat_gt_len64b (by omega)]; omega
          simp only [initByteSeq, h3, h5, if_false, or_keyStart]
          refine push_case ⟨fs, .key m (.lenArg w [])⟩ ⟨hfs, hmv, hw, W.bytes_pos w hw⟩ _ ?_ _ bs _ ?_ pend
          · exact (hr0.push (mapK_st_ne_fail m) ⟨0xac, stStart⟩).push (by decide) ⟨stLen, UInt8.ofNat (w.ai 0)⟩
          · simp [Ctx.wire, Top.wire, KeyTop.wire]
      · refine Or.inl ?_
        have hgt : len64b < UInt8.ofNat a := (ofNat_gt_len64b ha).mpr (by omega)
        have hnl : ¬ (UInt8.ofNat a < len8b) := by rw [ofNat_lt_len8b ha]; omega
        simp +decide [initByteSeq, hgt, hnl]
  · refine Or.inl ?_
    have hne : UInt8.ofNat (m' * 32) ≠ majorText := by
      have h8 : m' = 0 ∨ m' = 1 ∨ m' = 2 ∨ m' = 4 ∨ m' = 5 ∨ m' = 6 ∨ m' = 7 := by omega
      rcases h8 with rfl | rfl | rfl | rfl | rfl | rfl | rfl <;> decide
    have hne' : (UInt8.ofNat (m' * 32) != majorText) = true := by simpa using hne
    simp only [initMapKey, h1, hne', if_true]
    simp

end SF.Cbor.Sim
