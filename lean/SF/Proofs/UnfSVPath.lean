/-
  C13, VALUES for struct targets, part 1: `get` / `set` along paths, and the comparison `norm` of the
  specification (nil ≙ empty, hidden capacity dropped) along FIELD paths: two struct values with equal
  `norm` have, at every field path, sub-values with equal `norm`, and stay so when related values are stored.
-/
import SF.Proofs.UnfStrShape
import SF.Proofs.UnfGenDefs
namespace SF.Unf.SV
open SF SF.Unf SF.Unf.Spec

/-! ## paths -/

theorem list_set_self {α : Type} (l : List α) (i : Nat) (x : α) (h : l[i]? = some x) : l.set i x = l := by
  induction l generalizing i with
  | nil => rfl
  | cons a l ih =>
    cases i with
    | zero => simp at h; subst h; rfl
    | succ i => simp at h; simp [ih i h]

/-- storing what is there changes nothing -/
theorem set_get_self (v : GoVal) (r : List Step) (a : GoVal) (h : v.get r = some a) : v.set r a = some v := by
  induction r generalizing v with
  | nil => simp at h; subst h; simp
  | cons st r ih =>
    obtain ⟨xs, i, x, hv, hx, hg⟩ := get_cons_some v st r a h
    rw [set_view v st r a xs i x x hv hx (ih x hg)]
    cases hv <;> simp [rebuild, list_set_self _ _ _ hx]

/-- a store below a prefix is forgotten by a later store at the prefix -/
theorem set_prefix_overwrite (v : GoVal) (pre r : List Step) (w v1 a : GoVal) (h : v.set (pre ++ r) w = some v1) :
    v1.set pre a = v.set pre a := by
  induction pre generalizing v v1 with
  | nil => simp
  | cons st pre ih =>
    obtain ⟨xs, i, x, x', hv, hx, hs, rfl⟩ := set_cons_some v st (pre ++ r) w v1 h
    have hi : i < xs.length := by
      rcases Nat.lt_or_ge i xs.length with h | h
      · exact h
      · rw [List.getElem?_eq_none h] at hx; cases hx
    have := ih x x' hs
    cases hv <;> simp [rebuild, GoVal.set, hx, List.getElem?_set_self hi, this, List.set_set]

theorem set_append_of_get (v : GoVal) (pre r : List Step) (w a a' : GoVal) (hg : v.get pre = some a)
    (hs : a.set r w = some a') : v.set (pre ++ r) w = v.set pre a' := by
  induction pre generalizing v with
  | nil => simp at hg; subst hg; simp [hs]
  | cons st pre ih =>
    obtain ⟨xs, i, x, hv, hx, hg'⟩ := get_cons_some v st pre a hg
    have := ih x hg'
    cases hv <;> simp [GoVal.set, hx, this]

/-! ## `norm` along field paths -/

theorem normList_eq_map : ∀ fs : List GoVal, normList fs = fs.map norm
  | [] => rfl
  | v :: r => by simp [normList, normList_eq_map r]

theorem norm_struct (fs : List GoVal) : norm (.struct fs) = .struct (fs.map norm) := by
  simp [norm, normList_eq_map]

theorem norm_struct_inv (a : GoVal) (gs : List GoVal) (h : norm a = .struct gs) :
    ∃ fs, a = .struct fs ∧ fs.map norm = gs := by
  cases a with
  | struct fs => rw [norm_struct] at h; injection h with h; exact ⟨fs, rfl, h⟩
  | slice et es hd => simp only [norm] at h; split at h <;> cases h
  | map et ms => simp only [norm] at h; split at h <;> cases h
  | _ => simp [norm] at h

theorem getElem?_of_map_eq {fs gs : List GoVal} (h : fs.map norm = gs.map norm) (i : Nat) (x : GoVal)
    (hx : gs[i]? = some x) : ∃ y, fs[i]? = some y ∧ norm y = norm x := by
  have := congrArg (·[i]?) h
  simp only [List.getElem?_map, hx, Option.map_some] at this
  cases hy : fs[i]? with
  | none => simp [hy] at this
  | some y => simp [hy] at this; exact ⟨y, rfl, this⟩

/-- equal `norm` ⇒ equal `norm` at every field path -/
theorem norm_get_fields : ∀ (path : List Nat) (a b ob : GoVal), norm a = norm b →
    b.get (path.map Step.field) = some ob → ∃ oa, a.get (path.map Step.field) = some oa ∧ norm oa = norm ob := by
  intro path
  induction path with
  | nil => intro a b ob h hg; simp at hg; subst hg; exact ⟨a, by simp, h⟩
  | cons i r ih =>
    intro a b ob h hg
    rw [List.map_cons] at hg
    obtain ⟨xs, i', x, hv, hx, hg'⟩ := get_cons_some b _ _ ob hg
    cases hv
    rw [norm_struct] at h
    obtain ⟨fs, rfl, hfs⟩ := norm_struct_inv a _ h
    obtain ⟨y, hy, hyx⟩ := getElem?_of_map_eq hfs i x hx
    obtain ⟨oa, hoa, hn⟩ := ih y x ob hyx hg'
    exact ⟨oa, by simp [GoVal.get, hy, hoa], hn⟩

/-- … and related stores keep the `norm`s equal -/
theorem norm_set_fields : ∀ (path : List Nat) (a b w nv a' b' : GoVal), norm a = norm b → norm w = norm nv →
    a.set (path.map Step.field) w = some a' → b.set (path.map Step.field) nv = some b' → norm a' = norm b' := by
  intro path
  induction path with
  | nil => intro a b w nv a' b' _ hw ha hb; simp at ha hb; subst ha; subst hb; exact hw
  | cons i r ih =>
    intro a b w nv a' b' h hw ha hb
    rw [List.map_cons] at ha hb
    obtain ⟨xs, i1, x, x', hv, hx, hs, rfl⟩ := set_cons_some b _ _ nv b' hb
    cases hv
    obtain ⟨ys, i2, y, y', hv2, hy, hs2, rfl⟩ := set_cons_some a _ _ w a' ha
    cases hv2
    rw [norm_struct, norm_struct] at h
    injection h with h
    obtain ⟨y2, hy2, hyx⟩ := getElem?_of_map_eq h i x hx
    rw [hy] at hy2
    injection hy2 with hy2
    subst hy2
    have := ih y x w nv y' x' hyx hw hs2 hs
    simp only [rebuild, norm_struct, List.map_set, h, this]

end SF.Unf.SV
