/-
  Chunk independence of the JSON parser mirror, loop level: THE PEEL LEMMA.  Running the
  parser on `a :: rest` gives the same verdict and events — and, without error, the same
  state up to `Eqv` — as running it on `[a]` and then on `rest`.
-/
import SF.Proofs.JsonPeelTok
set_option linter.unusedSimpArgs false
namespace SF.Json.ParseP
open SF SF.Json SF.Json.Parse SF.Json.Float

/-- run on `b` after a run that ended in `x` -/
def seq (x : P × Option Err) (b : Bytes) : P × Option Err :=
  match x.2 with
  | some _ => x
  | none => runA x.1 b

/-- results of runs that agree in verdict and events, and without error in the state up to `Eqv` -/
def RE (x y : P × Option Err) : Prop :=
  y.2 = x.2 ∧ y.1.evs = x.1.evs ∧ y.1.nevs = x.1.nevs ∧ (x.2 = none → Eqv x.1 y.1)

theorem RE.refl (x : P × Option Err) : RE x x := ⟨rfl, rfl, rfl, fun _ => Eqv.refl _⟩

theorem Eqv.evs {p q : P} (h : Eqv p q) : q.evs = p.evs ∧ q.nevs = p.nevs := by
  obtain ⟨r, rfl, _⟩ := h; exact ⟨rfl, rfl⟩

theorem RE.trans {x y z : P × Option Err} (h1 : RE x y) (h2 : RE y z) : RE x z := by
  obtain ⟨a1, a2, a3, a4⟩ := h1
  obtain ⟨b1, b2, b3, b4⟩ := h2
  refine ⟨by rw [b1, a1], by rw [b2, a2], by rw [b3, a3], fun h => ?_⟩
  exact Eqv.trans (a4 h) (b4 (by rw [a1]; exact h))

theorem RE_of_eqv (p q : P) (b : Bytes) (hinv : Inv p) (h : Eqv p q) : RE (runA p b) (runA q b) := by
  obtain ⟨k1, k2⟩ := runA_eqv p q b hinv h
  exact ⟨k1, k2.evs.1, k2.evs.2, fun _ => k2⟩

theorem seq_nil (x : P × Option Err) : seq x [] = x := by
  obtain ⟨p, e⟩ := x
  cases e with
  | some e => rfl
  | none => simp [seq, runA_nil]

/-- byte `a` is taken by itself into a state from which `rest` is read as it would have been
after `a` -/
def Cont (p : P) (a : UInt8) (rest : Bytes) : Prop :=
  (execStep p [a]).2 = false ∧ (execStep p [a]).1.err = none ∧ (execStep p [a]).1.rest = [] ∧
  (execStep p (a :: rest)).2 = (execStep (execStep p [a]).1.p rest).2 ∧
  REq (execStep (execStep p [a]).1.p rest).1 (execStep p (a :: rest)).1

/-- the step looks at byte `a` only and consumes it -/
def Local (p : P) (a : UInt8) (rest : Bytes) : Prop :=
  (execStep p (a :: rest)).2 = (execStep p [a]).2 ∧
  (execStep p (a :: rest)).1.err = (execStep p [a]).1.err ∧
  (execStep p (a :: rest)).1.p.evs = (execStep p [a]).1.p.evs ∧
  (execStep p (a :: rest)).1.p.nevs = (execStep p [a]).1.p.nevs ∧
  ((execStep p [a]).2 = false → (execStep p [a]).1.err = none →
    (execStep p (a :: rest)).1.p = (execStep p [a]).1.p ∧ (execStep p [a]).1.rest = [] ∧
    (execStep p (a :: rest)).1.rest = rest)

/-- the step looks at byte `a` only and consumes nothing -/
def Move (p : P) (a : UInt8) (rest : Bytes) : Prop :=
  (execStep p (a :: rest)).2 = false ∧ (execStep p [a]).2 = false ∧
  (execStep p (a :: rest)).1.err = (execStep p [a]).1.err ∧
  (execStep p (a :: rest)).1.p = (execStep p [a]).1.p ∧
  ((execStep p [a]).1.err = none → (execStep p [a]).1.rest = [a] ∧ (execStep p (a :: rest)).1.rest = a :: rest) ∧
  weight (execStep p [a]).1.p.currentState = 0 ∧ weight p.currentState = 1

theorem isSome_eq_false {α : Type} {o : Option α} (h : o = none) : o.isSome = false := by rw [h]; rfl

theorem peel_of_cont (p : P) (a : UInt8) (rest : Bytes) (hinv : Inv p) (hrest : rest ≠ [])
    (h : Cont p a rest) : RE (seq (runA p [a]) rest) (runA p (a :: rest)) := by
  obtain ⟨h1, h2, h3, h4, h5, h6, h7, h8⟩ := h
  have hc : ((execStep p [a]).2 || (execStep p [a]).1.err.isSome) = false := by
    rw [h1, isSome_eq_false h2]; rfl
  have hinv2 : Inv (execStep p [a]).1.p := by
    rcases step_cases p [a] (by simp) hinv with k | ⟨_, k, _⟩
    · rw [hc] at k; simp at k
    · exact k
  have e1 : runA p [a] = ((execStep p [a]).1.p, none) := by
    rw [runA_step p [a] (by simp) hinv, hc]
    simp only [Bool.false_eq_true, if_false, h3, runA_nil]
  rw [e1]
  show RE (runA (execStep p [a]).1.p rest) _
  rw [runA_step _ rest hrest hinv2, runA_step p (a :: rest) (by simp) hinv, h4, h5]
  by_cases hcond : ((execStep (execStep p [a]).1.p rest).2 || (execStep (execStep p [a]).1.p rest).1.err.isSome) = true
  · simp only [hcond, if_true]
    exact ⟨rfl, h6, h7, fun he => (h8 he).2⟩
  · simp only [hcond, Bool.false_eq_true, if_false]
    have hn : (execStep (execStep p [a]).1.p rest).1.err = none := by
      cases he : (execStep (execStep p [a]).1.p rest).1.err with
      | none => rfl
      | some e => rw [he] at hcond; simp at hcond
    obtain ⟨k1, k2⟩ := h8 hn
    rw [k1]
    have hinv3 : Inv (execStep (execStep p [a]).1.p rest).1.p := by
      rcases step_cases _ rest hrest hinv2 with k | ⟨_, k, _⟩
      · exact absurd k hcond
      · exact k
    exact RE_of_eqv _ _ _ hinv3 k2

theorem peel_of_local (p : P) (a : UInt8) (rest : Bytes) (hinv : Inv p)
    (h : Local p a rest) : RE (seq (runA p [a]) rest) (runA p (a :: rest)) := by
  obtain ⟨h1, h2, h3, h4, h5⟩ := h
  rw [runA_step p [a] (by simp) hinv, runA_step p (a :: rest) (by simp) hinv, h1, h2]
  by_cases hcond : ((execStep p [a]).2 || (execStep p [a]).1.err.isSome) = true
  · simp only [hcond, if_true]
    have hne : (execStep p [a]).1.err ≠ none := by
      simp only [Bool.or_eq_true] at hcond
      rcases hcond with k | k
      · by_cases hcs : p.currentState = .failedState
        · exact (execStep_failed p [a] hcs).2.2.2.1
        · rw [(execStep_ok p [a] (by simp) hinv hcs).1] at k; simp at k
      · intro hc; rw [hc] at k; simp at k
    cases he : (execStep p [a]).1.err with
    | none => exact absurd he hne
    | some e =>
      simp only [seq]
      exact ⟨rfl, h3, h4, by simp⟩
  · simp only [hcond, Bool.false_eq_true, if_false]
    have hs : (execStep p [a]).2 = false := by
      cases k : (execStep p [a]).2 with
      | false => rfl
      | true => rw [k] at hcond; simp at hcond
    have hn : (execStep p [a]).1.err = none := by
      cases he : (execStep p [a]).1.err with
      | none => rfl
      | some e => rw [he] at hcond; simp at hcond
    obtain ⟨k1, k2, k3⟩ := h5 hs hn
    rw [k1, k2, k3, runA_nil]
    exact RE.refl _

theorem peel_of_move (p : P) (a : UInt8) (rest : Bytes) (hinv : Inv p)
    (h : Move p a rest)
    (ih : Inv (execStep p [a]).1.p →
      RE (seq (runA (execStep p [a]).1.p [a]) rest) (runA (execStep p [a]).1.p (a :: rest))) :
    RE (seq (runA p [a]) rest) (runA p (a :: rest)) := by
  obtain ⟨h1, h2, h3, h4, h5, _, _⟩ := h
  rw [runA_step p [a] (by simp) hinv, runA_step p (a :: rest) (by simp) hinv, h1, h2, h3, h4]
  cases he : (execStep p [a]).1.err with
  | some e =>
    simp only [Option.isSome_some, Bool.or_true, if_true, seq]
    exact RE.refl _
  | none =>
    simp only [Option.isSome_none, Bool.or_false, Bool.false_eq_true, if_false]
    obtain ⟨k1, k2⟩ := h5 he
    rw [k1, k2]
    apply ih
    rcases step_cases p [a] (by simp) hinv with k | ⟨_, k, _⟩
    · rw [h2, he] at k; simp at k
    · exact k

/-! ## classification of the steps: white space -/

theorem trimLeft_space {a : UInt8} (r : Bytes) (h : Utf8.isSpaceByte a = true) : trimLeft (a :: r) = trimLeft r := by
  simp [trimLeft, h]

theorem trimLeft_ns {a : UInt8} (r : Bytes) (h : Utf8.isSpaceByte a = false) : trimLeft (a :: r) = a :: r := by
  simp [trimLeft, h]

theorem stepValue_space (p : P) (a : UInt8) (rest : Bytes) (ret : St) (h : Utf8.isSpaceByte a = true) :
    stepValue p [a] ret = { p := p, rest := [] } ∧ stepValue p (a :: rest) ret = stepValue p rest ret := by
  unfold stepValue
  rw [trimLeft_space _ h, trimLeft_space _ h]
  exact ⟨rfl, rfl⟩

theorem stepDict_space (p : P) (a : UInt8) (rest : Bytes) (ae : Bool) (h : Utf8.isSpaceByte a = true) :
    stepDict p [a] ae = { p := p, rest := [] } ∧ stepDict p (a :: rest) ae = stepDict p rest ae := by
  unfold stepDict
  rw [trimLeft_space _ h, trimLeft_space _ h]
  exact ⟨rfl, rfl⟩

theorem stepDictValueEnd_space (p : P) (a : UInt8) (rest : Bytes) (h : Utf8.isSpaceByte a = true) :
    stepDictValueEnd p [a] = { p := p, rest := [] } ∧ stepDictValueEnd p (a :: rest) = stepDictValueEnd p rest := by
  unfold stepDictValueEnd
  rw [trimLeft_space _ h, trimLeft_space _ h]
  exact ⟨rfl, rfl⟩

theorem stepArray_space (p : P) (a : UInt8) (rest : Bytes) (ae : Bool) (h : Utf8.isSpaceByte a = true) :
    stepArray p [a] ae = { p := p, rest := [] } ∧ stepArray p (a :: rest) ae = stepArray p rest ae := by
  unfold stepArray
  rw [trimLeft_space _ h, trimLeft_space _ h]
  exact ⟨rfl, rfl⟩

theorem stepArrValueEnd_space (p : P) (a : UInt8) (rest : Bytes) (h : Utf8.isSpaceByte a = true) :
    stepArrValueEnd p [a] = { p := p, rest := [] } ∧ stepArrValueEnd p (a :: rest) = stepArrValueEnd p rest := by
  unfold stepArrValueEnd
  rw [trimLeft_space _ h, trimLeft_space _ h]
  exact ⟨rfl, rfl⟩

theorem cont_of_skip (p : P) (a : UInt8) (rest : Bytes)
    (h1 : execStep p [a] = ({ p := p, rest := [] }, false)) (h2 : execStep p (a :: rest) = execStep p rest) :
    Cont p a rest := by
  unfold Cont
  rw [h1, h2]
  exact ⟨rfl, rfl, rfl, rfl, REq.refl _⟩

/-- the states that skip white space first -/
def trims (s : St) : Bool :=
  s == .startState || s == .dictState || s == .dictNextFieldState || s == .dictFieldValueSep ||
  s == .dictFieldValue || s == .dictFieldStateEnd || s == .arrState || s == .arrStateValue || s == .arrStateNext

theorem class_space (p : P) (a : UInt8) (rest : Bytes) (ht : trims p.currentState = true)
    (h : Utf8.isSpaceByte a = true) : Cont p a rest := by
  apply cont_of_skip
  · unfold execStep
    cases hcs : p.currentState <;> rw [hcs] at ht <;> simp [trims] at ht
    all_goals simp only [stepStart, fun ret => (stepValue_space p a rest ret h).1,
      fun ae => (stepArray_space p a rest ae h).1, (stepArrValueEnd_space p a rest h).1,
      fun ae => (stepDict_space p a rest ae h).1, (stepDictValueEnd_space p a rest h).1,
      trimLeft_space _ h, trimLeft, h, if_true]
  · unfold execStep
    cases hcs : p.currentState <;> rw [hcs] at ht <;> simp [trims] at ht
    all_goals simp only [stepStart, fun ret => (stepValue_space p a rest ret h).2,
      fun ae => (stepArray_space p a rest ae h).2, (stepArrValueEnd_space p a rest h).2,
      fun ae => (stepDict_space p a rest ae h).2, (stepDictValueEnd_space p a rest h).2,
      trimLeft_space _ h]

/-! ## classification of the steps: values -/

/-- stepValue on a byte that is no white space: either the byte decides by itself (brackets,
unknown characters), or it begins a scalar whose state reads `rest` as `stepValue` would have -/
theorem stepValue_class (p : P) (a : UInt8) (rest : Bytes) (ret : St)
    (ha : Utf8.isSpaceByte a = false) (hret : isRet ret = true) :
    ((stepValue p (a :: rest) ret).err = (stepValue p [a] ret).err ∧
      (stepValue p (a :: rest) ret).p = (stepValue p [a] ret).p ∧
      ((stepValue p [a] ret).err = none →
        (stepValue p [a] ret).rest = [] ∧ (stepValue p (a :: rest) ret).rest = rest)) ∨
    ((stepValue p [a] ret).err = none ∧ (stepValue p [a] ret).rest = [] ∧
      execStep (stepValue p [a] ret).p rest = (stepValue p (a :: rest) ret, false)) := by
  by_cases h1 : (a == ch '{') = true
  · left
    have e : ∀ r, stepValue p (a :: r) ret =
        { p := (visit (pushState { p with currentState := ret } .dictState) (.objStart (-1) BT.any)).1, rest := r,
          err := (visit (pushState { p with currentState := ret } .dictState) (.objStart (-1) BT.any)).2 } := by
      intro r; unfold stepValue; rw [trimLeft_ns _ ha]; simp only [h1, if_true]
    rw [e, e]; exact ⟨rfl, rfl, fun _ => ⟨rfl, rfl⟩⟩
  have h1 : (a == ch '{') = false := by simpa using h1
  by_cases h2 : (a == ch '[') = true
  · left
    have e : ∀ r, stepValue p (a :: r) ret =
        { p := (visit (pushState { p with currentState := ret } .arrState) (.arrStart (-1) BT.any)).1, rest := r,
          err := (visit (pushState { p with currentState := ret } .arrState) (.arrStart (-1) BT.any)).2 } := by
      intro r; unfold stepValue; rw [trimLeft_ns _ ha]; simp only [h1, h2, if_true, if_false, Bool.false_eq_true]
    rw [e, e]; exact ⟨rfl, rfl, fun _ => ⟨rfl, rfl⟩⟩
  have h2 : (a == ch '[') = false := by simpa using h2
  by_cases h3 : (a == ch 'n') = true
  · right
    have e : ∀ r, stepValue p (a :: r) ret =
        stepNULL { pushState { p with currentState := ret } .nullState with required := 3 } r := by
      intro r; unfold stepValue; rw [trimLeft_ns _ ha]; simp only [h1, h2, h3, if_true, if_false, Bool.false_eq_true]
    have e0 : stepNULL { pushState { p with currentState := ret } .nullState with required := 3 } [] =
        { p := { pushState { p with currentState := ret } .nullState with required := 3 }, rest := [],
          reported := false, err := none } := by
      unfold stepNULL
      rw [stepLit_short _ [] _ _ _ (by rw [kind_null]; simp) (by simp)]
      simp only [List.length_nil, List.take_zero, hasPrefix_nil, if_true]
    rw [e, e, e0]
    refine ⟨rfl, rfl, ?_⟩
    simp only [pushState_ret p ret _ hret]
    rfl
  have h3 : (a == ch 'n') = false := by simpa using h3
  by_cases h4 : (a == ch 'f') = true
  · right
    have e : ∀ r, stepValue p (a :: r) ret =
        stepFALSE { pushState { p with currentState := ret } .falseState with required := 4 } r := by
      intro r; unfold stepValue; rw [trimLeft_ns _ ha]; simp only [h1, h2, h3, h4, if_true, if_false, Bool.false_eq_true]
    have e0 : stepFALSE { pushState { p with currentState := ret } .falseState with required := 4 } [] =
        { p := { pushState { p with currentState := ret } .falseState with required := 4 }, rest := [],
          reported := false, err := none } := by
      unfold stepFALSE
      rw [stepLit_short _ [] _ _ _ (by rw [kind_false]; simp) (by simp)]
      simp only [List.length_nil, List.take_zero, hasPrefix_nil, if_true]
    rw [e, e, e0]
    refine ⟨rfl, rfl, ?_⟩
    simp only [pushState_ret p ret _ hret]
    rfl
  have h4 : (a == ch 'f') = false := by simpa using h4
  by_cases h5 : (a == ch 't') = true
  · right
    have e : ∀ r, stepValue p (a :: r) ret =
        stepTRUE { pushState { p with currentState := ret } .trueState with required := 3 } r := by
      intro r; unfold stepValue; rw [trimLeft_ns _ ha]; simp only [h1, h2, h3, h4, h5, if_true, if_false, Bool.false_eq_true]
    have e0 : stepTRUE { pushState { p with currentState := ret } .trueState with required := 3 } [] =
        { p := { pushState { p with currentState := ret } .trueState with required := 3 }, rest := [],
          reported := false, err := none } := by
      unfold stepTRUE
      rw [stepLit_short _ [] _ _ _ (by rw [kind_true]; simp) (by simp)]
      simp only [List.length_nil, List.take_zero, hasPrefix_nil, if_true]
    rw [e, e, e0]
    refine ⟨rfl, rfl, ?_⟩
    simp only [pushState_ret p ret _ hret]
    rfl
  have h5 : (a == ch 't') = false := by simpa using h5
  by_cases h6 : (a == ch '"') = true
  · right
    have e : ∀ r, stepValue p (a :: r) ret =
        stepString { pushState { p with currentState := ret, literalBuffer := [] } .stringState with inEscape := false }
          (a :: r) := by
      intro r; unfold stepValue; rw [trimLeft_ns _ ha]; simp only [h1, h2, h3, h4, h5, h6, if_true, if_false, Bool.false_eq_true]
    have hp := pushState_ret { p with literalBuffer := [] } ret .stringState hret
    simp only at hp
    rw [e, e, hp]
    obtain ⟨k1, k2, k3⟩ := stepString_peel
      { p with literalBuffer := [], states := ret :: p.states, currentState := .stringState, inEscape := false }
      a rest (by simp [closes])
    rw [k1]
    refine ⟨rfl, rfl, ?_⟩
    simp only
    rw [k3]
    unfold execStep
    rw [k2]
  have h6 : (a == ch '"') = false := by simpa using h6
  by_cases h7 : (a == ch '-' || a == ch '+' || a == ch '.' || Parse.isDigit a) = true
  · right
    have e : ∀ r, stepValue p (a :: r) ret =
        stepNumber { pushState { p with currentState := ret, isDouble := false, literalBuffer := [] } .numberState
          with isDouble := false } (a :: r) := by
      intro r; unfold stepValue; rw [trimLeft_ns _ ha]
      simp only [h1, h2, h3, h4, h5, h6, h7, if_true, if_false, Bool.not_true, Bool.false_eq_true]
    have hp := pushState_ret { p with isDouble := false, literalBuffer := [] } ret .numberState hret
    simp only at hp
    rw [e, e, hp]
    obtain ⟨k1, k2, k3⟩ := stepNumber_peel
      { p with isDouble := false, literalBuffer := [], states := ret :: p.states, currentState := .numberState }
      a rest (numStart_not_stop a h7)
    rw [k1]
    refine ⟨rfl, rfl, ?_⟩
    simp only
    rw [k3]
    unfold execStep
    rw [k2]
  · have h7 : (a == ch '-' || a == ch '+' || a == ch '.' || Parse.isDigit a) = false := by
      cases hx : (a == ch '-' || a == ch '+' || a == ch '.' || Parse.isDigit a) with
      | false => rfl
      | true => exact absurd hx h7
    left
    have e : ∀ r, stepValue p (a :: r) ret =
        { p := { p with currentState := ret, isDouble := false }, rest := a :: r, err := some .unknownChar } := by
      intro r; unfold stepValue; rw [trimLeft_ns _ ha]
      simp only [h1, h2, h3, h4, h5, h6, h7, if_true, if_false, Bool.not_false, Bool.false_eq_true]
    rw [e, e]; exact ⟨rfl, rfl, by simp⟩

theorem class_value_aux (p : P) (a : UInt8) (rest : Bytes) (ret : St) (g : R → R)
    (hg : ∀ x, (g x).p = x.p ∧ (g x).rest = x.rest ∧ (g x).err = x.err)
    (hE : ∀ b, execStep p b = (g (stepValue p b ret), false))
    (ha : Utf8.isSpaceByte a = false) (hret : isRet ret = true) :
    Cont p a rest ∨ Local p a rest := by
  rcases stepValue_class p a rest ret ha hret with ⟨k1, k2, k3⟩ | ⟨k1, k2, k3⟩
  · right
    unfold Local
    rw [hE, hE]
    simp only [(hg _).1, (hg _).2.1, (hg _).2.2]
    exact ⟨trivial, k1, by rw [k2], by rw [k2], fun _ h => ⟨k2, k3 h⟩⟩
  · left
    unfold Cont
    rw [hE, hE]
    simp only [(hg _).1, (hg _).2.1, (hg _).2.2]
    rw [k3]
    refine ⟨trivial, k1, k2, rfl, ?_⟩
    exact ⟨(hg _).2.2, by rw [(hg _).1], by rw [(hg _).1], fun _ => ⟨(hg _).2.1, by rw [(hg _).1]; exact Eqv.refl _⟩⟩

theorem class_value (p : P) (a : UInt8) (rest : Bytes) (ha : Utf8.isSpaceByte a = false)
    (hcs : p.currentState = .startState ∨ p.currentState = .dictFieldValue ∨ p.currentState = .arrStateValue) :
    Cont p a rest ∨ Local p a rest := by
  rcases hcs with hcs | hcs | hcs
  · exact class_value_aux p a rest .startState id (fun _ => ⟨rfl, rfl, rfl⟩)
      (by intro b; unfold execStep; rw [hcs]; simp only [stepStart, hcs, id]) ha rfl
  · exact class_value_aux p a rest .dictFieldStateEnd id (fun _ => ⟨rfl, rfl, rfl⟩)
      (by intro b; unfold execStep; rw [hcs]; rfl) ha rfl
  · exact class_value_aux p a rest .arrStateNext (fun x => { x with reported := false }) (fun _ => ⟨rfl, rfl, rfl⟩)
      (by intro b; unfold execStep; rw [hcs]) ha rfl

/-! ## classification of the steps: containers -/

theorem local_of_eq (p : P) (a : UInt8) (rest : Bytes) (q : P) (e : Option Err) (s : Bool)
    (h : ∀ r, ∃ rep rst, execStep p (a :: r) = ({ p := q, rest := rst, reported := rep, err := e }, s) ∧
      (e = none → rst = r)) : Local p a rest := by
  obtain ⟨rep1, rst1, h1, h1'⟩ := h []
  obtain ⟨rep2, rst2, h2, h2'⟩ := h rest
  unfold Local
  rw [h1, h2]
  exact ⟨rfl, rfl, rfl, rfl, fun _ he => ⟨rfl, h1' he, h2' he⟩⟩

theorem move_of_eq (p : P) (a : UInt8) (rest : Bytes) (q : P) (e : Option Err)
    (h : ∀ r, ∃ rep, execStep p (a :: r) = ({ p := q, rest := a :: r, reported := rep, err := e }, false))
    (hw0 : weight q.currentState = 0) (hw1 : weight p.currentState = 1) : Move p a rest := by
  obtain ⟨rep1, h1⟩ := h []
  obtain ⟨rep2, h2⟩ := h rest
  unfold Move
  rw [h1, h2]
  exact ⟨rfl, rfl, rfl, rfl, fun _ => ⟨rfl, rfl⟩, hw0, hw1⟩

theorem class_dict (p : P) (a : UInt8) (rest : Bytes) (ae : Bool) (ha : Utf8.isSpaceByte a = false)
    (hE : ∀ b, execStep p b = (stepDict p b ae, false)) (hw : weight p.currentState = 1) :
    Local p a rest ∨ Move p a rest := by
  by_cases h1 : (a == ch '}') = true
  · left
    cases ae with
    | false =>
      apply local_of_eq p a rest p (some .unexpectedDictClose) false
      intro r
      refine ⟨false, [], ?_, by simp⟩
      rw [hE]; unfold stepDict; rw [trimLeft_ns _ ha]; simp only [h1, if_true, Bool.not_false]
    | true =>
      apply local_of_eq p a rest (visit (popState p) .objEnd).1 (visit (popState p) .objEnd).2 false
      intro r
      refine ⟨true, r, ?_, fun _ => rfl⟩
      rw [hE]; unfold stepDict; rw [trimLeft_ns _ ha]
      simp only [h1, if_true, Bool.not_true, Bool.false_eq_true, if_false, endDict, List.drop_succ_cons, List.drop_zero]
  · have h1 : (a == ch '}') = false := by simpa using h1
    by_cases h2 : (a == ch '"') = true
    · right
      apply move_of_eq p a rest { p with currentState := .dictFieldState } none _ rfl hw
      intro r
      refine ⟨false, ?_⟩
      rw [hE]; unfold stepDict; rw [trimLeft_ns _ ha]
      simp only [h1, h2, if_true, Bool.false_eq_true, if_false]
    · have h2 : (a == ch '"') = false := by simpa using h2
      left
      apply local_of_eq p a rest p (some .expectedFieldName) false
      intro r
      refine ⟨false, [], ?_, by simp⟩
      rw [hE]; unfold stepDict; rw [trimLeft_ns _ ha]
      simp only [h1, h2, Bool.false_eq_true, if_false]

theorem class_dictValueEnd (p : P) (a : UInt8) (rest : Bytes) (ha : Utf8.isSpaceByte a = false)
    (hE : ∀ b, execStep p b = (stepDictValueEnd p b, false)) : Local p a rest := by
  by_cases h1 : (a == ch '}') = true
  · apply local_of_eq p a rest (visit (popState p) .objEnd).1 (visit (popState p) .objEnd).2 false
    intro r
    refine ⟨true, r, ?_, fun _ => rfl⟩
    rw [hE]; unfold stepDictValueEnd; rw [trimLeft_ns _ ha]
    simp only [h1, if_true, endDict, List.drop_succ_cons, List.drop_zero]
  · have h1 : (a == ch '}') = false := by simpa using h1
    by_cases h2 : (a == ch ',') = true
    · apply local_of_eq p a rest { p with currentState := .dictNextFieldState } none false
      intro r
      refine ⟨false, r, ?_, fun _ => rfl⟩
      rw [hE]; unfold stepDictValueEnd; rw [trimLeft_ns _ ha]
      simp only [h1, h2, if_true, Bool.false_eq_true, if_false]
    · have h2 : (a == ch ',') = false := by simpa using h2
      apply local_of_eq p a rest p (some .unknownChar) false
      intro r
      refine ⟨false, [], ?_, by simp⟩
      rw [hE]; unfold stepDictValueEnd; rw [trimLeft_ns _ ha]
      simp only [h1, h2, Bool.false_eq_true, if_false]

theorem class_array (p : P) (a : UInt8) (rest : Bytes) (ha : Utf8.isSpaceByte a = false)
    (hE : ∀ b, execStep p b = (stepArray p b true, false)) (hw : weight p.currentState = 1) :
    Local p a rest ∨ Move p a rest := by
  by_cases h1 : (a == ch ']') = true
  · left
    apply local_of_eq p a rest (visit (popState p) .arrEnd).1 (visit (popState p) .arrEnd).2 false
    intro r
    refine ⟨true, r, ?_, fun _ => rfl⟩
    rw [hE]; unfold stepArray; rw [trimLeft_ns _ ha]
    simp only [h1, if_true, Bool.not_true, Bool.false_eq_true, if_false, endArray, List.drop_succ_cons, List.drop_zero]
  · have h1 : (a == ch ']') = false := by simpa using h1
    right
    apply move_of_eq p a rest { p with currentState := .arrStateValue } none _ rfl hw
    intro r
    refine ⟨false, ?_⟩
    rw [hE]; unfold stepArray; rw [trimLeft_ns _ ha]
    simp only [h1, Bool.false_eq_true, if_false]

theorem class_arrValueEnd (p : P) (a : UInt8) (rest : Bytes) (ha : Utf8.isSpaceByte a = false)
    (hE : ∀ b, execStep p b = (stepArrValueEnd p b, false)) : Local p a rest := by
  by_cases h1 : (a == ch ']') = true
  · apply local_of_eq p a rest (visit (popState p) .arrEnd).1 (visit (popState p) .arrEnd).2 false
    intro r
    refine ⟨true, r, ?_, fun _ => rfl⟩
    rw [hE]; unfold stepArrValueEnd; rw [trimLeft_ns _ ha]
    simp only [h1, if_true, endArray, List.drop_succ_cons, List.drop_zero]
  · have h1 : (a == ch ']') = false := by simpa using h1
    by_cases h2 : (a == ch ',') = true
    · apply local_of_eq p a rest { p with currentState := .arrStateValue } none false
      intro r
      refine ⟨false, r, ?_, fun _ => rfl⟩
      rw [hE]; unfold stepArrValueEnd; rw [trimLeft_ns _ ha]
      simp only [h1, h2, if_true, Bool.false_eq_true, if_false]
    · have h2 : (a == ch ',') = false := by simpa using h2
      apply local_of_eq p a rest p (some .unknownChar) false
      intro r
      refine ⟨false, [], ?_, by simp⟩
      rw [hE]; unfold stepArrValueEnd; rw [trimLeft_ns _ ha]
      simp only [h1, h2, Bool.false_eq_true, if_false]

theorem class_sep (p : P) (a : UInt8) (rest : Bytes) (ha : Utf8.isSpaceByte a = false)
    (hcs : p.currentState = .dictFieldValueSep) : Local p a rest := by
  apply local_of_eq p a rest { p with currentState := .dictFieldValue }
    (if (a != ch ':') = true then some Err.expectColon else none) false
  intro r
  refine ⟨false, r, ?_, fun _ => rfl⟩
  unfold execStep; rw [hcs]; simp only; rw [trimLeft_ns _ ha]

theorem class_failed (p : P) (a : UInt8) (rest : Bytes) (hcs : p.currentState = .failedState) :
    Local p a rest := by
  apply local_of_eq p a rest (if p.err.isNone then { p with err := some .invalidState } else p)
    (if p.err.isNone then { p with err := some .invalidState } else p).err true
  intro r
  refine ⟨false, a :: r, ?_, fun h => ?_⟩
  · unfold execStep; rw [hcs]
  · exfalso
    cases he : p.err with
    | none => rw [he] at h; simp at h
    | some e => rw [he] at h; simp [he] at h

/-! ## classification of the steps: scalars in progress -/

theorem class_string (p : P) (a : UInt8) (rest : Bytes) (hcs : p.currentState = .stringState) :
    Cont p a rest ∨ Local p a rest := by
  have hE : ∀ q : P, q.currentState = .stringState → ∀ b, execStep q b = (stepString q b, false) := by
    intro q hq b; unfold execStep; rw [hq]
  cases hc : closes p a with
  | true =>
    right
    obtain ⟨k1, k2, k3⟩ := stepString_close p a rest hc
    unfold Local
    rw [hE p hcs, hE p hcs]
    exact ⟨rfl, k2, by rw [k1], by rw [k1], fun _ h => ⟨k1, k3 h⟩⟩
  | false =>
    left
    obtain ⟨k1, k2, k3⟩ := stepString_peel p a rest hc
    unfold Cont
    rw [hE p hcs, hE p hcs]
    simp only
    rw [hE _ (by rw [k2]; exact hcs), k3]
    refine ⟨trivial, by rw [k1], by rw [k1], rfl, REq.refl _⟩

theorem class_key (p : P) (a : UInt8) (rest : Bytes) (hcs : p.currentState = .dictFieldState) :
    Cont p a rest ∨ Local p a rest := by
  have hE : ∀ q : P, q.currentState = .dictFieldState → ∀ b, execStep q b = (stepDictKey q b, false) := by
    intro q hq b; unfold execStep; rw [hq]
  cases hc : closes p a with
  | true =>
    right
    obtain ⟨k1, k2, k3⟩ := stepDictKey_close p a rest hc
    unfold Local
    rw [hE p hcs, hE p hcs]
    exact ⟨rfl, k2, by rw [k1], by rw [k1], fun _ h => ⟨k1, k3 h⟩⟩
  | false =>
    left
    obtain ⟨k1, k2, k3⟩ := stepDictKey_peel p a rest hc
    unfold Cont
    rw [hE p hcs, hE p hcs]
    simp only
    rw [hE _ (by rw [k2]; exact hcs), k3]
    refine ⟨trivial, by rw [k1], by rw [k1], rfl, REq.refl _⟩

theorem class_number (p : P) (a : UInt8) (rest : Bytes) (hinv : Inv p) (hcs : p.currentState = .numberState) :
    Cont p a rest ∨ Move p a rest := by
  have hE : ∀ q : P, q.currentState = .numberState → ∀ b, execStep q b = (stepNumber q b, false) := by
    intro q hq b; unfold execStep; rw [hq]
  cases hc : isStopChar a with
  | true =>
    right
    have hw : weight (stepNumber p [a]).p.currentState = 0 := by
      have hd : (scanNumber [a] p.isDouble).2.2.1 = true := by simp [scanNumber, hc]
      rw [stepNumber_done p [a] hd]
      obtain ⟨_, evs, nevs, h2⟩ := reportNumber_spec
        { p with isDouble := (scanNumber [a] p.isDouble).2.2.2, literalBuffer := [] }
        (p.literalBuffer ++ (scanNumber [a] p.isDouble).1) (scanNumber [a] p.isDouble).2.2.2
        (by intro h; exact hinv.num hcs (List.append_eq_nil_iff.mp h).1)
      rw [h2]
      refine (popState_spec _ ?_).2.1
      exact hinv.stack
    apply move_of_eq p a rest (stepNumber p [a]).p (stepNumber p [a]).err _ hw (by rw [hcs]; rfl)
    intro r
    refine ⟨(stepNumber p [a]).reported, ?_⟩
    rw [hE p hcs, (stepNumber_stop p a r hc).1]
  | false =>
    left
    obtain ⟨k1, k2, k3⟩ := stepNumber_peel p a rest hc
    unfold Cont
    rw [hE p hcs, hE p hcs]
    simp only
    rw [hE _ (by rw [k2]; exact hcs), k3]
    refine ⟨trivial, by rw [k1], by rw [k1], rfl, REq.refl _⟩

theorem class_lit (p : P) (a : UInt8) (rest : Bytes) (kind : String) (err : Err) (ev : Ev) (hinv : Inv p)
    (hl : isLit p.currentState = true) (hk : (strBytes kind).length = kindLen p.currentState)
    (hE : ∀ q : P, q.currentState = p.currentState → ∀ b, execStep q b = (stepLit q b kind err ev, false)) :
    Cont p a rest ∨ Local p a rest ∨ Move p a rest := by
  have hn : p.required ≤ (strBytes kind).length := by rw [hk]; exact hinv.lit hl
  have hw1 : weight p.currentState = 1 := by
    cases hcs : p.currentState <;> rw [hcs] at hl <;> simp [isLit] at hl <;> rfl
  rcases stepLit_class p a rest kind err ev hn hinv.stack with k | ⟨k1, k2, k3, k4⟩ | ⟨k1, k2⟩
  · right; right
    apply move_of_eq p a rest (visit (popState p) ev).1 (visit (popState p) ev).2 _
      (by rw [visit_cs]; exact (popState_spec p hinv.stack).2.1) hw1
    intro r
    exact ⟨true, by rw [hE p rfl, k]⟩
  · right; left
    unfold Local
    rw [hE p rfl, hE p rfl]
    exact ⟨rfl, k1, k2, k3, fun _ h => k4 h⟩
  · left
    unfold Cont
    rw [hE p rfl, hE p rfl]
    simp only
    rw [k1]
    simp only
    rw [hE (setReq p (p.required - 1)) rfl]
    exact ⟨trivial, trivial, trivial, rfl, k2⟩

/-! ## every step is of one of the three kinds; the peel lemma -/

theorem classify (p : P) (a : UInt8) (rest : Bytes) (hinv : Inv p) :
    Cont p a rest ∨ Local p a rest ∨ Move p a rest := by
  cases hsp : Utf8.isSpaceByte a with
  | true =>
    by_cases ht : trims p.currentState = true
    · exact Or.inl (class_space p a rest ht hsp)
    · cases hcs : p.currentState <;> rw [hcs] at ht <;> simp [trims] at ht
      · exact Or.inr (Or.inl (class_failed p a rest hcs))
      · exact (class_key p a rest hcs).imp id Or.inl
      · exact class_lit p a rest "null" .expectedNull .null hinv (by rw [hcs]; rfl) (by rw [kind_null, hcs]; rfl)
          (by intro q hq b; unfold execStep; rw [hq, hcs]; rfl)
      · exact class_lit p a rest "true" .expectedTrue (.bool true) hinv (by rw [hcs]; rfl) (by rw [kind_true, hcs]; rfl)
          (by intro q hq b; unfold execStep; rw [hq, hcs]; rfl)
      · exact class_lit p a rest "false" .expectedFalse (.bool false) hinv (by rw [hcs]; rfl)
          (by rw [kind_false, hcs]; rfl) (by intro q hq b; unfold execStep; rw [hq, hcs]; rfl)
      · exact (class_string p a rest hcs).imp id Or.inl
      · exact (class_number p a rest hinv hcs).imp id Or.inr
  | false =>
    cases hcs : p.currentState with
    | failedState => exact Or.inr (Or.inl (class_failed p a rest hcs))
    | startState => exact (class_value p a rest hsp (Or.inl hcs)).imp id Or.inl
    | dictFieldValue => exact (class_value p a rest hsp (Or.inr (Or.inl hcs))).imp id Or.inl
    | arrStateValue => exact (class_value p a rest hsp (Or.inr (Or.inr hcs))).imp id Or.inl
    | dictState =>
      exact Or.inr (class_dict p a rest true hsp (by intro b; unfold execStep; rw [hcs]) (by rw [hcs]; rfl))
    | dictNextFieldState =>
      exact Or.inr (class_dict p a rest false hsp (by intro b; unfold execStep; rw [hcs]) (by rw [hcs]; rfl))
    | dictFieldState => exact (class_key p a rest hcs).imp id Or.inl
    | dictFieldValueSep => exact Or.inr (Or.inl (class_sep p a rest hsp hcs))
    | dictFieldStateEnd =>
      exact Or.inr (Or.inl (class_dictValueEnd p a rest hsp (by intro b; unfold execStep; rw [hcs])))
    | arrState =>
      exact Or.inr (class_array p a rest hsp (by intro b; unfold execStep; rw [hcs]) (by rw [hcs]; rfl))
    | arrStateNext =>
      exact Or.inr (Or.inl (class_arrValueEnd p a rest hsp (by intro b; unfold execStep; rw [hcs])))
    | nullState =>
      exact class_lit p a rest "null" .expectedNull .null hinv (by rw [hcs]; rfl) (by rw [kind_null, hcs]; rfl)
        (by intro q hq b; unfold execStep; rw [hq, hcs]; rfl)
    | trueState =>
      exact class_lit p a rest "true" .expectedTrue (.bool true) hinv (by rw [hcs]; rfl) (by rw [kind_true, hcs]; rfl)
        (by intro q hq b; unfold execStep; rw [hq, hcs]; rfl)
    | falseState =>
      exact class_lit p a rest "false" .expectedFalse (.bool false) hinv (by rw [hcs]; rfl)
        (by rw [kind_false, hcs]; rfl) (by intro q hq b; unfold execStep; rw [hq, hcs]; rfl)
    | stringState => exact (class_string p a rest hcs).imp id Or.inl
    | numberState => exact (class_number p a rest hinv hcs).imp id Or.inr

/-- the peel lemma for states that consume -/
theorem peel0 (p : P) (a : UInt8) (rest : Bytes) (hinv : Inv p) (hw : weight p.currentState = 0) :
    RE (seq (runA p [a]) rest) (runA p (a :: rest)) := by
  by_cases hrest : rest = []
  · subst hrest; rw [seq_nil]; exact RE.refl _
  · rcases classify p a rest hinv with h | h | h
    · exact peel_of_cont p a rest hinv hrest h
    · exact peel_of_local p a rest hinv h
    · have := h.2.2.2.2.2.2; omega

/-- THE PEEL LEMMA: from any state satisfying the invariant, running the parser on
`a :: rest` agrees with running it on `[a]` and then on `rest` -/
theorem peel (p : P) (a : UInt8) (rest : Bytes) (hinv : Inv p) :
    RE (seq (runA p [a]) rest) (runA p (a :: rest)) := by
  by_cases hrest : rest = []
  · subst hrest; rw [seq_nil]; exact RE.refl _
  · rcases classify p a rest hinv with h | h | h
    · exact peel_of_cont p a rest hinv hrest h
    · exact peel_of_local p a rest hinv h
    · exact peel_of_move p a rest hinv h (fun hi => peel0 _ a rest hi h.2.2.2.2.2.1)

end SF.Json.ParseP
