/-
  C03 (truncation clause) for the JSON parser mirror: the SHAPE of the state stack in every
  reachable state.  Idle = empty stack and startState; in every other state the stack is
  `r₁ … rₖ startState` with `rᵢ ∈ {dictFieldStateEnd, arrStateNext}` (one entry per value
  that has been begun and not completed: the open containers and the scalar in progress),
  and the current state is neither startState nor failedState.  Hence failedState is not
  reachable, and `finalize` reports "incomplete" in every state but idle (a top-level number
  excepted, which end of input completes).
-/
import SF.Proofs.JsonLoop
set_option linter.unusedSimpArgs false
namespace SF.Json.ParseP
open SF SF.Json SF.Json.Parse SF.Json.Float

/-- return states inside a container -/
def isMid (s : St) : Bool := s == .dictFieldStateEnd || s == .arrStateNext

/-- the stack of a state inside a value: return states of the enclosing containers,
startState at the bottom -/
def stackWF : List St → Bool
  | [] => false
  | [s] => s == .startState
  | s :: rest => isMid s && stackWF rest

/-- states other than idle and fail -/
def isInner (s : St) : Bool := s != .startState && s != .failedState

/-- the shape of (state stack, current state) in reachable states -/
def Shape (ss : List St) (cs : St) : Prop :=
  (ss = [] ∧ cs = .startState) ∨ (stackWF ss = true ∧ isInner cs = true)

/-- where `stepValue` may be told to return to, given the stack -/
def PushOk (ss : List St) (ret : St) : Prop :=
  (ss = [] ∧ ret = .startState) ∨ (stackWF ss = true ∧ isMid ret = true)

theorem isMid_inner {s : St} (h : isMid s = true) : isInner s = true := by
  cases s <;> simp [isMid] at h <;> rfl

theorem stackWF_cons {ss : List St} {ret : St} (h : PushOk ss ret) : stackWF (ret :: ss) = true := by
  rcases h with ⟨rfl, rfl⟩ | ⟨h1, h2⟩
  · rfl
  · cases ss with
    | nil => simp [stackWF] at h1
    | cons s ss => simp only [stackWF, h1, h2]; rfl

theorem shape_ret {ss : List St} {ret : St} (h : PushOk ss ret) : Shape ss ret := by
  rcases h with ⟨rfl, rfl⟩ | ⟨h1, h2⟩
  · exact Or.inl ⟨rfl, rfl⟩
  · exact Or.inr ⟨h1, isMid_inner h2⟩

theorem shape_pop (p : P) (h : stackWF p.states = true) :
    Shape (popState p).states (popState p).currentState := by
  unfold popState
  cases hs : p.states with
  | nil => rw [hs] at h; simp [stackWF] at h
  | cons s rest =>
    rw [hs] at h
    simp only
    cases rest with
    | nil =>
      simp only [stackWF, beq_iff_eq] at h
      exact Or.inl ⟨rfl, h⟩
    | cons s' rest' =>
      simp only [stackWF, Bool.and_eq_true] at h
      exact Or.inr ⟨by simp only [stackWF, h.2], isMid_inner h.1⟩

theorem stackWF_isRet {ss : List St} (h : stackWF ss = true) : ∀ s ∈ ss, isRet s = true := by
  induction ss with
  | nil => simp
  | cons s rest ih =>
    intro x hx
    cases rest with
    | nil =>
      simp only [stackWF, beq_iff_eq] at h
      simp only [List.mem_singleton] at hx
      subst hx; subst h; rfl
    | cons s' rest' =>
      simp only [stackWF, Bool.and_eq_true] at h
      rcases List.mem_cons.mp hx with rfl | hx
      · have := h.1
        cases x <;> simp [isMid] at this <;> rfl
      · exact ih (by simp only [stackWF, h.2]) x hx

/-! ## the step functions preserve the shape -/

theorem visit_shape {p : P} (e : Ev) (h : Shape p.states p.currentState) :
    Shape (visit p e).1.states (visit p e).1.currentState := by
  rw [visit_fst]; exact h

theorem stepLit_shape (p : P) (b : Bytes) (kind : String) (err : Err) (ev : Ev)
    (hreq : p.required ≤ (strBytes kind).length) (h : stackWF p.states = true)
    (hcs : isInner p.currentState = true) :
    Shape (stepLit p b kind err ev).p.states (stepLit p b kind err ev).p.currentState := by
  by_cases hb : b.length < p.required
  · rw [stepLit_short p b _ err ev hreq hb]
    split <;> exact Or.inr ⟨h, hcs⟩
  · rw [stepLit_full p b _ err ev hreq (by omega)]
    split
    · exact visit_shape _ (shape_pop p h)
    · exact Or.inr ⟨h, hcs⟩

theorem stepNumber_shape (p : P) (b : Bytes) (h : stackWF p.states = true)
    (hcs : isInner p.currentState = true) (hne : p.literalBuffer ++ (scanNumber b p.isDouble).1 ≠ []) :
    Shape (stepNumber p b).p.states (stepNumber p b).p.currentState := by
  cases hd : (scanNumber b p.isDouble).2.2.1 with
  | false =>
    rw [stepNumber_more p b hd]
    exact Or.inr ⟨h, hcs⟩
  | true =>
    rw [stepNumber_done p b hd]
    obtain ⟨_, evs, nevs, h2⟩ := reportNumber_spec
      { p with isDouble := (scanNumber b p.isDouble).2.2.2, literalBuffer := [] }
      (p.literalBuffer ++ (scanNumber b p.isDouble).1) (scanNumber b p.isDouble).2.2.2 hne
    rw [h2]
    exact shape_pop _ h

theorem stepString_shape (p : P) (b : Bytes) (hb : b ≠ []) (h : stackWF p.states = true)
    (hcs : isInner p.currentState = true) :
    Shape (stepString p b).p.states (stepString p b).p.currentState := by
  obtain ⟨esc, lb, ref, done, rest, err, hd, _, h2, _⟩ := doString_spec p b hb
  unfold stepString
  rw [hd]
  cases done with
  | true =>
    obtain ⟨rfl, _⟩ := h2 rfl
    simp only [Bool.true_and, Option.isNone_none, if_true]
    exact visit_shape _ (shape_pop _ h)
  | false =>
    simp only [Bool.false_and, Bool.false_eq_true, if_false]
    exact Or.inr ⟨h, hcs⟩

theorem stepDictKey_shape (p : P) (b : Bytes) (hb : b ≠ []) (h : stackWF p.states = true)
    (hcs : isInner p.currentState = true) :
    Shape (stepDictKey p b).p.states (stepDictKey p b).p.currentState := by
  obtain ⟨esc, lb, ref, done, rest, err, hd, _, h2, _⟩ := doString_spec p b hb
  unfold stepDictKey
  rw [hd]
  cases done with
  | true =>
    obtain ⟨rfl, _⟩ := h2 rfl
    simp only [Bool.true_and, Option.isNone_none, if_true]
    rw [visit_fst]
    exact Or.inr ⟨h, rfl⟩
  | false =>
    simp only [Bool.false_and, Bool.false_eq_true, if_false]
    exact Or.inr ⟨h, hcs⟩

theorem isRet_of_pushOk {ss : List St} {ret : St} (h : PushOk ss ret) : isRet ret = true := by
  rcases h with ⟨_, rfl⟩ | ⟨_, h2⟩
  · rfl
  · cases ret <;> simp [isMid] at h2 <;> rfl

theorem stepValue_shape (p : P) (b : Bytes) (ret : St) (hs : Shape p.states p.currentState)
    (hret : PushOk p.states ret) :
    Shape (stepValue p b ret).p.states (stepValue p b ret).p.currentState := by
  have hr := isRet_of_pushOk hret
  have hwf := stackWF_cons hret
  unfold stepValue
  split
  · exact hs
  · rename_i c tl htr
    simp only
    by_cases h1 : (c == ch '{') = true
    · rw [if_pos h1, pushState_ret p ret _ hr]
      exact visit_shape _ (Or.inr ⟨hwf, rfl⟩)
    rw [if_neg h1]
    by_cases h2 : (c == ch '[') = true
    · rw [if_pos h2, pushState_ret p ret _ hr]
      exact visit_shape _ (Or.inr ⟨hwf, rfl⟩)
    rw [if_neg h2]
    by_cases h3 : (c == ch 'n') = true
    · rw [if_pos h3, pushState_ret p ret _ hr]
      exact stepLit_shape _ _ _ _ _ (by rw [kind_null]; simp) hwf rfl
    rw [if_neg h3]
    by_cases h4 : (c == ch 'f') = true
    · rw [if_pos h4, pushState_ret p ret _ hr]
      exact stepLit_shape _ _ _ _ _ (by rw [kind_false]; simp) hwf rfl
    rw [if_neg h4]
    by_cases h5 : (c == ch 't') = true
    · rw [if_pos h5, pushState_ret p ret _ hr]
      exact stepLit_shape _ _ _ _ _ (by rw [kind_true]; simp) hwf rfl
    rw [if_neg h5]
    by_cases h6 : (c == ch '"') = true
    · rw [if_pos h6]
      have := pushState_ret { p with literalBuffer := [] } ret .stringState hr
      simp only at this
      rw [this]
      exact stepString_shape _ _ (by simp) hwf rfl
    rw [if_neg h6]
    by_cases h7 : (c == ch '-' || c == ch '+' || c == ch '.' || Parse.isDigit c) = true
    · have h7' : (!(c == ch '-' || c == ch '+' || c == ch '.' || Parse.isDigit c)) = false := by rw [h7]; rfl
      rw [h7']
      simp only [Bool.false_eq_true, if_false]
      have := pushState_ret { p with isDouble := false, literalBuffer := [] } ret .numberState hr
      simp only at this
      rw [this]
      refine stepNumber_shape _ _ hwf rfl ?_
      simp only [List.nil_append]
      exact scanNumber_tok_ne c tl _ (numStart_not_stop c h7)
    · have h7' : (!(c == ch '-' || c == ch '+' || c == ch '.' || Parse.isDigit c)) = true := by
        simp only [Bool.not_eq_true] at h7; rw [h7]; rfl
      rw [h7']
      simp only [if_true]
      exact shape_ret hret

theorem endDict_shape (p : P) (b : Bytes) (h : stackWF p.states = true) :
    Shape (endDict p b).p.states (endDict p b).p.currentState := by
  unfold endDict; exact visit_shape _ (shape_pop p h)

theorem endArray_shape (p : P) (b : Bytes) (h : stackWF p.states = true) :
    Shape (endArray p b).p.states (endArray p b).p.currentState := by
  unfold endArray; exact visit_shape _ (shape_pop p h)

theorem stepDict_shape (p : P) (b : Bytes) (allowEnd : Bool) (h : stackWF p.states = true)
    (hcs : isInner p.currentState = true) :
    Shape (stepDict p b allowEnd).p.states (stepDict p b allowEnd).p.currentState := by
  unfold stepDict
  split
  · exact Or.inr ⟨h, hcs⟩
  · simp only
    split
    · split
      · exact Or.inr ⟨h, hcs⟩
      · exact endDict_shape p _ h
    · split
      · exact Or.inr ⟨h, rfl⟩
      · exact Or.inr ⟨h, hcs⟩

theorem stepDictValueEnd_shape (p : P) (b : Bytes) (h : stackWF p.states = true)
    (hcs : isInner p.currentState = true) :
    Shape (stepDictValueEnd p b).p.states (stepDictValueEnd p b).p.currentState := by
  unfold stepDictValueEnd
  split
  · exact Or.inr ⟨h, hcs⟩
  · split
    · exact endDict_shape p _ h
    · split
      · exact Or.inr ⟨h, rfl⟩
      · exact Or.inr ⟨h, hcs⟩

theorem stepArray_shape (p : P) (b : Bytes) (allowEnd : Bool) (h : stackWF p.states = true)
    (hcs : isInner p.currentState = true) :
    Shape (stepArray p b allowEnd).p.states (stepArray p b allowEnd).p.currentState := by
  unfold stepArray
  split
  · exact Or.inr ⟨h, hcs⟩
  · simp only
    split
    · split
      · exact Or.inr ⟨h, hcs⟩
      · exact endArray_shape p _ h
    · exact Or.inr ⟨h, rfl⟩

theorem stepArrValueEnd_shape (p : P) (b : Bytes) (h : stackWF p.states = true)
    (hcs : isInner p.currentState = true) :
    Shape (stepArrValueEnd p b).p.states (stepArrValueEnd p b).p.currentState := by
  unfold stepArrValueEnd
  split
  · exact Or.inr ⟨h, hcs⟩
  · split
    · exact endArray_shape p _ h
    · split
      · exact Or.inr ⟨h, rfl⟩
      · exact Or.inr ⟨h, hcs⟩

/-- REACHABLE-STATE INVARIANT: `Inv` and the stack shape -/
structure WF (p : P) : Prop where
  inv : Inv p
  shape : Shape p.states p.currentState

theorem wf_init (failAt : Option Nat) : WF (init failAt) :=
  ⟨inv_init failAt, Or.inl ⟨rfl, rfl⟩⟩

theorem wf_fresh : WF {} := ⟨inv_fresh, Or.inl ⟨rfl, rfl⟩⟩

/-- in a well-formed state other than idle the stack is a proper one -/
theorem WF.stack_of_ne {p : P} (h : WF p) (hcs : p.currentState ≠ .startState) :
    stackWF p.states = true ∧ isInner p.currentState = true := by
  rcases h.shape with ⟨_, h2⟩ | h2
  · exact absurd h2 hcs
  · exact h2

/-- failedState is not reachable -/
theorem WF.not_failed {p : P} (h : WF p) : p.currentState ≠ .failedState := by
  rcases h.shape with ⟨_, h2⟩ | ⟨_, h2⟩
  · rw [h2]; simp
  · intro hc; rw [hc] at h2; simp [isInner] at h2

/-- one step preserves the shape -/
theorem execStep_shape (p : P) (b : Bytes) (hb : b ≠ []) (h : WF p) :
    Shape (execStep p b).1.p.states (execStep p b).1.p.currentState := by
  have hnf := h.not_failed
  unfold execStep
  cases hcs : p.currentState with
  | failedState => exact absurd hcs hnf
  | startState =>
    simp only [stepStart, hcs]
    have hs := h.shape
    rcases hs with ⟨h1, _⟩ | ⟨_, h2⟩
    · exact stepValue_shape p b _ h.shape (Or.inl ⟨h1, rfl⟩)
    · rw [hcs] at h2; simp [isInner] at h2
  | dictState =>
    obtain ⟨k1, k2⟩ := h.stack_of_ne (by rw [hcs]; simp)
    exact stepDict_shape p b true k1 k2
  | dictNextFieldState =>
    obtain ⟨k1, k2⟩ := h.stack_of_ne (by rw [hcs]; simp)
    exact stepDict_shape p b false k1 k2
  | dictFieldState =>
    obtain ⟨k1, k2⟩ := h.stack_of_ne (by rw [hcs]; simp)
    exact stepDictKey_shape p b hb k1 k2
  | dictFieldValueSep =>
    obtain ⟨k1, k2⟩ := h.stack_of_ne (by rw [hcs]; simp)
    simp only
    split
    · exact Or.inr ⟨k1, k2⟩
    · exact Or.inr ⟨k1, rfl⟩
  | dictFieldValue =>
    obtain ⟨k1, k2⟩ := h.stack_of_ne (by rw [hcs]; simp)
    exact stepValue_shape p b _ h.shape (Or.inr ⟨k1, rfl⟩)
  | dictFieldStateEnd =>
    obtain ⟨k1, k2⟩ := h.stack_of_ne (by rw [hcs]; simp)
    exact stepDictValueEnd_shape p b k1 k2
  | arrState =>
    obtain ⟨k1, k2⟩ := h.stack_of_ne (by rw [hcs]; simp)
    exact stepArray_shape p b true k1 k2
  | arrStateValue =>
    obtain ⟨k1, k2⟩ := h.stack_of_ne (by rw [hcs]; simp)
    exact stepValue_shape p b _ h.shape (Or.inr ⟨k1, rfl⟩)
  | arrStateNext =>
    obtain ⟨k1, k2⟩ := h.stack_of_ne (by rw [hcs]; simp)
    exact stepArrValueEnd_shape p b k1 k2
  | nullState =>
    obtain ⟨k1, k2⟩ := h.stack_of_ne (by rw [hcs]; simp)
    exact stepLit_shape p b _ _ _ (by rw [kind_null]; have := h.inv.lit (by rw [hcs]; rfl); rw [hcs] at this; exact this) k1 k2
  | trueState =>
    obtain ⟨k1, k2⟩ := h.stack_of_ne (by rw [hcs]; simp)
    exact stepLit_shape p b _ _ _ (by rw [kind_true]; have := h.inv.lit (by rw [hcs]; rfl); rw [hcs] at this; exact this) k1 k2
  | falseState =>
    obtain ⟨k1, k2⟩ := h.stack_of_ne (by rw [hcs]; simp)
    exact stepLit_shape p b _ _ _ (by rw [kind_false]; have := h.inv.lit (by rw [hcs]; rfl); rw [hcs] at this; exact this) k1 k2
  | stringState =>
    obtain ⟨k1, k2⟩ := h.stack_of_ne (by rw [hcs]; simp)
    exact stepString_shape p b hb k1 k2
  | numberState =>
    obtain ⟨k1, k2⟩ := h.stack_of_ne (by rw [hcs]; simp)
    refine stepNumber_shape p b k1 k2 ?_
    intro hc
    exact h.inv.num hcs (List.append_eq_nil_iff.mp hc).1

/-! ## the loops preserve well-formedness -/

theorem execStep_wf (p : P) (b : Bytes) (hb : b ≠ []) (h : WF p) :
    (execStep p b).2 = false ∧ WF (execStep p b).1.p := by
  obtain ⟨k1, _, _, k4, _⟩ := execStep_ok p b hb h.inv h.not_failed
  exact ⟨k1, k4, execStep_shape p b hb h⟩

theorem feedUntil_wf (f : Nat) (p : P) (b : Bytes) (h : WF p) : WF (feedUntil f p b).p := by
  induction f generalizing p b with
  | zero => simp only [feedUntil]; exact h
  | succ f ih =>
    rw [feedUntil_succ]
    by_cases hb : b = []
    · subst hb; simp only [List.isEmpty_nil, if_true]; exact h
    · have hbe : b.isEmpty = false := by cases b <;> simp_all
      obtain ⟨k1, k2⟩ := execStep_wf p b hb h
      simp only [hbe, Bool.false_eq_true, if_false, k1]
      split
      · exact k2
      · split
        · exact k2
        · exact ih _ _ k2

theorem feed_wf (fuel : Nat) (p : P) (b : Bytes) (h : WF p) : WF (feed fuel p b).1 := by
  induction fuel generalizing p b with
  | zero => simp only [feed]; exact h
  | succ fuel ih =>
    rw [feed_succ]
    split
    · exact h
    · have := feedUntil_wf (fuelFor b) p b h
      split
      · exact this
      · exact ih _ _ this

theorem wf_setErr {p : P} (h : WF p) (e : Option Err) : WF { p with err := e } :=
  ⟨⟨h.inv.stack, h.inv.lit, h.inv.num⟩, h.shape⟩

/-- `Write` preserves well-formedness (after a reported error too) -/
theorem write_wf (p : P) (b : Bytes) (h : WF p) : WF (write p b).1 := by
  unfold write feedAll
  exact wf_setErr (feed_wf _ p b h) _

/-- every state reached from the fresh parser by ANY sequence of writes is well-formed -/
theorem writes_wf (cs : List Bytes) (p : P) (h : WF p) : WF (cs.foldl (fun q c => (write q c).1) p) := by
  induction cs generalizing p with
  | nil => exact h
  | cons c cs ih => exact ih _ (write_wf p c h)

/-! ## truncation: what `finalize` accepts -/

/-- idle: no value has been begun that is not complete -/
def Idle (p : P) : Prop := p.states = [] ∧ p.currentState = .startState

/-- a number at the top level is in progress (end of input completes it) -/
def TopNumber (p : P) : Prop := p.currentState = .numberState ∧ p.states = [.startState]

theorem go_incomplete (p : P) (h1 : stackWF p.states = true) (h2 : isInner p.currentState = true) :
    (if (!p.states.isEmpty && p.currentState != .startState) = true then (p, some Err.incomplete) else (p, none))
      = (p, some Err.incomplete) := by
  have e1 : p.states.isEmpty = false := by
    cases hs : p.states with
    | nil => rw [hs] at h1; simp [stackWF] at h1
    | cons _ _ => rfl
  have e2 : (p.currentState != .startState) = true := by
    simp only [isInner, Bool.and_eq_true] at h2; exact h2.1
  simp [e1, e2]

/-- TRUNCATION IS AN ERROR (state form): at the end of the input, a well-formed state is
accepted only if it is idle — or a top-level number is pending whose token converts —;
in every other state (inside a string, a literal, a container: before or after a key, a
colon, a value, a comma) `finalize` reports an error -/
theorem finalize_none (p : P) (h : WF p) (hf : (finalize p).2 = none) :
    Idle p ∨ (TopNumber p ∧ (reportNumber p p.literalBuffer p.isDouble).2 = none) := by
  by_cases hcs : p.currentState = .startState
  · rcases h.shape with ⟨h1, _⟩ | ⟨_, h2⟩
    · exact Or.inl ⟨h1, hcs⟩
    · rw [hcs] at h2; simp [isInner] at h2
  · obtain ⟨k1, k2⟩ := h.stack_of_ne hcs
    by_cases hn : p.currentState = .numberState
    · right
      unfold finalize at hf
      simp only [hn, beq_self_eq_true, if_true] at hf
      obtain ⟨_, evs, nevs, h2⟩ := reportNumber_spec p p.literalBuffer p.isDouble (h.inv.num hn)
      cases hr : reportNumber p p.literalBuffer p.isDouble with
      | mk q e =>
        rw [hr] at hf h2
        simp only at h2; subst h2
        cases e with
        | some e => simp at hf
        | none =>
          simp only at hf
          refine ⟨⟨hn, ?_⟩, rfl⟩
          -- the popped state must be idle
          cases hs : p.states with
          | nil => rw [hs] at k1; simp [stackWF] at k1
          | cons s rest =>
            cases rest with
            | nil =>
              rw [hs] at k1
              simp only [stackWF, beq_iff_eq] at k1
              rw [k1]
            | cons s' rest' =>
              exfalso
              rw [hs] at k1
              simp only [stackWF, Bool.and_eq_true] at k1
              have hm := isMid_inner k1.1
              simp only [isInner, Bool.and_eq_true, bne_iff_ne, ne_eq] at hm
              simp [popState, hs, hm.1] at hf
    · exfalso
      unfold finalize at hf
      have : (p.currentState == .numberState) = false := by simpa using hn
      simp only [this, Bool.false_eq_true, if_false] at hf
      rw [go_incomplete p k1 k2] at hf
      simp at hf

/-- … in particular: in every state other than idle and numberState, end of input is the
error "incomplete" -/
theorem finalize_incomplete (p : P) (h : WF p) (hcs : p.currentState ≠ .startState)
    (hn : p.currentState ≠ .numberState) : (finalize p).2 = some .incomplete := by
  obtain ⟨k1, k2⟩ := h.stack_of_ne hcs
  unfold finalize
  have : (p.currentState == .numberState) = false := by simpa using hn
  simp only [this, Bool.false_eq_true, if_false]
  rw [go_incomplete p k1 k2]

/-- … and a number inside a container at the end of input is an error as well -/
theorem finalize_nested_number (p : P) (h : WF p) (hn : p.currentState = .numberState)
    (hs : p.states ≠ [.startState]) : (finalize p).2 ≠ none := by
  intro hf
  rcases finalize_none p h hf with ⟨_, h2⟩ | ⟨⟨_, h2⟩, _⟩
  · rw [hn] at h2; simp at h2
  · exact hs h2

/-! ## from well-formed states the stored error is never consulted -/

theorem feedUntil_safe_wf (f : Nat) (p : P) (b : Bytes) (h : WF p) :
    (feedUntil f p b).err ≠ some .panic ∧ (cost p b < f → (feedUntil f p b).err ≠ some .outOfFuel) := by
  induction f generalizing p b with
  | zero => simp only [feedUntil]; exact ⟨by simp, fun h => absurd h (Nat.not_lt_zero _)⟩
  | succ f ih =>
    rw [feedUntil_succ]
    by_cases hb : b = []
    · subst hb; simp only [List.isEmpty_nil, if_true]; exact ⟨by simp, fun _ => by simp⟩
    · have hbe : b.isEmpty = false := by cases b <;> simp_all
      obtain ⟨k1, k2, _, _, k5⟩ := execStep_ok p b hb h.inv h.not_failed
      have k6 := (execStep_wf p b hb h).2
      simp only [hbe, Bool.false_eq_true, if_false, k1]
      by_cases he : (execStep p b).1.err.isSome = true
      · simp only [he, if_true]; exact ⟨k2.1, fun _ => k2.2⟩
      · simp only [he, Bool.false_eq_true, if_false]
        have he' : (execStep p b).1.err = none := by
          cases h : (execStep p b).1.err with
          | none => rfl
          | some e => rw [h] at he; simp at he
        split
        · simp only [he']; exact ⟨by simp, fun _ => by simp⟩
        · have := k5 he'
          exact ⟨(ih _ _ k6).1, fun hf => (ih _ _ k6).2 (by omega)⟩

theorem feed_safe_wf (fuel : Nat) (p : P) (b : Bytes) (h : WF p) :
    (feed fuel p b).2 ≠ some .panic ∧ (cost p b < fuel → (feed fuel p b).2 ≠ some .outOfFuel) := by
  induction fuel generalizing p b with
  | zero => simp only [feed]; exact ⟨by simp, fun h => absurd h (Nat.not_lt_zero _)⟩
  | succ fuel ih =>
    rw [feed_succ]
    by_cases hb : b = []
    · subst hb; simp only [List.isEmpty_nil, if_true]; exact ⟨by simp, fun _ => by simp⟩
    · have hbe : b.isEmpty = false := by cases b <;> simp_all
      simp only [hbe, Bool.false_eq_true, if_false]
      obtain ⟨k1, k2⟩ := feedUntil_safe_wf (fuelFor b) p b h
      have k3 := feedUntil_wf (fuelFor b) p b h
      obtain ⟨_, _, _, k4⟩ := feedUntil_spec (fuelFor b) p b h.inv
      cases he : (feedUntil (fuelFor b) p b).err with
      | some e =>
        simp only
        rw [he] at k1 k2
        exact ⟨k1, fun _ => k2 (cost_lt_fuelFor p b)⟩
      | none =>
        simp only
        have := (k4 he).2.2 hb
        exact ⟨(ih _ _ k3).1, fun hf => (ih _ _ k3).2 (by omega)⟩

/-- `Write` from a well-formed state: no fatal outcome, whatever the stored error is -/
theorem write_safe_wf (p : P) (b : Bytes) (h : WF p) : Safe (write p b).2 := by
  obtain ⟨k1, k2⟩ := feed_safe_wf (2 * b.length + 4) p b h
  unfold write feedAll
  exact ⟨k1, k2 (cost_lt_feedAll p b)⟩

theorem finalize_safe_wf (p : P) (h : WF p) : Safe (finalize p).2 := (finalize_spec p h.inv).1

theorem writeChunks_safe_wf (cs : List Bytes) (p : P) (h : WF p) : Safe (writeChunks p cs).2 := by
  induction cs generalizing p with
  | nil => exact finalize_safe_wf p h
  | cons c cs ih =>
    have k1 := write_safe_wf p c h
    have k2 := write_wf p c h
    simp only [writeChunks]
    cases hw : write p c with
    | mk q e =>
      rw [hw] at k1 k2
      cases e with
      | some e => exact k1
      | none => exact ih q k2

/-- `Parse` resets the parser: from ANY parser value, no fatal outcome -/
theorem parse_safe (p : P) (b : Bytes) : Safe (parse p b).2 := by
  have hwf : WF { p with states := [], literalBuffer := [], currentState := .startState } :=
    ⟨by constructor <;> simp [isLit], Or.inl ⟨rfl, rfl⟩⟩
  obtain ⟨k1, k2⟩ := feed_safe_wf (2 * b.length + 4) _ b hwf
  have k3 := feed_wf (2 * b.length + 4) _ b hwf
  unfold parse feedAll
  simp only
  cases hf : feed (2 * b.length + 4) { p with states := [], literalBuffer := [], currentState := .startState } b with
  | mk q e =>
    rw [hf] at k1 k2 k3
    cases e with
    | some e => exact ⟨k1, k2 (cost_lt_feedAll _ b)⟩
    | none => exact finalize_safe_wf q k3

end SF.Json.ParseP
