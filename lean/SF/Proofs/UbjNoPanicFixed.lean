/-
  C03 helper lemmas (UBJSON): where stepLen leaves the current state; stepFixedValue.
-/
import SF.Proofs.UbjNoPanicLen
namespace SF.Ubjson.Parse
open SF SF.Ubjson
open StateType StateStep

/-! ### where stepLen leaves the current state -/

theorem lenFin_cur (cont : St) (p : P) (b : Bytes) (L : Int) :
    (lenFin cont p b L).p.state.current = cont ∨ (lenFin cont p b L).p.state.current = p.state.current := by
  unfold lenFin; split
  · exact Or.inr rfl
  · exact Or.inl rfl

theorem lenColl_cur (cont : St) (p : P) (b : Bytes) (n : Nat) (rd : Bytes → Int) :
    let r := (match collectP p b n with
      | (p, rest, none) => ({ p := p, rest := rest } : R)
      | (p, rest, some tmp) => lenFin cont p rest (rd tmp))
    r.p.state.current = cont ∨ r.p.state.current = p.state.current := by
  rcases h : collectP p b n with ⟨q, rest, tmp⟩
  have hq : q = (collectP p b n).1 := by rw [h]
  have hqs : q.state = p.state := by rw [hq]; rfl
  cases tmp with
  | none => exact Or.inr (by simp [hqs])
  | some t => simp only []; rw [← hqs]; exact lenFin_cur cont q rest _

theorem lenValue_cur (cont : St) (p : P) (b : Bytes) :
    (lenValue cont p b).p.state.current = cont ∨ (lenValue cont p b).p.state.current = p.state.current := by
  unfold lenValue
  simp only []
  split
  · split
    · exact Or.inr rfl
    · exact lenFin_cur _ _ _ _
  split
  · split
    · exact Or.inr rfl
    · exact lenFin_cur _ _ _ _
  split
  · exact lenColl_cur _ _ _ _ _
  split
  · exact lenColl_cur _ _ _ _ _
  split
  · exact lenColl_cur _ _ _ _ _
  exact Or.inr rfl

theorem stepLen_cur (p : P) (b : Bytes) (cont : St) :
    (stepLen p b cont).p.state.current = cont ∨ (stepLen p b cont).p.state.current = p.state.current := by
  rw [stepLen_eq]
  split
  · split
    · exact Or.inr rfl
    · simp only []
      split
      · split
        · exact Or.inr rfl
        · exact lenValue_cur cont _ _
      · exact Or.inr rfl
  · exact lenValue_cur cont p b

/-! ### stepFixedValue -/

/-- the local `fin` of stepFixedValue -/
def fixFin (p : P) (b : Bytes) (done : Bool) (err : Option Err) : R :=
  if done && err.isNone then
    let (p, d) := popState p
    { p := p, rest := b, done := d }
  else { p := p, rest := b, done := done, err := err }

theorem fixFin_safe (p : P) (b : Bytes) (done : Bool) (err : Option Err) (hi : Inv p)
    (he : err ≠ some .panic) : Safe p.err (fixFin p b done err) := by
  unfold fixFin
  split
  · exact ⟨by simp, rfl, hi.popState⟩
  · exact ⟨he, rfl, hi⟩

theorem fixNow_safe (p : P) (b : Bytes) (e : Ev) (hi : Inv p) :
    Safe p.err (let (q, err) := visit p e; fixFin q b true err) := by
  simp only [visit_eq]
  exact fixFin_safe (addEv p e) b true _ (hi.addEv e) (verr_np p)

theorem fixColl_safe (p : P) (b : Bytes) (n : Nat) (mk : Bytes → Ev) (hi : Inv p) :
    Safe p.err (match collectP p b n with
      | (p, rest, none) => fixFin p rest false none
      | (p, rest, some tmp) => let (p, err) := visit p (mk tmp); fixFin p rest true err) := by
  have h1 := hi.collectP b n
  rcases h : collectP p b n with ⟨q, rest, tmp⟩
  have hq : q = (collectP p b n).1 := by rw [h]
  have hqe : q.err = p.err := by rw [hq]; rfl
  rw [← hq] at h1
  rw [← hqe]
  cases tmp with
  | none => exact fixFin_safe q rest false none h1 (by simp)
  | some t => exact fixNow_safe q rest _ h1

theorem stepFixedValue_eq (p : P) (b : Bytes) :
    stepFixedValue p b =
      match p.state.current.step with
      | .stNil => (let (q, err) := visit p .null; fixFin q b true err)
      | .stNoop => fixFin p b false none
      | .stTrue => (let (q, err) := visit p (.bool true); fixFin q b true err)
      | .stFalse => (let (q, err) := visit p (.bool false); fixFin q b true err)
      | .stInt8 =>
        match b with
        | [] => panicR p b
        | b0 :: bs => let (p, err) := visit p (.num .i8 (readInt8 b0)); fixFin p bs true err
      | .stUInt8 =>
        match b with
        | [] => panicR p b
        | b0 :: bs => let (p, err) := visit p (.num .u8 b0.toNat); fixFin p bs true err
      | .stChar => (match collectP p b 1 with
          | (p, rest, none) => fixFin p rest false none
          | (p, rest, some tmp) => let (p, err) := visit p ((fun t => Ev.num .byte (beNat t)) tmp); fixFin p rest true err)
      | .stInt16 => (match collectP p b 2 with
          | (p, rest, none) => fixFin p rest false none
          | (p, rest, some tmp) => let (p, err) := visit p ((fun t => Ev.num .i16 (readInt16 t)) tmp); fixFin p rest true err)
      | .stInt32 => (match collectP p b 4 with
          | (p, rest, none) => fixFin p rest false none
          | (p, rest, some tmp) => let (p, err) := visit p ((fun t => Ev.num .i32 (readInt32 t)) tmp); fixFin p rest true err)
      | .stInt64 => (match collectP p b 8 with
          | (p, rest, none) => fixFin p rest false none
          | (p, rest, some tmp) => let (p, err) := visit p ((fun t => Ev.num .i64 (readInt64 t)) tmp); fixFin p rest true err)
      | .stFloat32 => (match collectP p b 4 with
          | (p, rest, none) => fixFin p rest false none
          | (p, rest, some tmp) => let (p, err) := visit p ((fun t => Ev.f32 (readFloat32 t)) tmp); fixFin p rest true err)
      | .stFloat64 => (match collectP p b 8 with
          | (p, rest, none) => fixFin p rest false none
          | (p, rest, some tmp) => let (p, err) := visit p ((fun t => Ev.f64 (readFloat64 t)) tmp); fixFin p rest true err)
      | _ => { p := p, rest := b } := rfl

theorem stepFixedValue_safe (p : P) (b : Bytes) (hi : Inv p)
    (hg : b ≠ [] ∨ pending p = true) (ht : p.state.current.type = stFixed) :
    Safe p.err (stepFixedValue p b) := by
  rw [stepFixedValue_eq]
  split
  · exact fixNow_safe _ _ _ hi
  · exact fixFin_safe _ _ _ _ hi (by simp)
  · exact fixNow_safe _ _ _ hi
  · exact fixNow_safe _ _ _ hi
  · rename_i hs
    cases b with
    | nil => simp [pending, ht, hs] at hg
    | cons b0 bs => exact fixNow_safe _ _ _ hi
  · rename_i hs
    cases b with
    | nil => simp [pending, ht, hs] at hg
    | cons b0 bs => exact fixNow_safe _ _ _ hi
  · exact fixColl_safe _ _ _ _ hi
  · exact fixColl_safe _ _ _ _ hi
  · exact fixColl_safe _ _ _ _ hi
  · exact fixColl_safe _ _ _ _ hi
  · exact fixColl_safe _ _ _ _ hi
  · exact fixColl_safe _ _ _ _ hi
  · exact ⟨by simp, rfl, hi⟩

end SF.Ubjson.Parse
