/-
  C16 (error propagation) for the three PULL DECODER mirrors — final statements.

  "An error returned by the visitor at event k is returned to the caller, and no further event
  is delivered" — for `Decoder.Next` of cborl, ubjson and json (SF/{Cbor,Ubjson,Json}/Dec.lean),
  created over a visitor that fails at its k-th event, the events being counted over the WHOLE
  stream, i.e. across calls of `Next` (the configuration of `decFaultModel` in SF/Ops/*.lean:
  `{ d0 with p := Parse.init (some k) }`; the parser state `d.p` embedded in the decoder carries
  the fault index `failAt` and the log `evs` of all events delivered so far).

  For EVERY read script (chunks of any sizes, empty chunks = `(0, nil)` reads anywhere), BOTH
  values of `lastEOF`, EVERY buffer size (also 0), EVERY byte content (valid or not), EVERY
  fault index k, EVERY number n of calls and EVERY fuel function f (sufficient or not) — the
  trace `nextsF f n d` of the calls up to and including the first that does not return `.ok`
  (per call: the result and the events accumulated so far, oldest first) satisfies

     either  no call returned the visitor's error and at most k events were delivered in total,
     or      the trace is `pre ++ [(.err .visitor, evs)]`: the LAST call returned THE VISITOR'S
             error with exactly k+1 events delivered in total (the failing event is the last one),
             and every earlier call returned `.ok` with at most k events

  (`*_returns_visitor_error`).  Hence (`*_visitor_error_iff`) entry by entry: a call returns the
  visitor's error IFF k+1 events have been delivered, and never more than k+1 are: the error is
  not swallowed (no `.ok`, `.eof` or other error with more than k events), not replaced, and
  nothing is delivered after the visitor failed.  Also: the statement from EVERY decoder state
  in which the visitor has not failed yet (`*_from`, `*next_returns_visitor_error` for one call),
  and a visitor without fault index never produces the visitor's error (`*_no_visitor_error`).

  NO side condition for any format.  In particular the UBJSON mirror's per-buffer fuel needs no
  "no outOfFuel" proviso here: an `.err .outOfFuel` result is not the visitor's error and the
  dichotomy says it comes with at most k events (the parser-level lemma
  `SF.Ubjson.Fault.feedUntil_good` holds for every fuel).  JSON: the decoder's parser state must
  be a reachable one (`ParseP.WF`, the invariant of the C18 development; it holds initially and
  after every successful call).

  Helper lemmas: SF/Proofs/{Cbor,Json,Ubj}DecFault.lean (one call: `next_good` by induction on
  the loop fuel — refill / feedUntil / finalize-at-EOF — on top of the parser-level fault lemmas
  `execStep_good` (CborFault), `feedUntil_fault`/`finalize_fault` (JsonRefineFault),
  `feedUntil_good`/`finalize_good` (UbjChunkFault); UBJSON through `nextG`).
-/
import SF.Proofs.CborDecFault
import SF.Proofs.JsonDecFault
import SF.Proofs.UbjDecFault

/-! ## CBOR (cborl) -/

namespace SF.Props.DecFault.Cbor
open SF SF.Cbor SF.Cbor.Parse SF.Cbor.Dec SF.Cbor.DecR

/-- ONE CALL of `Next` from EVERY decoder state in which the visitor has not failed yet
(`NoFault`: at most k events delivered so far), every fuel: either still no fault and the result
is not the visitor's error, or the result IS the visitor's error and the failing event is the
last one delivered (`Stopped`: exactly k+1 events); the fault index is untouched -/
theorem next_returns_visitor_error (fuel : Nat) (d : Dec) (h : NoFault d.p) (herr : d.p.err ≠ some .visitor) :
    (((next fuel d).2 ≠ .err .visitor ∧ NoFault (next fuel d).1.p) ∨
     ((next fuel d).2 = .err .visitor ∧ Stopped (next fuel d).1.p)) ∧
    (next fuel d).1.p.failAt = d.p.failAt ∧ (next fuel d).1.p.err = d.p.err :=
  have hn := SF.Cbor.DecFault.next_good fuel d h herr
  ⟨hn.good, hn.failAt, hn.err⟩

/-- sequences of calls from EVERY decoder state in which the visitor has not failed yet -/
theorem nexts_returns_visitor_error_from (f : Dec → Nat) (k n : Nat) (d : Dec) (h : NoFault d.p)
    (herr : d.p.err ≠ some .visitor) (hk : d.p.failAt = some k) :
    (∀ x ∈ nextsF f n d, x.1 ≠ .err .visitor ∧ x.2.length ≤ k) ∨
    (∃ pre evs, nextsF f n d = pre ++ [(NextRes.err .visitor, evs)] ∧ evs.length = k + 1 ∧
      ∀ x ∈ pre, x.1 = .ok ∧ x.2.length ≤ k) :=
  SF.Cbor.DecFault.nextsF_good f k n d h herr hk

/-- C16 for the CBOR READER-DRIVEN decoder: EVERY read script `cs` (empty reads anywhere; data
arriving with the end of the script), EVERY byte content, EVERY fault index k, EVERY number of
calls and EVERY fuel function -/
theorem reader_decoder_returns_visitor_error (f : Dec → Nat) (k : Nat) (cs : List Bytes) (n : Nat) :
    (∀ x ∈ nextsF f n { reads := cs, p := { failAt := some k } }, x.1 ≠ .err .visitor ∧ x.2.length ≤ k) ∨
    (∃ pre evs, nextsF f n { reads := cs, p := { failAt := some k } } = pre ++ [(NextRes.err .visitor, evs)] ∧
      evs.length = k + 1 ∧ ∀ x ∈ pre, x.1 = .ok ∧ x.2.length ≤ k) :=
  SF.Cbor.DecFault.nextsF_good f k n _ (fun k' _ => by simp) (by simp) rfl

/-- C16 for the CBOR BYTE-SLICE decoder (`NewBytesDecoder`) -/
theorem bytes_decoder_returns_visitor_error (f : Dec → Nat) (k : Nat) (b : Bytes) (n : Nat) :
    (∀ x ∈ nextsF f n { hasReader := false, buffer := b, p := { failAt := some k } },
      x.1 ≠ .err .visitor ∧ x.2.length ≤ k) ∨
    (∃ pre evs, nextsF f n { hasReader := false, buffer := b, p := { failAt := some k } } =
        pre ++ [(NextRes.err .visitor, evs)] ∧
      evs.length = k + 1 ∧ ∀ x ∈ pre, x.1 = .ok ∧ x.2.length ≤ k) :=
  SF.Cbor.DecFault.nextsF_good f k n _ (fun k' _ => by simp) (by simp) rfl

/-- … entry by entry: a call returns the visitor's error IFF k+1 events have been delivered in
total, and never more than k+1 are (not swallowed, not replaced, nothing after it) -/
theorem reader_decoder_visitor_error_iff (f : Dec → Nat) (k : Nat) (cs : List Bytes) (n : Nat) :
    ∀ x ∈ nextsF f n { reads := cs, p := { failAt := some k } },
      (x.1 = .err .visitor ↔ x.2.length = k + 1) ∧ x.2.length ≤ k + 1 :=
  (SF.Cbor.DecFault.nextsF_good f k n _ (fun k' _ => by simp) (by simp) rfl).entry

theorem bytes_decoder_visitor_error_iff (f : Dec → Nat) (k : Nat) (b : Bytes) (n : Nat) :
    ∀ x ∈ nextsF f n { hasReader := false, buffer := b, p := { failAt := some k } },
      (x.1 = .err .visitor ↔ x.2.length = k + 1) ∧ x.2.length ≤ k + 1 :=
  (SF.Cbor.DecFault.nextsF_good f k n _ (fun k' _ => by simp) (by simp) rfl).entry

/-- in every trace all calls but the last returned `.ok` (so at most one call returns an error,
and it is the last) -/
theorem calls_before_last_ok (f : Dec → Nat) (n : Nat) (d : Dec) (pre : List (NextRes × List Ev))
    (x : NextRes × List Ev) (h : nextsF f n d = pre ++ [x]) : ∀ y ∈ pre, y.1 = .ok :=
  SF.Cbor.DecFault.nextsF_init_ok f n d pre x h

/-- a visitor that never fails: no call returns the visitor's error -/
theorem reader_decoder_no_visitor_error (f : Dec → Nat) (cs : List Bytes) (n : Nat) :
    ∀ x ∈ nextsF f n { reads := cs }, x.1 ≠ .err .visitor :=
  SF.Cbor.DecFault.nextsF_no_visitor f n _ rfl (by simp)

theorem bytes_decoder_no_visitor_error (f : Dec → Nat) (b : Bytes) (n : Nat) :
    ∀ x ∈ nextsF f n { hasReader := false, buffer := b }, x.1 ≠ .err .visitor :=
  SF.Cbor.DecFault.nextsF_no_visitor f n _ rfl (by simp)

/-- non-vacuity: `[1, 2]` `[3, 4]` in four small reads (one of them empty, the first document
ending inside a read), the visitor failing at its 6th event (index 5, the `3` of the second
document): one successful call, then the visitor's error after exactly 6 events — the same from
a byte slice; a fault index beyond the stream (8 events) is never reached -/
example :
    nexts 3 { reads := [[0x82, 0x01], [0x02, 0x82], [], [0x03, 0x04]], p := { failAt := some 5 } } =
      [(.ok, [.arrStart 2 BT.any, .num .u8 1, .num .u8 2, .arrEnd]),
       (.err .visitor, [.arrStart 2 BT.any, .num .u8 1, .num .u8 2, .arrEnd, .arrStart 2 BT.any, .num .u8 3])] ∧
    nexts 3 { hasReader := false, buffer := [0x82, 0x01, 0x02, 0x82, 0x03, 0x04], p := { failAt := some 5 } } =
      nexts 3 { reads := [[0x82, 0x01], [0x02, 0x82], [], [0x03, 0x04]], p := { failAt := some 5 } } ∧
    (nexts 3 { reads := [[0x82, 0x01], [0x02, 0x82], [], [0x03, 0x04]], p := { failAt := some 8 } }).map (·.1) =
      [.ok, .ok, .eof] := by
  decide +kernel

end SF.Props.DecFault.Cbor

/-! ## JSON -/

namespace SF.Props.DecFault.Json
open SF SF.Json SF.Json.Parse SF.Json.ParseP SF.Json.Dec SF.Json.DecP

/-- ONE CALL of `Next` from EVERY decoder state (any reader, buffer, buffer size, parked EOF)
whose parser is in a reachable state (`ParseP.WF`) in which the visitor has not failed yet, every
fuel: the dichotomy; the fault index is untouched, and after `.ok` the parser state is again
reachable -/
theorem next_returns_visitor_error (fuel : Nat) (d : Dec) (h : NoFault d.p) (hw : ParseP.WF d.p) :
    (((next fuel d).2 ≠ .err .visitor ∧ NoFault (next fuel d).1.p) ∨
     ((next fuel d).2 = .err .visitor ∧ Stopped (next fuel d).1.p)) ∧
    (next fuel d).1.p.failAt = d.p.failAt ∧ ((next fuel d).2 = .ok → ParseP.WF (next fuel d).1.p) :=
  have hn := SF.Json.DecFault.next_good fuel d h hw
  ⟨hn.good, hn.failAt, hn.wf⟩

/-- sequences of calls from EVERY such decoder state -/
theorem nexts_returns_visitor_error_from (f : Dec → Nat) (k n : Nat) (d : Dec) (h : NoFault d.p)
    (hw : ParseP.WF d.p) (hk : d.p.failAt = some k) :
    (∀ x ∈ nextsF f n d, x.1 ≠ .err .visitor ∧ x.2.length ≤ k) ∨
    (∃ pre evs, nextsF f n d = pre ++ [(NextRes.err .visitor, evs)] ∧ evs.length = k + 1 ∧
      ∀ x ∈ pre, x.1 = .ok ∧ x.2.length ≤ k) :=
  SF.Json.DecFault.nextsF_good f k n d h hw hk

/-- C16 for the JSON READER-DRIVEN decoder: EVERY read script (chunks of any sizes, `(0, nil)` reads
anywhere), BOTH ways the end is signalled (`lastEOF`), EVERY buffer size, EVERY byte content,
EVERY fault index k, EVERY number of calls and EVERY fuel function -/
theorem reader_decoder_returns_visitor_error (f : Dec → Nat) (k : Nat) (cs : List Bytes) (e : Bool) (bs : Int)
    (n : Nat) :
    (∀ x ∈ nextsF f n { newDecoder { chunks := cs, lastEOF := e } bs with p := Parse.init (some k) },
      x.1 ≠ .err .visitor ∧ x.2.length ≤ k) ∨
    (∃ pre evs, nextsF f n { newDecoder { chunks := cs, lastEOF := e } bs with p := Parse.init (some k) } =
        pre ++ [(NextRes.err .visitor, evs)] ∧
      evs.length = k + 1 ∧ ∀ x ∈ pre, x.1 = .ok ∧ x.2.length ≤ k) :=
  SF.Json.DecFault.nextsF_good f k n _ ⟨rfl, fun k' _ => by simp [Parse.init]⟩ (wf_init _) rfl

/-- C16 for the JSON BYTE-SLICE decoder (`NewBytesDecoder`) -/
theorem bytes_decoder_returns_visitor_error (f : Dec → Nat) (k : Nat) (b : Bytes) (n : Nat) :
    (∀ x ∈ nextsF f n { newBytesDecoder b with p := Parse.init (some k) },
      x.1 ≠ .err .visitor ∧ x.2.length ≤ k) ∨
    (∃ pre evs, nextsF f n { newBytesDecoder b with p := Parse.init (some k) } =
        pre ++ [(NextRes.err .visitor, evs)] ∧
      evs.length = k + 1 ∧ ∀ x ∈ pre, x.1 = .ok ∧ x.2.length ≤ k) :=
  SF.Json.DecFault.nextsF_good f k n _ ⟨rfl, fun k' _ => by simp [Parse.init]⟩ (wf_init _) rfl

/-- … entry by entry: a call returns the visitor's error IFF k+1 events have been delivered in
total, and never more than k+1 are (not swallowed, not replaced, nothing after it) -/
theorem reader_decoder_visitor_error_iff (f : Dec → Nat) (k : Nat) (cs : List Bytes) (e : Bool) (bs : Int)
    (n : Nat) :
    ∀ x ∈ nextsF f n { newDecoder { chunks := cs, lastEOF := e } bs with p := Parse.init (some k) },
      (x.1 = .err .visitor ↔ x.2.length = k + 1) ∧ x.2.length ≤ k + 1 :=
  (SF.Json.DecFault.nextsF_good f k n _ ⟨rfl, fun k' _ => by simp [Parse.init]⟩ (wf_init _) rfl).entry

theorem bytes_decoder_visitor_error_iff (f : Dec → Nat) (k : Nat) (b : Bytes) (n : Nat) :
    ∀ x ∈ nextsF f n { newBytesDecoder b with p := Parse.init (some k) },
      (x.1 = .err .visitor ↔ x.2.length = k + 1) ∧ x.2.length ≤ k + 1 :=
  (SF.Json.DecFault.nextsF_good f k n _ ⟨rfl, fun k' _ => by simp [Parse.init]⟩ (wf_init _) rfl).entry

/-- in every trace all calls but the last returned `.ok` -/
theorem calls_before_last_ok (f : Dec → Nat) (n : Nat) (d : Dec) (pre : List (NextRes × List Ev))
    (x : NextRes × List Ev) (h : nextsF f n d = pre ++ [x]) : ∀ y ∈ pre, y.1 = .ok :=
  SF.Json.DecFault.nextsF_init_ok f n d pre x h

/-- a visitor that never fails: no call returns the visitor's error -/
theorem reader_decoder_no_visitor_error (f : Dec → Nat) (cs : List Bytes) (e : Bool) (bs : Int) (n : Nat) :
    ∀ x ∈ nextsF f n (newDecoder { chunks := cs, lastEOF := e } bs), x.1 ≠ .err .visitor :=
  SF.Json.DecFault.nextsF_no_visitor f n _ rfl rfl (wf_init _)

theorem bytes_decoder_no_visitor_error (f : Dec → Nat) (b : Bytes) (n : Nat) :
    ∀ x ∈ nextsF f n (newBytesDecoder b), x.1 ≠ .err .visitor :=
  SF.Json.DecFault.nextsF_no_visitor f n _ rfl rfl (wf_init _)

/-- non-vacuity: ` [1] [2,3]` in chunks (an empty one among them) through a 3-byte buffer, the
last data arriving with `io.EOF`, the visitor failing at its 5th event (index 4, the `2` of the
second document): one successful call, then the visitor's error after exactly 5 events — the
same from a byte slice; a fault index beyond the stream (7 events) is never reached; and
`[1] 23` with the fault at the number that only `finalize` reports at the end of the input -/
example :
    nexts 3 { newDecoder { chunks := [[0x20, 0x5b, 0x31, 0x5d], [], [0x20, 0x5b, 0x32, 0x2c, 0x33, 0x5d]],
                           lastEOF := true } 3 with p := Parse.init (some 4) } =
      [(.ok, [.arrStart (-1) BT.any, .num .i64 1, .arrEnd]),
       (.err .visitor, [.arrStart (-1) BT.any, .num .i64 1, .arrEnd, .arrStart (-1) BT.any, .num .i64 2])] ∧
    nexts 3 { newBytesDecoder [0x20, 0x5b, 0x31, 0x5d, 0x20, 0x5b, 0x32, 0x2c, 0x33, 0x5d]
                with p := Parse.init (some 4) } =
      [(.ok, [.arrStart (-1) BT.any, .num .i64 1, .arrEnd]),
       (.err .visitor, [.arrStart (-1) BT.any, .num .i64 1, .arrEnd, .arrStart (-1) BT.any, .num .i64 2])] ∧
    (nexts 3 { newDecoder { chunks := [[0x20, 0x5b, 0x31, 0x5d], [], [0x20, 0x5b, 0x32, 0x2c, 0x33, 0x5d]],
                            lastEOF := true } 3 with p := Parse.init (some 7) }).map (·.1) = [.ok, .ok, .eof] ∧
    nexts 3 { newDecoder { chunks := [[0x5b, 0x31, 0x5d, 0x20, 0x32], [0x33]], lastEOF := false } 2
                with p := Parse.init (some 3) } =
      [(.ok, [.arrStart (-1) BT.any, .num .i64 1, .arrEnd]),
       (.err .visitor, [.arrStart (-1) BT.any, .num .i64 1, .arrEnd, .num .i64 23])] := by
  decide +kernel

end SF.Props.DecFault.Json

/-! ## UBJSON -/

namespace SF.Props.DecFault.Ubj
open SF SF.Ubjson SF.Ubjson.Parse SF.Ubjson.Dec SF.Ubjson.DecR

/-- the visitor has not failed yet: at most k events delivered (fault index k) -/
def NoFault (p : P) : Prop := ∀ k, p.failAt = some k → p.evs.length ≤ k

/-- the visitor has just failed: exactly k+1 events delivered -/
def Stopped (p : P) : Prop := ∃ k, p.failAt = some k ∧ p.evs.length = k + 1

/-- ONE CALL of `Next` from EVERY decoder state (any reader, buffer, buffer size) in which the
visitor has not failed yet, every fuel: the dichotomy; the fault index is untouched and the
parser's stored error stays clear of the visitor's -/
theorem next_returns_visitor_error (fuel : Nat) (d : Dec) (h : NoFault d.p) (herr : d.p.err ≠ some .visitor) :
    (((next fuel d).2 ≠ .err .visitor ∧ NoFault (next fuel d).1.p ∧ (next fuel d).1.p.err ≠ some .visitor) ∨
     ((next fuel d).2 = .err .visitor ∧ Stopped (next fuel d).1.p)) ∧
    (next fuel d).1.p.failAt = d.p.failAt := by
  have hn := SF.Ubjson.DecFault.next_good (fa := d.p.failAt) fuel d ⟨rfl, h, herr⟩
  rcases hn with ⟨h1, h2⟩ | ⟨h1, h2, k, h3, h4⟩
  · exact ⟨Or.inl ⟨h1, fun k hk => h2.2.1 k (h2.1.symm.trans hk), h2.2.2⟩, h2.1⟩
  · exact ⟨Or.inr ⟨h1, k, h2.trans h3, h4⟩, h2⟩

/-- sequences of calls from EVERY such decoder state -/
theorem nexts_returns_visitor_error_from (f : Dec → Nat) (k n : Nat) (d : Dec) (h : NoFault d.p)
    (herr : d.p.err ≠ some .visitor) (hk : d.p.failAt = some k) :
    (∀ x ∈ nextsF f n d, x.1 ≠ .err .visitor ∧ x.2.length ≤ k) ∨
    (∃ pre evs, nextsF f n d = pre ++ [(NextRes.err .visitor, evs)] ∧ evs.length = k + 1 ∧
      ∀ x ∈ pre, x.1 = .ok ∧ x.2.length ≤ k) :=
  SF.Ubjson.DecFault.nextsF_good f k n d ⟨hk, fun k' hk' => h k' (hk.trans hk'), herr⟩

/-- C16 for the UBJSON READER-DRIVEN decoder: EVERY script of chunks (empty chunks = `(0, nil)`
reads anywhere), BOTH values of `lastEOF`, EVERY buffer size, EVERY byte content, EVERY fault
index k, EVERY number of calls and EVERY fuel function.  No "no outOfFuel" proviso: a call that
runs out of the mirror's fuel has delivered at most k events or returns the visitor's error -/
theorem reader_decoder_returns_visitor_error (f : Dec → Nat) (k : Nat) (cs : List Bytes) (lastEOF : Bool)
    (bufsize : Nat) (n : Nat) :
    (∀ x ∈ nextsF f n { newDecoder cs lastEOF bufsize with p := Parse.init (some k) },
      x.1 ≠ .err .visitor ∧ x.2.length ≤ k) ∨
    (∃ pre evs, nextsF f n { newDecoder cs lastEOF bufsize with p := Parse.init (some k) } =
        pre ++ [(NextRes.err .visitor, evs)] ∧
      evs.length = k + 1 ∧ ∀ x ∈ pre, x.1 = .ok ∧ x.2.length ≤ k) :=
  SF.Ubjson.DecFault.nextsF_good f k n _ (SF.Ubjson.Fault.nf_init (some k))

/-- C16 for the UBJSON BYTE-SLICE decoder (`NewBytesDecoder`) -/
theorem bytes_decoder_returns_visitor_error (f : Dec → Nat) (k : Nat) (b : Bytes) (n : Nat) :
    (∀ x ∈ nextsF f n { newBytesDecoder b with p := Parse.init (some k) },
      x.1 ≠ .err .visitor ∧ x.2.length ≤ k) ∨
    (∃ pre evs, nextsF f n { newBytesDecoder b with p := Parse.init (some k) } =
        pre ++ [(NextRes.err .visitor, evs)] ∧
      evs.length = k + 1 ∧ ∀ x ∈ pre, x.1 = .ok ∧ x.2.length ≤ k) :=
  SF.Ubjson.DecFault.nextsF_good f k n _ (SF.Ubjson.Fault.nf_init (some k))

/-- … entry by entry: a call returns the visitor's error IFF k+1 events have been delivered in
total, and never more than k+1 are (not swallowed, not replaced, nothing after it) -/
theorem reader_decoder_visitor_error_iff (f : Dec → Nat) (k : Nat) (cs : List Bytes) (lastEOF : Bool)
    (bufsize : Nat) (n : Nat) :
    ∀ x ∈ nextsF f n { newDecoder cs lastEOF bufsize with p := Parse.init (some k) },
      (x.1 = .err .visitor ↔ x.2.length = k + 1) ∧ x.2.length ≤ k + 1 :=
  (SF.Ubjson.DecFault.nextsF_good f k n _ (SF.Ubjson.Fault.nf_init (some k))).entry

theorem bytes_decoder_visitor_error_iff (f : Dec → Nat) (k : Nat) (b : Bytes) (n : Nat) :
    ∀ x ∈ nextsF f n { newBytesDecoder b with p := Parse.init (some k) },
      (x.1 = .err .visitor ↔ x.2.length = k + 1) ∧ x.2.length ≤ k + 1 :=
  (SF.Ubjson.DecFault.nextsF_good f k n _ (SF.Ubjson.Fault.nf_init (some k))).entry

/-- in every trace all calls but the last returned `.ok` -/
theorem calls_before_last_ok (f : Dec → Nat) (n : Nat) (d : Dec) (pre : List (NextRes × List Ev))
    (x : NextRes × List Ev) (h : nextsF f n d = pre ++ [x]) : ∀ y ∈ pre, y.1 = .ok :=
  SF.Ubjson.DecFault.nextsF_init_ok f n d pre x h

/-- a visitor that never fails: no call returns the visitor's error -/
theorem reader_decoder_no_visitor_error (f : Dec → Nat) (cs : List Bytes) (lastEOF : Bool) (bufsize : Nat)
    (n : Nat) : ∀ x ∈ nextsF f n (newDecoder cs lastEOF bufsize), x.1 ≠ .err .visitor :=
  SF.Ubjson.DecFault.nextsF_no_visitor f n _ (SF.Ubjson.Fault.nf_init none)

theorem bytes_decoder_no_visitor_error (f : Dec → Nat) (b : Bytes) (n : Nat) :
    ∀ x ∈ nextsF f n (newBytesDecoder b), x.1 ≠ .err .visitor :=
  SF.Ubjson.DecFault.nextsF_no_visitor f n _ (SF.Ubjson.Fault.nf_init none)

/-- non-vacuity: `[#i 2 Z T` `[#i 2 i5 i6` in chunks (an empty one among them, the first document
ending inside a chunk) through a 3-byte buffer, the last piece arriving with `io.EOF`, the
visitor failing at its 6th event (index 5, the `5` of the second document): one successful call,
then the visitor's error after exactly 6 events — the same from a byte slice; a fault index
beyond the stream (8 events) is never reached -/
example :
    nexts 3 { newDecoder [[0x5b, 0x23, 0x69, 0x02, 0x5a], [], [0x54, 0x5b, 0x23, 0x69, 0x02, 0x69, 0x05, 0x69, 0x06]]
                true 3 with p := Parse.init (some 5) } =
      [(.ok, [.arrStart 2 BT.any, .null, .bool true, .arrEnd]),
       (.err .visitor, [.arrStart 2 BT.any, .null, .bool true, .arrEnd, .arrStart 2 BT.any, .num .i8 5])] ∧
    nexts 3 { newBytesDecoder [0x5b, 0x23, 0x69, 0x02, 0x5a, 0x54, 0x5b, 0x23, 0x69, 0x02, 0x69, 0x05, 0x69, 0x06]
                with p := Parse.init (some 5) } =
      [(.ok, [.arrStart 2 BT.any, .null, .bool true, .arrEnd]),
       (.err .visitor, [.arrStart 2 BT.any, .null, .bool true, .arrEnd, .arrStart 2 BT.any, .num .i8 5])] ∧
    (nexts 3 { newDecoder [[0x5b, 0x23, 0x69, 0x02, 0x5a], [], [0x54, 0x5b, 0x23, 0x69, 0x02, 0x69, 0x05, 0x69, 0x06]]
                true 3 with p := Parse.init (some 8) }).map (·.1) = [.ok, .ok, .eof] := by
  decide +kernel

end SF.Props.DecFault.Ubj
