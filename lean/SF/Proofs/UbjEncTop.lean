/-
  The UBJSON encoder mirror (SF/Ubjson/Enc.lean): the property theorems.

   (A) C16  `ubj_encoder_reports_write_errors`, `ubj_encoder_failing_event`
   (B) C17  `ubj_encoder_doc`, `ubj_encoder_state_independent`, `ubj_encoder_reuse`
   (C) C07/C01  `ubj_output_valid` (+ the specification's own round trip `ubj_spec_roundtrip`)
   (D) C10  `ubj_ext_step`, `ubj_ext_same_value`, `ubj_ext_value_cases`
   (B'), (C') the same for documents mixing basic and extended events (`XTree`):
            `ubj_encoder_doc_ext`, `ubj_encoder_reuse_ext`, `ubj_output_valid_ext`

  Side conditions: `small` (numbers in the range of their Go kind, lengths below 2^63 — the
  predicate of the CBOR instance, SF/Proofs/CborEnc.lean) for (C) and (D); none for (A), (B).
-/
import SF.Proofs.UbjEncXTree
namespace SF.Props.UbjEnc
open SF SF.Ubjson SF.Ubjson.Enc SF.Ubjson.Wire
open SF.Cbor.Enc (small)

/-! ## (A) C16 — write errors are reported, promptly, by the event that hit them -/

/-- C16 for the UBJSON encoder: for EVERY stream of (basic and extended) events, EVERY state whose
writer has not failed yet and EVERY fault index (`failFrom`) — the whole call sequence reports no
error ⇔ no Write call failed; and at most ONE Write ever fails: nothing is attempted after it
(`Stopped`: `calls ≤ k + 1`). -/
theorem ubj_encoder_reports_write_errors (xs : List XEv) (s : Enc) (h : Clean s.w) :
    ((run s xs).2 = none ↔ Clean (run s xs).1.w) ∧ Stopped (run s xs).1.w ∧
      (run s xs).1.w.failFrom = s.w.failFrom :=
  run_go_clean xs s 0 h

/-- … and the anatomy of a failing run `run s xs = (s', some i)`: the events before index `i` all
succeeded without a failed Write, event `i` is the one whose own Write failed and THE ONE THAT
RETURNED the error, and the final state is the state that event left (no later event ran). -/
theorem ubj_encoder_failing_event (xs : List XEv) (s s' : Enc) (i : Nat) (h : Clean s.w)
    (hr : run s xs = (s', some i)) :
    ∃ (pre post : List XEv) (x : XEv) (s1 : Enc),
      xs = pre ++ x :: post ∧ i = pre.length ∧
      run s pre = (s1, none) ∧ Clean s1.w ∧
      step s1 x = (s', false) ∧ ¬ Clean s'.w := by
  obtain ⟨pre, post, x, s1, h1, h2, h3, h4, h5, h6⟩ := run_go_failing xs s s' 0 i h hr
  exact ⟨pre, post, x, s1, h1, by omega, h3, h4, h5, h6⟩

/-- one event: it returns an error ⇔ one of its own Writes failed -/
theorem ubj_event_reports_write_error (x : XEv) (s : Enc) (h : Clean s.w) :
    ((step s x).2 = true ↔ Clean (step s x).1.w) ∧ Stopped (step s x).1.w :=
  ⟨(step_clean x s h).1, (step_clean x s h).2.1⟩

/-- a new encoder over a writer failing from call k on has not failed yet -/
theorem ubj_clean_init (k : Option Nat) : Clean (newVisitor k).w := clean_init k

/-- non-vacuity: the 3rd Write (index 2) fails: `[1, "ab"]` (unknown length) needs 7 Writes; the
error comes from event index 2 (the string, whose marker write fails), exactly 3 Writes were
attempted and 2 chunks written -/
example :
    let r := run (newVisitor (some 2)) [.ev (.arrStart (-1) 0), .ev (.num .u8 1), .ev (.str [0x61, 0x62]), .ev .arrEnd]
    r.2 = some 2 ∧ r.1.w.calls = 3 ∧ r.1.w.out = [0x5b, 0x55, 0x01] := by decide +kernel

/-- … and an extended event (typed array: header 4-byte Write, count 2 Writes, 2 elements) -/
example : (run (newVisitor (some 4)) [.ev .null, .numArr .i16 [-200, 5]]).2 = some 1 := by decide +kernel

/-! ## (B) C17 — a reused encoder behaves like a new one -/

/-- encoder, ONE document from ANY state of a non-failing encoder: the run succeeds, the writes
issued (`chunks t`) do not depend on the state, and the state afterwards is the state before,
only the output grew — in particular the LENGTH STACK IS EXACTLY WHAT IT WAS (depth and
`current`).  Holds for every event tree, contract-conforming (`ETree.wf`) or not. -/
theorem ubj_encoder_doc (t : ETree) (s : Enc) (hf : s.w.failFrom = none) :
    run s (t.events.map XEv.ev) = (s.emits (chunks t), none) := by
  have := enc_tree t s hf 0 []
  simpa [run, run.go] using this

theorem ubj_encoder_doc_stack (t : ETree) (s : Enc) (hf : s.w.failFrom = none) :
    (run s (t.events.map XEv.ev)).1.length = s.length ∧
      (run s (t.events.map XEv.ev)).1.w.out = s.w.out ++ (chunks t).flatten := by
  rw [ubj_encoder_doc t s hf]
  exact ⟨rfl, emits_out s _⟩

/-- the writes and the final length stack of a run, as a function of the initial LENGTH STACK and
the events only -/
def runW (ls : LenStack) : List XEv → List Bytes × LenStack
  | [] => ([], ls)
  | x :: xs => (writesOf (acts ls x) ++ (runW (lenAfter ls (acts ls x)) xs).1,
      (runW (lenAfter ls (acts ls x)) xs).2)

theorem run_go_ok (xs : List XEv) (s : Enc) (hf : s.w.failFrom = none) (i : Nat) :
    run.go s i xs = ({ w := (s.emits (runW s.length xs).1).w, length := (runW s.length xs).2 }, none) := by
  induction xs generalizing s i with
  | nil => simp [run.go, runW]
  | cons x xs ih =>
    rw [run_go_cons, step, exec_ok _ _ hf]
    simp only [runW]
    rw [ih _ (by simpa using hf)]
    simp [Enc.emits, List.append_assoc, Nat.add_assoc]

/-- THE ONLY STATE an encoder carries from one event to the next is its length stack: two
non-failing encoders with the same length stack — whatever they have written before — succeed
on the same streams (ANY stream: well-formed or not, extended events included), write the same
bytes and end with the same length stack. -/
theorem ubj_encoder_state_independent (xs : List XEv) (s1 s2 : Enc) (h1 : s1.w.failFrom = none)
    (h2 : s2.w.failFrom = none) (hl : s1.length = s2.length) :
    ∃ b : Bytes, (run s1 xs).2 = none ∧ (run s2 xs).2 = none ∧
      (run s1 xs).1.length = (run s2 xs).1.length ∧
      (run s1 xs).1.w.out = s1.w.out ++ b ∧ (run s2 xs).1.w.out = s2.w.out ++ b := by
  refine ⟨(runW s1.length xs).1.flatten, ?_⟩
  simp only [run]
  rw [run_go_ok xs s1 h1 0, run_go_ok xs s2 h2 0, ← hl]
  exact ⟨rfl, rfl, rfl, emits_out s1 _, emits_out s2 _⟩

theorem exec_length (a : List Act) (s : Enc) (h : (exec s a).2 = true) :
    (exec s a).1.length = lenAfter s.length a := by
  induction a generalizing s with
  | nil => rfl
  | cons x a ih =>
    cases x with
    | write b =>
      simp only [exec] at h ⊢
      rcases hw : s.w.write b with ⟨w', ok⟩
      rw [hw] at h
      cases ok with
      | true => simp only at h ⊢; exact ih _ h
      | false => simp at h
    | push n => simp only [exec, lenAfter] at h ⊢; exact ih _ h
    | pop => simp only [exec, lenAfter] at h ⊢; exact ih _ h

theorem run_go_length (xs : List XEv) (s : Enc) (i : Nat) (h : (run.go s i xs).2 = none) :
    (run.go s i xs).1.length = (runW s.length xs).2 := by
  induction xs generalizing s i with
  | nil => rfl
  | cons x xs ih =>
    rw [run_go_cons] at h ⊢
    have hl := exec_length (acts s.length x) s
    simp only [step] at h ⊢
    rcases hx : exec s (acts s.length x) with ⟨s1, ok⟩
    rw [hx] at h hl
    cases ok with
    | true =>
      simp only at h ⊢
      rw [ih s1 (i + 1) h, hl rfl]
      rfl
    | false => simp at h

/-- … and with ANY writer (fault injection included): whenever the document's run reports no
error, the length stack is exactly what it was -/
theorem ubj_encoder_doc_stack_any (t : ETree) (s : Enc) (h : (run s (t.events.map XEv.ev)).2 = none) :
    (run s (t.events.map XEv.ev)).1.length = s.length := by
  have h0 := run_go_ok (t.events.map XEv.ev) { length := s.length } rfl 0
  have h1 := ubj_encoder_doc t { length := s.length } rfl
  simp only [run] at h1
  rw [h1] at h0
  have h2 : (runW s.length (t.events.map XEv.ev)).2 = s.length := by
    have := congrArg (fun r => r.1.length) h0
    simpa using this.symm
  simp only [run] at h ⊢
  rw [run_go_length _ s 0 h, h2]

/-- encoder, ANY history of documents followed by ANY probe stream: the history leaves the
encoder with an idle length stack, and the probe's result, final length stack and bytes on the
reused encoder are those on a new one. -/
theorem ubj_encoder_reuse (hist : List ETree) (probe : List XEv) :
    ∃ (pre : Bytes) (s : Enc),
      run {} ((ETree.eventsList hist).map XEv.ev) = (s, none) ∧ s.w.out = pre ∧
      s.length = ({} : Enc).length ∧
      (run s probe).2 = (run {} probe).2 ∧
      (run s probe).1.length = (run {} probe).1.length ∧
      (run s probe).1.w.out = pre ++ (run {} probe).1.w.out := by
  have h := enc_list hist {} rfl 0 []
  simp only [List.append_nil, run.go] at h
  refine ⟨_, _, h, rfl, rfl, ?_⟩
  obtain ⟨b, e1, e2, e3, e4, e5⟩ := ubj_encoder_state_independent probe
    (({} : Enc).emits (chunksList hist)) {} rfl rfl rfl
  refine ⟨by rw [e1, e2], e3, ?_⟩
  rw [e4, e5]
  simp [Writer.out]

/-- non-vacuity: two documents (nested, counted and unknown lengths, a typed array), then a probe -/
example :
    let d1 : List XEv := (ETree.events (.arr 2 0 [.num .i16 (-200), .obj (-1) 0 [([0x61], .null)]])).map .ev
    let d2 : List XEv := [.numArr .u16 [1, 300]]
    let probe : List XEv := (ETree.events (.arr (-1) 0 [.str [0x62], .arr 1 0 [.bool true]])).map .ev
    let s := (run {} (d1 ++ d2)).1
    (run {} (d1 ++ d2)).2 = none ∧ s.length = ({} : Enc).length ∧
      (run s probe).1.w.out = s.w.out ++ (run {} probe).1.w.out ∧ (run s probe).1.length = s.length := by
  decide +kernel

/-! ## (C) C07 / C01 — the output is valid UBJSON that the reference decoder reads back -/

/-- what the UBJSON encoder writes for a tree, from its initial state -/
def ubjBytes (t : ETree) : Bytes := encAll (t.events.map XEv.ev)

theorem ubj_encode (t : ETree) (hw : t.wf = true) : ubjBytes t = (toItem t).wire := by
  simp only [ubjBytes, encAll, ubj_encoder_doc t {} rfl, emits_out, chunks_wire t hw]
  rfl

/-- C07 / C01 for UBJSON: for EVERY contract-conforming event tree `t` (any nesting and shape,
every scalar kind with any in-range value, all float bit patterns, arbitrary byte strings and
keys, announced and unknown lengths) the bytes the encoder writes are the wire form of a
well-formed UBJSON item (`UItem.ok`: the grammar of SF/Proofs/UbjWire.lean), the REFERENCE
decoder `Cst.decodeStream` accepts them — consuming every byte — as exactly one value, and
that value is the value of `t` up to the format's documented representation change (`approx` =
the oracle's `approxUbj`: an unsigned number above MaxInt64 arrives as its decimal string, UBJSON
high-precision); when no number exceeds MaxInt64 it is EXACTLY the value of `t`. -/
theorem ubj_output_valid (t : ETree) (hw : t.wf = true) (hs : small t = true) :
    ∃ i : UItem, i.ok = true ∧ ubjBytes t = i.wire ∧
      Cst.decodeStream (ubjBytes t) = .ok [i.value] ∧
      approx t.value i.value = true ∧ (noBig t = true → i.value = t.value) := by
  refine ⟨toItem t, toItem_ok t hs, ubj_encode t hw, ?_, toItem_approx t hs, toItem_exact t hs⟩
  rw [ubj_encode t hw]
  exact decodeStream_wire _ (toItem_ok t hs)

/-- the specification's own round trip (every well-formed item — plain, counted and typed
containers, any length marker that fits): `decode ∘ wire = value`, with any trailing bytes left
untouched, whenever the fuel is at least twice the item's length (`decodeStream` provides more) -/
theorem ubj_spec_roundtrip (i : UItem) (h : i.ok = true) (fuel : Nat) (hf : 2 * i.wire.length ≤ fuel)
    (rest : Bytes) : Cst.value fuel (i.wire ++ rest) = .ok (i.value, rest) :=
  dec_value i h fuel hf rest

/-- … and for whole streams -/
theorem ubj_spec_roundtrip_stream (is : List UItem) (h : okList is = true) :
    Cst.decodeStream (wireList is) = .ok (Wire.valueList is) :=
  decodeStream_wireList is h

/-- non-vacuity: width-boundary integers, an empty key, unknown and announced lengths, a NaN
payload, a `C` byte (no number above MaxInt64: the kernel cannot run `toString`) -/
def exT : ETree :=
  .obj (-1) 0 [([], .arr 4 0 [.num .i16 (-200), .num .u64 9223372036854775807, .f64 0x7ff8000000000123,
                  .num .byte 78]),
               ([0xff], .str [0, 0x80]), ([0x4e], .obj 1 0 [([0x7d], .arr 0 0 [])])]

example :
    exT.wf = true ∧ small exT = true ∧ noBig exT = true ∧
      (match Cst.decodeStream (ubjBytes exT) with
       | .ok [v] => v == exT.value
       | _ => false) = true := by
  decide +kernel

/-! ## (D) C10 — extended events mean their expansion -/

/-- C10 for the UBJSON encoder, execution: an extended value event (by-reference string, typed
array, typed map) and its expansion into basic events both succeed from ANY non-failing state
and leave the SAME state behind except for the bytes written (`xchunks x` against
`chunks (xTree x)`, where `(xTree x).events = x.expand`): same length stack, same writer
otherwise. -/
theorem ubj_ext_step (s : Enc) (hf : s.w.failFrom = none) (x : XEv) (hx : isExtValue x = true) :
    step s x = (s.emits (xchunks x), true) ∧
      run s (x.expand.map XEv.ev) = (s.emits (chunks (xTree x)), none) := by
  refine ⟨step_ext s hf x hx, ?_⟩
  rw [← xTree_events x hx]
  exact ubj_encoder_doc _ s hf

/-- by-reference keys: the same writes as the key event -/
theorem ubj_keyRef_same (s : Enc) (k : Bytes) : step s (.keyRef k) = step s (.ev (.key k)) := rfl

/-- by-reference strings: the same writes as the string event -/
theorem ubj_strRef_same (s : Enc) (b : Bytes) : step s (.strRef b) = step s (.ev (.str b)) := rfl

/-- C10 for the UBJSON encoder, meaning: for EVERY extended value event `x` with in-range
numbers, the bytes of `x` and the bytes of its expansion are both accepted by the reference
decoder as one value each; both values are the value `build x.expand` of the expansion up to
`approx`, and when no element exceeds MaxInt64 they are THE SAME value, exactly the expansion's.
(The bytes differ: `[$I#…` against `[#…`.) -/
theorem ubj_ext_same_value (x : XEv) (hx : isExtValue x = true) (hs : small (xTree x) = true) :
    ∃ v1 v2 : Val,
      Cst.decodeStream (encAll [x]) = .ok [v1] ∧
      Cst.decodeStream (encAll (x.expand.map XEv.ev)) = .ok [v2] ∧
      build x.expand = some (xTree x).value ∧
      approx (xTree x).value v1 = true ∧ approx (xTree x).value v2 = true ∧
      (noBig (xTree x) = true → v1 = (xTree x).value ∧ v2 = (xTree x).value) := by
  have hb1 : encAll [x] = (xItem x).wire := by
    have : run {} [x] = (({} : Enc).emits (xchunks x), none) := by
      simp [run, run.go, step_ext {} rfl x hx]
    simp only [encAll, this, emits_out, xchunks_wire x hx]
    rfl
  have hb2 : encAll (x.expand.map XEv.ev) = (toItem (xTree x)).wire := by
    rw [← xTree_events x hx]
    exact ubj_encode _ (xTree_wf x)
  refine ⟨(xItem x).value, (toItem (xTree x)).value, ?_, ?_, ?_, xItem_approx x hx hs,
    toItem_approx _ hs, fun hb => ⟨xItem_exact x hx hs hb, toItem_exact _ hs hb⟩⟩
  · rw [hb1]; exact decodeStream_wire _ (xItem_ok x hs)
  · rw [hb2]; exact decodeStream_wire _ (toItem_ok _ hs)
  · rw [← xTree_events x hx]; exact build_events _

/-- the one case where the two values differ (both `approx` the expansion's): an unsigned
16/32/64-bit or `uint` array / map with an element above MaxInt64 is typed `H` as a whole, and
EVERY element arrives as its decimal string -/
theorem ubj_ext_value_cases (x : XEv) (hx : isExtValue x = true) (hs : small (xTree x) = true) :
    (xItem x).value = (xTree x).value ∨
    (∃ k xs, x = .numArr k xs ∧ NumKind.wide k = true ∧ (∀ v ∈ xs, 0 ≤ v) ∧ (∃ v ∈ xs, 9223372036854775807 < v) ∧
      (xItem x).value = .arr (xs.map fun v => .str (decimal v.toNat))) ∨
    (∃ k ms, x = .numObj k ms ∧ NumKind.wide k = true ∧ (∀ m ∈ ms, 0 ≤ m.2) ∧
      (∃ m ∈ ms, 9223372036854775807 < m.2) ∧
      (xItem x).value = .obj (ms.map fun m => (m.1, .str (decimal m.2.toNat)))) :=
  xItem_value_cases x hx hs

/-- non-vacuity: a typed array and its expansion are different bytes with the same value -/
example :
    let x : XEv := .numArr .u16 [1, 300]
    isExtValue x = true ∧ small (xTree x) = true ∧ noBig (xTree x) = true ∧
      encAll [x] = [0x5b, 0x24, 0x49, 0x23, 0x69, 0x02, 0x00, 0x01, 0x01, 0x2c] ∧
      encAll (x.expand.map XEv.ev) = [0x5b, 0x23, 0x69, 0x02, 0x69, 0x01, 0x49, 0x01, 0x2c] ∧
      (match Cst.decodeStream (encAll [x]), Cst.decodeStream (encAll (x.expand.map XEv.ev)) with
       | .ok [v1], .ok [v2] => v1 == v2 && v1 == (xTree x).value
       | _, _ => false) = true := by
  decide +kernel

/-- … and a typed map -/
example :
    let x : XEv := .numObj .i64 [([0x61], -5), ([], 70000)]
    (match Cst.decodeStream (encAll [x]), Cst.decodeStream (encAll (x.expand.map XEv.ev)) with
     | .ok [v1], .ok [v2] => v1 == v2 && v1 == (xTree x).value
     | _, _ => false) = true ∧ encAll [x] ≠ encAll (x.expand.map XEv.ev) := by
  decide +kernel

/-! ## (B'), (C') — documents mixing basic and extended events

`XTree` (SF/Proofs/UbjEncXTree.lean): an event tree whose leaves are scalar events or extended
value events (typed arrays, typed maps, by-reference strings), keys by value or by reference;
`T.expand : ETree` is the tree of its expansion into basic events. -/

/-- (B) for mixed documents: one complete document from any non-failing state — success, writes
`T.chunks` independent of the state, length stack restored -/
theorem ubj_encoder_doc_ext (T : XTree) (hl : T.leavesOk = true) (s : Enc) (hf : s.w.failFrom = none) :
    run s T.events = (s.emits T.chunks, none) := by
  have := XTree.enc_xtree T hl s hf 0 []
  simpa [run, run.go] using this

/-- (B) for mixed documents: any history of complete documents, then ANY probe stream: result,
length stack and bytes of the probe are those of a new encoder -/
theorem ubj_encoder_reuse_ext (hist : List XTree) (hh : XTree.leavesOkList hist = true) (probe : List XEv) :
    ∃ (pre : Bytes) (s : Enc),
      run {} (XTree.eventsList hist) = (s, none) ∧ s.w.out = pre ∧
      s.length = ({} : Enc).length ∧
      (run s probe).2 = (run {} probe).2 ∧
      (run s probe).1.length = (run {} probe).1.length ∧
      (run s probe).1.w.out = pre ++ (run {} probe).1.w.out := by
  have h := XTree.enc_xlist hist hh {} rfl 0 []
  simp only [List.append_nil, run.go] at h
  refine ⟨_, _, h, rfl, rfl, ?_⟩
  obtain ⟨b, e1, e2, e3, e4, e5⟩ := ubj_encoder_state_independent probe
    (({} : Enc).emits (XTree.chunksList hist)) {} rfl rfl rfl
  refine ⟨by rw [e1, e2], e3, ?_⟩
  rw [e4, e5]
  simp [Writer.out]

/-- (C) for mixed documents: whenever the expansion of the document obeys the Visitor contract
(`T.expand.wf`, numbers in range) — so the expansion is one well-formed document (`WF1`) with
value `T.expand.value` (`build`) — the bytes written for the document itself (typed containers
included) are the wire form of a well-formed item, which the reference decoder reads back as
that value up to `approx`, exactly that value when no number exceeds MaxInt64. -/
theorem ubj_output_valid_ext (T : XTree) (hl : T.leavesOk = true) (hw : T.expand.wf = true)
    (hs : small T.expand = true) :
    build (expandAll T.events) = some T.expand.value ∧ WF1 (expandAll T.events) = true ∧
    ∃ i : UItem, i.ok = true ∧ encAll T.events = i.wire ∧
      Cst.decodeStream (encAll T.events) = .ok [i.value] ∧
      approx T.expand.value i.value = true ∧ (noBig T.expand = true → i.value = T.expand.value) := by
  have hb : encAll T.events = T.item.wire := by
    simp only [encAll, ubj_encoder_doc_ext T hl {} rfl, emits_out, XTree.xtree_wire T hl hw]
    rfl
  refine ⟨?_, ?_, T.item, XTree.item_ok T hl hs, hb, ?_, XTree.item_approx T hl hs, XTree.item_exact T hl hs⟩
  · rw [← XTree.expand_events T hl]; exact build_events _
  · rw [← XTree.expand_events T hl]; exact wf1_events _ hw
  · rw [hb]; exact decodeStream_wire _ (XTree.item_ok T hl hs)

/-- non-vacuity: an object (unknown length) with a by-reference key holding a typed uint16 array,
a typed string map and a bool array inside a counted array -/
def exX : XTree :=
  .obj (-1) 0 [([0x61], true, .leaf (.numArr .u16 [1, 300])),
               ([], false, .arr 3 0 [.leaf (.strObj [([0x6b], [0x76])]), .leaf (.boolArr [true, false]),
                                     .leaf (.ev (.num .int (-70000)))])]

example :
    exX.leavesOk = true ∧ exX.expand.wf = true ∧ small exX.expand = true ∧ noBig exX.expand = true ∧
      (match Cst.decodeStream (encAll exX.events) with
       | .ok [v] => v == exX.expand.value
       | _ => false) = true ∧
      encAll exX.events ≠ encAll ((expandAll exX.events).map XEv.ev) := by
  decide +kernel

end SF.Props.UbjEnc
