/-
  Helper lemmas for C03 (UBJSON parser mirror, SF/Ubjson/Parse.lean): no step function
  indexes an empty slice or slices with a negative length — from every parser state that
  satisfies the invariant `Inv` below (which `{}` satisfies and every step preserves).

  WHY AN INVARIANT IS NEEDED (unlike cborl): `stepString`, the `stFieldNameLen` arm and
  `stepArrayCount` read `p.length.current` as a byte count / element count.  From an ARBITRARY
  state the mirror does reach `Err.panic`:
      { state.current := ⟨stString, stWithLen⟩, length.current := -1 }      on input [0x61]
      { state.current := ⟨stObjectDyn, stFieldNameLen⟩, length.current := -1 } on input [0x61]
      { state.current := ⟨stArrayCount, stWithLen⟩, length.current := -1 }  on input []
  (kernel-evaluated examples in SF/Proofs/UbjParseTop.lean).  `Inv` says exactly: a state that is about to use
  `length.current` that way ("critical") has a non-negative `length.current`, and no
  critical state is buried in the state stack or stored in the `valueState` stack (so that
  none can be re-entered by a pop with a foreign length on top).
-/
import SF.Ubjson.Parse
namespace SF.Ubjson.Parse
open SF SF.Ubjson
open StateType StateStep

/-- the states that use `p.length.current` as a slice bound: strings with their length
read, field names with their length read, a counted array about to start (and the
`stArray` / `stObject` states that `setType` would turn into one of these) -/
def crit (s : St) : Bool :=
  (s.step == stWithLen &&
    (s.type == stString || s.type == stHighPrec || s.type == stArray || s.type == stArrayCount))
  || (s.step == stFieldNameLen &&
    (s.type == stObject || s.type == stObjectDyn || s.type == stObjectCount || s.type == stObjectTyped))

/-- THE INVARIANT -/
structure Inv (p : P) : Prop where
  cur : crit p.state.current = true → 0 ≤ p.length.current
  stk : ∀ s ∈ p.state.stack, crit s = false
  vcur : crit p.valueState.current = false
  vstk : ∀ s ∈ p.valueState.stack, crit s = false

theorem inv_init (failAt : Option Nat) : Inv (init failAt) := by
  constructor <;> simp [init, crit]

theorem inv_default : Inv ({} : P) := by
  constructor <;> simp [crit]

/-- the outcome of one step is harmless: no panic, the stored error is untouched, the
invariant holds afterwards -/
structure Safe (e : Option Err) (r : R) : Prop where
  np : r.err ≠ some .panic
  ef : r.p.err = e
  inv : Inv r.p

theorem Safe.setDone {e : Option Err} {r : R} (h : Safe e r) (d : Bool) : Safe e { r with done := d } :=
  ⟨h.np, h.ef, h.inv⟩

/-! ### the visitor -/

/-- the error a visitor call returns -/
def verr (p : P) : Option Err :=
  match p.failAt with
  | some k => if p.evs.length ≥ k then some .visitor else none
  | none => none

def addEv (p : P) (e : Ev) : P := { p with evs := e :: p.evs }

theorem visit_eq (p : P) (e : Ev) : visit p e = (addEv p e, verr p) := by
  simp only [visit, verr, addEv]
  cases p.failAt with
  | none => rfl
  | some k => simp only []; split <;> rfl

theorem verr_cases (p : P) : verr p = none ∨ verr p = some .visitor := by
  simp only [verr]; split <;> (try split) <;> simp

theorem verr_np (p : P) : verr p ≠ some .panic := by
  rcases verr_cases p with h | h <;> simp [h]

/-! ### the invariant under the primitive operations -/

/-- the invariant only looks at the two state stacks and the current length -/
theorem Inv.congr {p q : P} (h : Inv p) (hs : q.state = p.state) (hv : q.valueState = p.valueState)
    (hl : q.length.current = p.length.current) : Inv q :=
  ⟨by rw [hs, hl]; exact h.cur, by rw [hs]; exact h.stk, by rw [hv]; exact h.vcur, by rw [hv]; exact h.vstk⟩

theorem Inv.addEv {p : P} (h : Inv p) (e : Ev) : Inv (addEv p e) := h.congr rfl rfl rfl

theorem Inv.collectP {p : P} (h : Inv p) (b : Bytes) (n : Nat) : Inv (collectP p b n).1 :=
  h.congr rfl rfl rfl

theorem Inv.setMarker {p : P} (h : Inv p) (m : UInt8) : Inv { p with marker := m } := h.congr rfl rfl rfl

/-- a new current state that is not critical -/
theorem Inv.setCurrent {p : P} (h : Inv p) (s : St) (hs : crit s = false) : Inv (setCurrent p s) :=
  ⟨by intro hc; simp [Parse.setCurrent, hs] at hc, h.stk, h.vcur, h.vstk⟩

/-- a new current state that keeps a critical state critical at most -/
theorem Inv.setCurrent' {p : P} (h : Inv p) (s : St) (hs : crit s = true → crit p.state.current = true) :
    Inv (Parse.setCurrent p s) :=
  ⟨fun hc => h.cur (hs hc), h.stk, h.vcur, h.vstk⟩

theorem Inv.setStep {p : P} (h : Inv p) (s : StateStep) (hs : s ≠ stWithLen ∧ s ≠ stFieldNameLen) :
    Inv (Parse.setStep p s) := by
  apply h.setCurrent
  cases s <;> simp_all [crit]

/-- `stepLen` completing: the continuation state gets a non-negative length -/
theorem Inv.lenDone {p : P} (h : Inv p) (cont : St) (L : Int) (hL : 0 ≤ L) :
    Inv (pushLen (Parse.setCurrent { p with marker := noMarker } cont) L) :=
  ⟨fun _ => hL, h.stk, h.vcur, h.vstk⟩

theorem Inv.decLen {p : P} (h : Inv p) (hc : crit p.state.current = false) : Inv (decLen p) :=
  ⟨by intro hc'; simp [Parse.decLen, hc] at hc', h.stk, h.vcur, h.vstk⟩

theorem Inv.popLen {p : P} (h : Inv p) (hc : crit p.state.current = false) : Inv (popLen p) :=
  ⟨by intro hc'; simp [Parse.popLen, hc] at hc', h.stk, h.vcur, h.vstk⟩

theorem crit_fail : crit ⟨stFail, stStart⟩ = false := by decide

theorem pop_stk {ss : StateStack} (h : ∀ s ∈ ss.stack, crit s = false) :
    crit ss.pop.current = false ∧ ∀ s ∈ ss.pop.stack, crit s = false := by
  cases ss with
  | mk stack current =>
    cases stack with
    | nil => exact ⟨crit_fail, by simp [StateStack.pop]⟩
    | cons t rest =>
      simp only [StateStack.pop]
      exact ⟨h t (by simp), fun s hs => h s (by simp [hs])⟩

theorem push_stk {ss : StateStack} (h : ∀ s ∈ ss.stack, crit s = false) (hc : crit ss.current = false)
    (n : St) : (ss.push n).current = n ∧ ∀ s ∈ (ss.push n).stack, crit s = false := by
  simp only [StateStack.push]
  split
  · refine ⟨rfl, ?_⟩
    intro s hs
    simp only [List.mem_cons] at hs
    rcases hs with rfl | hs
    · exact hc
    · exact h s hs
  · exact ⟨rfl, h⟩

theorem Inv.popState {p : P} (h : Inv p) : Inv (popState p).1 := by
  have := pop_stk h.stk
  exact ⟨by intro hc; simp [Parse.popState, this.1] at hc, this.2, h.vcur, h.vstk⟩

theorem Inv.popLenState {p : P} (h : Inv p) : Inv (popLenState p).1 := by
  have := pop_stk h.stk
  exact ⟨by intro hc; simp [Parse.popLenState, Parse.popState, Parse.popLen, this.1] at hc, this.2, h.vcur, h.vstk⟩

theorem Inv.popValueState {p : P} (h : Inv p) : Inv (popValueState p) := by
  have := pop_stk h.vstk
  exact ⟨h.cur, h.stk, this.1, this.2⟩

theorem Inv.pushState {p : P} (h : Inv p) (hc : crit p.state.current = false) (s : St)
    (hs : crit s = false) : Inv (pushState p s) := by
  have := push_stk h.stk hc s
  exact ⟨by intro hc'; simp [Parse.pushState, this.1, hs] at hc', this.2, h.vcur, h.vstk⟩

theorem Inv.pushValueState {p : P} (h : Inv p) (s : St) (hs : crit s = false) (vt : Nat) :
    Inv { p with valueState := p.valueState.push s, valueType := vt } := by
  have := push_stk h.vstk h.vcur s
  exact ⟨h.cur, h.stk, by simp [this.1, hs], this.2⟩

theorem start_all : ∀ n : Fin 256,
    (markerToStartState (UInt8.ofNat n.val)).all (fun s => !crit s) = true := by decide +kernel

theorem crit_start {m : UInt8} {s : St} (h : markerToStartState m = some s) : crit s = false := by
  have := start_all ⟨m.toNat, m.toNat_lt⟩
  simp only [UInt8.ofNat_toNat] at this
  rw [h] at this
  simpa using this

end SF.Ubjson.Parse
