/-
  C11, codec paths other than JSON: the ORACLE's comparison `SF.Ops.Fu.agreeF path` for scalars, `[]T`,
  `map[string]T` — the lemmas of FuIdAgree.lean for every `path` with `(path == "json") = false`
  ("cbor", "cborl", "direct", "ubjson": `agreeF` looks at the path only to ask whether it is JSON).
-/
import SF.Proofs.FuIdAgree
namespace SF.FuCbor
open SF SF.Gotype SF.Gotype.Fold SF.FuId
open SF.Ops.Fu (agreeF)

theorem agree_primP (path : String) (hj : (path == "json") = false) (n : Nat) (p : Prim) (x : GoVal) (h : hasPrim p x = true) :
    agreeF path (n + 1) (primTy p) x x = true := by
  cases p <;> cases x <;> simp [hasPrim] at h <;> simp [agreeF, primTy, GoType.under, hj]

theorem zip_self_allP (path : String) (hj : (path == "json") = false) (n : Nat) (p : Prim) : ∀ xs : List GoVal, (∀ x ∈ xs, hasPrim p x = true) →
    ((xs.zip xs).all fun x => agreeF path (n + 1) (primTy p) x.1 x.2) = true
  | [], _ => rfl
  | x :: r, h => by
    simp only [List.zip_cons_cons, List.all_cons, agree_primP path hj n p x (h x List.mem_cons_self), Bool.true_and]
    exact zip_self_allP path hj n p r (fun y hy => h y (List.mem_cons_of_mem _ hy))

theorem agree_sliceP (path : String) (hj : (path == "json") = false) (n : Nat) (p : Prim) (v : GoVal) (xs : List GoVal) (hv : sliceElems? v = some xs)
    (h : ∀ x ∈ xs, hasPrim p x = true) :
    agreeF path (n + 2) (.slice (primTy p)) v (back (Unf.sliceFin (uPrimTy p) (xs.map (trPrim p)))) = true := by
  rw [back_sliceFin p xs h]
  have hz := zip_self_allP path hj n p xs h
  cases v with
  | nilSlice =>
    have : xs = [] := by simpa [sliceElems?] using hv.symm
    subst this
    simp [agreeF, GoType.under]
  | slice ys =>
    have : ys = xs := by simpa [sliceElems?] using hv
    subst this
    cases ys with
    | nil => simp [agreeF, GoType.under]
    | cons x r =>
      simp only [List.isEmpty_cons, Bool.false_eq_true, if_false]
      rw [SF.Ops.Fu.agreeF.eq_def]
      simp only [under_slice, beq_self_eq_true, Bool.true_and]
      exact hz
  | _ => simp [sliceElems?] at hv

theorem agree_map_coreP (path : String) (hj : (path == "json") = false) (m : Nat) (p : Prim) (ms : List (GoVal × GoVal)) (fin : List (Bytes × Unf.GoVal))
    (helem : ∀ x, hasPrim p x = true → agreeF path m (primTy p) x x = true)
    (hms : ∀ m ∈ ms, hasEntry p m = true)
    (hnd : (ms.map fun m => getS m.1).Nodup)
    (hfin : fin.Perm (ms.map fun m => (getS m.1, trPrim p m.2))) :
    agreeF path (m + 1) (.map .string (primTy p)) (.map ms) (.map (backMems fin)) = true := by
  rw [SF.Ops.Fu.agreeF.eq_def]
  simp only [under_map]
  rw [mapM_some_of _ (fun m : GoVal × GoVal => (getS m.1, m.2)) ms ?h1,
    mapM_some_of _ (fun m : GoVal × GoVal => (getS m.1, m.2)) (backMems fin) ?h2]
  case h1 =>
    intro m hm
    obtain ⟨a, b⟩ := m
    have := (hasEntry_key (hms (a, b) hm)).1
    cases a <;> simp [asStr] at this <;> rfl
  case h2 =>
    intro m hm
    rw [backMems_eq] at hm
    obtain ⟨m1, _, rfl⟩ := List.mem_map.mp hm
    rfl
  have hys : (backMems fin).map (fun m : GoVal × GoVal => (getS m.1, m.2)) = fin.map fun m => (m.1, back m.2) := by
    rw [backMems_eq, List.map_map]; rfl
  have hp2 := hfin.map (fun m : Bytes × Unf.GoVal => (m.1, back m.2))
  have hndf : ((fin.map fun m => (m.1, back m.2)).map (·.1)).Nodup := by
    rw [(hp2.map (·.1)).nodup_iff]
    simpa [List.map_map, Function.comp_def] using hnd
  have hed : ((ms.map fun m => (getS m.1, m.2)).map (fun x => x.1)).eraseDups =
      (ms.map fun m => (getS m.1, m.2)).map (fun x => x.1) := by
    apply eraseDups_of_nodup
    simpa [List.map_map, Function.comp_def] using hnd
  have hlen : fin.length = ms.length := by simpa using hfin.length_eq
  simp only [hj, Bool.false_eq_true, if_false, Prod.eta, List.map_id', hys, hed, List.length_map, bne_self_eq_false,
    hlen, beq_self_eq_true, Bool.true_and]
  rw [List.all_eq_true]
  intro kx hkx
  obtain ⟨m0, h0, rfl⟩ := List.mem_map.mp hkx
  have hmem : (getS m0.1, m0.2) ∈ fin.map fun m => (m.1, back m.2) := by
    rw [hp2.mem_iff]
    simp only [List.map_map, List.mem_map, Function.comp]
    exact ⟨m0, h0, by rw [back_trPrim p m0.2 (hasEntry_key (hms m0 h0)).2]⟩
  dsimp only
  rw [find_of_mem_nodup _ _ _ hndf hmem]
  exact helem _ (hasEntry_key (hms m0 h0)).2

theorem agree_mapP (path : String) (hj : (path == "json") = false) (n : Nat) (p : Prim) (v : GoVal) (ms : List (GoVal × GoVal)) (fin : List (Bytes × Unf.GoVal))
    (hv : mapEntries? v = some ms) (hms : ∀ m ∈ ms, hasEntry p m = true)
    (hnd : (ms.map fun m => getS m.1).Nodup)
    (hfin : fin.Perm (ms.map fun m => (getS m.1, trPrim p m.2))) :
    agreeF path (n + 2) (.map .string (primTy p)) v (back (Unf.mapSt (uPrimTy p) fin)) = true := by
  have hlen : fin.length = ms.length := by simpa using hfin.length_eq
  have hback : back (Unf.mapSt (uPrimTy p) fin) = if fin.isEmpty then .nilMap else .map (backMems fin) := by
    unfold Unf.mapSt; split <;> rfl
  rw [hback]
  cases v with
  | nilMap =>
    have : ms = [] := by simpa [mapEntries?] using hv.symm
    subst this
    have : fin = [] := by simpa using hlen
    subst this
    rw [SF.Ops.Fu.agreeF.eq_def]
    simp [under_map, hj]
  | map ms' =>
    have : ms' = ms := by simpa [mapEntries?] using hv
    subst this
    cases hf : fin with
    | nil =>
      subst hf
      have : ms' = [] := by simpa using hlen.symm
      subst this
      rw [SF.Ops.Fu.agreeF.eq_def]
      simp [under_map, hj]
    | cons f0 fr =>
      rw [← hf]
      have hne : fin.isEmpty = false := by rw [hf]; rfl
      simp only [hne, Bool.false_eq_true, if_false]
      exact agree_map_coreP path hj (n + 1) p ms' fin (fun x hx => agree_primP path hj n p x hx) hms hnd hfin
  | _ => simp [mapEntries?] at hv

end SF.FuCbor
