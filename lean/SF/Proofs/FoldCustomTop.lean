/-
  Property C12 with CUSTOM CODE — rule 2 (custom folders: `Fold` on the value or the pointer
  receiver, registered fold functions) and rule 6e (`omitempty` through `IsZero()`), rule 6c for
  the object a custom folder emits (`inline`): the MIRROR of the code (`SF.Gotype.Fold.impl`)
  agrees with the SPECIFICATION (`SF.Gotype.Rules.foldR`) on the extended universe `goodC` /
  `wtC` (CusUniv), in both directions — the statements of `FoldRulesTop` (`fold_agrees`,
  `fold_refuses`, `fold_total`) with `goodT` / `wt` replaced:

    Custom.fold_agrees    rules give `r`  ⇒  mirror returns ok, its events build a value that
                                             `Rules.agrees` accepts for `r`
    Custom.fold_refuses   rules refuse (≠ own fuel)  ⇒  mirror returns a Go error
    Custom.fold_total     both at once

  THE UNIVERSE (`goodC reg`, `wtC reg`; decidable)
    types   everything of `goodT` (`universe_extends`), plus NAMED TYPES WITH CUSTOM CODE — any
            method set (`Methods`: `Fold` on the value / pointer receiver, `IsZero` on the value /
            pointer receiver), registered fold function or not (`reg`: the types of
            `userFoldTypes` have one); the code itself is the menagerie's (`customEvents`,
            `customIsZero`, keyed by the type's name) — in EVERY position: top level, struct field (any tag:
            plain, `omitempty`, `inline`), element of slices / arrays / maps, behind any number of
            pointers, dynamic type of interface values (also of `omitempty` interface fields).
            Side conditions on such a named type (`namedOK`): its underlying type is no pointer,
            interface, chan, func, complex, uintptr type (Go allows no methods on the first two;
            the others hold nothing to fold), and it is no slice / map type whose `Fold` is
            declared on the POINTER receiver (counterexample below); on an `inline` field
            (`goodCF`): its type (behind pointers) is no slice / map type with a custom folder (the
            reading "nil there: no demand" of Rules.lean).  The inside of a type with a custom
            folder must itself be good (it is never folded, but its values are typed by it).
    values  typed (`wtC`): as `wt`, and the type's own code is DEFINED on the value —
              `cusOK`   rule 2 gives a value: `customValue … = .ok _`, i.e. `customEvents` is defined
                        on the receiver and its events are ONE well-formed value (`WF1`, `build`);
                        this excludes `FOpen` (leaves its object open: `.userCode`, no demand);
              `zeroOK`  `customIsZero` is defined on the receiver;
            for the menagerie's types both hold on every value of the shape of the type
            (`Examples.cusOK_menagerie`, `cusOK_registered`, `zeroOK_menagerie`, `nilTop_menagerie`;
            `Examples.good_menagerie`: all 22 types are types of the universe); and
              `nilTop` / `nilIn`  a NIL pointer `*T` whose folder belongs to the pointer type
                        (pointer receiver, registered function) is called with nil by the code and
                        must give one value there; BEHIND ANOTHER POINTER (`**T` holding `&nil`) or
                        at a NAMED pointer type the code reports null without calling the folder,
                        so the folder must report nil as null too (`nilNull`; of the menagerie
                        only `FPN` does not) — the configuration the READINGS of Rules.lean leave
                        open; counterexample below.
    options as in FoldRulesTop, and `o.folders = reg`: the mirror has the user folders registered
            iff the rules count them (counterexample below).
    sizes   as in FoldRulesTop.
    Slightly more is excluded than necessary: `**T` holding `&nil` is excluded in `omitempty` and
    `inline` position too, where code and rules agree (dropped / nothing).

  WHAT IS COVERED of the menagerie: the folders FV, FP, FPN, FS, FInts, FMap, EmbF (methods), UF,
  UO, UD, UFM, UFP (registered, `reg = true`; with `reg = false` they are plain named types), the
  IsZeroers ZV, ZP, ZInt, ZStr, TimeLike, ZInts, ZMapP, ZArr, EmbZ; `FOpen` as a TYPE (its values
  are excluded: no demand).  NOT covered (as in FoldRulesTop): `inline` fields of interface kind,
  recursive types (`FoldRec`), and the exclusions listed above.  `fold_total` is stated with the
  comparison fuel `rcost r ≤ 100000` as hypothesis (`FoldCost.rcost_le_vcost` is not redone: the
  value of a custom folder is not bounded by the size of the Go value).

  FILES (all under SF/Proofs; each the counterpart of the `Fold…` file of the same name)
    CusUniv      the universe                      CusLeaf     the menagerie's folders, case by case
    CusCompile   compile phase, leaves                         (`custom_leaf`), `ExpectObjVisitor`
    CusWalk      specification / pointers          CusEmpty    `omitempty` with `IsZero()`
    CusTypeOk    accepted types compile            CusLazy     `omitempty` interface fields
    CusRun       run phase on leaves, `embedd`     CusMain     `sound_all`
    CusNoFuel, CusCompileErr, CusErrSem, CusErr    the error direction: `err_all`
    CusExamples  evaluation kit of the examples    FoldCustomTop (this file)
-/
import SF.Proofs.FoldRulesTop
import SF.Proofs.CusErr
import SF.Proofs.CusExamples
namespace SF.FoldProofs.Custom
open SF SF.Gotype SF.Gotype.Fold SF.Gotype.Rules

/-- a typed value of a type of interface kind is a typed interface value -/
theorem wt_iface_of_under {reg : Bool} {T : GoType} {v : GoVal} (hp : goodC reg [] T = true)
    (hT : T.under = .iface) (hw : wtC reg T v = true) : wtC reg .iface v = true := by
  have := wt_under_shape hp hw (by intro e he; rw [hT] at he; cases he)
  rw [hT] at this
  exact this

/-- MAIN THEOREM (good types with custom code).  For every type `T` of `goodC reg` of depth
≤ 499, every value `v` of type `T` (`wtC reg`) of depth ≤ 33331, every order oracle that mentions
no key twice inside one typed map, user folders registered in the mirror iff the rules count them
(`o.folders = reg`), and a visitor that never fails: if the rules give `r`, the mirror returns
`ok` and the events it delivered build a value that `Rules.agrees` accepts for `r` (provided
`Rules.agrees` has the fuel to compare, `rcost r ≤ 100000`). -/
theorem fold_agrees (o : FoldOpts) (reg : Bool) (hreg : o.folders = reg) (T : GoType) (v : GoVal) (r : RVal)
    (hp : goodC reg [] T = true) (hdt : tdepth T ≤ dynBound) (hw : wtC reg T v = true)
    (hdv : 3 * vdepth v + 6 ≤ runFuel)
    (hfail : o.failAt = none) (hord : hintOK o.order)
    (hspec : Rules.foldR T v reg = .ok r) (hcost : rcost r ≤ 100000) :
    AgreesWith (impl o T v) r := by
  obtain ⟨_, hI, _⟩ := sound_all o hreg (vdepth v + 2)
  unfold Rules.foldR at hspec
  cases htok : typeOk reg T with
  | error e => simp [htok] at hspec
  | ok u =>
  simp only [htok] at hspec
  let i : GoVal := match T.under with | .iface => v | _ => .iface T v
  have hs0 : Inv { failAt := o.failAt, hint := o.order } := ⟨hfail, hord⟩
  have hi : wtC reg .iface i = true ∧ vdepth i ≤ vdepth v + 1 ∧ ∃ m, foldF m reg .iface i = .ok r := by
    by_cases hT : T.under = .iface
    · have : i = v := by
        show (match T.under with | .iface => v | _ => .iface T v) = _
        rw [hT]
      rw [this]
      refine ⟨wt_iface_of_under hp hT hw, Nat.le_succ _, 100000, ?_⟩
      rw [foldF_under' _ hp (notC1_of_under_iface hp hT), hT] at hspec; exact hspec
    · have : i = .iface T v := by
        show (match T.under with | .iface => v | _ => .iface T v) = _
        cases hU : T.under <;> first | rfl | exact absurd hU hT
      rw [this]
      refine ⟨wt_iface_mk hp hdt hw, by rw [vdepth_iface]; omega, 100001, ?_⟩
      show foldF (100000 + 1) reg .iface (.iface T v) = .ok r
      rw [foldF_iface, htok]
      exact hspec
  obtain ⟨hwi, hdi, m, hm⟩ := hi
  obtain ⟨s', xs, g, hout, hadv, henc, hrel⟩ :=
    hI i (by omega) hwi m r hm runFuel (by omega) _ hs0
  rw [impl_eq]
  show AgreesWith { evs := (foldInterfaceValue runFuel o .user i _).1.evs.reverse,
                    res := (foldInterfaceValue runFuel o .user i _).2 } r
  rw [hout]
  refine ⟨rfl, g, ?_, agrees_of_Rel hrel hcost⟩
  have : s'.evs.reverse = xs := by rw [hadv.1]; simp
  simp only [this]
  exact build_of_Enc henc

theorem iface_typeOk {reg : Bool} {T : GoType} (hg : goodC reg [] T = true) (hu : T.under = .iface) :
    typeOk reg T = .ok () := by
  unfold typeOk
  rcases headKind hg with h | ⟨nm, m, u, rfl⟩
  · rw [under_unnamed h] at hu
    subst hu
    rfl
  · rw [typeOkF_named 999 [] hg (notC1_of_under_iface hg hu) (fun _ hx => by cases hx)]
    simp only [GoType.under] at hu
    subst hu
    rfl

/-- ERROR DIRECTION (good types with custom code).  If the rules REFUSE the value — an
unsupported kind, a map key type that is no string kind, `inline` together with `omitempty`,
`inline` on something that is no object, now also: on a custom folder whose value is no object
(`FS`, `FPN`, `UF` …) — and not merely for lack of their own fuel (`.userCode` cannot occur on
typed values: `cusOK`, `goodCF`), the mirror returns a Go error: never `ok`, never a panic, never
fuel exhaustion.  Side conditions as in `fold_agrees`, with the depth bound 332 on the types. -/
theorem fold_refuses (o : FoldOpts) (reg : Bool) (hreg : o.folders = reg) (T : GoType) (v : GoVal) (e : RuleErr)
    (hp : goodC reg [] T = true) (hdt : tdepth T ≤ specDynBound) (hw : wtC reg T v = true)
    (hsm : dynSmall v = true) (hdv : 3 * vdepth v + 6 ≤ runFuel)
    (hfail : o.failAt = none) (hord : hintOK o.order)
    (hspec : Rules.foldR T v reg = .error e) (hne : e ≠ .fuel) :
    ∃ e', (impl o T v).res = .err e' := by
  obtain ⟨_, hI, _⟩ := err_all o hreg (vdepth v + 2)
  have hdt' : tdepth T ≤ dynBound := by unfold specDynBound at hdt; unfold dynBound; omega
  have hs0 : Inv { failAt := o.failAt, hint := o.order } := ⟨hfail, hord⟩
  let i : GoVal := match T.under with | .iface => v | _ => .iface T v
  have hi : wtC reg .iface i = true ∧ dynSmall i = true ∧ vdepth i ≤ vdepth v + 1 ∧
      ∃ m, 3 * vdepth i + 1 ≤ m ∧ foldF m reg .iface i = .error e := by
    by_cases hT : T.under = .iface
    · have : i = v := by
        show (match T.under with | .iface => v | _ => .iface T v) = _
        rw [hT]
      rw [this]
      unfold Rules.foldR at hspec
      rw [iface_typeOk hp hT] at hspec
      simp only [] at hspec
      refine ⟨wt_iface_of_under hp hT hw, hsm, Nat.le_succ _, 100000, by unfold runFuel at hdv; omega, ?_⟩
      rw [foldF_under' _ hp (notC1_of_under_iface hp hT), hT] at hspec; exact hspec
    · have : i = .iface T v := by
        show (match T.under with | .iface => v | _ => .iface T v) = _
        cases hU : T.under <;> first | rfl | exact absurd hU hT
      rw [this]
      refine ⟨wt_iface_mk hp hdt' hw, ?_, by rw [vdepth_iface]; omega, 100001,
        by rw [vdepth_iface]; unfold runFuel at hdv; omega, ?_⟩
      · simp only [dynSmall, Bool.and_eq_true, decide_eq_true_eq]
        exact ⟨hdt, hsm⟩
      · show foldF (100000 + 1) reg .iface (.iface T v) = .error e
        rw [foldF_iface]
        unfold Rules.foldR at hspec
        exact hspec
  obtain ⟨hwi, hsmi, hdi, m, hm, hfm⟩ := hi
  obtain ⟨s', e', hout⟩ := hI i (by omega) hwi hsmi m e hm hfm hne runFuel (by omega) _ hs0
  rw [impl_eq]
  show ∃ e', (foldInterfaceValue runFuel o .user i _).2 = .err e'
  dsimp only at hout
  rw [hout]
  exact ⟨e', rfl⟩

/-- both directions at once: on the universe, the mirror's verdict is the rules' verdict -/
theorem fold_total (o : FoldOpts) (reg : Bool) (hreg : o.folders = reg) (T : GoType) (v : GoVal)
    (hp : goodC reg [] T = true) (hdt : tdepth T ≤ specDynBound) (hw : wtC reg T v = true)
    (hsm : dynSmall v = true) (hdv : 3 * vdepth v + 6 ≤ runFuel)
    (hfail : o.failAt = none) (hord : hintOK o.order) :
    match Rules.foldR T v reg with
    | .ok r => rcost r ≤ 100000 → AgreesWith (impl o T v) r
    | .error e => e = .fuel ∨ ∃ e', (impl o T v).res = .err e' := by
  cases hspec : Rules.foldR T v reg with
  | ok r =>
    intro hcost
    exact fold_agrees o reg hreg T v r hp (by unfold specDynBound at hdt; unfold dynBound; omega) hw hdv
      hfail hord hspec hcost
  | error e =>
    by_cases he : e = .fuel
    · exact Or.inl he
    · exact Or.inr (fold_refuses o reg hreg T v e hp hdt hw hsm hdv hfail hord hspec he)

/-- the universe of `FoldRulesTop` is a sub-universe (`CusSub`): `FoldProofs.fold_agrees` is the
instance of `Custom.fold_agrees` at good types, for `o.folders = reg` -/
theorem universe_extends (reg : Bool) (T : GoType) (v : GoVal) (hp : goodT [] T = true) (hw : wt T v = true) :
    goodC reg [] T = true ∧ wtC reg T v = true :=
  ⟨goodC_of_goodT reg T [] hp, wtC_of_wt reg v T [] hp hw⟩

/-! ## non-vacuity

`struct{V FV; P *FP; Z ZV "n,omitempty"; I FV ",inline"}` (tag strings are parsed in
`CusExamples` / `FoldExamples`): a custom folder on the value receiver as a field, one on the
pointer receiver behind a pointer, an `omitempty` field whose type has `IsZero()`, the object of
a custom folder inlined (through an `ExpectObjVisitor`).  With `Z = ZV{0}` (`IsZero()` true:
dropped) and with `Z = ZV{5}` (kept, folded as the struct it is). -/
example : goodC true [] Examples.TC = true ∧ wtC true Examples.TC Examples.vC = true ∧
    Rules.foldR Examples.TC Examples.vC = .ok Examples.rC ∧
    AgreesWith (impl {} Examples.TC Examples.vC) Examples.rC :=
  ⟨Examples.goodTC, Examples.wtTC 0, Examples.specC,
   fold_agrees {} true rfl _ _ _ Examples.goodTC (by decide +kernel) (Examples.wtTC 0) (by decide +kernel)
     rfl hintOK_nil Examples.specC (by decide +kernel)⟩
example : wtC true Examples.TC Examples.vC' = true ∧ Rules.foldR Examples.TC Examples.vC' = .ok Examples.rC' ∧
    AgreesWith (impl {} Examples.TC Examples.vC') Examples.rC' :=
  ⟨Examples.wtTC 5, Examples.specC',
   fold_agrees {} true rfl _ _ _ Examples.goodTC (by decide +kernel) (Examples.wtTC 5) (by decide +kernel)
     rfl hintOK_nil Examples.specC' (by decide +kernel)⟩

/- a registered fold function (`struct{U UO}`), registered — what `foldUO` emits — and not
registered — the struct: the same type and value, `reg = o.folders = true / false` -/
example : goodC true [] Examples.TU = true ∧ wtC true Examples.TU Examples.vU = true ∧
    Rules.foldR Examples.TU Examples.vU true = .ok Examples.rU ∧
    AgreesWith (impl {} Examples.TU Examples.vU) Examples.rU :=
  ⟨Examples.goodTU true, Examples.wtTU true, Examples.specU,
   fold_agrees {} true rfl _ _ _ (Examples.goodTU true) (by decide +kernel) (Examples.wtTU true) (by decide +kernel)
     rfl hintOK_nil Examples.specU (by decide +kernel)⟩
example : goodC false [] Examples.TU = true ∧ wtC false Examples.TU Examples.vU = true ∧
    Rules.foldR Examples.TU Examples.vU false = .ok Examples.rU' ∧
    AgreesWith (impl { folders := false } Examples.TU Examples.vU) Examples.rU' :=
  ⟨Examples.goodTU false, Examples.wtTU false, Examples.specU',
   fold_agrees { folders := false } false rfl _ _ _ (Examples.goodTU false) (by decide +kernel) (Examples.wtTU false)
     (by decide +kernel) rfl hintOK_nil Examples.specU' (by decide +kernel)⟩

/- rule 1 versus rule 2 (READINGS of Rules.lean): `(*FPN)(nil)` — the folder belongs to the
pointer type, it is called with nil and says "unlimited"; in the universe, and the mirror agrees -/
example :
    let T : GoType := .ptr Examples.FPNt
    goodC true [] T = true ∧ wtC true T .nilPtr = true ∧
      Rules.foldR T .nilPtr = .ok (.str (strBytes "unlimited")) ∧
      AgreesWith (impl {} T .nilPtr) (.str (strBytes "unlimited")) := by
  intro T
  have h1 : goodC true [] T = true := Examples.goodFPt true [] rfl
  have h2 : wtC true T .nilPtr = true := by decide +kernel
  have h3 : Rules.foldR T .nilPtr = .ok (.str (strBytes "unlimited")) := rfl
  exact ⟨h1, h2, h3, fold_agrees {} true rfl _ _ _ h1 (by decide +kernel) h2 (by decide +kernel) rfl hintOK_nil h3
    (by decide +kernel)⟩

/- the error direction: `struct{I FS ",inline"}` — `FS` emits a string, no object: the rules
refuse (`inlineNeedsObject`), the mirror's `ExpectObjVisitor` returns an error -/
example : goodC true [] Examples.TS = true ∧ wtC true Examples.TS Examples.vS = true ∧
    Rules.foldR Examples.TS Examples.vS = .error .inlineNeedsObject ∧
    ∃ e', (impl {} Examples.TS Examples.vS).res = .err e' :=
  ⟨Examples.goodTS, Examples.wtTS, Examples.specS,
   fold_refuses {} true rfl _ _ _ Examples.goodTS (by decide +kernel) Examples.wtTS (by decide +kernel)
     (by decide +kernel) rfl hintOK_nil Examples.specS (by decide)⟩

/-! ## every added hypothesis is necessary: evaluated counterexamples -/

/-- `nilIn` (part of `wtC`): `**FPN` holding `&nil`.  The rules follow the pointers and apply rule
2 to the nil `*FPN` ("unlimited"); the code walks both pointers (`makePointerFold 2`) and reports
null.  (`foldOracle` in SF/Ops/Fold.lean demands nothing there; `wtC` excludes exactly this.) -/
example :
    let T : GoType := .ptr (.ptr Examples.FPNt)
    let v : GoVal := .ptr .nilPtr
    goodC true [] T = true ∧ wtC true T v = false ∧
      Rules.foldR T v = .ok (.str (strBytes "unlimited")) ∧
      (impl {} T v).evs = [.ev .null] ∧ (impl {} T v).res = .ok :=
  ⟨Examples.goodFPt true [] rfl, by decide +kernel, rfl, by decide +kernel, by decide +kernel⟩

/-- `nilTop … strict` at a NAMED pointer type (`type PP *FPN`, no methods of its own): a nil `PP`
is null for the code (`getFoldPointer`), "unlimited" for the rules -/
example :
    let T : GoType := .named "PP" {} (.ptr Examples.FPNt)
    goodC true [] T = true ∧ wtC true T .nilPtr = false ∧
      Rules.foldR T .nilPtr = .ok (.str (strBytes "unlimited")) ∧
      (impl {} T .nilPtr).evs = [.ev .null] := by
  intro T
  refine ⟨?_, by decide +kernel, rfl, by decide +kernel⟩
  have h : goodC true ["PP"] Examples.FPNt = true := Examples.goodFPt true ["PP"] (by decide +kernel)
  show (!([] : List String).contains "PP" && namedOK true "PP" {} (.ptr Examples.FPNt) &&
    unnamedHead (.ptr Examples.FPNt) && goodC true ["PP"] Examples.FPNt) = true
  rw [h]
  decide +kernel

/-- `o.folders = reg`: `UD` (`type UD int64`, registered fold function `foldUD`).  The rules with
`reg = true` say `"ud9"`; a mirror without registered folders emits the number. -/
example :
    (match Rules.foldR Examples.UDt (.int 9) true with
     | .ok r => r.toVal == .str (strBytes "ud9")
     | .error _ => false) = true ∧
    (impl { folders := false } Examples.UDt (.int 9)).evs = [.ev (.num .i64 9)] ∧
    (impl { folders := true } Examples.UDt (.int 9)).evs = [.ev (.str (strBytes "ud9"))] :=
  ⟨by decide +kernel, by decide +kernel, by decide +kernel⟩

/-- `namedOK`, last clause: a MAP (or slice) type whose `Fold` is declared on the POINTER receiver
(here the menagerie's `foldUFM` code under a type with such a method; `reg = false`).  Inside an
interface value `foldInterfaceValue` finds no `Folder` (the value is not addressable), converts the
named map to `map[string]int` (`getFoldConvert`) and folds that: the folder is never called. -/
example :
    let T : GoType := .named "UFM" { folder := .pointer } (.map .string (.int .int))
    namedOK false "UFM" { folder := .pointer } (.map .string (.int .int)) = false ∧
      (match Rules.foldR T (.map []) false with
       | .ok r => r.toVal == .str (strBytes "um0")
       | .error _ => false) = true ∧
      (impl { folders := false } T (.map [])).evs = [.numObj .int []] :=
  ⟨by decide +kernel, by decide +kernel, by decide +kernel⟩

/-- `cusOK` (part of `wtC`) excludes `FOpen`: its folder leaves the object open, the rules make no
demand (`.userCode`) — and the mirror just forwards the three events -/
example :
    wtC true Examples.FOpent (.struct [.int 1]) = false ∧
      Rules.foldR Examples.FOpent (.struct [.int 1]) = .error .userCode ∧
      (impl {} Examples.FOpent (.struct [.int 1])).res = .ok ∧
      (impl {} Examples.FOpent (.struct [.int 1])).evs.length = 3 :=
  ⟨by decide +kernel, rfl, by decide +kernel, by decide +kernel⟩

/-- `inlineNilF` (part of `goodCF`): an `inline` field of a slice / map type with a custom folder,
holding nil — the reading "no demand" of Rules.lean (`.userCode`; the code inlines nothing,
`isNilValue` in `embeddObjReFold`).  `fold_refuses` promises an error for every refusal but the
rules' own fuel, so `.userCode` must not occur on the universe. -/
example : goodC true [] Examples.TN = false ∧
    Rules.foldR Examples.TN (.struct [.nilSlice]) = .error .userCode :=
  ⟨Examples.notGoodTN, Examples.specN⟩

/- NOT EVALUATED (the kernel cannot run the mirror's tag parser): the exclusion of chan / func /
complex / uintptr kinds for types with custom code (`badKind`) is a simplification — `wtC` types
every value at such a kind, e.g. the value `nil` at `type X chan int` with `FP`'s value-receiver
code: in `inline` position the code inlines nothing (`isNilValue`) where the rules refuse (null is
no object).  Pointer and interface kinds cannot carry methods in Go at all. -/

end SF.FoldProofs.Custom
