/-
  The specification never runs out of its own fuel on good types / typed values that are
  not too deep: `typeOkF` (3 units of fuel per level of the type) and `foldF` (3 per level of
  the value).
-/
import SF.Proofs.FoldNoFuel
import SF.Proofs.CusMain
namespace SF.FoldProofs.Custom
open SF SF.Gotype SF.Gotype.Fold SF.Gotype.Rules

/-- the custom code never reports the specification's own fuel -/
theorem specOf_ne_fuel (xs : List XEv) : specOf xs ≠ .error .fuel := by
  unfold specOf
  split
  · intro h; cases h
  · split <;> (intro h; cases h)

theorem customValue_ne_fuel (n : String) (b : Bool) (v : GoVal) : customValue n b v ≠ .error .fuel := by
  rw [customValue_eq]
  cases customEvents n (recvOf b v) with
  | none => intro h; cases h
  | some xs => exact specOf_ne_fuel xs

theorem customNil_ne_fuel (n : String) : customNil n ≠ .error .fuel := by
  rw [customNil_eq]
  cases customEvents n .nilPtr with
  | none => intro h; cases h
  | some xs => exact specOf_ne_fuel xs

theorem foldF_ptr_nil_ne_fuel {reg : Bool} (m : Nat) (e : GoType) :
    foldF (m + 1) reg (.ptr e) .nilPtr ≠ .error .fuel := by
  rw [foldF_ptr_nil_eq]
  cases customOf reg e with
  | none => intro h; cases h
  | some p =>
    obtain ⟨n, b⟩ := p
    cases b with
    | false => intro h; cases h
    | true => exact customNil_ne_fuel n

/-! ## `typeOkF` -/

def NFA (reg : Bool) (d : Nat) : Prop :=
  ∀ sn T, tdepth T ≤ d → goodC reg sn T = true → ∀ n seen, (∀ x ∈ seen, x ∈ sn) → 3 * d + 3 ≤ n →
    typeOkF n reg seen T ≠ .error .fuel

def NFI (reg : Bool) (d : Nat) : Prop :=
  ∀ sn T, tdepth T ≤ d → goodC reg sn T = true → ∀ n seen, (∀ x ∈ seen, x ∈ sn) → 3 * d + 4 ≤ n →
    inlineOkF n reg seen T ≠ .error .fuel

def NFF (reg : Bool) (d : Nat) : Prop :=
  ∀ sn f, tdepth f.typ ≤ d → goodCF reg sn f = true → ∀ n seen, (∀ x ∈ seen, x ∈ sn) → 3 * d + 5 ≤ n →
    fieldOkF n reg seen f ≠ .error .fuel

theorem goodFs_mem {sn : List String} {fs : List Field} (hfs : goodCFs reg sn fs = true) {f : Field}
    (hf : f ∈ fs) : goodCF reg sn f = true ∧ tdepthF f ≤ tdepthFs fs := by
  induction fs with
  | nil => cases hf
  | cons g fs ih =>
    simp only [goodCFs, Bool.and_eq_true] at hfs
    simp only [tdepthFs]
    rcases List.mem_cons.mp hf with rfl | hf'
    · exact ⟨hfs.1, Nat.le_max_left _ _⟩
    · have := ih hfs.2 hf'
      exact ⟨this.1, Nat.le_trans this.2 (Nat.le_max_right _ _)⟩

theorem nfa_step (reg : Bool) (d : Nat) (ihA : ∀ d' < d, NFA reg d') (ihF : ∀ d' < d, NFF reg d') :
    NFA reg d := by
  intro sn T hT hg n seen hsub hn
  obtain ⟨n', rfl⟩ := exists_succ (k := 0) (by omega : 0 + 1 ≤ n)
  by_cases h1 : isC1 reg T = true
  · rw [typeOkF_c1 n' seen h1]; intro h; cases h
  have h1' : isC1 reg T = false := by simpa using h1
  rcases headKind hg with hu | ⟨nm, m, u, rfl⟩
  · rw [typeOkF_unnamed n' reg seen hu]
    cases T with
    | bool | string | int _ | float32 | float64 | iface => intro h; cases h
    | slice e | array _ e | ptr e =>
      simp only [tdepth] at hT
      exact ihA (d - 1) (by omega) sn e (by omega) (by simpa [goodC] using hg) n' seen hsub (by omega)
    | map k e =>
      simp only [tdepth] at hT
      simp only []
      split
      · exact ihA (d - 1) (by omega) sn e (by omega) (by simp [goodC] at hg; exact hg.2) n' seen hsub (by omega)
      · intro h; cases h
    | struct fs =>
      simp only [tdepth] at hT
      have hfs : goodCFs reg sn fs = true := by simpa [goodC] using hg
      refine forM_ne ?_
      intro f hf
      have hgf := goodFs_mem hfs hf
      exact ihF (d - 1) (by omega) sn f (by rw [← tdepthF_typ]; omega) hgf.1 n' seen hsub (by omega)
    | named a b c => simp [unnamedHead] at hu
    | ref a => simp [unnamedHead] at hu
    | chan e => intro h; cases h
    | other k => intro h; cases h
  · rw [typeOkF_named n' seen hg h1' hsub]
    simp only [tdepth] at hT
    have hgu : goodC reg (nm :: sn) u = true := (good_named_under hg).1
    exact ihA (d - 1) (by omega) (nm :: sn) u (by omega) hgu n' (nm :: seen)
      (by intro x hx; simp only [List.mem_cons] at hx ⊢; rcases hx with rfl | hx
          · exact Or.inl rfl
          · exact Or.inr (hsub x hx)) (by omega)

theorem nfi_step (reg : Bool) (d : Nat) (hA : NFA reg d) (ihI : ∀ d' < d, NFI reg d') : NFI reg d := by
  intro sn T hT hg n seen hsub hn
  obtain ⟨n', rfl⟩ := exists_succ (k := 0) (by omega : 0 + 1 ≤ n)
  by_cases h1 : isC1 reg T = true
  · rw [inlineOkF_c1 n' seen h1]; intro h; cases h
  have h1' : isC1 reg T = false := by simpa using h1
  rw [inlineOkF_good n' seen h1']
  have hgu := good_under hg
  have hdu := tdepth_under hg
  generalize hU : T.under = U at hgu hdu
  cases U with
  | ptr e =>
    simp only [tdepth] at hdu
    exact ihI (d - 1) (by omega) _ e (by omega) (by simpa [goodC] using hgu.1) n' seen
      (fun x hx => snU_sub sn T x (hsub x hx)) (by omega)
  | struct fs => exact hA sn T hT hg n' seen hsub (by omega)
  | map k e => exact hA sn T hT hg n' seen hsub (by omega)
  | _ => intro h; cases h

theorem nff_step (reg : Bool) (d : Nat) (hA : NFA reg d) (hI : NFI reg d) : NFF reg d := by
  intro sn f hT hg n seen hsub hn
  obtain ⟨n', rfl⟩ := exists_succ (k := 0) (by omega : 0 + 1 ≤ n)
  rw [fieldOkF_eq]
  have hpt := goodF_typ hg
  cases fieldKind f with
  | drop => intro h; cases h
  | conflict => intro h; cases h
  | inline => exact hI sn f.typ hT hpt n' seen hsub (by omega)
  | omitEmpty _ => exact hA sn f.typ hT hpt n' seen hsub (by omega)
  | plain _ => exact hA sn f.typ hT hpt n' seen hsub (by omega)

theorem nofuel_all (reg : Bool) : ∀ d, NFA reg d ∧ NFI reg d ∧ NFF reg d := by
  intro d
  induction d using Nat.strongRecOn with
  | _ d ih =>
    have hA := nfa_step reg d (fun d' h => (ih d' h).1) (fun d' h => (ih d' h).2.2)
    have hI := nfi_step reg d hA (fun d' h => (ih d' h).2.1)
    exact ⟨hA, hI, nff_step reg d hA hI⟩

theorem typeOk_nofuel (reg : Bool) {T : GoType} (hg : goodC reg [] T = true) (hd : tdepth T ≤ specDynBound) :
    typeOk reg T ≠ .error .fuel := by
  unfold specDynBound at hd
  exact (nofuel_all reg (tdepth T)).1 [] T (Nat.le_refl _) hg 1000 [] (fun _ hx => by cases hx) (by omega)

/-! ## `foldF` -/

def NVF (reg : Bool) (N : Nat) : Prop :=
  ∀ sn T v, vdepth v < N → goodC reg sn T = true → wtC reg T v = true → dynSmall v = true →
    ∀ m, 3 * vdepth v + 1 ≤ m → foldF m reg T v ≠ .error .fuel

def NVI (reg : Bool) (N : Nat) : Prop :=
  ∀ sn T v, vdepth v < N → goodC reg sn T = true → wtC reg T v = true → dynSmall v = true →
    ∀ m, 3 * vdepth v + 2 ≤ m → inlineF m reg T v ≠ .error .fuel

def NVFld (reg : Bool) (N : Nat) : Prop :=
  ∀ sn f v, vdepth v < N → goodCF reg sn f = true → wtC reg f.typ v = true → dynSmall v = true →
    ∀ m, 3 * vdepth v + 3 ≤ m → fieldF m reg f v ≠ .error .fuel

/-- the fields of a struct value, one by one -/
theorem zip_fields {fs : List Field} {vs : List GoVal} (hw : wtCF reg fs vs = true) (hs : dynSmallL vs = true)
    {fx : Field × GoVal} (h : fx ∈ fs.zip vs) :
    wtC reg fx.1.typ fx.2 = true ∧ dynSmall fx.2 = true ∧ vdepth fx.2 ≤ vdepthL vs ∧ fx.1 ∈ fs := by
  induction fs generalizing vs with
  | nil => simp at h
  | cons f fs ih =>
    cases vs with
    | nil => simp at h
    | cons v vs =>
      simp only [wtCF, Bool.and_eq_true] at hw
      simp only [dynSmallL, Bool.and_eq_true] at hs
      simp only [List.zip_cons_cons, List.mem_cons] at h
      simp only [vdepthL]
      rcases h with rfl | h
      · exact ⟨hw.1.1, hs.1, Nat.le_max_left _ _, by simp⟩
      · obtain ⟨a, b, c, d⟩ := ih hw.2 hs.2 h
        exact ⟨a, b, Nat.le_trans c (Nat.le_max_right _ _), by simp [d]⟩

theorem nvf_step (reg : Bool) (N : Nat) (hF : NVF reg N) (hFld : NVFld reg N) : NVF reg (N + 1) := by
  intro sn T v hd hg hw hs m hm
  obtain ⟨m', rfl⟩ := exists_succ (k := 0) (by omega : 0 + 1 ≤ m)
  by_cases h1 : isC1 reg T = true
  · obtain ⟨p, hcp⟩ := Option.isSome_iff_exists.mp h1
    obtain ⟨n', b⟩ := p
    rw [foldF_c1 m' hcp]
    exact customValue_ne_fuel n' b v
  have h1' : isC1 reg T = false := by simpa using h1
  rw [foldF_under m' hg h1']
  have hgu := good_under hg
  generalize hU : T.under = U at hgu
  cases U with
  | bool | string | int _ | float32 | float64 | chan _ | other _ =>
    cases v <;> intro h <;> cases h
  | named a b c => simp [unnamedHead] at hgu
  | ref a => simp [unnamedHead] at hgu
  | slice e =>
    have he : goodC reg (snU sn T) e = true := by simpa [goodC] using hgu.1
    rcases wt_slice_inv hU hw with rfl | ⟨xs, rfl, hwl⟩
    · intro h; cases h
    · rw [foldF_slice]
      refine map_ne (mapM_ne ?_)
      intro x hx
      have := vdepthL_mem hx
      rw [vdepth_slice] at hd hm
      exact hF _ e x (by omega) he (wtL_mem hwl hx) (dynSmallL_mem (by simpa [dynSmall] using hs) hx) m' (by omega)
  | array n e =>
    have he : goodC reg (snU sn T) e = true := by simpa [goodC] using hgu.1
    obtain ⟨xs, rfl, hwl⟩ := wt_array_inv hU hw
    rw [foldF_array]
    refine map_ne (mapM_ne ?_)
    intro x hx
    have := vdepthL_mem hx
    rw [vdepth_array] at hd hm
    exact hF _ e x (by omega) he (wtL_mem hwl hx) (dynSmallL_mem (by simpa [dynSmall] using hs) hx) m' (by omega)
  | map k e =>
    have he : goodC reg (snU sn T) e = true := by
      have : goodC reg (snU sn T) k = true ∧ goodC reg (snU sn T) e = true := by simpa [goodC] using hgu.1
      exact this.2
    rcases wt_map_inv hU hw with rfl | ⟨ms, rfl, hwp, _⟩
    · rw [foldF_map_nil]; split <;> (intro h; cases h)
    · rw [foldF_map]
      split
      · intro h; cases h
      · refine map_ne (mapM_ne ?_)
        intro kx hkx
        unfold entryF
        cases hkk : keyOf kx.1 with
        | error err =>
          have : err = .nonStringKey := keyOf_err hkk
          subst this
          intro h; cases h
        | ok kb =>
          simp only []
          have := vdepthP_mem hkx
          rw [vdepth_map] at hd hm
          have h1 := hF _ e kx.2 (by omega) he (wtP_mem hwp hkx)
            (dynSmallP_mem (by simpa [dynSmall] using hs) hkx) m' (by omega)
          cases hfx : foldF m' reg e kx.2 with
          | error err => intro h; simp only [Except.error.injEq] at h; subst h; exact h1 hfx
          | ok r => intro h; cases h
  | ptr e =>
    have he : goodC reg (snU sn T) e = true := by simpa [goodC] using hgu.1
    rcases wt_ptr_inv hU hw with rfl | ⟨x, rfl, hx⟩
    · exact foldF_ptr_nil_ne_fuel m' e
    · rw [foldF_ptr]
      rw [vdepth_ptr] at hd hm
      exact hF _ e x (by omega) he hx (by simpa [dynSmall] using hs) m' (by omega)
  | iface =>
    rcases wt_iface_inv hU hw with rfl | ⟨dt, dv, rfl, hpd, hdd, hwd⟩
    · intro h; cases h
    · rw [foldF_iface]
      simp only [dynSmall, Bool.and_eq_true, decide_eq_true_eq] at hs
      cases htok : typeOk reg dt with
      | error err =>
        simp only []
        intro h
        simp only [Except.error.injEq] at h
        subst h
        exact typeOk_nofuel reg hpd hs.1 htok
      | ok u =>
        simp only []
        rw [vdepth_iface] at hd hm
        exact hF [] dt dv (by omega) hpd hwd hs.2 m' (by omega)
  | struct fs =>
    have hfs : goodCFs reg (snU sn T) fs = true := by simpa [goodC] using hgu.1
    obtain ⟨vs, rfl, hwf⟩ := wt_struct_inv hU hw
    rw [foldF_struct]
    refine map_ne (mapM_ne ?_)
    intro fx hfx
    obtain ⟨h1, h2, h3, h4⟩ := zip_fields hwf (by simpa [dynSmall] using hs) hfx
    rw [vdepth_struct] at hd hm
    exact hFld _ fx.1 fx.2 (by omega) (goodFs_mem hfs h4).1 h1 h2 m' (by omega)

theorem nvi_step (reg : Bool) (N : Nat) (hF1 : NVF reg (N + 1)) (hI : NVI reg N) (hFld : NVFld reg N) :
    NVI reg (N + 1) := by
  intro sn T v hd hg hw hs m hm
  obtain ⟨m', rfl⟩ := exists_succ (k := 0) (by omega : 0 + 1 ≤ m)
  by_cases h1 : isC1 reg T = true
  · obtain ⟨p, hcp⟩ := Option.isSome_iff_exists.mp h1
    obtain ⟨n', b⟩ := p
    rw [inlineF_c1 m' hcp]
    have := customValue_ne_fuel n' b v
    cases v <;> first | (intro h; cases h; done) | exact asObject_ne this
  have h1' : isC1 reg T = false := by simpa using h1
  rw [inlineF_under m' hg h1']
  have hgu := good_under hg
  have hfold : foldF m' reg T.under v ≠ .error .fuel := by
    have := hF1 _ T v hd hg hw hs m' (by omega)
    rw [foldF_under' m' hg h1'] at this
    exact this
  generalize hU : T.under = U at hgu hfold
  cases U with
  | named a b c => simp [unnamedHead] at hgu
  | ref a => simp [unnamedHead] at hgu
  | ptr e =>
    have he : goodC reg (snU sn T) e = true := by simpa [goodC] using hgu.1
    rcases wt_ptr_inv hU hw with rfl | ⟨x, rfl, hx⟩
    · intro h; cases h
    · have : inlineF (m' + 1) reg (.ptr e) (.ptr x) = inlineF m' reg e x := rfl
      rw [this]
      rw [vdepth_ptr] at hd hm
      exact hI _ e x (by omega) he hx (by simpa [dynSmall] using hs) m' (by omega)
  | struct fs =>
    have hfs : goodCFs reg (snU sn T) fs = true := by simpa [goodC] using hgu.1
    obtain ⟨vs, rfl, hwf⟩ := wt_struct_inv hU hw
    rw [inlineF_struct]
    refine map_ne (mapM_ne ?_)
    intro fx hfx
    obtain ⟨h1, h2, h3, h4⟩ := zip_fields hwf (by simpa [dynSmall] using hs) hfx
    rw [vdepth_struct] at hd hm
    exact hFld _ fx.1 fx.2 (by omega) (goodFs_mem hfs h4).1 h1 h2 m' (by omega)
  | map k e =>
    have : inlineF (m' + 1) reg (.map k e) v =
        match foldF m' reg (.map k e) v with
        | .ok (.obj segs) => .ok segs
        | .ok _ => .error .inlineNeedsObject
        | .error e => .error e := rfl
    rw [this]
    exact asObject_ne hfold
  | iface =>
    rcases wt_iface_inv hU hw with rfl | ⟨dt, dv, rfl, _, _, _⟩
    · intro h; cases h
    · have : inlineF (m' + 1) reg .iface (.iface dt dv) =
          match foldF m' reg .iface (.iface dt dv) with
          | .ok (.obj segs) => .ok segs
          | .ok _ => .error .inlineNeedsObject
          | .error e => .error e := rfl
      rw [this]
      exact asObject_ne hfold
  | _ => cases v <;> intro h <;> cases h

theorem nvfld_step (reg : Bool) (N : Nat) (hF : NVF reg N) (hI : NVI reg N) : NVFld reg N := by
  intro sn f v hd hg hw hs m hm
  obtain ⟨m', rfl⟩ := exists_succ (k := 0) (by omega : 0 + 1 ≤ m)
  rw [fieldF_eq]
  have hpt := goodF_typ hg
  have hfold := hF sn f.typ v hd hpt hw hs m' (by omega)
  cases fieldKind f with
  | drop => intro h; cases h
  | conflict => intro h; cases h
  | inline => exact hI sn f.typ v hd hpt hw hs m' (by omega)
  | omitEmpty name =>
    simp only []
    split
    · intro h; cases h
    · exact map_ne hfold
  | plain name => exact map_ne hfold

theorem nofuel_val_all (reg : Bool) : ∀ N, NVF reg N ∧ NVI reg N ∧ NVFld reg N := by
  intro N
  induction N with
  | zero =>
    refine ⟨?_, ?_, ?_⟩
    · intro sn T v hd; omega
    · intro sn T v hd; omega
    · intro sn f v hd; omega
  | succ N ih =>
    obtain ⟨hF, hI, hFld⟩ := ih
    have hF1 := nvf_step reg N hF hFld
    have hI1 := nvi_step reg N hF1 hI hFld
    exact ⟨hF1, hI1, nvfld_step reg (N + 1) hF1 hI1⟩

/-- the specification does not run out of fuel on a typed value whose depth it has fuel for -/
theorem foldF_nofuel (reg : Bool) {sn : List String} {T : GoType} {v : GoVal} (hg : goodC reg sn T = true)
    (hw : wtC reg T v = true) (hs : dynSmall v = true) {m : Nat} (hm : 3 * vdepth v + 1 ≤ m) :
    foldF m reg T v ≠ .error .fuel :=
  (nofuel_val_all reg (vdepth v + 1)).1 sn T v (Nat.lt_succ_self _) hg hw hs m hm

end SF.FoldProofs.Custom
