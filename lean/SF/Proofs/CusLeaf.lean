/-
  The events of the menagerie's custom folders (`customEvents`), case by case: what rule 2 makes
  of them (`specOf`: the value they build), what they look like to a healthy user visitor, and
  what an `ExpectObjVisitor` (inline fields, `embeddObjReFold`) forwards of them (`thru`).
-/
import SF.Proofs.FoldSem
import SF.Proofs.Tree
import SF.Proofs.CusUniv
namespace SF.FoldProofs.Custom
open SF SF.Gotype SF.Gotype.Fold SF.Gotype.Rules

/-! ## rule 2 on a list of events -/

/-- the value rule 2 reads off the events a custom folder emitted -/
def specOf (xs : List XEv) : Except RuleErr RVal :=
  if !WF1 (expandAll xs) then .error .userCode else
  match build (expandAll xs) with
  | some val => .ok (ofValF 100000 val)
  | none => .error .userCode

theorem customValue_eq (n : String) (byPtr : Bool) (v : GoVal) :
    customValue n byPtr v =
      match customEvents n (recvOf byPtr v) with
      | none => .error .userCode
      | some xs => specOf xs := by
  unfold customValue recvOf specOf
  cases customEvents n (if byPtr = true then GoVal.ptr v else v) <;> rfl

theorem customNil_eq (n : String) :
    customNil n =
      match customEvents n .nilPtr with
      | none => .error .userCode
      | some xs => specOf xs := by
  unfold customNil specOf
  cases customEvents n .nilPtr <;> rfl

theorem customValue_ok {n : String} {byPtr : Bool} {v : GoVal} {r : RVal} (h : customValue n byPtr v = .ok r) :
    ∃ xs, customEvents n (recvOf byPtr v) = some xs ∧ specOf xs = .ok r := by
  rw [customValue_eq] at h
  cases hx : customEvents n (recvOf byPtr v) with
  | none => simp [hx] at h
  | some xs => simp only [hx] at h; exact ⟨xs, rfl, h⟩

theorem customNil_ok {n : String} {r : RVal} (h : customNil n = .ok r) :
    ∃ xs, customEvents n .nilPtr = some xs ∧ specOf xs = .ok r := by
  rw [customNil_eq] at h
  cases hx : customEvents n .nilPtr with
  | none => simp [hx] at h
  | some xs => simp only [hx] at h; exact ⟨xs, rfl, h⟩

theorem nilNull_spec {n : String} (h : nilNull n = true) : customNil n = .ok .null := by
  unfold nilNull at h
  rw [customNil_eq]
  split at h
  · rename_i heq
    rw [heq]
    rfl
  · cases h

/-! ## events the order oracle leaves alone -/

/-- no typed map (the only events the order oracle rewrites) -/
def quietX (x : XEv) : Bool := (objKeys x).isNone

theorem reorder_quiet (s : St) {x : XEv} (h : quietX x = true) : reorderByHint s x = x := by
  cases x <;> first | (simp [reorderByHint]; done) | (simp [quietX, objKeys] at h)

/-- a healthy user visitor takes a list of quiet events as they are -/
theorem seqM_emit_user {xs : List XEv} (hq : ∀ x ∈ xs, quietX x = true) :
    ∀ s, Inv s → ∃ s', seqM (fun s x => emit s .user x) s xs = (s', .ok) ∧ Adv s s' xs := by
  induction xs with
  | nil => intro s hs; exact ⟨s, rfl, Adv.refl s hs⟩
  | cons x xs ih =>
    intro s hs
    obtain ⟨s1, h1, a1⟩ := emit_ok s x hs
    rw [reorder_quiet s (hq x (by simp))] at a1
    obtain ⟨s2, h2, a2⟩ := ih (fun y hy => hq y (by simp [hy])) s1 a1.2
    exact ⟨s2, by simp only [seqM, h1, h2], by simpa using a1.trans a2⟩

/-! ## through an `ExpectObjVisitor` -/

/-- one basic event arriving at an `ExpectObjVisitor` at depth `d`: what it forwards, the depth
after; or the error it returns (`check`) -/
def thruEv (d : Int) (e : Ev) : Except Err (List XEv × Int) :=
  match e with
  | .objStart _ _ => if d + 1 == 1 then .ok ([], d + 1) else .ok ([.ev e], d + 1)
  | .objEnd => if d - 1 == 0 then .ok ([], d - 1) else .ok ([.ev e], d - 1)
  | e => if d == 0 then .error .inlineNoObject else .ok ([.ev e], d)

def thruEvs (d : Int) : List Ev → Except Err (List XEv × Int)
  | [] => .ok ([], d)
  | e :: es =>
    match thruEv d e with
    | .error err => .error err
    | .ok (ys, d') =>
      match thruEvs d' es with
      | .error err => .error err
      | .ok (zs, d'') => .ok (ys ++ zs, d'')

/-- one extended event (typed arrays are expanded by array.go; typed maps do not occur) -/
def thruX (d : Int) (x : XEv) : Except Err (List XEv × Int) :=
  match x with
  | .ev e => thruEv d e
  | .strRef s => if d == 0 then .error .inlineNoObject else .ok ([.strRef s], d)
  | .keyRef s => if d == 0 then .error .inlineNoObject else .ok ([.keyRef s], d)
  | x => thruEvs d x.expand

def thru (d : Int) : List XEv → Except Err (List XEv × Int)
  | [] => .ok ([], d)
  | x :: xs =>
    match thruX d x with
    | .error err => .error err
    | .ok (ys, d') =>
      match thru d' xs with
      | .error err => .error err
      | .ok (zs, d'') => .ok (ys ++ zs, d'')

/-- the `ExpectObjVisitor` `id` forwards to the user's visitor and is at depth `d` -/
def ExpAt (s : St) (id : VsId) (d : Int) : Prop := s.getVs id = { active := some .user, depth := d }

theorem getVs_setVs (s : St) (id : VsId) (v : Vs) : (s.setVs id v).getVs id = v := by
  simp [St.getVs, St.setVs]

/-- the outcome of delivering events through the `ExpectObjVisitor` `id` -/
def ThruOut (s : St) (id : VsId) (out : St × Res) (res : Except Err (List XEv × Int)) : Prop :=
  match res with
  | .ok (ys, d') => ∃ s', out = (s', .ok) ∧ Adv s s' ys ∧ ExpAt s' id d'
  | .error err => ∃ s', out = (s', .err err)

theorem deliver_ev (s : St) (e : Ev) (h : Inv s) :
    ∃ s', deliver s (.ev e) = (s', .ok) ∧ Adv s s' [.ev e] ∧ s'.vss = s.vss := by
  refine ⟨{ s with evs := .ev e :: s.evs, n := s.n + 1, hint := s.hint.drop 1 }, ?_, ⟨?_, h.1, hintOK_drop 1 h.2⟩, rfl⟩
  · simp [deliver, h.1, reorder_ev]
  · simp

theorem deliver_quiet (s : St) {x : XEv} (hq : quietX x = true) (h : Inv s) :
    ∃ s', deliver s x = (s', .ok) ∧ Adv s s' [x] ∧ s'.vss = s.vss := by
  refine ⟨{ s with evs := x :: s.evs, n := s.n + 1, hint := s.hint.drop 1 }, ?_, ⟨?_, h.1, hintOK_drop 1 h.2⟩, rfl⟩
  · simp [deliver, h.1, reorder_quiet s hq]
  · simp

theorem ExpAt_of_vss {s s' : St} {id : VsId} {d : Int} (h : ExpAt s id d) (hv : s'.vss = s.vss) : ExpAt s' id d := by
  unfold ExpAt St.getVs at h ⊢
  rw [hv]; exact h

theorem Adv_setVs {s : St} (hs : Inv s) (id : VsId) (v : Vs) : Adv s (s.setVs id v) [] :=
  ⟨by simp [St.setVs], hs⟩

theorem Adv_of_setVs {s s' : St} {id : VsId} {v : Vs} {xs : List XEv} (h : Adv (s.setVs id v) s' xs) :
    Adv s s' xs := ⟨by rw [h.1]; simp [St.setVs], h.2⟩

theorem visit_user (f : Nat) (s : St) (x : XEv) : visit (f + 1) s .user x = deliver s x := by
  rw [visit]

/-- one basic event through the `ExpectObjVisitor` -/
theorem visit_exp_ev (f : Nat) {s : St} {id : VsId} {d : Int} (e : Ev) (hs : Inv s) (hx : ExpAt s id d) :
    ThruOut s id (visit (f + 2) s (.exp id) (.ev e)) (thruEv d e) := by
  unfold ExpAt at hx
  have scalar : (∀ l bt, e ≠ .objStart l bt) → e ≠ .objEnd →
      visit (f + 2) s (.exp id) (.ev e) =
        if d == 0 then (s, .err .inlineNoObject) else deliver s (.ev e) := by
    intro h1 h2
    rw [visit]
    · simp only [hx, visit_user]
    · intro l bt h; cases h; exact h1 l bt rfl
    · intro h; cases h; exact h2 rfl
  have scalarOut : (∀ l bt, e ≠ .objStart l bt) → e ≠ .objEnd →
      thruEv d e = (if d == 0 then .error .inlineNoObject else .ok ([.ev e], d)) →
      ThruOut s id (visit (f + 2) s (.exp id) (.ev e)) (thruEv d e) := by
    intro h1 h2 h3
    rw [scalar h1 h2, h3]
    by_cases hd : (d == 0) = true
    · simp only [hd, if_true]
      exact ⟨s, rfl⟩
    · simp only [hd, Bool.false_eq_true, if_false]
      obtain ⟨s', h1, h2, h3⟩ := deliver_ev s e hs
      exact ⟨s', h1, h2, ExpAt_of_vss hx h3⟩
  cases e with
  | objStart l bt =>
    rw [visit]
    simp only [hx, thruEv]
    by_cases hd : (d + 1 == 1) = true
    · simp only [hd, if_true]
      exact ⟨_, rfl, Adv_setVs hs _ _, getVs_setVs _ _ _⟩
    · simp only [hd, Bool.false_eq_true, if_false, visit_user]
      obtain ⟨s', h1, h2, h3⟩ := deliver_ev (s.setVs id { active := some .user, depth := d + 1 }) (.objStart l bt) hs
      exact ⟨s', h1, Adv_of_setVs h2, ExpAt_of_vss (getVs_setVs _ _ _) h3⟩
  | objEnd =>
    rw [visit]
    simp only [hx, thruEv]
    by_cases hd : (d - 1 == 0) = true
    · simp only [hd, if_true]
      exact ⟨_, rfl, Adv_setVs hs _ _, getVs_setVs _ _ _⟩
    · simp only [hd, Bool.false_eq_true, if_false, visit_user]
      obtain ⟨s', h1, h2, h3⟩ := deliver_ev (s.setVs id { active := some .user, depth := d - 1 }) .objEnd hs
      exact ⟨s', h1, Adv_of_setVs h2, ExpAt_of_vss (getVs_setVs _ _ _) h3⟩
  | null => exact scalarOut (by intro _ _ h; cases h) (by intro h; cases h) rfl
  | bool b => exact scalarOut (by intro _ _ h; cases h) (by intro h; cases h) rfl
  | str b => exact scalarOut (by intro _ _ h; cases h) (by intro h; cases h) rfl
  | key b => exact scalarOut (by intro _ _ h; cases h) (by intro h; cases h) rfl
  | num k v => exact scalarOut (by intro _ _ h; cases h) (by intro h; cases h) rfl
  | f32 b => exact scalarOut (by intro _ _ h; cases h) (by intro h; cases h) rfl
  | f64 b => exact scalarOut (by intro _ _ h; cases h) (by intro h; cases h) rfl
  | arrStart l bt => exact scalarOut (by intro _ _ h; cases h) (by intro h; cases h) rfl
  | arrEnd => exact scalarOut (by intro _ _ h; cases h) (by intro h; cases h) rfl

/-- composition: a step, then a sequence -/
theorem ThruOut_seq {α : Type} (step : St → α → St × Res) (sim : Int → α → Except Err (List XEv × Int))
    (sims : Int → List α → Except Err (List XEv × Int))
    (hnil : ∀ d, sims d [] = .ok ([], d))
    (hcons : ∀ d x xs, sims d (x :: xs) =
      match sim d x with
      | .error err => .error err
      | .ok (ys, d') =>
        match sims d' xs with
        | .error err => .error err
        | .ok (zs, d'') => .ok (ys ++ zs, d''))
    (id : VsId) (xs : List α)
    (hstep : ∀ x ∈ xs, ∀ s d, Inv s → ExpAt s id d → ThruOut s id (step s x) (sim d x)) :
    ∀ s d, Inv s → ExpAt s id d → ThruOut s id (seqM step s xs) (sims d xs) := by
  induction xs with
  | nil =>
    intro s d hs hx
    rw [hnil]
    exact ⟨s, rfl, Adv.refl s hs, hx⟩
  | cons x xs ih =>
    intro s d hs hx
    rw [hcons]
    have h1 := hstep x (by simp) s d hs hx
    cases hsim : sim d x with
    | error err =>
      rw [hsim] at h1
      obtain ⟨s', h1⟩ := h1
      exact ⟨s', by simp only [seqM, h1]⟩
    | ok p =>
      obtain ⟨ys, d'⟩ := p
      rw [hsim] at h1
      obtain ⟨s1, h1, a1, x1⟩ := h1
      have h2 := ih (fun y hy => hstep y (by simp [hy])) s1 d' a1.2 x1
      simp only []
      cases hsims : sims d' xs with
      | error err =>
        rw [hsims] at h2
        obtain ⟨s', h2⟩ := h2
        exact ⟨s', by simp only [seqM, h1, h2]⟩
      | ok q =>
        obtain ⟨zs, d''⟩ := q
        rw [hsims] at h2
        obtain ⟨s2, h2, a2, x2⟩ := h2
        exact ⟨s2, by simp only [seqM, h1, h2], a1.trans a2, x2⟩

theorem visit_exp_evs (f : Nat) (id : VsId) (es : List Ev) :
    ∀ s d, Inv s → ExpAt s id d →
      ThruOut s id (seqM (fun s e => visit (f + 2) s (.exp id) (.ev e)) s es) (thruEvs d es) :=
  ThruOut_seq _ thruEv thruEvs (fun _ => rfl) (fun _ _ _ => rfl) id es
    (fun e _ _ _ hs hx => visit_exp_ev f e hs hx)

/-- no typed map -/
theorem objMembers_quiet {x : XEv} (h : quietX x = true) : objMembers x = none := by
  cases x <;> first | rfl | (simp [quietX, objKeys] at h)

/-- one extended event through the `ExpectObjVisitor` -/
theorem visit_exp_x (f : Nat) {s : St} {id : VsId} {d : Int} {x : XEv} (hq : quietX x = true) (hs : Inv s)
    (hx : ExpAt s id d) : ThruOut s id (visit (f + 3) s (.exp id) x) (thruX d x) := by
  have href : ∀ y : XEv, quietX y = true → (∀ e, y ≠ .ev e) →
      visit (f + 3) s (.exp id) y = (if d == 0 then (s, .err .inlineNoObject) else deliver s y) →
      ThruOut s id (visit (f + 3) s (.exp id) y) (if d == 0 then .error .inlineNoObject else .ok ([y], d)) := by
    intro y hy _ hv
    rw [hv]
    by_cases hd : (d == 0) = true
    · simp only [hd, if_true]
      exact ⟨s, rfl⟩
    · simp only [hd, Bool.false_eq_true, if_false]
      obtain ⟨s', h1, h2, h3⟩ := deliver_quiet s hy hs
      exact ⟨s', h1, h2, ExpAt_of_vss hx h3⟩
  have harr : ∀ y : XEv, quietX y = true → (∀ e, y ≠ .ev e) → (∀ b, y ≠ .strRef b) → (∀ b, y ≠ .keyRef b) →
      thruX d y = thruEvs d y.expand →
      ThruOut s id (visit (f + 3) s (.exp id) y) (thruX d y) := by
    intro y hy h1 h2 h3 h4
    have : visit (f + 3) s (.exp id) y =
        seqM (fun s e => visit (f + 2) s (.exp id) (.ev e)) s y.expand := by
      rw [visit]
      · simp only [objMembers_quiet hy]
      · intro l bt h; exact h1 _ h
      · intro h; exact h1 _ h
      · intro e h; exact h1 _ h
      · intro b h; exact h2 _ h
      · intro b h; exact h3 _ h
    rw [this, h4]
    exact visit_exp_evs f id y.expand s d hs hx
  cases x with
  | ev e => exact visit_exp_ev (f + 1) e hs hx
  | strRef b =>
    refine href (.strRef b) hq (by intro e h; cases h) ?_
    unfold ExpAt at hx
    rw [visit]
    simp only [hx, visit_user]
  | keyRef b =>
    refine href (.keyRef b) hq (by intro e h; cases h) ?_
    unfold ExpAt at hx
    rw [visit]
    simp only [hx, visit_user]
  | boolArr xs => exact harr _ hq (by intro e h; cases h) (by intro e h; cases h) (by intro e h; cases h) rfl
  | strArr xs => exact harr _ hq (by intro e h; cases h) (by intro e h; cases h) (by intro e h; cases h) rfl
  | numArr k xs => exact harr _ hq (by intro e h; cases h) (by intro e h; cases h) (by intro e h; cases h) rfl
  | f32Arr xs => exact harr _ hq (by intro e h; cases h) (by intro e h; cases h) (by intro e h; cases h) rfl
  | f64Arr xs => exact harr _ hq (by intro e h; cases h) (by intro e h; cases h) (by intro e h; cases h) rfl
  | boolObj ms => simp [quietX, objKeys] at hq
  | strObj ms => simp [quietX, objKeys] at hq
  | numObj k ms => simp [quietX, objKeys] at hq
  | f32Obj ms => simp [quietX, objKeys] at hq
  | f64Obj ms => simp [quietX, objKeys] at hq

/-- a list of quiet events through the `ExpectObjVisitor` -/
theorem emit_exp_seq (id : VsId) {xs : List XEv} (hq : ∀ x ∈ xs, quietX x = true) :
    ∀ s d, Inv s → ExpAt s id d →
      ThruOut s id (seqM (fun s x => emit s (.exp id) x) s xs) (thru d xs) :=
  ThruOut_seq _ thruX thru (fun _ => rfl) (fun _ _ _ => rfl) id xs
    (fun x hx _ _ hs hxa => visit_exp_x (visitFuel - 3) (hq x hx) hs hxa)

/-! ## event trees -/

theorem Enc_tree (t : ETree) : Enc t.events t.value := by
  intro st ha
  have ha' : st.accepts = true := ha
  have := run_tree t st [] ha'
  simp only [List.append_nil, BState.run] at this
  rw [this, BState.put_eq ha']

theorem EncMems_tree (ms : List (Bytes × ETree)) : EncMems (ETree.eventsMems ms) (ETree.valueMems ms) := by
  intro st acc rest hs
  have := run_mems ms st acc rest [] hs
  simp only [List.append_nil, BState.run] at this
  exact this

/-- the events are those of a well-formed tree: rule 2 reads its value off them -/
theorem specOf_tree {xs : List XEv} {r : RVal} (t : ETree) (hev : expandAll xs = t.events) (hwf : t.wf = true)
    (hr : specOf xs = .ok r) : r = ofValF 100000 t.value ∧ Enc (expandAll xs) t.value := by
  unfold specOf at hr
  rw [hev, wf1_events t hwf, build_events] at hr
  simp only [Bool.not_true, Bool.false_eq_true, if_false, Except.ok.injEq] at hr
  exact ⟨hr.symm, by rw [hev]; exact Enc_tree t⟩

theorem specOf_tree_ok {xs : List XEv} (t : ETree) (hev : expandAll xs = t.events) (hwf : t.wf = true) :
    specOf xs = .ok (ofValF 100000 t.value) := by
  unfold specOf
  rw [hev, wf1_events t hwf, build_events]
  rfl

/-! ## the menagerie's folders, case by case -/

/-- what the proofs need to know about the events `xs` of one call of a custom folder, given that
rule 2 reads the value `r` off them -/
structure Leaf (xs : List XEv) (r : RVal) : Prop where
  /-- the order oracle leaves them alone -/
  quiet : ∀ x ∈ xs, quietX x = true
  /-- they describe one value, matching `r` -/
  enc : ∃ g, Enc (expandAll xs) g ∧ Rel r g
  /-- in `inline` position: an object, whose members the `ExpectObjVisitor` forwards — or no
  object, and the `ExpectObjVisitor` returns an error -/
  inl : (∃ segs ys ms, r = .obj segs ∧ thru 0 xs = .ok (ys, 0) ∧ EncMems (expandAll ys) ms ∧ RelSegs segs ms) ∨
        ((∀ segs, r ≠ .obj segs) ∧ ∃ e, thru 0 xs = .error e)

theorem leaf_null {r : RVal} (hr : specOf [.ev .null] = .ok r) : Leaf [.ev .null] r := by
  have : specOf [.ev .null] = .ok .null := rfl
  rw [this] at hr
  cases hr
  exact ⟨by intro x hx; simp at hx; subst hx; rfl, ⟨.null, Enc_null, by simp [Rel]⟩,
    Or.inr ⟨(by intro segs h; cases h), _, rfl⟩⟩

theorem leaf_str (b : Bytes) {r : RVal} (hr : specOf [.ev (.str b)] = .ok r) : Leaf [.ev (.str b)] r := by
  have : specOf [.ev (.str b)] = .ok (.str b) := rfl
  rw [this] at hr
  cases hr
  exact ⟨by intro x hx; simp at hx; subst hx; rfl, ⟨.str b, Enc_str b, by simp [Rel]⟩,
    Or.inr ⟨(by intro segs h; cases h), _, rfl⟩⟩

theorem leaf_num (k : NumKind) (i : Int) {r : RVal} (hr : specOf [.ev (.num k i)] = .ok r) :
    Leaf [.ev (.num k i)] r := by
  have : specOf [.ev (.num k i)] = .ok (.int i) := by
    cases k <;> rfl
  rw [this] at hr
  cases hr
  exact ⟨by intro x hx; simp at hx; subst hx; rfl, ⟨.int i, Enc_num k i, by simp [Rel]⟩,
    Or.inr ⟨(by intro segs h; cases h), _, rfl⟩⟩

/-- one ordered member per key -/
theorem RelSegs_cons_member {k : Bytes} {w : RVal} {g : Val} {segs : List Seg} {ms : List (Bytes × Val)}
    (h : Rel w g) (ht : RelSegs segs ms) : RelSegs ((false, [(k, w)]) :: segs) ((k, g) :: ms) := by
  have := RelSegs_append (RelSegs_member (k := k) h) ht
  simpa using this

set_option maxRecDepth 2000 in
theorem leaf_FV (a : Int) (s : Bytes) {r : RVal}
    (hr : specOf [.ev (.objStart 3 BT.any), .ev (.key (strBytes "fa")), .ev (.num .int a),
          .keyRef (strBytes "fs"), .strRef s, .ev (.key (strBytes "fl")), .numArr .int [a, 7], .ev .objEnd] = .ok r) :
    Leaf [.ev (.objStart 3 BT.any), .ev (.key (strBytes "fa")), .ev (.num .int a),
          .keyRef (strBytes "fs"), .strRef s, .ev (.key (strBytes "fl")), .numArr .int [a, 7], .ev .objEnd] r := by
  let t : ETree := .obj 3 BT.any [(strBytes "fa", .num .int a), (strBytes "fs", .str s),
    (strBytes "fl", .arr 2 NumKind.int.baseType [.num .int a, .num .int 7])]
  obtain ⟨rfl, henc⟩ := specOf_tree t rfl rfl hr
  have hval : ofValF 100000 t.value = .obj [(false, [(strBytes "fa", .int a)]), (false, [(strBytes "fs", .str s)]),
      (false, [(strBytes "fl", .arr [.int a, .int 7])])] := rfl
  have hrel : RelSegs [(false, [(strBytes "fa", RVal.int a)]), (false, [(strBytes "fs", .str s)]),
      (false, [(strBytes "fl", .arr [.int a, .int 7])])]
      [(strBytes "fa", Val.int a), (strBytes "fs", .str s), (strBytes "fl", .arr [.int a, .int 7])] := by
    refine RelSegs_cons_member (by simp [Rel]) (RelSegs_cons_member (by simp [Rel]) (RelSegs_cons_member ?_ RelSegs_nil))
    simp [Rel, RelList]
  refine ⟨?_, ⟨t.value, henc, ?_⟩, Or.inl ⟨_, [.ev (.key (strBytes "fa")), .ev (.num .int a),
          .keyRef (strBytes "fs"), .strRef s, .ev (.key (strBytes "fl")),
          .ev (.arrStart 2 NumKind.int.baseType), .ev (.num .int a), .ev (.num .int 7), .ev .arrEnd], _, hval, rfl, ?_, hrel⟩⟩
  · intro x hx
    simp only [List.mem_cons, List.not_mem_nil, or_false] at hx
    rcases hx with rfl | rfl | rfl | rfl | rfl | rfl | rfl | rfl <;> rfl
  · rw [hval]
    simp only [Rel]
    exact ⟨_, rfl, hrel⟩
  · exact EncMems_tree [(strBytes "fa", .num .int a), (strBytes "fs", .str s),
      (strBytes "fl", .arr 2 NumKind.int.baseType [.num .int a, .num .int 7])]

set_option maxRecDepth 2000 in
theorem leaf_FP (a : Int) {r : RVal}
    (hr : specOf [.ev (.objStart (-1) BT.any), .ev (.key (strBytes "pa")), .ev (.num .i64 a), .ev (.key (strBytes "po")),
          .ev (.objStart 1 BT.any), .ev (.key (strBytes "x")), .ev (.bool true), .ev .objEnd, .ev .objEnd] = .ok r) :
    Leaf [.ev (.objStart (-1) BT.any), .ev (.key (strBytes "pa")), .ev (.num .i64 a), .ev (.key (strBytes "po")),
          .ev (.objStart 1 BT.any), .ev (.key (strBytes "x")), .ev (.bool true), .ev .objEnd, .ev .objEnd] r := by
  let t : ETree := .obj (-1) BT.any [(strBytes "pa", .num .i64 a),
    (strBytes "po", .obj 1 BT.any [(strBytes "x", .bool true)])]
  obtain ⟨rfl, henc⟩ := specOf_tree t rfl rfl hr
  have hval : ofValF 100000 t.value = .obj [(false, [(strBytes "pa", .int a)]),
      (false, [(strBytes "po", .obj [(false, [(strBytes "x", .bool true)])])])] := rfl
  have hrel : RelSegs [(false, [(strBytes "pa", RVal.int a)]),
      (false, [(strBytes "po", .obj [(false, [(strBytes "x", .bool true)])])])]
      [(strBytes "pa", Val.int a), (strBytes "po", .obj [(strBytes "x", .bool true)])] := by
    refine RelSegs_cons_member (by simp [Rel]) (RelSegs_cons_member ?_ RelSegs_nil)
    simp only [Rel]
    exact ⟨_, rfl, RelSegs_cons_member (by simp [Rel]) RelSegs_nil⟩
  refine ⟨?_, ⟨t.value, henc, ?_⟩, Or.inl ⟨_, [.ev (.key (strBytes "pa")), .ev (.num .i64 a), .ev (.key (strBytes "po")),
          .ev (.objStart 1 BT.any), .ev (.key (strBytes "x")), .ev (.bool true), .ev .objEnd], _, hval, rfl, ?_, hrel⟩⟩
  · intro x hx
    simp only [List.mem_cons, List.not_mem_nil, or_false] at hx
    rcases hx with rfl | rfl | rfl | rfl | rfl | rfl | rfl | rfl | rfl <;> rfl
  · rw [hval]
    simp only [Rel]
    exact ⟨_, rfl, hrel⟩
  · exact EncMems_tree [(strBytes "pa", .num .i64 a), (strBytes "po", .obj 1 BT.any [(strBytes "x", .bool true)])]

set_option maxRecDepth 2000 in
theorem leaf_UO (d : Int) {r : RVal}
    (hr : specOf [.ev (.objStart 1 BT.any), .ev (.key (strBytes "ud")), .ev (.num .int d), .ev .objEnd] = .ok r) :
    Leaf [.ev (.objStart 1 BT.any), .ev (.key (strBytes "ud")), .ev (.num .int d), .ev .objEnd] r := by
  let t : ETree := .obj 1 BT.any [(strBytes "ud", .num .int d)]
  obtain ⟨rfl, henc⟩ := specOf_tree t rfl rfl hr
  have hval : ofValF 100000 t.value = .obj [(false, [(strBytes "ud", .int d)])] := rfl
  have hrel : RelSegs [(false, [(strBytes "ud", RVal.int d)])] [(strBytes "ud", Val.int d)] :=
    RelSegs_cons_member (by simp [Rel]) RelSegs_nil
  refine ⟨?_, ⟨t.value, henc, ?_⟩, Or.inl ⟨_, [.ev (.key (strBytes "ud")), .ev (.num .int d)], _, hval, rfl, ?_, hrel⟩⟩
  · intro x hx
    simp only [List.mem_cons, List.not_mem_nil, or_false] at hx
    rcases hx with rfl | rfl | rfl | rfl <;> rfl
  · rw [hval]
    simp only [Rel]
    exact ⟨_, rfl, hrel⟩
  · exact EncMems_tree [(strBytes "ud", .num .int d)]

/-- `FOpen` leaves its object open: rule 2 reads no value off its events -/
theorem specOf_FOpen (a : Int) :
    specOf [.ev (.objStart 1 BT.any), .ev (.key (strBytes "oa")), .ev (.num .int a)] = .error .userCode := rfl

theorem custom_leaf_FV {recv : GoVal} {xs : List XEv} {r : RVal} (h : customEvents "FV" recv = some xs)
    (hr : specOf xs = .ok r) : Leaf xs r := by
  unfold customEvents at h
  split at h <;> first
    | (cases h; exact leaf_FV _ _ hr)
    | (rename_i h1 _; simp at h1; done)
    | (rename_i h1; simp at h1; done)
    | cases h

/-- every custom folder of the menagerie, on every receiver it is defined on: if rule 2 reads a
value off its events, the events have the three properties of `Leaf` -/
theorem custom_leaf {n : String} {recv : GoVal} {xs : List XEv} {r : RVal} (h : customEvents n recv = some xs)
    (hr : specOf xs = .ok r) : Leaf xs r := by
  unfold customEvents at h
  split at h <;> first
    | (cases h; exact leaf_FV _ _ hr)
    | exact custom_leaf_FV h hr
    | (cases h; exact leaf_str _ hr)
    | (cases h; exact leaf_num _ _ hr)
    | (cases h; exact leaf_null hr)
    | (cases h; exact leaf_FP _ hr)
    | (cases h; exact leaf_UO _ hr)
    | (cases h; rw [specOf_FOpen] at hr; cases hr)
    | cases h

end SF.FoldProofs.Custom
