/-
  C03 helper lemmas (UBJSON): execStep, feedUntil, feed, write, finalize never panic and
  keep the invariant.
-/
import SF.Proofs.UbjNoPanicObj
namespace SF.Ubjson.Parse
open SF SF.Ubjson
open StateType StateStep

/-- the loop guard of feedUntil -/
def guard (p : P) (b : Bytes) : Bool := !b.isEmpty || pending p

theorem guard_iff (p : P) (b : Bytes) : guard p b = true ↔ (b ≠ [] ∨ pending p = true) := by
  cases b <;> simp [guard]

/-- the invariant together with "the stored error is no panic" -/
structure InvE (p : P) : Prop where
  inv : Inv p
  err : p.err ≠ some .panic

theorem invE_default : InvE ({} : P) := ⟨inv_default, by simp⟩
theorem invE_init (failAt : Option Nat) : InvE (init failAt) := ⟨inv_init failAt, by simp [init]⟩

/-- the dispatch of execStep, before the error is stored -/
def dispatch (p : P) (b : Bytes) : R :=
  match p.state.current.type with
  | .stFail => { p := p, rest := b, err := p.err }
  | .stNext => stepValue p b
  | .stFixed => stepFixedValue p b
  | .stHighPrec => stepString p b
  | .stString => stepString p b
  | .stArray => stepArrayInit p b
  | .stArrayDyn => stepArrayDyn p b
  | .stArrayCount => stepArrayCount p b
  | .stArrayTyped => stepArrayTyped p b
  | .stObject => stepObjectInit p b
  | .stObjectDyn => stepObjectDyn p b
  | .stObjectCount => stepObjectCount p b
  | .stObjectTyped => stepObjectTyped p b

theorem execStep_eq (p : P) (b : Bytes) :
    execStep p b =
      match (dispatch p b).err with
      | some e => { dispatch p b with p := { (dispatch p b).p with err := some e } }
      | none => dispatch p b := rfl

theorem dispatch_safe (p : P) (b : Bytes) (h : InvE p) (hg : b ≠ [] ∨ pending p = true) :
    Safe p.err (dispatch p b) := by
  have hi := h.inv
  have hb : pending p = false → b ≠ [] := by
    intro hp
    rcases hg with h | h
    · exact h
    · rw [hp] at h; exact absurd h (by simp)
  unfold dispatch
  split
  · exact ⟨h.err, rfl, hi⟩
  · rename_i ht
    exact stepValue_safe p b hi (by simp [crit, ht]) (hb (by simp [pending, ht]))
  · rename_i ht; exact stepFixedValue_safe p b hi hg ht
  · rename_i ht; exact stepString_safe p b hi (hb (by simp [pending, ht])) (Or.inr ht)
  · rename_i ht; exact stepString_safe p b hi (hb (by simp [pending, ht])) (Or.inl ht)
  · rename_i ht; exact stepArrayInit_safe p b hi (hb (by simp [pending, ht])) ht
  · rename_i ht; exact stepArrayDyn_safe p b hi (hb (by simp [pending, ht])) ht
  · rename_i ht; exact stepArrayCount_safe p b hi hg ht
  · rename_i ht; exact stepArrayTyped_safe p b hi hg ht
  · rename_i ht; exact stepObjectInit_safe p b hi (hb (by simp [pending, ht])) ht
  · rename_i ht; exact stepObjectDyn_safe p b hi (hb (by simp [pending, ht])) ht
  · rename_i ht; exact stepObjectCount_safe p b hi hg ht
  · rename_i ht; exact stepObjectTyped_safe p b hi hg ht

/-- ONE STEP NEVER PANICS and keeps the invariant — for every parser state satisfying the
invariant and every input the main loop can pass (non-empty, or empty in a pending state) -/
theorem execStep_safe (p : P) (b : Bytes) (h : InvE p) (hg : b ≠ [] ∨ pending p = true) :
    (execStep p b).err ≠ some .panic ∧ InvE (execStep p b).p := by
  have hs := dispatch_safe p b h hg
  rw [execStep_eq]
  cases he : (dispatch p b).err with
  | none =>
    simp only []
    exact ⟨by rw [he]; simp, hs.inv, by rw [hs.ef]; exact h.err⟩
  | some e =>
    simp only []
    have hne : e ≠ .panic := by intro hc; subst hc; exact hs.np he
    exact ⟨by rw [he]; simpa using hne, hs.inv.congr rfl rfl rfl, by simpa using hne⟩

theorem feedUntil_safe (f : Nat) (p : P) (b : Bytes) (h : InvE p) :
    (feedUntil f p b).err ≠ some .panic ∧ InvE (feedUntil f p b).p := by
  induction f generalizing p b with
  | zero => exact ⟨by simp [feedUntil], h⟩
  | succ f ih =>
    simp only [feedUntil]
    split
    · rename_i hg
      have hg' : b ≠ [] ∨ pending p = true := by
        cases b <;> simp_all
      have h1 := execStep_safe p b h hg'
      split
      · exact h1
      · exact ih _ _ h1.2
    · exact ⟨by simp, h⟩

/-- `feed` with the fuel function abstracted.  (The kernel takes minutes to unfold `feed`
itself by one step — generating its equation lemmas makes it normalise the literal
`2000000` in `fuelFor` — so all reasoning about `feed` goes through `feedG`.) -/
def feedG (ff : Bytes → Nat) : Nat → P → Bytes → P × Option Err
  | 0, p, _ => (p, some .outOfFuel)
  | fuel + 1, p, b =>
    if b.isEmpty then (p, none) else
    let r := feedUntil (ff b) p b
    match r.err with
    | some e => (r.p, some e)
    | none => feedG ff fuel r.p r.rest

theorem feed_eq_feedG : feed = feedG fuelFor := by
  delta feed feedG
  rfl

theorem feedG_safe (ff : Bytes → Nat) (fuel : Nat) (p : P) (b : Bytes) (h : InvE p) :
    (feedG ff fuel p b).2 ≠ some .panic ∧ InvE (feedG ff fuel p b).1 := by
  induction fuel generalizing p b with
  | zero => exact ⟨by simp [feedG], h⟩
  | succ fuel ih =>
    simp only [feedG]
    split
    · exact ⟨by simp, h⟩
    · have h1 := feedUntil_safe (ff b) p b h
      cases he : (feedUntil (ff b) p b).err with
      | some e => simp only []; rw [he] at h1; exact h1
      | none => simp only []; exact ih _ _ h1.2

theorem feed_safe (fuel : Nat) (p : P) (b : Bytes) (h : InvE p) :
    (feed fuel p b).2 ≠ some .panic ∧ InvE (feed fuel p b).1 := by
  rw [feed_eq_feedG]; exact feedG_safe _ fuel p b h

theorem finalizeLoop_no_panic (n : Nat) (p : P) : (finalizeLoop n p).2 ≠ some .panic := by
  induction n generalizing p with
  | zero => simp only [finalizeLoop]; split <;> simp
  | succ n ih =>
    simp only [finalizeLoop]
    split
    · simp
    · have hclose : ∀ e : Ev, (match visit p e with
          | (q, some err) => (q, some err)
          | (q, none) =>
            finalizeLoop n (popLenState
              (if (p.state.current.type == stArrayTyped || p.state.current.type == stObjectTyped) = true
                then popValueState q else q)).1).2 ≠ some .panic := by
        intro e
        simp only [visit_eq]
        rcases verr_cases p with h | h <;> rw [h] <;> simp only []
        · exact ih _
        · simp
      split
      · split
        · simp
        · exact hclose _
      · split
        · simp
        · exact hclose _
      · split
        · simp
        · exact hclose _
      · split
        · simp
        · exact hclose _
      · simp

theorem finalize_no_panic (p : P) : (finalize p).2 ≠ some .panic := by
  unfold finalize
  have := finalizeLoop_no_panic p.state.stack.length p
  rcases h : finalizeLoop p.state.stack.length p with ⟨q, e⟩
  rw [h] at this
  cases e with
  | some e => simpa using this
  | none => simp only []; split <;> simp

theorem write_safe (p : P) (b : Bytes) (h : InvE p) :
    (write p b).2 ≠ some .panic ∧ InvE (write p b).1 := by
  unfold write feedAll
  have h1 := feed_safe (2 * b.length + 2) p b h
  rcases hf : feed (2 * b.length + 2) p b with ⟨q, e⟩
  rw [hf] at h1
  cases e with
  | some e =>
    simp only []
    have hne : e ≠ .panic := by simpa using h1.1
    exact ⟨by simpa using hne, (h1.2.inv.congr (q := { q with err := some e }) rfl rfl rfl).setCurrent _ crit_fail,
      by simpa [setCurrent] using hne⟩
  | none =>
    simp only []
    exact ⟨by simp, h1.2.inv.congr rfl rfl rfl, by simp⟩

end SF.Ubjson.Parse
