/-
  C03 no-hang (UBJSON): helpers for building step results; stepValue.
-/
import SF.Proofs.UbjProgPrim
namespace SF.Ubjson.Parse
open SF SF.Ubjson
open StateType StateStep

theorem Adv.mk_consume {p q : P} {b rest : Bytes} {d : Bool} {err : Option Err}
    (h1 : 2 * rest.length + q.buffer.length + 1 ≤ 2 * b.length + p.buffer.length)
    (h2 : p.evs.length ≤ q.evs.length) : Adv p b ⟨q, rest, d, err⟩ :=
  .consume (by simpa [pot] using h1) h2

theorem Adv.mk_deliver {p q : P} {b rest : Bytes} {d : Bool} {err : Option Err}
    (h1 : 2 * rest.length + q.buffer.length ≤ 2 * b.length + p.buffer.length)
    (h2 : p.evs.length + 1 ≤ q.evs.length) : Adv p b ⟨q, rest, d, err⟩ :=
  .deliver (by simpa [pot] using h1) h2

theorem Adv.mk_push {p q : P} {b rest : Bytes} {d : Bool} {err : Option Err}
    (h0 : tS p.state.current = 1) (h0' : tS q.state.current = 0)
    (h1 : 2 * rest.length + q.buffer.length ≤ 2 * b.length + p.buffer.length)
    (h2 : p.evs.length ≤ q.evs.length) : Adv p b ⟨q, rest, d, err⟩ :=
  .push h0 h0' (by simpa [pot] using h1) h2

/-- a result without error -/
theorem Step.good {p q : P} {b rest : Bytes} {d : Bool} (hg : G q) (ha : Adv p b ⟨q, rest, d, none⟩) :
    Step p b ⟨q, rest, d, none⟩ :=
  ⟨by simp, fun _ => ⟨hg, ha⟩⟩

/-- a result whose error is what a visitor call returned -/
theorem Step.visited {p q q0 : P} {b rest : Bytes} {d : Bool} (hg : G q) (ha : Adv p b ⟨q, rest, d, verr q0⟩) :
    Step p b ⟨q, rest, d, verr q0⟩ :=
  ⟨by rcases verr_cases q0 with h | h <;> simp [h], fun _ => ⟨hg, ha⟩⟩

/-- move a step result along an equality of the starting configuration's observables -/
theorem Step.from {p p' : P} {b : Bytes} {r : R} (h : Step p' b r) (hb : p'.buffer = p.buffer)
    (he : p'.evs = p.evs) (ht : tS p'.state.current ≤ tS p.state.current) : Step p b r :=
  ⟨h.nof, fun hn => let ⟨g, a⟩ := h.ok hn
    ⟨g, by
      have hp : pot p' b = pot p b := by simp [pot, hb]
      cases a with
      | consume h1 h2 => exact .consume (by rw [← hp]; exact h1) (by rw [← he]; exact h2)
      | deliver h1 h2 => exact .deliver (by rw [← hp]; exact h1) (by rw [← he]; exact h2)
      | push h0 h0' h1 h2 =>
        have := tS_le p.state.current
        exact .push (by omega) h0' (by rw [← hp]; exact h1) (by rw [← he]; exact h2)⟩⟩

theorem start_isStart : ∀ n : Fin 256,
    (markerToStartState (UInt8.ofNat n.val)).all (fun s => isStart s || s.step == stNoop) = true := by
  decide +kernel

theorem isStart_of_marker {m : UInt8} {s : St} (h : markerToStartState m = some s) (hn : s.step ≠ stNoop) :
    isStart s = true := by
  have := start_isStart ⟨m.toNat, m.toNat_lt⟩
  simp only [UInt8.ofNat_toNat] at this
  rw [h] at this
  simp only [Option.all_some, Bool.or_eq_true, beq_iff_eq] at this
  rcases this with h1 | h1
  · exact h1
  · exact absurd h1 hn

theorem noop_start : ∀ n : Fin 256,
    (markerToStartState (UInt8.ofNat n.val)).all (fun s => s.step != stNoop || UInt8.ofNat n.val == noopMarker) = true := by
  decide +kernel

theorem isStart_of_marker' {m : UInt8} {s : St} (h : markerToStartState m = some s) (hn : (m == noopMarker) = false) :
    isStart s = true := by
  apply isStart_of_marker h
  have := noop_start ⟨m.toNat, m.toNat_lt⟩
  simp only [UInt8.ofNat_toNat] at this
  rw [h] at this
  simp only [Option.all_some, Bool.or_eq_true, bne_iff_ne, ne_eq] at this
  rcases this with h1 | h1
  · exact h1
  · rw [hn] at h1; cases h1

/-! ### stepValue -/

theorem stepValue_step (p : P) (b : Bytes) (hg : G p) (hb : b ≠ []) : Step p b (stepValue p b) := by
  unfold stepValue
  cases b with
  | nil => exact absurd rfl hb
  | cons b0 bs =>
    simp only []
    split
    · exact Step.error .unknownMarker rfl (by decide)
    · rename_i state hst
      split
      · simp only [visit_eq]
        exact Step.visited (hg.addEv _) (.mk_consume (by simp [addEv]; omega) (by simp [addEv]))
      · exact Step.good hg (.mk_consume (by simp; omega) (by simp))
      · simp only [visit_eq]
        exact Step.visited (hg.addEv _) (.mk_consume (by simp [addEv]; omega) (by simp [addEv]))
      · simp only [visit_eq]
        exact Step.visited (hg.addEv _) (.mk_consume (by simp [addEv]; omega) (by simp [addEv]))
      · rename_i h1 h2 h3 h4
        exact Step.good (hg.pushState state (isStart_of_marker hst h2))
          (.mk_consume (by simp [pushState]; omega) (by simp [pushState]))

end SF.Ubjson.Parse
