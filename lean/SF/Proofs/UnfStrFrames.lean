/-
  Targets with structs, part 2: compiled unfolders that are CONSISTENT with a type (`RUOk`, including the
  field table of a struct unfolder and the lazy placeholder of a self-referential type, which stands for
  the registry entry of its name), the FRAMES on the six stacks — those of `UnfTyFrames` with the static
  type of what each pointer points at, plus the struct states (`unfolderStructStart`, `unfolderStruct`) and
  the three ignore states — and the invariant `Inv`.
-/
import SF.Proofs.UnfStrShape
namespace SF.Unf.Str
open SF SF.Unf

/-! ## descriptors -/

/-- the chain of pointers a type starts with (names looked through) has at most `d` links: an event is
forwarded through one `unfolderReflPtr` per link -/
inductive Pch (tbl : TypeTable) : GoType → Nat → Prop
  | stop (t : GoType) (d : Nat) : (∀ e, t.un tbl ≠ .ptr e) → Pch tbl t d
  | step (t e : GoType) (d : Nat) : t.un tbl = .ptr e → Pch tbl e d → Pch tbl t (d + 1)

theorem Pch.mono {tbl : TypeTable} {t : GoType} {d : Nat} (h : Pch tbl t d) : ∀ d', d ≤ d' → Pch tbl t d' := by
  induction h with
  | stop t d hn => intro d' _; exact .stop t d' hn
  | step t e d hu _ ih =>
    intro d' hd
    obtain ⟨d'', rfl⟩ : ∃ d'', d' = d'' + 1 := ⟨d' - 1, by omega⟩
    exact .step t e d'' hu (ih d'' (by omega))

theorem Pch.congr {tbl : TypeTable} {t t' : GoType} {d : Nat} (hu : t.un tbl = t'.un tbl) (h : Pch tbl t d) :
    Pch tbl t' d := by
  cases h with
  | stop _ _ hn => exact .stop _ _ (fun e => hu ▸ hn e)
  | step _ e d hu' h' => exact .step _ e d (hu ▸ hu') h'

/-- the zero value the mirror makes for a type (`reflect.Zero`, `reflect.New`) is laid out like a value of
the type -/
def ZeroOK (tbl : TypeTable) (e : GoType) : Prop := HasTy tbl e (zero tbl e)

def _root_.SF.Unf.RU.notRef : RU → Prop
  | .ref _ => False
  | _ => True

/-- `RUOk tbl R D t ru`: the compiled unfolder `ru` can be initialised on a pointer to a value of type `t`
(`R`: the registry of the context, `D`: bound on the pointer chains of element types) -/
inductive RUOk (tbl : TypeTable) (R : Reg) (D : Nat) : GoType → RU → Prop
  | prim (t : GoType) (k : PK) : Flat tbl t → RUOk tbl R D t (.lifted (.prim k))
  | arr (t e : GoType) (k : PK) : t.un tbl = .slice e → Flat tbl e → RUOk tbl R D t (.lifted (.arr k))
  | map (t e : GoType) (k : PK) : t.un tbl = .map e → RUOk tbl R D t (.lifted (.map k))
  | slice (t e : GoType) (elem : RU) : t.un tbl = .slice e → ZeroOK tbl e → Pch tbl e D → RUOk tbl R D e elem →
      RUOk tbl R D t (.slice e elem)
  | rmap (t e : GoType) (elem : RU) : t.un tbl = .map e → ZeroOK tbl e → Pch tbl e D → RUOk tbl R D e elem →
      RUOk tbl R D t (.map e elem)
  | ptr (t e : GoType) (elem : RU) : t.un tbl = .ptr e → ZeroOK tbl e → Pch tbl e D → RUOk tbl R D e elem →
      RUOk tbl R D t (.ptr e elem)
  | struct (t : GoType) (fields : Fields) (ft : List Nat → GoType) :
      (∀ (key : Bytes) (off : List Nat) (ru : RU), (key, off, ru) ∈ fields →
        off ≠ [] ∧ TyAt tbl t (off.map Step.field) (ft off)) →
      (∀ (key : Bytes) (off : List Nat) (ru : RU), (key, off, ru) ∈ fields → RUOk tbl R D (ft off) ru) →
      RUOk tbl R D t (.struct fields)
  | ref (t : GoType) (n : String) (ru : RU) : R.lookup n = some ru → t.un tbl = (GoType.ref n).un tbl →
      RUOk tbl R D t (.ref n)

/-- every registry entry is a real unfolder (no placeholder) consistent with the type of its name -/
def RegOK (tbl : TypeTable) (R : Reg) (D : Nat) : Prop :=
  ∀ n ru, R.lookup n = some ru → ru.notRef ∧ RUOk tbl R D (.ref n) ru

variable {tbl : TypeTable} {R : Reg} {D : Nat}

/-- only the underlying type matters -/
theorem RUOk.congr {t t' : GoType} {ru : RU} (hu : t.un tbl = t'.un tbl) (h : RUOk tbl R D t ru) :
    RUOk tbl R D t' ru := by
  cases h with
  | prim _ k hf => exact .prim _ k (hf.congr hu)
  | arr _ e k h1 h2 => exact .arr _ e k (hu ▸ h1) h2
  | map _ e k h1 => exact .map _ e k (hu ▸ h1)
  | slice _ e elem h1 h2 h3 h4 => exact .slice _ e elem (hu ▸ h1) h2 h3 h4
  | rmap _ e elem h1 h2 h3 h4 => exact .rmap _ e elem (hu ▸ h1) h2 h3 h4
  | ptr _ e elem h1 h2 h3 h4 => exact .ptr _ e elem (hu ▸ h1) h2 h3 h4
  | struct _ fields ft hf hr =>
    refine .struct _ fields ft ?_ hr
    intro key off ru hm
    obtain ⟨h1, h2⟩ := hf key off ru hm
    refine ⟨h1, h2.congr hu ?_⟩
    cases off with
    | nil => exact absurd rfl h1
    | cons a r => simp
  | ref _ n ru h1 h2 => exact .ref _ n ru h1 (hu ▸ h2)

/-! ## the six stacks: `S6`, `Ctx.s6` of `UnfTyFrames` -/

/-! ## frames -/

inductive Frame
  /-- `unfolderX` (primitive kinds, `interface{}`) waiting for its value -/
  | prim (k : PK) (t : GoType) (p : Path)
  /-- `unfolderArrX` waiting for the array to start / inside the array -/
  | arrS (k : PK) (t : GoType) (p : Path)
  | arr (k : PK) (t : GoType) (p : Path) (i : Int)
  /-- `unfolderMapX`: waiting for the object to start / for a key / for the value of `key` -/
  | mapS (k : PK) (t : GoType) (p : Path)
  | mapK (k : PK) (t : GoType) (p : Path)
  | mapV (k : PK) (t : GoType) (p : Path) (key : Bytes)
  /-- the saved scratch pointer and base type of a generic sub-array (`isArr`) / sub-map -/
  | sub (isArr : Bool) (bt : Nat) (slot : Path) (k : PK)
  /-- `unfolderReflSlice` -/
  | rslS (e : GoType) (ru : RU) (t : GoType) (p : Path)
  | rsl (e : GoType) (ru : RU) (t : GoType) (p : Path) (i : Int)
  /-- `unfolderReflMap` -/
  | rmS (e : GoType) (ru : RU) (t : GoType) (p : Path)
  | rmK (e : GoType) (ru : RU) (t : GoType) (p : Path)
  | rmE (e : GoType) (ru : RU) (t : GoType) (p : Path) (key : Bytes)
  /-- the `reflect.New` cell (of type `e`) pushed by `prepare` of `unfolderReflMapOnElem` / `unfolderReflPtr` -/
  | cellx (e : GoType) (cell : Path)
  /-- `unfolderReflPtr` -/
  | rp (e : GoType) (ru : RU) (t : GoType) (p : Path)
  /-- `unfolderStruct` waiting for the object to start / for a key -/
  | stS (fields : Fields) (t : GoType) (p : Path)
  | st (fields : Fields) (t : GoType) (p : Path)
  /-- `unfolderIgnore` (the value of an unknown member is awaited), `unfolderIgnoreArr` / `…Obj` (inside
  it); `t`, `p`: the struct they sit in -/
  | ign (t : GoType) (p : Path)
  | ignA (t : GoType) (p : Path)
  | ignO (t : GoType) (p : Path)

/-- the entries a frame owns -/
def Frame.push : Frame → S6 → S6
  | .prim k _ p, s => { s with u := s.u.push (.prim k), p := s.p.push (some p) }
  | .arrS k _ p, s => { s with u := (s.u.push (.arr k)).push (.arrStart k), i := s.i.push 0, p := s.p.push (some p) }
  | .arr k _ p i, s => { s with u := s.u.push (.arr k), i := s.i.push i, p := s.p.push (some p) }
  | .mapS k _ p, s => { s with u := (s.u.push (.mapKey k)).push (.mapStart k), p := s.p.push (some p) }
  | .mapK k _ p, s => { s with u := s.u.push (.mapKey k), p := s.p.push (some p) }
  | .mapV k _ p key, s => { s with u := s.u.push (.mapVal k), p := s.p.push (some p), k := s.k.push key }
  | .sub _ bt slot _, s => { s with p := s.p.push (some slot), b := s.b.push bt }
  | .rslS e ru _ p, s =>
    { s with v := s.v.push (some p), u := (s.u.push (.reflSlice e ru)).push .reflSliceStart, i := s.i.push 0 }
  | .rsl e ru _ p i, s => { s with v := s.v.push (some p), u := s.u.push (.reflSlice e ru), i := s.i.push i }
  | .rmS e ru _ p, s => { s with v := s.v.push (some p), u := (s.u.push (.reflMapOnKey e ru)).push .reflMapStart }
  | .rmK e ru _ p, s => { s with v := s.v.push (some p), u := s.u.push (.reflMapOnKey e ru) }
  | .rmE e ru _ p key, s =>
    { s with v := s.v.push (some p), u := s.u.push (.reflMapOnElem e ru), k := s.k.push key }
  | .cellx _ cell, s => { s with v := s.v.push (some cell) }
  | .rp e ru _ p, s => { s with v := s.v.push (some p), u := s.u.push (.reflPtr e ru) }
  | .stS fields _ p, s => { s with p := s.p.push (some p), u := (s.u.push (.struct fields)).push .structStart }
  | .st fields _ p, s => { s with p := s.p.push (some p), u := s.u.push (.struct fields) }
  | .ign _ _, s => { s with u := s.u.push .ignore }
  | .ignA _ _, s => { s with u := s.u.push .ignoreArr }
  | .ignO _ _, s => { s with u := s.u.push .ignoreObj }

def stacksOf (base : S6) : List Frame → S6
  | [] => base
  | F :: fs => F.push (stacksOf base fs)

/-- the type of a scratch slot -/
def subTy (isArr : Bool) (k : PK) : GoType := if isArr then .slice k.goType else .map k.goType

/-- the pointer a frame will still use (for the ignore states: the pointer of the struct they sit in,
which they never use), its static type, and what the frame relies on beyond the type -/
def Frame.live : Frame → LP
  | .prim _ t p => (p, t, .none)
  | .arrS _ t p => (p, t, .none)
  | .arr _ t p _ => (p, t, .none)
  | .mapS _ t p => (p, t, .none)
  | .mapK _ t p => (p, t, .none)
  | .mapV _ t p _ => (p, t, .none)
  | .sub a _ slot k => (slot, subTy a k, .none)
  | .rslS _ _ t p => (p, t, .none)
  | .rsl _ _ t p i => (p, t, .minLen i.toNat)
  | .rmS _ _ t p => (p, t, .none)
  | .rmK _ _ t p => (p, t, .nonNil)
  | .rmE _ _ t p _ => (p, t, .nonNil)
  | .cellx e cell => (cell, e, .none)
  | .rp _ _ t p => (p, t, .none)
  | .stS _ t p => (p, t, .none)
  | .st _ t p => (p, t, .none)
  | .ign t p => (p, t, .none)
  | .ignA t p => (p, t, .none)
  | .ignO t p => (p, t, .none)

def liveOf (fs : List Frame) : List LP := fs.map Frame.live

/-- scratch slots in use -/
def cntA : List Frame → Nat
  | [] => 0
  | .sub true _ _ _ :: fs => cntA fs + 1
  | _ :: fs => cntA fs
def cntMA : List Frame → Nat
  | [] => 0
  | .sub false _ _ .ifc :: fs => cntMA fs + 1
  | _ :: fs => cntMA fs
def cntMP : List Frame → Nat
  | [] => 0
  | .sub false _ _ .ifc :: fs => cntMP fs
  | .sub false _ _ _ :: fs => cntMP fs + 1
  | _ :: fs => cntMP fs

/-- the scratch slot of the next generic sub-container -/
def slotRoot (isArr : Bool) (k : PK) (fs : List Frame) : Root :=
  if isArr then .arrays (cntA fs) else if k = .ifc then .mapAny (cntMA fs) else .mapPrimitive (cntMP fs)

/-- the frames a generic value can be delivered to -/
def Frame.isSinkF : Frame → Prop
  | .prim .ifc _ _ => True
  | .arr .ifc _ _ _ => True
  | .mapV .ifc _ _ _ => True
  | _ => False

/-! ### how a frame sits on the frames below -/

/-- where the pointer of a value frame comes from, and the type the frame below gives to what it points
at: the target itself (nothing below), the cell of a `prepare`, an element of the slice below, the scratch
slot of a generic sub-container, a field (through any number of inlined structs) of the struct below -/
def Attach (tbl : TypeTable) (p : Path) (t : GoType) (allowSub : Option Bool) : List Frame → Prop
  | [] => True
  | .cellx e cell :: _ => p = cell ∧ t = e
  | .rsl e _ _ P _ :: _ => (∃ j, p = P.push (.index j)) ∧ t = e
  | .sub a _ slot k :: _ => allowSub = some a ∧ p = slot ∧ t = subTy a k
  | .st _ tS P :: _ =>
    ∃ off : List Nat, off ≠ [] ∧ p = P.pushAll (off.map Step.field) ∧ TyAt tbl tS (off.map Step.field) t
  | _ => False

/-- the struct an ignore state sits in (directly, or inside ignored containers) -/
def IgnOn (t : GoType) (p : Path) (inner : Bool) : List Frame → Prop
  | .st _ t' p' :: _ => inner = false ∧ t' = t ∧ p' = p
  | .ign t' p' :: _ => inner = true ∧ t' = t ∧ p' = p
  | .ignA t' p' :: _ => inner = true ∧ t' = t ∧ p' = p
  | .ignO t' p' :: _ => inner = true ∧ t' = t ∧ p' = p
  | _ => False

def Born (tbl : TypeTable) (R : Reg) (D : Nat) : Frame → List Frame → Prop
  | .prim _ t p, fs => Attach tbl p t none fs ∧ Flat tbl t
  | .arrS _ t p, fs => Attach tbl p t (some true) fs ∧ ∃ e, t.un tbl = .slice e ∧ Flat tbl e
  | .arr _ t p _, fs => Attach tbl p t (some true) fs ∧ ∃ e, t.un tbl = .slice e ∧ Flat tbl e
  | .mapS _ t p, fs => Attach tbl p t (some false) fs ∧ ∃ e, t.un tbl = .map e
  | .mapK _ t p, fs => Attach tbl p t (some false) fs ∧ ∃ e, t.un tbl = .map e
  | .mapV _ t p _, fs => Attach tbl p t (some false) fs ∧ ∃ e, t.un tbl = .map e
  | .sub isArr bt slot k, fs =>
    btKind bt = some k ∧ slot = ⟨slotRoot isArr k fs, []⟩ ∧ (∀ y ∈ liveOf fs, y.1.root ≠ slot.root) ∧
    (match fs with | F :: _ => F.isSinkF | [] => False)
  | .rslS e ru t p, fs => Attach tbl p t none fs ∧ RUOk tbl R D t (.slice e ru)
  | .rsl e ru t p i, fs => Attach tbl p t none fs ∧ RUOk tbl R D t (.slice e ru) ∧ 0 ≤ i
  | .rmS e ru t p, fs => Attach tbl p t none fs ∧ RUOk tbl R D t (.map e ru)
  | .rmK e ru t p, fs => Attach tbl p t none fs ∧ RUOk tbl R D t (.map e ru)
  | .rmE e ru t p _, fs => Attach tbl p t none fs ∧ RUOk tbl R D t (.map e ru)
  | .cellx e cell, fs =>
    cell.steps = [] ∧ (∀ y ∈ liveOf fs, y.1.root ≠ cell.root) ∧
    (match fs with | .rmE e' _ _ _ _ :: _ => e' = e | .rp e' _ _ _ :: _ => e' = e | _ => False)
  | .rp e ru t p, fs => Attach tbl p t none fs ∧ RUOk tbl R D t (.ptr e ru)
  | .stS fields t p, fs => Attach tbl p t none fs ∧ RUOk tbl R D t (.struct fields)
  | .st fields t p, fs => Attach tbl p t none fs ∧ RUOk tbl R D t (.struct fields)
  | .ign t p, fs => IgnOn t p false fs
  | .ignA t p, fs => IgnOn t p true fs
  | .ignO t p, fs => IgnOn t p true fs

def WFS (tbl : TypeTable) (R : Reg) (D : Nat) : List Frame → Prop
  | [] => True
  | F :: fs => Born tbl R D F fs ∧ WFS tbl R D fs

/-- the memory of a context, with the type table and the registry (which no event changes) -/
def _root_.SF.Unf.Ctx.mem' (c : Ctx) : (GoVal × Array GoVal × UnfoldBuf) × TypeTable × Reg := (c.mem, c.env, c.reg)

/-- THE INVARIANT of the contexts reachable from `SetTarget`: the six stacks are those of a well-formed
frame list on top of `base`, the scratch buffers hold exactly the slots of the live sub-containers, every
live pointer resolves to a value of its static type (and of the length / non-nil-ness its frame relies
on), the type table and the registry are those `SetTarget` left, and the registry is consistent -/
structure Inv (tbl : TypeTable) (R : Reg) (D : Nat) (base : S6) (fs : List Frame) (c : Ctx) : Prop where
  stacks : c.s6 = stacksOf base fs
  wfs : WFS tbl R D fs
  mem : MemOK tbl c (liveOf fs)
  nA : c.valueBuffer.arrays.size = cntA fs
  nMA : c.valueBuffer.mapAny.size = cntMA fs
  nMP : c.valueBuffer.mapPrimitive.size = cntMP fs
  env : c.env = tbl
  reg : c.reg = R
  regOK : RegOK tbl R D

end SF.Unf.Str
