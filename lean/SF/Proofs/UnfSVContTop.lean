/-
  C13 (typed-assignment clause), VALUE correctness for STRUCT targets, STAGE 2 — PROPERTY THEOREMS
  (namespace SF.UnfProofs.StructVal; helper files SF/Proofs/UnfSVPtr.lean, UnfSVArr.lean, namespace SF.Unf.SV).

  More instances of the store lemma `FieldOK` (SF/Proofs/UnfStructValTop.lean): with them `FM`, hence
  `object_into_struct_compiled` / `unfold_object_into_struct`, cover structs with fields of type
    * `*T`   (`fieldOK_ptr`)                          T of primitive kind (bool, string, every integer width,
    * `[]T`  (`fieldOK_arr`)                          float32/64), named or not, not `interface{}`
  nested and inlined to any depth, next to the field kinds of stages 1 and 3.
-/
import SF.Proofs.UnfStructValTop
import SF.Proofs.UnfSVPtr
import SF.Proofs.UnfSVArr
namespace SF.UnfProofs.StructVal
open SF SF.Unf SF.Unf.Spec SF.Unf.SV
open SF.Unf.Str (HasTy TyAt tyAtB tyAtB_sound hasTyB hasTyB_sound)

/-- `*T` fields, `T` of primitive kind `k` (named or not; not `interface{}`): `null` ↦ the nil pointer; a scalar the
specification assigns to a `T` ↦ a FRESH cell (`cells'` of `FieldOK` = one more cell) holding the converted scalar,
the field holds the pointer — whatever it held before (both readings of the specification agree: a primitive
pointee is replaced as a whole). `hnb` as in `fieldOK_prim`. -/
theorem fieldOK_ptr (tbl : TypeTable) (ft e : GoType) (k : PK) (hu : ft.un tbl = .ptr e)
    (hk : PK.ofExact? (e.un tbl) = some k) (hki : k ≠ .ifc)
    (hnb : ∀ nk, e.un tbl = .int nk → normKind nk = nk) : FieldOK tbl (.ptr e (.lifted (.prim k))) ft :=
  SF.Unf.SV.fieldOK_ptr tbl ft e k hu hk hki hnb

/-- `[]T` fields, `T` of primitive kind `k` (named or not; not `interface{}`): an array of scalars — ANY announced
length not above the count (`-1`, `0`, … the count: `UTree.wf`), ANY announced element type (the typed arrays of
the ext visitors are arrays of scalars event by event), strings by value or by reference — that the specification
assigns element by element: the field then holds EXACTLY the stream's elements, converted, for ANY old slice (nil,
shorter, longer: the rest of the old elements stays hidden in the capacity, which `norm` drops). -/
theorem fieldOK_arr (tbl : TypeTable) (ft e : GoType) (k : PK) (hu : ft.un tbl = .slice e)
    (hk : PK.ofType? tbl e = some k) (hki : k ≠ .ifc) (hnb : ∀ nk, e.un tbl = .int nk → normKind nk = nk) :
    FieldOK tbl (.lifted (.arr k)) ft :=
  SF.Unf.SV.fieldOK_arr tbl ft e k hu hk hki hnb

/-! ### non-vacuity -/

/-- `struct { P *int; Xs []int32; Q *MyStr "q"; Ys []string }` with the named `type MyStr string` -/
def tCont : GoType :=
  .struct "" [("P", "", .ptr (.int .int)), ("Xs", "", .slice (.int .i32)), ("Q", "q", .ptr (.named "MyStr" .string)),
    ("Ys", "", .slice .string)]

/-- what `SetTarget` compiles it into (`#eval lookupReflUnfolder noTbl typeFuel [] [] tCont`) -/
def contFields : Fields := [
  ([0x70], [0], .ptr (.int .int) (.lifted (.prim (.num .int)))), ([0x78, 0x73], [1], .lifted (.arr (.num .i32))),
  ([0x71], [2], .ptr (.named "MyStr" .string) (.lifted (.prim .string))), ([0x79, 0x73], [3], .lifted (.arr .string))]

/-- … and the specification's field list -/
def contSF : SpecFields := [
  ([0x70], [0], .ptr (.int .int)), ([0x78, 0x73], [1], .slice (.int .i32)), ([0x71], [2], .ptr (.named "MyStr" .string)),
  ([0x79, 0x73], [3], .slice .string)]

theorem contFM : FM noTbl tCont contFields contSF :=
  .cons _ _ _ _ _ _ (fieldOK_ptr _ _ _ _ rfl rfl (by decide) (by intro nk h; cases h; rfl)) (tyAtB_sound [0] _ _ rfl) <|
  .cons _ _ _ _ _ _ (fieldOK_arr _ _ _ _ rfl rfl (by decide) (by intro nk h; cases h; rfl)) (tyAtB_sound [1] _ _ rfl) <|
  .cons _ _ _ _ _ _ (fieldOK_ptr _ _ _ _ rfl rfl (by decide) (by intro nk h; cases h)) (tyAtB_sound [2] _ _ rfl) <|
  .cons _ _ _ _ _ _ (fieldOK_arr _ _ _ _ rfl rfl (by decide) (by intro nk h; cases h)) (tyAtB_sound [3] _ _ rfl) <|
  .nil

/-- the old value `{P: &5, Xs: [9, 9, 9, 9], Q: nil, Ys: nil}` -/
def contOld : GoVal :=
  .struct [.ptr (.int .int) (.int .int 5), .slice (.int .i32) [.int .i32 9, .int .i32 9, .int .i32 9, .int .i32 9] [],
    .ptrNil (.named "MyStr" .string), .sliceNil .string]

/-- `{"xs": [1, 300 (int16), -2 (int64)] (announced 3), "p": 7 (uint8), "q": "s"(by ref), "ys": ["a", "b"(by ref)]
(length unknown, element type string), "p": null, "zz": [[]]}` -/
def contDoc : List (Bool × Bytes × UTree) := [
  (false, [0x78, 0x73], .arr 3 0 [.scalar (.num .i8 1), .scalar (.num .i16 300), .scalar (.num .i64 (-2))]),
  (false, [0x70], .scalar (.num .u8 7)),
  (true, [0x71], .strRef [0x73]),
  (false, [0x79, 0x73], .arr (-1) BT.string [.scalar (.str [0x61]), .strRef [0x62]]),
  (false, [0x70], .scalar .nil),
  (false, [0x7a, 0x7a], .arr 1 0 [.arr 0 0 []])]

/-- ALL hypotheses of `object_into_struct_compiled` hold for it, and both readings of the specification claim
`{P: nil, Xs: [1, 300, -2], Q: &"s", Ys: ["a", "b"]}` … -/
example : FM noTbl tCont contFields contSF ∧ Shaped noTbl tCont contOld ∧ (newUnfolder).unfolder.stack = [] ∧
    Symbols.Inv (newUnfolder).keyCache ∧ (∀ m ∈ contDoc, m.2.2.wf = true) ∧
    (match assignMembers noTbl true 50 contSF contOld (toSMems contDoc),
           assignMembers noTbl false 50 contSF contOld (toSMems contDoc) with
     | some (.struct [.ptrNil _, .slice _ [.int .i32 1, .int .i32 300, .int .i32 (Int.negSucc 1)] [],
                      .ptr _ (.str [0x73]), .slice _ [.str [0x61], .str [0x62]] []]),
       some (.struct [.ptrNil _, .slice _ [.int .i32 1, .int .i32 300, .int .i32 (Int.negSucc 1)] [],
                      .ptr _ (.str [0x73]), .slice _ [.str [0x61], .str [0x62]] []]) => true
     | _, _ => false) = true :=
  ⟨contFM, hasTyB_sound _ _ _ (by decide +kernel), rfl, Symbols.inv_init 0, by decide +kernel, by decide +kernel⟩

/-- … and the mirror, evaluated from `unfolderStruct.initState` on a new Unfolder: accepted, idle, one cell was
allocated for each non-null pointer assignment, the target as specified (the fourth old element of `Xs` hidden in
the capacity) -/
example :
    (match run typeFuel (UTree.obj 6 0 contDoc).events (startCtx newUnfolder noTbl [] contFields contOld) with
     | .ok _ c₁ =>
       c₁.depths == [0, 0, 0, 0, 0, 0] && c₁.valueBuffer.arrays.size == 0 && c₁.cells.size == 2 &&
       (match c₁.target with
        | .struct [.ptrNil _, .slice _ [.int .i32 1, .int .i32 300, .int .i32 (Int.negSucc 1)] [.int .i32 9],
                   .ptr _ (.str [0x73]), .slice _ [.str [0x61], .str [0x62]] []] => true
        | _ => false)
     | _ => false) = true := by decide +kernel

/-! ### LEFT UNPROVED: `map[string]T` fields

  Intended statement (end of SF/Proofs/UnfStructValTop.lean):
    theorem fieldOK_map (tbl ft e k) (hu : ft.un tbl = .map e) (hk : PK.ofType? tbl e = some k) (hki : k ≠ .ifc)
        (hnb : ∀ nk, e.un tbl = .int nk → normKind nk = nk) : FieldOK tbl (.lifted (.map k)) ft

  AS STATED IT IS FALSE of the mirror, for a reason that has nothing to do with the Go code: `FieldOK` quantifies
  over every old field value `oldM` with `HasTy tbl ft oldM`, and `HasTy.map` (SF/Proofs/UnfStrShape.lean) only asks
  for `isMapVal oldM` — it does NOT pin the element type the (untyped) map value carries, unlike `HasTy.slice` /
  `HasTy.sliceNil`, which do.  `unfolderMapX.put` keeps the element type the old value carries, the specification
  writes the field type's.  Evaluated counterexample [#eval]:
      S = struct { M map[string]int },  old = .struct [.mapNil .bool]   (hasTyB noTbl S old = true),
      document {"m": {"a": 1 (int8)}}:
        mirror  (run … (startCtx newUnfolder noTbl [] [([0x6d],[0], .lifted (.map (.num .int)))] old))
                                             : target = .struct [.map .bool        [("a", int 1)]]
        `assignMembers` (both readings)      : want   = .struct [.map (.int .int) [("a", int 1)]]
      `norm got ≠ norm want` (the element types differ; `GoVal.print`, hence `sameVal`, does not show them: both
      print `({61=1})`), so the conclusion `norm w = norm nv` of `FieldOK` fails.  No Go value of type `S` is laid
      out like this `old`: the counterexample lives in the model's untyped value universe only.
  STRONGEST TRUE VARIANT (not proved here — out of the time budget): the store lemma with the decidable side
  condition `mapParts oldM = some (e, olds)` (the old map value carries the field's element type `e`), which the
  stored value satisfies again (`.map e (mapSet …)` / untouched for an empty object).  To reach
  `object_into_struct_compiled` it needs that side condition as an INVARIANT of the struct value along field paths:
  a typing predicate `HasTy'` = `HasTy` + "map values carry the element type of their type" (inductive over the
  value like `HasTy`, with `get` / `set` preservation along field paths as `hasTy_get` / `hasTy_set`), and
  `FieldOK` / `FM` / `members_run` / `struct_run` re-stated over it (the proofs go through unchanged; every existing
  instance — prim, ifc, struct, ptr, arr — lifts because its type is no map type).  The run itself is
  `run_object_into_mapK` (SF/Proofs/UnfTyValMap.lean) re-stated on a pointer into the target exactly as
  `SF.Unf.SV.arrStart_at` / `arrAppend_at` / `leaves_at` / `arrEnd_at` (SF/Proofs/UnfSVArr.lean) do for
  `run_array_into_sliceK` — by-reference keys through `kc_get` (SF/Proofs/UnfGenTree.lean: the key itself, `KCOk`)
  — and the value side needs, with `hnb`, `normMems (mapSet ms key v) = mapSet (normMems ms) key (norm v)` and
  `normMems a = normMems a' → normMems (mapSet a key w) = normMems (putMember a' key w)` (`mapSet` and
  `Spec.putMember` are the same function), then `norm_map_congr`; the empty object on a nil old map is the
  nil ≙ empty case of `norm` (`norm oldM = norm oldS` and `oldS` a `.map e []` or `.mapNil e`). -/

end SF.UnfProofs.StructVal
