/-
  The field `required` is only read inside a literal (`stepKind`) and is set when a literal
  begins; in all other states it is a leftover whose value depends on how the last literal
  was chunked.  `Eqv p q`: equal up to that leftover.  Every step respects `Eqv`.
-/
import SF.Proofs.JsonRun
set_option linter.unusedSimpArgs false
namespace SF.Json.ParseP
open SF SF.Json SF.Json.Parse SF.Json.Float

def setReq (p : P) (r : Nat) : P := { p with required := r }

def setReqR (x : R) (r : Nat) : R := { x with p := setReq x.p r }

theorem setReq_self (p : P) : setReq p p.required = p := by cases p; rfl

theorem visit_snd_setReq (p : P) (r : Nat) (e : Ev) : (visit (setReq p r) e).2 = (visit p e).2 := by
  cases hf : p.failAt with
  | none => simp [visit, setReq, hf]
  | some k =>
    by_cases hk : p.nevs ≥ k
    · simp [visit, setReq, hf, hk]
    · simp [visit, setReq, hf, hk]

theorem visit_setReq (p : P) (r : Nat) (e : Ev) :
    visit (setReq p r) e = (setReq (visit p e).1 r, (visit p e).2) := by
  rw [visit_eq (setReq p r) e, visit_snd_setReq, visit_fst]
  rfl

theorem popState_setReq (p : P) (r : Nat) : popState (setReq p r) = setReq (popState p) r := by
  cases hs : p.states <;> simp [popState, setReq, hs]

theorem pushState_setReq (p : P) (r : Nat) (s : St) : pushState (setReq p r) s = setReq (pushState p s) r := by
  by_cases h : (p.currentState != .failedState) = true <;> simp [pushState, setReq, h]

theorem reportNumber_setReq (p : P) (r : Nat) (b : Bytes) (dbl : Bool) :
    reportNumber (setReq p r) b dbl = (setReq (reportNumber p b dbl).1 r, (reportNumber p b dbl).2) := by
  simp only [reportNumber]
  split
  · split <;> first | rfl | exact visit_setReq _ _ _
  · split
    · rfl
    · split
      · exact visit_setReq _ _ _
      · split <;> exact visit_setReq _ _ _

theorem stepNumber_setReq (p : P) (r : Nat) (b : Bytes) :
    stepNumber (setReq p r) b = setReqR (stepNumber p b) r := by
  cases hd : (scanNumber b p.isDouble).2.2.1 with
  | false =>
    rw [stepNumber_more p b hd, stepNumber_more (setReq p r) b hd]
    rfl
  | true =>
    rw [stepNumber_done p b hd, stepNumber_done (setReq p r) b hd]
    show ({ p := popState (reportNumber
                (setReq { p with isDouble := (scanNumber b p.isDouble).2.2.2, literalBuffer := [] } r)
                (p.literalBuffer ++ (scanNumber b p.isDouble).1) (scanNumber b p.isDouble).2.2.2).1,
            rest := (scanNumber b p.isDouble).2.1, reported := true,
            err := (reportNumber
                (setReq { p with isDouble := (scanNumber b p.isDouble).2.2.2, literalBuffer := [] } r)
                (p.literalBuffer ++ (scanNumber b p.isDouble).1) (scanNumber b p.isDouble).2.2.2).2 } : R) = _
    rw [reportNumber_setReq, popState_setReq]
    rfl

theorem doString_setReq (p : P) (r : Nat) (b : Bytes) (hb : b ≠ []) :
    doString (setReq p r) b = (setReq (doString p b).1 r, (doString p b).2) := by
  cases b with
  | nil => exact absurd rfl hb
  | cons c tl =>
    cases hlb : p.literalBuffer with
    | nil =>
      have hlb' : (setReq p r).literalBuffer = [] := hlb
      cases hs : (scanString tl p.inEscape 0).1 with
      | none =>
        have hs' : (scanString tl (setReq p r).inEscape 0).1 = none := hs
        rw [doString_start_none p c tl hlb hs, doString_start_none (setReq p r) c tl hlb' hs']
        rfl
      | some i =>
        have hs' : (scanString tl (setReq p r).inEscape 0).1 = some i := hs
        rw [doString_start_some p c tl i hlb hs, doString_start_some (setReq p r) c tl i hlb' hs']
        cases unquote (tl.take i) <;> rfl
    | cons l ls =>
      have hlb' : (setReq p r).literalBuffer = l :: ls := hlb
      cases hs : (scanString (c :: tl) p.inEscape 0).1 with
      | none =>
        have hs' : (scanString (c :: tl) (setReq p r).inEscape 0).1 = none := hs
        rw [doString_cont_none p _ l ls hlb hs, doString_cont_none (setReq p r) _ l ls hlb' hs']
        rfl
      | some i =>
        have hs' : (scanString (c :: tl) (setReq p r).inEscape 0).1 = some i := hs
        rw [doString_cont_some p _ l ls i hlb hs, doString_cont_some (setReq p r) _ l ls i hlb' hs']
        cases unquote (ls ++ (c :: tl).take i) <;> rfl

theorem stepString_setReq (p : P) (r : Nat) (b : Bytes) (hb : b ≠ []) :
    stepString (setReq p r) b = setReqR (stepString p b) r := by
  unfold stepString
  rw [doString_setReq p r b hb]
  obtain ⟨q, ref, done, rest, err⟩ := doString p b
  simp only
  split
  · rw [popState_setReq, visit_setReq]; rfl
  · rfl

theorem stepDictKey_setReq (p : P) (r : Nat) (b : Bytes) (hb : b ≠ []) :
    stepDictKey (setReq p r) b = setReqR (stepDictKey p b) r := by
  unfold stepDictKey
  rw [doString_setReq p r b hb]
  obtain ⟨q, ref, done, rest, err⟩ := doString p b
  simp only
  split
  · have : ({ setReq q r with currentState := St.dictFieldValueSep } : P) =
        setReq { q with currentState := St.dictFieldValueSep } r := rfl
    rw [this, visit_setReq]; rfl
  · rfl

theorem endDict_setReq (p : P) (r : Nat) (b : Bytes) : endDict (setReq p r) b = setReqR (endDict p b) r := by
  unfold endDict; simp only [popState_setReq, visit_setReq]; rfl

theorem endArray_setReq (p : P) (r : Nat) (b : Bytes) : endArray (setReq p r) b = setReqR (endArray p b) r := by
  unfold endArray; simp only [popState_setReq, visit_setReq]; rfl

theorem stepDict_setReq (p : P) (r : Nat) (b : Bytes) (ae : Bool) :
    stepDict (setReq p r) b ae = setReqR (stepDict p b ae) r := by
  unfold stepDict
  split
  · rfl
  · simp only
    split
    · split
      · rfl
      · exact endDict_setReq _ _ _
    · split <;> rfl

theorem stepDictValueEnd_setReq (p : P) (r : Nat) (b : Bytes) :
    stepDictValueEnd (setReq p r) b = setReqR (stepDictValueEnd p b) r := by
  unfold stepDictValueEnd
  split
  · rfl
  · split
    · exact endDict_setReq _ _ _
    · split <;> rfl

theorem stepArray_setReq (p : P) (r : Nat) (b : Bytes) (ae : Bool) :
    stepArray (setReq p r) b ae = setReqR (stepArray p b ae) r := by
  unfold stepArray
  split
  · rfl
  · simp only
    split
    · split
      · rfl
      · exact endArray_setReq _ _ _
    · rfl

theorem stepArrValueEnd_setReq (p : P) (r : Nat) (b : Bytes) :
    stepArrValueEnd (setReq p r) b = setReqR (stepArrValueEnd p b) r := by
  unfold stepArrValueEnd
  split
  · rfl
  · split
    · exact endArray_setReq _ _ _
    · split <;> rfl

/-- stepValue: either a literal begins (`required` is overwritten: the results are equal), or
`required` is carried through -/
theorem stepValue_setReq (p : P) (r : Nat) (b : Bytes) (ret : St) :
    stepValue (setReq p r) b ret = stepValue p b ret ∨
    (stepValue (setReq p r) b ret = setReqR (stepValue p b ret) r ∧
      ∀ c tl, trimLeft b = c :: tl → c ≠ ch 'n' ∧ c ≠ ch 'f' ∧ c ≠ ch 't') := by
  unfold stepValue
  split
  · rename_i htr0
    right; exact ⟨rfl, by intro c tl h; rw [htr0] at h; simp at h⟩
  · rename_i c tl htr
    simp only
    by_cases h1 : (c == ch '{') = true
    · right
      simp only [if_pos h1]
      have : ({ setReq p r with currentState := ret } : P) = setReq { p with currentState := ret } r := rfl
      refine ⟨?_, ?_⟩
      · rw [this, pushState_setReq, visit_setReq]; rfl
      · intro c' tl' h; rw [htr] at h; injection h with h _; subst h
        have : c = ch '{' := by simpa using h1
        subst this; decide
    simp only [if_neg h1]
    by_cases h2 : (c == ch '[') = true
    · right
      simp only [if_pos h2]
      have : ({ setReq p r with currentState := ret } : P) = setReq { p with currentState := ret } r := rfl
      refine ⟨?_, ?_⟩
      · rw [this, pushState_setReq, visit_setReq]; rfl
      · intro c' tl' h; rw [htr] at h; injection h with h _; subst h
        have : c = ch '[' := by simpa using h2
        subst this; decide
    simp only [if_neg h2]
    by_cases h3 : (c == ch 'n') = true
    · left
      simp only [if_pos h3]
      have : ({ setReq p r with currentState := ret } : P) = setReq { p with currentState := ret } r := rfl
      rw [this, pushState_setReq]; rfl
    simp only [if_neg h3]
    by_cases h4 : (c == ch 'f') = true
    · left
      simp only [if_pos h4]
      have : ({ setReq p r with currentState := ret } : P) = setReq { p with currentState := ret } r := rfl
      rw [this, pushState_setReq]; rfl
    simp only [if_neg h4]
    by_cases h5 : (c == ch 't') = true
    · left
      simp only [if_pos h5]
      have : ({ setReq p r with currentState := ret } : P) = setReq { p with currentState := ret } r := rfl
      rw [this, pushState_setReq]; rfl
    simp only [if_neg h5]
    have hc : ∀ c' tl', trimLeft b = c' :: tl' → c' ≠ ch 'n' ∧ c' ≠ ch 'f' ∧ c' ≠ ch 't' := by
      intro c' tl' h; rw [htr] at h; injection h with h _; subst h
      exact ⟨by simpa using h3, by simpa using h4, by simpa using h5⟩
    right
    refine ⟨?_, hc⟩
    by_cases h6 : (c == ch '"') = true
    · simp only [if_pos h6]
      have : ({ setReq p r with currentState := ret, literalBuffer := [] } : P) =
          setReq { p with currentState := ret, literalBuffer := [] } r := rfl
      rw [this, pushState_setReq]
      have : ∀ q : P, ({ setReq q r with inEscape := false } : P) = setReq { q with inEscape := false } r :=
        fun _ => rfl
      rw [this, stepString_setReq _ _ _ (by simp)]
    simp only [if_neg h6]
    split
    · rfl
    · have : ({ setReq p r with currentState := ret, isDouble := false, literalBuffer := [] } : P) =
          setReq { p with currentState := ret, isDouble := false, literalBuffer := [] } r := rfl
      rw [this, pushState_setReq]
      have : ∀ q : P, ({ setReq q r with isDouble := false } : P) = setReq { q with isDouble := false } r :=
        fun _ => rfl
      rw [this, stepNumber_setReq]

/-! ## which steps end inside a literal -/

theorem isLit_weight {s : St} (h : weight s = 0) : isLit s = false := by
  cases s <;> simp [weight] at h <;> rfl

theorem popState_notLit (p : P) (hst : ∀ s ∈ p.states, isRet s = true) :
    isLit (popState p).currentState = false :=
  isLit_weight (popState_spec p hst).2.1

theorem visit_cs (p : P) (e : Ev) : (visit p e).1.currentState = p.currentState := by
  rw [visit_fst]

theorem stepNumber_notLit (p : P) (b : Bytes) (hst : ∀ s ∈ p.states, isRet s = true)
    (hl : isLit p.currentState = false) (hne : p.literalBuffer ++ (scanNumber b p.isDouble).1 ≠ []) :
    isLit (stepNumber p b).p.currentState = false := by
  cases hd : (scanNumber b p.isDouble).2.2.1 with
  | false => rw [stepNumber_more p b hd]; exact hl
  | true =>
    rw [stepNumber_done p b hd]
    obtain ⟨_, evs, nevs, h2⟩ := reportNumber_spec
      { p with isDouble := (scanNumber b p.isDouble).2.2.2, literalBuffer := [] }
      (p.literalBuffer ++ (scanNumber b p.isDouble).1) (scanNumber b p.isDouble).2.2.2 hne
    rw [h2]
    exact popState_notLit _ hst

theorem stepString_notLit (p : P) (b : Bytes) (hb : b ≠ []) (hst : ∀ s ∈ p.states, isRet s = true)
    (hl : isLit p.currentState = false) : isLit (stepString p b).p.currentState = false := by
  obtain ⟨esc, lb, ref, done, rest, err, hd, _, h2, _⟩ := doString_spec p b hb
  unfold stepString
  rw [hd]
  cases done with
  | true =>
    obtain ⟨rfl, _⟩ := h2 rfl
    simp only [Bool.true_and, Option.isNone_none, if_true]
    rw [visit_cs]
    exact popState_notLit _ hst
  | false =>
    simp only [Bool.false_and, Bool.false_eq_true, if_false]
    exact hl

theorem stepDictKey_notLit (p : P) (b : Bytes) (hb : b ≠ [])
    (hl : isLit p.currentState = false) : isLit (stepDictKey p b).p.currentState = false := by
  obtain ⟨esc, lb, ref, done, rest, err, hd, _, h2, _⟩ := doString_spec p b hb
  unfold stepDictKey
  rw [hd]
  cases done with
  | true =>
    obtain ⟨rfl, _⟩ := h2 rfl
    simp only [Bool.true_and, Option.isNone_none, if_true]
    rw [visit_cs]
    rfl
  | false =>
    simp only [Bool.false_and, Bool.false_eq_true, if_false]
    exact hl

theorem endDict_notLit (p : P) (b : Bytes) (hst : ∀ s ∈ p.states, isRet s = true) :
    isLit (endDict p b).p.currentState = false := by
  unfold endDict; simp only [visit_cs]; exact popState_notLit _ hst

theorem endArray_notLit (p : P) (b : Bytes) (hst : ∀ s ∈ p.states, isRet s = true) :
    isLit (endArray p b).p.currentState = false := by
  unfold endArray; simp only [visit_cs]; exact popState_notLit _ hst

theorem stepDict_notLit (p : P) (b : Bytes) (ae : Bool) (hst : ∀ s ∈ p.states, isRet s = true)
    (hl : isLit p.currentState = false) : isLit (stepDict p b ae).p.currentState = false := by
  unfold stepDict
  split
  · exact hl
  · simp only
    split
    · split
      · exact hl
      · exact endDict_notLit _ _ hst
    · split
      · rfl
      · exact hl

theorem stepDictValueEnd_notLit (p : P) (b : Bytes) (hst : ∀ s ∈ p.states, isRet s = true)
    (hl : isLit p.currentState = false) : isLit (stepDictValueEnd p b).p.currentState = false := by
  unfold stepDictValueEnd
  split
  · exact hl
  · split
    · exact endDict_notLit _ _ hst
    · split
      · rfl
      · exact hl

theorem stepArray_notLit (p : P) (b : Bytes) (ae : Bool) (hst : ∀ s ∈ p.states, isRet s = true)
    (hl : isLit p.currentState = false) : isLit (stepArray p b ae).p.currentState = false := by
  unfold stepArray
  split
  · exact hl
  · simp only
    split
    · split
      · exact hl
      · exact endArray_notLit _ _ hst
    · rfl

theorem stepArrValueEnd_notLit (p : P) (b : Bytes) (hst : ∀ s ∈ p.states, isRet s = true)
    (hl : isLit p.currentState = false) : isLit (stepArrValueEnd p b).p.currentState = false := by
  unfold stepArrValueEnd
  split
  · exact hl
  · split
    · exact endArray_notLit _ _ hst
    · split
      · rfl
      · exact hl

theorem stepValue_notLit (p : P) (b : Bytes) (ret : St) (hst : ∀ s ∈ p.states, isRet s = true)
    (hret : isRet ret = true) (hl : isLit p.currentState = false)
    (hc : ∀ c tl, trimLeft b = c :: tl → c ≠ ch 'n' ∧ c ≠ ch 'f' ∧ c ≠ ch 't') :
    isLit (stepValue p b ret).p.currentState = false := by
  unfold stepValue
  split
  · exact hl
  · rename_i c tl htr
    obtain ⟨c1, c2, c3⟩ := hc c tl htr
    have e1 : (c == ch 'n') = false := by simpa using c1
    have e2 : (c == ch 'f') = false := by simpa using c2
    have e3 : (c == ch 't') = false := by simpa using c3
    simp only [e1, e2, e3, Bool.false_eq_true, if_false]
    split
    · simp only [visit_cs, pushState_ret p ret _ hret]; rfl
    · split
      · simp only [visit_cs, pushState_ret p ret _ hret]; rfl
      · split
        · have := pushState_ret { p with literalBuffer := [] } ret .stringState hret
          simp only at this
          rw [this]
          exact stepString_notLit _ _ (by simp) (stack_cons hst hret) rfl
        · split
          · exact isLit_ret hret
          · rename_i hnum
            have := pushState_ret { p with isDouble := false, literalBuffer := [] } ret .numberState hret
            simp only at this
            rw [this]
            refine stepNumber_notLit _ _ (stack_cons hst hret) rfl ?_
            simp only [List.nil_append]
            apply scanNumber_tok_ne
            apply numStart_not_stop
            cases hx : (c == ch '-' || c == ch '+' || c == ch '.' || Parse.isDigit c) with
            | true => rfl
            | false => rw [hx] at hnum; simp at hnum

/-! ## Eqv and its congruence -/

/-- equal up to a `required` that will not be read -/
def Eqv (p q : P) : Prop := ∃ r, q = setReq p r ∧ (isLit p.currentState = true → r = p.required)

theorem Eqv.refl (p : P) : Eqv p p := ⟨p.required, (setReq_self p).symm, fun _ => rfl⟩

theorem Eqv.cs {p q : P} (h : Eqv p q) : q.currentState = p.currentState := by
  obtain ⟨r, rfl, _⟩ := h; rfl

theorem Eqv.symm {p q : P} (h : Eqv p q) : Eqv q p := by
  obtain ⟨r, rfl, hr⟩ := h
  refine ⟨p.required, by cases p; rfl, fun hl => ?_⟩
  exact (hr hl).symm

theorem Eqv.trans {p q s : P} (h1 : Eqv p q) (h2 : Eqv q s) : Eqv p s := by
  obtain ⟨r, rfl, hr⟩ := h1
  obtain ⟨r', rfl, hr'⟩ := h2
  refine ⟨r', by cases p; rfl, fun hl => ?_⟩
  have := hr' hl
  rw [this]; exact hr hl

theorem Eqv.inv {p q : P} (h : Eqv p q) (hp : Inv p) : Inv q := by
  obtain ⟨r, rfl, hr⟩ := h
  refine ⟨hp.stack, fun hl => ?_, hp.num⟩
  have := hr hl
  show r ≤ kindLen p.currentState
  rw [this]; exact hp.lit hl

/-- results of a step that agree up to `Eqv` -/
def ResEqv (x y : R × Bool) : Prop :=
  y.2 = x.2 ∧ y.1.rest = x.1.rest ∧ y.1.err = x.1.err ∧ y.1.reported = x.1.reported ∧ Eqv x.1.p y.1.p

theorem ResEqv.refl (x : R × Bool) : ResEqv x x := ⟨rfl, rfl, rfl, rfl, Eqv.refl _⟩

theorem resEqv_setReq (x : R) (s : Bool) (r : Nat) (h : isLit x.p.currentState = false) :
    ResEqv (x, s) (setReqR x r, s) :=
  ⟨rfl, rfl, rfl, rfl, r, rfl, fun hl => by rw [h] at hl; simp at hl⟩

/-- ONE STEP respects `Eqv` -/
theorem execStep_eqv (p q : P) (b : Bytes) (hb : b ≠ []) (hinv : Inv p) (h : Eqv p q) :
    ResEqv (execStep p b) (execStep q b) := by
  obtain ⟨r, rfl, hr⟩ := h
  by_cases hl : isLit p.currentState = true
  · rw [hr hl, setReq_self]; exact ResEqv.refl _
  · have hl' : isLit p.currentState = false := by simpa using hl
    have hst := hinv.stack
    have hcs' : (setReq p r).currentState = p.currentState := rfl
    unfold execStep
    rw [hcs']
    cases hcs : p.currentState with
    | failedState =>
      simp only
      cases he : p.err with
      | none =>
        have he' : (setReq p r).err = none := he
        simp only [he', Option.isNone_none, if_true]
        exact resEqv_setReq _ _ r rfl
      | some e =>
        have he' : (setReq p r).err = some e := he
        simp only [he', Option.isNone_some, Bool.false_eq_true, if_false]
        rw [he]
        exact resEqv_setReq { p := p, rest := b, err := some e } _ r hl'
    | startState =>
      simp only [stepStart, hcs', hcs]
      rcases stepValue_setReq p r b .startState with h | ⟨h, hc⟩
      · rw [h]; exact ResEqv.refl _
      · rw [h]; exact resEqv_setReq _ _ r (stepValue_notLit p b _ hst rfl hl' hc)
    | dictState =>
      simp only [stepDict_setReq]
      exact resEqv_setReq _ _ r (stepDict_notLit p b _ hst hl')
    | dictNextFieldState =>
      simp only [stepDict_setReq]
      exact resEqv_setReq _ _ r (stepDict_notLit p b _ hst hl')
    | dictFieldState =>
      simp only [stepDictKey_setReq p r b hb]
      exact resEqv_setReq _ _ r (stepDictKey_notLit p b hb hl')
    | dictFieldValueSep =>
      simp only
      split
      · exact resEqv_setReq _ _ r hl'
      · exact resEqv_setReq _ _ r rfl
    | dictFieldValue =>
      simp only
      rcases stepValue_setReq p r b .dictFieldStateEnd with h | ⟨h, hc⟩
      · rw [h]; exact ResEqv.refl _
      · rw [h]; exact resEqv_setReq _ _ r (stepValue_notLit p b _ hst rfl hl' hc)
    | dictFieldStateEnd =>
      simp only [stepDictValueEnd_setReq]
      exact resEqv_setReq _ _ r (stepDictValueEnd_notLit p b hst hl')
    | arrState =>
      simp only [stepArray_setReq]
      exact resEqv_setReq _ _ r (stepArray_notLit p b _ hst hl')
    | arrStateValue =>
      simp only
      rcases stepValue_setReq p r b .arrStateNext with h | ⟨h, hc⟩
      · rw [h]; exact ResEqv.refl _
      · rw [h]
        exact resEqv_setReq { stepValue p b .arrStateNext with reported := false } _ r
          (stepValue_notLit p b _ hst rfl hl' hc)
    | arrStateNext =>
      simp only [stepArrValueEnd_setReq]
      exact resEqv_setReq _ _ r (stepArrValueEnd_notLit p b hst hl')
    | nullState => rw [hcs] at hl; simp [isLit] at hl
    | trueState => rw [hcs] at hl; simp [isLit] at hl
    | falseState => rw [hcs] at hl; simp [isLit] at hl
    | stringState =>
      simp only [stepString_setReq p r b hb]
      exact resEqv_setReq _ _ r (stepString_notLit p b hb hst hl')
    | numberState =>
      simp only [stepNumber_setReq]
      refine resEqv_setReq _ _ r (stepNumber_notLit p b hst hl' ?_)
      intro hc
      exact hinv.num hcs (List.append_eq_nil_iff.mp hc).1

theorem cost_eqv {p q : P} (h : Eqv p q) (b : Bytes) : cost q b = cost p b := by
  simp only [cost, h.cs]

/-- the whole loop respects `Eqv` -/
theorem run_eqv (f : Nat) (p q : P) (b : Bytes) (hinv : Inv p) (h : Eqv p q) (hf : cost p b < f) :
    (run f q b).2 = (run f p b).2 ∧ Eqv (run f p b).1 (run f q b).1 := by
  induction f generalizing p q b with
  | zero => omega
  | succ f ih =>
    simp only [run]
    by_cases hb : b = []
    · subst hb; simp only [List.isEmpty_nil, if_true]; exact ⟨trivial, h⟩
    · have hbe : b.isEmpty = false := by cases b <;> simp_all
      simp only [hbe, Bool.false_eq_true, if_false]
      obtain ⟨k1, k2, k3, _, k5⟩ := execStep_eqv p q b hb hinv h
      rw [k1, k3]
      rcases step_cases p b hb hinv with hs | ⟨hs, h2, h3⟩
      · simp only [hs, if_true]; exact ⟨trivial, k5⟩
      · simp only [hs, Bool.false_eq_true, if_false]
        rw [k2]
        exact ih _ _ _ h2 k5 (by omega)

theorem runA_eqv (p q : P) (b : Bytes) (hinv : Inv p) (h : Eqv p q) :
    (runA q b).2 = (runA p b).2 ∧ Eqv (runA p b).1 (runA q b).1 := by
  unfold runA
  rw [cost_eqv h b]
  exact run_eqv _ p q b hinv h (Nat.lt_succ_self _)

end SF.Json.ParseP
