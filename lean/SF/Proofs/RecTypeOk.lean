/-
  Good types over menagerie members compile, whenever the rules accept them locally — by
  induction on the number of members not yet under compilation (`rank`), then on the depth of
  the type.  (cf. `FoldTypeOk`.)
-/
import SF.Proofs.RecEmpty
import SF.Proofs.FoldTypeOk
namespace SF.FoldRec
open SF SF.Gotype SF.Gotype.Fold SF.Gotype.Rules SF.FoldProofs

/-- the rules accept the type, wherever they were asked (whatever names were `seen`) -/
def LocOK (reg : Bool) (t : GoType) : Prop := ∃ k seen, typeOkF k reg seen t = .ok ()

def LocOKF (reg : Bool) (f : Field) : Prop := ∃ k seen, fieldOkF k reg seen f = .ok ()

/-- members with no forwarding entry yet: what a compilation can still enter -/
def rank (ns : List String) (op : Open) : Nat :=
  (ns.filter fun n => !op.norm.contains n).length + (ns.filter fun n => !op.inl.contains n).length

theorem filter_length_lt {p q : String → Bool} {l : List String} {a : String} (ha : a ∈ l)
    (hpa : p a = true) (hqa : q a = false) (hpq : ∀ x, q x = true → p x = true) :
    (l.filter q).length + 1 ≤ (l.filter p).length := by
  induction l with
  | nil => cases ha
  | cons x l ih =>
    simp only [List.filter_cons]
    rcases List.mem_cons.mp ha with rfl | ha'
    · simp only [hpa, hqa, if_true, Bool.false_eq_true, if_false, List.length_cons]
      have : (l.filter q).length ≤ (l.filter p).length := by
        clear ih ha
        induction l with
        | nil => simp
        | cons y l ih2 =>
          simp only [List.filter_cons]
          by_cases hq : q y = true
          · simp [hq, hpq y hq]; exact ih2
          · simp only [hq, Bool.false_eq_true, if_false]
            split
            · simp only [List.length_cons]; omega
            · exact ih2
      omega
    · have := ih ha'
      by_cases hq : q x = true
      · simp [hq, hpq x hq]; omega
      · simp only [hq, Bool.false_eq_true, if_false]
        split
        · simp only [List.length_cons]; omega
        · exact this

theorem rank_enter {ns : List String} {op : Open} {n : String} {m : Methods} {u : GoType}
    (hn : n ∈ ns) (hno : isOpen op (.named n m u) = false) :
    rank ns (op.enter (.named n m u)) + 1 ≤ rank ns op := by
  unfold rank
  have hc : op.norm.contains n = false := by simpa [isOpen, GoType.menagerieName?] using hno
  have h1 : (ns.filter fun x => !(op.enter (.named n m u)).norm.contains x).length + 1 ≤
      (ns.filter fun x => !op.norm.contains x).length := by
    refine filter_length_lt hn (by simp only [hc]; rfl) ?_ ?_
    · simp [Open.enter, GoType.menagerieName?]
    · intro x hx
      simp only [Open.enter, GoType.menagerieName?, List.contains_cons, Bool.not_or, Bool.and_eq_true] at hx
      exact hx.2
  have h2 : (op.enter (.named n m u)).inl = op.inl := rfl
  rw [h2]
  omega

theorem rank_enterInl {ns : List String} {op : Open} {n : String} {m : Methods} {u : GoType}
    (hn : n ∈ ns) (hno : isOpenInl op (.named n m u) = false) :
    rank ns (enterInl op (.named n m u)) + 1 ≤ rank ns op := by
  unfold rank
  have hc : op.inl.contains n = false := by simpa [isOpenInl, GoType.menagerieName?] using hno
  have h1 : (ns.filter fun x => !(enterInl op (.named n m u)).inl.contains x).length + 1 ≤
      (ns.filter fun x => !op.inl.contains x).length := by
    refine filter_length_lt hn (by simp only [hc]; rfl) ?_ ?_
    · simp [enterInl, GoType.menagerieName?]
    · intro x hx
      simp only [enterInl, GoType.menagerieName?, List.contains_cons, Bool.not_or, Bool.and_eq_true] at hx
      exact hx.2
  have h2 : (enterInl op (.named n m u)).norm = op.norm := rfl
  rw [h2]
  omega

theorem enter_unnamed (op : Open) {T : GoType} (h : unnamedHead T = true) : op.enter T = op := by
  unfold Open.enter
  rw [name_unnamed h]

theorem enterInl_unnamed (op : Open) {T : GoType} (h : unnamedHead T = true) : enterInl op T = op := by
  unfold enterInl
  rw [name_unnamed h]

theorem isOpen_unnamed (op : Open) {T : GoType} (h : unnamedHead T = true) : isOpen op T = false := by
  unfold isOpen
  rw [name_unnamed h]
  rfl

theorem isOpenInl_unnamed (op : Open) {T : GoType} (h : unnamedHead T = true) : isOpenInl op T = false := by
  unfold isOpenInl
  rw [name_unnamed h]
  rfl

section
variable {ns : List String} {D : Nat} (hM : MenOK ns D)
include hM

theorem typeOkF_unnamedR (n : Nat) (reg : Bool) (seen : List String) {T : GoType}
    (h : goodR ns T = true) (hu : unnamedHead T = true) :
    typeOkF (n + 1) reg seen T =
      match (generalizing := false) T with
      | .bool | .string | .int _ | .float32 | .float64 | .iface => .ok ()
      | .slice e | .array _ e | .ptr e => typeOkF n reg seen e
      | .map k e => if isStringKind k then typeOkF n reg seen e else .error .nonStringKey
      | .struct fs => fs.forM (fun f => fieldOkF n reg seen f)
      | _ => .error .unsupported := by
  conv => lhs; unfold typeOkF
  simp only [customOf_goodR hM reg h, Option.isSome_none, Bool.false_eq_true, if_false, name_unnamed hu]
  cases T <;> rfl

theorem inlineOkF_goodR (n : Nat) (reg : Bool) (seen : List String) {T : GoType} (h : goodR ns T = true) :
    inlineOkF (n + 1) reg seen T =
      match (generalizing := false) T.under with
      | .ptr e => inlineOkF n reg seen e
      | .struct _ | .map _ _ => typeOkF n reg seen T
      | .iface => .ok ()
      | _ => .error .inlineNeedsObject := by
  conv => lhs; unfold inlineOkF
  simp only [customOf_goodR hM reg h, Option.isSome_none, Bool.false_eq_true, if_false]
  cases T.under <;> rfl

/-- the rules accept the body of a member (declared or referred to) locally -/
theorem locOK_body (reg : Bool) {T : GoType} {n : String} {u : GoType} (h : goodR ns T = true)
    (hw : T.whnf = .named n {} u) : LocOK reg u ∧ n ∈ ns := by
  have hgw := good_whnf hM h
  rw [hw] at hgw
  obtain ⟨_, h1, _⟩ := canonR hM hgw
  have hn : n ∈ ns := by
    simp only [goodR, Bool.and_eq_true] at hgw
    simpa using hgw.1.1
  obtain ⟨k, hk⟩ := hM.locally n hn u h1 reg
  exact ⟨⟨k, ns, hk⟩, hn⟩

/-- through pointers -/
theorem locOK_strip (reg : Bool) : ∀ T, goodR ns T = true → LocOK reg T → LocOK reg (stripPtr T).2 := by
  refine strip_inductionR hM _ ?_ ?_
  · intro T _ _ hs h; rw [hs]; exact h
  · intro T e hg hu _ hs ih h
    rw [hs]
    refine ih ?_
    obtain ⟨k, seen, hk⟩ := h
    cases k with
    | zero => simp [typeOkF] at hk
    | succ k =>
      have hT : T = .ptr e := by
        rcases headKind_of_ptr hM hg hu with h1 | ⟨n, m, u, rfl⟩
        · rw [under_unnamed h1] at hu; exact hu
        · exfalso
          have := (canonR hM hg).2.2.2.1
          simp only [GoType.under] at hu
          exact this e hu
      subst hT
      rw [typeOkF_unnamedR hM k reg seen hg rfl] at hk
      exact ⟨k, seen, hk⟩

theorem inlineOkF_stripR (reg : Bool) : ∀ T, goodR ns T = true →
    ∀ n seen, inlineOkF n reg seen T = .ok () → ∃ n', inlineOkF n' reg seen (stripPtr T).2 = .ok () := by
  refine strip_inductionR hM _ ?_ ?_
  · intro T _ _ hs n seen hok
    rw [hs]
    exact ⟨n, hok⟩
  · intro T e hg hu _ hs ih n seen hok
    rw [hs]
    cases n with
    | zero => simp [inlineOkF] at hok
    | succ n =>
      rw [inlineOkF_goodR hM n reg seen hg, hu] at hok
      exact ih n seen hok

/-! ## one level of compilation, from compilers for the parts -/

/-- compile a normalized type without forwarding entry, given compilers for the parts of its
underlying type `U` -/
theorem shape_step (o : FoldOpts) (reg : Bool) {op : Open} {t' U : GoType}
    (hg : goodR ns t' = true) (hw : t'.whnf = t') (hno : isOpen op t' = false)
    (hU : t'.under = U) (hgU : goodR ns U = true) (huU : unnamedHead U = true) (hdU : tdepth U ≤ 1000)
    {k : Nat} {seen : List String} (hloc : typeOkF (k + 1) reg seen U = .ok ())
    {cf : Nat} (hcf : 4 ≤ cf)
    (hsub : ∀ e, goodR ns e = true → tdepth e + 1 ≤ tdepth U → LocOK reg e → ∀ c, cf ≤ c + 3 →
      ∃ f, getReflectFold c o (op.enter t') e = .ok f)
    (hsubF : ∀ fs, goodRFs ns fs = true → tdepthFs fs + 1 ≤ tdepth U → (∀ f ∈ fs, LocOKF reg f) →
      ∀ c kk, cf ≤ c + 2 →
      ∃ fvs, (fs.zipIdx kk).mapM (fun (x : Field × Nat) => buildFieldFold c o (op.enter t') x.1 x.2) = .ok fvs) :
    ∃ f, getReflectFold cf o op t' = .ok f := by
  rw [typeOkF_unnamedR hM k reg seen hgU huU] at hloc
  obtain ⟨c, rfl⟩ := exists_succ (k := 0) (by omega : 0 + 1 ≤ cf)
  have hkind := headKindR hM hg hw
  subst hU
  generalize hUU : t'.under = U at hloc hgU huU hdU hsub hsubF
  cases U with
  | bool => exact ⟨_, grf_primkindR hM c o op hg hw hno (p := .bool) (by rw [hUU]; rfl)⟩
  | string => exact ⟨_, grf_primkindR hM c o op hg hw hno (p := .string) (by rw [hUU]; rfl)⟩
  | int kk => exact ⟨_, grf_primkindR hM c o op hg hw hno (p := .num kk) (by rw [hUU]; rfl)⟩
  | float32 => exact ⟨_, grf_primkindR hM c o op hg hw hno (p := .f32) (by rw [hUU]; rfl)⟩
  | float64 => exact ⟨_, grf_primkindR hM c o op hg hw hno (p := .f64) (by rw [hUU]; rfl)⟩
  | iface => exact ⟨_, grf_ifaceR hM c o op hg hw hno hUU⟩
  | named a b c' => simp [unnamedHead] at huU
  | ref a => simp [unnamedHead] at huU
  | chan e => simp at hloc
  | other kk => simp at hloc
  | slice e =>
    have he : goodR ns e = true := by simpa [goodR] using hgU
    by_cases hfast : unnamedHead t' = true ∧ ∃ p, primOf? e = some p
    · obtain ⟨hu, p, hpr⟩ := hfast
      rw [under_unnamed hu] at hUU
      subst hUU
      exact ⟨_, grf_slice_prim c o op hpr⟩
    · have hnp : noPrimitive t' := by
        refine noPrimitive_of_underR hM hg hw ?_
        intro hu
        rw [hUU]
        cases hpr : primOf? e with
        | some p => exact absurd ⟨hu, p, hpr⟩ hfast
        | none => simp [getReflectFoldPrimitive, hpr]
      obtain ⟨c', rfl⟩ := exists_succ (k := 0) (by omega : 0 + 1 ≤ c)
      obtain ⟨el, hel⟩ := hsub e he (by simp [tdepth]) ⟨k, seen, hloc⟩ c' (by omega)
      exact ⟨_, by rw [grf_sliceR hM c' o op hg hw hno hUU hnp, hel]⟩
  | array n e =>
    have he : goodR ns e = true := by simpa [goodR] using hgU
    obtain ⟨c', rfl⟩ := exists_succ (k := 0) (by omega : 0 + 1 ≤ c)
    obtain ⟨el, hel⟩ := hsub e he (by simp [tdepth]) ⟨k, seen, hloc⟩ c' (by omega)
    exact ⟨_, by rw [grf_arrayR hM c' o op hg hw hno hUU, hel]⟩
  | map kt e =>
    have hke : goodR ns kt = true ∧ goodR ns e = true := by simpa [goodR] using hgU
    simp only [] at hloc
    by_cases hk : isStringKind kt = true
    · simp only [hk, if_true] at hloc
      have hks := isStringKind_iff.mp hk
      by_cases hfast : unnamedHead t' = true ∧ kt = .string ∧ ∃ p, primOf? e = some p
      · obtain ⟨hu, rfl, p, hpr⟩ := hfast
        rw [under_unnamed hu] at hUU
        subst hUU
        exact ⟨_, grf_map_prim c o op hpr⟩
      · have hnp : noPrimitive t' := by
          refine noPrimitive_of_underR hM hg hw ?_
          intro hu
          rw [hUU]
          by_cases hk2 : kt = .string
          · subst hk2
            cases hpr : primOf? e with
            | some p => exact absurd ⟨hu, rfl, p, hpr⟩ hfast
            | none => simp [getReflectFoldPrimitive, hpr]
          · exact getReflectFoldPrimitive_map_nonstring hk2
        obtain ⟨c', rfl⟩ := exists_succ (k := 1) (by omega : 1 + 1 ≤ c)
        obtain ⟨c'', rfl⟩ := exists_succ (k := 0) (by omega : 0 + 1 ≤ c')
        rw [grf_mapR hM c'' o op hg hw hno hUU hnp, grfmk_good c'' o _ hUU]
        simp only [hks]
        by_cases hi : e = .iface
        · subst hi; exact ⟨_, rfl⟩
        · cases hpr : primOf? e with
          | some p =>
            refine ⟨.mapFold (.mapInline (some p)), ?_⟩
            cases e <;> first | (exact absurd rfl hi) | (simp only [hpr])
          | none =>
            obtain ⟨el, hel⟩ := hsub e hke.2 (by simp only [tdepth]; omega) ⟨k, seen, hloc⟩ c'' (by omega)
            refine ⟨.mapFold (.mapKeys el), ?_⟩
            cases e <;> first | (exact absurd rfl hi) | (simp only [hpr, hel])
    · simp [hk] at hloc
  | ptr e =>
    -- only an unnamed pointer type: the bodies of members are no pointers
    have hT : t' = .ptr e := by
      rcases hkind with h1 | ⟨n, m, u, rfl⟩
      · rw [under_unnamed h1] at hUU; exact hUU
      · exfalso
        have := (canonR hM hg).2.2.2.1
        simp only [GoType.under] at hUU
        exact this e hUU
    subst hT
    obtain ⟨c', rfl⟩ := exists_succ (k := 0) (by omega : 0 + 1 ≤ c)
    have hb := baseType_goodR hM hg hdU
    have hdb := tdepth_stripPtr (.ptr e)
    have hs1 : 1 ≤ (stripPtr (GoType.ptr e)).1 := by simp [stripPtr]
    have hlb := locOK_strip hM reg (.ptr e) hg ⟨k + 1, seen, by rw [typeOkF_unnamedR hM k reg seen hg rfl]; exact hloc⟩
    obtain ⟨el, hel⟩ := hsub (stripPtr (.ptr e)).2 (good_stripPtrR hM _ hg) (by omega) hlb c' (by omega)
    refine ⟨makePointerFold (stripPtr (.ptr e)).1 el, ?_⟩
    rw [grf_ptrR hM c' o op hg hw hno hUU, hb, hel]
  | struct fs =>
    have hfs : goodRFs ns fs = true := by simpa [goodR] using hgU
    obtain ⟨c', rfl⟩ := exists_succ (k := 0) (by omega : 0 + 1 ≤ c)
    obtain ⟨fvs, hfvs⟩ := hsubF fs hfs (by simp [tdepth]) (fun f hf => ⟨k, seen, forM_ok hloc f hf⟩) c' 0 (by omega)
    refine ⟨.structFold (fvs.filterMap id) (structFoldLen fs (fvs.filterMap id).length), ?_⟩
    rw [grf_structR hM (c' + 1) o op hg hw hno hUU, grfs_eq, hfvs]
    rfl

/-- the base folder of an inline field (`fieldFoldGenInline`), given compilers for the parts of
the (underlying) struct / map type -/
theorem inline_base_step (o : FoldOpts) (reg : Bool) {op : Open} {bt : GoType}
    (hg : goodR ns bt = true) (hnp : ∀ e, bt.under ≠ .ptr e)
    {n : Nat} {seen : List String} (hloc : inlineOkF (n + 1) reg seen bt = .ok ())
    {cf : Nat} (hcf : 4 ≤ cf)
    (hsub : ∀ e, goodR ns e = true → tdepth e + 1 ≤ tdepth bt.under → LocOK reg e → ∀ c, cf ≤ c + 2 →
      ∃ f, getReflectFold c o (enterInl op bt.whnf) e = .ok f)
    (hsubF : ∀ fs, goodRFs ns fs = true → tdepthFs fs + 1 ≤ tdepth bt.under → (∀ f ∈ fs, LocOKF reg f) →
      ∀ c kk, cf ≤ c + 2 →
      ∃ fvs, (fs.zipIdx kk).mapM (fun (x : Field × Nat) => buildFieldFold c o (enterInl op bt.whnf) x.1 x.2) = .ok fvs) :
    ∃ base, fieldFoldGenInline cf o (enterInl op bt.whnf) bt = .ok base := by
  rw [inlineOkF_goodR hM n reg seen hg] at hloc
  obtain ⟨c, rfl⟩ := exists_succ (k := 0) (by omega : 0 + 1 ≤ cf)
  rw [ffgiR hM c o _ hg]
  have hgu := good_underR hM hg
  -- the rules accept the underlying type locally
  have hlocU : (∃ fs, bt.under = .struct fs) ∨ (∃ k e, bt.under = .map k e) →
      ∃ k seen', typeOkF (k + 1) reg seen' bt.under = .ok () := by
    intro hshape
    have htok : typeOkF n reg seen bt = .ok () := by
      rcases hshape with ⟨fs, h⟩ | ⟨k, e, h⟩ <;> (rw [h] at hloc; exact hloc)
    rcases whnfR hM hg with ⟨_, hu⟩ | ⟨nm, u, _, h2, _⟩
    · rw [under_unnamed hu]
      cases n with
      | zero => simp [typeOkF] at htok
      | succ n => exact ⟨n, seen, htok⟩
    · obtain ⟨⟨k, seen', hk⟩, _⟩ := locOK_body hM reg hg h2
      rw [← under_whnf hM hg, h2]
      simp only [GoType.under]
      cases k with
      | zero => simp [typeOkF] at hk
      | succ k => exact ⟨k, seen', hk⟩
  generalize hU : bt.under = U at hloc hgu hnp hsub hsubF hlocU
  cases U with
  | struct fs =>
    obtain ⟨k, seen', hk⟩ := hlocU (Or.inl ⟨fs, rfl⟩)
    rw [typeOkF_unnamedR hM k reg seen' hgu.1 hgu.2] at hk
    have hfs : goodRFs ns fs = true := by simpa [goodR] using hgu.1
    obtain ⟨c', rfl⟩ := exists_succ (k := 0) (by omega : 0 + 1 ≤ c)
    obtain ⟨fvs, hfvs⟩ := hsubF fs hfs (by simp [tdepth]) (fun f hf => ⟨k, seen', forM_ok hk f hf⟩) c' 0 (by omega)
    exact ⟨.fieldsFold (fvs.filterMap id), by simp only []; rw [grfs_eq, hfvs]; rfl⟩
  | map kt e =>
    obtain ⟨k, seen', hk⟩ := hlocU (Or.inr ⟨kt, e, rfl⟩)
    rw [typeOkF_unnamedR hM k reg seen' hgu.1 hgu.2] at hk
    have hke : goodR ns kt = true ∧ goodR ns e = true := by simpa [goodR] using hgu.1
    simp only [] at hk ⊢
    by_cases hks : isStringKind kt = true
    · simp only [hks, if_true] at hk
      have hku := isStringKind_iff.mp hks
      obtain ⟨c', rfl⟩ := exists_succ (k := 0) (by omega : 0 + 1 ≤ c)
      have huw : bt.whnf.under = .map kt e := by rw [under_whnf hM hg]; exact hU
      rw [grfmk_good c' o _ huw]
      simp only [hku]
      by_cases hi : e = .iface
      · subst hi; exact ⟨_, rfl⟩
      · cases hpr : primOf? e with
        | some p =>
          refine ⟨.mapInline (some p), ?_⟩
          cases e <;> first | (exact absurd rfl hi) | (simp only [hpr])
        | none =>
          obtain ⟨el, hel⟩ := hsub e hke.2 (by simp only [tdepth]; omega) ⟨k, seen', hk⟩ c' (by omega)
          refine ⟨.mapKeys el, ?_⟩
          cases e <;> first | (exact absurd rfl hi) | (simp only [hpr, hel])
    · simp [hks] at hk
  | iface => exact ⟨_, rfl⟩
  | ptr e => exact absurd rfl (hnp e)
  | _ => simp at hloc

/-- the folder of one field, given compilers for its type and for the base of an inline field -/
theorem field_step (o : FoldOpts) (reg : Bool) {op : Open} {f : Field}
    (hgf : goodRF ns f = true) (hdf : tdepth f.typ ≤ 1000) (hloc : LocOKF reg f) {cf : Nat} (idx : Nat)
    (hcf : 6 ≤ cf)
    (hsub : ∀ e, goodR ns e = true → tdepth e ≤ tdepth f.typ → LocOK reg e → ∀ c, cf ≤ c + 1 →
      ∃ vv, getReflectFold c o op e = .ok vv)
    (hbase : isOpenInl op (stripPtr f.typ).2.whnf = false → ∀ n seen,
      inlineOkF (n + 1) reg seen (stripPtr f.typ).2 = .ok () → ∀ c, cf ≤ c + 2 →
      ∃ base, fieldFoldGenInline c o (enterInl op (stripPtr f.typ).2.whnf) (stripPtr f.typ).2 = .ok base) :
    ∃ fo, buildFieldFold cf o op f idx = .ok fo := by
  have hpt : goodR ns f.typ = true := by
    cases f; simp only [goodRF, Bool.and_eq_true] at hgf; exact hgf.1
  obtain ⟨n, seen, hf⟩ := hloc
  cases n with
  | zero => simp [fieldOkF] at hf
  | succ n =>
  rw [fieldOkF_eq] at hf
  obtain ⟨c, rfl⟩ := exists_succ (k := 0) (by omega : 0 + 1 ≤ cf)
  rw [buildFieldFold_eq]
  have hdb := tdepth_stripPtr f.typ
  cases hk : fieldKind f with
  | drop => exact ⟨_, rfl⟩
  | conflict => simp [hk] at hf
  | plain name =>
    simp only [hk] at hf ⊢
    obtain ⟨vv, hvv⟩ := hsub f.typ hpt (Nat.le_refl _) ⟨n, seen, hf⟩ c (by omega)
    exact ⟨_, by rw [hvv]⟩
  | omitEmpty name =>
    simp only [hk] at hf ⊢
    obtain ⟨vv, hvv⟩ := hsub (stripPtr f.typ).2 (good_stripPtrR hM _ hpt) (by omega)
      (locOK_strip hM reg _ hpt ⟨n, seen, hf⟩) c (by omega)
    rw [baseType_goodR hM hpt hdf, hvv]
    simp only []
    split <;> exact ⟨_, rfl⟩
  | inline =>
    simp only [hk] at hf ⊢
    obtain ⟨c2, rfl⟩ := exists_succ (k := 0) (by omega : 0 + 1 ≤ c)
    rw [bffiR c2 o op f idx, baseType_goodR hM hpt hdf]
    by_cases ho : isOpenInl op (stripPtr f.typ).2.whnf = true
    · simp only [ho, if_true]
      exact ⟨_, rfl⟩
    · have ho' : isOpenInl op (stripPtr f.typ).2.whnf = false := by simpa using ho
      simp only [ho', Bool.false_eq_true, if_false]
      obtain ⟨n', hn'⟩ := inlineOkF_stripR hM reg f.typ hpt n seen hf
      cases n' with
      | zero => simp [inlineOkF] at hn'
      | succ n' =>
        obtain ⟨base, hbase'⟩ := hbase ho' n' seen hn' c2 (by omega)
        exact ⟨_, by rw [hbase']; rfl⟩

/-! ## the induction -/

/-- `getReflectFold` succeeds on good, locally accepted types of depth ≤ d, when at most `k`
members can still be entered -/
def CompR (ns : List String) (D : Nat) (o : FoldOpts) (reg : Bool) (k d : Nat) : Prop :=
  ∀ op, rank ns op ≤ k → ∀ t, goodR ns t = true → tdepth t ≤ d → LocOK reg t →
    ∀ cf, 4 * (k * (D + 1) + d) + 4 ≤ cf → ∃ f, getReflectFold cf o op t = .ok f

def CompRF (ns : List String) (D : Nat) (o : FoldOpts) (reg : Bool) (k d : Nat) : Prop :=
  ∀ op, rank ns op ≤ k → ∀ fs, goodRFs ns fs = true → tdepthFs fs ≤ d → (∀ f ∈ fs, LocOKF reg f) →
    ∀ cf idx, 4 * (k * (D + 1) + d) + 6 ≤ cf →
    ∃ fvs, (fs.zipIdx idx).mapM (fun (x : Field × Nat) => buildFieldFold cf o op x.1 x.2) = .ok fvs

omit hM in
theorem goodRFs_mem {fs : List Field} (hfs : goodRFs ns fs = true) {f : Field}
    (hf : f ∈ fs) : goodRF ns f = true ∧ tdepthF f ≤ tdepthFs fs := by
  induction fs with
  | nil => cases hf
  | cons g fs ih =>
    simp only [goodRFs, Bool.and_eq_true] at hfs
    simp only [tdepthFs]
    rcases List.mem_cons.mp hf with rfl | hf'
    · exact ⟨hfs.1, Nat.le_max_left _ _⟩
    · have := ih hfs.2 hf'
      exact ⟨this.1, Nat.le_trans this.2 (Nat.le_max_right _ _)⟩

theorem compR_step (o : FoldOpts) (reg : Bool) (hD : D ≤ 1000) (k d : Nat) (hd : d ≤ D)
    (ihd : ∀ d' < d, CompR ns D o reg k d' ∧ CompRF ns D o reg k d')
    (ihk : 1 ≤ k → CompR ns D o reg (k - 1) D ∧ CompRF ns D o reg (k - 1) D) :
    CompR ns D o reg k d := by
  intro op hrk t hg hdt hloc cf hcf
  rw [grf_whnfR hM cf o op hg]
  have hgw := good_whnf hM hg
  have hww := whnf_whnf hM hg
  rcases whnfR hM hg with ⟨h1, hu⟩ | ⟨n, u, _, h2, h3, _, h5, h6, _⟩
  · -- an unnamed type: the parts with the same registry
    rw [h1]
    obtain ⟨kk, seen, hk⟩ := hloc
    cases kk with
    | zero => simp [typeOkF] at hk
    | succ kk =>
    refine shape_step hM o reg hg h1 (isOpen_unnamed op hu) (under_unnamed hu) hg hu (by omega) hk (by omega) ?_ ?_
    · intro e he hde hle c hc
      rw [enter_unnamed op hu]
      exact (ihd (d - 1) (by omega)).1 op hrk e he (by omega) hle c (by omega)
    · intro fs hfs hdfs hlf c idx hc
      rw [enter_unnamed op hu]
      exact (ihd (d - 1) (by omega)).2 op hrk fs hfs (by omega) hlf c idx (by omega)
  · -- a member: forwarded, or entered
    rw [h2] at hgw hww ⊢
    by_cases ho : isOpen op (.named n {} u) = true
    · obtain ⟨c, rfl⟩ := exists_succ (k := 0) (by omega : 0 + 1 ≤ cf)
      exact ⟨_, grf_open hM c o op hgw hww ho⟩
    · have ho' : isOpen op (.named n {} u) = false := by simpa using ho
      obtain ⟨⟨k0, seen0, hk0⟩, hn⟩ := locOK_body hM reg hg h2
      have hrk' := rank_enter hn ho'
      obtain ⟨ihA, ihF⟩ := ihk (by omega)
      cases k0 with
      | zero => simp [typeOkF] at hk0
      | succ k0 =>
      have hmul : k * (D + 1) = (k - 1) * (D + 1) + (D + 1) := by
        have : k = (k - 1) + 1 := by omega
        conv => lhs; rw [this]
        rw [Nat.add_mul, Nat.one_mul]
      refine shape_step hM o reg hgw hww ho' rfl h5 h3 (by show tdepth u ≤ 1000; omega) hk0 (by omega) ?_ ?_
      · intro e he hde hle c hc
        exact ihA _ (by omega) e he (by simp only [GoType.under] at hde; omega) hle c (by omega)
      · intro fs hfs hdfs hlf c idx hc
        exact ihF _ (by omega) fs hfs (by simp only [GoType.under] at hdfs; omega) hlf c idx (by omega)

theorem compRF_step (o : FoldOpts) (reg : Bool) (hD : D ≤ 1000) (k d : Nat) (hd : d ≤ D)
    (hA : CompR ns D o reg k d)
    (ihd : ∀ d' < d, CompR ns D o reg k d' ∧ CompRF ns D o reg k d')
    (ihk : 1 ≤ k → CompR ns D o reg (k - 1) D ∧ CompRF ns D o reg (k - 1) D) :
    CompRF ns D o reg k d := by
  intro op hrk fs
  induction fs with
  | nil => intro _ _ _ cf idx _; exact ⟨[], rfl⟩
  | cons f fs ih =>
    intro hg hdt hloc cf idx hcf
    simp only [tdepthFs] at hdt
    simp only [goodRFs, Bool.and_eq_true] at hg
    obtain ⟨fvs, hfvs⟩ := ih hg.2 (by omega) (fun g hg' => hloc g (by simp [hg'])) cf (idx + 1) hcf
    have hpt : goodR ns f.typ = true := by
      cases f; simp only [goodRF, Bool.and_eq_true] at hg; exact hg.1.1
    have hdf : tdepth f.typ ≤ d := by rw [← tdepthF_typ]; omega
    suffices h : ∃ fo, buildFieldFold cf o op f idx = .ok fo by
      obtain ⟨fo, hfo⟩ := h
      exact ⟨fo :: fvs, by rw [zipIdx_cons, mapM_cons]; simp only [hfo, hfvs]⟩
    refine field_step hM o reg hg.1 (by omega) (hloc f (by simp)) idx (by omega) ?_ ?_
    · intro e he hde hle c hc
      exact hA op hrk e he (by omega) hle c (by omega)
    · -- the base of an inline field
      intro hoi n seen hinl c hc
      have hgb := good_stripPtrR hM _ hpt
      have hnp := stripPtr_not_ptrR hM _ hpt
      have hdb := tdepth_stripPtr f.typ
      rcases whnfR hM hgb with ⟨h1, hu⟩ | ⟨nm, u, _, h2, h3, _, h5, h6, _⟩
      · -- an unnamed struct / map type
        rw [h1] at hoi ⊢
        rw [enterInl_unnamed op hu]
        have := inline_base_step hM o reg (op := op) hgb hnp hinl (cf := c) (by omega)
        rw [h1, enterInl_unnamed op hu, under_unnamed hu] at this
        refine this ?_ ?_
        · intro e he hde hle c' hc'
          exact (ihd (d - 1) (by omega)).1 op hrk e he (by omega) hle c' (by omega)
        · intro fs' hfs' hdfs' hlf c' idx' hc'
          exact (ihd (d - 1) (by omega)).2 op hrk fs' hfs' (by omega) hlf c' idx' (by omega)
      · -- a member: its declaration, one member fewer to enter
        rw [h2] at hoi
        obtain ⟨_, hn⟩ := locOK_body hM reg hgb h2
        have hrk' := rank_enterInl hn hoi
        obtain ⟨ihA, ihF⟩ := ihk (by omega)
        have hmul : k * (D + 1) = (k - 1) * (D + 1) + (D + 1) := by
          have : k = (k - 1) + 1 := by omega
          conv => lhs; rw [this]
          rw [Nat.add_mul, Nat.one_mul]
        have hub : (stripPtr f.typ).2.under = u := by rw [← under_whnf hM hgb, h2]; rfl
        have := inline_base_step hM o reg (op := op) hgb hnp hinl (cf := c) (by omega)
        rw [h2, hub] at this
        rw [h2]
        refine this ?_ ?_
        · intro e he hde hle c' hc'
          exact ihA _ (by omega) e he (by omega) hle c' (by omega)
        · intro fs' hfs' hdfs' hlf c' idx' hc'
          exact ihF _ (by omega) fs' hfs' (by omega) hlf c' idx' (by omega)

theorem comp_all (o : FoldOpts) (reg : Bool) (hD : D ≤ 1000) :
    ∀ k d, d ≤ D → CompR ns D o reg k d ∧ CompRF ns D o reg k d := by
  intro k
  induction k with
  | zero =>
    intro d
    induction d using Nat.strongRecOn with
    | _ d ih =>
      intro hd
      have hA := compR_step hM o reg hD 0 d hd (fun d' h => ih d' h (by omega)) (fun h => by omega)
      exact ⟨hA, compRF_step hM o reg hD 0 d hd hA (fun d' h => ih d' h (by omega)) (fun h => by omega)⟩
  | succ k ihk =>
    intro d
    induction d using Nat.strongRecOn with
    | _ d ih =>
      intro hd
      have hk : 1 ≤ k + 1 → CompR ns D o reg (k + 1 - 1) D ∧ CompRF ns D o reg (k + 1 - 1) D :=
        fun _ => ihk D (Nat.le_refl _)
      have hA := compR_step hM o reg hD (k + 1) d hd (fun d' h => ih d' h (by omega)) hk
      exact ⟨hA, compRF_step hM o reg hD (k + 1) d hd hA (fun d' h => ih d' h (by omega)) hk⟩

omit hM in
theorem rank_le (op : Open) : rank ns op ≤ 2 * ns.length := by
  unfold rank
  have h1 := List.length_filter_le (fun n => !op.norm.contains n) ns
  have h2 := List.length_filter_le (fun n => !op.inl.contains n) ns
  omega

/-- the compile fuel of `foldAnyReflect` / of the forwarding folders covers the members `ns`
and types of depth ≤ `D` -/
def FuelOK (ns : List String) (D : Nat) : Prop := 4 * (2 * ns.length * (D + 1) + D) + 8 ≤ compileFuel

/-- a good type the rules accept locally compiles, with any registry -/
theorem compile_okR (o : FoldOpts) (reg : Bool) (hD : D ≤ 1000) (hfuel : FuelOK ns D) {t : GoType}
    (hg : goodR ns t = true) (hd : tdepth t ≤ D) (hloc : LocOK reg t) (op : Open) :
    ∃ f, getReflectFold compileFuel o op t = .ok f := by
  unfold FuelOK at hfuel
  exact (comp_all hM o reg hD (2 * ns.length) D (Nat.le_refl _)).1 op (rank_le op) t hg hd hloc compileFuel
    (by omega)

/-- the base folder a forwarding inline folder compiles at fold time -/
theorem recompile_inlineR (o : FoldOpts) (reg : Bool) (hD : D ≤ 1000) (hfuel : FuelOK ns D) {bt : GoType}
    (hg : goodR ns bt = true) (hdb : tdepth bt ≤ D) (hnp : ∀ e, bt.under ≠ .ptr e)
    {n : Nat} {seen : List String} (hinl : inlineOkF (n + 1) reg seen bt = .ok ()) :
    ∃ base, fieldFoldGenInline compileFuel o { inl := (bt.whnf.menagerieName?).toList } bt = .ok base := by
  unfold FuelOK at hfuel
  have hop : ({ inl := (bt.whnf.menagerieName?).toList } : Open) = enterInl {} bt.whnf := by
    unfold enterInl
    cases bt.whnf.menagerieName? <;> rfl
  rw [hop]
  obtain ⟨hA, hF⟩ := comp_all hM o reg hD (2 * ns.length) D (Nat.le_refl _)
  have hdu := tdepth_underR hM hg
  refine inline_base_step hM o reg hg hnp hinl (by unfold compileFuel; omega) ?_ ?_
  · intro e he hde hle c hc
    exact hA _ (rank_le _) e he (by omega) hle c (by omega)
  · intro fs hfs hdfs hlf c idx hc
    exact hF _ (rank_le _) fs hfs (by omega) hlf c idx (by omega)

end

end SF.FoldRec
