/-
  Property C09 with the gotype fold as PRODUCER: the stream the fold mirror
  (`SF.Gotype.Fold.impl`) delivers is CONTRACT-CONFORMING — `WF1` (SF/Event.lean): one complete
  value, balanced, keys only inside objects and one before each member, every announced length
  -1 or EXACT, announced element types respected.

    fold_ok_wf        good type, typed value, healthy visitor:  result ok  ⇒  WF1 (expanded events)
                      — no reference to the rules, no condition on the order oracle, no depth
                      condition on the value (a fold that runs out of fuel does not return ok)
    fold_wf           … in particular whenever the rules give a value (hypotheses of `fold_agrees`)
    fold_wf_stage     the same per stage of the universe (`stageT k`)
    fold_fault_wf_prefix, fold_fault_wf_prefix_rules
                      any fault index: what a failing visitor received is a PREFIX of that
                      conforming stream (with `FoldFaultTop.fold_propagates_visitor_error`)
    run_ok_wf         the statement behind them, for every typed folder (`FV T f`), every typed
                      value, every state of a healthy user visitor

  This is stronger than `build … = some g` (`fold_agrees`) by the exact-length clause: a struct
  folder announces a member count only when every kept field contributes exactly one member (no
  kept field `omitempty` or inlined: `FoldTagRules.announced_length_rule`), else -1; slices,
  arrays, maps announce their length and deliver exactly that many elements / members whatever
  the order oracle; typed arrays / maps are single extended events whose expansion announces
  its own length and element type.

  UNIVERSE: `goodT` / `wt` of `SF.Proofs.FoldUniv`, as for property C12 (types with `Fold` /
  `IsZero` methods or a registered fold function, `inline` interface fields and recursive types
  are outside; custom folders are user code and emit what they like — e.g. the menagerie's
  `FOpen` leaves its object open).

  FILES  FoldWfShape  `IsVal` / `IsElems` / `IsMems` (event trees), the extended events of the
                      fold, what a healthy visitor received after `emit` / `seqM` / `rangeM`
         FoldWfType   folder typing `FV` / `FI` / `FM`; `compile_FV`: compiled folders are typed
         FoldWfNoOk   the compile phase never fails with the "error" `Res.ok`
         FoldWfRun    `runWf`: induction on the run fuel
-/
import SF.Proofs.FoldWfRun
import SF.Proofs.FoldRulesTop
import SF.Proofs.FoldFaultTop
namespace SF.FoldProofs.Wf
open SF SF.Gotype SF.Gotype.Fold SF.Gotype.Rules SF.FoldProofs

/-- every typed folder, on a typed value, on a healthy user visitor in any state: if the run
returns ok, the events it delivered are (after expansion of the typed arrays / maps) the events
of ONE contract-conforming tree -/
theorem run_ok_wf (o : FoldOpts) (rf : Nat) {T : GoType} {f : ReFold} {v : GoVal} {s s' : St}
    (hf : FV T f) (hw : wt T v = true) (hs : s.failAt = none)
    (h : run rf o .user f ⟨T, v⟩ s = (s', .ok)) :
    ∃ xs, s'.evs = xs.reverse ++ s.evs ∧ WF1 (expandAll xs) = true := by
  obtain ⟨xs, hd, hv⟩ := (runWf o rf).val T f v s s' hf hw hs h
  exact ⟨xs, hd.1, hv.wf1⟩

/-- MAIN THEOREM.  For every good type `T` of depth ≤ 499, every value `v` of type `T` (`wt`),
every option record with a healthy visitor (any order oracle, user folders registered or not):
if the fold returns ok, the stream it delivered is one contract-conforming document. -/
theorem fold_ok_wf (o : FoldOpts) (T : GoType) (v : GoVal)
    (hp : goodT [] T = true) (hdt : tdepth T ≤ dynBound) (hw : wt T v = true)
    (hfail : o.failAt = none) (hok : (impl o T v).res = .ok) :
    WF1 (expandAll (impl o T v).evs) = true := by
  rw [impl_eq] at hok ⊢
  let i : GoVal := match T.under with | .iface => v | _ => .iface T v
  have hwi : wt .iface i = true := by
    by_cases hT : T.under = .iface
    · have : i = v := by
        show (match T.under with | .iface => v | _ => .iface T v) = _
        rw [hT]
      rw [this]
      rw [← wt_under hp, hT] at hw
      exact hw
    · have : i = .iface T v := by
        show (match T.under with | .iface => v | _ => .iface T v) = _
        cases hU : T.under <;> first | rfl | exact absurd hU hT
      rw [this]
      exact wt_iface_mk hp hdt hw
  show WF1 (expandAll (foldInterfaceValue runFuel o .user i _).1.evs.reverse) = true
  have hok' : (foldInterfaceValue runFuel o .user i { failAt := o.failAt, hint := o.order }).2 = .ok := hok
  rcases hrun : foldInterfaceValue runFuel o .user i { failAt := o.failAt, hint := o.order } with ⟨s', r⟩
  rw [hrun] at hok'
  simp only [] at hok'
  subst hok'
  obtain ⟨xs, hd, hv⟩ := (runWf o runFuel).fiv i { failAt := o.failAt, hint := o.order } s' hwi
    (show ({ failAt := o.failAt, hint := o.order } : St).failAt = none from hfail) hrun
  have : s'.evs.reverse = xs := by rw [hd.1]; simp
  simp only [this]
  exact hv.wf1


/-- C09 for the fold, in the form of `fold_agrees`: same universe, same side conditions.  When
the rules give `r`, the stream the mirror delivers is one contract-conforming document (and, by
`fold_agrees`, builds a value `Rules.agrees` accepts for `r`) -/
theorem fold_wf (o : FoldOpts) (reg : Bool) (T : GoType) (v : GoVal) (r : RVal)
    (hp : goodT [] T = true) (hdt : tdepth T ≤ dynBound) (hw : wt T v = true)
    (hdv : 3 * vdepth v + 6 ≤ runFuel)
    (hfail : o.failAt = none) (hord : hintOK o.order)
    (hspec : Rules.foldR T v reg = .ok r) (hcost : rcost r ≤ 100000) :
    WF1 (expandAll (impl o T v).evs) = true ∧ AgreesWith (impl o T v) r := by
  have ha := fold_agrees o reg T v r hp hdt hw hdv hfail hord hspec hcost
  exact ⟨fold_ok_wf o T v hp hdt hw hfail ha.1, ha⟩

/-- … with every side condition on the inputs (`vcost`: FoldCost) -/
theorem fold_wf' (o : FoldOpts) (reg : Bool) (T : GoType) (v : GoVal) (r : RVal)
    (hp : goodT [] T = true) (hdt : tdepth T ≤ dynBound) (hw : wt T v = true)
    (hdv : 3 * vdepth v + 6 ≤ runFuel) (hcost : vcost v ≤ 100000)
    (hfail : o.failAt = none) (hord : hintOK o.order)
    (hspec : Rules.foldR T v reg = .ok r) :
    WF1 (expandAll (impl o T v).evs) = true :=
  fold_ok_wf o T v hp hdt hw hfail (fold_agrees' o reg T v r hp hdt hw hdv hcost hfail hord hspec).1

/-- … and per stage of the universe (1 scalars, 2 + slices / arrays / maps / pointers /
interfaces, 3 + structs with plain fields, 4 + `omitempty`, 5 + `inline`, 6 + named types) -/
theorem fold_wf_stage (k : Nat) (o : FoldOpts) (reg : Bool) (T : GoType) (v : GoVal) (r : RVal)
    (hT : stageT k [] T = true) (hw : wt T v = true) (hsz : Sized T v) (ho : Healthy o)
    (hspec : Rules.foldR T v reg = .ok r) (hcost : rcost r ≤ 100000) :
    WF1 (expandAll (impl o T v).evs) = true :=
  (fold_wf o reg T v r (stage_good k T [] hT) hsz.typ hw hsz.val ho.noFault ho.order hspec hcost).1

theorem expandAll_prefix {a b : List XEv} (h : a <+: b) : expandAll a <+: expandAll b := by
  obtain ⟨c, rfl⟩ := h
  exact ⟨expandAll c, by rw [expandAll_append]⟩

/-- ANY fault index: on a visitor failing at event `k`, what the fold delivered is a PREFIX of
the conforming stream it delivers to the healthy visitor (and it returns the visitor's error
iff it did not get through: `FoldFaultTop.fold_propagates_visitor_error`).  Stated for every
good type and typed value whose healthy fold returns ok — in particular whenever the rules
give a value (`fold_wf`). -/
theorem fold_fault_wf_prefix (o : FoldOpts) (T : GoType) (v : GoVal) (k : Nat)
    (hp : goodT [] T = true) (hdt : tdepth T ≤ dynBound) (hw : wt T v = true)
    (hk : o.failAt = some k) (hok : (impl { o with failAt := none } T v).res = .ok) :
    ∃ full, WF1 (expandAll full) = true ∧ (impl o T v).evs <+: full ∧
      expandAll (impl o T v).evs <+: expandAll full ∧
      (full.length ≤ k → impl o T v = { evs := full, res := .ok }) ∧
      (k < full.length → (impl o T v).res = .err .injected ∧ (impl o T v).evs = full.take (k + 1)) := by
  have hwf := fold_ok_wf { o with failAt := none } T v hp hdt hw rfl hok
  have hpre := (Fault.fold_propagates_visitor_error o T v k hk).2
  have hiff := Fault.fold_fault_iff o T v k hk
  refine ⟨(impl { o with failAt := none } T v).evs, hwf, hpre, expandAll_prefix hpre, ?_, hiff.1⟩
  intro hle
  rw [hiff.2 hle]
  generalize impl { o with failAt := none } T v = out at hok ⊢
  cases out
  simp only [] at hok
  subst hok
  rfl

/-- … in the form of `fold_agrees`: whenever the rules give a value, whatever the fault index -/
theorem fold_fault_wf_prefix_rules (o : FoldOpts) (reg : Bool) (T : GoType) (v : GoVal) (r : RVal) (k : Nat)
    (hp : goodT [] T = true) (hdt : tdepth T ≤ dynBound) (hw : wt T v = true)
    (hdv : 3 * vdepth v + 6 ≤ runFuel)
    (hk : o.failAt = some k) (hord : hintOK o.order)
    (hspec : Rules.foldR T v reg = .ok r) (hcost : rcost r ≤ 100000) :
    ∃ full, WF1 (expandAll full) = true ∧ (impl o T v).evs <+: full ∧
      expandAll (impl o T v).evs <+: expandAll full ∧
      (full.length ≤ k → impl o T v = { evs := full, res := .ok }) ∧
      (k < full.length → (impl o T v).res = .err .injected ∧ (impl o T v).evs = full.take (k + 1)) :=
  fold_fault_wf_prefix o T v k hp hdt hw hk
    (fold_agrees { o with failAt := none } reg T v r hp hdt hw hdv rfl hord hspec hcost).1

/-! ## non-vacuity -/

namespace Ex
open SF.FoldProofs.Examples

/-- `struct{A int; b string; C []string "n,omitempty"; D *struct{X bool} ",inline"}` with a
non-empty `C` (delivered as ONE typed-array event, `OnStringArray`) and a non-nil `D`: the struct
folder announces -1 (an `omitempty` and an inlined field), the typed array announces 1 -/
abbrev v5' : GoVal := .struct [.int 5, .str [120], .slice [.str [121]], .ptr (.struct [.bool true])]
abbrev r5' : RVal :=
  .obj [(false, [([97], .int 5)]), (false, [([110], .arr [.str [121]])]), (false, [([120], .bool true)])]

theorem wt5' : wt T5 v5' = true := by
  have hD : wt fD.typ (GoVal.struct [GoVal.bool true]).ptr = true := wtX
  unfold wt; simp only [GoType.under, wtF, lazyField, kA, kb, kC, kD, hD]
  decide +kernel

theorem spec5' : Rules.foldR T5 v5' = .ok r5' := by
  unfold Rules.foldR
  rw [tok5]
  simp only []
  rw [foldF_struct]
  simp only [List.zip_cons_cons, List.zip_nil_right, mapM_cons, mapM_nil, fieldF_eq, kA, kb, kC, kD]
  have h1 : foldF 99998 true fA.typ (GoVal.int 5) = .ok (.int 5) := rfl
  have h2 : isEmptyF 100000 fC.typ (GoVal.slice [.str [121]]) = false := rfl
  have h2' : foldF 99998 true fC.typ (GoVal.slice [.str [121]]) = .ok (.arr [.str [121]]) := rfl
  have h3 : inlineF 99998 true fD.typ (GoVal.struct [GoVal.bool true]).ptr =
      inlineF (99996 + 1) true (.struct [fX]) (.struct [.bool true]) := rfl
  rw [h1, h2, h3, inlineF_struct]
  simp only [h2', List.zip_cons_cons, List.zip_nil_right, mapM_cons, mapM_nil, fieldF_eq, kX]
  rfl

example : stageT 5 [] T5 = true ∧ wt T5 v5' = true ∧ Rules.foldR T5 v5' = .ok r5' ∧
    WF1 (expandAll (impl {} T5 v5').evs) = true :=
  ⟨stage5, wt5', spec5',
   fold_wf_stage 5 {} true _ _ _ stage5 wt5' ⟨by decide +kernel, by decide +kernel⟩ ⟨rfl, hintOK_nil⟩
     spec5' (by decide +kernel)⟩

end Ex

/- … and instances the kernel evaluates outright (no struct tags: the kernel cannot run
`String.splitOn`): `map[string][]*int32{"a": {nil, &5}, "b": nil}` with an order oracle asking
for "b" first, and `[]interface{}{int8(1), []string{"x"}, map[string]bool{"k": true}, nil}`
(typed array / typed map events inside the interface fast path) -/
example :
    let T : GoType := .map .string (.slice (.ptr (.int .i32)))
    let v : GoVal := .map [(.str [97], .slice [.nilPtr, .ptr (.int 5)]), (.str [98], .nilSlice)]
    let o : FoldOpts := { order := [.ev (.objStart 2 0), .ev (.key [98])] }
    goodT [] T = true ∧ wt T v = true ∧ (impl o T v).res = .ok ∧
      (impl o T v).evs.length = 10 ∧ WF1 (expandAll (impl o T v).evs) = true := by
  decide +kernel

example :
    let T : GoType := .slice .iface
    let v : GoVal := .slice [.iface (.int .i8) (.int 1), .iface (.slice .string) (.slice [.str [120]]),
      .iface (.map .string .bool) (.map [(.str [107], .bool true)]), .nilIface]
    goodT [] T = true ∧ wt T v = true ∧ (impl {} T v).res = .ok ∧
      (impl {} T v).evs.length = 6 ∧ (expandAll (impl {} T v).evs).length = 11 ∧
      WF1 (expandAll (impl {} T v).evs) = true := by
  decide +kernel

/- the prefix statement: the same map on a visitor failing at event 3 -/
example :
    let T : GoType := .map .string (.slice (.ptr (.int .i32)))
    let v : GoVal := .map [(.str [97], .slice [.nilPtr, .ptr (.int 5)]), (.str [98], .nilSlice)]
    (impl { failAt := some 3 } T v).res = .err .injected ∧
      (impl { failAt := some 3 } T v).evs = (impl {} T v).evs.take 4 ∧
      WF1 (expandAll (impl {} T v).evs) = true ∧
      WF1 (expandAll (impl { failAt := some 3 } T v).evs) = false := by
  decide +kernel

/- outside the universe the statement is FALSE, which is why `goodT` excludes custom folders:
the menagerie's `FOpen` (a `Fold` method that never closes its object) returns ok -/
example :
    let T : GoType := .named "FOpen" { folder := .value } (.struct [.mk "A" (.int .int) "" false])
    (impl {} T (.struct [.int 1])).res = .ok ∧
      WF1 (expandAll (impl {} T (.struct [.int 1])).evs) = false := by
  decide +kernel

end SF.FoldProofs.Wf
